import JanetModel.Lib.Boot6
import JanetModel.Lib.BootProofs
/- C17 (session 4): the mirrors of Lib/Boot6.lean (keep, mapcat, map-n 1 with any non-breaking aggregator, interleave of
   one / two columns, interpose) compute their declarative definitions for ALL inputs: no `(in ds k)` out of range, no
   `(put ret i v)` outside the pre-sized array, every loop ends within `length + 1` iterations. -/
namespace JanetModel.Lib.Boot
open JanetModel.Lib JanetModel.Lib.JIter

/-! ### keep / mapcat over one sequence -/

theorem foldl_push_filterMap {α β : Type} (pred : α → Option β) (l : List α) (acc : Array β) :
    (l.foldl (fun (res : Array β) x => keepAgg res (pred x)) acc).toList
      = acc.toList ++ l.filterMap pred := by
  induction l generalizing acc with
  | nil => simp
  | cons x xs ih =>
    simp only [List.foldl_cons, List.filterMap_cons]
    rw [ih]
    cases pred x <;> simp [keepAgg]

/-- ★ `keep`: the truthy results of `pred`, in order -/
theorem keep1_eq_spec {α β : Type} (pred : α → Option β) (ind : List α) : Boot.keep1 pred ind = .ok (ind.filterMap pred) := by
  unfold Boot.keep1
  rw [each_fold ind _ (fun (res : Array β) x => keepAgg res (pred x)) #[] (fun _ _ _ => rfl)]
  simp only [R.ok_bind, R.pure_eq]
  rw [foldl_push_filterMap]; simp

theorem foldl_append_flatMap {α β : Type} (f : α → List β) (l : List α) (acc : Array β) :
    (l.foldl (fun (res : Array β) x => res ++ (f x).toArray) acc).toList = acc.toList ++ l.flatMap f := by
  induction l generalizing acc with
  | nil => simp
  | cons x xs ih =>
    simp only [List.foldl_cons, List.flatMap_cons]
    rw [ih]; simp

/-- ★ `mapcat`: concatenation of the results -/
theorem mapcat1_eq_spec {α β : Type} (f : α → List β) (ind : List α) : Boot.mapcat1 f ind = .ok (ind.flatMap f) := by
  unfold Boot.mapcat1
  rw [each_fold ind _ (fun (res : Array β) x => res ++ (f x).toArray) #[] (fun _ _ _ => rfl)]
  simp only [R.ok_bind, R.pure_eq]
  rw [foldl_append_flatMap]; simp

/-! ### map-n 1 with any non-breaking aggregator stops at the shorter sequence -/

theorem zip_take_snoc {α β : Type} (a : List α) (b : List β) (i : Nat) (ha : i < a.length) (hb : i < b.length) :
    List.zip (a.take (i + 1)) (b.take (i + 1)) = List.zip (a.take i) (b.take i) ++ [(a[i], b[i])] := by
  have := zipWith_take_snoc Prod.mk a b i ha hb
  simpa [List.zip] using this

theorem zip_take_of_le {α β : Type} (a : List α) (b : List β) (n : Nat) (hn : min a.length b.length ≤ n) :
    List.zip (a.take n) (b.take n) = List.zip a b := by
  have := zipWith_take_of_le Prod.mk a b n hn
  simpa [List.zip] using this

/-- ★ the `map-n 1` loop folds the aggregator over the pairs, up to the shorter sequence; neither `(in ind k)` nor
    `(in ind0 key0)` is out of range -/
theorem mapN1_eq_spec {α β σ : Type} (agg : σ → α → β → σ) (init : σ) (ind : List α) (ind0 : List β) :
    Boot.mapN1 agg init ind ind0 = .ok ((List.zip ind ind0).foldl (fun s p => agg s p.1 p.2) init) := by
  unfold Boot.mapN1 each
  rw [nextKey_nil]
  obtain ⟨⟨res, key0⟩, hs, hP⟩ := eachLoop_inv ind (mapN1Body agg ind0)
    (fun i st => i ≤ ind0.length ∧ st.1 = (List.zip (ind.take i) (ind0.take i)).foldl (fun s p => agg s p.1 p.2) init
        ∧ st.2 = prevKey i)
    (fun st => st.1 = (List.zip ind ind0).foldl (fun s p => agg s p.1 p.2) init)
    (by
      intro i h ⟨res, key0⟩ ⟨hle, hres, hkey⟩
      simp only at hres hkey
      subst hkey
      simp only [mapN1Body, nextKey_prevKey, keyAt]
      by_cases hi0 : i < ind0.length
      · left
        simp only [hi0, if_true, inIdx_of_lt ind0 i hi0]
        refine ⟨_, rfl, by omega, ?_, by simp [prevKey]⟩
        simp only [hres]
        rw [zip_take_snoc ind ind0 i h hi0, List.foldl_append]
        rfl
      · right
        simp only [hi0, if_false]
        refine ⟨_, rfl, ?_⟩
        simp only [hres]
        rw [zip_take_of_le ind ind0 i (by omega)])
    (ind.length + 1) 0 (init, none) (by omega) (by omega) ⟨by omega, by simp, by simp [prevKey]⟩
  rw [hs]
  simp only [R.ok_bind, R.pure_eq]
  congr 1
  rcases hP with ⟨_, h, _⟩ | h
  · simp only at h
    rw [h, zip_take_of_le ind ind0 ind.length (by omega)]
  · exact h

theorem foldl_pairs_flatMap {α β γ : Type} (f : α → β → List γ) (l : List (α × β)) (acc : Array γ) :
    (l.foldl (fun (res : Array γ) p => res ++ (f p.1 p.2).toArray) acc).toList = acc.toList ++ l.flatMap (fun p => f p.1 p.2) :=
  foldl_append_flatMap (fun p => f p.1 p.2) l acc

/-- ★ `(mapcat f ind ind0)` -/
theorem mapcat2_eq_spec {α β γ : Type} (f : α → β → List γ) (ind : List α) (ind0 : List β) :
    Boot.mapcat2 f ind ind0 = .ok ((List.zip ind ind0).flatMap (fun p => f p.1 p.2)) := by
  unfold Boot.mapcat2
  rw [mapN1_eq_spec]
  simp only [R.ok_bind, R.pure_eq]
  rw [foldl_pairs_flatMap]; simp

/-- ★ `(keep pred ind ind0)` -/
theorem keep2_eq_spec {α β γ : Type} (pred : α → β → Option γ) (ind : List α) (ind0 : List β) :
    Boot.keep2 pred ind ind0 = .ok ((List.zip ind ind0).filterMap (fun p => pred p.1 p.2)) := by
  unfold Boot.keep2
  rw [mapN1_eq_spec]
  simp only [R.ok_bind, R.pure_eq]
  rw [foldl_push_filterMap (fun (p : α × β) => pred p.1 p.2)]; simp

/-- ★ `(count pred ind ind0)` -/
theorem count2_eq_spec {α β : Type} (pred : α → β → Bool) (ind : List α) (ind0 : List β) :
    Boot.count2 pred ind ind0 = .ok ((List.zip ind ind0).countP (fun p => pred p.1 p.2)) := by
  unfold Boot.count2
  rw [mapN1_eq_spec, foldl_count (fun (p : α × β) => pred p.1 p.2)]
  simp

example : Boot.mapcat2 (fun (a b : Nat) => [a, b]) [1, 2, 3] [10, 20] = .ok [1, 10, 2, 20] ∧
    Boot.keep1 (fun (a : Nat) => if a % 2 == 0 then some (a * a) else none) [1, 2, 3, 4] = .ok [4, 16] ∧
    Boot.count2 (fun (a b : Nat) => a < b) [1, 5, 3] [2, 4, 9, 9] = .ok 2 := by decide

/-! ### interleave = mapcat tuple -/

theorem range_flatMap_take {α β : Type} (l : List α) (g : α → List β) (h : Nat → List β)
    (hh : ∀ i (hi : i < l.length), h i = g l[i]) :
    ∀ n, n ≤ l.length → (List.range n).flatMap h = (l.take n).flatMap g := by
  intro n
  induction n with
  | zero => intro _; simp
  | succ n ih =>
    intro hn
    have hlt : n < l.length := by omega
    rw [List.range_succ, List.flatMap_append, ih (by omega), List.take_succ_eq_append_getElem hlt, List.flatMap_append]
    simp [hh n hlt]

/-- ★ `(interleave c0)` = `(mapcat tuple c0)` -/
theorem interleave1_eq_spec {α : Type} (c0 : List α) : Boot.interleave1 c0 = .ok (Lib.interleave [c0]) := by
  unfold Boot.interleave1
  rw [mapcat1_eq_spec]
  congr 1
  have h := range_flatMap_take c0 (fun x => [x]) (fun i => [c0].filterMap (fun c => c[i]?))
    (fun i hi => by simp [List.getElem?_eq_getElem hi]) c0.length (Nat.le_refl _)
  simp only [Lib.interleave, List.map_cons, List.map_nil, List.foldl_cons, List.foldl_nil, List.head!, Nat.min_self]
  rw [h, List.take_length]

/-- ★ `(interleave c0 c1)` = `(mapcat tuple c0 c1)`: rows up to the shorter column -/
theorem interleave2_eq_spec {α : Type} (c0 c1 : List α) : Boot.interleave2 c0 c1 = .ok (Lib.interleave [c0, c1]) := by
  unfold Boot.interleave2
  rw [mapcat2_eq_spec]
  congr 1
  have hl : (List.zip c0 c1).length = min c0.length c1.length := by simp
  have h := range_flatMap_take (List.zip c0 c1) (fun p => [p.1, p.2]) (fun i => [c0, c1].filterMap (fun c => c[i]?))
    (fun i hi => by
      have h0 : i < c0.length := by omega
      have h1 : i < c1.length := by omega
      simp [List.getElem?_eq_getElem h0, List.getElem?_eq_getElem h1, List.getElem_zip])
    (min c0.length c1.length) (by omega)
  simp only [Lib.interleave, List.map_cons, List.map_nil, List.foldl_cons, List.foldl_nil, List.head!, Nat.min_self]
  rw [h, ← hl, List.take_length]

example : Boot.interleave2 [1, 2, 3] [7, 8] = .ok [1, 7, 2, 8] ∧ Lib.interleave [[1, 2, 3], [7, 8]] = [1, 7, 2, 8] := by decide

/-! ### interpose -/

theorem interpose_length {α : Type} (sep : α) : ∀ l : List α, (Lib.interpose sep l).length = 2 * l.length - 1
  | [] => rfl
  | [_] => rfl
  | _ :: y :: rest => by
    have := interpose_length sep (y :: rest)
    simp only [Lib.interpose, List.length_cons] at this ⊢
    omega

theorem interpose_getElem? {α : Type} (sep : α) : ∀ (l : List α) (j : Nat), j < 2 * l.length - 1 →
    (Lib.interpose sep l)[j]? = if j % 2 = 0 then l[j / 2]? else some sep
  | [], j, h => by simp at h
  | [x], j, h => by
    have : j = 0 := by simp at h; omega
    subst this; simp [Lib.interpose]
  | x :: y :: rest, j, h => by
    match j with
    | 0 => simp [Lib.interpose]
    | 1 => simp [Lib.interpose]
    | j + 2 =>
      have ih := interpose_getElem? sep (y :: rest) j (by simp only [List.length_cons] at h ⊢; omega)
      simp only [Lib.interpose, List.getElem?_cons_succ]
      rw [ih]
      have h1 : (j + 2) % 2 = j % 2 := by omega
      have h2 : (j + 2) / 2 = j / 2 + 1 := by omega
      rw [h1, h2, List.getElem?_cons_succ]

/-- ★ `interpose` on an indexed / bytes value: the array pre-sized to `2·len − 1` and filled with `sep` receives element `k`
    at index `2k`; no `put` lands outside the array, `array/new-filled` never sees a negative count -/
theorem interpose_eq_spec {α : Type} (sep : α) (ind : List α) : Boot.interpose sep ind = .ok (Lib.interpose sep ind) := by
  unfold Boot.interpose
  by_cases hlen : 0 < ind.length
  · simp only [nextKey, hlen, if_true]
    have hn : ¬ (2 * (ind.length : Int) - 1 < 0) := by omega
    simp only [hn, if_false, R.ok_bind]
    have hsz : (2 * (ind.length : Int) - 1).toNat = 2 * ind.length - 1 := by omega
    rw [hsz]
    obtain ⟨⟨ret, i⟩, hs, hP⟩ := eachLoop_inv ind
      (fun _ x (st : Array α × Int) => do
        let ret ← setIdx st.1 st.2 x
        pure ((ret, st.2 + 2), false))
      (fun i st => st.2 = 2 * (i : Int) ∧ st.1.size = 2 * ind.length - 1 ∧
        ∀ j, j < 2 * ind.length - 1 → st.1[j]? = if j % 2 = 0 ∧ j / 2 < i then ind[j / 2]? else some sep)
      (fun _ => False)
      (by
        intro i h ⟨ret, ii⟩ ⟨hi, hsize, hcells⟩
        simp only at hi hsize hcells
        subst hi
        left
        have h0 : ¬ (2 * (i : Int) < 0) := by omega
        have h1 : (2 * (i : Int)).toNat = 2 * i := by omega
        have h2 : 2 * i < ret.size := by omega
        refine ⟨(ret.setIfInBounds (2 * i) ind[i], 2 * ((i + 1 : Nat) : Int)), ?_, rfl, by simp [hsize], ?_⟩
        · simp only [setIdx, h0, if_false, h1, h2, if_true, R.ok_bind, R.pure_eq]
          congr 2
        · intro j hj
          simp only [Array.getElem?_setIfInBounds]
          by_cases hj2 : 2 * i = j
          · subst hj2
            have : 2 * i % 2 = 0 ∧ 2 * i / 2 < i + 1 := by omega
            simp only [h2, if_true, this, and_self]
            have : 2 * i / 2 = i := by omega
            rw [this, List.getElem?_eq_getElem h]
          · simp only [hj2, if_false]
            rw [hcells j hj]
            by_cases hc : j % 2 = 0 ∧ j / 2 < i
            · have : j % 2 = 0 ∧ j / 2 < i + 1 := by omega
              simp only [hc, this, and_self, if_true]
            · have : ¬ (j % 2 = 0 ∧ j / 2 < i + 1) := by omega
              simp only [hc, this, if_false])
      (ind.length + 1) 0 (Array.replicate (2 * ind.length - 1) sep, 0) (by omega) (by omega)
      ⟨by simp, by simp, by
        intro j hj
        have : ¬ (j % 2 = 0 ∧ j / 2 < 0) := by omega
        simp only [this, if_false]
        rw [Array.getElem?_replicate]; simp [hj]⟩
    have hk : (some 0 : Option Nat) = keyAt ind.length 0 := by simp [keyAt, hlen]
    rw [hk, hs]
    simp only [R.ok_bind, R.pure_eq]
    congr 1
    rcases hP with ⟨_, hsize, hcells⟩ | hF
    · simp only at hsize hcells
      apply List.ext_getElem?
      intro j
      by_cases hj : j < 2 * ind.length - 1
      · rw [interpose_getElem? sep ind j hj, Array.getElem?_toList, hcells j hj]
        by_cases hc : j % 2 = 0
        · have : j / 2 < ind.length := by omega
          simp only [hc, this, and_self, if_true]
        · simp only [hc, false_and, if_false]
      · rw [List.getElem?_eq_none (by simp [hsize]; omega), List.getElem?_eq_none (by rw [interpose_length]; omega)]
    · exact absurd hF id
  · have : ind = [] := by
      cases ind with
      | nil => rfl
      | cons _ _ => simp at hlen
    subst this
    rfl

example : Boot.interpose 0 [1, 2, 3] = .ok [1, 0, 2, 0, 3] ∧ Boot.interpose 0 ([] : List Nat) = .ok [] := by decide

end JanetModel.Lib.Boot
