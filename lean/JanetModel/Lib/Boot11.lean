import JanetModel.Lib.Boot6
/- C17 (session 4): boot.janet `map-n n` for EVERY n (the macro's expansion, of which map-template instantiates n = 1, 2, 3)
   and the general branch of `map-template` (≥ 4 extra sequences: `iter-keys` / `call-buffer` arrays, `forv` with `(break)`,
   `done` flag), with any aggregator that does not itself `(break)` (:map, :mapcat, :keep, :count).  Core Lean only.

     (defmacro- map-n [n maptype res f ind inds]
       ~(do (def ,(seq [k :range [0 n]] (symbol 'ind k)) ,inds)
            ,;(seq [k :range [0 n]] ~(var ,(symbol 'key k) nil))
            (each x ,ind
              ,;(seq [k :range [0 n]] ~(if (= nil (set ,(symbol 'key k) (next ,(symbol 'ind k) ,(symbol 'key k)))) (break)))
              (map-aggregator ,maptype ,res (,f x ,;(seq [k :range [0 n]] ~(in ,(symbol 'ind k) ,(symbol 'key k))))))))

   The extra sequences are a list `inds`, the variables `key0 … key(n-1)` a list of the same length. -/
namespace JanetModel.Lib.Boot
open JanetModel.Lib JanetModel.Lib.JIter

/-- the `n` statements `(if (= nil (set keyK (next indK keyK))) (break))` in order; `none` = `(break)` -/
def advanceKeys {β : Type} : List (List β) → List (Option Nat) → Option (List Nat)
  | [], _ => some []
  | _ :: _, [] => none
  | ind :: inds, key :: keys =>
    match nextKey ind.length key with
    | none => none
    | some k =>
      match advanceKeys inds keys with
      | none => none
      | some ks => some (k :: ks)

/-- the arguments `(in ind0 key0) … (in ind(n-1) key(n-1))` -/
def fetchRow {β : Type} : List (List β) → List Nat → R (List β)
  | ind :: inds, k :: ks => do
    let v ← inIdx ind k
    let vs ← fetchRow inds ks
    pure (v :: vs)
  | _, _ => .ok []

def mapNBody {α β γ σ : Type} (agg : σ → γ → σ) (f : α → List β → γ) (inds : List (List β)) (_ : Nat) (x : α)
    (st : σ × List (Option Nat)) : R ((σ × List (Option Nat)) × Bool) :=
  match advanceKeys inds st.2 with
  | none => .ok (st, true)                                             -- (break)
  | some ks =>
    match fetchRow inds ks with
    | .ok row => .ok ((agg st.1 (f x row), ks.map some), false)        -- (map-aggregator maptype res (f x …))
    | .panic => .panic
    | .ub => .ub

def mapN {α β γ σ : Type} (agg : σ → γ → σ) (f : α → List β → γ) (init : σ) (ind : List α) (inds : List (List β)) : R σ := do
  let st ← each ind (mapNBody agg f inds) (init, inds.map (fun _ => none))
  pure st.1

/-! ## the general branch of map-template

     (do (def iter-keys (array/new-filled ninds)) (def call-buffer (array/new-filled ninds)) (var done false)
         (each x ind
           (forv i 0 ninds
             (let [old-key (in iter-keys i) ii (in inds i) new-key (next ii old-key)]
               (if (= nil new-key)
                 (do (set done true) (break))
                 (do (set (iter-keys i) new-key) (set (call-buffer i) (in ii new-key))))))
           (if done (break))
           (map-aggregator maptype res (f x ;call-buffer)))) -/

structure GenSt (β σ : Type) where
  res : σ
  iterKeys : Array (Option Nat)
  callBuffer : Array (Option β)          -- `array/new-filled ninds` = nils
  done : Bool

/-- the `forv i 0 ninds` loop (`forv` = `(var i 0) (while (< i ninds) … (++ i))`); returns the two arrays and `done` -/
def fillCallBuffer {β : Type} (inds : Array (List β)) :
    Nat → Nat → Array (Option Nat) → Array (Option β) → R (Array (Option Nat) × Array (Option β) × Bool)
  | 0, _, iterKeys, callBuffer => .ok (iterKeys, callBuffer, false)
  | fuel + 1, i, iterKeys, callBuffer =>
    match iterKeys[i]?, inds[i]? with                                  -- (in iter-keys i) (in inds i): raise if out of range
    | some oldKey, some ii =>
      match nextKey ii.length oldKey with                              -- (next ii old-key)
      | none => .ok (iterKeys, callBuffer, true)                       -- (set done true) (break)
      | some newKey =>
        match inIdx ii newKey with                                     -- (in ii new-key)
        | .ok v =>
          match setIdx iterKeys (i : Int) (some newKey) with           -- (set (iter-keys i) new-key)
          | .ok iterKeys' =>
            match setIdx callBuffer (i : Int) (some v) with            -- (set (call-buffer i) …)
            | .ok callBuffer' => fillCallBuffer inds fuel (i + 1) iterKeys' callBuffer'
            | .panic => .panic
            | .ub => .ub
          | .panic => .panic
          | .ub => .ub
        | .panic => .panic
        | .ub => .ub
    | _, _ => .panic

def mapGenBody {α β γ σ : Type} (agg : σ → γ → σ) (f : α → List β → γ) (inds : Array (List β)) (_ : Nat) (x : α)
    (st : GenSt β σ) : R (GenSt β σ × Bool) :=
  match fillCallBuffer inds inds.size 0 st.iterKeys st.callBuffer with
  | .ok (ik, cb, done) =>
    if done then .ok ({ st with iterKeys := ik, callBuffer := cb, done := true }, true)     -- (if done (break))
    else .ok ({ res := agg st.res (f x (cb.toList.filterMap id)), iterKeys := ik, callBuffer := cb, done := false }, false)
  | .panic => .panic
  | .ub => .ub

def mapGen {α β γ σ : Type} (agg : σ → γ → σ) (f : α → List β → γ) (init : σ) (ind : List α) (inds : List (List β)) : R σ := do
  let n := inds.length
  let st ← each ind (mapGenBody agg f inds.toArray)
    { res := init, iterKeys := Array.replicate n none, callBuffer := Array.replicate n none, done := false }
  pure st.res

/-- what both compute: the aggregator folded over the rows `j < m`, `m` the length of the shortest sequence -/
def mapRows {α β γ σ : Type} (agg : σ → γ → σ) (f : α → List β → γ) (init : σ) (ind : List α) (inds : List (List β)) : σ :=
  let m := (inds.map List.length).foldl min ind.length
  (List.range m).foldl (fun s j => match ind[j]? with
    | some x => agg s (f x (inds.filterMap (fun c => c[j]?)))
    | none => s) init

end JanetModel.Lib.Boot
