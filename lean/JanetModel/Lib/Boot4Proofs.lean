import JanetModel.Lib.Boot2
import JanetModel.Lib.BootProofs
/- C17: `distinct` (boot.janet: `ret` array + `seen` table walked by `each`) equals the declarative `Spec.distinct`. -/
namespace JanetModel.Lib.Boot
open JanetModel.Lib JanetModel.Lib.JIter

/-- the fold performed by the loop, on lists -/
def distinctFold {α : Type} [BEq α] (st : Array α × List α) (x : α) : Array α × List α :=
  if st.2.contains x then st else (st.1.push x, x :: st.2)

theorem distinctFold_spec {α : Type} [BEq α] [LawfulBEq α] (xs : List α) (ret : Array α) (seen : List α)
    (hs : ∀ y, seen.contains y = ret.toList.contains y) :
    (xs.foldl distinctFold (ret, seen)).1.toList
      = ret.toList ++ (Lib.distinct xs).filter (fun y => !ret.toList.contains y) := by
  induction xs generalizing ret seen with
  | nil => simp [Lib.distinct]
  | cons x xs ih =>
    simp only [List.foldl_cons, Lib.distinct]
    by_cases hx : seen.contains x = true
    · have hx' : ret.toList.contains x = true := by rw [← hs]; exact hx
      simp only [distinctFold, hx, if_true]
      rw [ih ret seen hs]
      congr 1
      simp only [List.filter_cons, hx', Bool.not_true, Bool.false_eq_true, if_false, List.filter_filter]
      apply List.filter_congr
      intro y _
      by_cases hy : ret.toList.contains y = true
      · simp only [hy, Bool.not_true, Bool.false_and]
      · have hne : (y == x) = false := by
          cases h : (y == x) with
          | false => rfl
          | true => rw [eq_of_beq h] at hy; exact absurd hx' hy
        simp only [Bool.not_eq_true] at hy
        simp only [hy, hne, Bool.not_false, Bool.and_true, Bool.true_and]
    · simp only [Bool.not_eq_true] at hx
      have hx' : ret.toList.contains x = false := by
        rw [← hs]; exact hx
      simp only [distinctFold, hx, Bool.false_eq_true, if_false]
      rw [ih (ret.push x) (x :: seen) (by
        intro y
        simp only [List.contains_cons, Array.toList_push, List.contains_append, List.contains_nil, Bool.or_false, hs y]
        rw [Bool.or_comm])]
      simp only [Array.toList_push, List.append_assoc, List.singleton_append]
      congr 1
      simp only [List.filter_cons, hx', Bool.not_false, if_true, List.filter_filter]
      congr 1
      apply List.filter_congr
      intro y _
      simp only [List.contains_append, List.contains_cons, List.contains_nil, Bool.or_false, Bool.not_or]
      try rw [Bool.and_comm]

/-- ★ `distinct`: first occurrences in order (for a lawful equality on the elements) -/
theorem distinct_eq_spec {α : Type} [BEq α] [LawfulBEq α] (xs : List α) : Boot.distinct xs = .ok (Lib.distinct xs) := by
  unfold Boot.distinct
  rw [each_fold xs _ distinctFold (#[], []) (fun _ x st => by
    unfold distinctFold
    cases h : st.2.contains x <;> simp only [h, if_true, if_false, Bool.false_eq_true])]
  simp only [R.ok_bind, R.pure_eq]
  rw [distinctFold_spec xs #[] [] (fun y => by simp)]
  simp

example : Boot.distinct [3, 1, 3, 2, 1] = .ok [3, 1, 2] := by decide

end JanetModel.Lib.Boot
