import JanetModel.Lib.Sort
import JanetModel.Lib.ArrC
/- C17 (session 4): the boot.janet wrappers around `sort` (mirror: Lib/Sort.lean).  Core Lean only.

     (defn sort-by [f ind] (sort ind (fn :sort-by-comp [x y] (< (f x) (f y)))))
     (defn sorted [ind &opt before?] (sort (array/slice ind) before?))
     (defn sorted-by [f ind] (sorted ind (fn :sorted-by-comp [x y] (< (f x) (f y)))))

   `lt` is janet's polymorphic `<` on the keys; `(array/slice ind)` is the mirror `ArrC.slice` of cfun_array_slice with
   both range arguments absent (a fresh array: the argument of `sorted` is not modified). -/
namespace JanetModel.Lib.Boot
open JanetModel.Lib

/-- the comparator `(fn [x y] (< (f x) (f y)))` -/
def byKey {α κ : Type} (lt : κ → κ → Bool) (f : α → κ) : α → α → Bool := fun x y => lt (f x) (f y)

def sortBy {α κ : Type} (le : α → α → Bool) (lt : κ → κ → Bool) (f : α → κ) (a : Array α) : Sort.Res (Array α) :=
  Sort.sort le (byKey lt f) a

def sorted {α : Type} [Inhabited α] (le before : α → α → Bool) (ind : List α) : Sort.Res (Array α) :=
  match ArrC.slice ind none none with                 -- (array/slice ind)
  | .ok copy => Sort.sort le before copy.toArray
  | _ => .err

def sortedBy {α κ : Type} [Inhabited α] (le : α → α → Bool) (lt : κ → κ → Bool) (f : α → κ) (ind : List α) :
    Sort.Res (Array α) :=
  sorted le (byKey lt f) ind

end JanetModel.Lib.Boot
