import JanetModel.Lib.ArrC
import JanetModel.Lib.SpecLaws
/- C17: `array/insert`, `array/remove`, `array/slice` / `tuple/slice` as mirrored in Lib/ArrC.lean compute the reference
   definitions: index decode, range errors, the clamp of `n`, the two `memmove`s and the `memcpy` stay inside the block. -/
namespace JanetModel.Lib.ArrC
open JanetModel.Lib JanetModel.Lib.CLoop

theorem getinteger_eq (x : Int) : getinteger x = R.ofOption (getInt32 x) := by
  unfold getinteger getInt32 in32
  by_cases h : int32Min ≤ x ∧ x ≤ int32Max <;> simp [h]

theorem lists_insert {α : Type} (p q junk xs : List α) (hj : junk.length = xs.length) :
    splice (List.take (p.length + xs.length) (p ++ q ++ junk) ++ List.take q.length (List.drop p.length (p ++ q ++ junk))
        ++ List.drop (p.length + xs.length + q.length) (p ++ q ++ junk)) p.length xs = p ++ xs ++ q := by
  have h1 : List.take (p.length + xs.length) (p ++ q ++ junk) = p ++ List.take xs.length (q ++ junk) := by
    rw [List.append_assoc, List.take_append, List.take_of_length_le (by omega), Nat.add_sub_cancel_left]
  have h2 : List.drop p.length (p ++ q ++ junk) = q ++ junk := by
    rw [List.append_assoc, List.drop_left' rfl]
  have h3 : List.drop (p.length + xs.length + q.length) (p ++ q ++ junk) = [] := by
    apply List.drop_of_length_le; simp; omega
  rw [h1, h2, h3, List.take_left' rfl, List.append_nil]
  unfold splice
  have hm : (List.take xs.length (q ++ junk)).length = xs.length := by simp; omega
  rw [List.append_assoc p, List.take_left' rfl]
  have : p.length + xs.length = (p ++ List.take xs.length (q ++ junk)).length := by simp [hm]
  rw [← List.append_assoc p, this, List.drop_left' rfl]

/-- ★ `array/insert arr at & xs` for EVERY `at`: non-int32 / out-of-range index raises; negative `at` counts from one past
    the end; the decode `count + at + 1` never overflows; `memmove` of the tail and `memcpy` of the new elements stay
    inside the grown block; the result is `take at ++ xs ++ drop at`.  (Hypothesis: the new length fits an int32 — otherwise
    the C raises "array overflow".) -/
theorem insert_eq_spec {α : Type} [Inhabited α] (a : List α) (at_ : Int) (xs : List α)
    (hlen : (a.length : Int) + (xs.length : Int) ≤ int32Max) :
    ArrC.insert a at_ xs = R.ofOption (arrayInsert a at_ xs) := by
  unfold ArrC.insert arrayInsert
  rw [getinteger_eq]
  cases hg : getInt32 at_ with
  | none => rfl
  | some raw =>
    have hraw : int32Min ≤ raw ∧ raw ≤ int32Max := by
      unfold getInt32 at hg
      by_cases h : int32Min ≤ at_ ∧ at_ ≤ int32Max
      · simp [h] at hg; subst hg; exact h
      · simp [h] at hg
    unfold int32Min int32Max at hraw
    unfold int32Max at hlen
    simp only [R.ofOption_some, R.ok_bind]
    -- the decoded index
    have hdec : (if raw < 0 then (do let t ← add32 (a.length : Int) raw; add32 t 1) else pure raw : R Int)
        = .ok (if raw < 0 then (a.length : Int) + raw + 1 else raw) := by
      by_cases hneg : raw < 0
      · have i1 : in32 ((a.length : Int) + raw) = true := by
          unfold in32 int32Min int32Max; simp only [decide_eq_true_eq]; omega
        have i2 : in32 ((a.length : Int) + raw + 1) = true := by
          unfold in32 int32Min int32Max; simp only [decide_eq_true_eq]; omega
        simp [hneg, add32, i1, i2]
      · simp [hneg]
    rw [hdec]
    simp only [R.ok_bind]
    generalize hi : (if raw < 0 then (a.length : Int) + raw + 1 else raw) = i
    by_cases hr : i < 0 ∨ i > (a.length : Int)
    · simp [hr]
    · simp only [hr, if_false]
      have hov : ¬ (int32Max - (xs.length : Int) < (a.length : Int)) := by unfold int32Max; omega
      simp only [hov, if_false]
      obtain ⟨k, rfl⟩ : ∃ k : Nat, i = (k : Int) := ⟨i.toNat, by omega⟩
      have hk : k ≤ a.length := by omega
      simp only [Int.toNat_natCast, R.ofOption_some]
      -- split a = p ++ q at k
      obtain ⟨p, q, hpq, hp⟩ : ∃ p q, a = p ++ q ∧ p.length = k :=
        ⟨a.take k, a.drop k, (List.take_append_drop k a).symm, by simp; omega⟩
      subst hpq
      subst hp
      have hD : (((p ++ q).toArray ++ Array.replicate xs.length (default : α))).toList
          = p ++ q ++ List.replicate xs.length default := by simp
      have hDsz : ((p ++ q).toArray ++ Array.replicate xs.length (default : α)).size = p.length + q.length + xs.length := by
        simp
      have hrest : ((p ++ q).length : Int) - (p.length : Int) = (q.length : Int) := by simp; omega
      rw [hrest]
      have key := lists_insert p q (List.replicate xs.length default) xs (by simp)
      have hspec : List.take p.length (p ++ q) ++ xs ++ List.drop p.length (p ++ q) = p ++ xs ++ q := by
        rw [List.take_left' rfl, List.drop_left' rfl]
      rw [hspec]
      by_cases hq : q = []
      · subst hq
        simp only [List.length_nil, Int.natCast_zero, ne_eq, not_true_eq_false, if_false, R.pure_eq, R.ok_bind]
        rw [memcpy_whole _ xs p.length (by simp)]
        simp only [R.ok_bind, hD, List.toList_toArray]
        congr 1
        unfold splice
        simp only [List.append_nil]
        rw [List.take_left' rfl, List.drop_of_length_le (by simp)]
        simp only [List.append_nil]
        apply List.take_of_length_le; simp
      · have hq' : (q.length : Int) ≠ 0 := by
          have := List.length_pos_iff.mpr hq; omega
        simp only [hq', if_true, Int.toNat_natCast, ne_eq, not_false_eq_true]
        unfold memmove
        have e1 : (p.length : Int) + (xs.length : Int) = ((p.length + xs.length : Nat) : Int) := by omega
        rw [e1, memcpy_spec _ _ (p.length + xs.length) p.length q.length (by rw [hDsz]; omega) (by rw [hDsz]; omega)]
        simp only [R.ok_bind, hD]
        rw [memcpy_whole _ xs p.length (by simp <;> omega)]
        simp only [R.ok_bind, R.pure_eq, List.toList_toArray]
        rw [key]
        congr 1
        apply List.take_of_length_le; simp; omega

example : ArrC.insert [1, 2, 3] (-1) [9, 8] = .ok [1, 2, 3, 9, 8] ∧ ArrC.insert [1, 2, 3] 1 [9] = .ok [1, 9, 2, 3]
    ∧ ArrC.insert [1, 2, 3] (-5) [9] = .panic ∧ ArrC.insert [1, 2] 4294967296 [9] = .panic := by decide

theorem lists_remove {α : Type} (p r q : List α) :
    List.take (p.length + q.length)
      (List.take p.length (p ++ r ++ q) ++ List.take q.length (List.drop (p.length + r.length) (p ++ r ++ q))
        ++ List.drop (p.length + q.length) (p ++ r ++ q)) = p ++ q := by
  have h1 : List.take p.length (p ++ r ++ q) = p := by rw [List.append_assoc, List.take_left' rfl]
  have h2 : List.drop (p.length + r.length) (p ++ r ++ q) = q := by
    have : p.length + r.length = (p ++ r).length := by simp
    rw [this, List.drop_left' rfl]
  rw [h1, h2, List.take_length]
  have : p.length + q.length = (p ++ q).length := by simp
  rw [this, List.take_left' rfl]

/-- ★ `array/remove arr at &opt n` for EVERY int32 `at` and `n` (e.g. `n = 2147483647`): errors for an out-of-range index
    or a negative `n`; `n` is clamped to the elements available, so neither `at + n` nor `count - at - n` overflows and
    the `memmove` stays inside the array; the result is `take at ++ drop (at + n)`. -/
theorem remove_eq_spec {α : Type} (a : List α) (at_ : Int) (n : Option Int) (hL : Len32 a) :
    ArrC.remove a at_ n = R.ofOption (arrayRemove a at_ (n.getD 1)) := by
  unfold ArrC.remove arrayRemove
  unfold Len32 int32Max at hL
  rw [getinteger_eq]
  cases hg : getInt32 at_ with
  | none => cases getInt32 (n.getD 1) <;> rfl
  | some raw =>
    have hraw : int32Min ≤ raw ∧ raw ≤ int32Max := by
      unfold getInt32 at hg
      by_cases h : int32Min ≤ at_ ∧ at_ ≤ int32Max
      · simp [h] at hg; subst hg; exact h
      · simp [h] at hg
    unfold int32Min int32Max at hraw
    simp only [R.ofOption_some, R.ok_bind]
    have hdec : (if raw < 0 then add32 (a.length : Int) raw else pure raw : R Int)
        = .ok (if raw < 0 then (a.length : Int) + raw else raw) := by
      by_cases hneg : raw < 0
      · have i1 : in32 ((a.length : Int) + raw) = true := by
          unfold in32 int32Min int32Max; simp only [decide_eq_true_eq]; omega
        simp [hneg, add32, i1]
      · simp [hneg]
    rw [hdec]
    simp only [R.ok_bind]
    -- the decoded n
    have hn : decodeN n
        = (match getInt32 (n.getD 1) with | none => R.panic | some v => if v < 0 then R.panic else R.ok v) := by
      unfold decodeN
      cases n with
      | none => simp [getInt32, int32Min, int32Max]
      | some x =>
        simp only [Option.getD_some, getinteger_eq]
        cases getInt32 x <;> simp
    generalize hi : (if raw < 0 then (a.length : Int) + raw else raw) = i
    cases hgn : getInt32 (n.getD 1) with
    | none =>
      simp only [R.ofOption_none]
      by_cases hr : i < 0 ∨ i > (a.length : Int)
      · simp [hr]
      · simp [hr, hn, hgn]
    | some v =>
      simp only [hi]
      have hv : int32Min ≤ v ∧ v ≤ int32Max := by
        unfold getInt32 at hgn
        by_cases h : int32Min ≤ n.getD 1 ∧ n.getD 1 ≤ int32Max
        · simp [h] at hgn; subst hgn; exact h
        · simp [h] at hgn
      by_cases hr : i < 0 ∨ i > (a.length : Int)
      · simp [hr]
      · rw [hn, hgn]
        simp only [hr, if_false]
        have hr' : ¬ (i < 0 ∨ (a.length : Int) < i) := by omega
        try simp only [hr', if_false]
        unfold int32Min int32Max at hv
        by_cases hvn : v < 0
        · simp [hvn]
        · simp only [hvn, if_false, R.ok_bind, R.ofOption_some]
          obtain ⟨k, rfl⟩ : ∃ k : Nat, i = (k : Int) := ⟨i.toNat, by omega⟩
          have hk : k ≤ a.length := by omega
          have i1 : in32 ((a.length : Int) - (k : Int)) = true := by
            unfold in32 int32Min int32Max; simp only [decide_eq_true_eq]; omega
          simp only [sub32, i1, if_true, R.ok_bind]
          -- clamped n
          generalize hc : (if v > (a.length : Int) - (k : Int) then (a.length : Int) - (k : Int) else v) = c
          have hc0 : 0 ≤ c ∧ c ≤ (a.length : Int) - (k : Int) ∧ (c = v ∨ (c = (a.length : Int) - (k : Int) ∧ v > c)) := by
            by_cases h : v > (a.length : Int) - (k : Int)
            · simp [h] at hc; omega
            · simp [h] at hc; omega
          obtain ⟨m, rfl⟩ : ∃ m : Nat, c = (m : Int) := ⟨c.toNat, by omega⟩
          by_cases hm : (m : Int) > 0
          · simp only [hm, if_true]
            have i2 : in32 ((k : Int) + (m : Int)) = true := by
              unfold in32 int32Min int32Max; simp only [decide_eq_true_eq]; omega
            have i3 : in32 ((a.length : Int) - (k : Int) - (m : Int)) = true := by
              unfold in32 int32Min int32Max; simp only [decide_eq_true_eq]; omega
            have i4 : in32 ((a.length : Int) - (m : Int)) = true := by
              unfold in32 int32Min int32Max; simp only [decide_eq_true_eq]; omega
            have hnn : ¬ ((a.length : Int) - (k : Int) - (m : Int) < 0) := by omega
            simp only [add32, i2, if_true, R.ok_bind, i3, hnn, if_false, i4]
            -- a = p ++ r ++ q
            obtain ⟨p, r, q, hprq, hp, hrl⟩ : ∃ p r q, a = p ++ r ++ q ∧ p.length = k ∧ r.length = m := by
              refine ⟨a.take k, (a.drop k).take m, a.drop (k + m), ?_, by simp; omega, by simp; omega⟩
              rw [List.append_assoc, ← List.drop_drop, List.take_append_drop, List.take_append_drop]
            subst hprq; subst hp; subst hrl
            have e1 : (((p ++ r ++ q).length : Nat) : Int) - (p.length : Int) - (r.length : Int) = (q.length : Int) := by
              simp; omega
            have e2 : (p.length : Int) + (r.length : Int) = ((p.length + r.length : Nat) : Int) := by omega
            have e3 : (((p ++ r ++ q).length : Nat) : Int) - (r.length : Int) = ((p.length + q.length : Nat) : Int) := by
              simp; omega
            rw [e1, e2, e3]
            unfold memmove
            simp only [Int.toNat_natCast]
            rw [memcpy_spec _ _ p.length (p.length + r.length) q.length (by simp <;> omega) (by simp <;> omega)]
            simp only [R.ok_bind, R.pure_eq, List.toList_toArray]
            rw [lists_remove]
            congr 1
            have h1 : List.take p.length (p ++ r ++ q) = p := by rw [List.append_assoc, List.take_left' rfl]
            rw [h1]
            congr 1
            rcases hc0.2.2 with h | ⟨h1', h2'⟩
            · have : v.toNat = r.length := by omega
              rw [this]
              have : p.length + r.length = (p ++ r).length := by simp
              rw [this, List.drop_left' rfl]
            · -- n was clamped: q is empty and the unclamped drop is empty too
              have hq : q = [] := by
                have : q.length = 0 := by simp at h1'; omega
                cases q with
                | nil => rfl
                | cons x xs => simp at this
              subst hq
              symm
              apply List.drop_of_length_le
              simp; omega
          · have hm0 : m = 0 := by omega
            subst hm0
            simp only [hm, if_false, R.pure_eq]
            congr 1
            rcases hc0.2.2 with h | ⟨h1', h2'⟩
            · have : v.toNat = 0 := by omega
              rw [this]; simp
            · have : k = a.length := by omega
              subst this
              simp

example : ArrC.remove [1, 2, 3] 1 (some 2147483647) = .ok [1] ∧ ArrC.remove [1, 2, 3] (-1) none = .ok [1, 2]
    ∧ ArrC.remove [1, 2, 3] 3 none = .ok [1, 2, 3] ∧ ArrC.remove [1, 2, 3] 4 none = .panic
    ∧ ArrC.remove [1, 2, 3] 0 (some (-1)) = .panic := by decide

/-- ★ `array/slice` / `tuple/slice`: decode by `janet_getslice`, copy inside the view -/
theorem slice_eq_spec {α : Type} [Inhabited α] (l : List α) (st en : Option Int) :
    ArrC.slice l st en = R.ofOption (Lib.slice l st en) := by
  unfold ArrC.slice Lib.slice
  cases hg : getslice st en l.length with
  | none => rfl
  | some ab =>
    obtain ⟨a, b⟩ := ab
    obtain ⟨hab, hbl⟩ := getslice_some hg
    have hnn : ¬ ((b : Int) - (a : Int) < 0) := by omega
    simp only [hnn, if_false, R.ofOption_some]
    have := memcpy_spec (Array.replicate (b - a) (default : α)) l.toArray 0 a (b - a) (by simp; omega) (by simp)
    simp only [Int.natCast_zero] at this
    rw [this]
    simp

end JanetModel.Lib.ArrC
