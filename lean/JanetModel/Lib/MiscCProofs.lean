import JanetModel.Lib.ArrCProofs
import JanetModel.Lib.StrCProofs
/- C17: `array/fill` and `string/from-bytes` (a variadic loop that raises at the first non-int32 argument). -/
namespace JanetModel.Lib.ArrC
open JanetModel.Lib JanetModel.Lib.CLoop

/-- ★ `array/fill` -/
theorem fill_eq_spec {α : Type} (a : List α) (x : α) : ArrC.fill a x = .ok (arrayFill a x) := by
  unfold ArrC.fill arrayFill
  rw [fill_loop_from a.length a.toArray (by simp) _ (fun _ => x) (fun i buf hi hsz => setIdx_ok _ _ _ (by omega))]
  simp only [R.ok_bind, R.pure_eq]
  congr 1
  apply List.ext_getElem?
  intro k
  by_cases hk : k < a.length <;> simp [hk]

end JanetModel.Lib.ArrC

namespace JanetModel.Lib.StrC
open JanetModel.Lib JanetModel.Lib.CLoop

theorem getInt32_in32 (x : Int) : getInt32 x = if in32 x then some x else none := by
  unfold getInt32 in32
  by_cases hx : int32Min ≤ x ∧ x ≤ int32Max <;> simp [hx]

theorem mapM_getInt32 (l : List Int) :
    l.mapM getInt32 = if l.all (fun x => in32 x) then some l else none := by
  induction l with
  | nil => rfl
  | cons x xs ih =>
    rw [List.mapM_cons, ih, getInt32_in32, List.all_cons]
    cases h1 : in32 x <;> cases h2 : xs.all (fun x => in32 x) <;> simp

/-- ★ `string/from-bytes & byte-vals`: every argument is decoded by `janet_getinteger` (a non-int32 number raises, at the
    first such argument), each byte is `c & 0xFF` -/
theorem fromBytes_eq_spec (argv : List Int) :
    StrC.fromBytes argv = R.ofOption ((argv.mapM getInt32).map (fun l => l.map toByte)) := by
  unfold StrC.fromBytes
  rw [mapM_getInt32]
  by_cases hall : argv.all (fun x => in32 x) = true
  · simp only [hall, if_true, Option.map_some, R.ofOption_some]
    rw [fill_loop argv.length 0 _ (fun k => toByte (argv.getD k 0))
      (fun i buf hi hsz => by
        rw [idx_list_ok argv i hi]
        have : in32 argv[i] = true := by
          rw [List.all_eq_true] at hall
          exact hall _ (List.getElem_mem hi)
        simp only [R.ok_bind, getinteger, this, if_true, getD_of_lt argv 0 i hi]
        exact setIdx_ok _ _ _ (by omega))]
    simp only [R.ok_bind, R.pure_eq]
    congr 1
    have := congrArg (List.map toByte) (range_map_getElem argv 0)
    rw [List.map_map] at this
    exact this
  · simp only [hall, Bool.false_eq_true, if_false, Option.map_none, R.ofOption_none]
    -- the first offending argument
    have hex : ∃ x ∈ argv, (fun x => !in32 x) x = true := by
      simp only [Bool.not_eq_true] at hall
      rw [List.all_eq_false] at hall
      obtain ⟨x, h1, h2⟩ := hall
      exact ⟨x, h1, by simpa using h2⟩
    let m := argv.findIdx (fun x => !in32 x)
    have hm : m < argv.length := List.findIdx_lt_length_of_exists hex
    have hbad : (!in32 argv[m]) = true := List.findIdx_getElem (w := hm)
    have hgood : ∀ j (hj : j < m), in32 (argv[j]'(by omega)) = true := by
      intro j hj
      have := List.not_of_lt_findIdx (p := fun x => !in32 x) (xs := argv) hj
      simpa using this
    have := forUp_panic
      (fun i (buf : Array Nat) => (do
        let a ← idx argv.toArray (i : Int)
        let c ← getinteger a
        setIdx buf (i : Int) (toByte c) : R (Array Nat)))
      (fun _ buf => buf.size = argv.length) argv.length 0 (Array.replicate argv.length 0) m hm (by simp)
      (by
        intro j t _ hj hsz
        have hj' : j < argv.length := by omega
        rw [idx_list_ok argv j hj']
        have := hgood j (by omega)
        simp only [R.ok_bind, getinteger, this, if_true]
        rw [setIdx_ok _ _ _ (by omega)]
        exact ⟨_, rfl, by simpa using hsz⟩)
      (by
        intro t _
        simp only [Nat.zero_add]
        rw [idx_list_ok argv m hm]
        have : in32 argv[m] = false := by simpa using hbad
        simp [getinteger, this])
    rw [this]
    rfl

example : StrC.fromBytes [65, 256 + 66, -1] = .ok [65, 66, 255] ∧ StrC.fromBytes [65, 4294967296, 7] = .panic := by decide

end JanetModel.Lib.StrC
