import JanetModel.Lib.BufC
import JanetModel.Lib.SpecLaws
/- C17: the buffer.c mirrors of Lib/BufC.lean (`bitloc` + the four bit operations with the real `|= &= ~ ^= &` on a byte,
   `buffer/fill`, `buffer/popn`, `buffer/blit`) compute the reference definitions. -/
namespace JanetModel.Lib.BufC
open JanetModel.Lib JanetModel.Lib.CLoop

/-- ★ `bitloc`: error unless `0 ≤ bitindex` and `bitindex >> 3 < count`; byte index and bit number as in the definition -/
theorem bitloc_eq_spec (b : Bytes) (x : Int) (hx : in64 x = true) : BufC.bitloc b x = R.ofOption (Lib.bitloc b x) := by
  unfold BufC.bitloc Lib.bitloc
  simp only [hx, Bool.not_true, Bool.false_eq_true, if_false]
  by_cases h : x < 0 ∨ x / 8 ≥ (b.length : Int) <;> simp [h]

/-- the byte-level facts, checked on all 256 × 8 (byte, bit) pairs -/
theorem byte_bit_table :
    (List.range 256).all (fun w => (List.range 8).all (fun bit =>
      ((w ||| (1 <<< bit)) % 256 == (if testBit w bit then w else w + 2 ^ bit)) &&
      ((w &&& (255 - (1 <<< bit))) % 256 == (if testBit w bit then w - 2 ^ bit else w)) &&
      ((w ^^^ (1 <<< bit)) % 256 == (if testBit w bit then w - 2 ^ bit else w + 2 ^ bit)) &&
      (decide (w &&& (1 <<< bit) ≠ 0) == testBit w bit))) = true := by decide +kernel

theorem byte_bit (w bit : Nat) (hw : w < 256) (hb : bit < 8) :
    (w ||| (1 <<< bit)) % 256 = (if testBit w bit then w else w + 2 ^ bit) ∧
    (w &&& (255 - (1 <<< bit))) % 256 = (if testBit w bit then w - 2 ^ bit else w) ∧
    (w ^^^ (1 <<< bit)) % 256 = (if testBit w bit then w - 2 ^ bit else w + 2 ^ bit) ∧
    decide (w &&& (1 <<< bit) ≠ 0) = testBit w bit := by
  have h := byte_bit_table
  rw [List.all_eq_true] at h
  have h1 := h w (List.mem_range.mpr hw)
  rw [List.all_eq_true] at h1
  have h2 := h1 bit (List.mem_range.mpr hb)
  simp only [Bool.and_eq_true, beq_iff_eq] at h2
  exact ⟨h2.1.1.1, h2.1.1.2, h2.1.2, h2.2⟩

theorem bitloc_some {b : Bytes} {x : Int} {i bit : Nat} (h : Lib.bitloc b x = some (i, bit)) : i < b.length ∧ bit < 8 := by
  unfold Lib.bitloc at h
  by_cases hc : x < 0 ∨ x / 8 ≥ (b.length : Int)
  · simp [hc] at h
  · simp only [hc, if_false, Option.some.injEq, Prod.mk.injEq] at h
    omega

/-- ★ `buffer/bit`, `bit-set`, `bit-clear`, `bit-toggle` on byte buffers: the C's bitwise updates of the `uint8_t` cell equal
    the arithmetic definitions; an index outside the buffer raises; never UB -/
theorem bitops_eq_spec (b : Bytes) (x : Int) (hx : in64 x = true) (hb : ∀ c ∈ b, c < 256) :
    BufC.bitGet b x = R.ofOption (Lib.bitGet b x) ∧ BufC.bitSet b x = R.ofOption (Lib.bitSet b x) ∧
    BufC.bitClear b x = R.ofOption (Lib.bitClear b x) ∧ BufC.bitToggle b x = R.ofOption (Lib.bitToggle b x) := by
  unfold BufC.bitGet BufC.bitSet BufC.bitClear BufC.bitToggle Lib.bitGet Lib.bitSet Lib.bitClear Lib.bitToggle
  rw [bitloc_eq_spec b x hx]
  cases hl : Lib.bitloc b x with
  | none => exact ⟨rfl, rfl, rfl, rfl⟩
  | some ib =>
    obtain ⟨i, bit⟩ := ib
    obtain ⟨hi, hbit⟩ := bitloc_some hl
    have hw : b[i] < 256 := hb _ (List.getElem_mem hi)
    obtain ⟨t1, t2, t3, t4⟩ := byte_bit b[i] bit hw hbit
    have hgd : b.getD i 0 = b[i] := getD_of_lt b 0 i hi
    simp only [R.ofOption_some, R.ok_bind, idx_list_ok b i hi, R.pure_eq, hgd]
    refine ⟨by rw [t4], ?_, ?_, ?_⟩
    · rw [setIdx_ok _ _ _ (by simpa using hi), t1]; simp
    · rw [setIdx_ok _ _ _ (by simpa using hi), t2]; simp
    · rw [setIdx_ok _ _ _ (by simpa using hi), t3]; simp

example : BufC.bitSet [0, 128] 15 = .ok [0, 128] ∧ BufC.bitToggle [0, 128] 9 = .ok [0, 130] ∧ BufC.bitClear [255] 0 = .ok [254]
    ∧ BufC.bitGet [1] 8 = .panic ∧ BufC.bitGet [1] (-1) = .panic ∧ BufC.bitGet [1] 0 = .ok true := by decide

/-- ★ `buffer/fill` (memset over the visible bytes) -/
theorem fill_eq_spec (b : Bytes) (byte : Int) : BufC.fill b byte = .ok (bufferFill b byte) := by
  unfold BufC.fill bufferFill
  rw [fill_loop_from b.length b.toArray (by simp) _ (fun _ => toByte byte)
    (fun i buf hi hsz => setIdx_ok _ _ _ (by omega))]
  simp only [R.ok_bind, R.pure_eq]
  congr 1
  apply List.ext_getElem?
  intro k
  by_cases hk : k < b.length
  · simp [hk]
  · simp [hk]

/-- ★ `buffer/popn` -/
theorem popn_eq_spec (b : Bytes) (n : Int) (hL : Len32 b) : BufC.popn b n = R.ofOption (bufferPopn b n) := by
  unfold BufC.popn bufferPopn
  unfold Len32 int32Max at hL
  by_cases hn : n < 0
  · simp [hn]
  · simp only [hn, if_false, R.ofOption_some]
    by_cases hlt : (b.length : Int) < n
    · simp only [hlt, if_true]
      congr 1
      have : b.length - n.toNat = 0 := by omega
      rw [this]; rfl
    · have i1 : in32 ((b.length : Int) - n) = true := by
        unfold in32 int32Min int32Max; simp only [decide_eq_true_eq]; omega
      simp only [hlt, if_false, sub32, i1, if_true, R.ok_bind, R.pure_eq]
      congr 2
      omega

theorem halfrange_le {raw : Int} {len k : Nat} (h : halfrange raw len = some k) : k ≤ len := (halfrange_some h).1

def optHalfO (a : Option Int) (len : Nat) : Option Nat :=
  match a with
  | none => some 0
  | some r => halfrange r len

def blitLenO (s : Bytes) (os : Nat) (se : Option (Option Int)) : Option Nat :=
  match se with
  | none => some (s.length - os)
  | some none => some (s.length - os)
  | some (some r) =>
    match halfrange r s.length with
    | none => none
    | some e => some (e - os)

theorem bufferBlit_unfold (dest : Bytes) (src : Option Bytes) (ds ss : Option Int) (se : Option (Option Int)) :
    bufferBlit dest src ds ss se =
      match optHalfO ds dest.length with
      | none => none
      | some od =>
        match optHalfO ss (srcOf dest src).length with
        | none => none
        | some os =>
          match blitLenO (srcOf dest src) os se with
          | none => none
          | some len =>
            if (od : Int) + len > int32Max then none else
            some (dest.take od ++ ((srcOf dest src).drop os).take len ++ dest.drop (od + len)) := by
  unfold bufferBlit optHalfO blitLenO srcOf
  cases ds <;> cases ss <;> cases se <;> rfl

theorem optHalf_eq (a : Option Int) (len : Nat) : optHalf a len = R.ofOption (optHalfO a len) := by
  cases a <;> rfl

theorem optHalfO_le {a : Option Int} {len k : Nat} (h : optHalfO a len = some k) : k ≤ len := by
  cases a with
  | none => simp [optHalfO] at h; omega
  | some r => exact halfrange_le h

theorem blitLen_eq (s : Bytes) (os : Nat) (se : Option (Option Int)) (hs : (s.length : Int) ≤ 2147483647) (hos : os ≤ s.length) :
    blitLen s os se = R.ofOption ((blitLenO s os se).map (fun (n : Nat) => (n : Int))) ∧
    ∀ len, blitLenO s os se = some len → os + len ≤ s.length := by
  have i1 : in32 ((s.length : Int) - (os : Int)) = true := by
    unfold in32 int32Min int32Max; simp only [decide_eq_true_eq]; omega
  have hnn : ¬ ((s.length : Int) - (os : Int) < 0) := by omega
  have e0 : (s.length : Int) - (os : Int) = ((s.length - os : Nat) : Int) := by omega
  have i1' : in32 (((s.length - os : Nat)) : Int) = true := by rw [← e0]; exact i1
  have hnn' : ¬ ((((s.length - os : Nat)) : Int) < 0) := by omega
  cases se with
  | none =>
    refine ⟨?_, fun len h => by simp [blitLenO] at h; omega⟩
    simp only [blitLen, blitLenO, sub32, e0, i1', if_true, Option.map_some, R.ofOption_some]
  | some e =>
    cases e with
    | none =>
      refine ⟨?_, fun len h => by simp [blitLenO] at h; omega⟩
      simp only [blitLen, blitLenO, R.pure_eq, R.ok_bind, sub32, e0, i1', if_true, hnn', if_false, Option.map_some,
        R.ofOption_some]
    | some r =>
      cases hh : halfrange r s.length with
      | none => exact ⟨by simp [blitLen, blitLenO, hh], fun len h => by simp [blitLenO, hh] at h⟩
      | some e =>
        have hele := halfrange_le hh
        have i2 : in32 ((e : Int) - (os : Int)) = true := by
          unfold in32 int32Min int32Max; simp only [decide_eq_true_eq]; omega
        refine ⟨?_, fun len h => by simp [blitLenO, hh] at h; omega⟩
        simp only [blitLen, blitLenO, hh, R.ofOption_some, R.ok_bind, sub32, i2, if_true, R.pure_eq, Option.map_some]
        congr 1
        by_cases hneg : (e : Int) - (os : Int) < 0
        · simp only [hneg, if_true]; omega
        · simp only [hneg, if_false]; omega

/-- ★ `buffer/blit dest src &opt dest-start src-start src-end`, also with `src` = `dest` (memmove): errors exactly for
    out-of-range offsets and for a result beyond INT32_MAX; the int32 subtraction and the int64 sum never overflow; the
    negative-length clamp makes the copy size non-negative; the copy stays inside source and (grown) destination; every
    byte below the new count is determined; the result is the reference definition evaluated on the OLD contents. -/
theorem blit_eq_spec (dest : Bytes) (src : Option Bytes) (ds ss : Option Int) (se : Option (Option Int))
    (hd : Len32 dest) (hs : ∀ l, src = some l → Len32 l) :
    BufC.blit dest src ds ss se = R.ofOption (bufferBlit dest src ds ss se) := by
  rw [bufferBlit_unfold]
  unfold BufC.blit
  simp only
  have hsl : Len32 (srcOf dest src) := by
    cases src with
    | none => exact hd
    | some l => exact hs l rfl
  generalize hsdef : srcOf dest src = s at *
  unfold Len32 int32Max at hd hsl
  rw [optHalf_eq, optHalf_eq]
  cases hod : optHalfO ds dest.length with
  | none => rfl
  | some od =>
    have hodle := optHalfO_le hod
    simp only [R.ofOption_some, R.ok_bind]
    cases hos : optHalfO ss s.length with
    | none => rfl
    | some os =>
      have hosle := optHalfO_le hos
      simp only [R.ofOption_some, R.ok_bind]
      obtain ⟨hlenR, hlenB⟩ := blitLen_eq s os se hsl hosle
      rw [hlenR]
      cases hlen : blitLenO s os se with
      | none => rfl
      | some len =>
        have hlenle := hlenB len hlen
        simp only [Option.map_some, R.ofOption_some, R.ok_bind]
        have i64 : in64 ((od : Int) + (len : Int)) = true := by
          unfold in64 int64Min int64Max; simp only [decide_eq_true_eq]; omega
        simp only [add64, i64, if_true, R.ok_bind]
        by_cases hbig : (od : Int) + (len : Int) > int32Max
        · simp [hbig]
        · have hnn : ¬ ((len : Int) < 0) := by omega
          simp only [hbig, if_false, hnn, R.ofOption_some]
          have ecount : (if (od : Int) + (len : Int) > (dest.length : Int) then ((od : Int) + (len : Int)).toNat else dest.length)
              = max (od + len) dest.length := by
            by_cases h : (od : Int) + (len : Int) > (dest.length : Int)
            · simp only [h, if_true]; omega
            · simp only [h, if_false]; omega
          rw [ecount]
          have hDl : (dest.toArray ++ Array.replicate (max (od + len) dest.length - dest.length) 0).toList
              = dest ++ List.replicate (max (od + len) dest.length - dest.length) 0 := by simp
          have hDsz : (dest.toArray ++ Array.replicate (max (od + len) dest.length - dest.length) 0).size
              = max (od + len) dest.length := by simp; omega
          -- the final list, for any source block that agrees with `s` on its first `s.length` cells
          have fin : ∀ (S : List Nat), S.take s.length = s →
              List.take (max (od + len) dest.length)
                (List.take od (dest ++ List.replicate (max (od + len) dest.length - dest.length) 0)
                  ++ List.take len (List.drop os S)
                  ++ List.drop (od + len) (dest ++ List.replicate (max (od + len) dest.length - dest.length) 0))
              = dest.take od ++ (s.drop os).take len ++ dest.drop (od + len) := by
            intro S hS
            have h1 : List.take od (dest ++ List.replicate (max (od + len) dest.length - dest.length) 0) = dest.take od := by
              rw [List.take_append_of_le_length hodle]
            have h2 : List.take len (List.drop os S) = List.take len (List.drop os s) := by
              rw [← hS, List.drop_take, List.take_take]
              congr 1; omega
            rw [h1, h2]
            by_cases hcase : od + len ≤ dest.length
            · have hm : max (od + len) dest.length = dest.length := by omega
              rw [hm]
              simp only [Nat.sub_self, List.replicate_zero, List.append_nil]
              apply List.take_of_length_le
              simp; omega
            · have hm : max (od + len) dest.length = od + len := by omega
              rw [hm]
              have hd0 : List.drop (od + len) dest = [] := List.drop_of_length_le (by omega)
              have hl : (List.take od dest ++ List.take len (List.drop os s)).length = od + len := by
                simp; omega
              rw [hd0, List.append_nil, List.take_append_of_le_length (by omega), List.take_of_length_le (by omega)]
          by_cases hz : (len : Int) ≠ 0
          · simp only [hz, if_true, ne_eq, not_false_eq_true, Int.toNat_natCast]
            cases src with
            | none =>
              simp only [srcOf] at hsdef
              subst hsdef
              simp only [blitCopy, memmove]
              rw [memcpy_spec _ _ od os len (by rw [hDsz]; omega) (by rw [hDsz]; omega)]
              simp only [R.ok_bind, R.pure_eq, List.toList_toArray, hDl]
              congr 1
              exact fin _ (by rw [List.take_append_of_le_length (Nat.le_refl _), List.take_length])
            | some l =>
              simp only [srcOf] at hsdef
              subst hsdef
              simp only [blitCopy]
              rw [memcpy_spec _ _ od os len (by simpa using hlenle) (by rw [hDsz]; omega)]
              simp only [R.ok_bind, R.pure_eq, List.toList_toArray, hDl]
              congr 1
              exact fin l List.take_length
          · have hl0 : len = 0 := by omega
            subst hl0
            simp only [Int.natCast_zero, ne_eq, not_true_eq_false, if_false, R.pure_eq, R.ok_bind, hDl]
            congr 1
            have hm : max (od + 0) dest.length = dest.length := by omega
            rw [hm]
            simp

example : BufC.blit [1, 2, 3] none (some 1) (some 0) none = .ok [1, 1, 2, 3] ∧
    BufC.blit [1, 2, 3] (some [9, 8, 7]) (some (-1)) (some 1) (some (some 0)) = .ok [1, 2, 3] ∧
    BufC.blit [1, 2, 3] (some [9]) (some 5) none none = .panic := by decide

end JanetModel.Lib.BufC
