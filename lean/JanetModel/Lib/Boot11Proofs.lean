import JanetModel.Lib.Boot11
import JanetModel.Lib.Boot6Proofs
import JanetModel.Lib.CLoop
/- C17 (session 4): `map-n n` for every n, and the general branch of map-template, fold the aggregator over the rows up to
   the shortest sequence (`mapRows`): no `(in …)` out of range, the loops terminate, a short sequence ends the iteration. -/
namespace JanetModel.Lib.Boot
open JanetModel.Lib JanetModel.Lib.JIter JanetModel.Lib.CLoop

/-! ### the shortest length -/

def minLen {β : Type} (b : Nat) (cols : List (List β)) : Nat := (cols.map List.length).foldl min b

theorem minLen_cons {β : Type} (b : Nat) (c : List β) (cols : List (List β)) :
    minLen b (c :: cols) = minLen (min b c.length) cols := rfl

theorem minLen_le {β : Type} (cols : List (List β)) : ∀ b, minLen b cols ≤ b := by
  induction cols with
  | nil => intro b; exact Nat.le_refl _
  | cons c cs ih => intro b; rw [minLen_cons]; have := ih (min b c.length); omega

theorem minLen_le_mem {β : Type} (cols : List (List β)) : ∀ b, ∀ c ∈ cols, minLen b cols ≤ c.length := by
  induction cols with
  | nil => intro b c h; simp at h
  | cons c0 cs ih =>
    intro b c h
    rw [minLen_cons]
    rcases List.mem_cons.mp h with h | h
    · subst h; have := minLen_le cs (min b c.length); omega
    · exact ih _ c h

theorem le_minLen {β : Type} (cols : List (List β)) : ∀ b i, i ≤ b → (∀ c ∈ cols, i ≤ c.length) → i ≤ minLen b cols := by
  induction cols with
  | nil => intro b i h _; exact h
  | cons c0 cs ih =>
    intro b i h hc
    rw [minLen_cons]
    exact ih _ i (by have := hc c0 (by simp); omega) (fun c hm => hc c (by simp [hm]))

/-! ### the key-advancing statements and the argument fetch, when every key is at the same position -/

theorem advanceKeys_all {β : Type} (i : Nat) : ∀ cols : List (List β), (∀ c ∈ cols, i < c.length) →
    advanceKeys cols (cols.map (fun _ => prevKey i)) = some (cols.map (fun _ => i))
  | [], _ => rfl
  | c :: cs, h => by
    simp only [List.map_cons, advanceKeys, nextKey_prevKey, keyAt, h c (by simp), if_true]
    rw [advanceKeys_all i cs (fun c' hm => h c' (by simp [hm]))]

theorem advanceKeys_short {β : Type} (i : Nat) : ∀ cols : List (List β), (∃ c ∈ cols, ¬ i < c.length) →
    advanceKeys cols (cols.map (fun _ => prevKey i)) = none
  | [], h => by simp at h
  | c :: cs, h => by
    simp only [List.map_cons, advanceKeys, nextKey_prevKey, keyAt]
    by_cases hc : i < c.length
    · simp only [hc, if_true]
      have : ∃ c' ∈ cs, ¬ i < c'.length := by
        obtain ⟨c', hm, hn⟩ := h
        rcases List.mem_cons.mp hm with e | e
        · subst e; exact absurd hc hn
        · exact ⟨c', e, hn⟩
      rw [advanceKeys_short i cs this]
    · simp only [hc, if_false]

theorem fetchRow_all {β : Type} (i : Nat) : ∀ cols : List (List β), (∀ c ∈ cols, i < c.length) →
    fetchRow cols (cols.map (fun _ => i)) = .ok (cols.filterMap (fun c => c[i]?))
  | [], _ => rfl
  | c :: cs, h => by
    have hc := h c (by simp)
    simp only [List.map_cons, fetchRow, inIdx_of_lt c i hc, R.ok_bind]
    rw [fetchRow_all i cs (fun c' hm => h c' (by simp [hm]))]
    simp [List.filterMap_cons, List.getElem?_eq_getElem hc]

/-- one row of the specification -/
def rowStep {α β γ σ : Type} (agg : σ → γ → σ) (f : α → List β → γ) (ind : List α) (inds : List (List β)) (s : σ) (j : Nat) : σ :=
  match ind[j]? with
  | some x => agg s (f x (inds.filterMap (fun c => c[j]?)))
  | none => s

theorem mapRows_eq {α β γ σ : Type} (agg : σ → γ → σ) (f : α → List β → γ) (init : σ) (ind : List α) (inds : List (List β)) :
    mapRows agg f init ind inds = (List.range (minLen ind.length inds)).foldl (rowStep agg f ind inds) init := rfl

/-- ★ `map-n n` for every `n` -/
theorem mapN_eq_spec {α β γ σ : Type} (agg : σ → γ → σ) (f : α → List β → γ) (init : σ) (ind : List α) (inds : List (List β)) :
    Boot.mapN agg f init ind inds = .ok (mapRows agg f init ind inds) := by
  unfold Boot.mapN each
  rw [nextKey_nil, mapRows_eq]
  obtain ⟨⟨res, keys⟩, hs, hP⟩ := eachLoop_inv ind (mapNBody agg f inds)
    (fun i st => (∀ c ∈ inds, i ≤ c.length) ∧ st.2 = inds.map (fun _ => prevKey i) ∧
        st.1 = (List.range i).foldl (rowStep agg f ind inds) init)
    (fun st => st.1 = (List.range (minLen ind.length inds)).foldl (rowStep agg f ind inds) init)
    (by
      intro i h ⟨res, keys⟩ ⟨hle, hkeys, hres⟩
      simp only at hkeys hres
      subst hkeys
      by_cases hall : ∀ c ∈ inds, i < c.length
      · left
        simp only [mapNBody, advanceKeys_all i inds hall, fetchRow_all i inds hall]
        refine ⟨_, rfl, fun c hm => by have := hall c hm; omega, by simp [prevKey], ?_⟩
        simp only [hres]
        rw [List.range_succ, List.foldl_append]
        simp [rowStep, List.getElem?_eq_getElem h]
      · right
        have hex : ∃ c ∈ inds, ¬ i < c.length := by
          apply Classical.byContradiction
          intro hno
          apply hall
          intro c hm
          apply Classical.byContradiction
          intro hn
          exact hno ⟨c, hm, hn⟩
        simp only [mapNBody, advanceKeys_short i inds hex]
        refine ⟨_, rfl, ?_⟩
        simp only [hres]
        obtain ⟨c, hm, hn⟩ := hex
        have h1 := le_minLen inds ind.length i (by omega) hle
        have h2 := minLen_le_mem inds ind.length c hm
        have : minLen ind.length inds = i := by omega
        rw [this])
    (ind.length + 1) 0 (init, inds.map (fun _ => none)) (by omega) (by omega)
    ⟨fun _ _ => Nat.zero_le _, by simp [prevKey], by simp⟩
  rw [hs]
  simp only [R.ok_bind, R.pure_eq]
  congr 1
  rcases hP with ⟨hle, _, h⟩ | h
  · simp only at h
    have h1 := le_minLen inds ind.length ind.length (Nat.le_refl _) hle
    have h2 := minLen_le inds ind.length
    have : minLen ind.length inds = ind.length := by omega
    rw [h, this]
  · exact h

example : Boot.mapN (fun (s : List Nat) v => s ++ [v]) (fun (x : Nat) row => x + row.foldl (· + ·) 0) [] [1, 2, 3] [[10, 20, 30], [100, 200]]
    = .ok [111, 222] := by decide

/-! ### the general branch: `iter-keys` / `call-buffer` arrays, `forv` with `(break)`, `done` flag -/

/-- state of the `forv` loop before column `k` (all columns were at row `i - 1` when the each-iteration began) -/
structure FillInv {β : Type} (inds : List (List β)) (i k : Nat) (ik : Array (Option Nat)) (cb : Array (Option β)) : Prop where
  szk : ik.size = inds.length
  szc : cb.size = inds.length
  keys : ∀ p, p < inds.length → ik[p]? = some (if p < k then some i else prevKey i)
  cells : ∀ p, p < k → p < inds.length → cb[p]? = some (inds[p]?.bind (fun c => c[i]?))
  longs : ∀ p, p < k → ∀ c, inds[p]? = some c → i < c.length

theorem fillCallBuffer_spec {β : Type} (inds : List (List β)) (i : Nat) : ∀ (fuel k : Nat) (ik : Array (Option Nat))
    (cb : Array (Option β)), k + fuel = inds.length → FillInv inds i k ik cb →
    ∃ ik' cb' d, fillCallBuffer inds.toArray fuel k ik cb = .ok (ik', cb', d) ∧
      (d = true → ∃ c ∈ inds, ¬ i < c.length) ∧
      (d = false → FillInv inds i inds.length ik' cb') := by
  intro fuel
  induction fuel with
  | zero =>
    intro k ik cb hk hI
    have : k = inds.length := by omega
    subst this
    exact ⟨ik, cb, false, rfl, fun h => by simp at h, fun _ => hI⟩
  | succ n ih =>
    intro k ik cb hk hI
    have hkn : k < inds.length := by omega
    have h1 : ik[k]? = some (prevKey i) := by
      rw [hI.keys k hkn]; simp
    have h2 : inds.toArray[k]? = some inds[k] := by simp [List.getElem?_eq_getElem hkn]
    unfold fillCallBuffer
    simp only [h1, h2, nextKey_prevKey, keyAt]
    by_cases hlt : i < inds[k].length
    · simp only [hlt, if_true, inIdx_of_lt inds[k] i hlt]
      rw [setIdx_ok _ _ _ (by rw [hI.szk]; exact hkn)]
      simp only
      rw [setIdx_ok _ _ _ (by rw [hI.szc]; exact hkn)]
      simp only
      apply ih (k + 1) _ _ (by omega)
      refine ⟨by simp [hI.szk], by simp [hI.szc], fun p hp => ?_, fun p hp hpn => ?_, fun p hp c hc => ?_⟩
      · simp only [Array.getElem?_setIfInBounds]
        by_cases hpk : k = p
        · subst hpk
          have : k < ik.size := by rw [hI.szk]; exact hkn
          simp [this]
        · simp only [hpk, if_false]
          rw [hI.keys p hp]
          by_cases hlt2 : p < k
          · have : p < k + 1 := by omega
            simp [hlt2, this]
          · have : ¬ p < k + 1 := by omega
            simp [hlt2, this]
      · simp only [Array.getElem?_setIfInBounds]
        by_cases hpk : k = p
        · subst hpk
          have : k < cb.size := by rw [hI.szc]; exact hkn
          simp [this, List.getElem?_eq_getElem hkn, List.getElem?_eq_getElem hlt]
        · simp only [hpk, if_false]
          exact hI.cells p (by omega) hpn
      · by_cases hpk : p = k
        · subst hpk
          rw [List.getElem?_eq_getElem hkn] at hc
          simp only [Option.some.injEq] at hc
          subst hc; exact hlt
        · exact hI.longs p (by omega) c hc
    · simp only [hlt, if_false]
      exact ⟨ik, cb, true, rfl, fun _ => ⟨inds[k], List.getElem_mem hkn, hlt⟩, fun h => by simp at h⟩

/-- when the `forv` loop ran to the end: the keys, and the call buffer as the row -/
theorem FillInv.full {β : Type} {inds : List (List β)} {i : Nat} {ik : Array (Option Nat)} {cb : Array (Option β)}
    (h : FillInv inds i inds.length ik cb) :
    ik = (inds.map (fun _ => prevKey (i + 1))).toArray ∧ cb.toList.filterMap id = inds.filterMap (fun c => c[i]?) ∧
    ∀ c ∈ inds, i < c.length := by
  refine ⟨?_, ?_, ?_⟩
  · apply Array.ext'
    apply List.ext_getElem?
    intro p
    by_cases hp : p < inds.length
    · have := h.keys p hp
      rw [Array.getElem?_toList] at *
      rw [this]
      simp [hp, prevKey]
    · rw [List.getElem?_eq_none (by simp [h.szk]; omega), List.getElem?_eq_none (by simp; omega)]
  · have : cb.toList = inds.map (fun c => c[i]?) := by
      apply List.ext_getElem?
      intro p
      by_cases hp : p < inds.length
      · have := h.cells p hp hp
        rw [Array.getElem?_toList, this]
        simp [List.getElem?_eq_getElem hp]
      · rw [List.getElem?_eq_none (by simp [h.szc]; omega), List.getElem?_eq_none (by simp; omega)]
    rw [this, List.filterMap_map]
    rfl
  · intro c hc
    obtain ⟨p, hp, rfl⟩ := List.getElem_of_mem hc
    exact h.longs p hp _ (List.getElem?_eq_getElem hp)

/-- ★ the general branch of map-template (any number of extra sequences) -/
theorem mapGen_eq_spec {α β γ σ : Type} (agg : σ → γ → σ) (f : α → List β → γ) (init : σ) (ind : List α) (inds : List (List β)) :
    Boot.mapGen agg f init ind inds = .ok (mapRows agg f init ind inds) := by
  unfold Boot.mapGen each
  simp only
  rw [nextKey_nil, mapRows_eq]
  obtain ⟨st, hs, hP⟩ := eachLoop_inv ind (mapGenBody agg f inds.toArray)
    (fun i st => (∀ c ∈ inds, i ≤ c.length) ∧ st.iterKeys = (inds.map (fun _ => prevKey i)).toArray ∧
        st.callBuffer.size = inds.length ∧ st.res = (List.range i).foldl (rowStep agg f ind inds) init)
    (fun st => st.res = (List.range (minLen ind.length inds)).foldl (rowStep agg f ind inds) init)
    (by
      intro i h st ⟨hle, hkeys, hcb, hres⟩
      have hI : FillInv inds i 0 st.iterKeys st.callBuffer :=
        ⟨by simp [hkeys], hcb, fun p hp => by simp [hkeys, hp], fun p hp => by omega, fun p hp => by omega⟩
      obtain ⟨ik', cb', d, hf, hd1, hd2⟩ := fillCallBuffer_spec inds i inds.length 0 st.iterKeys st.callBuffer (by omega) hI
      simp only [mapGenBody, List.size_toArray, hf]
      cases d with
      | true =>
        right
        refine ⟨_, rfl, ?_⟩
        simp only [hres]
        obtain ⟨c, hm, hn⟩ := hd1 rfl
        have h1 := le_minLen inds ind.length i (by omega) hle
        have h2 := minLen_le_mem inds ind.length c hm
        have : minLen ind.length inds = i := by omega
        rw [this]
      | false =>
        left
        obtain ⟨hk', hrow, hlong⟩ := (hd2 rfl).full
        refine ⟨_, rfl, fun c hm => by have := hlong c hm; omega, hk', (hd2 rfl).szc, ?_⟩
        simp only [Bool.false_eq_true, if_false, hres, hrow]
        rw [List.range_succ, List.foldl_append]
        simp [rowStep, List.getElem?_eq_getElem h])
    (ind.length + 1) 0
    { res := init, iterKeys := Array.replicate inds.length none, callBuffer := Array.replicate inds.length none, done := false }
    (by omega) (by omega)
    ⟨fun _ _ => Nat.zero_le _, by apply Array.ext'; simp [prevKey, List.map_const'], by simp, by simp⟩
  rw [hs]
  simp only [R.ok_bind, R.pure_eq]
  congr 1
  rcases hP with ⟨hle, _, _, h⟩ | h
  · have h1 := le_minLen inds ind.length ind.length (Nat.le_refl _) hle
    have h2 := minLen_le inds ind.length
    have : minLen ind.length inds = ind.length := by omega
    rw [h, this]
  · exact h

/-- `interleave` of any number of columns is `mapcat tuple` over the first column and the others: the reference
    definition (rows up to the shortest column) in terms of `mapRows` -/
theorem interleave_eq_mapRows {α : Type} (c0 : List α) (cols : List (List α)) :
    (mapRows (fun (res : Array α) (row : List α) => res ++ row.toArray) (fun x row => x :: row) #[] c0 cols).toList
      = Lib.interleave (c0 :: cols) := by
  rw [mapRows_eq]
  have hm : ((c0 :: cols).map List.length).foldl min (c0 :: cols).head!.length = minLen c0.length cols := by
    simp [minLen, List.head!]
  simp only [Lib.interleave, hm]
  have hlen : ∀ j, j < minLen c0.length cols → j < c0.length := fun j hj => by
    have := minLen_le cols c0.length; omega
  have key : ∀ (n : Nat) (acc : Array α), (∀ j, j < n → j < c0.length) →
      ((List.range n).foldl (rowStep (fun (res : Array α) (row : List α) => res ++ row.toArray) (fun x row => x :: row) c0 cols) acc).toList
        = acc.toList ++ (List.range n).flatMap (fun i => (c0 :: cols).filterMap (fun c => c[i]?)) := by
    intro n
    induction n with
    | zero => intro acc _; simp
    | succ n ih =>
      intro acc hl
      rw [List.range_succ, List.foldl_append, List.flatMap_append, ← List.append_assoc, ← ih acc (fun j hj => hl j (by omega))]
      have hn : n < c0.length := hl n (by omega)
      simp [rowStep, List.getElem?_eq_getElem hn]
  have h := key (minLen c0.length cols) #[] hlen
  simpa using h

example : Boot.mapGen (fun (s : List Nat) v => s ++ [v]) (fun (x : Nat) row => x + row.foldl (· + ·) 0) [] [1, 2, 3]
    [[10, 20, 30], [100, 200], [1000, 2000, 3000], [0, 0, 0, 0]] = .ok [1111, 2222] := by decide

end JanetModel.Lib.Boot
