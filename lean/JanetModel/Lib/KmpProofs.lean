/- C17: proofs about the mirror of string.c kmp_* (Lib/Kmp.lean). -/
import JanetModel.Lib.Kmp
import JanetModel.Lib.SpecLaws
namespace JanetModel.Lib.Kmp
open JanetModel.Lib

end JanetModel.Lib.Kmp
