/- C17: proofs about the mirror of string.c kmp_* (Lib/Kmp.lean): the failure table holds the longest proper border of
   every prefix, and `kmp_next` started at `(start, 0)` returns exactly the naive first match. -/
import JanetModel.Lib.Kmp
import JanetModel.Lib.SpecLaws
namespace JanetModel.Lib.Kmp
open JanetModel.Lib

/-! ## borders of prefixes of the pattern (as a function `P : Nat → Nat`) -/

/-- the prefix of length `k` of `P` equals the suffix of length `k` of `P[0..m)` -/
def Border (P : Nat → Nat) (k m : Nat) : Prop := k ≤ m ∧ ∀ t, t < k → P t = P (m - k + t)

/-- `b` is the length of the longest proper border of `P[0..m)` -/
def IsLPB (P : Nat → Nat) (m b : Nat) : Prop :=
  b < m ∧ Border P b m ∧ ∀ k, b < k → k < m → ¬ Border P k m

theorem border_zero (P : Nat → Nat) (m : Nat) : Border P 0 m := ⟨Nat.zero_le _, fun t h => by omega⟩

/-- a border of a border is a border -/
theorem border_trans {P : Nat → Nat} {a b m : Nat} (h1 : Border P a b) (h2 : Border P b m) : Border P a m := by
  refine ⟨Nat.le_trans h1.1 h2.1, fun t ht => ?_⟩
  have e1 := h1.2 t ht
  have e2 := h2.2 (b - a + t) (by have := h1.1; omega)
  rw [e1, e2]
  congr 1
  have := h1.1; have := h2.1
  omega

/-- two borders of the same prefix: the shorter is a border of the longer -/
theorem border_of_borders {P : Nat → Nat} {a b m : Nat} (hab : a ≤ b) (h1 : Border P a m) (h2 : Border P b m) :
    Border P a b := by
  refine ⟨hab, fun t ht => ?_⟩
  have e1 := h1.2 t ht
  have e2 := h2.2 (b - a + t) (by omega)
  rw [e1, e2]
  congr 1
  have := h2.1
  omega

/-- extending a border by one matching character -/
theorem border_succ {P : Nat → Nat} {j i : Nat} (h : Border P j i) (hc : P j = P i) : Border P (j + 1) (i + 1) := by
  refine ⟨by have := h.1; omega, fun t ht => ?_⟩
  by_cases htj : t < j
  · have := h.2 t htj
    rw [this]; congr 1; have := h.1; omega
  · have : t = j := by omega
    subst this
    rw [hc]; congr 1; have := h.1; omega

/-- shrinking a border of `P[0..i+1)` -/
theorem border_pred {P : Nat → Nat} {k i : Nat} (h : Border P (k + 1) (i + 1)) : Border P k i ∧ P k = P i := by
  refine ⟨⟨by have := h.1; omega, fun t ht => ?_⟩, ?_⟩
  · have := h.2 t (by omega)
    rw [this]; congr 1; have := h.1; omega
  · have := h.2 k (by omega)
    rw [this]; congr 1; have := h.1; omega

/-! ## the failure table -/

theorem getD_setIfInBounds (a : Array Nat) (i v k : Nat) :
    (a.setIfInBounds i v).getD k 0 = if k = i ∧ i < a.size then v else a.getD k 0 := by
  simp only [Array.getD_eq_getD_getElem?, Array.getElem?_setIfInBounds]
  by_cases hki : k = i
  · subst hki
    by_cases hlt : k < a.size
    · simp [hlt]
    · simp [hlt]
  · have : ¬ i = k := fun h => hki h.symm
    simp [hki, this]

/-- invariant of the inner `while (j && pat[j] != pat[i]) j = lookup[j-1]` loop -/
def InnerInv (P : Nat → Nat) (i c j : Nat) : Prop :=
  j < i ∧ Border P j i ∧ ∀ k, j < k → k < i → Border P k i → P k ≠ c

theorem initInner_spec (pat lookup : Array Nat) (i c : Nat)
    (htab : ∀ m, 1 ≤ m → m < i → IsLPB (fun k => pat.getD k 0) m (lookup.getD (m - 1) 0))
    (fuel j : Nat) (hf : j < fuel) (hinv : InnerInv (fun k => pat.getD k 0) i c j) :
    let j1 := initInner pat lookup c fuel j
    InnerInv (fun k => pat.getD k 0) i c j1 ∧ (j1 = 0 ∨ pat.getD j1 0 = c) := by
  induction fuel generalizing j with
  | zero => omega
  | succ n ih =>
    simp only [initInner]
    by_cases hcond : j ≠ 0 ∧ pat.getD j 0 ≠ c
    · rw [if_pos hcond]
      obtain ⟨hj0, hne⟩ := hcond
      obtain ⟨hji, hb, hmax⟩ := hinv
      have hl := htab j (by omega) hji
      obtain ⟨hlt, hlb, hlmax⟩ := hl
      apply ih
      · omega
      · refine ⟨by omega, border_trans hlb hb, fun k hk1 hk2 hkb => ?_⟩
        by_cases hkj : j < k
        · exact hmax k hkj hk2 hkb
        · by_cases hkeq : k = j
          · subst hkeq; exact hne
          · exfalso
            exact hlmax k hk1 (by omega) (border_of_borders (by omega) hkb hb)
    · rw [if_neg hcond]
      refine ⟨hinv, ?_⟩
      by_cases h0 : j = 0
      · exact Or.inl h0
      · right
        by_cases hc : pat.getD j 0 = c
        · exact hc
        · exact absurd ⟨h0, hc⟩ hcond

/-- invariant of the outer `for (i = 1, j = 0; i < patlen; i++)` loop -/
def TableInv (pat lookup : Array Nat) (i j : Nat) : Prop :=
  lookup.size = pat.size ∧ 1 ≤ i ∧
  (∀ m, 1 ≤ m → m ≤ i → IsLPB (fun k => pat.getD k 0) m (lookup.getD (m - 1) 0)) ∧
  j = lookup.getD (i - 1) 0

theorem initLoop_spec (pat : Array Nat) (fuel i j : Nat) (lookup : Array Nat)
    (hf : pat.size ≤ i + fuel) (hi : i ≤ pat.size) (hinv : TableInv pat lookup i j) :
    let T := initLoop pat fuel i j lookup
    T.size = pat.size ∧ ∀ m, 1 ≤ m → m ≤ pat.size → IsLPB (fun k => pat.getD k 0) m (T.getD (m - 1) 0) := by
  induction fuel generalizing i j lookup with
  | zero =>
    simp only [initLoop]
    obtain ⟨hs, _, htab, _⟩ := hinv
    exact ⟨hs, fun m h1 h2 => htab m h1 (by omega)⟩
  | succ n ih =>
    simp only [initLoop]
    by_cases hlt : i < pat.size
    · rw [if_pos hlt]
      obtain ⟨hs, h1i, htab, hj⟩ := hinv
      have hlpb := htab i h1i (Nat.le_refl _)
      rw [← hj] at hlpb
      have hinner := initInner_spec pat lookup i (pat.getD i 0) (fun m h1 h2 => htab m h1 (by omega)) (j + 1) j (by omega)
        ⟨hlpb.1, hlpb.2.1, fun k hk1 hk2 hkb => absurd hkb (hlpb.2.2 k hk1 hk2)⟩
      simp only at hinner
      generalize initInner pat lookup (pat.getD i 0) (j + 1) j = j1 at hinner
      obtain ⟨⟨hj1i, hj1b, hj1max⟩, hexit⟩ := hinner
      apply ih
      · omega
      · omega
      · refine ⟨by simp [hs], by omega, fun m hm1 hm2 => ?_, ?_⟩
        · rw [getD_setIfInBounds]
          by_cases hmi : m ≤ i
          · have : ¬ (m - 1 = i ∧ i < lookup.size) := by omega
            rw [if_neg this]
            exact htab m hm1 hmi
          · have hm : m = i + 1 := by omega
            subst hm
            have : (i + 1 - 1 = i ∧ i < lookup.size) := ⟨by omega, by omega⟩
            rw [if_pos this]
            by_cases hc : pat.getD j1 0 = pat.getD i 0
            · rw [if_pos hc]
              refine ⟨by omega, border_succ hj1b hc, fun k hk1 hk2 hkb => ?_⟩
              obtain ⟨k', rfl⟩ : ∃ k', k = k' + 1 := ⟨k - 1, by omega⟩
              obtain ⟨hb', hc'⟩ := border_pred hkb
              exact hj1max k' (by omega) (by omega) hb' hc'
            · rw [if_neg hc]
              have hj10 : j1 = 0 := by
                rcases hexit with h | h
                · exact h
                · exact absurd h hc
              subst hj10
              refine ⟨by omega, border_zero _ _, fun k hk1 hk2 hkb => ?_⟩
              obtain ⟨k', rfl⟩ : ∃ k', k = k' + 1 := ⟨k - 1, by omega⟩
              obtain ⟨hb', hc'⟩ := border_pred hkb
              by_cases hk0 : k' = 0
              · subst hk0; exact hc hc'
              · exact hj1max k' (by omega) (by omega) hb' hc'
        · rw [getD_setIfInBounds]
          have : (i + 1 - 1 = i ∧ i < lookup.size) := ⟨by omega, by omega⟩
          rw [if_pos this]
    · rw [if_neg hlt]
      obtain ⟨hs, _, htab, _⟩ := hinv
      exact ⟨hs, fun m h1 h2 => htab m h1 (by omega)⟩

/-- `kmp_init`: entry `m-1` of the table is the longest proper border of the prefix of length `m`. -/
theorem lookupTable_spec (pat : Array Nat) (hne : 0 < pat.size) :
    (lookupTable pat).size = pat.size ∧
    ∀ m, 1 ≤ m → m ≤ pat.size → IsLPB (fun k => pat.getD k 0) m ((lookupTable pat).getD (m - 1) 0) := by
  unfold lookupTable
  apply initLoop_spec pat pat.size 1 0 _ (by omega) (by omega)
  refine ⟨by simp, Nat.le_refl _, fun m h1 h2 => ?_, ?_⟩
  · have : m = 1 := by omega
    subst this
    have h0 : (Array.replicate pat.size 0).getD 0 0 = 0 := by
      simp [Array.getD_eq_getD_getElem?, Array.getElem?_replicate, hne]
    rw [show (1 - 1 : Nat) = 0 from rfl, h0]
    exact ⟨by omega, border_zero _ _, fun k h1 h2 => by omega⟩
  · simp [Array.getD_eq_getD_getElem?, Array.getElem?_replicate, hne]

/-! ## the search loop -/

/-- the pattern occurs in the text at offset `r` (array / index form) -/
def MatchA (pat text : Array Nat) (r : Nat) : Prop :=
  r + pat.size ≤ text.size ∧ ∀ t, t < pat.size → pat.getD t 0 = text.getD (r + t) 0

/-- loop invariant of `kmp_next` for a search that began at `(start, 0)` -/
structure NInv (pat text : Array Nat) (start i j : Nat) : Prop where
  jlt : j < pat.size
  sj : start + j ≤ i
  ile : i ≤ text.size
  pm : ∀ t, t < j → pat.getD t 0 = text.getD (i - j + t) 0
  dead : ∀ k, j < k → k < pat.size → start + k ≤ i → (∀ t, t < k → pat.getD t 0 = text.getD (i - k + t) 0) →
          pat.getD k 0 ≠ text.getD i 0
  none_before : ∀ r, start ≤ r → r + pat.size ≤ i → ¬ (∀ t, t < pat.size → pat.getD t 0 = text.getD (r + t) 0)

theorem next_spec (pat text T : Array Nat) (start : Nat)
    (hT : ∀ m, 1 ≤ m → m ≤ pat.size → IsLPB (fun k => pat.getD k 0) m (T.getD (m - 1) 0))
    (fuel : Nat) (s : State) (hinv : NInv pat text start s.i s.j) (hf : 2 * (text.size - s.i) + s.j < fuel) :
    match next text pat T fuel s with
    | (some r, s') => start ≤ r ∧ MatchA pat text r ∧ (∀ r', start ≤ r' → r' < r → ¬ MatchA pat text r') ∧
                       s' = { i := r + pat.size, j := T.getD (pat.size - 1) 0 }
    | (none, _) => ∀ r', start ≤ r' → ¬ MatchA pat text r' := by
  induction fuel generalizing s with
  | zero => omega
  | succ n ih =>
    obtain ⟨i, j⟩ := s
    simp only at hinv hf
    unfold next
    simp only
    by_cases hlt : i < text.size
    · rw [if_pos hlt]
      by_cases hc : text.getD i 0 = pat.getD j 0
      · rw [if_pos hc]
        by_cases hlast : j = pat.size - 1
        · rw [if_pos hlast]
          simp only
          have hjn := hinv.jlt
          refine ⟨by have := hinv.sj; omega, ⟨by have := hinv.sj; omega, fun t ht => ?_⟩, fun r' h1 h2 hm => ?_, ?_⟩
          rotate_left 2
          · have := hinv.sj
            subst hlast
            congr 1
            omega
          · by_cases htj : t < j
            · have := hinv.pm t htj
              rw [this]
            · have : t = j := by omega
              subst this
              rw [hc.symm]; congr 1; have := hinv.sj; omega
          · exact hinv.none_before r' h1 (by have := hinv.sj; omega) hm.2
        · rw [if_neg hlast]
          have hjn := hinv.jlt
          apply ih
          · simp only
            refine ⟨by omega, by have := hinv.sj; omega, by omega, fun t ht => ?_, fun k hk1 hk2 hk3 hpm => ?_, fun r h1 h2 hm => ?_⟩
            · by_cases htj : t < j
              · have := hinv.pm t htj
                rw [this]; congr 1; have := hinv.sj; omega
              · have : t = j := by omega
                subst this
                rw [hc.symm]; congr 1; have := hinv.sj; omega
            · -- a longer prefix match ending at i+1 restricts to one ending at i whose next char is text[i]
              intro _
              obtain ⟨k', rfl⟩ : ∃ k', k = k' + 1 := ⟨k - 1, by omega⟩
              have h1 : ∀ t, t < k' → pat.getD t 0 = text.getD (i - k' + t) 0 := fun t ht => by
                have := hpm t (by omega)
                rw [this]; congr 1; omega
              have h2 : pat.getD k' 0 = text.getD i 0 := by
                have := hpm k' (by omega)
                rw [this]; congr 1; omega
              exact hinv.dead k' (by omega) (by omega) (by omega) h1 h2
            · by_cases hr : r + pat.size ≤ i
              · exact hinv.none_before r h1 hr hm
              · have hr' : r + pat.size = i + 1 := by omega
                have hk : j < pat.size - 1 := by omega
                have h1' : ∀ t, t < pat.size - 1 → pat.getD t 0 = text.getD (i - (pat.size - 1) + t) 0 := fun t ht => by
                  have := hm t (by omega)
                  rw [this]; congr 1; omega
                have h2' : pat.getD (pat.size - 1) 0 = text.getD i 0 := by
                  have := hm (pat.size - 1) (by omega)
                  rw [this]; congr 1; omega
                exact hinv.dead (pat.size - 1) hk (by omega) (by omega) h1' h2'
          · simp only; omega
      · rw [if_neg hc]
        by_cases hj : j > 0
        · rw [if_pos hj]
          have hjn := hinv.jlt
          obtain ⟨hl1, hl2, hl3⟩ := hT j (by omega) (by omega)
          apply ih
          · simp only
            refine ⟨by omega, by have := hinv.sj; omega, hinv.ile, fun t ht => ?_, fun k hk1 hk2 hk3 hpm => ?_, hinv.none_before⟩
            · have e1 := hl2.2 t ht
              simp only at e1
              rw [e1, hinv.pm _ (by omega)]
              congr 1; have := hinv.sj; omega
            · by_cases hkj : j < k
              · exact hinv.dead k hkj hk2 hk3 hpm
              · by_cases hkeq : k = j
                · subst hkeq; exact fun h => hc h.symm
                · exfalso
                  -- k is a border of pat[0..j) longer than the table entry
                  apply hl3 k hk1 (by omega)
                  refine ⟨by omega, fun t ht => ?_⟩
                  simp only
                  rw [hpm t ht, hinv.pm (j - k + t) (by omega)]
                  congr 1; have := hinv.sj; omega
          · simp only; omega
        · rw [if_neg hj]
          have hj0 : j = 0 := by omega
          subst hj0
          apply ih
          · simp only
            refine ⟨hinv.jlt, by have := hinv.sj; omega, by omega, fun t ht => by omega, fun k hk1 hk2 hk3 hpm => ?_, fun r h1 h2 hm => ?_⟩
            · intro _
              obtain ⟨k', rfl⟩ : ∃ k', k = k' + 1 := ⟨k - 1, by omega⟩
              have h2 : pat.getD k' 0 = text.getD i 0 := by
                have := hpm k' (by omega)
                rw [this]; congr 1; omega
              by_cases hk0 : k' = 0
              · subst hk0; exact hc h2.symm
              · have h1 : ∀ t, t < k' → pat.getD t 0 = text.getD (i - k' + t) 0 := fun t ht => by
                  have := hpm t (by omega)
                  rw [this]; congr 1; omega
                exact hinv.dead k' (by omega) (by omega) (by omega) h1 h2
            · by_cases hr : r + pat.size ≤ i
              · exact hinv.none_before r h1 hr hm
              · have hr' : r + pat.size = i + 1 := by omega
                have h2' : pat.getD (pat.size - 1) 0 = text.getD i 0 := by
                  have := hm (pat.size - 1) (by have := hinv.jlt; omega)
                  rw [this]; congr 1; have := hinv.jlt; omega
                by_cases hn1 : pat.size - 1 = 0
                · rw [hn1] at h2'; exact hc h2'.symm
                · have h1' : ∀ t, t < pat.size - 1 → pat.getD t 0 = text.getD (i - (pat.size - 1) + t) 0 := fun t ht => by
                    have := hm t (by omega)
                    rw [this]; congr 1; omega
                  exact hinv.dead (pat.size - 1) (by omega) (by omega) (by omega) h1' h2'
          · simp only; omega
    · rw [if_neg hlt]
      simp only
      intro r' h1 hm
      exact hinv.none_before r' h1 (by have := hm.1; have := hinv.ile; omega) hm.2

/-! ## connection with the naive definition of Lib/Spec.lean -/

theorem toArray_getD (l : List Nat) (k : Nat) : l.toArray.getD k 0 = l.getD k 0 := by
  simp [Array.getD_eq_getD_getElem?, List.getD_eq_getElem?_getD]

theorem matchAt_iff_MatchA (pat text : Bytes) (r : Nat) :
    matchAt pat text r = true ↔ MatchA pat.toArray text.toArray r := by
  rw [matchAt_iff]
  unfold MatchA
  simp only [List.size_toArray, toArray_getD]
  constructor
  · rintro ⟨h1, h2⟩
    refine ⟨h1, fun t ht => ?_⟩
    have : pat[t]? = ((text.drop r).take pat.length)[t]? := by rw [h2]
    rw [List.getElem?_take_of_lt ht, List.getElem?_drop] at this
    simp only [List.getD_eq_getElem?_getD, this]
  · rintro ⟨h1, h2⟩
    refine ⟨h1, ?_⟩
    apply List.ext_getElem?
    intro t
    by_cases ht : t < pat.length
    · rw [List.getElem?_take_of_lt ht, List.getElem?_drop]
      have := h2 t ht
      simp only [List.getD_eq_getElem?_getD] at this
      have h3 : r + t < text.length := by omega
      rw [List.getElem?_eq_getElem ht, List.getElem?_eq_getElem h3] at this ⊢
      simp only [Option.getD_some] at this
      rw [this]
    · have h3 : pat.length ≤ t := by omega
      rw [List.getElem?_eq_none h3]
      rw [List.getElem?_eq_none]
      simp only [List.length_take, List.length_drop]
      omega

/-- one `kmp_next` call from a state satisfying the invariant: its result is the naive first match at an index `≥ start`,
    and after a match the machine is in state `(r + patlen, lookup[patlen-1])` -/
theorem kmpNext_spec (pat text : Bytes) (hp : pat ≠ []) (start : Nat) (s : State)
    (hinv : NInv pat.toArray text.toArray start s.i s.j) :
    (kmpNext text.toArray pat.toArray (lookupTable pat.toArray) s).1 = findFrom pat text start ∧
    ∀ r, (kmpNext text.toArray pat.toArray (lookupTable pat.toArray) s).1 = some r →
      (kmpNext text.toArray pat.toArray (lookupTable pat.toArray) s).2
        = { i := r + pat.toArray.size, j := (lookupTable pat.toArray).getD (pat.toArray.size - 1) 0 } := by
  have hn : 0 < pat.toArray.size := by
    cases pat with
    | nil => exact absurd rfl hp
    | cons x xs => simp
  obtain ⟨_, hT⟩ := lookupTable_spec pat.toArray hn
  have hspec := next_spec pat.toArray text.toArray (lookupTable pat.toArray) start hT
    (nextFuel text.toArray s) s hinv (by simp only [nextFuel]; omega)
  unfold kmpNext
  generalize next text.toArray pat.toArray (lookupTable pat.toArray) (nextFuel text.toArray s) s = res at hspec
  obtain ⟨res, s'⟩ := res
  cases res with
  | some r =>
    simp only at hspec
    obtain ⟨h1, h2, h3, h4⟩ := hspec
    refine ⟨?_, fun r' hr' => ?_⟩
    · simp only
      cases hf : findFrom pat text start with
      | some r0 =>
        obtain ⟨g1, g2, g3⟩ := findFrom_some hf
        congr 1
        by_cases hlt : r < r0
        · have := g3 r h1 hlt
          rw [(matchAt_iff_MatchA pat text r).2 h2] at this
          exact absurd this (by simp)
        · by_cases hgt : r0 < r
          · exact absurd ((matchAt_iff_MatchA pat text r0).1 g2) (h3 r0 g1 hgt)
          · omega
      | none =>
        have := findFrom_none hf r h1
        rw [(matchAt_iff_MatchA pat text r).2 h2] at this
        exact absurd this (by simp)
    · simp only [Option.some.injEq] at hr'
      subst hr'
      exact h4
  | none =>
    simp only at hspec
    refine ⟨?_, fun r' hr' => by simp at hr'⟩
    simp only
    cases hf : findFrom pat text start with
    | some r0 =>
      obtain ⟨g1, g2, _⟩ := findFrom_some hf
      exact absurd ((matchAt_iff_MatchA pat text r0).1 g2) (hspec r0 g1)
    | none => rfl

theorem ninv_init (pat text : Bytes) (hp : pat ≠ []) (start : Nat) (hs : start ≤ text.length) :
    NInv pat.toArray text.toArray start start 0 := by
  have hn : 0 < pat.toArray.size := by
    cases pat with
    | nil => exact absurd rfl hp
    | cons x xs => simp
  exact ⟨hn, by omega, by simpa using hs, fun t ht => by omega, fun k h1 h2 h3 => by omega, fun r h1 h2 => by omega⟩

/-- beyond the end of the text `kmp_next` returns -1 at once and there is no naive match either -/
theorem kmpNext_past_end (pat text : Bytes) (s : State) (hs : text.length ≤ s.i) :
    (kmpNext text.toArray pat.toArray (lookupTable pat.toArray) s).1 = none := by
  unfold kmpNext
  have : nextFuel text.toArray s = (2 * (text.toArray.size + 1) + s.j + 1) + 1 := by simp [nextFuel]
  rw [this]
  unfold next
  rw [if_neg (by simp; omega)]

/-- ☆ `kmp_eq_naive` for `string/find`: the KMP state machine of string.c (failure table built by `kmp_init`, search by
    `kmp_next` from `(start, 0)`) returns exactly the least occurrence at an index `≥ start`, or nothing when there is none. -/
theorem find_eq_naive (pat text : Bytes) (start : Nat) (hp : pat ≠ []) :
    Kmp.find pat text start = findFrom pat text start := by
  unfold Kmp.find
  simp only
  by_cases hs : start ≤ text.length
  · exact (kmpNext_spec pat text hp start { i := start, j := 0 } (ninv_init pat text hp start hs)).1
  · rw [kmpNext_past_end pat text { i := start, j := 0 } (by simp only; omega)]
    unfold findFrom
    have : text.length + 1 - start = 0 := by omega
    rw [this]; rfl

theorem kmpNext_fresh (pat text : Bytes) (st : Nat) (hp : pat ≠ []) :
    (kmpNext text.toArray pat.toArray (lookupTable pat.toArray) { i := st, j := 0 }).1 = findFrom pat text st := by
  have := find_eq_naive pat text st hp
  unfold Kmp.find at this
  exact this

/-- the `string/replace-all` loop (search restarted after each match with `kmp_seti`) computes the reference definition -/
theorem replaceAllLoop_eq (pat subst text : Bytes) (hp : pat ≠ []) (fuel last st : Nat) :
    replaceAllLoop text.toArray pat.toArray (lookupTable pat.toArray) text subst fuel last { i := st, j := 0 }
      = replaceAllAux pat subst text fuel last st := by
  induction fuel generalizing last st with
  | zero => rfl
  | succ n ih =>
    unfold replaceAllLoop replaceAllAux
    have h := kmpNext_fresh pat text st hp
    cases hk : kmpNext text.toArray pat.toArray (lookupTable pat.toArray) { i := st, j := 0 } with
    | mk res s' =>
      rw [hk] at h
      simp only at h
      subst h
      cases hf : findFrom pat text st with
      | none => simp [hf]
      | some r =>
        simp only [hf, List.size_toArray]
        rw [ih]

theorem replaceAll_eq_naive (pat subst text : Bytes) (start : Nat) (hp : pat ≠ []) :
    some (Kmp.replaceAll pat subst text start) = JanetModel.Lib.replaceAll pat subst text start := by
  unfold Kmp.replaceAll JanetModel.Lib.replaceAll
  rw [if_neg hp]
  simp only
  rw [replaceAllLoop_eq pat subst text hp]

theorem splitLoop_eq (pat text : Bytes) (hp : pat ≠ []) (fuel last st : Nat) (limit : Int) :
    splitLoop text.toArray pat.toArray (lookupTable pat.toArray) text fuel last { i := st, j := 0 } limit
      = splitAux pat text fuel last st limit := by
  induction fuel generalizing last st limit with
  | zero => rfl
  | succ n ih =>
    unfold splitLoop splitAux
    have h := kmpNext_fresh pat text st hp
    cases hk : kmpNext text.toArray pat.toArray (lookupTable pat.toArray) { i := st, j := 0 } with
    | mk res s' =>
      rw [hk] at h
      simp only at h
      subst h
      cases hf : findFrom pat text st with
      | none => simp [hf]
      | some r =>
        simp only [hf, List.size_toArray]
        by_cases hl : limit - 1 = 0
        · rw [if_pos hl, if_pos hl]
        · rw [if_neg hl, if_neg hl, ih]

theorem split_eq_naive (pat text : Bytes) (start : Nat) (limit : Int) (hp : pat ≠ []) :
    some (Kmp.split pat text start limit) = JanetModel.Lib.split pat text start limit := by
  unfold Kmp.split JanetModel.Lib.split
  rw [if_neg hp]
  simp only
  rw [splitLoop_eq pat text hp]

/-! ## find-all (the search continues from `(r + patlen, lookup[patlen-1])` after a match) -/

theorem findAllAux_unfold (pat text : Bytes) (i fuel : Nat) :
    findAllAux pat text i fuel =
      match findFromAux pat text i fuel with
      | none => []
      | some r => r :: findAllAux pat text (r + 1) (i + fuel - (r + 1)) := by
  induction fuel generalizing i with
  | zero => rfl
  | succ n ih =>
    rw [show findAllAux pat text i (n + 1) = (if matchAt pat text i then i :: findAllAux pat text (i + 1) n
          else findAllAux pat text (i + 1) n) from rfl,
        show findFromAux pat text i (n + 1) = (if matchAt pat text i then some i else findFromAux pat text (i + 1) n) from rfl]
    by_cases hm : matchAt pat text i = true
    · rw [if_pos hm, if_pos hm]
      simp only
      have : i + (n + 1) - (i + 1) = n := by omega
      rw [this]
    · rw [if_neg hm, if_neg hm, ih (i + 1)]
      have : ∀ r, i + 1 + n - (r + 1) = i + (n + 1) - (r + 1) := fun r => by omega
      simp only [this]

theorem findAll_unfold (pat text : Bytes) (start : Nat) :
    JanetModel.Lib.findAll pat text start =
      match findFrom pat text start with
      | none => []
      | some r => r :: JanetModel.Lib.findAll pat text (r + 1) := by
  unfold JanetModel.Lib.findAll findFrom
  rw [findAllAux_unfold]
  cases hf : findFromAux pat text start (text.length + 1 - start) with
  | none => rfl
  | some r =>
    simp only
    obtain ⟨h1, h2, _, _⟩ := findFromAux_some hf
    have : start + (text.length + 1 - start) - (r + 1) = text.length + 1 - (r + 1) := by omega
    rw [this]

theorem ninv_after_match (pat text : Array Nat) (b r : Nat) (hn : 0 < pat.size)
    (hb : IsLPB (fun k => pat.getD k 0) pat.size b) (hm : MatchA pat text r) :
    NInv pat text (r + 1) (r + pat.size) b := by
  obtain ⟨hb1, hb2, hb3⟩ := hb
  refine ⟨hb1, by omega, hm.1, fun t ht => ?_, fun k hk1 hk2 hk3 hpm => ?_, fun r' h1 h2 => by omega⟩
  · have e1 := hb2.2 t ht
    simp only at e1
    rw [e1, hm.2 _ (by omega)]
    congr 1; omega
  · exfalso
    apply hb3 k hk1 hk2
    refine ⟨by omega, fun t ht => ?_⟩
    simp only
    rw [hpm t ht, hm.2 (pat.size - k + t) (by omega)]
    congr 1; omega

theorem findAllLoop_eq (pat text : Bytes) (hp : pat ≠ []) (fuel start : Nat) (s : State)
    (hinv : NInv pat.toArray text.toArray start s.i s.j) (hf : text.length + 1 - start ≤ fuel) :
    findAllLoop text.toArray pat.toArray (lookupTable pat.toArray) fuel s = JanetModel.Lib.findAll pat text start := by
  have hn : 0 < pat.toArray.size := by
    cases pat with
    | nil => exact absurd rfl hp
    | cons x xs => simp
  induction fuel generalizing start s with
  | zero =>
    have h1 := hinv.sj
    have h2 := hinv.ile
    simp only [List.size_toArray] at h2
    omega
  | succ n ih =>
    unfold findAllLoop
    obtain ⟨h1, h2⟩ := kmpNext_spec pat text hp start s hinv
    rw [findAll_unfold]
    cases hk : kmpNext text.toArray pat.toArray (lookupTable pat.toArray) s with
    | mk res s' =>
      rw [hk] at h1 h2
      simp only at h1 h2
      rw [← h1]
      cases res with
      | none => rfl
      | some r =>
        simp only
        have hs' := h2 r rfl
        subst hs'
        obtain ⟨g1, g2, _⟩ := findFrom_some h1.symm
        have hm := (matchAt_iff_MatchA pat text r).1 g2
        obtain ⟨_, hT⟩ := lookupTable_spec pat.toArray hn
        have hinv' := ninv_after_match pat.toArray text.toArray _ r hn (hT pat.toArray.size (by omega) (Nat.le_refl _)) hm
        rw [ih (r + 1) _ hinv' (by omega)]

/-- ☆ `kmp_eq_naive` for `string/find-all` (overlapping occurrences included) -/
theorem findAll_eq_naive (pat text : Bytes) (start : Nat) (hp : pat ≠ []) :
    Kmp.findAll pat text start = JanetModel.Lib.findAll pat text start := by
  unfold Kmp.findAll
  simp only
  by_cases hs : start ≤ text.length
  · exact findAllLoop_eq pat text hp (text.length + 1) start _ (ninv_init pat text hp start hs) (by omega)
  · unfold findAllLoop
    have h := kmpNext_past_end pat text { i := start, j := 0 } (by simp only; omega)
    cases hk : kmpNext text.toArray pat.toArray (lookupTable pat.toArray) { i := start, j := 0 } with
    | mk res s' =>
      rw [hk] at h
      simp only at h
      subst h
      simp only
      unfold JanetModel.Lib.findAll
      have : text.length + 1 - start = 0 := by omega
      rw [this]; rfl

end JanetModel.Lib.Kmp
