import JanetModel.Lib.StrC
import JanetModel.Lib.BufPushC
/- C17: mirrors of string.c `replacesetup`, `cfun_string_replace`, `cfun_string_replaceall` (string substitution values:
   `janet_text_substitution` returns the bytes of `subst`).  Core Lean only.  Theorems in Lib/StrReplCProofs.lean. -/
namespace JanetModel.Lib.StrC
open JanetModel.Lib JanetModel.Lib.CLoop

/-- `replacesetup`: `int32_t start = 0; if (argc == 4) { start = janet_getinteger(argv, 3);
      if (start < 0) janet_panic("expected non-negative start index"); }  kmp_init(…);  s->kmp.i = start;` -/
def replacesetup (pat text : Bytes) (start : Option Int) : R KmpS := findsetup pat text start

/-- `cfun_string_replace`:
      `result = kmp_next(&s.kmp);
       if (result < 0) { kmp_deinit(&s.kmp); return janet_stringv(s.kmp.text, s.kmp.textlen); }
       buf = janet_string_begin(s.kmp.textlen - s.kmp.patlen + subst.len);
       safe_memcpy(buf, s.kmp.text, result);
       safe_memcpy(buf + result, subst.bytes, subst.len);
       safe_memcpy(buf + result + subst.len, s.kmp.text + result + s.kmp.patlen, s.kmp.textlen - result - s.kmp.patlen);`
    The size and the offsets are int32 expressions (checked). -/
def replace (pat subst text : Bytes) (start : Option Int) : R Bytes := do
  let s ← replacesetup pat text start
  match (next s).1 with
  | none => stringv text 0 (text.length : Int)
  | some result => do
    let t ← sub32 (text.length : Int) (pat.length : Int)
    let size ← add32 t (subst.length : Int)
    if size < 0 then .ub else do
      let buf := Array.replicate size.toNat 0
      let buf ← memcpy buf 0 text.toArray 0 result
      let buf ← memcpy buf (result : Int) subst.toArray 0 subst.length
      let off ← add32 (result : Int) (subst.length : Int)
      let soff ← add32 (result : Int) (pat.length : Int)
      let t2 ← sub32 (text.length : Int) (result : Int)
      let rest ← sub32 t2 (pat.length : Int)
      if rest < 0 then .ub else do
        let buf ← memcpy buf off text.toArray soff rest.toNat
        pure buf.toList

/-- `janet_buffer_push_bytes(&b, text + off, len)` with the source given as block + offset -/
def pushBytesFrom (b : BufPush.Buf) (src : Array Nat) (soff : Int) (length : Int) : R BufPush.Buf :=
  if length < 0 then .ub
  else if length = 0 then .ok b else do
    let b ← BufPush.extra b length.toNat
    let data ← memcpy b.data (b.count : Int) src soff length.toNat
    pure { data := data, count := b.count + length.toNat }

/-- the loop of `cfun_string_replaceall`:
      `while ((result = kmp_next(&s.kmp)) >= 0) {
           janet_buffer_push_bytes(&b, s.kmp.text + lastindex, result - lastindex);
           janet_buffer_push_bytes(&b, subst.bytes, subst.len);
           lastindex = result + s.kmp.patlen;  kmp_seti(&s.kmp, lastindex); }` -/
def replaceAllLoop (s : KmpS) (subst : Bytes) : Nat → Int → Kmp.State → BufPush.Buf → R (BufPush.Buf × Int)
  | 0, _, _, _ => .ub
  | fuel + 1, lastindex, st, b =>
    match next { s with st := st } with
    | (none, _) => .ok (b, lastindex)
    | (some result, _) => do
      let b ← pushBytesFrom b s.text lastindex ((result : Int) - lastindex)
      let b ← pushBytesFrom b subst.toArray 0 (subst.length : Int)
      let lastindex := (result : Int) + (s.pat.size : Int)
      replaceAllLoop s subst fuel lastindex { i := lastindex.toNat, j := 0 } b

/-- `cfun_string_replaceall`: `janet_buffer_init(&b, s.kmp.textlen);` loop; then
      `janet_buffer_push_bytes(&b, s.kmp.text + lastindex, s.kmp.textlen - lastindex); ret = janet_string(b.data, b.count);` -/
def replaceAll (pat subst text : Bytes) (start : Option Int) : R Bytes := do
  let s ← replacesetup pat text start
  let (b, lastindex) ← replaceAllLoop s subst (text.length + 1) 0 s.st { data := #[], count := 0 }
  let b ← pushBytesFrom b s.text lastindex ((text.length : Int) - lastindex)
  pure (BufPush.contents b)

end JanetModel.Lib.StrC
