import JanetModel.Lib.Boot
import JanetModel.Lib.CLoop
/- C17: boot.janet `partition` / `partition-slice` and `interpose` mirrors.  Core Lean only. -/
namespace JanetModel.Lib.Boot
open JanetModel.Lib JanetModel.Lib.JIter JanetModel.Lib.CLoop

/-- body of `(forv k 0 parts (put ret k (f ind start end)) (set start end) (+= end n))` -/
def partitionBody {α : Type} (n : Int) (ind : List α) (k : Nat) (st : Array (List α) × Int × Int) :
    R (Array (List α) × Int × Int) := do
  let sl ← R.ofOption (slice ind (some st.2.1) (some st.2.2))       -- (f ind start end)
  let ret ← setIdx st.1 (k : Int) sl                                -- (put ret k …)
  pure (ret, st.2.2, st.2.2 + n)                                    -- (set start end) (+= end n)

/-- `(defn- partition-slice [f n ind] (var [start end] [0 n]) (def len (length ind)) (def parts (div len n))
       (def ret (array/new-filled parts)) (forv k 0 parts …) (if (< start len) (array/push ret (f ind start))) ret)`
    for a positive integer `n` (`(div len n)` = floor division; for `n ≤ 0` `array/new-filled` raises). -/
def partitionSlice {α : Type} (n : Int) (ind : List α) : R (List (List α)) :=
  if n ≤ 0 then .panic else do
    let len : Int := ind.length
    let parts := (len / n).toNat
    let st ← forUp (partitionBody n ind) parts 0 (Array.replicate parts [], 0, n)
    let start := st.2.1
    let ret ← (if start < len then do
                 let sl ← R.ofOption (slice ind (some start) none)
                 pure (st.1.push sl)
               else pure st.1 : R (Array (List α)))
    pure ret.toList

/-- `(partition n ind)` on indexed (`tuple/slice`) and bytes (`string/slice`) values -/
def partition {α : Type} (n : Int) (ind : List α) : R (List (List α)) := partitionSlice n ind

end JanetModel.Lib.Boot
