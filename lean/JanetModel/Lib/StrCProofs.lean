import JanetModel.Lib.StrC
import JanetModel.Lib.SpecLaws
/- C17: the mirrors of string.c (Lib/StrC.lean) compute the reference definitions (Lib/Spec.lean), for all inputs:
   same value, `.panic` exactly where the C raises, never `.ub`. -/
namespace JanetModel.Lib.StrC
open JanetModel.Lib JanetModel.Lib.CLoop JanetModel.Gen.Lib

/-! ### janet_stringv -/

theorem stringv_spec (src : Bytes) (off n : Nat) (h : off + n ≤ src.length) :
    stringv src (off : Int) (n : Int) = .ok ((src.drop off).take n) := by
  unfold stringv
  have hn : ¬ ((n : Int) < 0) := by omega
  simp only [hn, if_false, Int.toNat_natCast]
  have := memcpy_spec (Array.replicate n 0) src.toArray 0 off n (by simpa using h) (by simp)
  simp only [Int.natCast_zero] at this
  rw [this]
  simp

theorem stringv_zero (src : Bytes) (off : Int) : stringv src off 0 = .ok [] := by
  unfold stringv memcpy
  simp [forUp]

/-! ### trim_help_checkset / leftedge / rightedge -/

theorem firstSome_checkset (set : Bytes) (x : Nat) (i : Nat) :
    (firstSome (fun (_ : Nat) (c : Nat) => if c = x then some true else none) i set).getD false = set.contains x := by
  induction set generalizing i with
  | nil => rfl
  | cons c cs ih =>
    by_cases hc : c = x
    · subst hc; simp [firstSome]
    · have : (x == c) = false := by simp; exact fun e => hc e.symm
      rw [List.contains_cons, this, Bool.false_or, ← ih (i + 1)]
      simp [firstSome, hc]

theorem checkset_spec (set : Bytes) (x : Nat) : checkset set x = .ok (inSet set x) := by
  unfold checkset
  rw [scanUp_list0 set _ (fun _ c => if c = x then some true else none)
    (fun j h => by simp [idx_list_ok set j h])]
  simp only [R.ok_bind, R.pure_eq]
  rw [firstSome_checkset]; rfl

theorem firstSome_leftedge (set : Bytes) (s : Bytes) (i : Nat) :
    (firstSome (fun (j : Nat) (c : Nat) => if !inSet set c then some (j : Int) else none) i s).getD ((i + s.length : Nat) : Int)
      = ((i + (s.takeWhile (inSet set)).length : Nat) : Int) := by
  induction s generalizing i with
  | nil => rfl
  | cons c cs ih =>
    by_cases hc : inSet set c = true
    · have e : i + (c :: cs).length = (i + 1) + cs.length := by simp; omega
      simp only [firstSome, hc, Bool.not_true, Bool.false_eq_true, List.takeWhile_cons, if_true, if_false]
      rw [e, ih (i + 1)]
      simp; omega
    · simp only [Bool.not_eq_true] at hc
      simp [firstSome, hc, List.takeWhile_cons]

theorem leftedge_spec (s set : Bytes) : leftedge s set = .ok ((leftEdge s set : Nat) : Int) := by
  unfold leftedge
  rw [scanUp_list0 s _ (fun j c => if !inSet set c then some (j : Int) else none)
    (fun j h => by simp [idx_list_ok s j h, checkset_spec])]
  simp only [R.ok_bind, R.pure_eq]
  have := firstSome_leftedge set s 0
  simp only [Nat.zero_add] at this
  rw [this]; rfl

theorem downSome_rightedge (set : Bytes) (rs : Bytes) :
    (downSome (fun (j : Nat) (c : Nat) => if !inSet set c then some ((j : Int) + 1) else none) rs).getD 0
      = ((rs.length - (rs.takeWhile (inSet set)).length : Nat) : Int) := by
  induction rs with
  | nil => rfl
  | cons c cs ih =>
    by_cases hc : inSet set c = true
    · simp only [downSome, hc, Bool.not_true, Bool.false_eq_true, List.takeWhile_cons, if_true, if_false]
      rw [ih]
      simp
    · simp only [Bool.not_eq_true] at hc
      simp [downSome, hc, List.takeWhile_cons]

theorem rightedge_spec (s set : Bytes) : rightedge s set = .ok ((rightEdge s set : Nat) : Int) := by
  unfold rightedge
  rw [scanDown_list s _ (fun j c => if !inSet set c then some ((j : Int) + 1) else none)
    (fun j h => by simp [idx_list_ok s j h, checkset_spec]) s.length (Nat.le_refl _)]
  simp only [R.ok_bind, R.pure_eq, List.take_length]
  rw [downSome_rightedge]
  simp [rightEdge]

theorem leftEdge_le (s set : Bytes) : leftEdge s set ≤ s.length := by
  unfold leftEdge; exact (List.takeWhile_sublist _).length_le

theorem rightEdge_le (s set : Bytes) : rightEdge s set ≤ s.length := by
  unfold rightEdge; omega

/-- ★ `string/trim` for every string and every set (default or custom) -/
theorem trim_eq_spec (s set : Bytes) : StrC.trim s set = .ok (Lib.trim s set) := by
  unfold StrC.trim Lib.trim
  rw [leftedge_spec, rightedge_spec]
  simp only [R.ok_bind]
  have hl := leftEdge_le s set
  have hr := rightEdge_le s set
  by_cases h : rightEdge s set < leftEdge s set
  · have : ((rightEdge s set : Nat) : Int) < ((leftEdge s set : Nat) : Int) := by omega
    simp [h, this]
  · have : ¬ (((rightEdge s set : Nat) : Int) < ((leftEdge s set : Nat) : Int)) := by omega
    simp only [h, this, if_false]
    have e : ((rightEdge s set : Nat) : Int) - ((leftEdge s set : Nat) : Int) = ((rightEdge s set - leftEdge s set : Nat) : Int) := by omega
    rw [e, stringv_spec _ _ _ (by omega)]

theorem triml_eq_spec (s set : Bytes) : StrC.triml s set = .ok (Lib.triml s set) := by
  unfold StrC.triml
  rw [leftedge_spec]
  simp only [R.ok_bind]
  have hl := leftEdge_le s set
  have e : (s.length : Int) - ((leftEdge s set : Nat) : Int) = ((s.length - leftEdge s set : Nat) : Int) := by omega
  rw [e, stringv_spec _ _ _ (by omega), triml_eq_drop]
  congr 1
  apply List.take_of_length_le; simp

theorem trimr_eq_spec (s set : Bytes) : StrC.trimr s set = .ok (Lib.trimr s set) := by
  unfold StrC.trimr
  rw [rightedge_spec]
  simp only [R.ok_bind]
  have hr := rightEdge_le s set
  have := stringv_spec s 0 (rightEdge s set) (by omega)
  simp only [Int.natCast_zero, List.drop_zero] at this
  rw [this, trimr_eq_take]

example : StrC.trim [32, 120, 32, 121, 10] trimSet = .ok [120, 32, 121] := by decide
example : StrC.trim [97, 98, 97] [97, 98] = .ok [] ∧ StrC.trimr [120, 97, 98] [98, 97] = .ok [120] := by decide

/-! ### reverse / case conversion / bytes / from-bytes -/

theorem reverse_eq_spec (s : Bytes) : StrC.reverse s = .ok s.reverse := by
  unfold StrC.reverse
  let g : Nat → Nat := fun k => s.getD (s.length - 1 - k) 0
  obtain ⟨⟨buf, j⟩, hf, hP⟩ := forUp_inv
    (fun i (st : Array Nat × Int) => (do
      let c ← idx s.toArray st.2
      let buf ← setIdx st.1 (i : Int) c
      pure (buf, st.2 - 1) : R (Array Nat × Int)))
    (fun i st => Filled s.length g i st.1 ∧ st.2 = (s.length : Int) - 1 - (i : Int))
    s.length 0 (Array.replicate s.length 0, (s.length : Int) - 1)
    ⟨Filled.init _ _ _, by simp⟩
    (by
      intro i ⟨buf, j⟩ _ hi ⟨hF, hj⟩
      simp only at hj hF
      subst hj
      have e : (s.length : Int) - 1 - (i : Int) = ((s.length - 1 - i : Nat) : Int) := by omega
      simp only [e]
      rw [idx_list_ok s _ (by omega)]
      simp only [R.ok_bind]
      rw [setIdx_ok _ _ _ (by rw [hF.1]; omega)]
      simp only [R.ok_bind, R.pure_eq]
      refine ⟨_, rfl, ?_, by simp; omega⟩
      have := hF.step (by omega : i < s.length)
      simp only [g] at this ⊢
      rw [getD_of_lt _ _ _ (by omega)] at this
      exact this)
  rw [hf]
  simp only [R.ok_bind, R.pure_eq]
  simp only [Nat.zero_add] at hP
  rw [toList_of_cells buf s.length g hP.1.1 (fun k hk => hP.1.2 k hk)]
  congr 1
  apply List.ext_getElem?
  intro k
  by_cases hk : k < s.length
  · have h3 : s.length - 1 - k < s.length := by omega
    simp [g, hk, List.getElem?_reverse hk, List.getElem?_eq_getElem h3]
  · have h1 : s.reverse[k]? = none := by rw [List.getElem?_eq_none_iff]; simp; omega
    have h2 : ((List.range s.length).map g)[k]? = none := by rw [List.getElem?_eq_none_iff]; simp; omega
    rw [h1, h2]

theorem map_via_range {β : Type} (s : Bytes) (f : Nat → β) :
    (List.range s.length).map (fun k => f (s.getD k 0)) = s.map f := by
  have := congrArg (List.map f) (range_map_getElem s 0)
  rw [List.map_map] at this
  exact this

theorem asciiLower_eq_spec (s : Bytes) : StrC.asciiLower s = .ok (Lib.asciiLower s) := by
  unfold StrC.asciiLower
  rw [fill_loop s.length 0 _ (fun k => (fun c => if lowerFrom ≤ c ∧ c ≤ lowerTo then c + lowerAdd else c) (s.getD k 0))]
  · simp only [R.ok_bind, R.pure_eq]
    exact congrArg R.ok (map_via_range s (fun c => if lowerFrom ≤ c ∧ c ≤ lowerTo then c + lowerAdd else c))
  · intro i buf hi hsz
    rw [idx_list_ok s i hi]
    simp only [R.ok_bind, getD_of_lt _ _ _ hi]
    by_cases hc : lowerFrom ≤ s[i] ∧ s[i] ≤ lowerTo
    · have : (s[i] + lowerAdd) % 256 = s[i] + lowerAdd := by
        have := hc.2; simp only [lowerTo, lowerAdd] at this ⊢; omega
      simp only [hc, and_self, if_true, this]
      exact setIdx_ok _ _ _ (by omega)
    · simp only [hc, if_false]
      exact setIdx_ok _ _ _ (by omega)

theorem asciiUpper_eq_spec (s : Bytes) : StrC.asciiUpper s = .ok (Lib.asciiUpper s) := by
  unfold StrC.asciiUpper
  rw [fill_loop s.length 0 _ (fun k => (fun c => if upperFrom ≤ c ∧ c ≤ upperTo then c - upperSub else c) (s.getD k 0))]
  · simp only [R.ok_bind, R.pure_eq]
    exact congrArg R.ok (map_via_range s (fun c => if upperFrom ≤ c ∧ c ≤ upperTo then c - upperSub else c))
  · intro i buf hi hsz
    rw [idx_list_ok s i hi]
    simp only [R.ok_bind, getD_of_lt _ _ _ hi]
    by_cases hc : upperFrom ≤ s[i] ∧ s[i] ≤ upperTo
    · have : (s[i] - upperSub) % 256 = s[i] - upperSub := by
        have := hc.2; simp only [upperTo, upperSub] at this ⊢; omega
      simp only [hc, and_self, if_true, this]
      exact setIdx_ok _ _ _ (by omega)
    · simp only [hc, if_false]
      exact setIdx_ok _ _ _ (by omega)

theorem bytes_eq_spec (s : Bytes) : StrC.bytes s = .ok (s.map (fun (c : Nat) => (c : Int))) := by
  unfold StrC.bytes
  rw [fill_loop s.length 0 _ (fun k => ((s.getD k 0 : Nat) : Int))]
  · simp only [R.ok_bind, R.pure_eq]
    exact congrArg R.ok (map_via_range s (fun (c : Nat) => (c : Int)))
  · intro i buf hi hsz
    rw [idx_list_ok s i hi]
    simp only [R.ok_bind, getD_of_lt _ _ _ hi]
    exact setIdx_ok _ _ _ (by omega)

example : StrC.reverse [1, 2, 3] = .ok [3, 2, 1] ∧ StrC.asciiUpper [97, 64, 122, 200] = .ok [65, 64, 90, 200] := by decide

/-! ### memcmp / has-prefix? / has-suffix? -/

theorem firstSome_memEq (xs ys : Bytes) (hl : xs.length = ys.length) (i : Nat) (f : Nat → Nat) :
    (firstSome (fun (k : Nat) (x : Nat) => if x ≠ f k then some false else none) i xs).getD true = true ↔
      ∀ k (h : k < xs.length), xs[k] = f (i + k) := by
  induction xs generalizing i ys with
  | nil => simp [firstSome]
  | cons x xs ih =>
    cases ys with
    | nil => simp at hl
    | cons y ys =>
      by_cases hx : x = f i
      · simp only [firstSome, hx, ne_eq, not_true_eq_false, if_false]
        rw [ih ys (by simpa using hl) (i + 1)]
        constructor
        · intro h k hk
          cases k with
          | zero => simp [hx]
          | succ k => simp only [List.getElem_cons_succ]; rw [h k (by simpa using hk)]; congr 1; omega
        · intro h k hk
          have := h (k + 1) (by simp; omega)
          simp only [List.getElem_cons_succ] at this
          rw [this]; congr 1; omega
      · simp only [firstSome, ne_eq, hx, not_false_eq_true, if_true, Option.getD_some, Bool.false_eq_true, false_iff]
        intro h
        have h0 := h 0 (by simp)
        simp only [List.getElem_cons_zero, Nat.add_zero] at h0
        exact hx h0

theorem memEq_spec (a b : Bytes) (boff : Nat) (h : boff + a.length ≤ b.length) :
    memEq a 0 b (boff : Int) a.length = .ok (a == (b.drop boff).take a.length) := by
  unfold memEq
  rw [scanUp_list0 a _ (fun k x => if x ≠ b.getD (boff + k) 0 then some false else none)
    (fun j hj => by
      have e1 : (0 : Int) + (j : Int) = (j : Int) := by omega
      have e2 : (boff : Int) + (j : Int) = ((boff + j : Nat) : Int) := by omega
      rw [e1, e2, idx_list_ok a j hj, idx_list_ok b _ (by omega)]
      simp [List.getElem?_eq_getElem (by omega : boff + j < b.length)])]
  simp only [R.ok_bind, R.pure_eq]
  congr 1
  have key := firstSome_memEq a ((b.drop boff).take a.length) (by simp; omega) 0 (fun k => b.getD (boff + k) 0)
  rw [Bool.eq_iff_iff, key, beq_iff_eq]
  constructor
  · intro hh
    apply List.ext_getElem (by simp; omega)
    intro k h1 h2
    rw [hh k h1]
    simp [List.getElem?_eq_getElem (by omega : boff + k < b.length)]
  · intro hh k hk
    have : k < ((b.drop boff).take a.length).length := by rw [← hh]; exact hk
    have e : a[k] = ((b.drop boff).take a.length)[k] := by simp only [← hh]
    rw [e]
    simp [List.getElem?_eq_getElem (by omega : boff + k < b.length)]

theorem hasPrefix_eq_spec (p s : Bytes) : StrC.hasPrefix p s = .ok (Lib.hasPrefix p s) := by
  unfold StrC.hasPrefix Lib.hasPrefix
  by_cases h : s.length < p.length
  · simp only [h, if_true, R.pure_eq]
    congr 1
    symm
    rw [beq_eq_false_iff_ne]
    intro e
    have := congrArg List.length e
    simp at this; omega
  · simp only [h, if_false]
    have := memEq_spec p s 0 (by omega)
    simp only [Int.natCast_zero, List.drop_zero] at this
    rw [this]
    congr 1
    rw [Bool.eq_iff_iff, beq_iff_eq, beq_iff_eq]
    exact eq_comm

theorem hasSuffix_eq_spec (p s : Bytes) : StrC.hasSuffix p s = .ok (Lib.hasSuffix p s) := by
  unfold StrC.hasSuffix Lib.hasSuffix
  by_cases h : s.length < p.length
  · have : ¬ (p.length ≤ s.length) := by omega
    simp [h, this]
  · have h' : p.length ≤ s.length := by omega
    simp only [h, if_false, h', decide_true, Bool.true_and]
    have e : (s.length : Int) - (p.length : Int) = ((s.length - p.length : Nat) : Int) := by omega
    rw [e, memEq_spec p s _ (by omega)]
    congr 1
    have : (s.drop (s.length - p.length)).take p.length = s.drop (s.length - p.length) := by
      apply List.take_of_length_le; simp; omega
    rw [this, Bool.eq_iff_iff, beq_iff_eq, beq_iff_eq]
    exact eq_comm

example : StrC.hasPrefix [1, 2] [1, 2, 3] = .ok true ∧ StrC.hasSuffix [2, 3] [1, 2, 3] = .ok true
    ∧ StrC.hasSuffix [1, 3] [1, 2, 3] = .ok false ∧ StrC.hasPrefix [1, 2, 3, 4] [1, 2, 3] = .ok false := by decide

/-! ### string/slice -/

theorem slice_eq_spec (s : Bytes) (st en : Option Int) : StrC.slice s st en = R.ofOption (Lib.slice s st en) := by
  unfold StrC.slice Lib.slice
  cases hg : getslice st en s.length with
  | none => rfl
  | some ab =>
    obtain ⟨a, b⟩ := ab
    obtain ⟨hab, hbl⟩ := getslice_some hg
    have e : (b : Int) - (a : Int) = ((b - a : Nat) : Int) := by omega
    simp only [e, R.ofOption_some]
    exact stringv_spec s a (b - a) (by omega)

example : StrC.slice [1, 2, 3, 4] (some (-3)) (some (-1)) = .ok [3, 4] ∧ StrC.slice [1, 2] (some 3) none = .panic := by decide

end JanetModel.Lib.StrC
