/- C17: mirror of boot.janet `sort-help` (median-of-three pivot chosen with the polymorphic `<=`,
   Hoare partition driven by the user's `before?`).  Core Lean only.  `none` = janet raises an error
   (`in` with an index outside the array), `fuel` bounds the loops / recursion; sufficiency of the fuel and
   in-bounds indexing for strict weak orders are proved in Lib/SortProofs.lean. -/
namespace JanetModel.Lib.Sort

/-- `(median-of-three x y z)` — uses `<=` on the values, *not* `before?`. -/
def medianOfThree {α : Type} (le : α → α → Bool) (x y z : α) : α :=
  if le x y then (if le y z then y else if le z x then x else z)
  else (if le z y then y else if le x z then x else z)

/-- outcome of the janet code: a value, a raised error (`in` out of range), or fuel exhausted (the model's bound;
    shown unreachable for strict weak orders, and what non-terminating recursion looks like otherwise). -/
inductive Res (α : Type) where
  | ok (a : α)
  | err
  | fuel
  deriving Repr, DecidableEq

/-- `(while (before? (in a left) pivot) (++ left))`; `err` when `left` runs off the array. -/
def scanLeft {α : Type} (before : α → α → Bool) (a : Array α) (pivot : α) : Nat → Nat → Res Nat
  | 0, _ => .fuel
  | fuel + 1, left =>
    match a[left]? with
    | none => .err
    | some x => if before x pivot then scanLeft before a pivot fuel (left + 1) else .ok left

/-- `(while (before? pivot (in a right)) (-- right))`; `right` is an `Int` because it can reach -1. -/
def scanRight {α : Type} (before : α → α → Bool) (a : Array α) (pivot : α) : Nat → Int → Res Int
  | 0, _ => .fuel
  | fuel + 1, right =>
    if right < 0 then .err else
    match a[right.toNat]? with
    | none => .err
    | some x => if before pivot x then scanRight before a pivot fuel (right - 1) else .ok right

/-- the `(while true …)` loop of sort-help.  Returns the array and the final `left`, `right`. -/
def partitionLoop {α : Type} (before : α → α → Bool) (pivot : α) : Nat → Array α → Nat → Int → Res (Array α × Nat × Int)
  | 0, _, _, _ => .fuel
  | fuel + 1, a, left, right =>
    match scanLeft before a pivot (a.size + 1) left with
    | .err => .err
    | .fuel => .fuel
    | .ok left1 =>
      match scanRight before a pivot (a.size + 1) right with
      | .err => .err
      | .fuel => .fuel
      | .ok right1 =>
        if (left1 : Int) ≤ right1 then
          match a[left1]?, a[right1.toNat]? with
          | some _, some _ =>
            -- (def tmp (in a left)) (set (a left) (in a right)) (set (a right) tmp)
            let a' := a.swapIfInBounds left1 right1.toNat
            let left2 := left1 + 1
            let right2 := right1 - 1
            if (left2 : Int) ≥ right2 then .ok (a', left2, right2)
            else partitionLoop before pivot fuel a' left2 right2
          | _, _ => .err
        else .ok (a, left1, right1)

/-- `(sort-help a lo hi before?)`. -/
def sortHelp {α : Type} (le before : α → α → Bool) : Nat → Array α → Int → Int → Res (Array α)
  | 0, _, _, _ => .fuel
  | fuel + 1, a, lo, hi =>
    if lo < hi then
      if lo < 0 then .err else
      match a[lo.toNat]?, a[((lo + hi) / 2).toNat]?, a[hi.toNat]? with
      | some x, some y, some z =>
        let pivot := medianOfThree le x y z
        match partitionLoop before pivot (a.size + 2) a lo.toNat hi with
        | .err => .err
        | .fuel => .fuel
        | .ok (a1, left, right) =>
          match (if lo < right then sortHelp le before fuel a1 lo right else .ok a1) with
          | .err => .err
          | .fuel => .fuel
          | .ok a2 => if (left : Int) < hi then sortHelp le before fuel a2 left hi else .ok a2
      | _, _, _ => .err
    else .ok a

/-- `(sort ind before?)`. -/
def sort {α : Type} (le before : α → α → Bool) (a : Array α) : Res (Array α) :=
  sortHelp le before (a.size + 1) a 0 ((a.size : Int) - 1)

end JanetModel.Lib.Sort
