import JanetModel.Lib.Boot12
import JanetModel.Lib.Boot11Proofs
/- C17 (session 4d): map-template with a breaking aggregator (`some`, `all`), every branch and any number of sequences,
   equals the stopping fold `foldB` over the row results up to the shortest sequence; for the two aggregators of boot.janet
   that fold is `find?` (first truthy / first falsey result, else the initial value). -/
namespace JanetModel.Lib.Boot
open JanetModel.Lib JanetModel.Lib.JIter JanetModel.Lib.CLoop

def rowVal {α β γ : Type} (f : α → List β → γ) (ind : List α) (inds : List (List β)) (j : Nat) : Option γ :=
  ind[j]?.map (fun x => f x (inds.filterMap (fun c => c[j]?)))

/-- the row results from row `i` on -/
def rowValsFrom {α β γ : Type} (f : α → List β → γ) (ind : List α) (inds : List (List β)) (i : Nat) : List γ :=
  (List.range' i (minLen ind.length inds - i)).filterMap (rowVal f ind inds)

theorem rowVals_eq {α β γ : Type} (f : α → List β → γ) (ind : List α) (inds : List (List β)) :
    rowVals f ind inds = rowValsFrom f ind inds 0 := by
  simp only [rowVals, rowValsFrom, List.range_eq_range', Nat.sub_zero]
  rfl

theorem rowValsFrom_end {α β γ : Type} (f : α → List β → γ) (ind : List α) (inds : List (List β)) (i : Nat)
    (h : minLen ind.length inds ≤ i) : rowValsFrom f ind inds i = [] := by
  have : minLen ind.length inds - i = 0 := by omega
  simp [rowValsFrom, this]

theorem rowValsFrom_step {α β γ : Type} (f : α → List β → γ) (ind : List α) (inds : List (List β)) (i : Nat)
    (h : i < ind.length) (hall : ∀ c ∈ inds, i < c.length) :
    rowValsFrom f ind inds i = f ind[i] (inds.filterMap (fun c => c[i]?)) :: rowValsFrom f ind inds (i + 1) := by
  have hm : i + 1 ≤ minLen ind.length inds := le_minLen inds ind.length (i + 1) h (fun c hc => hall c hc)
  have e : minLen ind.length inds - i = (minLen ind.length inds - (i + 1)) + 1 := by omega
  simp only [rowValsFrom]
  rw [e, List.range'_succ, List.filterMap_cons]
  simp [rowVal, List.getElem?_eq_getElem h]

/-- what one iteration does to the remaining computation -/
theorem foldB_cons {γ σ : Type} (agg : σ → γ → σ × Bool) (s : σ) (v : γ) (vs : List γ) :
    foldB agg s (v :: vs) = if (agg s v).2 then (agg s v).1 else foldB agg (agg s v).1 vs := rfl

/-- ★ `map-n n` for every `n`, with a breaking aggregator -/
theorem mapNB_eq_spec {α β γ σ : Type} (agg : σ → γ → σ × Bool) (f : α → List β → γ) (init : σ) (ind : List α)
    (inds : List (List β)) : Boot.mapNB agg f init ind inds = .ok (foldB agg init (rowVals f ind inds)) := by
  unfold Boot.mapNB each
  rw [nextKey_nil, rowVals_eq]
  obtain ⟨⟨res, keys⟩, hs, hP⟩ := eachLoop_inv ind (mapNBBody agg f inds)
    (fun i st => (∀ c ∈ inds, i ≤ c.length) ∧ st.2 = inds.map (fun _ => prevKey i) ∧
        foldB agg st.1 (rowValsFrom f ind inds i) = foldB agg init (rowValsFrom f ind inds 0))
    (fun st => st.1 = foldB agg init (rowValsFrom f ind inds 0))
    (by
      intro i h ⟨res, keys⟩ ⟨hle, hkeys, hres⟩
      simp only at hkeys hres
      subst hkeys
      by_cases hall : ∀ c ∈ inds, i < c.length
      · simp only [mapNBBody, advanceKeys_all i inds hall, fetchRow_all i inds hall]
        rw [rowValsFrom_step f ind inds i h hall, foldB_cons] at hres
        cases hb : (agg res (f ind[i] (inds.filterMap (fun c => c[i]?)))).2 with
        | false =>
          left
          rw [hb] at hres
          refine ⟨_, rfl, fun c hm => by have := hall c hm; omega, by simp [prevKey], ?_⟩
          simpa using hres
        | true =>
          right
          rw [hb] at hres
          refine ⟨_, rfl, ?_⟩
          simpa using hres
      · right
        have hex : ∃ c ∈ inds, ¬ i < c.length := by
          apply Classical.byContradiction
          intro hno
          apply hall
          intro c hm
          apply Classical.byContradiction
          intro hn
          exact hno ⟨c, hm, hn⟩
        simp only [mapNBBody, advanceKeys_short i inds hex]
        refine ⟨_, rfl, ?_⟩
        obtain ⟨c, hm, hn⟩ := hex
        have h2 := minLen_le_mem inds ind.length c hm
        rw [rowValsFrom_end f ind inds i (by omega)] at hres
        simpa [foldB] using hres)
    (ind.length + 1) 0 (init, inds.map (fun _ => none)) (by omega) (by omega)
    ⟨fun _ _ => Nat.zero_le _, by simp [prevKey], rfl⟩
  rw [hs]
  simp only [R.ok_bind, R.pure_eq]
  congr 1
  rcases hP with ⟨_, _, h⟩ | h
  · simp only at h
    rw [rowValsFrom_end f ind inds ind.length (minLen_le inds ind.length)] at h
    simpa [foldB] using h
  · exact h

/-- ★ the general branch of map-template with a breaking aggregator -/
theorem mapGenB_eq_spec {α β γ σ : Type} (agg : σ → γ → σ × Bool) (f : α → List β → γ) (init : σ) (ind : List α)
    (inds : List (List β)) : Boot.mapGenB agg f init ind inds = .ok (foldB agg init (rowVals f ind inds)) := by
  unfold Boot.mapGenB each
  simp only
  rw [nextKey_nil, rowVals_eq]
  obtain ⟨st, hs, hP⟩ := eachLoop_inv ind (mapGenBBody agg f inds.toArray)
    (fun i st => (∀ c ∈ inds, i ≤ c.length) ∧ st.iterKeys = (inds.map (fun _ => prevKey i)).toArray ∧
        st.callBuffer.size = inds.length ∧
        foldB agg st.res (rowValsFrom f ind inds i) = foldB agg init (rowValsFrom f ind inds 0))
    (fun st => st.res = foldB agg init (rowValsFrom f ind inds 0))
    (by
      intro i h st ⟨hle, hkeys, hcb, hres⟩
      have hI : FillInv inds i 0 st.iterKeys st.callBuffer :=
        ⟨by simp [hkeys], hcb, fun p hp => by simp [hkeys, hp], fun p hp => by omega, fun p hp => by omega⟩
      obtain ⟨ik', cb', d, hf, hd1, hd2⟩ := fillCallBuffer_spec inds i inds.length 0 st.iterKeys st.callBuffer (by omega) hI
      simp only [mapGenBBody, List.size_toArray, hf]
      cases d with
      | true =>
        right
        refine ⟨_, rfl, ?_⟩
        obtain ⟨c, hm, hn⟩ := hd1 rfl
        have h2 := minLen_le_mem inds ind.length c hm
        rw [rowValsFrom_end f ind inds i (by omega)] at hres
        simpa [foldB] using hres
      | false =>
        obtain ⟨hk', hrow, hlong⟩ := (hd2 rfl).full
        rw [rowValsFrom_step f ind inds i h hlong, foldB_cons] at hres
        simp only [Bool.false_eq_true, if_false, hrow]
        cases hb : (agg st.res (f ind[i] (inds.filterMap (fun c => c[i]?)))).2 with
        | false =>
          left
          rw [hb] at hres
          refine ⟨_, rfl, fun c hm => by have := hlong c hm; omega, hk', (hd2 rfl).szc, ?_⟩
          simpa using hres
        | true =>
          right
          rw [hb] at hres
          refine ⟨_, rfl, ?_⟩
          simpa using hres)
    (ind.length + 1) 0
    { res := init, iterKeys := Array.replicate inds.length none, callBuffer := Array.replicate inds.length none, done := false }
    (by omega) (by omega)
    ⟨fun _ _ => Nat.zero_le _, by apply Array.ext'; simp [prevKey, List.map_const'], by simp, rfl⟩
  rw [hs]
  simp only [R.ok_bind, R.pure_eq]
  congr 1
  rcases hP with ⟨_, _, _, h⟩ | h
  · rw [rowValsFrom_end f ind inds ind.length (minLen_le inds ind.length)] at h
    simpa [foldB] using h
  · exact h

/-- branch `0` is the `map-n` expansion with no key statement -/
theorem map0B_eq_mapNB {α β γ σ : Type} (agg : σ → γ → σ × Bool) (f : α → List β → γ) (init : σ) (ind : List α) :
    Boot.map0B agg f init ind = Boot.mapNB agg f init ind ([] : List (List β)) := by
  unfold Boot.map0B Boot.mapNB each
  rw [nextKey_nil]
  have key : ∀ fuel k (s : σ),
      (do let st ← eachLoop ind (mapNBBody agg f ([] : List (List β))) fuel k (s, []); pure st.1 : R σ)
        = eachLoop ind (fun _ x (res : σ) => .ok (agg res (f x []))) fuel k s := by
    intro fuel
    induction fuel with
    | zero => intro k s; cases k <;> rfl
    | succ n ih =>
      intro k s
      cases k with
      | none => rfl
      | some i =>
        simp only [eachLoop]
        cases hx : inIdx ind i with
        | ok x =>
          simp only [mapNBBody, advanceKeys, fetchRow, List.map_nil]
          cases hb : (agg s (f x [])).2 with
          | true => simp [hb]
          | false => simp only [hb, Bool.false_eq_true, if_false]; exact ih _ _
        | panic => rfl
        | ub => rfl
  exact (key _ _ _).symm

/-- ★ map-template as a whole (the `case ninds` dispatch), breaking aggregator -/
theorem mapTemplateB_eq_spec {α β γ σ : Type} (agg : σ → γ → σ × Bool) (f : α → List β → γ) (init : σ) (ind : List α)
    (inds : List (List β)) : Boot.mapTemplateB agg f init ind inds = .ok (foldB agg init (rowVals f ind inds)) := by
  unfold Boot.mapTemplateB
  split
  · rename_i h
    have : inds = [] := List.eq_nil_of_length_eq_zero h
    subst this
    rw [map0B_eq_mapNB, mapNB_eq_spec]
  · exact mapNB_eq_spec agg f init ind inds
  · exact mapNB_eq_spec agg f init ind inds
  · exact mapNB_eq_spec agg f init ind inds
  · exact mapGenB_eq_spec agg f init ind inds

theorem foldB_someAgg {γ : Type} (truthy : γ → Bool) : ∀ (vs : List γ) (s : γ),
    foldB (someAgg truthy) s vs = (vs.find? truthy).getD s
  | [], _ => rfl
  | v :: vs, s => by
    rw [foldB_cons, List.find?_cons]
    cases hv : truthy v with
    | true => simp [someAgg, hv]
    | false => simp only [someAgg, hv, Bool.false_eq_true, if_false]; exact foldB_someAgg truthy vs s

theorem foldB_allAgg {γ : Type} (truthy : γ → Bool) : ∀ (vs : List γ) (s : γ),
    foldB (allAgg truthy) s vs = (vs.find? (fun v => !truthy v)).getD s
  | [], _ => rfl
  | v :: vs, s => by
    rw [foldB_cons, List.find?_cons]
    cases hv : truthy v with
    | true => simp only [allAgg, hv, if_true, Bool.not_true, Bool.false_eq_true, if_false]; exact foldB_allAgg truthy vs s
    | false => simp [allAgg, hv]

/-- ★ `some` = its reference definition, any number of sequences -/
theorem someOf_eq_spec {α β γ : Type} (truthy : γ → Bool) (nilv : γ) (pred : α → List β → γ) (ind : List α) (inds : List (List β)) :
    Boot.someOf truthy nilv pred ind inds = .ok (someSpec truthy nilv pred ind inds) := by
  unfold Boot.someOf someSpec
  rw [mapTemplateB_eq_spec, foldB_someAgg]

/-- ★ `all` = its reference definition, any number of sequences -/
theorem allOf_eq_spec {α β γ : Type} (truthy : γ → Bool) (truev : γ) (pred : α → List β → γ) (ind : List α) (inds : List (List β)) :
    Boot.allOf truthy truev pred ind inds = .ok (allSpec truthy truev pred ind inds) := by
  unfold Boot.allOf allSpec
  rw [mapTemplateB_eq_spec, foldB_allAgg]

/-- the number of rows is at most the length of every sequence -/
theorem rowVals_length_le {α β γ : Type} (f : α → List β → γ) (ind : List α) (inds : List (List β)) :
    (rowVals f ind inds).length ≤ ind.length := by
  have h1 : (rowVals f ind inds).length ≤ minLen ind.length inds := by
    unfold rowVals
    exact Nat.le_trans (List.length_filterMap_le _ _) (by simp [minLen])
  exact Nat.le_trans h1 (minLen_le inds ind.length)

theorem rowVals_length_le_mem {α β γ : Type} (f : α → List β → γ) (ind : List α) (inds : List (List β)) :
    ∀ c ∈ inds, (rowVals f ind inds).length ≤ c.length := by
  intro c hc
  have h1 : (rowVals f ind inds).length ≤ minLen ind.length inds := by
    unfold rowVals
    exact Nat.le_trans (List.length_filterMap_le _ _) (by simp [minLen])
  exact Nat.le_trans h1 (minLen_le_mem inds ind.length c hc)

example : Boot.someOf (fun (v : Option Nat) => v.isSome) none (fun (x : Nat) row => let t := row.foldl (· + ·) x; if t > 2000 then some t else none)
    [1, 2, 3, 4] [[10, 20, 30], [100, 200, 300], [1000, 2000, 3000], [0, 0, 0, 0], [0, 0, 0]] = .ok (some 2222) := by decide

example : Boot.allOf (fun (v : Bool) => v) true (fun (x : Nat) row => decide (row.foldl (· + ·) x < 3000))
    [1, 2, 3, 4] [[10, 20, 30], [100, 200], [1000, 2000, 3000], [0, 0, 0, 0]] = .ok true := by decide

end JanetModel.Lib.Boot
