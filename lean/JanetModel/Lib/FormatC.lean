import JanetModel.Lib.Format
import JanetModel.Lib.CLoop
import JanetModel.Gen.Lib
/- C17 (session 4): mirror of pp.c `scanformat`, the directive scanner of `janet_formatbv` (string/format, buffer/format):
   flags, width (≤ 2 digits), `.precision` (≤ 2 digits), the two error exits, and the construction of the `snprintf` format
   in the local `char form[MAX_FORMAT]`.  Core Lean only.  Theorems in Lib/FormatCProofs.lean.

     static const char *scanformat(const char *strfrmt, char *form, char width[3], char precision[3]) {
         const char *p = strfrmt;
         memset(width, '\0', 3);  memset(precision, '\0', 3);
         while (*p != '\0' && strchr(FMT_FLAGS, *p) != NULL) p++;
         if ((size_t)(p - strfrmt) >= sizeof(FMT_FLAGS)) janet_panic("invalid format (repeated flags)");
         if (isdigit((int)(*p))) width[0] = *p++;
         if (isdigit((int)(*p))) width[1] = *p++;
         if (*p == '.') { p++; if (isdigit((int)(*p))) precision[0] = *p++; if (isdigit((int)(*p))) precision[1] = *p++; }
         if (isdigit((int)(*p))) janet_panic("invalid format (width or precision too long)");
         *(form++) = '%';
         const char *p2 = strfrmt;
         while (p2 <= p) {
             char *loc = strchr(FMT_REPLACE_INTTYPES, *p2);
             if (loc != NULL && *loc != '\0') { const char *mapping = get_fmt_mapping(*p2++); size_t len = strlen(mapping);
                                                memcpy(form, mapping, len); form += len; }
             else { *(form++) = *(p2++); }
         }
         *form = '\0';
         return p;
     }

   `strfrmt` is the NUL-terminated rest of the format after the `%`: the array `rest ++ [0]`; reading past the terminator or
   writing outside `form[32]` is `.ub`.  `FMT_FLAGS` = "-+ #0" (`sizeof` = 6), `FMT_REPLACE_INTTYPES` = "diouxX",
   `MAX_FORMAT` = 32 (Gen/LibSrc `define_*`, tied).  `get_fmt_mapping(c)` = PRId64 … = `"l"` followed by `c` (LP64 glibc: stated
   assumption; only the length 2 matters for the bound). -/
namespace JanetModel.Lib.FormatC
open JanetModel.Lib JanetModel.Lib.Format

def maxFormat : Nat := 32
def sizeofFmtFlags : Nat := 6

/-- `strchr(FMT_REPLACE_INTTYPES, c)` finds a character other than the terminator -/
def isIntType (c : Nat) : Bool := c == 100 || c == 105 || c == 111 || c == 117 || c == 120 || c == 88   -- "diouxX"

structure Scan where
  p : Nat                -- offset of the conversion character (the returned pointer) in `strfrmt`
  width : Bytes          -- the digits stored in `width[]`
  precision : Bytes      -- the digits stored in `precision[]`
  form : Bytes           -- the contents of `form[]` before the terminating NUL
  deriving Repr, DecidableEq

/-- `while (*p != '\0' && strchr(FMT_FLAGS, *p) != NULL) p++;` -/
def skipFlags (s : Array Nat) : Nat → Nat → R Nat
  | 0, _ => .ub
  | fuel + 1, p => do
    let c ← idx s (p : Int)
    if c ≠ 0 ∧ isFlag c = true then skipFlags s fuel (p + 1) else pure p

/-- `if (isdigit((int)(*p))) arr[k] = *p++;` (the digits collected so far, `p`) -/
def digitStep (s : Array Nat) (st : Bytes × Nat) : R (Bytes × Nat) := do
  let c ← idx s (st.2 : Int)
  if isDigit c = true then pure (st.1 ++ [c], st.2 + 1) else pure st

/-- the two statements `if (isdigit((int)(*p))) arr[0] = *p++;  if (isdigit((int)(*p))) arr[1] = *p++;` -/
def twoDigits (s : Array Nat) (p : Nat) : R (Bytes × Nat) := do
  let st ← digitStep s ([], p)
  digitStep s st

/-- `while (p2 <= p) { … }`: (form, write offset) -/
def writeForm (s : Array Nat) (p : Nat) : Nat → Nat → Array Nat → Nat → R (Array Nat × Nat)
  | 0, _, _, _ => .ub
  | fuel + 1, p2, form, pos =>
    if p2 ≤ p then do
      let c ← idx s (p2 : Int)
      if c ≠ 0 ∧ isIntType c = true then do                 -- loc != NULL && *loc != '\0'
        let form ← setIdx form (pos : Int) 108                -- memcpy(form, mapping, len): "l", c
        let form ← setIdx form ((pos + 1 : Nat) : Int) c
        writeForm s p fuel (p2 + 1) form (pos + 2)
      else do
        let form ← setIdx form (pos : Int) c                  -- *(form++) = *(p2++)
        writeForm s p fuel (p2 + 1) form (pos + 1)
    else pure (form, pos)

/-- the end of `scanformat`: the "too long" check, the construction of `form`, the result -/
def finish (s : Array Nat) (p : Nat) (w pr : Bytes) : R Scan := do
  let c ← idx s (p : Int)
  if isDigit c = true then .panic else do                      -- "invalid format (width or precision too long)"
  let form ← setIdx (Array.replicate maxFormat 0) 0 37         -- *(form++) = '%'
  let (form, pos) ← writeForm s p (p + 2) 0 form 1
  let form ← setIdx form (pos : Int) 0                         -- *form = '\0'
  pure { p := p, width := w, precision := pr, form := form.toList.take pos }

def scanformat (rest : Bytes) : R Scan := do
  let s := (rest ++ [0]).toArray
  let p ← skipFlags s s.size 0
  if p ≥ sizeofFmtFlags then .panic else do                    -- "invalid format (repeated flags)"
  let (w, p) ← twoDigits s p
  let c ← idx s (p : Int)
  let (pr, p) ← (if c = 46 then twoDigits s (p + 1) else pure ([], p) : R (Bytes × Nat))
  finish s p w pr

/-! ## the per-directive item step of `janet_formatbv` / `janet_buffer_format` (session 4c)

     char form[MAX_FORMAT], item[MAX_ITEM];   int nb = 0;
     …  nb = snprintf(item, MAX_ITEM, form, <argument>);  …                      (one of the conversion cases)
     if (nb >= MAX_ITEM) janet_panic("format buffer overflow");
     if (nb > 0) janet_buffer_push_bytes(b, (uint8_t *) item, nb);

   `snprintf(item, bound, form, x)` is specified by C99 7.19.6.5 in terms of the *complete* rendering `full` of the directive
   (what `sprintf` would write; a parameter here): it returns `full.length` whether or not that fits, stores the first
   `min(full.length, bound − 1)` bytes followed by a NUL when `bound > 0`, and leaves the rest of `item[]` indeterminate
   (`indeterminate` below, a value that is not a byte).  Writing outside `item[size]`, and `memcpy` reading outside it, is `.ub`.
   The array size, the bound, the limit and the comparison operator are taken from the current pp.c (Gen/Lib.lean). -/

/-- content of an `item[]` cell that no one has written -/
def indeterminate : Nat := 256

/-- `snprintf(item, bound, form, x)` where the complete rendering of the directive is `full`: (`item[]` afterwards, return value) -/
def snprintfItem (size bound : Nat) (full : Bytes) : R (Array Nat × Int) :=
  if bound = 0 then .ok (Array.replicate size indeterminate, (full.length : Int)) else
  let kept := full.take (bound - 1)
  if kept.length + 1 > size then .ub else                                 -- the terminator would be written outside item[]
  .ok ((kept ++ [0] ++ List.replicate (size - (kept.length + 1)) indeterminate).toArray, (full.length : Int))

/-- `janet_buffer_push_bytes(b, (uint8_t *) item, nb)`: `memcpy(b->data + b->count, item, nb)` -/
def pushItem (out : Bytes) (item : Array Nat) (nb : Int) : R Bytes :=
  if nb < 0 then .ub else
  if nb.toNat ≤ item.size then .ok (out ++ item.toList.take nb.toNat) else .ub

/-- the statements after `scanformat` for a conversion that goes through `snprintf`; `ge` = the overflow test is
    `nb >= limit` (true) or `nb > limit` (false) -/
def itemStep (size bound limit : Nat) (ge : Bool) (out full : Bytes) : R Bytes := do
  let (item, nb) ← snprintfItem size bound full
  if (if ge then nb ≥ (limit : Int) else nb > (limit : Int)) then .panic else do   -- "format buffer overflow"
  if nb > 0 then pushItem out item nb else pure out

/-- the item step as it stands in the current `janet_formatbv` (janet_formatc, janet_formatb, error messages) -/
def formatbvItem (out full : Bytes) : R Bytes :=
  itemStep Gen.Lib.formatbvItemSize Gen.Lib.formatbvSnprintfBound Gen.Lib.formatbvOverflowLimit Gen.Lib.formatbvOverflowGe out full

/-- the item step as it stands in the current `janet_buffer_format` (string/format, buffer/format, printf family) -/
def bufferFormatItem (out full : Bytes) : R Bytes :=
  itemStep Gen.Lib.bufferFormatItemSize Gen.Lib.bufferFormatSnprintfBound Gen.Lib.bufferFormatOverflowLimit
    Gen.Lib.bufferFormatOverflowGe out full

/-- the documented limit: an item of at most 255 bytes (`MAX_ITEM` 256 with the terminator) -/
def maxItem : Nat := 256

/-- reference: the item is appended exactly, or the call raises because it does not fit -/
def itemSpec (out full : Bytes) : R Bytes := if full.length ≥ maxItem then .panic else .ok (out ++ full)

/-- the conversion character must not be a third digit; its offset is what has been consumed -/
def parseTail (len : Nat) (w : Bytes) (p : Option Bytes) (r3 : Bytes) : Option (Nat × Bytes × Bytes) :=
  match r3 with
  | conv :: _ => if isDigit conv then none else some (len - r3.length, w, p.getD [])
  | [] => some (len, w, p.getD [])

/-- the directive syntax as `Format.go` reads it (the same expressions: flags by `takeWhile isFlag`, at most two width
    digits, an optional `.` with at most two precision digits): offset of the conversion character, width digits,
    precision digits; `none` = one of the two "invalid format" errors -/
def parse (rest : Bytes) : Option (Nat × Bytes × Bytes) :=
  let fl := rest.takeWhile isFlag
  let r1 := rest.dropWhile isFlag
  if fl.length ≥ 6 then none else
  let w := (r1.takeWhile isDigit).take 2
  let r2 := r1.drop w.length
  let pr := precPart r2
  parseTail rest.length w pr.1 pr.2

end JanetModel.Lib.FormatC
