import JanetModel.Lib.BufPushC
import JanetModel.Lib.ArrC
/- C17 (session 4): mirrors of the remaining buffer.c / array.c cfuns of the property: `janet_buffer_push_u32`,
   `buffer/push-word`, `reverse_u32` / `reverse_u64`, `should_reverse_bytes`, `buffer/push-uint16|32|64`,
   `buffer/new-filled`, `array/new-filled`, `array/push`, `janet_array_pop` / `array/pop`, `janet_array_peek` / `array/peek`.
   Core Lean only.  Theorems in Lib/MiscC2Proofs.lean.

   Assumption stated once: the target is little-endian (`JANET_LITTLE_ENDIAN`, as on the machine the check runs on), so
   `memcpy(bytes, &data, sizeof(data))` yields the little-endian bytes of `data` and `should_reverse_bytes` answers 1 for `:be`. -/
namespace JanetModel.Lib.BufPush
open JanetModel.Lib JanetModel.Lib.CLoop

/-- consecutive stores `data[p] = v0; data[p + 1] = v1; …` -/
def writeCells (data : Array Nat) (p : Nat) : List Nat → R (Array Nat)
  | [] => .ok data
  | v :: vs => do
    let data ← setIdx data (p : Int) v
    writeCells data (p + 1) vs

/-- `janet_buffer_push_u32`:
      `janet_buffer_extra(buffer, 4);
       buffer->data[buffer->count] = x & 0xFF;            buffer->data[buffer->count + 1] = (x >> 8) & 0xFF;
       buffer->data[buffer->count + 2] = (x >> 16) & 0xFF; buffer->data[buffer->count + 3] = (x >> 24) & 0xFF;
       buffer->count += 4;` -/
def pushU32 (b : Buf) (x : Nat) : R Buf := do
  let b ← extra b 4
  let data ← writeCells b.data b.count [x &&& 0xFF, (x >>> 8) &&& 0xFF, (x >>> 16) &&& 0xFF, (x >>> 24) &&& 0xFF]
  pure { data := data, count := b.count + 4 }

/-- one argument of `cfun_buffer_word`:
      `double number = janet_getnumber(argv, i);  uint32_t word = (uint32_t) number;
       if (word != number) janet_panicf("cannot convert %v to machine word", argv[i]);
       janet_buffer_push_u32(buffer, word);`
    `number` is an integral double here.  For a value outside `[0, 2^32)` the cast is not defined by ISO C; every
    supported compiler produces some `uint32_t`, which then differs from `number`, so the call raises — this branch is
    compared with the implementation by correspondence, not derived. -/
def pushWordArg (b : Buf) (number : Int) : R Buf :=
  if 0 ≤ number ∧ number < 4294967296 then pushU32 b number.toNat else .panic

/-- `for (i = 1; i < argc; i++) …`: the buffer as it is when the function returns or raises -/
def pushWord : Buf → List Int → Buf × R Unit
  | b, [] => (b, .ok ())
  | b, x :: rest =>
    match pushWordArg b x with
    | .ok b' => pushWord b' rest
    | .panic => (b, .panic)
    | .ub => (b, .ub)

/-- `reverse_u32`: `temp = bytes[3]; bytes[3] = bytes[0]; bytes[0] = temp; temp = bytes[2]; bytes[2] = bytes[1]; bytes[1] = temp;` -/
def swapCells (bytes : Array Nat) (i j : Nat) : R (Array Nat) := do
  let temp ← idx bytes (i : Int)          -- temp = bytes[i];
  let v ← idx bytes (j : Int)
  let bytes ← setIdx bytes (i : Int) v    -- bytes[i] = bytes[j];
  setIdx bytes (j : Int) temp             -- bytes[j] = temp;

def reverseU16 (bytes : Array Nat) : R (Array Nat) := swapCells bytes 1 0
def reverseU32 (bytes : Array Nat) : R (Array Nat) := do
  let bytes ← swapCells bytes 3 0
  swapCells bytes 2 1
def reverseU64 (bytes : Array Nat) : R (Array Nat) := do
  let bytes ← swapCells bytes 7 0
  let bytes ← swapCells bytes 6 1
  let bytes ← swapCells bytes 5 2
  swapCells bytes 4 3

/-- `should_reverse_bytes` on a little-endian target: `:le` → 0, `:be` → 1, `:native` → 0, anything else raises -/
def shouldReverse (order : Bytes) : R Bool :=
  if order = [108, 101] then .ok false
  else if order = [98, 101] then .ok true
  else if order = [110, 97, 116, 105, 118, 101] then .ok false
  else .panic

/-- `cfun_buffer_push_uint16|32|64` (`nbytes` = `sizeof(data)`):
      `int reverse = should_reverse_bytes(argv, 1);  uintN_t data = janet_getuintegerN(argv, 2);
       uint8_t bytes[sizeof(data)];  memcpy(bytes, &data, sizeof(bytes));
       if (reverse) reverse_uN(bytes);
       janet_buffer_push_bytes(buffer, bytes, sizeof(bytes));`
    `janet_getuintegerN` raises unless `0 ≤ data < 2^(8·nbytes)` (uint64: doubles only up to 2^53, decoded by the driver). -/
def pushUintC (b : Buf) (nbytes : Nat) (order : Bytes) (data : Int) : R Buf := do
  let reverse ← shouldReverse order
  if ¬ (0 ≤ data ∧ data < (256 : Int) ^ nbytes) then .panic else
  let bytes := (leBytes nbytes data.toNat).toArray                    -- memcpy(bytes, &data, sizeof(bytes))
  let bytes ← (if reverse then
      (if nbytes = 2 then reverseU16 bytes else if nbytes = 4 then reverseU32 bytes else reverseU64 bytes)
    else .ok bytes)
  pushBytes b bytes nbytes

/-- `cfun_buffer_new_filled`:
      `int32_t count = janet_getinteger(argv, 0);  if (count < 0) count = 0;
       int32_t byte = 0;  if (argc == 2) byte = janet_getinteger(argv, 1) & 0xFF;
       JanetBuffer *buffer = janet_buffer(count);
       if (buffer->data && count > 0) memset(buffer->data, byte, count);   buffer->count = count;` -/
def newFilledC (count byte : Int) : R Bytes := do
  let count := if count < 0 then 0 else count
  let n := count.toNat
  let data ← forUp (fun i (data : Array Nat) => setIdx data (i : Int) (toByte byte)) n 0 (Array.replicate n 0)
  pure data.toList

end JanetModel.Lib.BufPush

namespace JanetModel.Lib.ArrC
open JanetModel.Lib JanetModel.Lib.CLoop

/-- `cfun_array_new_filled`: `int32_t count = janet_getnat(argv, 0);  Janet x = (argc == 2) ? argv[1] : nil;
      JanetArray *array = janet_array(count);  for (int32_t i = 0; i < count; i++) array->data[i] = x;  array->count = count;` -/
def newFilled {α : Type} [Inhabited α] (count : Int) (x : α) : R (List α) :=
  if count < 0 then .panic else do                                     -- janet_getnat
    let n := count.toNat
    let data ← forUp (fun i (data : Array α) => setIdx data (i : Int) x) n 0 (Array.replicate n default)
    pure data.toList

/-- `cfun_array_push` (`argc = 1 + xs.length`):
      `if (INT32_MAX - argc + 1 <= array->count) janet_panic("array overflow");
       int32_t newcount = array->count - 1 + argc;  janet_array_ensure(array, newcount, 2);
       if (argc > 1) memcpy(array->data + array->count, argv + 1, (size_t)(argc - 1) * sizeof(Janet));
       array->count = newcount;` -/
def pushC {α : Type} [Inhabited α] (a : List α) (xs : List α) : R (List α) := do
  let argc : Int := 1 + xs.length
  let count : Int := a.length
  let t ← sub32 int32Max argc
  let t ← add32 t 1
  if t ≤ count then .panic else do
  let t ← sub32 count 1
  let newcount ← add32 t argc
  if newcount < count then .ub else do                                 -- (the block must not shrink)
  let data := a.toArray ++ Array.replicate (newcount.toNat - a.length) default     -- janet_array_ensure
  let n ← sub32 argc 1
  if n < 0 then .ub else do
  let data ← (if argc > 1 then memcpy data count xs.toArray 0 n.toNat else pure data : R (Array α))
  pure (data.toList.take newcount.toNat)

/-- `janet_array_pop`: `if (array->count) return array->data[--array->count]; else return nil;` → (value, array after) -/
def pop {α : Type} (a : List α) : R (Option α × List α) :=
  if a.length ≠ 0 then do
    let count ← sub32 (a.length : Int) 1
    let v ← idx a.toArray count
    pure (some v, a.take count.toNat)
  else pure (none, a)

/-- `janet_array_peek`: `if (array->count) return array->data[array->count - 1]; else return nil;` -/
def peek {α : Type} (a : List α) : R (Option α) :=
  if a.length ≠ 0 then do
    let i ← sub32 (a.length : Int) 1
    let v ← idx a.toArray i
    pure (some v)
  else pure none

end JanetModel.Lib.ArrC
