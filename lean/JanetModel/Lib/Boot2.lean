import JanetModel.Lib.Boot
/- C17: more boot.janet mirrors (reduce2, zipcoll, distinct) in the style of Lib/Boot.lean.  Core Lean only. -/
namespace JanetModel.Lib.Boot
open JanetModel.Lib JanetModel.Lib.JIter

/-- `(defn reduce2 [f ind] (var k (next ind)) (if (= nil k) (break nil)) (var res (in ind k)) (set k (next ind k))
       (while (not= nil k) (set res (f res (in ind k))) (set k (next ind k))) res)`
    — the `while` is the each-loop started at the second key -/
def reduce2 {α : Type} (f : α → α → α) (ind : List α) : R (Option α) :=
  match nextKey ind.length none with                       -- (var k (next ind))
  | none => .ok none                                       -- (if (= nil k) (break nil))
  | some k =>
    match inIdx ind k with                                 -- (var res (in ind k))
    | .ok res =>
      match eachLoop ind (fun _ x res => .ok (f res x, false)) (ind.length + 1) (nextKey ind.length (some k)) res with
      | .ok r => .ok (some r)
      | .panic => .panic
      | .ub => .ub
    | .panic => .panic
    | .ub => .ub

/-- `zipcoll`:
      `(def res @{}) (var kk nil) (var vk nil)
       (while true (set kk (next ks kk)) (if (= nil kk) (break)) (set vk (next vs vk)) (if (= nil vk) (break))
                   (put res (in ks kk) (in vs vk)))
       res`        (the table is an association list, `put` = `Spec.assocPut`) -/
def zipcollLoop {α β : Type} [BEq α] (ks : List α) (vs : List β) : Nat → Option Nat → Option Nat → List (α × β) → R (List (α × β))
  | 0, _, _, _ => .ub
  | fuel + 1, kk, vk, res =>
    match nextKey ks.length kk with
    | none => .ok res
    | some kk' =>
      match nextKey vs.length vk with
      | none => .ok res
      | some vk' =>
        match inIdx ks kk', inIdx vs vk' with
        | .ok k, .ok v => zipcollLoop ks vs fuel (some kk') (some vk') (assocPut res k v)
        | .ub, _ => .ub
        | _, .ub => .ub
        | _, _ => .panic

def zipcoll {α β : Type} [BEq α] (ks : List α) (vs : List β) : R (List (α × β)) :=
  zipcollLoop ks vs (ks.length + 1) none none []

/-- `distinct`: `(def ret @[]) (def seen @{}) (each x xs (if (in seen x) nil (do (put seen x true) (array/push ret x)))) ret`
    (`seen` as the list of its keys) -/
def distinct {α : Type} [BEq α] (xs : List α) : R (List α) := do
  let st ← each xs (fun _ x (st : Array α × List α) =>
      if st.2.contains x then .ok (st, false) else .ok ((st.1.push x, x :: st.2), false)) (#[], [])
  pure st.1.toList

end JanetModel.Lib.Boot
