/- C17: mirror of corelib.c `janet_core_range` over exact numbers (integers; the driver scales dyadic fractions to
   integers, for which double arithmetic is exact).  `none` = the interpreter aborts ("bad range code").  Whether the
   aborting assertion / the correcting loops are present is generated from the source (Gen/Lib.lean).  Core Lean only. -/
import JanetModel.Lib.Spec
namespace JanetModel.Lib.Range
open JanetModel.Gen.Lib

/-- `ceil(x / y)` of the real quotient, for `y ≠ 0` -/
def ceilDiv (x y : Int) : Int := if y > 0 then (x + y - 1) / y else ((-x) + (-y) - 1) / (-y)

/-- `while (start + int_count * step < stop) int_count++` (resp. `>` for negative steps) -/
def bump (start stop step : Int) : Nat → Int → Int
  | 0, c => c
  | fuel + 1, c =>
    if (step > 0 ∧ start + c * step < stop) ∨ (step < 0 ∧ start + c * step > stop) then bump start stop step fuel (c + 1) else c

/-- `(range start stop step)`: count = max 0 (ceil ((stop-start)/step)) (0 when step = 0), then the assertion (old code)
    or the correcting loops (fixed code), then the elements `start + i*step`. -/
def rangeC (start stop step : Int) : Option (List Int) :=
  let count : Int := if step > 0 then ceilDiv (stop - start) step else if step < 0 then ceilDiv (stop - start) step else 0
  let c0 : Int := if count > 0 then count else 0
  let ok : Bool :=
    if rangePostAssert then (if step > 0 then decide (start + c0 * step ≥ stop) else decide (start + c0 * step ≤ stop)) else true
  if ok then
    let c1 := if rangeBump then bump start stop step 2 c0 else c0
    some ((List.range c1.toNat).map (fun (i : Nat) => start + (i : Int) * step))
  else none

/-- the version of the pinned tree (assertion, no correction), for the record of the defect -/
def rangeCOld (start stop step : Int) : Option (List Int) :=
  let count : Int := if step > 0 then ceilDiv (stop - start) step else if step < 0 then ceilDiv (stop - start) step else 0
  let c0 : Int := if count > 0 then count else 0
  if (if step > 0 then decide (start + c0 * step ≥ stop) else decide (start + c0 * step ≤ stop)) then
    some ((List.range c0.toNat).map (fun (i : Nat) => start + (i : Int) * step))
  else none

end JanetModel.Lib.Range
