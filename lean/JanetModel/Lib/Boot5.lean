import JanetModel.Lib.Boot
/- C17: `(map f ind ind0 ind1)` — map-template branch `2 (map-n 2 …)`.  Core Lean only. -/
namespace JanetModel.Lib.Boot
open JanetModel.Lib JanetModel.Lib.JIter

/-- `map-n 2` body:
      `(if (= nil (set key0 (next ind0 key0))) (break))
       (if (= nil (set key1 (next ind1 key1))) (break))
       (array/push res (f x (in ind0 key0) (in ind1 key1)))` -/
def map3Body {α β γ δ : Type} (f : α → β → γ → δ) (ind0 : List β) (ind1 : List γ) (_ : Nat) (x : α)
    (st : Array δ × Option Nat × Option Nat) : R ((Array δ × Option Nat × Option Nat) × Bool) :=
  match nextKey ind0.length st.2.1 with
  | none => .ok ((st.1, none, st.2.2), true)
  | some key0 =>
    match nextKey ind1.length st.2.2 with
    | none => .ok ((st.1, some key0, none), true)
    | some key1 =>
      match inIdx ind0 key0, inIdx ind1 key1 with
      | .ok y, .ok z => .ok ((st.1.push (f x y z), some key0, some key1), false)
      | .ub, _ => .ub
      | _, .ub => .ub
      | _, _ => .panic

def map3 {α β γ δ : Type} (f : α → β → γ → δ) (ind : List α) (ind0 : List β) (ind1 : List γ) : R (List δ) := do
  let st ← each ind (map3Body f ind0 ind1) (#[], none, none)
  pure st.1.toList

end JanetModel.Lib.Boot
