/- C17: proofs about the memory-level buffer model (self-aliasing safety). -/
import JanetModel.Lib.BufMem
namespace JanetModel.Lib.BufMem

theorem allSome_map_some (l : List Nat) : allSome (l.map some) = some l := by
  induction l with
  | nil => rfl
  | cons x xs ih => simp [allSome, ih]

theorem allSome_eq_some {l : List (Option Nat)} {bs : List Nat} (h : allSome l = some bs) : l = bs.map some := by
  induction l generalizing bs with
  | nil => simp [allSome] at h; subst h; rfl
  | cons x xs ih =>
    cases x with
    | none => simp [allSome] at h
    | some v =>
      simp only [allSome] at h
      cases hx : allSome xs with
      | none => rw [hx] at h; simp at h
      | some l =>
        rw [hx] at h
        simp at h
        subst h
        simp [ih hx]

/-- well-formed buffer with visible contents `bs` -/
def Holds (b : Buf) (bs : List Nat) : Prop :=
  b.count = bs.length ∧ b.count ≤ b.data.length ∧ b.data.take b.count = bs.map some

theorem contents_of_holds {b : Buf} {bs : List Nat} (h : Holds b bs) : contents b = some bs := by
  obtain ⟨_, h2, h3⟩ := h
  simp [contents, h2, h3, allSome_map_some]

theorem holds_of_contents {b : Buf} {bs : List Nat} (h : contents b = some bs) : Holds b bs := by
  unfold contents at h
  by_cases hc : b.count ≤ b.data.length
  · rw [if_pos hc] at h
    have := allSome_eq_some h
    refine ⟨?_, hc, this⟩
    have hl := congrArg List.length this
    simp at hl
    omega
  · rw [if_neg hc] at h; simp at h

theorem ensure_holds {b : Buf} {bs : List Nat} (h : Holds b bs) (capacity growth : Nat) (hg : 1 ≤ growth) :
    Holds (ensure b capacity growth) bs ∧ capacity ≤ (ensure b capacity growth).data.length := by
  obtain ⟨h1, h2, h3⟩ := h
  unfold ensure
  by_cases hc : capacity ≤ b.data.length
  · rw [if_pos hc]; exact ⟨⟨h1, h2, h3⟩, hc⟩
  · rw [if_neg hc]
    have hmul : capacity ≤ capacity * growth := Nat.le_mul_of_pos_right _ hg
    refine ⟨⟨h1, ?_, ?_⟩, ?_⟩
    · simp [realloc]; omega
    · simp only [realloc]
      rw [List.take_append_of_le_length h2]; exact h3
    · simp [realloc]; omega

/-- core step: a buffer whose block has room for `2 * count` pushes its own visible bytes after themselves -/
theorem pushBytes_self {b : Buf} {bs : List Nat} (h : Holds b bs) (hroom : b.count + b.count ≤ b.data.length) :
    ∃ b', pushBytes b (Src.dataAt b.gen) b.count = some b' ∧ Holds b' (bs ++ bs) := by
  obtain ⟨h1, h2, h3⟩ := h
  unfold pushBytes
  by_cases hz : b.count = 0
  · rw [if_pos hz]
    refine ⟨b, rfl, ?_⟩
    have : bs = [] := by
      cases bs with
      | nil => rfl
      | cons x xs => simp at h1; omega
    subst this
    exact ⟨h1, h2, h3⟩
  · rw [if_neg hz]
    have hex : extra b b.count = b := by
      unfold extra
      rw [if_neg (by omega)]
    simp only [hex]
    have hread : readSrc b (Src.dataAt b.gen) 0 b.count = some bs := by
      simp only [readSrc]
      rw [if_neg (by simp), if_pos (by omega)]
      simp [h3, allSome_map_some]
    rw [hread]
    simp only [Nat.le_refl, decide_true, if_true]
    refine ⟨_, rfl, ?_, ?_, ?_⟩
    · simp; omega
    · simp [writeAt]; omega
    · simp only [writeAt]
      have hlen : (List.take b.count b.data ++ List.map some bs).length = b.count + b.count := by
        simp [List.length_take]; omega
      rw [List.take_append_of_le_length (by omega)]
      rw [List.take_of_length_le (by omega)]
      rw [h3]; simp

/-- `(buffer/push b b)`: with the guard of buffer.c the result is defined and is `bs ++ bs`
    (the bytes read are the ones the buffer had before it grew). -/
theorem extra_holds {b : Buf} {bs : List Nat} (h : Holds b bs) (n : Nat) :
    Holds (extra b n) bs ∧ b.count + n ≤ (extra b n).data.length ∧ (extra b n).count = b.count := by
  obtain ⟨h1, h2, h3⟩ := h
  unfold extra
  by_cases hc : b.count + n > b.data.length
  · rw [if_pos hc]
    refine ⟨⟨h1, ?_, ?_⟩, ?_, rfl⟩
    · simp [realloc]; omega
    · simp only [realloc]
      rw [List.take_append_of_le_length h2]; exact h3
    · simp [realloc]; omega
  · rw [if_neg hc]; exact ⟨⟨h1, h2, h3⟩, by omega, rfl⟩

/-- the same with the guard written with `janet_buffer_extra(buffer, view.len)` -/
theorem pushSelf_guard_safe_extra {b : Buf} {bs : List Nat} (h : Holds b bs) :
    ∃ b', pushSelf true b true = some b' ∧ Holds b' (bs ++ bs) := by
  unfold pushSelf
  simp only [if_true]
  obtain ⟨he, hcap, hc⟩ := extra_holds h b.count
  have := pushBytes_self he (by rw [hc]; exact hcap)
  rw [hc] at this
  exact this

theorem pushSelf_guard_safe {b : Buf} {bs : List Nat} (h : Holds b bs) :
    ∃ b', pushSelf true b = some b' ∧ Holds b' (bs ++ bs) := by
  unfold pushSelf
  simp only [if_true, Bool.false_eq_true, if_false]
  obtain ⟨he, hcap⟩ := ensure_holds h (b.count + b.count) 2 (by omega)
  have hc : (ensure b (b.count + b.count) 2).count = b.count := by
    unfold ensure; split <;> simp [realloc]
  have := pushBytes_self he (by rw [hc]; exact hcap)
  rw [hc] at this
  exact this

/-- either accepted shape of the guard is safe -/
theorem pushSelf_guard_safe_any (viaExtra : Bool) {b : Buf} {bs : List Nat} (h : Holds b bs) :
    ∃ b', pushSelf true b viaExtra = some b' ∧ Holds b' (bs ++ bs) := by
  cases viaExtra with
  | true => exact pushSelf_guard_safe_extra h
  | false => exact pushSelf_guard_safe h

/-- blit of a buffer into itself with the memmove branch: defined, and equal to the list-level definition computed from
    the contents *before* the call. -/
theorem blitSelf_guard_safe {b : Buf} {bs : List Nat} (h : Holds b bs) (od os len : Nat)
    (hod : od ≤ bs.length) (hsrc : os + len ≤ bs.length) :
    ∃ b', blitSelf true b od os len = some b' ∧
      Holds b' (bs.take od ++ (bs.drop os).take len ++ bs.drop (od + len)) := by
  obtain ⟨he, hcap⟩ := ensure_holds h (od + len) 2 (by omega)
  have hc : (ensure b (od + len) 2).count = b.count := by
    unfold ensure; split <;> simp [realloc]
  obtain ⟨e1, e2, e3⟩ := he
  obtain ⟨h1, h2, h3⟩ := h
  unfold blitSelf
  simp only [if_true]
  generalize hb1 : ensure b (od + len) 2 = b1 at *
  by_cases hz : len = 0
  · subst hz
    rw [if_pos rfl]
    refine ⟨_, rfl, ?_⟩
    have hnot : ¬ (od + 0 > b1.count) := by omega
    simp only [if_neg hnot]
    refine ⟨by simp; omega, e2, ?_⟩
    simp [e3]
  · rw [if_neg hz]
    -- the source range lies inside the old visible part
    have hsub : (List.drop os b1.data).take len = ((bs.drop os).take len).map some := by
      have hb : b1.data = b1.data.take b1.count ++ b1.data.drop b1.count := (List.take_append_drop _ _).symm
      rw [hb, e3]
      have : os + len ≤ (bs.map some).length := by simp; omega
      rw [List.drop_append_of_le_length (by simp; omega)]
      rw [List.take_append_of_le_length (by simp; omega)]
      simp [List.map_drop, List.map_take]
    have hread : readSrc { b1 with count := if od + len > b1.count then od + len else b1.count }
        (Src.dataAt b1.gen) os len = some ((bs.drop os).take len) := by
      simp only [readSrc]
      rw [if_neg (by simp), if_pos (by omega)]
      rw [hsub, allSome_map_some]
    rw [hread]
    refine ⟨_, rfl, ?_⟩
    have hlen_src : ((bs.drop os).take len).length = len := by simp; omega
    refine ⟨?_, ?_, ?_⟩
    · simp only [List.length_append, List.length_take, List.length_drop]
      split <;> omega
    · simp only [writeAt, List.length_append, List.length_take, List.length_map, List.length_drop, hlen_src]
      split <;> omega
    · -- visible cells
      simp only [writeAt, hlen_src]
      have hpre : List.take od b1.data = (bs.take od).map some := by
        have : List.take od b1.data = List.take od (List.take b1.count b1.data) := by
          rw [List.take_take]; congr 1; omega
        rw [this, e3, List.map_take]
      rw [hpre]
      by_cases hgt : od + len > b1.count
      · simp only [if_pos hgt]
        have hdrop : bs.drop (od + len) = [] := List.drop_eq_nil_of_le (by omega)
        rw [hdrop, List.append_nil]
        rw [List.take_append_of_le_length (by simp [hlen_src]; omega)]
        rw [List.take_of_length_le (by simp [hlen_src]; omega)]
        simp
      · simp only [if_neg hgt]
        have htail : List.take (b1.count - (od + len)) (List.drop (od + len) b1.data) = (bs.drop (od + len)).map some := by
          rw [← List.drop_take]
          rw [e3, List.map_drop]
        rw [List.take_append]
        have hl2 : (List.map some (List.take od bs) ++ List.map some (List.take len (List.drop os bs))).length = od + len := by
          simp [hlen_src]; omega
        rw [hl2, List.take_of_length_le (by rw [hl2]; omega), htail]
        simp

end JanetModel.Lib.BufMem
