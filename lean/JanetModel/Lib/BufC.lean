import JanetModel.Lib.CLoop
/- C17: mirrors of src/core/buffer.c cfuns at VALUE level (the visible bytes `[0, count)`; capacity, realloc and the
   self-alias guards are modelled in Lib/BufMem.lean, memory safety is another property's).  Core Lean only.
   Theorems in Lib/BufCProofs.lean. -/
namespace JanetModel.Lib.BufC
open JanetModel.Lib JanetModel.Lib.CLoop

/-- `bitloc`:
      `double x = janet_getnumber(argv, 1);  int64_t bitindex = (int64_t) x;
       int64_t byteindex = bitindex >> 3;  int which_bit = bitindex & 7;
       if (bitindex != x || bitindex < 0 || byteindex >= buffer->count) janet_panicf("invalid bit index %v", argv[1]);`
    `x` is an integral number here (`bitindex != x` is decoded by the driver); the cast of a double outside the int64
    range is UB.  On a two's-complement int64, `>> 3` is floor division by 8 and `& 7` the non-negative remainder. -/
def bitloc (b : Bytes) (x : Int) : R (Nat × Nat) :=
  if !in64 x then .ub else
  let bitindex := x
  let byteindex := bitindex / 8
  let which_bit := bitindex % 8
  if bitindex < 0 ∨ byteindex ≥ (b.length : Int) then .panic
  else .ok (byteindex.toNat, which_bit.toNat)

/-- `cfun_buffer_bitget`: `return janet_wrap_boolean(buffer->data[index] & (1 << bit));` -/
def bitGet (b : Bytes) (x : Int) : R Bool := do
  let (index, bit) ← bitloc b x
  let w ← idx b.toArray (index : Int)
  pure (decide (w &&& (1 <<< bit) ≠ 0))

/-- `cfun_buffer_bitset`: `buffer->data[index] |= 1 << bit;` (store into a `uint8_t`: `% 256`) -/
def bitSet (b : Bytes) (x : Int) : R Bytes := do
  let (index, bit) ← bitloc b x
  let w ← idx b.toArray (index : Int)
  let data ← setIdx b.toArray (index : Int) ((w ||| (1 <<< bit)) % 256)
  pure data.toList

/-- `cfun_buffer_bitclear`: `buffer->data[index] &= ~(1 << bit);` (on a byte: and with `255 - 2^bit`) -/
def bitClear (b : Bytes) (x : Int) : R Bytes := do
  let (index, bit) ← bitloc b x
  let w ← idx b.toArray (index : Int)
  let data ← setIdx b.toArray (index : Int) ((w &&& (255 - (1 <<< bit))) % 256)
  pure data.toList

/-- `cfun_buffer_bittoggle`: `buffer->data[index] ^= (1 << bit);` -/
def bitToggle (b : Bytes) (x : Int) : R Bytes := do
  let (index, bit) ← bitloc b x
  let w ← idx b.toArray (index : Int)
  let data ← setIdx b.toArray (index : Int) ((w ^^^ (1 <<< bit)) % 256)
  pure data.toList

/-- `cfun_buffer_fill`: `int32_t byte = 0; if (argc == 2) byte = janet_getinteger(argv, 1) & 0xFF;
      if (buffer->count) memset(buffer->data, byte, buffer->count);` (`byte` already decoded; `& 0xFF` = `toByte`) -/
def fill (b : Bytes) (byte : Int) : R Bytes := do
  let data ← forUp (fun i (data : Array Nat) => setIdx data (i : Int) (toByte byte)) b.length 0 b.toArray
  pure data.toList

/-- `cfun_buffer_popn`: `if (n < 0) janet_panic("n must be non-negative");
      if (buffer->count < n) buffer->count = 0; else buffer->count -= n;` -/
def popn (b : Bytes) (n : Int) : R Bytes :=
  if n < 0 then .panic
  else if (b.length : Int) < n then .ok []
  else do
    let count ← sub32 (b.length : Int) n
    pure (b.take count.toNat)

/-- `cfun_buffer_blit` (`src = none`: the source *is* the destination, `same_buf`):
      `int32_t offset_dest = 0, offset_src = 0;
       if (argc > 2 && !nil(argv[2])) offset_dest = janet_gethalfrange(argv, 2, dest->count, "dest-start");
       if (argc > 3 && !nil(argv[3])) offset_src = janet_gethalfrange(argv, 3, src.len, "src-start");
       int32_t length_src;
       if (argc > 4) { int32_t src_end = src.len; if (!nil(argv[4])) src_end = janet_gethalfrange(argv, 4, src.len, "src-end");
                       length_src = src_end - offset_src;  if (length_src < 0) length_src = 0; }
       else { length_src = src.len - offset_src; }
       int64_t last = (int64_t) offset_dest + length_src;  if (last > INT32_MAX) janet_panic("buffer blit out of range");
       int32_t last32 = (int32_t) last;  janet_buffer_ensure(dest, last32, 2);  if (last32 > dest->count) dest->count = last32;
       if (length_src) { if (same_buf) { src.bytes = dest->data; memmove(dest->data + offset_dest, src.bytes + offset_src, length_src); }
                         else memcpy(dest->data + offset_dest, src.bytes + offset_src, length_src); }`
    (`Spec.halfrange` is the proved mirror of `janet_gethalfrange`.)  After `ensure` the block has at least `last32` cells, the
    new ones indeterminate (0 here; the theorem shows every cell below the new count is determined). -/
def srcOf (dest : Bytes) (src : Option Bytes) : Bytes :=
  match src with
  | none => dest
  | some l => l

/-- `offset = 0; if (argc > k && !nil(argv[k])) offset = janet_gethalfrange(argv, k, len, …);` -/
def optHalf (a : Option Int) (len : Nat) : R Nat :=
  match a with
  | none => pure 0
  | some r => R.ofOption (halfrange r len)

/-- the `length_src` computation (with the `< 0 → 0` clamp in the `argc > 4` branch) -/
def blitLen (s : Bytes) (offset_src : Nat) (se : Option (Option Int)) : R Int :=
  match se with
  | some e => do
    let src_end ← (match e with
      | none => pure s.length
      | some r => R.ofOption (halfrange r s.length) : R Nat)
    let l ← sub32 (src_end : Int) (offset_src : Int)
    pure (if l < 0 then 0 else l)
  | none => sub32 (s.length : Int) (offset_src : Int)

/-- `if (same_buf) { src.bytes = dest->data; memmove(…) } else memcpy(…)` -/
def blitCopy (data : Array Nat) (src : Option Bytes) (offset_dest offset_src : Int) (n : Nat) : R (Array Nat) :=
  match src with
  | none => memmove data offset_dest offset_src n
  | some l => memcpy data offset_dest l.toArray offset_src n

def blit (dest : Bytes) (src : Option Bytes) (ds ss : Option Int) (se : Option (Option Int)) : R Bytes := do
  let s := srcOf dest src
  let offset_dest ← optHalf ds dest.length
  let offset_src ← optHalf ss s.length
  let length_src ← blitLen s offset_src se
  let last ← add64 (offset_dest : Int) length_src
  if last > int32Max then .panic
  else if length_src < 0 then .ub        -- memcpy with a negative size
  else do
    let count := if last > (dest.length : Int) then last.toNat else dest.length
    let data := dest.toArray ++ Array.replicate (count - dest.length) 0
    let data ← (if length_src ≠ 0 then blitCopy data src (offset_dest : Int) (offset_src : Int) length_src.toNat
                else pure data : R (Array Nat))
    pure (data.toList.take count)

end JanetModel.Lib.BufC
