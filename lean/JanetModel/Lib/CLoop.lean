import JanetModel.Lib.C32
/- C17: the loop shapes that occur in string.c / buffer.c / array.c / tuple.c, as recursions over the loop counter, and one
   invariant rule per shape.  Core Lean only (linked into the driver).  The mirrors in Lib/StrC.lean, Lib/BufC.lean,
   Lib/ArrC.lean instantiate `body` with the C loop body.

     forUp  body n i s      for (k = i; k < i + n; k++) s = body(k, s);          (no break / return in the body)
     scanUp body n i        for (k = i; k < i + n; k++) if (body(k) returns v) return v;      → none when it falls through
     scanDown body n        for (k = n - 1; k >= 0; k--) if (body(k) returns v) return v;
-/
namespace JanetModel.Lib.CLoop
open JanetModel.Lib

def forUp {σ : Type} (body : Nat → σ → R σ) : Nat → Nat → σ → R σ
  | 0, _, s => .ok s
  | n + 1, i, s =>
    match body i s with
    | .ok s' => forUp body n (i + 1) s'
    | .panic => .panic
    | .ub => .ub

def scanUp {ρ : Type} (body : Nat → R (Option ρ)) : Nat → Nat → R (Option ρ)
  | 0, _ => .ok none
  | n + 1, i =>
    match body i with
    | .ok none => scanUp body n (i + 1)
    | r => r

def scanDown {ρ : Type} (body : Nat → R (Option ρ)) : Nat → R (Option ρ)
  | 0 => .ok none
  | n + 1 =>
    match body n with
    | .ok none => scanDown body n
    | r => r

/-- invariant rule for `forUp`: if `P` holds at entry and every iteration inside the range succeeds and re-establishes
    it, the loop succeeds and `P` holds at exit. -/
theorem forUp_inv {σ : Type} (body : Nat → σ → R σ) (P : Nat → σ → Prop) :
    ∀ (n i : Nat) (s : σ), P i s →
      (∀ j t, i ≤ j → j < i + n → P j t → ∃ t', body j t = .ok t' ∧ P (j + 1) t') →
      ∃ s', forUp body n i s = .ok s' ∧ P (i + n) s' := by
  intro n
  induction n with
  | zero => intro i s h0 _; exact ⟨s, rfl, by simpa using h0⟩
  | succ n ih =>
    intro i s h0 hstep
    obtain ⟨t', hb, hP⟩ := hstep i s (Nat.le_refl _) (by omega) h0
    obtain ⟨s', hf, hP'⟩ := ih (i + 1) t' hP (fun j t h1 h2 h3 => hstep j t (by omega) (by omega) h3)
    refine ⟨s', ?_, ?_⟩
    · simp only [forUp, hb]; exact hf
    · have : i + 1 + n = i + (n + 1) := by omega
      rw [← this]; exact hP'

/-- an iteration that panics stops the loop with that panic, the state reached so far being the one the iterations
    before it produced (used for variadic pushes that fail part-way) -/
theorem forUp_panic {σ : Type} (body : Nat → σ → R σ) (P : Nat → σ → Prop) :
    ∀ (n i : Nat) (s : σ) (m : Nat), m < n → P i s →
      (∀ j t, i ≤ j → j < i + m → P j t → ∃ t', body j t = .ok t' ∧ P (j + 1) t') →
      (∀ t, P (i + m) t → body (i + m) t = .panic) →
      forUp body n i s = .panic := by
  intro n
  induction n with
  | zero => intro i s m hm; omega
  | succ n ih =>
    intro i s m hm h0 hstep hp
    cases m with
    | zero =>
      have := hp s (by simpa using h0)
      simp only [Nat.add_zero] at this
      simp only [forUp, this]
    | succ m =>
      obtain ⟨t', hb, hP⟩ := hstep i s (Nat.le_refl _) (by omega) h0
      simp only [forUp, hb]
      apply ih (i + 1) t' m (by omega) hP
      · intro j t h1 h2 h3; exact hstep j t (by omega) (by omega) h3
      · intro t ht
        have e : i + 1 + m = i + (m + 1) := by omega
        rw [e] at ht ⊢; exact hp t ht

/-- `scanUp` whose iterations all succeed returns the first `some` among them -/
theorem scanUp_eq {ρ : Type} (body : Nat → R (Option ρ)) (g : Nat → Option ρ) :
    ∀ (n i : Nat), (∀ j, i ≤ j → j < i + n → body j = .ok (g j)) →
      scanUp body n i = .ok ((List.range' i n).findSome? g) := by
  intro n
  induction n with
  | zero => intro i _; rfl
  | succ n ih =>
    intro i h
    have hi := h i (Nat.le_refl _) (by omega)
    rw [List.range'_succ, List.findSome?_cons]
    simp only [scanUp, hi]
    cases hg : g i with
    | some v => rfl
    | none => exact ih (i + 1) (fun j h1 h2 => h j (by omega) (by omega))

/-- `scanDown` whose iterations all succeed returns the `some` with the largest index -/
theorem scanDown_eq {ρ : Type} (body : Nat → R (Option ρ)) (g : Nat → Option ρ) :
    ∀ (n : Nat), (∀ j, j < n → body j = .ok (g j)) →
      scanDown body n = .ok ((List.range n).reverse.findSome? g) := by
  intro n
  induction n with
  | zero => intro _; rfl
  | succ n ih =>
    intro h
    have hn := h n (by omega)
    rw [List.range_succ, List.reverse_append, List.reverse_singleton, List.singleton_append, List.findSome?_cons]
    simp only [scanDown, hn]
    cases hg : g n with
    | some v => rfl
    | none => exact ih (fun j hj => h j (by omega))

/-! ### filling a fresh buffer cell by cell (`janet_string_begin(n)` … `buf[i] = …` … `janet_string_end`) -/

/-- the cells of an array that were all written: as a list -/
theorem toList_of_cells {α : Type} (buf : Array α) (n : Nat) (g : Nat → α) (hsz : buf.size = n)
    (h : ∀ k, k < n → buf[k]? = some (g k)) : buf.toList = (List.range n).map g := by
  apply List.ext_getElem?
  intro k
  by_cases hk : k < n
  · rw [Array.getElem?_toList, h k hk]
    simp [List.getElem?_map, List.getElem?_range hk]
  · have h1 : buf.toList[k]? = none := by
      rw [List.getElem?_eq_none_iff]; simp; omega
    have h2 : ((List.range n).map g)[k]? = none := by
      rw [List.getElem?_eq_none_iff]; simp; omega
    rw [h1, h2]

theorem setIdx_ok {α : Type} (a : Array α) (i : Nat) (v : α) (h : i < a.size) :
    setIdx a (i : Int) v = .ok (a.setIfInBounds i v) := by
  unfold setIdx
  have : ¬ ((i : Int) < 0) := by omega
  simp [this, h]

theorem idx_ok {α : Type} (a : Array α) (i : Nat) (h : i < a.size) : idx a (i : Int) = .ok a[i] := by
  unfold idx
  have : ¬ ((i : Int) < 0) := by omega
  simp [this, h]

theorem idx_list_ok {α : Type} (l : List α) (i : Nat) (h : i < l.length) : idx l.toArray (i : Int) = .ok l[i] := by
  rw [idx_ok _ _ (by simpa using h)]; simp

/-- invariant of a fill loop: size unchanged, cells below `i` final -/
def Filled {α : Type} (n : Nat) (g : Nat → α) (i : Nat) (buf : Array α) : Prop :=
  buf.size = n ∧ ∀ k, k < i → buf[k]? = some (g k)

theorem Filled.step {α : Type} {n : Nat} {g : Nat → α} {i : Nat} {buf : Array α} (h : Filled n g i buf) (hi : i < n) :
    Filled n g (i + 1) (buf.setIfInBounds i (g i)) := by
  obtain ⟨hsz, hc⟩ := h
  refine ⟨by simpa using hsz, ?_⟩
  intro k hk
  by_cases hki : k = i
  · subst hki; simp [hsz, hi]
  · rw [Array.getElem?_setIfInBounds]
    have : ¬ (i = k) := fun e => hki e.symm
    simp only [this, if_false]
    exact hc k (by omega)

theorem Filled.init {α : Type} (n : Nat) (g : Nat → α) (d : α) : Filled n g 0 (Array.replicate n d) :=
  ⟨by simp, fun k hk => by omega⟩

/-! ### memcpy / memmove as cell loops -/

/-- `memcpy(dst + doff, src + soff, n * sizeof cell)`: `for (k = 0; k < n; k++) dst[doff + k] = src[soff + k];`
    (any cell outside either object is UB).  `src` is a value, i.e. a snapshot: used with `src := dst` it is `memmove`
    ("as if through a temporary"). -/
def memcpyBody {α : Type} (doff : Int) (src : Array α) (soff : Int) (k : Nat) (buf : Array α) : R (Array α) :=
  match idx src (soff + (k : Int)) with
  | .ok c => setIdx buf (doff + (k : Int)) c
  | .panic => .panic
  | .ub => .ub

def memcpy {α : Type} (dst : Array α) (doff : Int) (src : Array α) (soff : Int) (n : Nat) : R (Array α) :=
  forUp (memcpyBody doff src soff) n 0 dst

/-- `memmove(a + doff, a + soff, n)` -/
def memmove {α : Type} (a : Array α) (doff soff : Int) (n : Nat) : R (Array α) := memcpy a doff a soff n

theorem memcpy_spec {α : Type} (dst src : Array α) (doff soff n : Nat) (h1 : soff + n ≤ src.size) (h2 : doff + n ≤ dst.size) :
    memcpy dst (doff : Int) src (soff : Int) n
      = .ok (dst.toList.take doff ++ (src.toList.drop soff).take n ++ dst.toList.drop (doff + n)).toArray := by
  unfold memcpy
  obtain ⟨s', hf, hsz, hc⟩ := forUp_inv (memcpyBody (doff : Int) src (soff : Int)) (fun i (buf : Array α) => buf.size = dst.size ∧
      ∀ k, buf[k]? = if doff ≤ k ∧ k < doff + i then src[soff + (k - doff)]? else dst[k]?) n 0 dst
    ⟨rfl, fun k => by
      have : ¬ (doff ≤ k ∧ k < doff + 0) := by omega
      rw [if_neg this]⟩
    (by
      intro j t _ hj ⟨hsz, hc⟩
      unfold memcpyBody
      have e1 : (soff : Int) + (j : Int) = ((soff + j : Nat) : Int) := by omega
      have e2 : (doff : Int) + (j : Int) = ((doff + j : Nat) : Int) := by omega
      rw [e1, e2, idx_ok _ _ (by omega)]
      simp only
      rw [setIdx_ok _ _ _ (by omega)]
      refine ⟨_, rfl, by simpa using hsz, ?_⟩
      intro k
      rw [Array.getElem?_setIfInBounds]
      by_cases hk : doff + j = k
      · subst hk
        have : doff + j < t.size := by omega
        have h3 : soff + j < src.size := by omega
        simp [this, h3]
      · simp only [hk, if_false]
        rw [hc k]
        by_cases hk2 : doff ≤ k ∧ k < doff + j
        · have : doff ≤ k ∧ k < doff + (j + 1) := by omega
          simp [hk2, this]
        · have : ¬ (doff ≤ k ∧ k < doff + (j + 1)) := by omega
          simp [hk2, this])
  rw [hf]
  congr 1
  apply Array.ext'
  apply List.ext_getElem?
  intro k
  rw [Array.getElem?_toList, hc k]
  simp only [Nat.zero_add]
  by_cases hk : doff ≤ k ∧ k < doff + n
  · simp only [hk, and_self, if_true]
    have hl : (List.take doff dst.toList).length = doff := by simp; omega
    rw [List.append_assoc, List.getElem?_append_right (by omega), hl]
    rw [List.getElem?_append_left (by simp; omega)]
    rw [List.getElem?_take_of_lt (by omega), List.getElem?_drop, Array.getElem?_toList]
  · simp only [hk, if_false]
    by_cases hk1 : k < doff
    · rw [List.append_assoc, List.getElem?_append_left (by simp; omega), List.getElem?_take_of_lt hk1, Array.getElem?_toList]
    · have hl : (List.take doff dst.toList ++ List.take n (List.drop soff src.toList)).length = doff + n := by
        simp; omega
      rw [List.getElem?_append_right (by omega), hl, List.getElem?_drop, Array.getElem?_toList]
      congr 1; omega

/-! ### scanning a list by index -/

/-- the first `some` of `g index element`, indices counted from `i` -/
def firstSome {α ρ : Type} (g : Nat → α → Option ρ) : Nat → List α → Option ρ
  | _, [] => none
  | i, x :: xs => match g i x with
    | some v => some v
    | none => firstSome g (i + 1) xs

/-- on a reversed prefix: the head has index `tail.length` -/
def downSome {α ρ : Type} (g : Nat → α → Option ρ) : List α → Option ρ
  | [] => none
  | x :: xs => match g xs.length x with
    | some v => some v
    | none => downSome g xs

theorem scanUp_list {α ρ : Type} (l : List α) (body : Nat → R (Option ρ)) (g : Nat → α → Option ρ)
    (hb : ∀ j (h : j < l.length), body j = .ok (g j l[j])) :
    ∀ (suffix : List α) (i : Nat), l.drop i = suffix → scanUp body suffix.length i = .ok (firstSome g i suffix) := by
  intro suffix
  induction suffix with
  | nil => intro i _; rfl
  | cons x xs ih =>
    intro i hd
    have hi : i < l.length := by
      rcases Nat.lt_or_ge i l.length with h | h
      · exact h
      · rw [List.drop_eq_nil_of_le h] at hd; cases hd
    have hx : l[i] = x ∧ l.drop (i + 1) = xs := by
      rw [List.drop_eq_getElem_cons hi] at hd
      injection hd with h1 h2
      exact ⟨h1, h2⟩
    simp only [List.length_cons, scanUp, hb i hi, hx.1, firstSome]
    cases hg : g i x with
    | some v => rfl
    | none => exact ih (i + 1) hx.2

theorem scanUp_list0 {α ρ : Type} (l : List α) (body : Nat → R (Option ρ)) (g : Nat → α → Option ρ)
    (hb : ∀ j (h : j < l.length), body j = .ok (g j l[j])) :
    scanUp body l.length 0 = .ok (firstSome g 0 l) := scanUp_list l body g hb l 0 (by simp)

theorem scanDown_list {α ρ : Type} (l : List α) (body : Nat → R (Option ρ)) (g : Nat → α → Option ρ)
    (hb : ∀ j (h : j < l.length), body j = .ok (g j l[j])) :
    ∀ n, n ≤ l.length → scanDown body n = .ok (downSome g (l.take n).reverse) := by
  intro n
  induction n with
  | zero => intro _; rfl
  | succ n ih =>
    intro hn
    have hlt : n < l.length := by omega
    have e : (l.take (n + 1)).reverse = l[n] :: (l.take n).reverse := by
      rw [List.take_succ_eq_append_getElem hlt, List.reverse_append]; rfl
    have hlen : ((l.take n).reverse).length = n := by simp; omega
    rw [e]
    simp only [scanDown, hb n hlt, downSome, hlen]
    cases hg : g n l[n] with
    | some v => rfl
    | none => exact ih (by omega)

/-- a loop that writes cell `i` in iteration `i`: the result is the list of written values -/
theorem fill_loop {β : Type} (n : Nat) (d : β) (body : Nat → Array β → R (Array β)) (g : Nat → β)
    (hb : ∀ i buf, i < n → buf.size = n → body i buf = .ok (buf.setIfInBounds i (g i))) :
    forUp body n 0 (Array.replicate n d) = .ok ((List.range n).map g).toArray := by
  obtain ⟨s', hf, hP⟩ := forUp_inv body (Filled n g) n 0 _ (Filled.init n g d)
    (fun j t _ hj hP => ⟨_, hb j t (by omega) hP.1, hP.step (by omega)⟩)
  rw [hf]
  congr 1
  apply Array.ext'
  simp only [Nat.zero_add] at hP
  exact toList_of_cells s' n g hP.1 (fun k hk => hP.2 k hk)

/-- the same from an arbitrary initial block of the right size (e.g. `memset` over an existing buffer) -/
theorem fill_loop_from {β : Type} (n : Nat) (init : Array β) (hsz : init.size = n) (body : Nat → Array β → R (Array β))
    (g : Nat → β) (hb : ∀ i buf, i < n → buf.size = n → body i buf = .ok (buf.setIfInBounds i (g i))) :
    forUp body n 0 init = .ok ((List.range n).map g).toArray := by
  obtain ⟨s', hf, hP⟩ := forUp_inv body (Filled n g) n 0 init ⟨hsz, fun k hk => by omega⟩
    (fun j t _ hj hP => ⟨_, hb j t (by omega) hP.1, hP.step (by omega)⟩)
  rw [hf]
  congr 1
  apply Array.ext'
  simp only [Nat.zero_add] at hP
  exact toList_of_cells s' n g hP.1 (fun k hk => hP.2 k hk)

theorem range_map_getElem {α : Type} (l : List α) (d : α) : (List.range l.length).map (fun k => l.getD k d) = l := by
  apply List.ext_getElem?
  intro k
  by_cases hk : k < l.length
  · simp [List.getElem?_map, List.getElem?_range hk, hk]
  · have h1 : l[k]? = none := by rw [List.getElem?_eq_none_iff]; omega
    have h2 : ((List.range l.length).map (fun k => l.getD k d))[k]? = none := by
      rw [List.getElem?_eq_none_iff]; simp; omega
    rw [h1, h2]

/-- `B` with the cells `[p, p + X.length)` overwritten by `X` -/
def splice {α : Type} (B : List α) (p : Nat) (X : List α) : List α := B.take p ++ X ++ B.drop (p + X.length)

theorem splice_length {α : Type} (B X : List α) (p : Nat) (h : p + X.length ≤ B.length) :
    (splice B p X).length = B.length := by
  unfold splice; simp; omega

theorem take_splice {α : Type} (B X : List α) (p : Nat) (h : p + X.length ≤ B.length) :
    (splice B p X).take (p + X.length) = B.take p ++ X := by
  unfold splice
  have hl : (B.take p ++ X).length = p + X.length := by simp; omega
  rw [List.take_append_of_le_length (by omega), List.take_of_length_le (by omega)]

theorem take_splice_before {α : Type} (B X : List α) (p : Nat) (h : p + X.length ≤ B.length) :
    (splice B p X).take p = B.take p := by
  unfold splice
  have hl : (B.take p).length = p := by simp; omega
  rw [List.append_assoc, List.take_append_of_le_length (by omega), List.take_of_length_le (by omega)]

/-- copying a whole object `src` to offset `p` of `dst` -/
theorem memcpy_whole {α : Type} (dst : Array α) (src : List α) (p : Nat) (h : p + src.length ≤ dst.size) :
    memcpy dst (p : Int) src.toArray 0 src.length = .ok (splice dst.toList p src).toArray := by
  have := memcpy_spec dst src.toArray p 0 src.length (by simp) h
  simp only [Int.natCast_zero] at this
  rw [this]
  unfold splice
  simp

theorem getD_of_lt {α : Type} (l : List α) (d : α) (i : Nat) (h : i < l.length) : l.getD i d = l[i] := by
  simp [List.getD_eq_getElem?_getD, h]

end JanetModel.Lib.CLoop
