import JanetModel.Lib.Boot
/- C17 (session 4): mirrors of the boot.janet sequence functions that had only a reference definition so far:
   `keep`, `mapcat` (map-template with 0 and 1 extra sequence, i.e. also `interleave` of one / two columns), `count` / `keep`
   over two sequences, `interpose` (pre-sized array filled at the even indices), `frequencies` and `group-by` (tables as
   association lists in order of first insertion).  Core Lean only.
   Source text: Gen/LibSrc.lean `boot_*`, compared in Lib/SrcTie.lean. -/
namespace JanetModel.Lib

/-- reference definition of `group-by f ind` as an association list: the keys in order of first occurrence, each with
    the elements of that key in their original order (kept here rather than in Lib/Spec.lean: added in session 4) -/
def groupBy {α κ : Type} [BEq κ] (f : α → κ) (l : List α) : List (κ × List α) :=
  (distinct (l.map f)).map (fun k => (k, l.filter (fun x => f x == k)))

end JanetModel.Lib

namespace JanetModel.Lib.Boot
open JanetModel.Lib JanetModel.Lib.JIter

/-! ## map-template with the aggregators :keep / :mapcat / :count -/

/-- `(keep pred ind)`: branch `0` of map-template, aggregator `(if (def y (pred x)) (array/push res y))`;
    `pred x = none` stands for a falsey result -/
def keepAgg {β : Type} (res : Array β) : Option β → Array β
  | some y => res.push y
  | none => res

def keep1 {α β : Type} (pred : α → Option β) (ind : List α) : R (List β) := do
  let res ← each ind (fun _ x (res : Array β) => .ok (keepAgg res (pred x), false)) #[]
  pure res.toList

/-- `(mapcat f ind)`: branch `0`, aggregator `(array/concat res (f x))`; `f` returns an indexed value whose elements
    `array/concat` appends one by one (cfun_array_concat is mirrored in Lib/ArrC.lean) -/
def mapcat1 {α β : Type} (f : α → List β) (ind : List α) : R (List β) := do
  let res ← each ind (fun _ x (res : Array β) => .ok (res ++ (f x).toArray, false)) #[]
  pure res.toList

/-- `map-n 1` of map-template for an aggregator that does not `(break)` (:map, :mapcat, :keep, :count):
      `(def [ind0] inds) (var key0 nil)
       (each x ind (if (= nil (set key0 (next ind0 key0))) (break)) (map-aggregator maptype res (f x (in ind0 key0))))`
    `agg res x y` is the state after the aggregator ran on `(f x y)` -/
def mapN1Body {α β σ : Type} (agg : σ → α → β → σ) (ind0 : List β) (_ : Nat) (x : α) (st : σ × Option Nat) :
    R ((σ × Option Nat) × Bool) :=
  match nextKey ind0.length st.2 with
  | none => .ok ((st.1, none), true)                                   -- (break)
  | some key0 =>
    match inIdx ind0 key0 with
    | .ok y => .ok ((agg st.1 x y, some key0), false)
    | .panic => .panic
    | .ub => .ub

def mapN1 {α β σ : Type} (agg : σ → α → β → σ) (init : σ) (ind : List α) (ind0 : List β) : R σ := do
  let st ← each ind (mapN1Body agg ind0) (init, none)
  pure st.1

/-- `(mapcat f ind ind0)` -/
def mapcat2 {α β γ : Type} (f : α → β → List γ) (ind : List α) (ind0 : List β) : R (List γ) := do
  let res ← mapN1 (fun (res : Array γ) x y => res ++ (f x y).toArray) #[] ind ind0
  pure res.toList

/-- `(keep pred ind ind0)` -/
def keep2 {α β γ : Type} (pred : α → β → Option γ) (ind : List α) (ind0 : List β) : R (List γ) := do
  let res ← mapN1 (fun (res : Array γ) x y => keepAgg res (pred x y)) #[] ind ind0
  pure res.toList

/-- `(count pred ind ind0)` -/
def count2 {α β : Type} (pred : α → β → Bool) (ind : List α) (ind0 : List β) : R Nat :=
  mapN1 (fun (res : Nat) x y => if pred x y then res + 1 else res) 0 ind ind0

/-- `(defn interleave [& cols] (mapcat tuple ;cols))` for one and for two columns -/
def interleave1 {α : Type} (c0 : List α) : R (List α) := mapcat1 (fun x => [x]) c0
def interleave2 {α : Type} (c0 c1 : List α) : R (List α) := mapcat2 (fun x y => [x, y]) c0 c1

/-! ## interpose -/

/-- `interpose` on a lengthable `ind`:
      `(var k (next ind nil))
       (if (not= nil k)
         (do (def ret (array/new-filled (- (* 2 (length ind)) 1) sep)) (var i 0)
             (while (not= nil k) (put ret i (in ind k)) (set k (next ind k)) (+= i 2))
             ret)
         @[])`
    `array/new-filled` raises for a negative count (`janet_getnat`); `(put ret i v)` with `i` outside `[0, count)` would
    extend the array with nils (or raise for a negative index): modelled as `.ub` by `setIdx` and shown unreachable. -/
def interpose {α : Type} (sep : α) (ind : List α) : R (List α) :=
  match nextKey ind.length none with                                  -- (var k (next ind nil))
  | none => .ok []                                                     -- @[]
  | some k => do
    let n : Int := 2 * (ind.length : Int) - 1
    let ret0 ← (if n < 0 then (R.panic : R (Array α)) else .ok (Array.replicate n.toNat sep))
    let st ← eachLoop ind (fun _ x (st : Array α × Int) => do
        let ret ← setIdx st.1 st.2 x                                   -- (put ret i (in ind k))
        pure ((ret, st.2 + 2), false))                                 -- (+= i 2)
      (ind.length + 1) (some k) (ret0, 0)
    pure st.1.toList

/-! ## frequencies / group-by (tables as association lists, insertion order) -/

/-- `(in tab k)` / `(get tab k)` on a table: nil (none) when absent -/
def assocGet {α β : Type} [BEq α] (m : List (α × β)) (k : α) : Option β :=
  match m with
  | [] => none
  | (k', v) :: rest => if k' == k then some v else assocGet rest k

/-- `(if n (+ 1 n) 1)` (a stored count is a number, hence truthy) -/
def freqBump : Option Nat → Nat
  | some n => 1 + n
  | none => 1

/-- one iteration of `frequencies`: `(def n (in freqs x)) (set (freqs x) (if n (+ 1 n) 1))` -/
def freqStep {α : Type} [BEq α] (freqs : List (α × Nat)) (x : α) : List (α × Nat) :=
  assocPut freqs x (freqBump (assocGet freqs x))

/-- `(defn frequencies [ind] (def freqs @{}) (each x ind (def n (in freqs x)) (set (freqs x) (if n (+ 1 n) 1))) freqs)` -/
def frequencies {α : Type} [BEq α] (ind : List α) : R (List (α × Nat)) :=
  each ind (fun _ x (freqs : List (α × Nat)) => .ok (freqStep freqs x, false)) []

/-- `(if-let [arr (get ret y)] (array/push arr x) (put ret y @[x]))`: `array/push` mutates the array stored in the table,
    i.e. the entry is replaced in place -/
def groupBump {α : Type} (x : α) : Option (List α) → List α
  | some arr => arr ++ [x]
  | none => [x]

def groupStep {α κ : Type} [BEq κ] (f : α → κ) (ret : List (κ × List α)) (x : α) : List (κ × List α) :=
  assocPut ret (f x) (groupBump x (assocGet ret (f x)))

/-- `(defn group-by [f ind] (def ret @{})
       (each x ind (def y (f x)) (if-let [arr (get ret y)] (array/push arr x) (put ret y @[x]))) ret)` -/
def groupBy {α κ : Type} [BEq κ] (f : α → κ) (ind : List α) : R (List (κ × List α)) :=
  each ind (fun _ x (ret : List (κ × List α)) => .ok (groupStep f ret x, false)) []

end JanetModel.Lib.Boot
