import JanetModel.Lib.Boot6
import JanetModel.Lib.BootProofs
/- C17 (session 4): `frequencies` and `group-by` (boot.janet: a table updated inside `each`) equal their declarative
   definitions — keys in order of first occurrence, each with its count / with the elements of that key in order. -/
namespace JanetModel.Lib.Boot
open JanetModel.Lib JanetModel.Lib.JIter

/-! ### association lists built from a list of distinct keys -/

theorem assocGet_map {α β : Type} [BEq α] [LawfulBEq α] (c : α → β) (x : α) : ∀ d : List α,
    assocGet (d.map (fun y => (y, c y))) x = if d.contains x then some (c x) else none
  | [] => rfl
  | y :: d => by
    simp only [List.map_cons, assocGet, List.contains_cons]
    by_cases hy : (y == x) = true
    · have : y = x := eq_of_beq hy
      subst this
      simp
    · have hxy : (x == y) = false := by
        cases h : (x == y) with
        | false => rfl
        | true => exact absurd (by rw [eq_of_beq h]; simp) hy
      simp only [hy, Bool.false_eq_true, if_false, hxy, Bool.false_or]
      exact assocGet_map c x d

theorem assocPut_map_not_mem {α β : Type} [BEq α] [LawfulBEq α] (c : α → β) (x : α) (v : β) : ∀ d : List α,
    d.contains x = false → assocPut (d.map (fun y => (y, c y))) x v = d.map (fun y => (y, c y)) ++ [(x, v)]
  | [], _ => rfl
  | y :: d, h => by
    simp only [List.contains_cons, Bool.or_eq_false_iff] at h
    have hyx : (y == x) = false := by
      cases h' : (y == x) with
      | false => rfl
      | true => have := eq_of_beq h'; subst this; simp at h
    simp only [List.map_cons, assocPut, hyx, Bool.false_eq_true, if_false, List.cons_append]
    rw [assocPut_map_not_mem c x v d h.2]

theorem assocPut_map_mem {α β : Type} [BEq α] [LawfulBEq α] (c : α → β) (x : α) (v : β) : ∀ d : List α,
    d.Nodup → d.contains x = true →
    assocPut (d.map (fun y => (y, c y))) x v = d.map (fun y => (y, if y == x then v else c y))
  | [], _, h => by simp at h
  | y :: d, hnd, h => by
    rw [List.nodup_cons] at hnd
    simp only [List.map_cons, assocPut]
    by_cases hyx : (y == x) = true
    · have : y = x := eq_of_beq hyx
      subst this
      simp only [BEq.rfl, if_true]
      congr 1
      apply List.map_congr_left
      intro z hz
      have : (z == y) = false := by
        cases h' : (z == y) with
        | false => rfl
        | true => have := eq_of_beq h'; subst this; exact absurd hz hnd.1
      simp only [this, Bool.false_eq_true, if_false]
    · have hyx' : (y == x) = false := by simpa using hyx
      simp only [hyx', Bool.false_eq_true, if_false]
      congr 1
      have hx : d.contains x = true := by
        simp only [List.contains_cons] at h
        have hxy : (x == y) = false := by
          cases h' : (x == y) with
          | false => rfl
          | true => exact absurd (by rw [eq_of_beq h']; simp) hyx
        simpa [hxy] using h
      exact assocPut_map_mem c x v d hnd.2 hx

/-! ### `distinct` -/

theorem contains_distinct {α : Type} [BEq α] [LawfulBEq α] (x : α) : ∀ p : List α, (Lib.distinct p).contains x = p.contains x
  | [] => rfl
  | y :: p => by
    simp only [Lib.distinct, List.contains_cons]
    by_cases hxy : (x == y) = true
    · simp [hxy]
    · simp only [hxy, Bool.false_or]
      rw [← contains_distinct x p]
      cases hc : (Lib.distinct p).contains x with
      | false =>
        cases h : (List.filter (fun z => !(z == y)) (Lib.distinct p)).contains x with
        | false => rfl
        | true =>
          rw [List.contains_iff_mem] at h
          have := (List.mem_filter.mp h).1
          rw [← List.contains_iff_mem] at this
          rw [this] at hc; exact absurd hc (by simp)
      | true =>
        rw [List.contains_iff_mem] at hc ⊢
        exact List.mem_filter.mpr ⟨hc, by simpa using hxy⟩

theorem nodup_distinct {α : Type} [BEq α] [LawfulBEq α] : ∀ p : List α, (Lib.distinct p).Nodup
  | [] => List.nodup_nil
  | y :: p => by
    simp only [Lib.distinct, List.nodup_cons]
    refine ⟨fun h => by simpa using (List.mem_filter.mp h).2, ?_⟩
    exact List.Pairwise.filter _ (nodup_distinct p)

theorem distinct_snoc {α : Type} [BEq α] [LawfulBEq α] (x : α) : ∀ p : List α,
    Lib.distinct (p ++ [x]) = if p.contains x then Lib.distinct p else Lib.distinct p ++ [x]
  | [] => by simp [Lib.distinct]
  | y :: p => by
    have ih := distinct_snoc x p
    show Lib.distinct (y :: (p ++ [x])) = _
    simp only [Lib.distinct, ih, List.contains_cons]
    cases hp : p.contains x with
    | true => simp only [Bool.or_true, if_true]
    | false =>
      simp only [Bool.or_false, Bool.false_eq_true, if_false, List.filter_append]
      cases hxy : (x == y) with
      | true => simp [hxy]
      | false => simp [hxy]

/-! ### frequencies -/

/-- the loop invariant: one more element processed -/
theorem freqStep_frequencies {α : Type} [BEq α] [LawfulBEq α] (p : List α) (x : α) :
    freqStep (Lib.frequencies p) x = Lib.frequencies (p ++ [x]) := by
  unfold freqStep Lib.frequencies
  rw [assocGet_map, contains_distinct, distinct_snoc]
  cases hp : p.contains x with
  | true =>
    simp only [if_true, freqBump]
    rw [assocPut_map_mem _ x _ _ (nodup_distinct p) (by rw [contains_distinct]; exact hp)]
    apply List.map_congr_left
    intro y _
    by_cases hyx : (y == x) = true
    · have : y = x := eq_of_beq hyx
      subst this
      simp [List.count_append]; omega
    · have : ¬ (x = y) := fun h => hyx (by rw [h]; simp)
      simp [hyx, List.count_append, this]
  | false =>
    simp only [Bool.false_eq_true, if_false, freqBump]
    rw [assocPut_map_not_mem _ x _ _ (by rw [contains_distinct]; exact hp)]
    simp only [List.map_append, List.map_cons, List.map_nil]
    have hcx : List.count x p = 0 := by
      rw [List.count_eq_zero]
      intro hm
      rw [← List.contains_iff_mem] at hm
      rw [hm] at hp; exact absurd hp (by simp)
    congr 1
    · apply List.map_congr_left
      intro y hy
      have : ¬ (x = y) := by
        intro h
        subst h
        have hy' : (Lib.distinct p).contains x = true := List.contains_iff_mem.mpr hy
        rw [contains_distinct, hp] at hy'
        exact absurd hy' (by simp)
      simp [List.count_append, this]
    · simp [List.count_append, hcx]

/-- ★ `frequencies`: every distinct element, in order of first occurrence, with its number of occurrences — `(in freqs x)`
    on the table is total, the stored count is exact -/
theorem frequencies_eq_spec {α : Type} [BEq α] [LawfulBEq α] (ind : List α) :
    Boot.frequencies ind = .ok (Lib.frequencies ind) := by
  unfold Boot.frequencies
  rw [each_fold ind _ freqStep [] (fun _ _ _ => rfl)]
  congr 1
  have : ∀ (l p : List α), l.foldl freqStep (Lib.frequencies p) = Lib.frequencies (p ++ l) := by
    intro l
    induction l with
    | nil => intro p; simp
    | cons x xs ih =>
      intro p
      rw [List.foldl_cons, freqStep_frequencies, ih]
      simp
  have h := this ind []
  simpa [Lib.frequencies, Lib.distinct] using h

example : Boot.frequencies [3, 1, 3, 3, 1] = .ok [(3, 3), (1, 2)] := by decide

/-! ### group-by -/

theorem groupStep_groupBy {α κ : Type} [BEq κ] [LawfulBEq κ] (f : α → κ) (p : List α) (x : α) :
    groupStep f (Lib.groupBy f p) x = Lib.groupBy f (p ++ [x]) := by
  unfold groupStep Lib.groupBy
  rw [assocGet_map (fun k => p.filter (fun z => f z == k)), contains_distinct, List.map_append, List.map_cons, List.map_nil,
    distinct_snoc]
  cases hp : (p.map f).contains (f x) with
  | true =>
    simp only [if_true, groupBump]
    rw [assocPut_map_mem (fun k => p.filter (fun z => f z == k)) (f x) _ _ (nodup_distinct _)
      (by rw [contains_distinct]; exact hp)]
    apply List.map_congr_left
    intro k _
    by_cases hk : (k == f x) = true
    · have : k = f x := eq_of_beq hk
      subst this
      simp [List.filter_append]
    · have : (f x == k) = false := by
        cases h : (f x == k) with
        | false => rfl
        | true => exact absurd (by rw [eq_of_beq h]; simp) hk
      simp [hk, List.filter_append, this]
  | false =>
    simp only [Bool.false_eq_true, if_false, groupBump]
    rw [assocPut_map_not_mem (fun k => p.filter (fun z => f z == k)) (f x) _ _ (by rw [contains_distinct]; exact hp)]
    simp only [List.map_append, List.map_cons, List.map_nil]
    have hnone : p.filter (fun z => f z == f x) = [] := by
      rw [List.filter_eq_nil_iff]
      intro z hz hzx
      have : (p.map f).contains (f x) = true := by
        rw [List.contains_iff_mem]
        rw [← eq_of_beq hzx]
        exact List.mem_map_of_mem hz
      rw [this] at hp; exact absurd hp (by simp)
    congr 1
    · apply List.map_congr_left
      intro k hk
      have : (f x == k) = false := by
        cases h : (f x == k) with
        | false => rfl
        | true =>
          have hk' : (Lib.distinct (p.map f)).contains k = true := List.contains_iff_mem.mpr hk
          rw [contains_distinct, ← eq_of_beq h, hp] at hk'
          exact absurd hk' (by simp)
      simp [List.filter_append, this]
    · simp [List.filter_append, hnone]

/-- ★ `group-by`: the keys in order of first occurrence, each with exactly the elements of that key, in order -/
theorem groupBy_eq_spec {α κ : Type} [BEq κ] [LawfulBEq κ] (f : α → κ) (ind : List α) :
    Boot.groupBy f ind = .ok (Lib.groupBy f ind) := by
  unfold Boot.groupBy
  rw [each_fold ind _ (groupStep f) [] (fun _ _ _ => rfl)]
  congr 1
  have : ∀ (l p : List α), l.foldl (groupStep f) (Lib.groupBy f p) = Lib.groupBy f (p ++ l) := by
    intro l
    induction l with
    | nil => intro p; simp
    | cons x xs ih =>
      intro p
      rw [List.foldl_cons, groupStep_groupBy, ih]
      simp
  have h := this ind []
  simpa [Lib.groupBy, Lib.distinct] using h

example : Boot.groupBy (fun (a : Nat) => a % 2) [3, 1, 4, 6, 5] = .ok [(1, [3, 1, 5]), (0, [4, 6])] := by decide

end JanetModel.Lib.Boot
