import JanetModel.Lib.Boot8
import JanetModel.Lib.SortProofs
import JanetModel.Lib.ArrCProofs
/- C17 (session 4): `sort-by`, `sorted`, `sorted-by` return an ordered permutation whenever `<` on the keys (resp. `before?`)
   is a strict weak order: the comparator built from a key function inherits the three laws, `(array/slice ind)` is a
   copy of the whole argument, and `Sort.sort_sorted` applies. -/
namespace JanetModel.Lib.Boot
open JanetModel.Lib

/-- a strict weak order on the keys gives one on the elements -/
theorem byKey_swo {α κ : Type} (lt : κ → κ → Bool) (f : α → κ) (h : Sort.SWO lt) : Sort.SWO (byKey lt f) :=
  ⟨fun x => h.irr (f x), fun x y => h.asym (f x) (f y), fun x y z => h.negtrans (f x) (f y) (f z)⟩

/-- `(array/slice ind)` is the whole of `ind` -/
theorem slice_all {α : Type} [Inhabited α] (ind : List α) : ArrC.slice ind none none = .ok ind := by
  rw [ArrC.slice_eq_spec]
  have : Lib.slice ind none none = some ind := by
    simp [Lib.slice, Lib.getslice, Lib.startrange, Lib.endrange]
  rw [this]; rfl

theorem sortBy_sorted {α κ : Type} (le : α → α → Bool) (lt : κ → κ → Bool) (f : α → κ) (h : Sort.SWO lt) (a : Array α) :
    ∃ r, sortBy le lt f a = .ok r ∧ Array.Perm r a ∧ r.size = a.size ∧
      ∀ i j (hij : i < j) (hj : j < r.size), lt (f r[j]) (f (r[i]'(by omega))) = false :=
  Sort.sort_sorted le (byKey lt f) (byKey_swo lt f h) a

theorem sorted_sorted {α : Type} [Inhabited α] (le before : α → α → Bool) (h : Sort.SWO before) (ind : List α) :
    ∃ r, sorted le before ind = .ok r ∧ Array.Perm r ind.toArray ∧ r.size = ind.length ∧
      ∀ i j (hij : i < j) (hj : j < r.size), before r[j] (r[i]'(by omega)) = false := by
  unfold sorted
  rw [slice_all]
  obtain ⟨r, h1, h2, h3, h4⟩ := Sort.sort_sorted le before h ind.toArray
  exact ⟨r, h1, h2, by simpa using h3, h4⟩

theorem sortedBy_sorted {α κ : Type} [Inhabited α] (le : α → α → Bool) (lt : κ → κ → Bool) (f : α → κ) (h : Sort.SWO lt)
    (ind : List α) :
    ∃ r, sortedBy le lt f ind = .ok r ∧ Array.Perm r ind.toArray ∧ r.size = ind.length ∧
      ∀ i j (hij : i < j) (hj : j < r.size), lt (f r[j]) (f (r[i]'(by omega))) = false :=
  sorted_sorted le (byKey lt f) (byKey_swo lt f h) ind

/-- `<` on the integers is a strict weak order (so the hypotheses above are satisfiable; it is the default `before?`) -/
theorem int_lt_swo : Sort.SWO (fun (a b : Int) => decide (a < b)) :=
  ⟨fun x => by simp, fun x y h => by simp at h ⊢; omega, fun x y z h1 h2 => by simp at h1 h2 ⊢; omega⟩

example : sortedBy (fun (a b : Int) => decide (a ≤ b)) (fun (a b : Int) => decide (a < b)) (fun x => -x) [1, 3, 2] = .ok #[3, 2, 1] := by
  decide

end JanetModel.Lib.Boot
