import JanetModel.Lib.CLoop
import JanetModel.Lib.Kmp
/- C17: mirrors of the cfuns of src/core/string.c, loop by loop (the normalised source text each mirror was transcribed
   from is regenerated into Gen/LibSrc.lean and compared in Lib/SrcTie.lean).  Core Lean only.

   Conventions (Lib/C32.lean, Lib/CLoop.lean): result `R` = ok / panic / ub; arguments are the values already decoded by
   `janet_getbytes` / `janet_getinteger` (type and arity errors are decoded in the driver).  Arithmetic on user-supplied
   int32 goes through the checked operations; offsets inside one object (`0 ≤ x ≤ len`) use plain `Int` arithmetic.
   The theorems `… = Spec.…` are in Lib/StrCProofs.lean. -/
namespace JanetModel.Lib.StrC
open JanetModel.Lib JanetModel.Lib.CLoop JanetModel.Gen.Lib

/-- `janet_string(buf + off, len)` / `janet_stringv`: `janet_string_begin(len)`, `safe_memcpy`, `janet_string_end`. -/
def stringv (src : Bytes) (off len : Int) : R Bytes :=
  if len < 0 then .ub else do
    let buf ← memcpy (Array.replicate len.toNat 0) 0 src.toArray off len.toNat
    pure buf.toList

/-! ## trim family -/

/-- `static int trim_help_checkset(JanetByteView set, uint8_t x) {
       for (int32_t j = 0; j < set.len; j++) if (set.bytes[j] == x) return 1;
       return 0; }` -/
def checkset (set : Bytes) (x : Nat) : R Bool := do
  let r ← scanUp (fun j => do
      let c ← idx set.toArray (j : Int)
      pure (if c = x then some true else none)) set.length 0
  pure (r.getD false)

/-- `for (int32_t i = 0; i < str.len; i++) if (!trim_help_checkset(set, str.bytes[i])) return i;  return str.len;` -/
def leftedge (str set : Bytes) : R Int := do
  let r ← scanUp (fun i => do
      let c ← idx str.toArray (i : Int)
      let inset ← checkset set c
      pure (if !inset then some (i : Int) else none)) str.length 0
  pure (r.getD (str.length : Int))

/-- `for (int32_t i = str.len - 1; i >= 0; i--) if (!trim_help_checkset(set, str.bytes[i])) return i + 1;  return 0;` -/
def rightedge (str set : Bytes) : R Int := do
  let r ← scanDown (fun i => do
      let c ← idx str.toArray (i : Int)
      let inset ← checkset set c
      pure (if !inset then some ((i : Int) + 1) else none)) str.length
  pure (r.getD 0)

/-- `cfun_string_trim`:  `if (right_edge < left_edge) return janet_stringv(NULL, 0);
                          return janet_stringv(str.bytes + left_edge, right_edge - left_edge);` -/
def trim (str set : Bytes) : R Bytes := do
  let left_edge ← leftedge str set
  let right_edge ← rightedge str set
  if right_edge < left_edge then pure []
  else stringv str left_edge (right_edge - left_edge)

/-- `cfun_string_triml`: `return janet_stringv(str.bytes + left_edge, str.len - left_edge);` -/
def triml (str set : Bytes) : R Bytes := do
  let left_edge ← leftedge str set
  stringv str left_edge ((str.length : Int) - left_edge)

/-- `cfun_string_trimr`: `return janet_stringv(str.bytes, right_edge);` -/
def trimr (str set : Bytes) : R Bytes := do
  let right_edge ← rightedge str set
  stringv str 0 right_edge

/-! ## reverse, case conversion, bytes -/

/-- `cfun_string_reverse`: `for (i = 0, j = view.len - 1; i < view.len; i++, j--) buf[i] = view.bytes[j];` -/
def reverse (s : Bytes) : R Bytes := do
  let (buf, _) ← forUp (fun i (st : Array Nat × Int) => do
      let c ← idx s.toArray st.2
      let buf ← setIdx st.1 (i : Int) c
      pure (buf, st.2 - 1)) s.length 0 (Array.replicate s.length 0, (s.length : Int) - 1)
  pure buf.toList

/-- `cfun_string_asciilower`: `uint8_t c = view.bytes[i]; if (c >= 65 && c <= 90) buf[i] = c + 32; else buf[i] = c;`
    (the store into a `uint8_t` cell truncates: `% 256`) -/
def asciiLower (s : Bytes) : R Bytes := do
  let buf ← forUp (fun i (buf : Array Nat) => do
      let c ← idx s.toArray (i : Int)
      if lowerFrom ≤ c ∧ c ≤ lowerTo then setIdx buf (i : Int) ((c + lowerAdd) % 256)
      else setIdx buf (i : Int) c) s.length 0 (Array.replicate s.length 0)
  pure buf.toList

/-- `cfun_string_asciiupper`: `if (c >= 97 && c <= 122) buf[i] = c - 32; else buf[i] = c;` -/
def asciiUpper (s : Bytes) : R Bytes := do
  let buf ← forUp (fun i (buf : Array Nat) => do
      let c ← idx s.toArray (i : Int)
      if upperFrom ≤ c ∧ c ≤ upperTo then setIdx buf (i : Int) ((c - upperSub) % 256)
      else setIdx buf (i : Int) c) s.length 0 (Array.replicate s.length 0)
  pure buf.toList

/-- `cfun_string_bytes`: `for (i = 0; i < view.len; i++) tup[i] = janet_wrap_integer((int32_t) view.bytes[i]);` -/
def bytes (s : Bytes) : R (List Int) := do
  let tup ← forUp (fun i (tup : Array Int) => do
      let c ← idx s.toArray (i : Int)
      setIdx tup (i : Int) (c : Int)) s.length 0 (Array.replicate s.length 0)
  pure tup.toList

/-- `cfun_string_frombytes`: `for (i = 0; i < argc; i++) { int32_t c = janet_getinteger(argv, i); buf[i] = c & 0xFF; }`
    (`c & 0xFF` on a two's-complement int32 is `c mod 256` = `Spec.toByte`) -/
def fromBytes (argv : List Int) : R Bytes := do
  let buf ← forUp (fun i (buf : Array Nat) => do
      let a ← idx argv.toArray (i : Int)
      let c ← getinteger a
      setIdx buf (i : Int) (toByte c)) argv.length 0 (Array.replicate argv.length 0)
  pure buf.toList

/-! ## has-prefix? / has-suffix? -/

/-- `memcmp(a + aoff, b + boff, n) == 0` as a byte loop -/
def memEq (a : Bytes) (aoff : Int) (b : Bytes) (boff : Int) (n : Nat) : R Bool := do
  let r ← scanUp (fun k => do
      let x ← idx a.toArray (aoff + (k : Int))
      let y ← idx b.toArray (boff + (k : Int))
      pure (if x ≠ y then some false else none)) n 0
  pure (r.getD true)

/-- `cfun_string_hasprefix`: `return str.len < prefix.len ? false : memcmp(prefix.bytes, str.bytes, prefix.len) == 0;` -/
def hasPrefix (pfx str : Bytes) : R Bool :=
  if str.length < pfx.length then pure false else memEq pfx 0 str 0 pfx.length

/-- `cfun_string_hassuffix`: `… memcmp(suffix.bytes, str.bytes + str.len - suffix.len, suffix.len) == 0` -/
def hasSuffix (sfx str : Bytes) : R Bool :=
  if str.length < sfx.length then pure false
  else memEq sfx 0 str ((str.length : Int) - (sfx.length : Int)) sfx.length

/-! ## slice -/

/-- `cfun_string_slice` (also `cfun_symbol_slice`, `cfun_keyword_slice`, `cfun_buffer_slice`): `janet_arity(argc, 1, 3);` first
    (since /repo 06301a5: before that the arity was only checked inside `janet_getslice`, after `argv[0]` had been read —
    the arity decode is the driver's, see the arity family of the check), then `JanetRange range = janet_getslice(argc, argv);
      return janet_stringv(view.bytes + range.start, range.end - range.start);`
    (`Spec.getslice` is the mirror of capi.c `janet_getslice`, see `halfrange_spec` / `slice_spec`) -/
def slice (s : Bytes) (st en : Option Int) : R Bytes :=
  match getslice st en s.length with
  | none => .panic
  | some (a, b) => stringv s (a : Int) ((b : Int) - (a : Int))

/-! ## repeat -/

/-- the pointer loop `for (uint8_t *p = newbuf; p < end; p += view.len) safe_memcpy(p, view.bytes, view.len);`
    with `p`, `end` as offsets into `newbuf`; `fuel` bounds the iterations (exhaustion = outside the model: `.ub`). -/
def repeatLoop (s : Bytes) (end_ : Int) : Nat → Int → Array Nat → R (Array Nat)
  | 0, p, buf => if p < end_ then .ub else .ok buf
  | fuel + 1, p, buf =>
    if p < end_ then do
      let buf ← memcpy buf p s.toArray 0 s.length
      repeatLoop s end_ fuel (p + (s.length : Int)) buf
    else .ok buf

/-- `cfun_string_repeat`:
      `if (rep < 0) janet_panic(…); if (rep == 0) return janet_cstringv("");
       int64_t mulres = (int64_t) rep * view.len;
       if (mulres > INT32_MAX) janet_panic("result string is too long");
       uint8_t *newbuf = janet_string_begin((int32_t) mulres); uint8_t *end = newbuf + mulres; (loop)` -/
def repeatStr (s : Bytes) (rep : Int) : R Bytes :=
  if rep < 0 then .panic
  else if rep = 0 then .ok []
  else do
    let mulres ← mul64 rep (s.length : Int)
    if mulres > int32Max then .panic
    else do
      let buf ← repeatLoop s mulres rep.toNat 0 (Array.replicate mulres.toNat 0)
      pure buf.toList

/-! ## check-set -/

/-- `cfun_string_checkset`: `uint32_t bitset[8]`;
      populate: `int index = set.bytes[i] >> 5; uint32_t mask = (uint32_t) 1 << (set.bytes[i] & 0x1F); bitset[index] |= mask;`
      check:    `if (!(bitset[index] & mask)) return janet_wrap_false();` … `return janet_wrap_true();`
    A shift amount ≥ 32 would be UB (it cannot be: `& 0x1F`); `(uint32_t) 1 << 31` is defined (the cast is the fix of a
    past `1 << 31` signed-overflow defect). -/
def shl32 (k : Nat) : R Nat := if k < 32 then .ok ((1 <<< k) % 4294967296) else .ub

def checkSetPopBody (set : Bytes) (i : Nat) (bitset : Array Nat) : R (Array Nat) := do
  let c ← idx set.toArray (i : Int)
  let index := c >>> 5
  let mask ← shl32 (c &&& 0x1F)
  let w ← idx bitset (index : Int)
  setIdx bitset (index : Int) (w ||| mask)

def checkSetChkBody (bitset : Array Nat) (str : Bytes) (i : Nat) : R (Option Bool) := do
  let c ← idx str.toArray (i : Int)
  let index := c >>> 5
  let mask ← shl32 (c &&& 0x1F)
  let w ← idx bitset (index : Int)
  pure (if w &&& mask = 0 then some false else none)

def checkSet (set str : Bytes) : R Bool := do
  let bitset ← forUp (checkSetPopBody set) set.length 0 (Array.replicate 8 0)
  let r ← scanUp (checkSetChkBody bitset str) str.length 0
  pure (r.getD true)

/-! ## the cfuns built on the KMP machine (`Lib/Kmp.lean` mirrors kmp_init / kmp_next / kmp_seti) -/

structure KmpS where
  text : Array Nat
  pat : Array Nat
  lookup : Array Nat
  st : Kmp.State

/-- `kmp_init`: `if (patlen == 0) janet_panic("expected non-empty pattern");` … table … `s->i = 0; s->j = 0;` -/
def kmpInit (text pat : Bytes) : R KmpS :=
  if pat.length = 0 then .panic
  else .ok { text := text.toArray, pat := pat.toArray, lookup := Kmp.lookupTable pat.toArray, st := { i := 0, j := 0 } }

/-- `findsetup`: `int32_t start = 0; if (argc >= 3) { start = janet_getinteger(argv, 2);
      if (start < 0) janet_panic("expected non-negative start index"); }  kmp_init(…);  s->i = start;` -/
def findsetup (pat text : Bytes) (start : Option Int) : R KmpS := do
  let start ← match start with
    | none => pure (0 : Int)
    | some x => if x < 0 then .panic else pure x
  let s ← kmpInit text pat
  pure { s with st := { i := start.toNat, j := 0 } }

def next (s : KmpS) : Option Nat × Kmp.State := Kmp.kmpNext s.text s.pat s.lookup s.st

/-- `cfun_string_find`: `result = kmp_next(&state); return result < 0 ? nil : integer(result);` -/
def find (pat text : Bytes) (start : Option Int) : R (Option Nat) := do
  let s ← findsetup pat text start
  pure (next s).1

/-- `cfun_string_findall`: `while ((result = kmp_next(&state)) >= 0) janet_array_push(array, integer(result));` -/
def findAllLoop (s : KmpS) : Nat → Kmp.State → Array Nat → R (Array Nat)
  | 0, _, _ => .ub
  | fuel + 1, st, array =>
    match next { s with st := st } with
    | (none, _) => .ok array
    | (some result, st') => findAllLoop s fuel st' (array.push result)

def findAll (pat text : Bytes) (start : Option Int) : R (List Nat) := do
  let s ← findsetup pat text start
  let array ← findAllLoop s (text.length + 2) s.st #[]
  pure array.toList

/-- `cfun_string_split`:
      `int32_t limit = -1, lastindex = 0;  if (argc == 4) limit = janet_getinteger(argv, 3);  findsetup(…, 1);
       while ((result = kmp_next(&state)) >= 0 && (limit < 0 || --limit)) {
           slice = janet_string(state.text + lastindex, result - lastindex);  push(slice);
           lastindex = result + state.patlen;  kmp_seti(&state, lastindex); }
       slice = janet_string(state.text + lastindex, state.textlen - lastindex);  push(slice);`
    `--limit` is an int32 decrement (`sub32`), evaluated only when `limit >= 0` (short-circuit `||`). -/
def splitLoop (s : KmpS) (txt : Bytes) : Nat → Int → Kmp.State → Int → Array Bytes → R (Array Bytes × Int)
  | 0, _, _, _, _ => .ub
  | fuel + 1, lastindex, st, limit, array =>
    match next { s with st := st } with
    | (none, _) => .ok (array, lastindex)
    | (some result, _) => do
      let (go, limit) ← (if limit < 0 then pure (true, limit)
                         else do let l ← sub32 limit 1; pure (decide (l ≠ 0), l) : R (Bool × Int))
      if go then do
        let sl ← stringv txt lastindex ((result : Int) - lastindex)
        let lastindex := (result : Int) + (s.pat.size : Int)
        splitLoop s txt fuel lastindex { i := lastindex.toNat, j := 0 } limit (array.push sl)
      else .ok (array, lastindex)

def split (pat text : Bytes) (start : Option Int) (limit : Option Int) : R (List Bytes) := do
  let limit := limit.getD (-1)
  let s ← findsetup pat text start
  let (array, lastindex) ← splitLoop s text (text.length + 1) 0 s.st limit #[]
  let sl ← stringv text lastindex ((text.length : Int) - lastindex)
  pure (array.push sl).toList

/-! ## join -/

/-- first loop of `cfun_string_join` (the parts are byte sequences):
      `int64_t finallen = 0; for (i = 0; i < parts.len; i++) { … if (i) finallen += joiner.len; finallen += chunklen;
         if (finallen > INT32_MAX) janet_panic("result string too long"); }` -/
def joinLenBody (parts : List Bytes) (joiner : Bytes) (i : Nat) (finallen : Int) : R Int := do
  let chunk ← idx parts.toArray (i : Int)
  let finallen ← (if i ≠ 0 then add64 finallen (joiner.length : Int) else pure finallen)
  let finallen ← add64 finallen (chunk.length : Int)
  if finallen > int32Max then .panic else pure finallen

def joinLen (parts : List Bytes) (joiner : Bytes) : R Int := forUp (joinLenBody parts joiner) parts.length 0 0

/-- second loop: `out = buf = janet_string_begin((int32_t) finallen);
      for (i = 0; i < parts.len; i++) { if (i) { safe_memcpy(out, joiner.bytes, joiner.len); out += joiner.len; }
         safe_memcpy(out, chunk, chunklen); out += chunklen; }` -/
def joinCopyBody (parts : List Bytes) (joiner : Bytes) (i : Nat) (st : Array Nat × Int) : R (Array Nat × Int) := do
  let (buf, out) ← (if i ≠ 0 then do
                      let b ← memcpy st.1 st.2 joiner.toArray 0 joiner.length
                      pure (b, st.2 + (joiner.length : Int))
                    else pure st : R (Array Nat × Int))
  let chunk ← idx parts.toArray (i : Int)
  let buf ← memcpy buf out chunk.toArray 0 chunk.length
  pure (buf, out + (chunk.length : Int))

def join (parts : List Bytes) (joiner : Bytes) : R Bytes := do
  let finallen ← joinLen parts joiner
  let (buf, _) ← forUp (joinCopyBody parts joiner) parts.length 0 (Array.replicate finallen.toNat 0, 0)
  pure buf.toList

end JanetModel.Lib.StrC
