import JanetModel.Bytecode.VMCall
import JanetModel.Spec.Apply

/-!
C15: operand loads of emit.c.  A specialisation hands `JanetSlot`s to `janetc_emit_sss` / `_ssi` / `_ss`; a slot that is not a local
register below 256 is first brought into a temporary register (`janetc_regnear` -> `janetc_movenear` -> `janetc_loadconst`):

  far local (index > 255)        movn  tmp far
  constant nil / true / false    ldn / ldt / ldf tmp
  constant small integer         ldi   tmp i            (int16, not -0.0)
  any other constant             ldc   tmp k
  upvalue                        ldu   tmp env index

and the instruction then names `tmp`.  (A `JANET_SLOT_REF` operand - a top-level `var` - is `ldc tmp k ; geti tmp tmp 0`; it is not
modelled here.)  The target of `opreduce` / `compreduce` / the fixed-arity handlers comes from `janetc_gettarget` and is always a
near local register, so only SOURCE operands are loaded.

`operands_loaded`: over the full interpreter (`execX`), the loads emitted for the two source operands of a three-operand instruction
leave the operands' values in the registers the instruction names and change nothing but the two temporaries - so the instruction
group behaves as the plain register instruction the chain theorems are about.  The temporaries are hypotheses (free registers: the
register allocator is not modelled).  Core Lean only.
-/

namespace JanetModel.Spec
open JanetModel.Gen.Bytecode JanetModel.Bytecode.VM

/-- a source operand as emit.c sees it -/
inductive Opd where
  | near (r : Nat)
  | far (r : Nat)
  | nil | tru | fls
  | int (i : Int)
  | const (k : Nat)
  | upv (env idx : Nat)
  deriving DecidableEq, Repr, Inhabited

/-- `janetc_movenear(c, d, slot)` for a slot `janetc_regnear` does not use in place: exactly one instruction -/
def loadInstr (d : Nat) : Opd → Option Instr
  | .near _ => none
  | .far r => some (mkAE .moveNear d r)
  | .nil => some (mkD .loadNil d)
  | .tru => some (mkD .loadTrue d)
  | .fls => some (mkD .loadFalse d)
  | .int i => some (mkAI .loadInteger d i)
  | .const k => some (mkAE .loadConstant d k)
  | .upv e i => some (mkABC .loadUpvalue d e i)

/-- `janetc_regnear(c, slot, tag)`: the register the instruction will name and the instructions emitted before it -/
def regnear (tmp : Nat) (o : Opd) : Nat × List Instr :=
  match o with
  | .near r => (r, [])
  | o => (tmp, (loadInstr tmp o).toList)

/-- operand encodable: registers / indices within their fields, `ldi` within int16 -/
def Opd.ok : Opd → Prop
  | .near r => r < 256
  | .far r => r < 65536
  | .int i => -32768 ≤ i ∧ i < 32768
  | .const k => k < 65536
  | .upv e i => e < 256 ∧ i < 256
  | _ => True

/-- the register an operand is read from, if any -/
def Opd.reads (t : Nat) : Opd → Prop
  | .near r => r = t
  | .far r => r = t
  | _ => False

variable {P : Prims}

/-- value of the operand in the current slots and world (an upvalue lives in the enclosing activation: the world) -/
def opdVal (X : CallPrims P) (s : List P.V) (w : P.W) : Opd → P.V
  | .near r => s.getD r P.nil
  | .far r => s.getD r P.nil
  | .nil => P.nil
  | .tru => P.tru
  | .fls => P.fls
  | .int i => P.num i
  | .const k => X.constant k
  | .upv e i => X.loadUpvalue e i w

/-- one load instruction: the temporary receives the operand's value; slots otherwise, pending arguments and world unchanged -/
theorem load_step (X : CallPrims P) (cap : Nat → Bool) (d : Nat) (hd : d < 256) (o : Opd) (ho : o.ok) (i : Instr) (hi : loadInstr d o = some i)
    (s a : List P.V) (pc : Nat) (w : P.W) :
    (stepX X cap i ⟨s, a, pc⟩).map (fun m => m w) = some (.ok (.cont ⟨s.set d (opdVal X s w o), a, pc + 1⟩), w) := by
  cases o with
  | near r => cases hi
  | far r =>
    cases hi
    have hr : r < 65536 := ho
    have hop : (mkAE .moveNear d r).op = .moveNear := rfl
    simp [stepX, callCore, step, hop, mkAE_A _ d r hd, mkAE_E _ d r hd hr, M.map, M.bind, M.pure, liftStep, next, setSlot, getSlot, opdVal]
  | nil =>
    cases hi
    have hop : (mkD .loadNil d).op = .loadNil := rfl
    simp [stepX, callCore, step, hop, mkD_D _ d (show d < 16777216 by omega), M.map, M.bind, M.pure, liftStep, next, setSlot, opdVal]
  | tru =>
    cases hi
    have hop : (mkD .loadTrue d).op = .loadTrue := rfl
    simp [stepX, callCore, step, hop, mkD_D _ d (show d < 16777216 by omega), M.map, M.bind, M.pure, liftStep, next, setSlot, opdVal]
  | fls =>
    cases hi
    have hop : (mkD .loadFalse d).op = .loadFalse := rfl
    simp [stepX, callCore, step, hop, mkD_D _ d (show d < 16777216 by omega), M.map, M.bind, M.pure, liftStep, next, setSlot, opdVal]
  | int n =>
    cases hi
    have hn : -32768 ≤ n ∧ n < 32768 := ho
    have hop : (mkAI .loadInteger d n).op = .loadInteger := rfl
    simp [stepX, callCore, step, hop, mkAI_A _ d n hd, mkAI_ES _ d n hd hn, M.map, M.bind, M.pure, liftStep, next, setSlot, opdVal]
  | const k =>
    cases hi
    have hk : k < 65536 := ho
    have hop : (mkAE .loadConstant d k).op = .loadConstant := rfl
    simp [stepX, callCore, hop, mkAE_A _ d k hd, mkAE_E _ d k hd hk, M.map, M.bind, M.pure, placeX, opdVal]
  | upv e j =>
    cases hi
    obtain ⟨he, hj⟩ : e < 256 ∧ j < 256 := ho
    have hop : (mkABC .loadUpvalue d e j).op = .loadUpvalue := rfl
    simp [stepX, callCore, hop, mkABC_A _ d e j hd, mkABC_B _ d e j hd he, mkABC_C _ d e j hd he hj, M.map, M.bind, M.pure, placeX, opdVal]

/-- ★ `janetc_regnear` as emitted: after the (zero or one) instructions it emits, the register it returns holds the operand's value; only
    the temporary changed; the run continues behind them in the same world with the same pending arguments -/
theorem regnear_exec (X : CallPrims P) (cap : Nat → Bool) (tmp : Nat) (htmp : tmp < 256) (o : Opd) (ho : o.ok) (code : List Instr) (pc : Nat)
    (hat : HasAt code pc (regnear tmp o).2) (s a : List P.V) (hlen : tmp < s.length) (w : P.W) (fuel : Nat) :
    ∃ s', execX X cap code (fuel + (regnear tmp o).2.length) ⟨s, a, pc⟩ w = execX X cap code fuel ⟨s', a, pc + (regnear tmp o).2.length⟩ w ∧
      s'.getD (regnear tmp o).1 P.nil = opdVal X s w o ∧ s'.length = s.length ∧ ∀ k, k ≠ tmp → s'.getD k P.nil = s.getD k P.nil := by
  cases hl : loadInstr tmp o with
  | none =>
    cases o <;> simp [loadInstr] at hl
    rename_i r
    exact ⟨s, by simp [regnear], by simp [regnear, opdVal], rfl, fun _ _ => rfl⟩
  | some i =>
    have hreg : regnear tmp o = (tmp, [i]) := by
      cases o <;> simp [loadInstr] at hl <;> simp [regnear, loadInstr, hl]
    rw [hreg] at hat ⊢
    have hstep := load_step X cap tmp htmp o ho i hl s a pc w
    refine ⟨s.set tmp (opdVal X s w o), ?_, ?_, by simp, fun k hk => ?_⟩
    · simp only [List.length_singleton]
      cases hs : stepX X cap i ⟨s, a, pc⟩ with
      | none => rw [hs] at hstep; cases hstep
      | some m =>
        rw [hs] at hstep
        have hm : m w = (.ok (.cont ⟨s.set tmp (opdVal X s w o), a, pc + 1⟩), w) := Option.some.inj hstep
        rw [execX_succ X cap code fuel ⟨s, a, pc⟩ w i m hat.head hs, hm]
    · simp [List.getD, hlen]
    · simp [List.getD, List.getElem?_set_ne (Ne.symm hk)]

/-- the value of an operand does not depend on a register it does not read -/
theorem opdVal_set (X : CallPrims P) (s : List P.V) (w : P.W) (t : Nat) (v : P.V) (o : Opd) (h : ¬ o.reads t) :
    opdVal X (s.set t v) w o = opdVal X s w o := by
  cases o <;> simp only [opdVal] <;> simp only [Opd.reads] at h <;>
    simp [List.getD, List.getElem?_set_ne (Ne.symm h)]

/-- ★ the operand loads of a three-operand emit (`janetc_emit_sss(c, op, t, x, y, 1)` with `t` a near register): after the loads for `x`
    (into `t1`) and `y` (into `t2`) the registers `rx`, `ry` the instruction names hold the operands' values and every register other than
    the two temporaries is unchanged - the group is the plain register instruction `op t rx ry` on the operands' values.
    Side conditions = the temporaries are free registers: distinct, and not registers the operands are read from. -/
theorem operands_loaded (X : CallPrims P) (cap : Nat → Bool) (t1 t2 : Nat) (h1 : t1 < 256) (h2 : t2 < 256) (hne : t1 ≠ t2)
    (x y : Opd) (hx : x.ok) (hy : y.ok) (hx2 : ¬ x.reads t2) (hy1 : ¬ y.reads t1)
    (code : List Instr) (pc : Nat) (hat : HasAt code pc ((regnear t1 x).2 ++ (regnear t2 y).2))
    (s a : List P.V) (hl1 : t1 < s.length) (hl2 : t2 < s.length) (w : P.W) (fuel : Nat) :
    let n := (regnear t1 x).2.length + (regnear t2 y).2.length
    ∃ s', execX X cap code (fuel + n) ⟨s, a, pc⟩ w = execX X cap code fuel ⟨s', a, pc + n⟩ w ∧
      s'.getD (regnear t1 x).1 P.nil = opdVal X s w x ∧ s'.getD (regnear t2 y).1 P.nil = opdVal X s w y ∧ s'.length = s.length ∧
      ∀ k, k ≠ t1 → k ≠ t2 → s'.getD k P.nil = s.getD k P.nil := by
  intro n
  have hatx : HasAt code pc (regnear t1 x).2 := fun j hj => by
    have := hat j (by simp; omega)
    rwa [List.getElem_append_left hj] at this
  have haty : HasAt code (pc + (regnear t1 x).2.length) (regnear t2 y).2 := fun j hj => by
    have := hat ((regnear t1 x).2.length + j) (by simp; omega)
    rw [List.getElem_append_right (by omega)] at this
    simpa [Nat.add_assoc] using this
  obtain ⟨sa, hea, hva, hla, hfa⟩ := regnear_exec X cap t1 h1 x hx code pc hatx s a hl1 w (fuel + (regnear t2 y).2.length)
  obtain ⟨sb, heb, hvb, hlb, hfb⟩ := regnear_exec X cap t2 h2 y hy code _ haty sa a (by omega) w fuel
  refine ⟨sb, ?_, ?_, ?_, by omega, fun k hk1 hk2 => by rw [hfb k hk2, hfa k hk1]⟩
  · show execX X cap code (fuel + ((regnear t1 x).2.length + (regnear t2 y).2.length)) ⟨s, a, pc⟩ w = _
    rw [show fuel + ((regnear t1 x).2.length + (regnear t2 y).2.length) = fuel + (regnear t2 y).2.length + (regnear t1 x).2.length by omega,
      hea, heb, Nat.add_assoc]
  · -- x's register is not y's temporary
    have hrx : (regnear t1 x).1 ≠ t2 := by
      cases x <;> simp only [regnear] <;> first | exact hne | (intro h; exact hx2 h)
    rw [hfb _ hrx, hva]
  · rw [hvb]
    -- y is evaluated in `sa`, which differs from `s` only in t1, which y does not read
    have : ∀ o : Opd, ¬ o.reads t1 → opdVal X sa w o = opdVal X s w o := by
      intro o ho
      cases o <;> simp only [opdVal] <;> simp only [Opd.reads] at ho <;> exact hfa _ ho
    exact this y hy1

end JanetModel.Spec
