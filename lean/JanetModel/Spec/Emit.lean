import JanetModel.Spec.Model

/-!
C15: the instruction sequence `opreduce` / `compreduce` emit (opcodes and immediates, register numbers and operand
loads left out), and a concrete instance of `Prims` (integers, nil, booleans, tables with logging operator methods) so
that the driver can *run* `evalInline` / `evalGeneric` and be compared with the real compiler and VM.  Core Lean only.
-/

namespace JanetModel.Spec
open JanetModel.Gen.Bytecode JanetModel.Gen.Cfuns JanetModel.Bytecode.VM

/-- a compiled operand as the emitter sees it: a register, or a constant slot (with `can_slot_be_imm`) -/
inductive Operand where
  | reg
  | const (imm : Option Int)
  deriving DecidableEq, Repr

def Operand.imm : Operand → Option Int
  | .reg => none
  | .const i => i

/-- the accumulation instruction chosen for one operand -/
def emitStep (op : Op) (opim : Option Op) (a : Operand) : Op × Option Int :=
  match opim, a.imm with
  | some oi, some i => (oi, some i)
  | _, _ => (op, none)

/-- opcode (+ immediate) sequence emitted by `opreduce` -/
def emitOpreduce (special : Option (Op × Op × Int)) (op : Op) (opim : Option Op) : List Operand → List (Op × Option Int)
  | [] => []
  | [_] =>
    match special with
    | some (sop, rop, k) => if op = sop then [(rop, some k)] else [(op, none)]
    | none => [(op, none)]
  | _ :: y :: rest => emitStep op opim y :: rest.map (emitStep op opim)

/-- opcode sequence emitted by `compreduce`: comparison, conditional jump to the end after every comparison but the last -/
def emitCompreduce (op : Op) (opim : Option Op) (invert : Bool) : List Operand → List (Op × Option Int)
  | [] => []
  | [_] => []
  | _ :: rest =>
    let jmp : Op := if invert then .jumpIf else .jumpIfNot
    let rec go : List Operand → List (Op × Option Int)
      | [] => []
      | [a] => [emitStep op opim a]
      | a :: b :: more => emitStep op opim a :: (jmp, none) :: go (b :: more)
    go rest

def emitInline (r : OptRow) (args : List Operand) : Option (List (Op × Option Int)) :=
  match r.handler with
  | .opreduce op opim _ _ => some (emitOpreduce opreduceUnarySpecial op opim args)
  | .compreduce op opim invert => some (emitCompreduce op opim invert args)
  | _ => none

/-! ### concrete values for the driver -/

inductive DV where
  | int (i : Int)
  | nil
  | bool (b : Bool)
  | tab (id : String)
  | meth (name : String)
  deriving DecidableEq, Repr, Inhabited

def DV.canon : DV → String
  | .int i => toString i
  | .nil => "nil"
  | .bool b => if b then "true" else "false"
  | .tab id => "T<" ++ id ++ ">"
  | .meth m => "fn:" ++ m

def dvMethods : List String := ["+", "-", "*", "/", "div", "mod", "%", "&", "|", "^", "<<", ">>", ">>>"]

def dvLookup : DV → String → Option DV
  | .tab _, m => if dvMethods.contains m || dvMethods.any (fun x => "r" ++ x == m) then some (.meth m) else none
  | _, _ => none

def dvInvoke : DV → List DV → List String → Except String DV × List String
  | .meth m, [a, b], w =>
    let e := m ++ "(" ++ a.canon ++ "," ++ b.canon ++ ")"
    (.ok (.tab e), w ++ [e])
  | _, _, w => (.error "not-callable", w)

def dvIsNum : DV → Bool
  | .int _ => true
  | _ => false

/-- janet type order used by `janet_compare` across types: number < nil < boolean < ... -/
def dvRank : DV → Nat
  | .int _ => 0
  | .nil => 1
  | .bool _ => 2
  | .tab _ => 3
  | .meth _ => 4

def dvCompare (a b : DV) : Int :=
  match a, b with
  | .int x, .int y => if x < y then -1 else if x = y then 0 else 1
  | .bool x, .bool y => if x = y then 0 else if y then -1 else 1
  | _, _ => if dvRank a < dvRank b then -1 else if dvRank a = dvRank b then 0 else 1

def dvRel (op : Op) (c : Int) : Bool :=
  match op with
  | .lessThan => c < 0
  | .greaterThan => c > 0
  | .lessThanEqual => c ≤ 0
  | .greaterThanEqual => c ≥ 0
  | _ => false

def DP : Prims where
  V := DV
  E := String
  W := List String
  num := .int
  nil := .nil
  tru := .bool true
  fls := .bool false
  truthy := fun v => !(v == .nil || v == .bool false)
  isNil := fun v => v == .nil
  isNum := dvIsNum
  num_isNum := fun _ => rfl
  truthy_tru := by decide
  truthy_fls := by decide
  arith := fun op a b =>
    match op, a, b with
    | .add, .int x, .int y => .ok (.int (x + y))
    | .subtract, .int x, .int y => .ok (.int (x - y))
    | .multiply, .int x, .int y => .ok (.int (x * y))
    | _, _, _ => .error "unsupported"
  lookup := dvLookup
  lookup_num := by
    intro x m h
    cases x <;> simp_all [dvIsNum, dvLookup]
  invoke := dvInvoke
  noMethod := fun m _ => "E:nomethod:" ++ m
  numRel := fun op a b => dvRel op (dvCompare a b)
  cmpRel := fun op a b => dvRel op (dvCompare a b)
  eqv := fun a b => a == b
  numEq := fun a b => a == b
  eqv_num := by
    intro a i
    cases a <;> simp [dvIsNum]
  other := fun _ _ _ w => (.error "unsupported", w)
  unary := fun _ _ w => (.error "unsupported", w)
  getIndex := fun _ _ w => (.error "unsupported", w)
  put3 := fun _ _ _ w => (.error "unsupported", w)
  signal := fun _ _ w => (.error "unsupported", w)
  raise := fun _ => "raised"

end JanetModel.Spec
