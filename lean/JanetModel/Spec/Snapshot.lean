import JanetModel.Spec.VariadicEmit

/-!
C15: `opreduce` after `fix: variadic arithmetic reads its variable operands before the first step` - operands from the third on whose slot
has `JANET_SLOT_MUTABLE` are first copied into fresh registers (`janetc_farslot` + `janetc_copy` = `movn fresh r`), then the chain is
emitted over the replaced operand list.

The chain is run on an interpreter `stepH` / `execH` in which every instruction that can call an operator method (the generic SSS / SSI
case of `step`) may, through the oracle `hv`, CHANGE THE CALLER'S SLOTS before its result is stored: that is what a method does when it
assigns a `var` the running function shares with a closure.  The oracle is only limited to the assignable slots `asg` (a slot without
`JANET_SLOT_MUTABLE`, and a fresh temporary, is never the destination of a `set`).  Core Lean only.
-/

namespace JanetModel.Spec
open JanetModel.Gen.Bytecode JanetModel.Gen.Cfuns JanetModel.Bytecode.VM

/-- a compiled register / immediate operand of `opreduce` with its `JANET_SLOT_MUTABLE` flag -/
inductive MArg where
  | reg (r : Nat) (mutable : Bool)
  | imm (i : Int)
  deriving DecidableEq, Repr

def MArg.plain : MArg → RArg
  | .reg r _ => .reg r
  | .imm i => .imm i

/-- number of snapshots taken -/
def nmut : List MArg → Nat
  | [] => 0
  | .reg _ true :: as => nmut as + 1
  | .reg _ false :: as => nmut as
  | .imm _ :: as => nmut as

/-- the snapshot loop of `opreduce` over `args[2..]`: `if (args[i].flags & JANET_SLOT_MUTABLE) { snapshot = janetc_farslot(c);
    janetc_copy(c, snapshot, args[i]); args[i] = snapshot; }` with `free` the next register `janetc_farslot` hands out:
    (moves emitted, operand list afterwards) -/
def snapshotArgs : Nat → List MArg → List Instr × List RArg
  | _, [] => ([], [])
  | free, .reg r true :: as => (mkAE .moveNear free r :: (snapshotArgs (free + 1) as).1, .reg free :: (snapshotArgs (free + 1) as).2)
  | free, .reg r false :: as => ((snapshotArgs free as).1, .reg r :: (snapshotArgs free as).2)
  | free, .imm i :: as => ((snapshotArgs free as).1, .imm i :: (snapshotArgs free as).2)

/-- `opreduce` for `args = a0 :: y :: rest` (post-fix body): snapshot moves, then the chain over the replaced operands -/
def emitOpreduceSnap (op : Op) (opim : Option Op) (free t a0 : Nat) (y : RArg) (rest : List MArg) : List Instr :=
  (snapshotArgs free rest).1 ++ emitOpreduceCode op opim t a0 y (snapshotArgs free rest).2

theorem snapshot_moves_length (rest : List MArg) : ∀ free, (snapshotArgs free rest).1.length = nmut rest := by
  induction rest with
  | nil => intro free; rfl
  | cons a as ih =>
    intro free
    cases a with
    | reg r m => cases m <;> simp [snapshotArgs, nmut, ih]
    | imm i => simp [snapshotArgs, nmut, ih]

theorem snapshot_out_length (rest : List MArg) : ∀ free, (snapshotArgs free rest).2.length = rest.length := by
  induction rest with
  | nil => intro free; rfl
  | cons a as ih =>
    intro free
    cases a with
    | reg r m => cases m <;> simp [snapshotArgs, ih]
    | imm i => simp [snapshotArgs, ih]

/-- what holds of the untouched operands and of the fresh registers holds of every operand after the loop -/
theorem snapshot_out_forall (Q : RArg → Prop) (rest : List MArg) : ∀ free,
    (∀ r, MArg.reg r false ∈ rest → Q (.reg r)) → (∀ i, MArg.imm i ∈ rest → Q (.imm i)) →
    (∀ k, free ≤ k → k < free + nmut rest → Q (.reg k)) → ∀ b ∈ (snapshotArgs free rest).2, Q b := by
  induction rest with
  | nil => intro free _ _ _ b hb; simp [snapshotArgs] at hb
  | cons a as ih =>
    intro free h1 h2 h3 b hb
    cases a with
    | reg r m =>
      cases m with
      | true =>
        simp only [snapshotArgs, List.mem_cons] at hb
        rcases hb with rfl | hb
        · exact h3 free (Nat.le_refl _) (by simp only [nmut]; omega)
        · exact ih (free + 1) (fun r' h => h1 r' (List.mem_cons_of_mem _ h)) (fun i h => h2 i (List.mem_cons_of_mem _ h))
            (fun k hk1 hk2 => h3 k (by omega) (by simp only [nmut]; omega)) b hb
      | false =>
        simp only [snapshotArgs, List.mem_cons] at hb
        rcases hb with rfl | hb
        · exact h1 r List.mem_cons_self
        · exact ih free (fun r' h => h1 r' (List.mem_cons_of_mem _ h)) (fun i h => h2 i (List.mem_cons_of_mem _ h))
            (fun k hk1 hk2 => h3 k hk1 (by simpa only [nmut] using hk2)) b hb
    | imm i =>
      simp only [snapshotArgs, List.mem_cons] at hb
      rcases hb with rfl | hb
      · exact h2 i List.mem_cons_self
      · exact ih free (fun r' h => h1 r' (List.mem_cons_of_mem _ h)) (fun i' h => h2 i' (List.mem_cons_of_mem _ h))
          (fun k hk1 hk2 => h3 k hk1 (by simpa only [nmut] using hk2)) b hb

variable (P : Prims)

/-! ### the interpreter in which an operator method may assign the caller's variables -/

/-- opcodes `step` treats before its generic SSS / SSI case: none of them runs janet code -/
def explicitOp : Op → Bool
  | .noop | .return | .returnNil | .loadNil | .loadTrue | .loadFalse | .loadInteger | .moveNear | .moveFar | .jump | .jumpIf | .jumpIfNot
  | .jumpIfNil | .jumpIfNotNil | .length | .bnot | .put | .signal | .error | .getIndex => true
  | _ => false

/-- finish an instruction that may have called out: the oracle `hv` - given the world the call left - rewrites the frame's slots, THEN the
    result is stored in register `a` (vm.c: `stack[A] = janet_binop_call(...)`; `stack` is re-read after the call) -/
def afterCall (hv : P.W → List P.V → List P.V) (f : Frame P) (a : Nat) (m : M P P.V) : M P (Step P) := fun w =>
  match m w with
  | (.ok v, w') => (.ok (.cont ⟨(hv w' f.slots).set a v, f.pc + 1⟩), w')
  | (.error e, w') => (.error e, w')

/-- `step`, with the oracle applied in the generic SSS / SSI case -/
def stepH (hv : P.W → List P.V → List P.V) (i : Instr) (f : Frame P) : Option (M P (Step P)) :=
  if explicitOp i.op then step P i f else
  match immBase i.op with
  | some _ => some (afterCall P hv f i.A (immop P i.op (getSlot P f i.B) i.CS))
  | none =>
    match Op.itype i.op with
    | .sss => some (afterCall P hv f i.A (binop P i.op (getSlot P f i.B) (getSlot P f i.C)))
    | _ => none

def execH (hv : P.W → List P.V → List P.V) (code : List Instr) : Nat → Frame P → P.W → Option (Except P.E P.V × P.W)
  | 0, _, _ => none
  | fuel + 1, f, w =>
    match code[f.pc]? with
    | none => none
    | some i =>
      match stepH P hv i f with
      | none => none
      | some m =>
        match m w with
        | (.error e, w') => some (.error e, w')
        | (.ok (.ret v), w') => some (.ok v, w')
        | (.ok (.cont g), w') => execH hv code fuel g w'

/-- with the oracle that changes nothing, `afterCall` is the continuation `step` uses -/
theorem afterCall_id (f : Frame P) (a : Nat) (m : M P P.V) :
    afterCall P (fun _ s => s) f a m = M.bind m fun v => cont' P (next P (setSlot P f a v)) := by
  funext w
  simp only [afterCall, M.bind]
  rcases m w with ⟨(_ | _), _⟩ <;> rfl

/-- the oracle is limited to the assignable slots and keeps the frame size -/
def Respects (hv : P.W → List P.V → List P.V) (asg : Nat → Bool) : Prop :=
  ∀ w s, (hv w s).length = s.length ∧ ∀ k, asg k = false → (hv w s).getD k P.nil = s.getD k P.nil

/-- `op` / `oi` reach the generic three-register / immediate case -/
def IsCallOp (op : Op) : Prop := explicitOp op = false ∧ immBase op = none ∧ Op.itype op = .sss
def IsCallImm (oi : Op) : Prop := explicitOp oi = false ∧ ∃ b, immBase oi = some b

theorem execH_call_err (hv : P.W → List P.V → List P.V) (code : List Instr) (k : Nat) (f : Frame P) (w : P.W) (i : Instr) (a : Nat)
    (m : M P P.V) (hc : code[f.pc]? = some i) (hs : stepH P hv i f = some (afterCall P hv f a m)) (e : P.E) (w' : P.W)
    (hm : m w = (.error e, w')) : execH P hv code (k + 1) f w = some (.error e, w') := by
  simp only [execH, hc, hs, afterCall, hm]

theorem execH_call_ok (hv : P.W → List P.V → List P.V) (code : List Instr) (k : Nat) (f : Frame P) (w : P.W) (i : Instr) (a : Nat)
    (m : M P P.V) (hc : code[f.pc]? = some i) (hs : stepH P hv i f = some (afterCall P hv f a m)) (v : P.V) (w' : P.W)
    (hm : m w = (.ok v, w')) : execH P hv code (k + 1) f w = execH P hv code k ⟨(hv w' f.slots).set a v, f.pc + 1⟩ w' := by
  simp only [execH, hc, hs, afterCall, hm]

theorem execH_move (hv : P.W → List P.V → List P.V) (code : List Instr) (k : Nat) (s : List P.V) (pc d r : Nat) (w : P.W)
    (hd : d < 256) (hr : r < 65536) (hc : code[pc]? = some (mkAE .moveNear d r)) :
    execH P hv code (k + 1) ⟨s, pc⟩ w = execH P hv code k ⟨s.set d (s.getD r P.nil), pc + 1⟩ w := by
  have hs : stepH P hv (mkAE .moveNear d r) ⟨s, pc⟩ = some (cont' P ⟨s.set d (s.getD r P.nil), pc + 1⟩) := by
    simp only [stepH, mkAE_op, explicitOp, if_true]
    rw [stepc_moveNear]
    simp only [getSlot, setSlot, next, mkAE_A _ d r hd, mkAE_E _ d r hd hr]
  simp only [execH, hc, hs, cont', M.pure]

/-- one accumulation instruction: the operands are read, the method (if any) runs and may assign, the result is stored -/
theorem acc_stepH (hv : P.W → List P.V → List P.V) (op : Op) (opim : Option Op) (hop : IsCallOp op)
    (himm : ∀ oi, opim = some oi → IsCallImm oi) (s : List P.V) (pc t acc : Nat) (a : RArg) (ht : t < 256) (hacc : acc < 256)
    (ha : a.ok opim) :
    stepH P hv (accInstr op opim t acc a) ⟨s, pc⟩ =
      some (afterCall P hv ⟨s, pc⟩ t (stepInline P op opim (s.getD acc P.nil) (argOf P s a))) := by
  cases a with
  | reg r =>
    have hr : r < 256 := ha
    simp only [accInstr, stepH, mkABC_op, hop.1, hop.2.1, hop.2.2, Bool.false_eq_true, if_false, getSlot,
      mkABC_A _ t acc r ht, mkABC_B _ t acc r ht hacc, mkABC_C _ t acc r ht hacc hr, argOf, stepInline]
  | imm i =>
    obtain ⟨hsome, hi⟩ := ha
    cases opim with
    | none => simp at hsome
    | some oi =>
      obtain ⟨h1, b, hb⟩ := himm oi rfl
      simp only [accInstr, stepH, mkABI_op, h1, hb, Bool.false_eq_true, if_false, getSlot,
        mkABI_A _ t acc i ht, mkABI_B _ t acc i ht hacc, mkABI_CS _ t acc i ht hacc hi, argOf, stepInline]

/-- the operand cannot be assigned by a method -/
def RArg.immune (asg : Nat → Bool) : RArg → Prop
  | .reg r => asg r = false
  | .imm _ => True

/-- run `n` instructions from `⟨s, pc⟩`: an error of `m` is the error of the run; a value `v` of `m` leaves the run at `pc'` in SOME frame
    related to `v` by `Q` (the frame depends on what the methods assigned) -/
def ComputesH (hv : P.W → List P.V → List P.V) (code : List Instr) (s : List P.V) (pc n : Nat) (m : M P P.V)
    (Q : P.V → List P.V → Prop) (pc' : Nat) : Prop :=
  ∀ w, (∀ e w', m w = (.error e, w') → ∀ fuel, execH P hv code (fuel + n) ⟨s, pc⟩ w = some (.error e, w')) ∧
       (∀ v w', m w = (.ok v, w') → ∃ s', Q v s' ∧
          ∀ fuel r, execH P hv code fuel ⟨s', pc'⟩ w' = some r → execH P hv code (fuel + n) ⟨s, pc⟩ w = some r)

/-- the frame after the chain: the value in the target; every slot a method cannot assign, other than the target, as before -/
def Post (asg : Nat → Bool) (t : Nat) (s : List P.V) (v : P.V) (s' : List P.V) : Prop :=
  s'.length = s.length ∧ s'.getD t P.nil = v ∧ ∀ k, asg k = false → k ≠ t → s'.getD k P.nil = s.getD k P.nil

theorem argOf_after (hv : P.W → List P.V → List P.V) (asg : Nat → Bool) (hresp : Respects P hv asg) (s : List P.V) (t : Nat) (v : P.V)
    (w : P.W) (a : RArg) (h : a.avoids t) (hi : a.immune asg) : argOf P ((hv w s).set t v) a = argOf P s a := by
  cases a with
  | reg r => simp only [argOf, getD_set_ne P _ t r v h, (hresp w s).2 r hi]
  | imm i => rfl

theorem post_after (hv : P.W → List P.V → List P.V) (asg : Nat → Bool) (hresp : Respects P hv asg) (s : List P.V) (t : Nat) (v u : P.V)
    (w : P.W) (s' : List P.V) (h : Post P asg t ((hv w s).set t v) u s') : Post P asg t s u s' := by
  obtain ⟨h1, h2, h3⟩ := h
  refine ⟨by rw [h1, List.length_set, (hresp w s).1], h2, fun k hk hkt => ?_⟩
  rw [h3 k hk hkt, getD_set_ne P _ t k v hkt, (hresp w s).2 k hk]

/-- the accumulation loop under assigning methods -/
theorem fold_chain_computesH (hv : P.W → List P.V → List P.V) (asg : Nat → Bool) (hresp : Respects P hv asg)
    (op : Op) (opim : Option Op) (hop : IsCallOp op) (himm : ∀ oi, opim = some oi → IsCallImm oi)
    (code : List Instr) (t : Nat) (ht : t < 256) (rest : List RArg) (hok : ∀ a ∈ rest, a.ok opim) (hav : ∀ a ∈ rest, a.avoids t)
    (him : ∀ a ∈ rest, a.immune asg)
    (s : List P.V) (hlen : t < s.length) (pc : Nat) (hat : HasAt code pc (rest.map (accInstr op opim t t))) :
    ComputesH P hv code s pc rest.length (M.foldl (stepInline P op opim) (s.getD t P.nil) (rest.map (argOf P s))) (Post P asg t s)
      (pc + rest.length) := by
  induction rest generalizing s pc with
  | nil =>
    intro w
    simp only [List.map_nil, M.foldl, M.pure, List.length_nil, Nat.add_zero]
    refine ⟨fun e w' hm => by simp at hm, fun v w' hm => ?_⟩
    simp only [Prod.mk.injEq, Except.ok.injEq] at hm
    obtain ⟨rfl, rfl⟩ := hm
    exact ⟨s, ⟨rfl, rfl, fun _ _ _ => rfl⟩, fun fuel r hr => hr⟩
  | cons a rest ih =>
    intro w
    have hc : code[(⟨s, pc⟩ : Frame P).pc]? = some (accInstr op opim t t a) := hat.head
    have hs := acc_stepH P hv op opim hop himm s pc t t a ht ht (hok a List.mem_cons_self)
    simp only [List.map_cons, M.foldl, List.length_cons, M.bind]
    cases hb : stepInline P op opim (s.getD t P.nil) (argOf P s a) w with
    | mk res w1 =>
      cases res with
      | error e =>
        refine ⟨fun e' w' hm fuel => ?_, fun v w' hm => by simp at hm⟩
        simp only [Prod.mk.injEq, Except.error.injEq] at hm
        obtain ⟨rfl, rfl⟩ := hm
        rw [show fuel + (rest.length + 1) = (fuel + rest.length) + 1 by omega]
        exact execH_call_err P hv code _ ⟨s, pc⟩ w _ t _ hc hs e w1 hb
      | ok v =>
        dsimp only
        have hlen1 : t < (hv w1 s).length := by rw [(hresp w1 s).1]; exact hlen
        have ih' := ih (fun b hb' => hok b (List.mem_cons_of_mem _ hb')) (fun b hb' => hav b (List.mem_cons_of_mem _ hb'))
          (fun b hb' => him b (List.mem_cons_of_mem _ hb')) ((hv w1 s).set t v) (by simpa using hlen1) (pc + 1) hat.tail w1
        rw [getD_set_self P _ t v hlen1] at ih'
        have hmap : rest.map (argOf P ((hv w1 s).set t v)) = rest.map (argOf P s) :=
          List.map_congr_left (fun b hb' => argOf_after P hv asg hresp s t v w1 b (hav b (List.mem_cons_of_mem _ hb'))
            (him b (List.mem_cons_of_mem _ hb')))
        rw [hmap] at ih'
        have hstep : ∀ k, execH P hv code (k + 1) ⟨s, pc⟩ w = execH P hv code k ⟨(hv w1 s).set t v, pc + 1⟩ w1 :=
          fun k => execH_call_ok P hv code k ⟨s, pc⟩ w _ t _ hc hs v w1 hb
        refine ⟨fun e w' hm fuel => ?_, fun u w' hm => ?_⟩
        · rw [show fuel + (rest.length + 1) = (fuel + rest.length) + 1 by omega, hstep]
          exact ih'.1 e w' hm fuel
        · obtain ⟨s', hq, hex⟩ := ih'.2 u w' hm
          refine ⟨s', post_after P hv asg hresp s t v u w1 s' hq, fun fuel r hr => ?_⟩
          rw [show fuel + (rest.length + 1) = (fuel + rest.length) + 1 by omega, hstep]
          exact hex fuel r (by rw [show pc + 1 + rest.length = pc + (rest.length + 1) by omega]; exact hr)

/-- the chain `op(im) t a0 y ; op(im) t t r2 ; ...` under assigning methods: it computes `evalOpreduce` on the operands' values AT ENTRY,
    provided the operands from the third on cannot be assigned (and do not live in the target) -/
theorem opreduce_chain_computesH (hv : P.W → List P.V → List P.V) (asg : Nat → Bool) (hresp : Respects P hv asg)
    (special : Option (Op × Op × Int)) (op : Op) (opim : Option Op) (nullary unary : Const)
    (hop : IsCallOp op) (himm : ∀ oi, opim = some oi → IsCallImm oi)
    (code : List Instr) (s : List P.V) (pc t a0 : Nat) (y : RArg) (rest : List RArg)
    (ht : t < 256) (h0 : a0 < 256) (hy : y.ok opim) (hok : ∀ a ∈ rest, a.ok opim) (hav : ∀ a ∈ rest, a.avoids t)
    (him : ∀ a ∈ rest, a.immune asg) (hlen : t < s.length)
    (hat : HasAt code pc (emitOpreduceCode op opim t a0 y rest)) :
    ComputesH P hv code s pc (rest.length + 1)
      (evalOpreduce P special op opim nullary unary ((⟨s.getD a0 P.nil, none⟩ : Arg P) :: argOf P s y :: rest.map (argOf P s)))
      (Post P asg t s) (pc + (rest.length + 1)) := by
  intro w
  have hc : code[(⟨s, pc⟩ : Frame P).pc]? = some (accInstr op opim t a0 y) := hat.head
  have hs := acc_stepH P hv op opim hop himm s pc t a0 y ht h0 hy
  simp only [evalOpreduce, M.bind]
  cases hb : stepInline P op opim (s.getD a0 P.nil) (argOf P s y) w with
  | mk res w1 =>
    cases res with
    | error e =>
      refine ⟨fun e' w' hm fuel => ?_, fun v w' hm => by simp at hm⟩
      simp only [Prod.mk.injEq, Except.error.injEq] at hm
      obtain ⟨rfl, rfl⟩ := hm
      rw [show fuel + (rest.length + 1) = (fuel + rest.length) + 1 by omega]
      exact execH_call_err P hv code _ ⟨s, pc⟩ w _ t _ hc hs e w1 hb
    | ok v =>
      dsimp only
      have hlen1 : t < (hv w1 s).length := by rw [(hresp w1 s).1]; exact hlen
      have hf := fold_chain_computesH P hv asg hresp op opim hop himm code t ht rest hok hav him ((hv w1 s).set t v)
        (by simpa using hlen1) (pc + 1) hat.tail w1
      rw [getD_set_self P _ t v hlen1] at hf
      have hmap : rest.map (argOf P ((hv w1 s).set t v)) = rest.map (argOf P s) :=
        List.map_congr_left (fun b hb' => argOf_after P hv asg hresp s t v w1 b (hav b hb') (him b hb'))
      rw [hmap] at hf
      have hstep : ∀ k, execH P hv code (k + 1) ⟨s, pc⟩ w = execH P hv code k ⟨(hv w1 s).set t v, pc + 1⟩ w1 :=
        fun k => execH_call_ok P hv code k ⟨s, pc⟩ w _ t _ hc hs v w1 hb
      refine ⟨fun e w' hm fuel => ?_, fun u w' hm => ?_⟩
      · rw [show fuel + (rest.length + 1) = (fuel + rest.length) + 1 by omega, hstep]
        exact hf.1 e w' hm fuel
      · obtain ⟨s', hq, hex⟩ := hf.2 u w' hm
        refine ⟨s', post_after P hv asg hresp s t v u w1 s' hq, fun fuel r hr => ?_⟩
        rw [show fuel + (rest.length + 1) = (fuel + rest.length) + 1 by omega, hstep]
        exact hex fuel r (by rw [show pc + 1 + rest.length = pc + (rest.length + 1) by omega]; exact hr)

/-- the snapshot moves: they run without calling out, write only the fresh registers `free ..< free + nmut rest`, and afterwards every
    operand of the replaced list holds the value the original operand had at entry -/
theorem snapshot_moves_exec (hv : P.W → List P.V → List P.V) (code : List Instr) (rest : List MArg) :
    ∀ (s : List P.V) (pc free : Nat), (∀ r m, MArg.reg r m ∈ rest → r < free) → free + nmut rest ≤ 256 → free + nmut rest ≤ s.length →
      HasAt code pc (snapshotArgs free rest).1 →
      ∃ s1 : List P.V, s1.length = s.length ∧ (∀ k, (k < free ∨ free + nmut rest ≤ k) → s1.getD k P.nil = s.getD k P.nil) ∧
        (snapshotArgs free rest).2.map (argOf P s1) = rest.map (fun a => argOf P s a.plain) ∧
        ∀ w fuel r, execH P hv code fuel ⟨s1, pc + nmut rest⟩ w = some r → execH P hv code (fuel + nmut rest) ⟨s, pc⟩ w = some r := by
  induction rest with
  | nil =>
    intro s pc free _ _ _ _
    exact ⟨s, rfl, fun _ _ => rfl, rfl, fun w fuel r hr => hr⟩
  | cons a as ih =>
    intro s pc free hb h256 hlen hat
    have hbt : ∀ r m, MArg.reg r m ∈ as → r < free := fun r m h => hb r m (List.mem_cons_of_mem _ h)
    have hcongr : ∀ (s1 : List P.V), (∀ k, k < free → s1.getD k P.nil = s.getD k P.nil) →
        as.map (fun a => argOf P s1 a.plain) = as.map (fun a => argOf P s a.plain) := by
      intro s1 h1
      apply List.map_congr_left
      intro b hbm
      cases b with
      | reg r m => simp only [MArg.plain, argOf, h1 r (hbt r m hbm)]
      | imm i => rfl
    cases a with
    | reg r m =>
      have hr : r < free := hb r m List.mem_cons_self
      cases m with
      | true =>
        simp only [nmut] at h256 hlen
        simp only [snapshotArgs] at hat
        have hfl : free < s.length := by omega
        obtain ⟨s1, hl1, hsame, hvals, hex⟩ := ih (s.set free (s.getD r P.nil)) (pc + 1) (free + 1)
          (fun r' m' h => Nat.lt_succ_of_lt (hbt r' m' h)) (by omega) (by simp only [List.length_set]; omega) hat.tail
        have hbelow : ∀ k, k < free → s1.getD k P.nil = s.getD k P.nil := fun k hk => by
          rw [hsame k (Or.inl (by omega)), getD_set_ne P s free k _ (by omega)]
        refine ⟨s1, by rw [hl1, List.length_set], fun k hk => ?_, ?_, fun w fuel res hres => ?_⟩
        · simp only [nmut] at hk
          rw [hsame k (by omega), getD_set_ne P s free k _ (by omega)]
        · simp only [snapshotArgs, List.map_cons, MArg.plain]
          rw [hvals, hcongr _ (fun k hk => getD_set_ne P s free k _ (by omega))]
          congr 1
          simp only [argOf]
          rw [hsame free (Or.inl (by omega)), getD_set_self P s free _ hfl]
        · simp only [nmut]
          rw [show fuel + (nmut as + 1) = (fuel + nmut as) + 1 by omega,
            execH_move P hv code _ s pc free r w (by omega) (by omega) hat.head]
          exact hex w fuel res (by rw [show pc + 1 + nmut as = pc + (nmut as + 1) by omega]; exact hres)
      | false =>
        simp only [nmut] at h256 hlen
        simp only [snapshotArgs] at hat
        obtain ⟨s1, hl1, hsame, hvals, hex⟩ := ih s pc free hbt h256 hlen hat
        refine ⟨s1, hl1, fun k hk => hsame k (by simpa only [nmut] using hk), ?_, fun w fuel res hres => ?_⟩
        · simp only [snapshotArgs, List.map_cons, MArg.plain]
          rw [hvals]
          congr 1
          simp only [argOf, hsame r (Or.inl hr)]
        · simp only [nmut]
          exact hex w fuel res (by simpa only [nmut] using hres)
    | imm i =>
      simp only [nmut] at h256 hlen
      simp only [snapshotArgs] at hat
      obtain ⟨s1, hl1, hsame, hvals, hex⟩ := ih s pc free hbt h256 hlen hat
      refine ⟨s1, hl1, fun k hk => hsame k (by simpa only [nmut] using hk), ?_, fun w fuel res hres => ?_⟩
      · simp only [snapshotArgs, List.map_cons, MArg.plain]
        rw [hvals]
        rfl
      · simp only [nmut]
        exact hex w fuel res (by simpa only [nmut] using hres)

theorem HasAt.left {code : List Instr} {pc : Nat} {a b : List Instr} (h : HasAt code pc (a ++ b)) : HasAt code pc a := by
  intro j hj
  have := h j (by simp only [List.length_append]; omega)
  rw [this, List.getElem_append_left hj]

theorem HasAt.right {code : List Instr} {pc : Nat} {a b : List Instr} (h : HasAt code pc (a ++ b)) : HasAt code (pc + a.length) b := by
  intro j hj
  have := h (a.length + j) (by simp only [List.length_append]; omega)
  rw [← Nat.add_assoc] at this
  rw [this, List.getElem_append_right (by omega)]
  simp

/-- ★ the code `opreduce` emits since the snapshot fix - `movn fresh r` for every MUTABLE operand from the third on, then the chain over
    the replaced operands - computes the value-level model `evalOpreduce` on the values the operands had AT ENTRY, in an interpreter in
    which every method call of the chain may assign any assignable slot (`asg`) of the running frame: no hypothesis says that methods
    leave the later operands alone.  What is assumed of `asg` is a fact of the compiler, not of the program: a slot without
    `JANET_SLOT_MUTABLE` is never assigned (`himmune`), nor is a fresh temporary (`hfresh`).  The first two operands, the target, and the
    `var`s behind the snapshotted operands may all be assigned by the methods.  Register allocation: the fresh registers are
    `free ..< free + nmut rest`, above the operands, and the target is not one of them. -/
theorem opreduce_snapshot_chain_computes (hv : P.W → List P.V → List P.V) (asg : Nat → Bool) (hresp : Respects P hv asg)
    (special : Option (Op × Op × Int)) (op : Op) (opim : Option Op) (nullary unary : Const)
    (hop : IsCallOp op) (himm : ∀ oi, opim = some oi → IsCallImm oi)
    (code : List Instr) (s : List P.V) (pc free t a0 : Nat) (y : RArg) (rest : List MArg)
    (ht : t < 256) (h0 : a0 < free) (hy : y.ok opim) (hyb : ∀ r, y = .reg r → r < free)
    (hok : ∀ a ∈ rest, a.plain.ok opim) (hbelow : ∀ r m, MArg.reg r m ∈ rest → r < free)
    (hav : ∀ r, MArg.reg r false ∈ rest → r ≠ t)
    (himmune : ∀ r, MArg.reg r false ∈ rest → asg r = false)
    (hfresh : ∀ k, free ≤ k → k < free + nmut rest → asg k = false ∧ k ≠ t)
    (h256 : free + nmut rest ≤ 256) (hslots : free + nmut rest ≤ s.length) (hlen : t < s.length)
    (hat : HasAt code pc (emitOpreduceSnap op opim free t a0 y rest)) :
    ComputesH P hv code s pc (nmut rest + (rest.length + 1))
      (evalOpreduce P special op opim nullary unary
        ((⟨s.getD a0 P.nil, none⟩ : Arg P) :: argOf P s y :: rest.map (fun a => argOf P s a.plain)))
      (fun v s' => s'.length = s.length ∧ s'.getD t P.nil = v ∧
        ∀ k, asg k = false → k ≠ t → (k < free ∨ free + nmut rest ≤ k) → s'.getD k P.nil = s.getD k P.nil)
      (pc + (nmut rest + (rest.length + 1))) := by
  obtain ⟨s1, hl1, hsame, hvals, hex⟩ := snapshot_moves_exec P hv code rest s pc free hbelow h256 hslots hat.left
  have hat2 : HasAt code (pc + nmut rest) (emitOpreduceCode op opim t a0 y (snapshotArgs free rest).2) := by
    have := hat.right
    rwa [snapshot_moves_length] at this
  have hprops : ∀ b ∈ (snapshotArgs free rest).2, b.ok opim ∧ b.avoids t ∧ b.immune asg :=
    snapshot_out_forall (fun b => b.ok opim ∧ b.avoids t ∧ b.immune asg) rest free
      (fun r h => ⟨hok _ h, hav r h, himmune r h⟩) (fun i h => ⟨hok _ h, trivial, trivial⟩)
      (fun k hk1 hk2 => ⟨(by show k < 256; omega), (hfresh k hk1 hk2).2, (hfresh k hk1 hk2).1⟩)
  have hch := opreduce_chain_computesH P hv asg hresp special op opim nullary unary hop himm code s1 (pc + nmut rest) t a0 y
    (snapshotArgs free rest).2 ht (by omega) hy (fun b hb => (hprops b hb).1) (fun b hb => (hprops b hb).2.1)
    (fun b hb => (hprops b hb).2.2) (by rw [hl1]; exact hlen) hat2
  rw [hvals, hsame a0 (Or.inl h0), snapshot_out_length] at hch
  have hyv : argOf P s1 y = argOf P s y := by
    cases y with
    | reg r => simp only [argOf, hsame r (Or.inl (hyb r rfl))]
    | imm i => rfl
  rw [hyv] at hch
  intro w
  refine ⟨fun e w' hm fuel => ?_, fun v w' hm => ?_⟩
  · have := (hch w).1 e w' hm fuel
    rw [show fuel + (nmut rest + (rest.length + 1)) = (fuel + (rest.length + 1)) + nmut rest by omega]
    exact hex w _ _ this
  · obtain ⟨s', ⟨hq1, hq2, hq3⟩, hrun⟩ := (hch w).2 v w' hm
    refine ⟨s', ⟨by rw [hq1, hl1], hq2, fun k hk hkt hrange => by rw [hq3 k hk hkt, hsame k hrange]⟩, fun fuel r hr => ?_⟩
    rw [show fuel + (nmut rest + (rest.length + 1)) = (fuel + (rest.length + 1)) + nmut rest by omega]
    refine hex w _ _ (hrun fuel r ?_)
    rw [show pc + nmut rest + (rest.length + 1) = pc + (nmut rest + (rest.length + 1)) by omega]
    exact hr

/-! ### the two interpreters, and the rows of `optimizers[]` -/

/-- ★ with the oracle that changes nothing, `stepH` IS `step`: the interpreter of this file extends the one every other C15 theorem runs on -/
theorem stepH_id (i : Instr) (f : Frame P) : stepH P (fun _ s => s) i f = step P i f := by
  obtain ⟨op, bits⟩ := i
  cases op <;> simp [stepH, explicitOp, step, immBase, Op.itype, afterCall_id, cont']

theorem execH_id (code : List Instr) (k : Nat) (f : Frame P) (w : P.W) : execH P (fun _ s => s) code k f w = exec P code k f w := by
  induction k generalizing f w with
  | zero => rfl
  | succ k ih =>
    simp only [execH, exec, stepH_id]
    cases code[f.pc]? with
    | none => rfl
    | some i =>
      dsimp only
      cases step P i f with
      | none => rfl
      | some m =>
        dsimp only
        rcases m w with ⟨(_ | (_ | _)), _⟩ <;> simp [ih]

/-- the opcodes of the variadic rows reach the generic three-register case -/
theorem isCallOp_of_mem (op : Op) (h : op ∈ templateOps) : IsCallOp op := by
  simp only [templateOps, List.mem_cons, List.mem_nil_iff, or_false] at h
  rcases h with rfl | rfl | rfl | rfl | rfl | rfl | rfl | rfl | rfl | rfl | rfl | rfl | rfl | rfl | rfl | rfl | rfl | rfl | rfl <;>
    exact ⟨rfl, rfl, rfl⟩

/-- an immediate opcode reaches the generic immediate case -/
theorem isCallImm_of_base (oi op : Op) (h : immBase oi = some op) : IsCallImm oi := by
  refine ⟨?_, op, h⟩
  cases oi <;> first | rfl | (exfalso; simp [immBase] at h; done)

end JanetModel.Spec
