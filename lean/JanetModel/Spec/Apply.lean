import JanetModel.Bytecode.VMCall
import JanetModel.Spec.Template

/-!
C15: `apply`.  The specialised code (`do_apply` of cfuns.c: push the leading arguments in groups of three / two / one,
`JOP_PUSH_ARRAY` the last, `JOP_CALL` or `JOP_TAILCALL`) against the generic function `make_apply` assembles
(corelib.c `apply_asm[]`), both run by the full interpreter `VM.execX`; and the generic call sequence of compile.c
(`janetc_pushslots` with spliced slots + `JOP_CALL` / `JOP_TAILCALL`), which is what a call with a splice always uses.
Core Lean only.
-/

namespace JanetModel.Spec
open JanetModel.Gen.Bytecode JanetModel.Gen.Cfuns JanetModel.Bytecode.VM

/-- `apply_asm[]` of `make_apply` -/
def applyCode : List Instr := [
  mkAE .length 2 1,
  mkABI .equalsImmediate 3 2 0,
  mkAI .jumpIf 3 9,
  mkAI .loadInteger 4 0,
  mkABC .in 5 1 4,
  mkABI .addImmediate 4 4 1,
  mkABC .equals 3 4 2,
  mkAI .jumpIf 3 3,
  mkD .push 5,
  mkD .jump 16777211,
  mkD .pushArray 5,
  mkD .tailcall 0]

/-- push phase of `do_apply` over the registers of the leading arguments:
    `for (i = 1; i < n - 3; i += 3) PUSH_3;  if (i == n - 3) PUSH_2  else if (i == n - 2) PUSH` -/
def pushLeading : List Nat → List Instr
  | a :: b :: c :: rest => mkABC .push3 a b c :: pushLeading rest
  | [a, b] => [mkAE .push2 a b]
  | [a] => [mkD .push a]
  | [] => []

/-- the whole of `do_apply`: push phase, push-array phase, call phase (`tail` = `opts.flags & JANET_FOPTS_TAIL`) -/
def emitApply (f : Nat) (lead : List Nat) (last : Nat) (tail : Option Nat) : List Instr :=
  pushLeading lead ++ [mkD .pushArray last, match tail with | none => mkD .tailcall f | some target => mkAE .call target f]

variable {P : Prims}

/-- what `apply` means: call `f` on the leading arguments followed by the elements of the last one, which must be indexed -/
def applySem (X : CallPrims P) (f : P.V) (lead : List P.V) (last : P.V) (vw : Nat → Option P.V) :
    M P (P.V × (Nat → Option P.V)) :=
  match X.indexedView last with
  | none => M.throw (X.notIndexed last)
  | some l => X.call f (lead ++ l) vw

/-- result of a run that ends with the value of a call -/
def retOf (r : Except P.E (P.V × (Nat → Option P.V)) × P.W) : Except P.E P.V × P.W :=
  match r with
  | (.error e, w) => (.error e, w)
  | (.ok p, w) => (.ok p.1, w)

/-- `seg` sits in `code` at index `pc` -/
def HasAt (code : List Instr) (pc : Nat) (seg : List Instr) : Prop := ∀ j (h : j < seg.length), code[pc + j]? = some seg[j]

theorem HasAt.head {code : List Instr} {pc : Nat} {x : Instr} {seg : List Instr} (h : HasAt code pc (x :: seg)) : code[pc]? = some x := by
  have := h 0 (by simp)
  simpa using this

theorem HasAt.tail {code : List Instr} {pc : Nat} {x : Instr} {seg : List Instr} (h : HasAt code pc (x :: seg)) : HasAt code (pc + 1) seg := by
  intro j hj
  have := h (j + 1) (by simp; omega)
  simp only [List.getElem_cons_succ] at this
  rw [← this]
  congr 1
  omega

theorem HasAt.self (seg : List Instr) : HasAt seg 0 seg := by
  intro j hj
  simp

/-! ### single steps of the call family on the instruction constructors -/

theorem stepX_push (X : CallPrims P) (cap) (d : Nat) (f : XFrame P) :
    stepX X cap (mkD .push d) f = some (M.pure (.cont ⟨f.slots, f.args ++ [getS P f.slots (mkD .push d).D], f.pc + 1⟩)) := by
  simp only [stepX, callCore, mkD_op]; rfl

theorem stepX_push2 (X : CallPrims P) (cap) (a e : Nat) (f : XFrame P) :
    stepX X cap (mkAE .push2 a e) f =
      some (M.pure (.cont ⟨f.slots, f.args ++ [getS P f.slots (mkAE .push2 a e).A, getS P f.slots (mkAE .push2 a e).E], f.pc + 1⟩)) := by
  simp only [stepX, callCore, mkAE_op]; rfl

theorem stepX_push3 (X : CallPrims P) (cap) (a b c : Nat) (f : XFrame P) :
    stepX X cap (mkABC .push3 a b c) f =
      some (M.pure (.cont ⟨f.slots, f.args ++ [getS P f.slots (mkABC .push3 a b c).A, getS P f.slots (mkABC .push3 a b c).B,
        getS P f.slots (mkABC .push3 a b c).C], f.pc + 1⟩)) := by
  simp only [stepX, callCore, mkABC_op]; rfl

theorem stepX_pushArray (X : CallPrims P) (cap) (d : Nat) (f : XFrame P) :
    stepX X cap (mkD .pushArray d) f =
      some (match X.indexedView (getS P f.slots (mkD .pushArray d).D) with
        | some l => M.pure (.cont ⟨f.slots, f.args ++ l, f.pc + 1⟩)
        | none => M.throw (X.notIndexed (getS P f.slots (mkD .pushArray d).D))) := by
  simp only [stepX, callCore, mkD_op]
  cases X.indexedView (getS P f.slots (mkD .pushArray d).D) <;> rfl

theorem stepX_tailcall (X : CallPrims P) (cap) (d : Nat) (f : XFrame P) :
    stepX X cap (mkD .tailcall d) f =
      some (M.bind (X.call (getS P f.slots (mkD .tailcall d).D) f.args (view P cap f.slots)) fun r => M.pure (.ret r.1)) := by
  simp only [stepX, callCore, mkD_op]
  congr 1
  funext w
  simp only [M.map, M.bind, M.pure]
  rcases X.call (getS P f.slots (mkD .tailcall d).D) f.args (view P cap f.slots) w with ⟨(_ | _), _⟩ <;> rfl

theorem stepX_call (X : CallPrims P) (cap) (a e : Nat) (f : XFrame P) :
    stepX X cap (mkAE .call a e) f =
      some (M.bind (X.call (getS P f.slots (mkAE .call a e).E) f.args (view P cap f.slots)) fun r =>
        M.pure (.cont ⟨(merge P cap f.slots r.2).set (mkAE .call a e).A r.1, [], f.pc + 1⟩)) := by
  simp only [stepX, callCore, mkAE_op]
  congr 1
  funext w
  simp only [M.map, M.bind, M.pure]
  rcases X.call (getS P f.slots (mkAE .call a e).E) f.args (view P cap f.slots) w with ⟨(_ | _), _⟩ <;> rfl

/-- a step of an opcode outside the call family is `VM.step` with the pending arguments kept -/
theorem stepX_old (X : CallPrims P) (cap) (i : Instr) (f : XFrame P) (h : isCallOp i.op = false) :
    stepX X cap i f = (step P i ⟨f.slots, f.pc⟩).map (M.map P (liftStep P f.args)) := by
  have := callCore_isSome X cap i f.slots f.args
  rw [h] at this
  unfold stepX
  cases hcc : callCore X cap i f.slots f.args with
  | none => rfl
  | some _ => rw [hcc] at this; cases this

/-- an old-opcode step that is a pure continuation -/
theorem execX_old_pure (X : CallPrims P) (cap) (code : List Instr) (k : Nat) (f : XFrame P) (w : P.W) (i : Instr) (g : Frame P)
    (hc : code[f.pc]? = some i) (h : isCallOp i.op = false) (hs : step P i ⟨f.slots, f.pc⟩ = some (M.pure (.cont g))) :
    execX X cap code (k + 1) f w = execX X cap code k ⟨g.slots, f.args, g.pc⟩ w := by
  rw [execX_succ X cap code k f w i _ hc (by rw [stepX_old X cap i f h, hs]; rfl)]
  rfl

/-! ### the specialised code -/

/-- the push phase appends the values of the leading registers to the pending arguments -/
theorem pushLeading_exec (X : CallPrims P) (cap) (code : List Instr) (s : List P.V) :
    ∀ (lead : List Nat) (a : List P.V) (pc : Nat) (fuel : Nat) (w : P.W), (∀ r ∈ lead, r < 256) → HasAt code pc (pushLeading lead) →
      execX X cap code (fuel + (pushLeading lead).length) ⟨s, a, pc⟩ w =
        execX X cap code fuel ⟨s, a ++ lead.map (getS P s), pc + (pushLeading lead).length⟩ w := by
  intro lead
  induction lead using pushLeading.induct with
  | case1 x y z rest ih =>
    intro a pc fuel w hr hat
    simp only [pushLeading] at hat ⊢
    have hx : x < 256 := hr x (by simp)
    have hy : y < 256 := hr y (by simp)
    have hz : z < 256 := hr z (by simp)
    simp only [List.length_cons]
    rw [show fuel + ((pushLeading rest).length + 1) = (fuel + (pushLeading rest).length) + 1 by omega]
    rw [execX_succ X cap code _ ⟨s, a, pc⟩ w _ _ hat.head (stepX_push3 X cap x y z _)]
    simp only [M.pure, mkABC_A _ x y z hx, mkABC_B _ x y z hx hy, mkABC_C _ x y z hx hy hz]
    rw [ih (a ++ [getS P s x, getS P s y, getS P s z]) (pc + 1) fuel w (fun r hm => hr r (by simp [hm])) hat.tail]
    simp only [List.map_cons, List.append_assoc, List.cons_append, List.nil_append]
    congr 2
    omega
  | case2 x y =>
    intro a pc fuel w hr hat
    simp only [pushLeading] at hat ⊢
    have hx : x < 256 := hr x (by simp)
    have hy : y < 256 := hr y (by simp)
    simp only [List.length_cons, List.length_nil]
    rw [execX_succ X cap code _ ⟨s, a, pc⟩ w _ _ hat.head (stepX_push2 X cap x y _)]
    simp [M.pure, mkAE_A _ x y hx, mkAE_E _ x y hx (by omega)]
  | case3 x =>
    intro a pc fuel w hr hat
    simp only [pushLeading] at hat ⊢
    have hx : x < 256 := hr x (by simp)
    simp only [List.length_cons, List.length_nil]
    rw [execX_succ X cap code _ ⟨s, a, pc⟩ w _ _ hat.head (stepX_push X cap x _)]
    simp [M.pure, mkD_D _ x (by omega)]
  | case4 =>
    intro a pc fuel w _ _
    simp [pushLeading]

theorem HasAt.append_left {code : List Instr} {pc : Nat} {l1 l2 : List Instr} (h : HasAt code pc (l1 ++ l2)) : HasAt code pc l1 := by
  intro j hj
  have := h j (by simp; omega)
  rw [this, List.getElem_append_left hj]

theorem HasAt.append_right {code : List Instr} {pc : Nat} {l1 l2 : List Instr} (h : HasAt code pc (l1 ++ l2)) :
    HasAt code (pc + l1.length) l2 := by
  intro j hj
  have := h (l1.length + j) (by simp; omega)
  rw [← Nat.add_assoc] at this
  rw [this, List.getElem_append_right (by omega)]
  simp

/-- ★ `do_apply` in tail position: the emitted code returns what `applySem` computes on the register values - one call of
    `f` on the leading values followed by the elements of the last value, or the not-indexed error - for EVERY number of
    leading arguments (zero included) -/
theorem apply_inline_tail (X : CallPrims P) (cap) (code : List Instr) (s : List P.V) (pc : Nat) (f : Nat) (lead : List Nat) (last : Nat)
    (hr : ∀ r ∈ lead, r < 256) (hl : last < 16777216) (hf : f < 16777216) (hat : HasAt code pc (emitApply f lead last none)) (w : P.W) :
    execX X cap code ((pushLeading lead).length + 2) ⟨s, [], pc⟩ w =
      some (retOf (applySem X (getS P s f) (lead.map (getS P s)) (getS P s last) (view P cap s) w)) := by
  unfold emitApply at hat
  have h1 := hat.append_left
  have h2 := hat.append_right
  rw [show (pushLeading lead).length + 2 = 2 + (pushLeading lead).length by omega]
  rw [pushLeading_exec X cap code s lead [] pc 2 w hr h1]
  rw [execX_succ X cap code 1 _ w _ _ h2.head (stepX_pushArray X cap last _)]
  simp only [List.nil_append, mkD_D _ last hl, applySem]
  cases hv : X.indexedView (getS P s last) with
  | none => simp [M.throw, retOf]
  | some l =>
    simp only [M.pure]
    rw [execX_succ X cap code 0 _ w _ _ h2.tail.head (stepX_tailcall X cap f _)]
    simp only [M.bind, M.pure, mkD_D _ f hf]
    rcases X.call (getS P s f) (lead.map (getS P s) ++ l) (view P cap s) w with ⟨(_ | _), _⟩ <;> rfl

/-- ★ `do_apply` in value position: the emitted code performs the same call, then continues after it with the result in the
    target register (and the callee's updates of the captured slots) -/
theorem apply_inline_call (X : CallPrims P) (cap) (code : List Instr) (s : List P.V) (pc : Nat) (f : Nat) (lead : List Nat) (last target : Nat)
    (hr : ∀ r ∈ lead, r < 256) (hl : last < 16777216) (hf : f < 65536) (ht : target < 256)
    (hat : HasAt code pc (emitApply f lead last (some target))) (fuel : Nat) (w : P.W) :
    execX X cap code (fuel + 1 + ((pushLeading lead).length + 1)) ⟨s, [], pc⟩ w =
      match applySem X (getS P s f) (lead.map (getS P s)) (getS P s last) (view P cap s) w with
      | (.error e, w') => some (.error e, w')
      | (.ok r, w') => execX X cap code fuel ⟨(merge P cap s r.2).set target r.1, [], pc + (pushLeading lead).length + 2⟩ w' := by
  unfold emitApply at hat
  have h1 := hat.append_left
  have h2 := hat.append_right
  rw [show fuel + 1 + ((pushLeading lead).length + 1) = (fuel + 2) + (pushLeading lead).length by omega]
  rw [pushLeading_exec X cap code s lead [] pc (fuel + 2) w hr h1]
  rw [execX_succ X cap code (fuel + 1) _ w _ _ h2.head (stepX_pushArray X cap last _)]
  simp only [List.nil_append, mkD_D _ last hl, applySem]
  cases hv : X.indexedView (getS P s last) with
  | none => simp [M.throw]
  | some l =>
    simp only [M.pure]
    rw [execX_succ X cap code fuel _ w _ _ h2.tail.head (stepX_call X cap target f _)]
    simp only [M.bind, M.pure, mkAE_A _ target f ht, mkAE_E _ target f ht hf]
    rcases X.call (getS P s f) (lead.map (getS P s) ++ l) (view P cap s) w with ⟨(_ | _), _⟩ <;> simp [Nat.add_assoc]

/-! ### the generic function: `apply_asm[]` run from its entry frame -/

/-- entry frame of the generic `apply` (arity 1 + vararg, 6 slots): the function, the tuple of the remaining arguments -/
def applyFrame0 (T : TupleLaws P) (f : P.V) (rest : List P.V) : XFrame P := ⟨[f, T.tup rest, P.nil, P.nil, P.nil, P.nil], [], 0⟩

/-- the generic `apply` has no closures: nothing of its frame is captured -/
def noCap : Nat → Bool := fun _ => false

theorem view_noCap (s : List P.V) : view P noCap s = fun _ => none := by
  funext i; simp [view, noCap]

/-- loop invariant of `apply_asm`: at pc 4 with counter `k` in slot 4, the first `k` arguments pending, `rest.drop k = mid ++ [last]` -/
theorem apply_loop (X : CallPrims P) (T : TupleLaws P) (f : P.V) (rest : List P.V) :
    ∀ (mid : List P.V) (last : P.V) (k : Nat) (a : List P.V) (s3 s5 : P.V) (w : P.W), rest.drop k = mid ++ [last] →
      execX X noCap applyCode (6 * (mid.length + 1)) ⟨[f, T.tup rest, P.num rest.length, s3, P.num k, s5], a, 4⟩ w =
        some (retOf (applySem X f (a ++ mid) last (fun _ => none) w)) := by
  have hin := isBinOp_in P
  have heq := isBinOp_equals P
  unfold IsBinOp at hin heq
  intro mid
  induction mid with
  | nil =>
    intro last k a s3 s5 w hdrop
    have hk : k < rest.length := by
      apply Nat.lt_of_not_le
      intro hge
      rw [List.drop_eq_nil_of_le hge] at hdrop
      cases hdrop
    have hx : rest[k] = last := by
      have := List.drop_eq_getElem_cons hk
      rw [this] at hdrop
      exact (List.cons.inj hdrop).1
    have hrest : rest.drop (k + 1) = [] := by
      have := List.drop_eq_getElem_cons hk
      rw [this] at hdrop
      exact (List.cons.inj hdrop).2
    have hlen : ((k : Int) + 1 == (rest.length : Int)) = true := by
      have := congrArg List.length hrest
      simp at this
      simp
      omega
    simp only [List.length_nil, Nat.zero_add, Nat.mul_one, List.append_nil]
    rw [show (6 : Nat) = 0 + 1 + 1 + 1 + 1 + 1 + 1 from rfl]
    -- pc 4: x = rest[k]
    rw [execX_old_pure X noCap applyCode _ _ w (mkABC .in 5 1 4) ⟨[f, T.tup rest, P.num rest.length, s3, P.num k, last], 5⟩ rfl rfl
      (by simp [hin, getSlot, setSlot, next, mkABC_A, mkABC_B, mkABC_C, binop_in_tup P T rest k hk, hx, M.pure_bind, cont'] <;> rfl)]
    -- pc 5: k++
    rw [execX_old_pure X noCap applyCode _ _ w (mkABI .addImmediate 4 4 1) ⟨[f, T.tup rest, P.num rest.length, s3, P.num (k + 1), last], 6⟩ rfl rfl
      (by simp [stepc_addim, getSlot, setSlot, next, mkABI_A, mkABI_B, mkABI_CS, immop_addim_num P T, M.pure_bind, cont'] <;> rfl)]
    -- pc 6: jump? = (k + 1 == n)
    rw [execX_old_pure X noCap applyCode _ _ w (mkABC .equals 3 4 2) ⟨[f, T.tup rest, P.num rest.length, P.tru, P.num (k + 1), last], 7⟩ rfl rfl
      (by simp [heq, getSlot, setSlot, next, mkABC_A, mkABC_B, mkABC_C, binop_equals_num P T, hlen, ofBool, M.pure_bind, cont'] <;> rfl)]
    -- pc 7: taken, to pc 10
    rw [execX_old_pure X noCap applyCode _ _ w (mkAI .jumpIf 3 3) ⟨[f, T.tup rest, P.num rest.length, P.tru, P.num (k + 1), last], 10⟩ rfl rfl
      (by simp [stepc_jumpIf, getSlot, jumpBy, mkAI_A, mkAI_ES, P.truthy_tru])]
    -- pc 10: push-array x; pc 11: tail call
    rw [execX_succ X noCap applyCode _ _ w _ _ (by rfl) (stepX_pushArray X noCap 5 _)]
    simp only [mkD_D _ 5 (by decide : 5 < 16777216), getS, List.getD_cons_succ, List.getD_cons_zero, applySem]
    cases hv : X.indexedView last with
    | none => simp [M.throw, retOf]
    | some l =>
      simp only [M.pure]
      rw [execX_succ X noCap applyCode _ _ w _ _ (by rfl) (stepX_tailcall X noCap 0 _)]
      simp only [M.bind, M.pure, mkD_D _ 0 (by decide : 0 < 16777216), getS, List.getD_cons_zero, view_noCap]
      rcases X.call f (a ++ l) (fun _ => none) w with ⟨(_ | _), _⟩ <;> rfl
  | cons x mid ih =>
    intro last k a s3 s5 w hdrop
    have hk : k < rest.length := by
      apply Nat.lt_of_not_le
      intro hge
      rw [List.drop_eq_nil_of_le hge] at hdrop
      cases hdrop
    have hx : rest[k] = x := by
      have := List.drop_eq_getElem_cons hk
      rw [this] at hdrop
      exact (List.cons.inj hdrop).1
    have hrest : rest.drop (k + 1) = mid ++ [last] := by
      have := List.drop_eq_getElem_cons hk
      rw [this] at hdrop
      exact (List.cons.inj hdrop).2
    have hne : ((k : Int) + 1 == (rest.length : Int)) = false := by
      rw [beq_eq_false_iff_ne]
      intro h
      have h2 : k + 1 = rest.length := by omega
      rw [h2, List.drop_length] at hrest
      cases mid <;> cases hrest
    have hadd : ((k : Int) + 1) = ((k + 1 : Nat) : Int) := by omega
    rw [show 6 * ((x :: mid).length + 1) = 6 * (mid.length + 1) + 1 + 1 + 1 + 1 + 1 + 1 by simp [List.length_cons]; omega]
    rw [execX_old_pure X noCap applyCode _ _ w (mkABC .in 5 1 4) ⟨[f, T.tup rest, P.num rest.length, s3, P.num k, x], 5⟩ rfl rfl
      (by simp [hin, getSlot, setSlot, next, mkABC_A, mkABC_B, mkABC_C, binop_in_tup P T rest k hk, hx, M.pure_bind, cont'] <;> rfl)]
    rw [execX_old_pure X noCap applyCode _ _ w (mkABI .addImmediate 4 4 1) ⟨[f, T.tup rest, P.num rest.length, s3, P.num (k + 1), x], 6⟩ rfl rfl
      (by simp [stepc_addim, getSlot, setSlot, next, mkABI_A, mkABI_B, mkABI_CS, immop_addim_num P T, M.pure_bind, cont'] <;> rfl)]
    rw [execX_old_pure X noCap applyCode _ _ w (mkABC .equals 3 4 2) ⟨[f, T.tup rest, P.num rest.length, P.fls, P.num (k + 1), x], 7⟩ rfl rfl
      (by simp [heq, getSlot, setSlot, next, mkABC_A, mkABC_B, mkABC_C, binop_equals_num P T, hne, ofBool, M.pure_bind, cont'] <;> rfl)]
    rw [execX_old_pure X noCap applyCode _ _ w (mkAI .jumpIf 3 3) ⟨[f, T.tup rest, P.num rest.length, P.fls, P.num (k + 1), x], 8⟩ rfl rfl
      (by simp [stepc_jumpIf, getSlot, next, mkAI_A, P.truthy_fls])]
    -- pc 8: push x
    rw [execX_succ X noCap applyCode _ _ w _ _ (by rfl) (stepX_push X noCap 5 _)]
    simp only [M.pure, mkD_D _ 5 (by decide : 5 < 16777216), getS, List.getD_cons_succ, List.getD_cons_zero]
    -- pc 9: back to pc 4
    rw [execX_old_pure X noCap applyCode _ _ w (mkD .jump 16777211) ⟨[f, T.tup rest, P.num rest.length, P.fls, P.num (k + 1), x], 4⟩ rfl rfl
      (by simp [step, jumpBy, Instr.DS, Instr.D, mkD, signExt])]
    rw [hadd]
    have := ih last (k + 1) (a ++ [x]) P.fls x w hrest
    rw [this]
    simp [List.append_assoc]

/-- ★ running the bytecode of the generic `apply` on `(f & rest)`: with no further arguments it calls `f` on nothing; otherwise it
    calls `f` on all but the last argument followed by the elements of the last, which must be indexed - for EVERY argument list -/
theorem apply_template_correct (X : CallPrims P) (T : TupleLaws P) (f : P.V) (rest : List P.V) (w : P.W) :
    ∃ fuel, execX X noCap applyCode fuel (applyFrame0 T f rest) w =
      some (retOf (match rest.reverse with
        | [] => X.call f [] (fun _ => none) w
        | last :: revLead => applySem X f revLead.reverse last (fun _ => none) w)) := by
  cases hrev : rest.reverse with
  | nil =>
    have hnil : rest = [] := by simpa using hrev
    subst hnil
    refine ⟨4, ?_⟩
    unfold applyFrame0
    rw [show (4 : Nat) = 0 + 1 + 1 + 1 + 1 from rfl]
    rw [execX_old_pure X noCap applyCode _ _ w (mkAE .length 2 1) ⟨[f, T.tup [], P.num 0, P.nil, P.nil, P.nil], 1⟩ rfl rfl
      (by simp [stepc_length, getSlot, setSlot, next, mkAE_A, mkAE_E, T.length_tup, M.pure_bind, cont'] <;> rfl)]
    rw [execX_old_pure X noCap applyCode _ _ w (mkABI .equalsImmediate 3 2 0) ⟨[f, T.tup [], P.num 0, P.tru, P.nil, P.nil], 2⟩ rfl rfl
      (by simp [stepc_eqim, getSlot, setSlot, next, mkABI_A, mkABI_B, mkABI_CS, immop_eqim_num P T, ofBool, M.pure_bind, cont'] <;> rfl)]
    rw [execX_old_pure X noCap applyCode _ _ w (mkAI .jumpIf 3 9) ⟨[f, T.tup [], P.num 0, P.tru, P.nil, P.nil], 11⟩ rfl rfl
      (by simp [stepc_jumpIf, getSlot, jumpBy, mkAI_A, mkAI_ES, P.truthy_tru])]
    rw [execX_succ X noCap applyCode _ _ w _ _ (by rfl) (stepX_tailcall X noCap 0 _)]
    simp only [M.bind, M.pure, mkD_D _ 0 (by decide : 0 < 16777216), getS, List.getD_cons_zero, view_noCap]
    rcases X.call f [] (fun _ => none) w with ⟨(_ | _), _⟩ <;> rfl
  | cons last revLead =>
    have hrest : rest = revLead.reverse ++ [last] := by
      have := congrArg List.reverse hrev
      simpa using this
    have hlen0 : (((rest.length : Nat) : Int) == 0) = false := by
      rw [beq_eq_false_iff_ne, hrest]; simp; omega
    refine ⟨6 * (revLead.reverse.length + 1) + 4, ?_⟩
    unfold applyFrame0
    rw [show 6 * (revLead.reverse.length + 1) + 4 = 6 * (revLead.reverse.length + 1) + 1 + 1 + 1 + 1 from rfl]
    rw [execX_old_pure X noCap applyCode _ _ w (mkAE .length 2 1) ⟨[f, T.tup rest, P.num rest.length, P.nil, P.nil, P.nil], 1⟩ rfl rfl
      (by simp [stepc_length, getSlot, setSlot, next, mkAE_A, mkAE_E, T.length_tup, M.pure_bind, cont'] <;> rfl)]
    rw [execX_old_pure X noCap applyCode _ _ w (mkABI .equalsImmediate 3 2 0) ⟨[f, T.tup rest, P.num rest.length, P.fls, P.nil, P.nil], 2⟩ rfl rfl
      (by simp [stepc_eqim, getSlot, setSlot, next, mkABI_A, mkABI_B, mkABI_CS, immop_eqim_num P T, hlen0, ofBool, M.pure_bind, cont'] <;> rfl)]
    rw [execX_old_pure X noCap applyCode _ _ w (mkAI .jumpIf 3 9) ⟨[f, T.tup rest, P.num rest.length, P.fls, P.nil, P.nil], 3⟩ rfl rfl
      (by simp [stepc_jumpIf, getSlot, next, mkAI_A, P.truthy_fls])]
    rw [execX_old_pure X noCap applyCode _ _ w (mkAI .loadInteger 4 0) ⟨[f, T.tup rest, P.num rest.length, P.fls, P.num 0, P.nil], 4⟩ rfl rfl
      (by simp [stepc_loadInteger, setSlot, next, mkAI_A, mkAI_ES])]
    have := apply_loop X T f rest revLead.reverse last 0 [] P.fls P.nil w (by rw [hrest]; rfl)
    simpa using this

end JanetModel.Spec
