import JanetModel.Spec.FixedEmit

/-!
C15: the instruction chain `opreduce` emits for two or more operands - WITH its register operands - run on the caller's slots:
`op(im) t a0 y ; op(im) t t r2 ; op(im) t t r3 ; ...` (cfuns.c `opreduce`: first instruction from `args[0]`, `args[1]` into the target,
then the loop accumulating into the target).  Operands are registers or immediate constants (`can_slot_be_imm`).
Core Lean only.
-/

namespace JanetModel.Spec
open JanetModel.Gen.Bytecode JanetModel.Gen.Cfuns JanetModel.Bytecode.VM

/-- a compiled operand as `opreduce` sees it: in a register, or a constant that `can_slot_be_imm` accepts -/
inductive RArg where
  | reg (r : Nat)
  | imm (i : Int)
  deriving DecidableEq, Repr

/-- one accumulation instruction into `t`: `janetc_emit_ssi(c, opim, t, acc, imm, 1)` / `janetc_emit_sss(c, op, t, acc, args[i], 1)` -/
def accInstr (op : Op) (opim : Option Op) (t acc : Nat) : RArg → Instr
  | .reg r => mkABC op t acc r
  | .imm i => match opim with | some oi => mkABI oi t acc i | none => mkABC op t acc 0

/-- `opreduce` for `args = a0 :: y :: rest` -/
def emitOpreduceCode (op : Op) (opim : Option Op) (t a0 : Nat) (y : RArg) (rest : List RArg) : List Instr :=
  accInstr op opim t a0 y :: rest.map (accInstr op opim t t)

variable (P : Prims)

/-- the operand as the value-level model `Spec.evalOpreduce` sees it -/
def argOf (s : List P.V) : RArg → Arg P
  | .reg r => ⟨s.getD r P.nil, none⟩
  | .imm i => ⟨P.num i, some i⟩

/-- an operand the emitter can encode: 8-bit register; an immediate only if the row has an immediate opcode, within int8 -/
def RArg.ok (opim : Option Op) : RArg → Prop
  | .reg r => r < 256
  | .imm i => opim.isSome ∧ -128 ≤ i ∧ i < 128

/-- the operand does not live in register `t` -/
def RArg.avoids (t : Nat) : RArg → Prop
  | .reg r => r ≠ t
  | .imm _ => True

/-- `oi` is executed by the immediate case of `step` -/
def IsImmOp (oi : Op) : Prop :=
  ∀ (a b : Nat) (i : Int) (f : Frame P),
    step P (mkABI oi a b i) f = some (M.bind (immop P oi (getSlot P f (mkABI oi a b i).B) (mkABI oi a b i).CS) fun v =>
      cont' P (next P (setSlot P f (mkABI oi a b i).A v)))

theorem isImmOp_of_base (oi op : Op) (h : immBase oi = some op) : IsImmOp P oi := by
  intro a b i f
  cases oi <;> first | (exfalso; simp [immBase] at h; done) | simp [step, immBase]

/-- one accumulation instruction computes one `stepInline` -/
theorem acc_step (op : Op) (opim : Option Op) (hop : IsBinOp P op) (himm : ∀ oi, opim = some oi → IsImmOp P oi)
    (s : List P.V) (pc t acc : Nat) (a : RArg) (ht : t < 256) (hacc : acc < 256) (ha : a.ok opim) :
    step P (accInstr op opim t acc a) ⟨s, pc⟩ =
      some (M.bind (stepInline P op opim (s.getD acc P.nil) (argOf P s a)) fun v => cont' P ⟨s.set t v, pc + 1⟩) := by
  cases a with
  | reg r =>
    have hr : r < 256 := ha
    have := hop t acc r ⟨s, pc⟩
    simp only [getSlot, setSlot, next, mkABC_A _ t acc r ht, mkABC_B _ t acc r ht hacc, mkABC_C _ t acc r ht hacc hr] at this
    simp only [accInstr, argOf, stepInline]
    rw [this]
  | imm i =>
    obtain ⟨hsome, hi⟩ := ha
    cases opim with
    | none => simp at hsome
    | some oi =>
      have := himm oi rfl t acc i ⟨s, pc⟩
      simp only [getSlot, setSlot, next, mkABI_A _ t acc i ht, mkABI_B _ t acc i ht hacc, mkABI_CS _ t acc i ht hacc hi] at this
      simp only [accInstr, argOf, stepInline]
      exact this

theorem argOf_set (s : List P.V) (t : Nat) (v : P.V) (a : RArg) (h : a.avoids t) : argOf P (s.set t v) a = argOf P s a := by
  cases a with
  | reg r => simp only [argOf, getD_set_ne P s t r v h]
  | imm i => rfl

/-- the accumulation loop: with the accumulator in `t`, the instructions `op(im) t t r` for the remaining operands compute the left fold -/
theorem fold_chain_computes (op : Op) (opim : Option Op) (hop : IsBinOp P op) (himm : ∀ oi, opim = some oi → IsImmOp P oi)
    (code : List Instr) (t : Nat) (ht : t < 256) (rest : List RArg) (hok : ∀ a ∈ rest, a.ok opim) (hav : ∀ a ∈ rest, a.avoids t)
    (s : List P.V) (hlen : t < s.length) (pc : Nat) (hat : HasAt code pc (rest.map (accInstr op opim t t))) :
    Computes P code s pc rest.length (M.foldl (stepInline P op opim) (s.getD t P.nil) (rest.map (argOf P s))) (fun v => s.set t v)
      (pc + rest.length) := by
  induction rest generalizing s pc with
  | nil =>
    intro w
    simp only [List.map_nil, M.foldl, M.pure, List.length_nil, Nat.add_zero]
    intro fuel r hr
    have : s.set t (s.getD t P.nil) = s := by
      apply List.ext_getElem (by simp)
      intro k h1 h2
      by_cases hk : t = k
      · subst hk; simp [List.getD, h2]
      · simp [List.getElem_set_ne hk]
    rw [this] at hr
    exact hr
  | cons a rest ih =>
    intro w
    have hc := hat.head
    have hs := acc_step P op opim hop himm s pc t t a ht ht (hok a List.mem_cons_self)
    simp only [List.map_cons, M.foldl, List.length_cons]
    simp only [M.bind]
    cases hb : stepInline P op opim (s.getD t P.nil) (argOf P s a) w with
    | mk res w' =>
      cases res with
      | error e =>
        intro fuel
        rw [show fuel + (rest.length + 1) = (fuel + rest.length) + 1 by omega, exec_succ P code _ ⟨s, pc⟩ w _ _ hc hs]
        simp only [M.bind, hb]
      | ok v =>
        dsimp only
        have ih' := ih (fun b hb' => hok b (List.mem_cons_of_mem _ hb')) (fun b hb' => hav b (List.mem_cons_of_mem _ hb'))
          (s.set t v) (by simpa using hlen) (pc + 1) hat.tail w'
        rw [getD_set_self P s t v hlen] at ih'
        have hmap : rest.map (argOf P (s.set t v)) = rest.map (argOf P s) :=
          List.map_congr_left (fun b hb' => argOf_set P s t v b (hav b (List.mem_cons_of_mem _ hb')))
        rw [hmap] at ih'
        have hss : ∀ u, (s.set t v).set t u = s.set t u := fun u => by simp
        revert ih'
        cases hm : M.foldl (stepInline P op opim) v (rest.map (argOf P s)) w' with
        | mk res2 w2 =>
          cases res2 with
          | error e =>
            intro ih' fuel
            rw [show fuel + (rest.length + 1) = (fuel + rest.length) + 1 by omega, exec_succ P code _ ⟨s, pc⟩ w _ _ hc hs]
            simp only [M.bind, hb, cont', M.pure]
            exact ih' fuel
          | ok u =>
            intro ih' fuel r hr
            rw [show fuel + (rest.length + 1) = (fuel + rest.length) + 1 by omega, exec_succ P code _ ⟨s, pc⟩ w _ _ hc hs]
            simp only [M.bind, hb, cont', M.pure]
            have := ih' fuel r (by show exec P code fuel ⟨(s.set t v).set t u, pc + 1 + rest.length⟩ w2 = some r; rw [hss, show pc + 1 + rest.length = pc + (rest.length + 1) by omega]; exact hr)
            exact this

/-- ★ the whole chain `opreduce` emits for `a0 :: y :: rest` computes the value-level model `evalOpreduce` on the operands' values - for
    every number of operands, every mix of register / immediate operands, every world.  The first two operands may live anywhere (also in
    the target: they are read before it is written); the later ones must not live in the target register - exactly what
    `reduce_target(opts, args, 2)` guarantees when it declines a hinted target. -/
theorem opreduce_chain_computes (special : Option (Op × Op × Int)) (op : Op) (opim : Option Op) (nullary unary : Const)
    (hop : IsBinOp P op) (himm : ∀ oi, opim = some oi → IsImmOp P oi)
    (code : List Instr) (s : List P.V) (pc t a0 : Nat) (y : RArg) (rest : List RArg)
    (ht : t < 256) (h0 : a0 < 256) (hy : y.ok opim) (hok : ∀ a ∈ rest, a.ok opim) (hav : ∀ a ∈ rest, a.avoids t) (hlen : t < s.length)
    (hat : HasAt code pc (emitOpreduceCode op opim t a0 y rest)) :
    Computes P code s pc (rest.length + 1)
      (evalOpreduce P special op opim nullary unary ((⟨s.getD a0 P.nil, none⟩ : Arg P) :: argOf P s y :: rest.map (argOf P s)))
      (fun v => s.set t v) (pc + (rest.length + 1)) := by
  intro w
  have hc := hat.head
  have hs := acc_step P op opim hop himm s pc t a0 y ht h0 hy
  simp only [evalOpreduce, M.bind]
  cases hb : stepInline P op opim (s.getD a0 P.nil) (argOf P s y) w with
  | mk res w' =>
    cases res with
    | error e =>
      intro fuel
      rw [show fuel + (rest.length + 1) = (fuel + rest.length) + 1 by omega, exec_succ P code _ ⟨s, pc⟩ w _ _ hc hs]
      simp only [M.bind, hb]
    | ok v =>
      dsimp only
      have hf := fold_chain_computes P op opim hop himm code t ht rest hok hav (s.set t v) (by simpa using hlen) (pc + 1) hat.tail w'
      rw [getD_set_self P s t v hlen] at hf
      have hmap : rest.map (argOf P (s.set t v)) = rest.map (argOf P s) :=
        List.map_congr_left (fun b hb' => argOf_set P s t v b (hav b hb'))
      rw [hmap] at hf
      have hss : ∀ u, (s.set t v).set t u = s.set t u := fun u => by simp
      revert hf
      cases hm : M.foldl (stepInline P op opim) v (rest.map (argOf P s)) w' with
      | mk res2 w2 =>
        cases res2 with
        | error e =>
          intro hf fuel
          rw [show fuel + (rest.length + 1) = (fuel + rest.length) + 1 by omega, exec_succ P code _ ⟨s, pc⟩ w _ _ hc hs]
          simp only [M.bind, hb, cont', M.pure]
          exact hf fuel
        | ok u =>
          intro hf fuel r hr
          rw [show fuel + (rest.length + 1) = (fuel + rest.length) + 1 by omega, exec_succ P code _ ⟨s, pc⟩ w _ _ hc hs]
          simp only [M.bind, hb, cont', M.pure]
          exact hf fuel r (by show exec P code fuel ⟨(s.set t v).set t u, pc + 1 + rest.length⟩ w2 = some r; rw [hss, show pc + 1 + rest.length = pc + (rest.length + 1) by omega]; exact hr)

end JanetModel.Spec

namespace JanetModel.Spec
open JanetModel.Gen.Bytecode JanetModel.Gen.Cfuns JanetModel.Bytecode.VM

/-! ### `compreduce`: the comparison chain with its conditional jumps to the end

`cmp t a0 r1 ; jmp(n)o t END ; cmp t r1 r2 ; jmp(n)o t END ; ... ; cmp t r(n-2) last ; END:` - the operands between the first and the
last are registers (a constant there is first loaded into a scratch register by emit.c: not modelled); the last may be an immediate. -/

/-- `compreduce` for `args = a :: mids ++ [last]` (at least two operands) -/
def emitCompreduceCode (op : Op) (opim : Option Op) (invert : Bool) (t : Nat) : Nat → List Nat → RArg → List Instr
  | a, [], last => [accInstr op opim t a last]
  | a, m :: mids, last =>
    accInstr op opim t a (.reg m) :: mkAI (if invert then .jumpIf else .jumpIfNot) t (2 * mids.length + 2 : Nat) ::
      emitCompreduceCode op opim invert t m mids last

theorem emitCompreduceCode_length (op : Op) (opim : Option Op) (invert : Bool) (t a : Nat) (mids : List Nat) (last : RArg) :
    (emitCompreduceCode op opim invert t a mids last).length = 2 * mids.length + 1 := by
  induction mids generalizing a with
  | nil => rfl
  | cons m mids ih => simp only [emitCompreduceCode, List.length_cons, ih]; omega

variable (P : Prims)

/-- value-level meaning of that chain, following the recursion of the emitter -/
def cmpSem (op : Op) (opim : Option Op) (invert : Bool) (s : List P.V) : P.V → List Nat → RArg → M P P.V
  | a, [], last => stepInline P op opim a (argOf P s last)
  | a, m :: mids, last =>
    M.bind (stepInline P op opim a (argOf P s (.reg m))) fun v =>
      if P.truthy v == invert then M.pure v else cmpSem op opim invert s (s.getD m P.nil) mids last

/-- it is `compreduce`'s value-level model `goInline` on the operand list -/
theorem cmpSem_eq_goInline (op : Op) (opim : Option Op) (invert : Bool) (s : List P.V) (a : P.V) (m : Nat) (mids : List Nat) (last : RArg) :
    cmpSem P op opim invert s a (m :: mids) last =
      goInline P op opim invert a (argOf P s (.reg m)) (mids.map (fun r => argOf P s (.reg r)) ++ [argOf P s last]) := by
  induction mids generalizing a m with
  | nil => simp only [cmpSem, List.map_nil, List.nil_append, goInline, argOf]
  | cons m' mids ih =>
    simp only [cmpSem, List.map_cons, List.cons_append, goInline]
    congr 1
    funext v
    rw [← ih]
    simp only [cmpSem, argOf]

theorem step_jumpIfNot' (i : Instr) (f : Frame P) (h : i.op = .jumpIfNot) :
    step P i f = some (cont' P (if P.truthy (getSlot P f i.A) then next P f else jumpBy P f i.ES)) := step_jumpIfNot P i f h

/-- the conditional jump after a comparison leaves the chain exactly when `truthy t == invert` -/
theorem cmp_jump_step (invert : Bool) (s : List P.V) (pc t : Nat) (k : Nat) (ht : t < 256) (hk : k < 32768) (hlen : t < s.length) (v : P.V) :
    step P (mkAI (if invert then .jumpIf else .jumpIfNot) t (k : Nat)) ⟨s.set t v, pc⟩ =
      some (cont' P (if P.truthy v == invert then ⟨s.set t v, pc + k⟩ else ⟨s.set t v, pc + 1⟩)) := by
  have hA : ∀ o, (mkAI o t (k : Nat)).A = t := fun o => mkAI_A o t _ ht
  have hE : ∀ o, (mkAI o t (k : Nat)).ES = (k : Int) := fun o => mkAI_ES o t _ ht (by omega)
  have hj : (Int.ofNat pc + ((k : Nat) : Int)).toNat = pc + k := by
    simp only [Int.ofNat_eq_natCast]
    omega
  cases invert with
  | true =>
    simp only [if_true]
    rw [step_jumpIf P _ _ rfl]
    simp only [getSlot, hA, hE, getD_set_self P s t v hlen, next, jumpBy, hj]
    cases P.truthy v <;> simp
  | false =>
    simp only [Bool.false_eq_true, if_false]
    rw [step_jumpIfNot P _ _ rfl]
    simp only [getSlot, hA, hE, getD_set_self P s t v hlen, next, jumpBy, hj]
    cases P.truthy v <;> simp

/-- ★ the whole chain `compreduce` emits for `a :: mids ++ [last]` - comparisons into the target register with a conditional jump to the
    end after every comparison but the last - computes the value-level model (`goInline`): the result of the first comparison whose
    truthiness equals `invert`, else of the last one; operands are compared left to right and nothing after the deciding comparison runs.
    The first operand may live in the target; the others must not (`reduce_target(opts, args, 1)`). -/
theorem cmp_chain_computes (op : Op) (opim : Option Op) (invert : Bool) (hop : IsBinOp P op) (himm : ∀ oi, opim = some oi → IsImmOp P oi)
    (code : List Instr) (t : Nat) (ht : t < 256) (mids : List Nat) (last : RArg)
    (hm : ∀ r ∈ mids, r < 256 ∧ r ≠ t) (hl : last.ok opim ∧ last.avoids t) (hsz : mids.length < 16000)
    (s : List P.V) (hlen : t < s.length) (pc a : Nat) (ha : a < 256)
    (hat : HasAt code pc (emitCompreduceCode op opim invert t a mids last)) :
    Computes P code s pc (2 * mids.length + 1) (cmpSem P op opim invert s (s.getD a P.nil) mids last) (fun v => s.set t v)
      (pc + (2 * mids.length + 1)) := by
  induction mids generalizing s pc a with
  | nil =>
    intro w
    have hc := hat.head
    have hs := acc_step P op opim hop himm s pc t a last ht ha hl.1
    simp only [cmpSem, List.length_nil, Nat.mul_zero, Nat.zero_add]
    cases hb : stepInline P op opim (s.getD a P.nil) (argOf P s last) w with
    | mk res w' =>
      cases res with
      | error e =>
        intro fuel
        rw [exec_succ P code fuel ⟨s, pc⟩ w _ _ hc hs]
        simp only [M.bind, hb]
      | ok v =>
        intro fuel r hr
        rw [exec_succ P code fuel ⟨s, pc⟩ w _ _ hc hs]
        simp only [M.bind, hb, cont', M.pure]
        exact hr
  | cons m mids ih =>
    intro w
    have hmm := hm m List.mem_cons_self
    have hc0 := hat.head
    have hc1 := hat.tail.head
    have hs0 := acc_step P op opim hop himm s pc t a (.reg m) ht ha hmm.1
    simp only [cmpSem, M.bind, List.length_cons]
    cases hb : stepInline P op opim (s.getD a P.nil) (argOf P s (.reg m)) w with
    | mk res w' =>
      cases res with
      | error e =>
        intro fuel
        rw [show fuel + (2 * (mids.length + 1) + 1) = (fuel + 2 * mids.length + 2) + 1 by omega,
          exec_succ P code _ ⟨s, pc⟩ w _ _ hc0 hs0]
        simp only [M.bind, hb]
      | ok v =>
        dsimp only
        have hs1 := cmp_jump_step P invert s (pc + 1) t (2 * mids.length + 2) ht (by simp only [List.length_cons] at hsz; omega) hlen v
        by_cases hv : (P.truthy v == invert) = true
        · -- early exit: jump to the end
          simp only [hv, if_true, M.pure]
          intro fuel r hr
          rw [show fuel + (2 * (mids.length + 1) + 1) = (fuel + 2 * mids.length + 2) + 1 by omega,
            exec_succ P code _ ⟨s, pc⟩ w _ _ hc0 hs0]
          simp only [M.bind, hb, cont', M.pure]
          rw [show fuel + 2 * mids.length + 2 = (fuel + 2 * mids.length + 1) + 1 by omega,
            exec_succ P code _ ⟨s.set t v, pc + 1⟩ w' _ _ hc1 hs1]
          simp only [hv, if_true, cont', M.pure]
          have : pc + 1 + (2 * mids.length + 2) = pc + (2 * (mids.length + 1) + 1) := by omega
          rw [this]
          exact exec_mono P code fuel _ w' r hr _ (by omega)
        · have hv' : (P.truthy v == invert) = false := by simpa using hv
          simp only [hv', Bool.false_eq_true, if_false]
          have ih' := ih (fun r hr => hm r (List.mem_cons_of_mem _ hr)) (by simp only [List.length_cons] at hsz; omega)
            (s.set t v) (by simpa using hlen) (pc + 2) m hmm.1 hat.tail.tail w'
          have hcs : cmpSem P op opim invert (s.set t v) ((s.set t v).getD m P.nil) mids last =
              cmpSem P op opim invert s (s.getD m P.nil) mids last := by
            rw [getD_set_ne P s t m v hmm.2]
            have hgen : ∀ (mids : List Nat) (x : P.V), (∀ r ∈ mids, r < 256 ∧ r ≠ t) →
                cmpSem P op opim invert (s.set t v) x mids last = cmpSem P op opim invert s x mids last := by
              intro mids
              induction mids with
              | nil => intro x _; simp only [cmpSem, argOf_set P s t v last hl.2]
              | cons m2 mids2 ih2 =>
                intro x h2
                have hm2 := h2 m2 List.mem_cons_self
                simp only [cmpSem, argOf_set P s t v (.reg m2) hm2.2, getD_set_ne P s t m2 v hm2.2]
                congr 1
                funext u
                rw [ih2 _ (fun r hr => h2 r (List.mem_cons_of_mem _ hr))]
            exact hgen mids _ (fun r hr => hm r (List.mem_cons_of_mem _ hr))
          rw [hcs] at ih'
          have hss : ∀ u, (s.set t v).set t u = s.set t u := fun u => by simp
          revert ih'
          cases hmres : cmpSem P op opim invert s (s.getD m P.nil) mids last w' with
          | mk res2 w2 =>
            cases res2 with
            | error e =>
              intro ih' fuel
              rw [show fuel + (2 * (mids.length + 1) + 1) = (fuel + 2 * mids.length + 2) + 1 by omega,
                exec_succ P code _ ⟨s, pc⟩ w _ _ hc0 hs0]
              simp only [M.bind, hb, cont', M.pure]
              rw [show fuel + 2 * mids.length + 2 = (fuel + 2 * mids.length + 1) + 1 by omega,
                exec_succ P code _ ⟨s.set t v, pc + 1⟩ w' _ _ hc1 hs1]
              simp only [hv', Bool.false_eq_true, if_false, cont', M.pure]
              have := ih' fuel
              rw [show fuel + (2 * mids.length + 1) = fuel + 2 * mids.length + 1 by omega, show pc + 2 = pc + 1 + 1 by omega] at this
              exact this
            | ok u =>
              intro ih' fuel r hr
              rw [show fuel + (2 * (mids.length + 1) + 1) = (fuel + 2 * mids.length + 2) + 1 by omega,
                exec_succ P code _ ⟨s, pc⟩ w _ _ hc0 hs0]
              simp only [M.bind, hb, cont', M.pure]
              rw [show fuel + 2 * mids.length + 2 = (fuel + 2 * mids.length + 1) + 1 by omega,
                exec_succ P code _ ⟨s.set t v, pc + 1⟩ w' _ _ hc1 hs1]
              simp only [hv', Bool.false_eq_true, if_false, cont', M.pure]
              have := ih' fuel r (by
                show exec P code fuel ⟨(s.set t v).set t u, pc + 2 + (2 * mids.length + 1)⟩ w2 = some r
                rw [hss, show pc + 2 + (2 * mids.length + 1) = pc + (2 * (mids.length + 1) + 1) by omega]
                exact hr)
              rw [show fuel + (2 * mids.length + 1) = fuel + 2 * mids.length + 1 by omega, show pc + 2 = pc + 1 + 1 by omega] at this
              exact this

end JanetModel.Spec
