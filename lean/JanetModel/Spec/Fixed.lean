import JanetModel.Spec.Template

/-!
C15: the fixed-arity specialisations (cfuns.c `genericSS`, `opfunction`, fixed-arity `opreduce`, `do_get`, `do_put`,
`do_yield`, `do_debug`, `do_error`) against the fixed asm arrays corelib.c installs as their generic versions.
`do_apply` / `make_apply` are not modelled (call stack).
-/

namespace JanetModel.Spec
open JanetModel.Gen.Bytecode JanetModel.Gen.Cfuns JanetModel.Bytecode.VM

/-- the shapes of the fixed asm arrays -/
inductive Shape where
  | ss (op : Op)        -- `op 0 0; ret 0`                       length_asm, bnot_asm
  | sss (op : Op)       -- `op 0 0 1; ret 0`                     resume/next/cancel/propagate/cmp
  | getlike (op : Op)   -- `op 0 0 1; ldn 3; eq 3 0 3; jmpif 3 2; ret 0; ret 2`     in_asm, get_asm
  | put                 -- `put 0 1 2; ret 0`
  | signal (k : Nat)    -- `sig 0 0 k; ret 0`                    yield_asm, debug_asm
  | error               -- `err 0`
  deriving DecidableEq, Repr

def shapeCode : Shape → List Instr
  | .ss op => [mkAE op 0 0, mkD .return 0]
  | .sss op => [mkABC op 0 0 1, mkD .return 0]
  | .getlike op => [mkABC op 0 0 1, mkD .loadNil 3, mkABC .equals 3 0 3, mkAI .jumpIf 3 2, mkD .return 0, mkD .return 2]
  | .put => [mkABC .put 0 1 2, mkD .return 0]
  | .signal k => [mkABC .signal 0 0 k, mkD .return 0]
  | .error => [mkD .error 0]

/-- which shape the generic version of a fixed-arity row must have, read off the handler -/
def shapeOf (r : OptRow) : Option Shape :=
  match r.handler with
  | .genericSS op => some (.ss op)
  | .opfunction op .nil => some (.sss op)
  | .opreduce op none .nil .nil => if r.guard == .eq [2] then some (if op == .in then .getlike op else .sss op) else none
  | .special "do_get" => some (.getlike .get)
  | .special "do_put" => some .put
  | .special "do_yield" => some (.signal 3)
  | .special "do_debug" => some (.signal 2)
  | .special "do_error" => some .error
  | _ => none

def unaryOps : List Op := [.length, .bnot]
def fixedBinOps : List Op := [.resume, .next, .cancel, .propagate, .compare, .in, .get]

def shapeOpsOk : Shape → Bool
  | .ss op => unaryOps.contains op
  | .sss op => fixedBinOps.contains op
  | .getlike op => fixedBinOps.contains op
  | .signal k => k < 256
  | _ => true

/-- checkable agreement of a fixed-arity row with its template: words decode to the shape's code, the frame is large enough,
    the arities the guard admits are within the function's arity -/
def fixedRowOk (r : OptRow) : Bool :=
  match shapeOf r with
  | none => true
  | some sh =>
    match templateOf r.tag with
    | none => false
    | some t => decodesTo t.words (shapeCode sh) && shapeOpsOk sh && guardWithinArity r t && !t.vararg &&
        (match sh with | .getlike _ => t.slots == 4 | .put => t.slots == 3 | .sss _ => t.slots == 2 | .signal _ => t.slots ≥ 1 | _ => t.slots == 1)

variable (P : Prims)

/-- entry frame of a fixed-arity function: the arguments, padded with nil up to `slots` -/
def frameOf (slots : Nat) (args : List P.V) : Frame P := ⟨args ++ List.replicate (slots - args.length) P.nil, 0⟩

/-- hand model of the specialised code for the fixed-arity rows in value position (cfuns.c, bodies fingerprinted) -/
def evalInlineFixed (r : OptRow) (args : List P.V) : Option (M P P.V) :=
  if !guardOk r.guard args.length || isVariadic r then none else
  match r.handler, args with
  | .genericSS op, [x] => some (P.unary op x)
  | .opfunction op .nil, [x] => some (binop P op x P.nil)
  | .opfunction op .nil, [x, y] => some (binop P op x y)
  | .opreduce op none .nil .nil, [x, y] => if r.guard == .eq [2] then some (binop P op x y) else none
  | .special "do_get", [x, y] => some (binop P .get x y)
  | .special "do_get", [x, y, d] => some (M.bind (binop P .get x y) fun t => M.pure (if P.isNil t then d else t))
  | .special "do_put", [x, y, z] => some (M.bind (P.put3 x y z) fun _ => M.pure x)
  | .special "do_yield", [] => some (P.signal P.nil 3)
  | .special "do_yield", [x] => some (P.signal x 3)
  | .special "do_debug", [] => some (P.signal P.nil 2)
  | .special "do_debug", [x] => some (P.signal x 2)
  | .special "do_error", [x] => some (M.throw (P.raise x))
  | _, _ => none

/-- what running a shape computes from the entry slots -/
def shapeSem : Shape → List P.V → M P P.V
  | .ss op, s => P.unary op (s.getD 0 P.nil)
  | .sss op, s => binop P op (s.getD 0 P.nil) (s.getD 1 P.nil)
  | .getlike op, s => M.bind (binop P op (s.getD 0 P.nil) (s.getD 1 P.nil)) fun v => M.pure (if P.eqv v P.nil then s.getD 2 P.nil else v)
  | .put, s => M.bind (P.put3 (s.getD 0 P.nil) (s.getD 1 P.nil) (s.getD 2 P.nil)) fun _ => M.pure (s.getD 0 P.nil)
  | .signal k, s => P.signal (s.getD 0 P.nil) k
  | .error, s => M.throw (P.raise (s.getD 0 P.nil))

theorem M.bind_pure' {α} (m : M P α) : M.bind m M.pure = m := by
  funext w
  simp only [M.bind, M.pure]
  rcases m w with ⟨(_ | _), _⟩ <;> rfl

theorem stepc_unary (op : Op) (h : op ∈ unaryOps) (a e : Nat) (f : Frame P) : step P (mkAE op a e) f =
    some (M.bind (P.unary op (getSlot P f (mkAE op a e).E)) fun v => cont' P (next P (setSlot P f (mkAE op a e).A v))) := by
  simp only [unaryOps, List.mem_cons, List.mem_nil_iff, or_false] at h
  rcases h with rfl | rfl <;> simp [step]

theorem isBinOp_fixed (op : Op) (h : op ∈ fixedBinOps) : IsBinOp P op := by
  simp only [fixedBinOps, List.mem_cons, List.mem_nil_iff, or_false] at h
  rcases h with rfl | rfl | rfl | rfl | rfl | rfl | rfl <;> (intro a b c f; simp [step, immBase, Op.itype])

theorem stepc_loadNil (d : Nat) (f : Frame P) : step P (mkD .loadNil d) f = some (cont' P (next P (setSlot P f (mkD .loadNil d).D P.nil))) := by
  simp [step]
theorem stepc_put (a b c : Nat) (f : Frame P) : step P (mkABC .put a b c) f =
    some (M.bind (P.put3 (getSlot P f (mkABC .put a b c).A) (getSlot P f (mkABC .put a b c).B) (getSlot P f (mkABC .put a b c).C)) fun _ =>
      cont' P (next P f)) := by simp [step]
theorem stepc_signal (a b c : Nat) (f : Frame P) : step P (mkABC .signal a b c) f =
    some (M.bind (P.signal (getSlot P f (mkABC .signal a b c).B) (mkABC .signal a b c).C) fun v =>
      cont' P (next P (setSlot P f (mkABC .signal a b c).A v))) := by simp [step]
theorem stepc_error (d : Nat) (f : Frame P) : step P (mkD .error d) f = some (M.throw (P.raise (getSlot P f (mkD .error d).A))) := by
  simp [step]

theorem mkD_A (op d) (hd : d < 256) : (mkD op d).A = d := by simp [mkD, Instr.A]; omega

/-- ★ running the code of a shape from an entry frame with at least the slots it uses computes `shapeSem` -/
theorem shape_exec (sh : Shape) (hok : shapeOpsOk sh = true) (s : List P.V) (h1 : 1 ≤ s.length) (hs : 4 ≤ s.length ∨ (∀ op, sh ≠ .getlike op)) (w : P.W) :
    ∃ fuel, exec P (shapeCode sh) fuel ⟨s, 0⟩ w = some (shapeSem P sh s w) := by
  cases sh with
  | ss op =>
    have hm : op ∈ unaryOps := by simpa [shapeOpsOk] using hok
    refine ⟨2, ?_⟩
    simp only [exec, shapeCode, List.getElem?_cons_zero, stepc_unary P op hm, getSlot, M.bind, shapeSem, mkAE_E _ 0 0 (by decide) (by decide)]
    rcases P.unary op (s.getD 0 P.nil) w with ⟨(_ | v), w'⟩
    · rfl
    · simp [exec, shapeCode, stepc_return, getSlot, setSlot, next, cont', M.pure, mkAE_A, mkD_D]
      cases s with
      | nil => simp at h1
      | cons a t => simp
  | sss op =>
    have hm : op ∈ fixedBinOps := by simpa [shapeOpsOk] using hok
    have hop := isBinOp_fixed P op hm
    unfold IsBinOp at hop
    refine ⟨2, ?_⟩
    simp only [exec, shapeCode, List.getElem?_cons_zero, hop, getSlot, M.bind, shapeSem, mkABC_B _ 0 0 1 (by decide) (by decide),
      mkABC_C _ 0 0 1 (by decide) (by decide) (by decide)]
    rcases binop P op (s.getD 0 P.nil) (s.getD 1 P.nil) w with ⟨(_ | v), w'⟩
    · rfl
    · simp [exec, shapeCode, stepc_return, getSlot, setSlot, next, cont', M.pure, mkABC_A, mkD_D]
      cases s with
      | nil => simp at h1
      | cons a t => simp
  | getlike op =>
    have hm : op ∈ fixedBinOps := by simpa [shapeOpsOk] using hok
    have hop := isBinOp_fixed P op hm
    have heq := isBinOp_equals P
    unfold IsBinOp at hop heq
    have h4 : 4 ≤ s.length := by
      rcases hs with h | h
      · exact h
      · exact absurd rfl (h op)
    obtain ⟨a0, a1, a2, a3, rest, rfl⟩ : ∃ a0 a1 a2 a3 rest, s = a0 :: a1 :: a2 :: a3 :: rest := by
      match s, h4 with
      | a0 :: a1 :: a2 :: a3 :: rest, _ => exact ⟨a0, a1, a2, a3, rest, rfl⟩
    refine ⟨5, ?_⟩
    simp only [exec, shapeCode, List.getElem?_cons_zero, hop, getSlot, M.bind, shapeSem, mkABC_B _ 0 0 1 (by decide) (by decide),
      mkABC_C _ 0 0 1 (by decide) (by decide) (by decide), List.getD_cons_zero, List.getD_cons_succ]
    rcases binop P op a0 a1 w with ⟨(_ | v), w'⟩
    · rfl
    · by_cases hv : P.eqv v P.nil = true <;>
        simp [exec, shapeCode, stepc_return, stepc_loadNil, stepc_jumpIf, heq, getSlot, setSlot, next, jumpBy, cont', M.pure, M.bind,
          mkABC_A, mkABC_B, mkABC_C, mkD_D, mkAI_A, mkAI_ES, binop, binopK, kindOf, ofBool, hv, P.truthy_tru, P.truthy_fls]
  | put =>
    refine ⟨2, ?_⟩
    simp only [exec, shapeCode, List.getElem?_cons_zero, stepc_put, getSlot, M.bind, shapeSem, mkABC_A _ 0 1 2 (by decide),
      mkABC_B _ 0 1 2 (by decide) (by decide), mkABC_C _ 0 1 2 (by decide) (by decide) (by decide)]
    rcases P.put3 (s.getD 0 P.nil) (s.getD 1 P.nil) (s.getD 2 P.nil) w with ⟨(_ | v), w'⟩
    · rfl
    · simp [exec, shapeCode, stepc_return, getSlot, next, cont', M.pure, mkD_D]
  | signal k =>
    have hk : k < 256 := by simpa [shapeOpsOk] using hok
    refine ⟨2, ?_⟩
    simp only [exec, shapeCode, List.getElem?_cons_zero, stepc_signal, getSlot, M.bind, shapeSem,
      mkABC_B _ 0 0 k (by decide) (by decide), mkABC_C _ 0 0 k (by decide) (by decide) hk]
    rcases P.signal (s.getD 0 P.nil) k w with ⟨(_ | v), w'⟩
    · rfl
    · simp [exec, shapeCode, stepc_return, getSlot, setSlot, next, cont', M.pure, mkABC_A, mkD_D]
      cases s with
      | nil => simp at h1
      | cons a t => simp
  | error =>
    refine ⟨1, ?_⟩
    simp [exec, shapeCode, stepc_error, getSlot, shapeSem, M.throw, mkD_A]

theorem getlike_two (hnil1 : ∀ v, P.eqv v P.nil = P.isNil v) (hnil2 : ∀ v, P.isNil v = true → v = P.nil) (op : Op) (x y : P.V) :
    binop P op x y = shapeSem P (.getlike op) ([x, y] ++ List.replicate (4 - [x, y].length) P.nil) := by
  have hfun : (fun v => M.pure (if P.eqv v P.nil = true then P.nil else v) : P.V → M P P.V) = M.pure := by
    funext v
    by_cases hv : P.eqv v P.nil = true
    · have := hnil2 v (by rw [← hnil1]; exact hv)
      simp [hv, this]
    · simp [hv]
  show binop P op x y = M.bind (binop P op x y) (fun v => M.pure (if P.eqv v P.nil = true then P.nil else v))
  rw [hfun, M.bind_pure']

theorem replicate_getD0 (n : Nat) (a : P.V) : (List.replicate n a)[0]?.getD a = a := by
  cases n <;> rfl

/-- the value-level model of a fixed-arity specialisation is the meaning of the row's shape on the generic function's entry slots
    (arguments padded with nil) -/
theorem evalInlineFixed_shape (hnil1 : ∀ v, P.eqv v P.nil = P.isNil v) (hnil2 : ∀ v, P.isNil v = true → v = P.nil)
    (r : OptRow) (hr : fixedRowOk r = true) (t : CoreFun) (ht : templateOf r.tag = some t)
    (args : List P.V) (m : M P P.V) (hm : evalInlineFixed P r args = some m) :
    ∃ sh, shapeOf r = some sh ∧ decodesTo t.words (shapeCode sh) = true ∧ shapeOpsOk sh = true ∧
      (match sh with | .getlike _ => t.slots = 4 | .put => t.slots = 3 | .sss _ => t.slots = 2 | .signal _ => t.slots ≥ 1 | _ => t.slots = 1) ∧
      m = shapeSem P sh (frameOf P t.slots args).slots := by
  unfold fixedRowOk at hr
  unfold evalInlineFixed at hm
  split at hm
  · cases hm
  · rename_i hguard
    split at hm <;> rename_i hh <;> (try cases hm) <;> rw [ht] at hr
    case h_1 op x =>
      simp only [shapeOf, hh, Bool.and_eq_true, Bool.not_eq_true', beq_iff_eq] at hr ⊢
      obtain ⟨⟨⟨⟨hd, hops⟩, _⟩, _⟩, hslots⟩ := hr
      exact ⟨_, rfl, hd, hops, hslots, by first | (simp [shapeSem, frameOf, hslots]; done) | (simp [shapeSem, frameOf, hslots]; rfl) | rfl⟩
    case h_2 op x =>
      simp only [shapeOf, hh, Bool.and_eq_true, Bool.not_eq_true', beq_iff_eq] at hr ⊢
      obtain ⟨⟨⟨⟨hd, hops⟩, _⟩, _⟩, hslots⟩ := hr
      exact ⟨_, rfl, hd, hops, hslots, by first | (simp [shapeSem, frameOf, hslots]; done) | (simp [shapeSem, frameOf, hslots]; rfl) | rfl⟩
    case h_3 op x y =>
      simp only [shapeOf, hh, Bool.and_eq_true, Bool.not_eq_true', beq_iff_eq] at hr ⊢
      obtain ⟨⟨⟨⟨hd, hops⟩, _⟩, _⟩, hslots⟩ := hr
      exact ⟨_, rfl, hd, hops, hslots, by first | (simp [shapeSem, frameOf, hslots]; done) | (simp [shapeSem, frameOf, hslots]; rfl) | rfl⟩
    case h_4 op x y =>
      split at hm
      · rename_i hg
        cases hm
        have hg' : r.guard = Guard.eq [2] := by simpa using hg
        by_cases hin : op = Op.in
        · subst hin
          simp only [shapeOf, hh, hg', beq_self_eq_true, if_true, Bool.and_eq_true, Bool.not_eq_true', beq_iff_eq] at hr ⊢
          obtain ⟨⟨⟨⟨hd, hops⟩, _⟩, _⟩, hslots⟩ := hr
          refine ⟨_, rfl, hd, hops, hslots, ?_⟩
          simp only [frameOf, hslots]
          exact getlike_two P hnil1 hnil2 Op.in x y
        · have hb : (op == Op.in) = false := by simpa using hin
          simp only [shapeOf, hh, hg', beq_self_eq_true, if_true, hb, Bool.false_eq_true, if_false, Bool.and_eq_true, Bool.not_eq_true',
            beq_iff_eq] at hr ⊢
          obtain ⟨⟨⟨⟨hd, hops⟩, _⟩, _⟩, hslots⟩ := hr
          exact ⟨_, rfl, hd, hops, hslots, by first | (simp [shapeSem, frameOf, hslots]; done) | (simp [shapeSem, frameOf, hslots]; rfl) | rfl⟩
      · cases hm
    case h_5 x y =>
      simp only [shapeOf, hh, Bool.and_eq_true, Bool.not_eq_true', beq_iff_eq] at hr ⊢
      obtain ⟨⟨⟨⟨hd, hops⟩, _⟩, _⟩, hslots⟩ := hr
      refine ⟨_, rfl, hd, hops, hslots, ?_⟩
      simp only [frameOf, hslots]
      exact getlike_two P hnil1 hnil2 Op.get x y
    case h_6 x y d =>
      simp only [shapeOf, hh, Bool.and_eq_true, Bool.not_eq_true', beq_iff_eq] at hr ⊢
      obtain ⟨⟨⟨⟨hd, hops⟩, _⟩, _⟩, hslots⟩ := hr
      exact ⟨_, rfl, hd, hops, hslots, by simp [shapeSem, frameOf, hslots, hnil1]⟩
    all_goals (
      simp only [shapeOf, hh, Bool.and_eq_true, Bool.not_eq_true', beq_iff_eq, decide_eq_true_eq] at hr ⊢
      obtain ⟨⟨⟨⟨hd, hops⟩, _⟩, _⟩, hslots⟩ := hr
      exact ⟨_, rfl, hd, hops, hslots, by first | (simp [shapeSem, frameOf, hslots, replicate_getD0]; done) | (simp [shapeSem, frameOf, hslots, replicate_getD0]; rfl) | rfl⟩)

/-- ★ a fixed-arity row that passes `fixedRowOk`: the specialised code computes what running the generic function's actual bytecode
    from its entry frame computes, for every admitted argument list.
    `hnil1`/`hnil2`: `janet_equals(v, nil)` is the nil test (the asm bodies of `get`/`in` test `v == nil`, the inline code jumps on nil) -/
theorem fixed_inline_eq_generic_bytecode (hnil1 : ∀ v, P.eqv v P.nil = P.isNil v) (hnil2 : ∀ v, P.isNil v = true → v = P.nil)
    (r : OptRow) (hr : fixedRowOk r = true) (t : CoreFun) (ht : templateOf r.tag = some t)
    (args : List P.V) (m : M P P.V) (hm : evalInlineFixed P r args = some m) (w : P.W) :
    ∃ code fuel, t.words.map decode = code.map some ∧ exec P code fuel (frameOf P t.slots args) w = some (m w) := by
  have key := evalInlineFixed_shape P hnil1 hnil2 r hr t ht args m hm
  obtain ⟨sh, hsh, hd, hops, hslots, hmeq⟩ := key
  have h1 : 1 ≤ (frameOf P t.slots args).slots.length := by
    simp only [frameOf, List.length_append, List.length_replicate]
    cases sh <;> simp only [] at hslots <;> omega
  have h4 : 4 ≤ (frameOf P t.slots args).slots.length ∨ (∀ op, sh ≠ .getlike op) := by
    cases sh with
    | getlike op =>
      left
      simp only [] at hslots
      simp only [frameOf, List.length_append, List.length_replicate]
      omega
    | _ => right; intro op h; cases h
  obtain ⟨fuel, hf⟩ := shape_exec P sh hops (frameOf P t.slots args).slots h1 h4 w
  refine ⟨shapeCode sh, fuel, ?_, ?_⟩
  · simpa [decodesTo] using hd
  · rw [hmeq]
    exact hf

end JanetModel.Spec
