import JanetModel.Bytecode.VM
import JanetModel.Gen.Cfuns

/-!
C15 model: what the compiler's specialisations (cfuns.c `opreduce`, `compreduce`) compute, and what the generic
first-class versions of the same core functions (corelib.c `templatize_varop`, `templatize_comparator`) compute, both as
effectful folds over the argument list with the control structure of the emitted instruction sequence / of the
template's loop.  Core Lean only.
-/

namespace JanetModel.Spec
open JanetModel.Gen.Bytecode JanetModel.Gen.Cfuns JanetModel.Bytecode.VM

variable (P : Prims)

/-- a compiled argument slot: its run-time value and, when the slot is a constant integer that `can_slot_be_imm`
    accepts, that integer -/
structure Arg where
  v : P.V
  imm : Option Int

/-- an immediate operand denotes the number it was taken from (and lies in the int8 range) -/
def Arg.wf (a : Arg P) : Prop := ∀ i, a.imm = some i → a.v = P.num i ∧ immMin ≤ i ∧ i ≤ immMax

def constVal : Const → P.V
  | .nil => P.nil
  | .int n => P.num n

/-- one emitted accumulation instruction: `opim t, acc, imm` when an immediate opcode exists and the operand is an
    immediate constant, else `op t, acc, arg` (cfuns.c `opreduce` / `compreduce` loop body) -/
def stepInline (op : Op) (opim : Option Op) (acc : P.V) (a : Arg P) : M P P.V :=
  match opim, a.imm with
  | some oi, some i => immop P oi acc i
  | _, _ => binop P op acc a.v

/-- `opreduce(opts, args, op, opim, nullary, unary)`; `special` is the hard-coded unary case found in the C body -/
def evalOpreduce (special : Option (Op × Op × Int)) (op : Op) (opim : Option Op) (nullary unary : Const) :
    List (Arg P) → M P P.V
  | [] => M.pure (constVal P nullary)
  | [x] =>
    match special with
    | some (sop, rop, k) => if op = sop then immop P rop x.v k else binop P op (constVal P unary) x.v
    | none => binop P op (constVal P unary) x.v
  | x :: y :: rest => M.bind (stepInline P op opim x.v y) (fun t => M.foldl (stepInline P op opim) t rest)

/-- the generic variadic operator (`templatize_varop`): nullary constant, `unary op x`, else left fold -/
def evalVarop (nullary unary : Int) (op : Op) : List P.V → M P P.V
  | [] => M.pure (P.num nullary)
  | [x] => binop P op (P.num unary) x
  | x :: y :: rest => M.bind (binop P op x y) (fun t => M.foldl (binop P op) t rest)

/-- `compreduce` for at least two arguments: compare neighbours left to right, leave the chain at the first result
    whose truthiness equals `invert` (`JOP_JUMP_IF_NOT` / `JOP_JUMP_IF` to the end), result = last comparison made -/
def goInline (op : Op) (opim : Option Op) (invert : Bool) : P.V → Arg P → List (Arg P) → M P P.V
  | a, b, [] => stepInline P op opim a b
  | a, b, c :: rest =>
    M.bind (stepInline P op opim a b) fun t =>
      if P.truthy t == invert then M.pure t else goInline op opim invert b.v c rest

def evalCompreduce (op : Op) (opim : Option Op) (invert : Bool) : List (Arg P) → M P P.V
  | [] => M.pure (ofBool P (!invert))
  | [_] => M.pure (ofBool P (!invert))
  | x :: y :: rest => goInline P op opim invert x.v y rest

/-- the generic variadic comparator (`templatize_comparator`) for at least two arguments -/
def goGeneric (invert : Bool) (op : Op) : P.V → P.V → List P.V → M P P.V
  | last, nxt, [] =>
    M.bind (binop P op last nxt) fun j => if !P.truthy j then M.pure (ofBool P invert) else M.pure (ofBool P (!invert))
  | last, nxt, c :: rest =>
    M.bind (binop P op last nxt) fun j => if !P.truthy j then M.pure (ofBool P invert) else goGeneric invert op nxt c rest

def evalComparator (invert : Bool) (op : Op) : List P.V → M P P.V
  | [] => M.pure (ofBool P (!invert))
  | [_] => M.pure (ofBool P (!invert))
  | x :: y :: rest => goGeneric P invert op x y rest

/-! ### the two sides of one table row -/

def guardOk : Guard → Nat → Bool
  | .always, _ => true
  | .eq ns, n => ns.contains n
  | .le k, n => n ≤ k
  | .ge k, n => k ≤ n

/-- inline evaluation of a call whose head is the core function of row `r` (variadic families only) -/
def evalInline (r : OptRow) (args : List (Arg P)) : Option (M P P.V) :=
  match r.handler with
  | .opreduce op opim nullary unary => some (evalOpreduce P opreduceUnarySpecial op opim nullary unary args)
  | .compreduce op opim invert => some (evalCompreduce P op opim invert args)
  | _ => none

/-- evaluation of the generic function object built by corelib.c for `t` (variadic families only) -/
def evalGeneric (t : CoreFun) (vals : List P.V) : Option (M P P.V) :=
  match t.kind with
  | .varop nullary unary op => some (evalVarop P nullary unary op vals)
  | .comparator invert op => some (evalComparator P invert op vals)
  | _ => none

/-- the immediate opcode of a row, if any, is the immediate form of the row's opcode -/
def immOk (op : Op) (opim : Option Op) : Bool :=
  match opim with
  | none => true
  | some oi => immBase oi == some op

/-- does the unary special case `special` of `opreduce` apply to this opcode? -/
def isUnarySpecialOf (special : Option (Op × Op × Int)) (op : Op) : Bool :=
  match special with
  | some (sop, _, _) => op == sop
  | none => false

def isUnarySpecial (op : Op) : Bool := isUnarySpecialOf opreduceUnarySpecial op

theorem isUnarySpecialOf_false (special : Option (Op × Op × Int)) (op : Op) (h : isUnarySpecialOf special op = false) :
    ∀ sop rop k, special = some (sop, rop, k) → op ≠ sop := by
  intro sop rop k hs he
  subst hs
  simp [isUnarySpecialOf, he] at h

/-- the checkable agreement condition between a row of `optimizers[]` and the template of the same tag;
    `unaryToo = false` leaves out the unary-special-case conjunct -/
def rowAgrees (unaryToo : Bool) (r : OptRow) (t : CoreFun) : Bool :=
  r.tag == t.tag &&
  match r.handler, t.kind with
  | .opreduce op opim nullary unary, .varop n u opG =>
    op == opG && nullary == .int n && unary == .int u && immOk op opim && r.guard == .always &&
      (!unaryToo || !isUnarySpecial op)
  | .compreduce op opim inv, .comparator invG opG =>
    inv == invG && immOk op opim && r.guard == .always &&
      (if inv then kindOf op == .neq && kindOf opG == .eq else op == opG && (kindOf op == .rel || kindOf op == .eq))
  | _, _ => false

/-- rows of the variadic families (the ones `evalInline` models) -/
def isVariadic (r : OptRow) : Bool :=
  match r.handler with
  | .opreduce _ _ _ _ => r.guard == .always
  | .compreduce _ _ _ => true
  | _ => false

def templateOf (tag : Nat) : Option CoreFun := templates.find? (fun t => t.tag == tag)

/-- fixed-arity rows: whenever the arity guard admits a call, the generic function accepts that arity too, so the
    specialised and the generic route raise an arity error in the same cases -/
def guardWithinArity (r : OptRow) (t : CoreFun) : Bool :=
  (List.range 8).all fun n => !guardOk r.guard n || (t.minArity ≤ n && n ≤ t.maxArity)

/-- shape of the fixed asm body against the handler, for the single-instruction handlers -/
def asmShapeOk (r : OptRow) (t : CoreFun) : Bool :=
  match r.handler with
  | .genericSS op => t.words == [op.toNat, Op.return.toNat]
  | .opfunction op .nil => t.words == [op.toNat + 1 * 2 ^ 24, Op.return.toNat]
  | _ => true

/-- a nil fast path of `if` / `while` (specials.c): the head must be an equality-family comparator row whose sense matches the
    jump that leaves the then-branch / the loop: `(= nil x)` stays while `x` is nil (leave with jump-if-not-nil), `(not= nil x)`
    stays while `x` is not nil (leave with jump-if-nil) -/
def nilPathOk (p : String × String × Op) : Bool :=
  match optimizers.find? (fun r => r.tagName == p.2.1) with
  | some r =>
    match r.handler with
    | .compreduce op _ inv =>
      (kindOf op == .eq && inv == false && p.2.2 == .jumpIfNotNil) || (kindOf op == .neq && inv == true && p.2.2 == .jumpIfNil)
    | _ => false
  | none => false

end JanetModel.Spec
