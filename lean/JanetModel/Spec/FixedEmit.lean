import JanetModel.Spec.Fixed
import JanetModel.Spec.Apply
import JanetModel.Spec.Skeleton

/-!
C15: the code the fixed-arity handlers of cfuns.c EMIT (`do_get` with a default, `do_put`, `genericSS`, `genericSSI` / `do_yield`,
`do_debug`, `do_error`, `opfunction`, fixed-arity `opreduce`), as instruction lists over the caller's registers, run by `VM.exec`.
The opcodes are not written down here: they are read out of the statement skeletons regenerated from cfuns.c
(`Gen.Cfuns.skeletons`, tools/gen/cfuns_skel.py).  Core Lean only.
-/

namespace JanetModel.Spec
open JanetModel.Gen.Bytecode JanetModel.Gen.Cfuns JanetModel.Bytecode.VM

/-- regenerated skeleton of a C body -/
def skeletonOf (name : String) : List SkLine := ((skeletons.find? (fun p => p.1 == name)).map (·.2)).getD []

/-- literal opcodes named by the emit calls and forwarding returns of a C body, in order -/
def handlerOps (name : String) : List Op :=
  (skeletonOf name).filterMap fun l => if l.kind == "emit" || l.kind == "ret" then l.op else none

/-- checkable on the regenerated skeletons: the opcodes the special handlers emit are the ones of the shapes `shapeOf` assigns to their
    rows - `do_get`: `GET`, then the jump that keeps a NON-NIL value (three arguments), `GET` through `opreduce` (two arguments) -/
def specialOpsOk : Bool :=
  handlerOps "do_get" == [.get, .jumpIfNotNil, .get] && handlerOps "do_put" == [.put, .put] &&
  handlerOps "do_yield" == [.signal, .signal] && handlerOps "do_debug" == [.signal] && handlerOps "do_error" == [.error]

/-- the two opcodes of `do_get`'s three-argument path, read from the regenerated skeleton -/
def get3Ops : Op × Op := match handlerOps "do_get" with | g :: j :: _ => (g, j) | _ => (.noop, .noop)


/-! ### the emitted instruction lists (register operands; `t` = target register) -/

/-- `genericSS`: `janetc_emit_ss(c, op, target, s, 1)` -/
def emitSS (op : Op) (t x : Nat) : List Instr := [mkAE op t x]
/-- `opfunction` with two arguments / fixed-arity `opreduce` / two-argument `do_get`: `janetc_emit_sss(c, op, t, args[0], args[1], 1)` -/
def emitSSS (op : Op) (t x y : Nat) : List Instr := [mkABC op t x y]
/-- `opfunction` with one argument: `janetc_emit_sss(c, op, t, args[0], janetc_cslot(nil), 1)`; emit.c loads the constant nil into a
    scratch register `tmp` first -/
def emitSSSnil (op : Op) (t x tmp : Nat) : List Instr := [mkD .loadNil tmp, mkABC op t x tmp]
/-- `genericSSI` (`do_yield`) / `do_debug`: `janetc_emit_ssi(c, op, target, s, k, 1)` -/
def emitSSK (op : Op) (t x k : Nat) : List Instr := [mkABC op t x k]
/-- `do_error`: `janetc_emit_si(c, JOP_ERROR, args[0], 0, 0)` -/
def emitS (op : Op) (x : Nat) : List Instr := [mkD op x]
/-- `do_get` with a default whose register is not the target: `GET t a0 a1; JUMP_IF_NOT_NIL t +2; copy t <- dflt` -/
def emitGet3 (g j : Op) (t a0 a1 d : Nat) : List Instr := [mkABC g t a0 a1, mkAI j t 2, mkAE .moveNear t d]
/-- `do_get` when the target IS the default's register (`target_is_default`): the default is saved in a fresh slot first
    (`janetc_copy(c, dflt_slot, t)`; a near register here, so the copy is a `movn`) -/
def emitGet3Alias (g j : Op) (t a0 a1 far : Nat) : List Instr :=
  [mkAE .moveNear far t, mkABC g t a0 a1, mkAI j t 2, mkAE .moveNear t far]
/-- `do_put` in value position: `copy t <- args[0]; PUT t args[1] args[2]`, result `t` -/
def emitPut (p : Op) (t a0 a1 a2 : Nat) : List Instr := [mkAE .moveNear t a0, mkABC p t a1 a2]
/-- `do_put` with the value dropped: `PUT args[0] args[1] args[2]` -/
def emitPutDrop (p : Op) (a0 a1 a2 : Nat) : List Instr := [mkABC p a0 a1 a2]

/-- `(yield)` / `(debug)`: the operand is the constant nil, loaded into a scratch register -/
def emitSSKnil (op : Op) (t tmp k : Nat) : List Instr := [mkD .loadNil tmp, mkABC op t tmp k]

/-- the code emitted in value position for a call whose row has shape `sh`, operands in the registers `regs`, result in register `t`,
    `tmp` a scratch register the emitter may allocate -/
def emitShape (sh : Shape) (t : Nat) (regs : List Nat) (tmp : Nat) : Option (List Instr) :=
  match sh, regs with
  | .ss op, [x] => some (emitSS op t x)
  | .sss op, [x] => some (emitSSSnil op t x tmp)
  | .sss op, [x, y] => some (emitSSS op t x y)
  | .getlike op, [x, y] => some (emitSSS op t x y)
  | .getlike .get, [x, y, d] => some (if d = t then emitGet3Alias get3Ops.1 get3Ops.2 t x y tmp else emitGet3 get3Ops.1 get3Ops.2 t x y d)
  | .put, [x, y, z] => some (emitPut .put t x y z)
  | .signal k, [] => some (emitSSKnil .signal t tmp k)
  | .signal k, [x] => some (emitSSK .signal t x k)
  | .error, [x] => some (emitS .error x)
  | _, _ => none

/-- frame size of the generic function of a shape (what `fixedRowOk` checks on the template) -/
def slotsFor (sh : Shape) (n : Nat) : Prop :=
  match sh with | .getlike _ => n = 4 | .put => n = 3 | .sss _ => n = 2 | .signal _ => n ≥ 1 | _ => n = 1

theorem shapeOf_put (r : OptRow) (h : shapeOf r = some .put) : r.handler = .special "do_put" := by
  unfold shapeOf at h
  split at h <;> (try split at h) <;> (try split at h) <;> simp_all

variable (P : Prims)

/-- the code at `pc` computes `m` from the slots `s`: an error of `m` is the error of the run (same world); otherwise the run continues at
    `pc'` with slots `upd v` in `m`'s final world - whatever the continuation returns, the whole run returns (within `n` more steps) -/
def Computes (code : List Instr) (s : List P.V) (pc n : Nat) (m : M P P.V) (upd : P.V → List P.V) (pc' : Nat) : Prop :=
  ∀ w, match m w with
    | (.error e, w') => ∀ fuel, exec P code (fuel + n) ⟨s, pc⟩ w = some (.error e, w')
    | (.ok v, w') => ∀ fuel r, exec P code fuel ⟨upd v, pc'⟩ w' = some r → exec P code (fuel + n) ⟨s, pc⟩ w = some r

theorem getD_set_self (s : List P.V) (t : Nat) (v : P.V) (h : t < s.length) : (s.set t v).getD t P.nil = v := by
  simp [List.getD, h]

theorem getD_set_ne (s : List P.V) (t d : Nat) (v : P.V) (h : d ≠ t) : (s.set t v).getD d P.nil = s.getD d P.nil := by
  simp [List.getD, List.getElem?_set_ne (Ne.symm h)]

theorem step_jumpIfNotNil (i : Instr) (f : Frame P) (h : i.op = .jumpIfNotNil) :
    step P i f = some (cont' P (if P.isNil (getSlot P f i.A) then next P f else jumpBy P f i.ES)) := by simp [step, h]
theorem step_moveFar (i : Instr) (f : Frame P) (h : i.op = .moveFar) :
    step P i f = some (cont' P (next P (setSlot P f i.E (getSlot P f i.A)))) := by simp [step, h]
theorem step_loadNil' (i : Instr) (f : Frame P) (h : i.op = .loadNil) :
    step P i f = some (cont' P (next P (setSlot P f i.D P.nil))) := by simp [step, h]

/-- one instruction `stack[t] = stack[x] op stack[y]` -/
theorem sss_computes (op : Op) (hop : IsBinOp P op) (code : List Instr) (s : List P.V) (pc t x y : Nat)
    (ht : t < 256) (hx : x < 256) (hy : y < 256) (hat : HasAt code pc (emitSSS op t x y)) :
    Computes P code s pc 1 (binop P op (s.getD x P.nil) (s.getD y P.nil)) (fun v => s.set t v) (pc + 1) := by
  intro w
  have hc := hat.head
  have hs := hop t x y ⟨s, pc⟩
  simp only [getSlot, mkABC_A _ t x y ht, mkABC_B _ t x y ht hx, mkABC_C _ t x y ht hx hy] at hs
  cases hb : binop P op (s.getD x P.nil) (s.getD y P.nil) w with
  | mk res w' =>
    cases res with
    | error e =>
      intro fuel
      rw [exec_succ P code fuel ⟨s, pc⟩ w _ _ hc hs]
      simp only [M.bind, hb]
    | ok v =>
      intro fuel r hr
      rw [exec_succ P code fuel ⟨s, pc⟩ w _ _ hc hs]
      simp only [M.bind, hb, cont', M.pure, next, setSlot]
      exact hr

/-- ★ `do_get` with a default: the three emitted instructions compute `get`, keep the value unless it is NIL (not: unless it is falsy),
    and otherwise take the default -/
theorem get3_computes (code : List Instr) (s : List P.V) (pc t a0 a1 d : Nat)
    (ht : t < 256) (h0 : a0 < 256) (h1 : a1 < 256) (hd : d < 65536) (hne : d ≠ t) (hlen : t < s.length)
    (hat : HasAt code pc (emitGet3 .get .jumpIfNotNil t a0 a1 d)) :
    Computes P code s pc 3
      (M.bind (binop P .get (s.getD a0 P.nil) (s.getD a1 P.nil)) fun v => M.pure (if P.isNil v then s.getD d P.nil else v))
      (fun v => s.set t v) (pc + 3) := by
  intro w
  have hc0 := hat.head
  have hc1 := hat.tail.head
  have hc2 := hat.tail.tail.head
  have hs0 := isBinOp_fixed P .get (by decide) t a0 a1 ⟨s, pc⟩
  simp only [getSlot, mkABC_A _ t a0 a1 ht, mkABC_B _ t a0 a1 ht h0, mkABC_C _ t a0 a1 ht h0 h1] at hs0
  simp only [M.bind]
  cases hb : binop P .get (s.getD a0 P.nil) (s.getD a1 P.nil) w with
  | mk res w' =>
    cases res with
    | error e =>
      intro fuel
      rw [show fuel + 3 = (fuel + 2) + 1 by omega, exec_succ P code (fuel + 2) ⟨s, pc⟩ w _ _ hc0 hs0]
      simp only [M.bind, hb]
    | ok v =>
      simp only [M.pure]
      intro fuel r hr
      rw [show fuel + 3 = (fuel + 2) + 1 by omega, exec_succ P code (fuel + 2) ⟨s, pc⟩ w _ _ hc0 hs0]
      simp only [M.bind, hb, cont', M.pure, next, setSlot]
      have hs1 : step P (mkAI .jumpIfNotNil t 2) ⟨s.set t v, pc + 1⟩ =
          some (cont' P (if P.isNil v then ⟨s.set t v, pc + 2⟩ else ⟨s.set t v, pc + 3⟩)) := by
        rw [step_jumpIfNotNil P _ _ rfl]
        simp only [getSlot, next, jumpBy, mkAI_A _ t 2 ht, mkAI_ES _ t 2 ht (by omega), getD_set_self P s t v hlen]
        by_cases hn : P.isNil v = true
        · simp [hn]
        · simp only [hn, Bool.false_eq_true, if_false]
          congr 3
      rw [exec_succ P code (fuel + 1) ⟨s.set t v, pc + 1⟩ w' _ _ hc1 hs1]
      simp only [cont', M.pure]
      by_cases hn : P.isNil v = true
      · simp only [hn, if_true] at hr ⊢
        have hs2 := stepc_moveNear P t d ⟨s.set t v, pc + 2⟩
        simp only [getSlot, setSlot, next, mkAE_A _ t d ht, mkAE_E _ t d ht hd, getD_set_ne P s t d v hne, cont', List.set_set] at hs2
        rw [exec_succ P code fuel ⟨s.set t v, pc + 2⟩ w' _ _ hc2 hs2]
        simpa [M.pure] using hr
      · simp only [hn, if_false, Bool.false_eq_true] at hr ⊢
        exact exec_mono P code fuel _ w' r hr (fuel + 1) (by omega)


/-- ★ `do_get` when the target register is the default's register: the default is parked in a fresh slot `far` first, so the write of
    `GET` into the target does not destroy it -/
theorem get3_alias_computes (code : List Instr) (s : List P.V) (pc t a0 a1 far : Nat)
    (ht : t < 256) (h0 : a0 < 256) (h1 : a1 < 256) (hf : far < 256) (hft : far ≠ t) (hf0 : a0 ≠ far) (hf1 : a1 ≠ far) (hlen : t < s.length)
    (hlenf : far < s.length)
    (hat : HasAt code pc (emitGet3Alias .get .jumpIfNotNil t a0 a1 far)) :
    Computes P code s pc 4
      (M.bind (binop P .get (s.getD a0 P.nil) (s.getD a1 P.nil)) fun v => M.pure (if P.isNil v then s.getD t P.nil else v))
      (fun v => (s.set far (s.getD t P.nil)).set t v) (pc + 4) := by
  intro w
  have hc0 := hat.head
  have hs0 := stepc_moveNear P far t ⟨s, pc⟩
  simp only [getSlot, setSlot, next, mkAE_A _ far t hf, mkAE_E _ far t hf (by omega)] at hs0
  have hrest := get3_computes P code (s.set far (s.getD t P.nil)) (pc + 1) t a0 a1 far ht h0 h1 (by omega) hft (by simpa using hlen) hat.tail w
  rw [getD_set_ne P s far a0 _ hf0, getD_set_ne P s far a1 _ hf1, getD_set_self P s far _ hlenf] at hrest
  revert hrest
  cases hm : (M.bind (binop P .get (s.getD a0 P.nil) (s.getD a1 P.nil)) fun v => M.pure (if P.isNil v then s.getD t P.nil else v)) w with
  | mk res w' =>
    cases res with
    | error e =>
      intro hrest fuel
      rw [show fuel + 4 = (fuel + 3) + 1 by omega, exec_succ P code (fuel + 3) ⟨s, pc⟩ w _ _ hc0 hs0]
      exact hrest fuel
    | ok v =>
      intro hrest fuel r hr
      rw [show fuel + 4 = (fuel + 3) + 1 by omega, exec_succ P code (fuel + 3) ⟨s, pc⟩ w _ _ hc0 hs0]
      exact hrest fuel r hr

/-- one instruction `stack[t] = op stack[x]` (`genericSS`: length, bnot) -/
theorem ss_computes (op : Op) (hop : op ∈ unaryOps) (code : List Instr) (s : List P.V) (pc t x : Nat)
    (ht : t < 256) (hx : x < 65536) (hat : HasAt code pc (emitSS op t x)) :
    Computes P code s pc 1 (P.unary op (s.getD x P.nil)) (fun v => s.set t v) (pc + 1) := by
  intro w
  have hc := hat.head
  have hs := stepc_unary P op hop t x ⟨s, pc⟩
  simp only [getSlot, mkAE_A _ t x ht, mkAE_E _ t x ht hx] at hs
  cases hb : P.unary op (s.getD x P.nil) w with
  | mk res w' =>
    cases res with
    | error e =>
      intro fuel
      rw [exec_succ P code fuel ⟨s, pc⟩ w _ _ hc hs]
      simp only [M.bind, hb]
    | ok v =>
      intro fuel r hr
      rw [exec_succ P code fuel ⟨s, pc⟩ w _ _ hc hs]
      simp only [M.bind, hb, cont', M.pure, next, setSlot]
      exact hr

/-- `stack[t] = signal(stack[x], k)` (`genericSSI` for `yield`, `do_debug`) -/
theorem ssk_computes (code : List Instr) (s : List P.V) (pc t x k : Nat)
    (ht : t < 256) (hx : x < 256) (hk : k < 256) (hat : HasAt code pc (emitSSK .signal t x k)) :
    Computes P code s pc 1 (P.signal (s.getD x P.nil) k) (fun v => s.set t v) (pc + 1) := by
  intro w
  have hc := hat.head
  have hs := stepc_signal P t x k ⟨s, pc⟩
  simp only [getSlot, mkABC_A _ t x k ht, mkABC_B _ t x k ht hx, mkABC_C _ t x k ht hx hk] at hs
  cases hb : P.signal (s.getD x P.nil) k w with
  | mk res w' =>
    cases res with
    | error e =>
      intro fuel
      rw [exec_succ P code fuel ⟨s, pc⟩ w _ _ hc hs]
      simp only [M.bind, hb]
    | ok v =>
      intro fuel r hr
      rw [exec_succ P code fuel ⟨s, pc⟩ w _ _ hc hs]
      simp only [M.bind, hb, cont', M.pure, next, setSlot]
      exact hr

/-- `do_error`: the one emitted instruction raises the value of its operand (nothing continues) -/
theorem error_computes (code : List Instr) (s : List P.V) (pc x : Nat) (hx : x < 256) (hat : HasAt code pc (emitS .error x)) (upd) (pc') :
    Computes P code s pc 1 (M.throw (P.raise (s.getD x P.nil))) upd pc' := by
  intro w
  have hc := hat.head
  have hs := stepc_error P x ⟨s, pc⟩
  simp only [getSlot, mkD_A _ x hx] at hs
  simp only [M.throw]
  intro fuel
  rw [exec_succ P code fuel ⟨s, pc⟩ w _ _ hc hs]
  simp only [M.throw]

/-- `opfunction` with the second operand defaulted to the constant nil (`(resume f)`, `(next ds)`, `(cancel f)`): the constant is loaded into
    a scratch register that is not the first operand -/
theorem sssnil_computes (op : Op) (hop : IsBinOp P op) (code : List Instr) (s : List P.V) (pc t x tmp : Nat)
    (ht : t < 256) (hx : x < 256) (htmp : tmp < 256) (hne : x ≠ tmp) (hlen : tmp < s.length) (hat : HasAt code pc (emitSSSnil op t x tmp)) :
    Computes P code s pc 2 (binop P op (s.getD x P.nil) P.nil) (fun v => (s.set tmp P.nil).set t v) (pc + 2) := by
  intro w
  have hc0 := hat.head
  have hs0 := step_loadNil' P (mkD .loadNil tmp) ⟨s, pc⟩ rfl
  simp only [setSlot, next, mkD_D _ tmp (by omega)] at hs0
  have hrest := sss_computes P op hop code (s.set tmp P.nil) (pc + 1) t x tmp ht hx htmp hat.tail w
  rw [getD_set_ne P s tmp x _ hne, getD_set_self P s tmp _ hlen] at hrest
  revert hrest
  cases hm : binop P op (s.getD x P.nil) P.nil w with
  | mk res w' =>
    cases res with
    | error e =>
      intro hrest fuel
      rw [show fuel + 2 = (fuel + 1) + 1 by omega, exec_succ P code (fuel + 1) ⟨s, pc⟩ w _ _ hc0 hs0]
      exact hrest fuel
    | ok v =>
      intro hrest fuel r hr
      rw [show fuel + 2 = (fuel + 1) + 1 by omega, exec_succ P code (fuel + 1) ⟨s, pc⟩ w _ _ hc0 hs0]
      exact hrest fuel r hr

/-- ★ `do_put` in value position: the structure is copied into the target first and key / value are read AFTER that write, so the result
    is right when neither of them lives in the target register (what `reduce_target(opts, args, 1)` guarantees) -/
theorem put_computes (code : List Instr) (s : List P.V) (pc t a0 a1 a2 : Nat)
    (ht : t < 256) (h0 : a0 < 65536) (h1 : a1 < 256) (h2 : a2 < 256) (hn1 : a1 ≠ t) (hn2 : a2 ≠ t) (hlen : t < s.length)
    (hat : HasAt code pc (emitPut .put t a0 a1 a2)) :
    Computes P code s pc 2
      (M.bind (P.put3 (s.getD a0 P.nil) (s.getD a1 P.nil) (s.getD a2 P.nil)) fun _ => M.pure (s.getD a0 P.nil))
      (fun v => s.set t v) (pc + 2) := by
  intro w
  have hc0 := hat.head
  have hc1 := hat.tail.head
  have hs0 := stepc_moveNear P t a0 ⟨s, pc⟩
  simp only [getSlot, setSlot, next, mkAE_A _ t a0 ht, mkAE_E _ t a0 ht h0] at hs0
  have hs1 := stepc_put P t a1 a2 ⟨s.set t (s.getD a0 P.nil), pc + 1⟩
  simp only [getSlot, next, mkABC_A _ t a1 a2 ht, mkABC_B _ t a1 a2 ht h1, mkABC_C _ t a1 a2 ht h1 h2,
    getD_set_self P s t _ hlen, getD_set_ne P s t a1 _ hn1, getD_set_ne P s t a2 _ hn2] at hs1
  simp only [M.bind]
  cases hb : P.put3 (s.getD a0 P.nil) (s.getD a1 P.nil) (s.getD a2 P.nil) w with
  | mk res w' =>
    cases res with
    | error e =>
      intro fuel
      rw [show fuel + 2 = (fuel + 1) + 1 by omega, exec_succ P code (fuel + 1) ⟨s, pc⟩ w _ _ hc0 hs0]
      simp only [cont', M.pure]
      rw [exec_succ P code fuel _ w _ _ hc1 hs1]
      simp only [M.bind, hb]
    | ok u =>
      simp only [M.pure]
      intro fuel r hr
      rw [show fuel + 2 = (fuel + 1) + 1 by omega, exec_succ P code (fuel + 1) ⟨s, pc⟩ w _ _ hc0 hs0]
      simp only [cont', M.pure]
      rw [exec_succ P code fuel _ w _ _ hc1 hs1]
      simp only [M.bind, hb, cont', M.pure]
      exact hr

/-- `do_put` with the value dropped: one `PUT` on the operands themselves -/
theorem put_drop_computes (code : List Instr) (s : List P.V) (pc a0 a1 a2 : Nat)
    (h0 : a0 < 256) (h1 : a1 < 256) (h2 : a2 < 256) (hat : HasAt code pc (emitPutDrop .put a0 a1 a2)) :
    Computes P code s pc 1
      (M.bind (P.put3 (s.getD a0 P.nil) (s.getD a1 P.nil) (s.getD a2 P.nil)) fun _ => M.pure (s.getD a0 P.nil))
      (fun _ => s) (pc + 1) := by
  intro w
  have hc0 := hat.head
  have hs1 := stepc_put P a0 a1 a2 ⟨s, pc⟩
  simp only [getSlot, next, mkABC_A _ a0 a1 a2 h0, mkABC_B _ a0 a1 a2 h0 h1, mkABC_C _ a0 a1 a2 h0 h1 h2] at hs1
  simp only [M.bind]
  cases hb : P.put3 (s.getD a0 P.nil) (s.getD a1 P.nil) (s.getD a2 P.nil) w with
  | mk res w' =>
    cases res with
    | error e =>
      intro fuel
      rw [exec_succ P code fuel ⟨s, pc⟩ w _ _ hc0 hs1]
      simp only [M.bind, hb]
    | ok u =>
      simp only [M.pure]
      intro fuel r hr
      rw [exec_succ P code fuel ⟨s, pc⟩ w _ _ hc0 hs1]
      simp only [M.bind, hb, cont', M.pure]
      exact hr


theorem ssknil_computes (code : List Instr) (s : List P.V) (pc t tmp k : Nat)
    (ht : t < 256) (htmp : tmp < 256) (hk : k < 256) (hlen : tmp < s.length) (hat : HasAt code pc (emitSSKnil .signal t tmp k)) :
    Computes P code s pc 2 (P.signal P.nil k) (fun v => (s.set tmp P.nil).set t v) (pc + 2) := by
  intro w
  have hc0 := hat.head
  have hs0 := step_loadNil' P (mkD .loadNil tmp) ⟨s, pc⟩ rfl
  simp only [setSlot, next, mkD_D _ tmp (by omega)] at hs0
  have hrest := ssk_computes P code (s.set tmp P.nil) (pc + 1) t tmp k ht htmp hk hat.tail w
  rw [getD_set_self P s tmp _ hlen] at hrest
  revert hrest
  cases hm : P.signal P.nil k w with
  | mk res w' =>
    cases res with
    | error e =>
      intro hrest fuel
      rw [show fuel + 2 = (fuel + 1) + 1 by omega, exec_succ P code (fuel + 1) ⟨s, pc⟩ w _ _ hc0 hs0]
      exact hrest fuel
    | ok v =>
      intro hrest fuel r hr
      rw [show fuel + 2 = (fuel + 1) + 1 by omega, exec_succ P code (fuel + 1) ⟨s, pc⟩ w _ _ hc0 hs0]
      exact hrest fuel r hr

theorem get3Ops_ok (h : specialOpsOk = true) : get3Ops = (.get, .jumpIfNotNil) := by
  unfold specialOpsOk at h
  simp only [Bool.and_eq_true, beq_iff_eq] at h
  unfold get3Ops
  rw [h.1.1.1.1]

theorem getD_set_set_ne (s : List P.V) (a b k : Nat) (u v : P.V) (ha : k ≠ a) (hb : k ≠ b) :
    ((s.set a u).set b v).getD k P.nil = s.getD k P.nil := by
  rw [getD_set_ne P _ b k v hb, getD_set_ne P s a k u ha]

/-- ★ the code a fixed-arity specialisation emits in value position (shape of its row, arity, operands in registers) computes the meaning
    of the row's shape on the generic function's entry slots - i.e. what `shape_exec` shows the generic function's real bytecode computes
    from the same argument values - into the target register, and changes no other register than the scratch one.
    Side conditions are the emitter's: registers of 8 bits, scratch register fresh, the frame holds the registers; for `put` the key and
    value registers are not the target (`reduce_target`). -/
theorem shape_emit_computes (hnil1 : ∀ v, P.eqv v P.nil = P.isNil v) (hnil2 : ∀ v, P.isNil v = true → v = P.nil)
    (hops : specialOpsOk = true) (sh : Shape) (hok : shapeOpsOk sh = true) (t tmp : Nat) (regs : List Nat) (seg : List Instr)
    (hem : emitShape sh t regs tmp = some seg) (slots : Nat)
    (hslots : slotsFor sh slots)
    (code : List Instr) (s : List P.V) (pc : Nat) (hat : HasAt code pc seg)
    (ht : t < 256) (htmp : tmp < 256) (hregs : ∀ x ∈ regs, x < 256) (htt : tmp ≠ t) (htr : ∀ x ∈ regs, x ≠ tmp)
    (hlen : t < s.length) (hlent : tmp < s.length) (hput : sh = .put → ∀ x ∈ regs.drop 1, x ≠ t) :
    ∃ upd, Computes P code s pc seg.length (shapeSem P sh (frameOf P slots (regs.map (s.getD · P.nil))).slots) upd (pc + seg.length) ∧
      (∀ v, (upd v).getD t P.nil = v) ∧ ∀ v k, k ≠ t → k ≠ tmp → (upd v).getD k P.nil = s.getD k P.nil := by
  have hg3 := get3Ops_ok hops
  have hset : ∀ v, (s.set t v).getD t P.nil = v := fun v => getD_set_self P s t v hlen
  have hset2 : ∀ u v, ((s.set tmp u).set t v).getD t P.nil = v := fun u v => getD_set_self P _ t v (by simpa using hlen)
  have hoth : ∀ (v : P.V) k, k ≠ t → k ≠ tmp → (s.set t v).getD k P.nil = s.getD k P.nil := fun v k h1 _ => getD_set_ne P s t k v h1
  have hoth2 : ∀ (u v : P.V) k, k ≠ t → k ≠ tmp → ((s.set tmp u).set t v).getD k P.nil = s.getD k P.nil :=
    fun u v k h1 h2 => getD_set_set_ne P s tmp t k u v h2 h1
  match sh, regs, hem with
  | .ss op, [x], hem =>
    cases hem
    have hm : op ∈ unaryOps := by simpa [shapeOpsOk] using hok
    simp only [slotsFor] at hslots
    refine ⟨fun v => s.set t v, ?_, hset, hoth⟩
    have := ss_computes P op hm code s pc t x ht (by have := hregs x (by simp); omega) hat
    simpa [shapeSem, frameOf, hslots, emitSS] using this
  | .sss op, [x], hem =>
    cases hem
    have hm : op ∈ fixedBinOps := by simpa [shapeOpsOk] using hok
    simp only [slotsFor] at hslots
    refine ⟨fun v => (s.set tmp P.nil).set t v, ?_, hset2 _, hoth2 _⟩
    have := sssnil_computes P op (isBinOp_fixed P op hm) code s pc t x tmp ht (hregs x (by simp)) htmp (htr x (by simp)) hlent hat
    simpa [shapeSem, frameOf, hslots, emitSSSnil] using this
  | .sss op, [x, y], hem =>
    cases hem
    have hm : op ∈ fixedBinOps := by simpa [shapeOpsOk] using hok
    simp only [slotsFor] at hslots
    refine ⟨fun v => s.set t v, ?_, hset, hoth⟩
    have := sss_computes P op (isBinOp_fixed P op hm) code s pc t x y ht (hregs x (by simp)) (hregs y (by simp)) hat
    simpa [shapeSem, frameOf, hslots, emitSSS] using this
  | .getlike op, [x, y], hem =>
    cases hem
    have hm : op ∈ fixedBinOps := by simpa [shapeOpsOk] using hok
    simp only [slotsFor] at hslots
    refine ⟨fun v => s.set t v, ?_, hset, hoth⟩
    have := sss_computes P op (isBinOp_fixed P op hm) code s pc t x y ht (hregs x (by simp)) (hregs y (by simp)) hat
    have h2 := getlike_two P hnil1 hnil2 op (s.getD x P.nil) (s.getD y P.nil)
    simp only [frameOf, hslots, List.map_cons, List.map_nil, emitSSS] at this ⊢
    rw [← h2]
    exact this
  | .getlike .get, [x, y, d], hem =>
    simp only [emitShape, Option.some.injEq] at hem
    simp only [slotsFor] at hslots
    rw [hg3] at hem
    have hsem : shapeSem P (.getlike .get) (frameOf P slots ([x, y, d].map (s.getD · P.nil))).slots =
        M.bind (binop P .get (s.getD x P.nil) (s.getD y P.nil)) fun v => M.pure (if P.isNil v then s.getD d P.nil else v) := by
      simp [shapeSem, frameOf, hslots, hnil1]
    rw [hsem]
    by_cases hdt : d = t
    · rw [if_pos hdt] at hem
      subst hem
      subst hdt
      refine ⟨fun v => (s.set tmp (s.getD d P.nil)).set d v, ?_, hset2 _, hoth2 _⟩
      exact get3_alias_computes P code s pc d x y tmp ht (hregs x (by simp)) (hregs y (by simp)) htmp htt (htr x (by simp))
        (htr y (by simp)) hlen hlent hat
    · rw [if_neg hdt] at hem
      subst hem
      refine ⟨fun v => s.set t v, ?_, hset, hoth⟩
      exact get3_computes P code s pc t x y d ht (hregs x (by simp)) (hregs y (by simp)) (by have := hregs d (by simp); omega) hdt hlen hat
  | .put, [x, y, z], hem =>
    cases hem
    simp only [slotsFor] at hslots
    have hp := hput rfl
    refine ⟨fun v => s.set t v, ?_, hset, hoth⟩
    have := put_computes P code s pc t x y z ht (by have := hregs x (by simp); omega) (hregs y (by simp)) (hregs z (by simp))
      (hp y (by simp)) (hp z (by simp)) hlen hat
    simpa [shapeSem, frameOf, hslots, emitPut] using this
  | .signal k, [], hem =>
    cases hem
    have hk : k < 256 := by simpa [shapeOpsOk] using hok
    simp only [slotsFor] at hslots
    refine ⟨fun v => (s.set tmp P.nil).set t v, ?_, hset2 _, hoth2 _⟩
    have := ssknil_computes P code s pc t tmp k ht htmp hk hlent hat
    have h0 : (List.replicate slots P.nil)[0]?.getD P.nil = P.nil := replicate_getD0 P slots P.nil
    simpa [shapeSem, frameOf, emitSSKnil, h0] using this
  | .signal k, [x], hem =>
    cases hem
    have hk : k < 256 := by simpa [shapeOpsOk] using hok
    refine ⟨fun v => s.set t v, ?_, hset, hoth⟩
    have := ssk_computes P code s pc t x k ht (hregs x (by simp)) hk hat
    simpa [shapeSem, frameOf, emitSSK] using this
  | .error, [x], hem =>
    cases hem
    refine ⟨fun v => s.set t v, ?_, hset, hoth⟩
    have := error_computes P code s pc x (hregs x (by simp)) hat (fun v => s.set t v) (pc + 1)
    simpa [shapeSem, frameOf, emitS] using this

end JanetModel.Spec
