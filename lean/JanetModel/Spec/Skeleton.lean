import JanetModel.Gen.Cfuns

/-!
C15: the statement skeletons of the C bodies the Lean model of the specialisations mirrors by hand, as they were when the model was
written / last validated (generated once by `tools.gen.cfuns.expected_skeletons_lean`, then kept by hand).  `Props.C15.skeleton_*_ok`
compare them with the skeletons regenerated from the tree under test.
-/

namespace JanetModel.Spec.Skeleton
open JanetModel.Gen.Bytecode JanetModel.Gen.Cfuns

def genericSS : List SkLine :=
   [⟨0, "let", none, "$0 = janetc_gettarget(p0)"⟩,
    ⟨0, "emit", none, "ss p1 ($0, p2, 1)"⟩,
    ⟨0, "ret", none, "$0"⟩]

def genericSSI : List SkLine :=
   [⟨0, "let", none, "$0 = janetc_gettarget(p0)"⟩,
    ⟨0, "emit", none, "ssi p1 ($0, p2, p3, 1)"⟩,
    ⟨0, "ret", none, "$0"⟩]

def opfunction : List SkLine :=
   [⟨0, "if", none, "janet_v_count(p1) == 1"⟩,
    ⟨1, "let", none, "$0 = janetc_gettarget(p0)"⟩,
    ⟨1, "emit", none, "sss p2 ($0, p1[0], janetc_cslot(p3), 1)"⟩,
    ⟨1, "ret", none, "$0"⟩,
    ⟨0, "else", none, ""⟩,
    ⟨1, "let", none, "$0 = janetc_gettarget(p0)"⟩,
    ⟨1, "emit", none, "sss p2 ($0, p1[0], p1[1], 1)"⟩,
    ⟨0, "ret", none, "$0"⟩]

def can_be_imm : List SkLine :=
   [⟨0, "if", none, "!janet_checkint(p0)"⟩,
    ⟨1, "ret", none, "0"⟩,
    ⟨0, "if", none, "janet_unwrap_integer(p0) > INT8_MAX || janet_unwrap_integer(p0) < INT8_MIN"⟩,
    ⟨1, "ret", none, "0"⟩,
    ⟨0, "if", none, "janet_unwrap_integer(p0) == 0 && 1.0/janet_unwrap_number(p0) < 0"⟩,
    ⟨1, "ret", none, "0"⟩,
    ⟨0, "set", none, "*p1 = (int8_t)janet_unwrap_integer(p0)"⟩,
    ⟨0, "ret", none, "1"⟩]

def can_slot_be_imm : List SkLine :=
   [⟨0, "if", none, "!(p0.flags & JANET_SLOT_CONSTANT)"⟩,
    ⟨1, "ret", none, "0"⟩,
    ⟨0, "ret", none, "can_be_imm(p0.constant, p1)"⟩]

def reduce_target : List SkLine :=
   [⟨0, "if", none, "p0.flags & JANET_FOPTS_HINT"⟩,
    ⟨1, "for", none, "$0 = p2; $0 < janet_v_count(p1); $0++"⟩,
    ⟨2, "if", none, "!(p1[$0].flags & (JANET_SLOT_CONSTANT | JANET_SLOT_REF)) && p1[$0].envindex == p0.hint.envindex && p1[$0].index == p0.hint.index"⟩,
    ⟨3, "set", none, "p0.flags &= ~JANET_FOPTS_HINT"⟩,
    ⟨3, "break", none, ""⟩,
    ⟨0, "ret", none, "janetc_gettarget(p0)"⟩]

/-- `opreduce` (since `fix: variadic arithmetic reads its variable operands before the first step`, /repo 016fa0d): operands from the third on
    with `JANET_SLOT_MUTABLE` are copied into fresh slots BEFORE the first instruction (model: `Spec.snapshotArgs` / `Spec.emitOpreduceSnap`);
    the body without that loop is NOT accepted any more - reverting the fix fails `skeleton_opreduce_ok` -/
def opreduce : List SkLine :=
   [⟨0, "let", none, "$0 = 0"⟩,
    ⟨0, "if", none, "janet_v_count(p1) == 0"⟩,
    ⟨1, "ret", none, "janetc_cslot(p4)"⟩,
    ⟨0, "else", none, ""⟩,
    ⟨1, "if", none, "janet_v_count(p1) == 1"⟩,
    ⟨2, "let", none, "$1 = janetc_gettarget(p0)"⟩,
    ⟨2, "if", some .subtract, "p2 == JOP_SUBTRACT"⟩,
    ⟨3, "emit", some .multiplyImmediate, "ssi JOP_MULTIPLY_IMMEDIATE ($1, p1[0], -1, 1)"⟩,
    ⟨2, "else", none, ""⟩,
    ⟨3, "emit", none, "sss p2 ($1, janetc_cslot(p5), p1[0], 1)"⟩,
    ⟨2, "ret", none, "$1"⟩,
    ⟨0, "for", none, "$2 = 2; $2 < janet_v_count(p1); $2++"⟩,
    ⟨1, "if", none, "p1[$2].flags & JANET_SLOT_MUTABLE"⟩,
    ⟨2, "let", none, "$3 = janetc_farslot(p0.compiler)"⟩,
    ⟨2, "call", none, "janetc_copy(p0.compiler, $3, p1[$2])"⟩,
    ⟨2, "set", none, "p1[$2] = $3"⟩,
    ⟨0, "let", none, "$1 = reduce_target(p0, p1, 2)"⟩,
    ⟨0, "if", none, "p3 && can_slot_be_imm(p1[1], &$0)"⟩,
    ⟨1, "emit", none, "ssi p3 ($1, p1[0], $0, 1)"⟩,
    ⟨0, "else", none, ""⟩,
    ⟨1, "emit", none, "sss p2 ($1, p1[0], p1[1], 1)"⟩,
    ⟨0, "for", none, "$2 = 2; $2 < janet_v_count(p1); $2++"⟩,
    ⟨1, "if", none, "p3 && can_slot_be_imm(p1[$2], &$0)"⟩,
    ⟨2, "emit", none, "ssi p3 ($1, $1, $0, 1)"⟩,
    ⟨1, "else", none, ""⟩,
    ⟨2, "emit", none, "sss p2 ($1, $1, p1[$2], 1)"⟩,
    ⟨0, "ret", none, "$1"⟩]

def compreduce : List SkLine :=
   [⟨0, "let", none, "$0 = 0"⟩,
    ⟨0, "let", none, "$1 = NULL"⟩,
    ⟨0, "if", none, "janet_v_count(p1) < 2"⟩,
    ⟨1, "ret", none, "p4 ? janetc_cslot(janet_wrap_false()) : janetc_cslot(janet_wrap_true())"⟩,
    ⟨0, "let", none, "$2 = reduce_target(p0, p1, 1)"⟩,
    ⟨0, "for", none, "$3 = 1; $3 < janet_v_count(p1); $3++"⟩,
    ⟨1, "if", none, "p3 && can_slot_be_imm(p1[$3], &$0)"⟩,
    ⟨2, "emit", none, "ssi p3 ($2, p1[$3 - 1], $0, 1)"⟩,
    ⟨1, "else", none, ""⟩,
    ⟨2, "emit", none, "sss p2 ($2, p1[$3 - 1], p1[$3], 1)"⟩,
    ⟨1, "if", none, "$3 != (janet_v_count(p1) - 1)"⟩,
    ⟨2, "emit", some .jumpIf, "$4 = si p4 ? JOP_JUMP_IF : JOP_JUMP_IF_NOT ($2, 0, 1)"⟩,
    ⟨2, "call", none, "janet_v_push($1, $4)"⟩,
    ⟨0, "let", none, "$5 = janet_v_count(p0.compiler->buffer)"⟩,
    ⟨0, "for", none, "$3 = 0; $3 < janet_v_count($1); $3++"⟩,
    ⟨1, "let", none, "$4 = $1[$3]"⟩,
    ⟨1, "set", none, "p0.compiler->buffer[$4] |= ($5 - $4) << 16"⟩,
    ⟨0, "call", none, "janet_v_free($1)"⟩,
    ⟨0, "ret", none, "$2"⟩]

def janetc_funopt : List SkLine :=
   [⟨0, "if", none, "(p0 & JANET_FUNCDEF_FLAG_TAG) == 0"⟩,
    ⟨1, "ret", none, "NULL"⟩,
    ⟨0, "if", none, "((p0 & JANET_FUNCDEF_FLAG_TAG) - 1) >= (sizeof(optimizers)/sizeof(optimizers[0]))"⟩,
    ⟨1, "ret", none, "NULL"⟩,
    ⟨0, "ret", none, "optimizers + ((p0 & JANET_FUNCDEF_FLAG_TAG) - 1)"⟩]

def do_apply : List SkLine :=
   [⟨0, "for", none, "$0 = 1; $0 < janet_v_count(p1) - 3; $0 += 3"⟩,
    ⟨1, "emit", some .push3, "sss JOP_PUSH_3 (p1[$0], p1[$0 + 1], p1[$0 + 2], 0)"⟩,
    ⟨0, "if", none, "$0 == janet_v_count(p1) - 3"⟩,
    ⟨1, "emit", some .push2, "ss JOP_PUSH_2 (p1[$0], p1[$0 + 1], 0)"⟩,
    ⟨0, "else", none, ""⟩,
    ⟨1, "if", none, "$0 == janet_v_count(p1) - 2"⟩,
    ⟨2, "emit", some .push, "s JOP_PUSH (p1[$0], 0)"⟩,
    ⟨0, "emit", some .pushArray, "s JOP_PUSH_ARRAY (janet_v_last(p1), 0)"⟩,
    ⟨0, "if", none, "p0.flags & JANET_FOPTS_TAIL"⟩,
    ⟨1, "emit", some .tailcall, "s JOP_TAILCALL (p1[0], 0)"⟩,
    ⟨1, "let", none, "$1 = janetc_cslot(janet_wrap_nil())"⟩,
    ⟨1, "set", none, "$1.flags |= JANET_SLOT_RETURNED"⟩,
    ⟨0, "else", none, ""⟩,
    ⟨1, "let", none, "$1 = janetc_gettarget(p0)"⟩,
    ⟨1, "emit", some .call, "ss JOP_CALL ($1, p1[0], 1)"⟩,
    ⟨0, "ret", none, "$1"⟩]

def do_debug : List SkLine :=
   [⟨0, "let", none, "$0 = janetc_gettarget(p0)"⟩,
    ⟨0, "emit", some .signal, "ssu JOP_SIGNAL ($0, (janet_v_count(p1) == 1) ? p1[0] : janetc_cslot(janet_wrap_nil()), JANET_SIGNAL_DEBUG, 1)"⟩,
    ⟨0, "ret", none, "$0"⟩]

def do_error : List SkLine :=
   [⟨0, "emit", some .error, "si JOP_ERROR (p1[0], 0, 0)"⟩,
    ⟨0, "ret", none, "janetc_cslot(janet_wrap_nil())"⟩]

def do_get : List SkLine :=
   [⟨0, "if", none, "janet_v_count(p1) == 3"⟩,
    ⟨1, "let", none, "$0 = janetc_gettarget(p0)"⟩,
    ⟨1, "let", none, "$1 = p1[2]"⟩,
    ⟨1, "if", none, "janetc_sequal($0, p1[2])"⟩,
    ⟨2, "let", none, "$1 = janetc_farslot(p0.compiler)"⟩,
    ⟨2, "call", none, "janetc_copy(p0.compiler, $1, $0)"⟩,
    ⟨1, "emit", some .get, "sss JOP_GET ($0, p1[0], p1[1], 1)"⟩,
    ⟨1, "emit", some .jumpIfNotNil, "$2 = si JOP_JUMP_IF_NOT_NIL ($0, 0, 0)"⟩,
    ⟨1, "call", none, "janetc_copy(p0.compiler, $0, $1)"⟩,
    ⟨1, "if", none, "janetc_sequal($0, p1[2])"⟩,
    ⟨2, "call", none, "janetc_freeslot(p0.compiler, $1)"⟩,
    ⟨1, "let", none, "$3 = janet_v_count(p0.compiler->buffer)"⟩,
    ⟨1, "set", none, "p0.compiler->buffer[$2] |= ($3 - $2) << 16"⟩,
    ⟨1, "ret", none, "$0"⟩,
    ⟨0, "else", none, ""⟩,
    ⟨1, "ret", some .get, "opreduce(p0, p1, JOP_GET, 0, janet_wrap_nil(), janet_wrap_nil())"⟩]

def do_put : List SkLine :=
   [⟨0, "if", none, "p0.flags & JANET_FOPTS_DROP"⟩,
    ⟨1, "emit", some .put, "sss JOP_PUT (p1[0], p1[1], p1[2], 0)"⟩,
    ⟨1, "ret", none, "janetc_cslot(janet_wrap_nil())"⟩,
    ⟨0, "else", none, ""⟩,
    ⟨1, "let", none, "$0 = reduce_target(p0, p1, 1)"⟩,
    ⟨1, "call", none, "janetc_copy(p0.compiler, $0, p1[0])"⟩,
    ⟨1, "emit", some .put, "sss JOP_PUT ($0, p1[1], p1[2], 0)"⟩,
    ⟨1, "ret", none, "$0"⟩]

def do_yield : List SkLine :=
   [⟨0, "if", none, "janet_v_count(p1) == 0"⟩,
    ⟨1, "ret", some .signal, "genericSSI(p0, JOP_SIGNAL, janetc_cslot(janet_wrap_nil()), 3)"⟩,
    ⟨0, "else", none, ""⟩,
    ⟨1, "ret", some .signal, "genericSSI(p0, JOP_SIGNAL, p1[0], 3)"⟩]

def janet_quick_asm : List SkLine :=
   [⟨0, "let", none, "$0 = janet_funcdef_alloc()"⟩,
    ⟨0, "set", none, "$0->arity = p3"⟩,
    ⟨0, "set", none, "$0->min_arity = p4"⟩,
    ⟨0, "set", none, "$0->max_arity = p5"⟩,
    ⟨0, "set", none, "$0->flags = p1"⟩,
    ⟨0, "set", none, "$0->slotcount = p6"⟩,
    ⟨0, "set", none, "$0->bytecode = janet_malloc(p8)"⟩,
    ⟨0, "set", none, "$0->bytecode_length = (int32_t)(p8/sizeof(uint32_t))"⟩,
    ⟨0, "set", none, "$0->name = janet_cstring(p2)"⟩,
    ⟨0, "if", none, "!$0->bytecode"⟩,
    ⟨1, "call", none, "JANET_OUT_OF_MEMORY"⟩,
    ⟨0, "call", none, "memcpy($0->bytecode, p7, p8)"⟩,
    ⟨0, "call", none, "janet_def_addflags($0)"⟩,
    ⟨0, "call", none, "janet_def(p0, p2, janet_wrap_function(janet_thunk($0)), p9)"⟩]

/-- `(set x v)` (specials.c): a slot without `JANET_SLOT_MUTABLE` is refused ("cannot set constant") before anything is emitted; this is the
    only compiler path that assigns a named local / upvalue / global variable (hypothesis `himmune` of `opreduce_snapshot_chain_computes`) -/
def janetc_varset : List SkLine :=
   [⟨0, "if", none, "p1 != 2"⟩,
    ⟨1, "call", none, "janetc_cerror(p0.compiler, \"expected 2 arguments to set\")"⟩,
    ⟨1, "ret", none, "janetc_cslot(janet_wrap_nil())"⟩,
    ⟨0, "let", none, "$0 = janetc_fopts_default(p0.compiler)"⟩,
    ⟨0, "if", none, "janet_checktype(p2[0], JANET_SYMBOL)"⟩,
    ⟨1, "let", none, "$1 = janet_unwrap_symbol(p2[0])"⟩,
    ⟨1, "let", none, "$2 = janetc_resolve(p0.compiler, $1)"⟩,
    ⟨1, "if", none, "!($2.flags & JANET_SLOT_MUTABLE)"⟩,
    ⟨2, "call", none, "janetc_cerror(p0.compiler, \"cannot set constant\")"⟩,
    ⟨2, "ret", none, "janetc_cslot(janet_wrap_nil())"⟩,
    ⟨1, "set", none, "$0.flags = JANET_FOPTS_HINT"⟩,
    ⟨1, "set", none, "$0.hint = $2"⟩,
    ⟨1, "let", none, "$3 = janetc_value($0, p2[1])"⟩,
    ⟨1, "call", none, "janetc_copy(p0.compiler, $2, $3)"⟩,
    ⟨1, "ret", none, "$3"⟩,
    ⟨0, "else", none, ""⟩,
    ⟨1, "if", none, "janet_checktype(p2[0], JANET_TUPLE)"⟩,
    ⟨2, "let", none, "$4 = janet_unwrap_tuple(p2[0])"⟩,
    ⟨2, "if", none, "janet_tuple_length($4) != 2"⟩,
    ⟨3, "call", none, "janetc_cerror(p0.compiler, \"expected 2 element tuple for l-value to set\")"⟩,
    ⟨3, "ret", none, "janetc_cslot(janet_wrap_nil())"⟩,
    ⟨2, "let", none, "$5 = janetc_value($0, $4[0])"⟩,
    ⟨2, "let", none, "$6 = janetc_value($0, $4[1])"⟩,
    ⟨2, "set", none, "p0.flags &= ~(JANET_FOPTS_TAIL | JANET_FOPTS_DROP)"⟩,
    ⟨2, "let", none, "$7 = janetc_value(p0, p2[1])"⟩,
    ⟨2, "emit", some .put, "sss JOP_PUT ($5, $6, $7, 0)"⟩,
    ⟨2, "ret", none, "$7"⟩,
    ⟨1, "else", none, ""⟩,
    ⟨2, "call", none, "janetc_cerror(p0.compiler, \"expected symbol or tuple for l-value to set\")"⟩,
    ⟨2, "ret", none, "janetc_cslot(janet_wrap_nil())"⟩]

def janetc_check_nil_form : List SkLine :=
   [⟨0, "if", none, "!janet_checktype(p0, JANET_TUPLE)"⟩,
    ⟨1, "ret", none, "0"⟩,
    ⟨0, "let", none, "$0 = janet_unwrap_tuple(p0)"⟩,
    ⟨0, "if", none, "3 != janet_tuple_length($0)"⟩,
    ⟨1, "ret", none, "0"⟩,
    ⟨0, "if", none, "!janet_checktype($0[0], JANET_FUNCTION)"⟩,
    ⟨1, "ret", none, "0"⟩,
    ⟨0, "let", none, "$1 = janet_unwrap_function($0[0])"⟩,
    ⟨0, "if", none, "($1->def->flags & JANET_FUNCDEF_FLAG_TAG) != p2"⟩,
    ⟨1, "ret", none, "0"⟩,
    ⟨0, "if", none, "janet_checktype($0[1], JANET_NIL)"⟩,
    ⟨1, "set", none, "*p1 = $0[2]"⟩,
    ⟨1, "ret", none, "1"⟩,
    ⟨0, "else", none, ""⟩,
    ⟨1, "if", none, "janet_checktype($0[2], JANET_NIL)"⟩,
    ⟨2, "set", none, "*p1 = $0[1]"⟩,
    ⟨2, "ret", none, "1"⟩,
    ⟨0, "ret", none, "0"⟩]

def janetc_movenear : List SkLine :=
   [⟨0, "if", none, "p2.flags & (JANET_SLOT_CONSTANT | JANET_SLOT_REF)"⟩,
    ⟨1, "call", none, "janetc_loadconst(p0, p2.constant, p1)"⟩,
    ⟨1, "if", none, "p2.flags & JANET_SLOT_REF"⟩,
    ⟨2, "call", some .getIndex, "janetc_emit(p0, (p1 << 16) | (p1 << 8) | JOP_GET_INDEX)"⟩,
    ⟨0, "else", none, ""⟩,
    ⟨1, "if", none, "p2.envindex >= 0"⟩,
    ⟨2, "call", some .loadUpvalue, "janetc_emit(p0, ((uint32_t)(p2.index) << 24) | ((uint32_t)(p2.envindex) << 16) | ((uint32_t)(p1) << 8) | JOP_LOAD_UPVALUE)"⟩,
    ⟨1, "else", none, ""⟩,
    ⟨2, "if", none, "p2.index != p1"⟩,
    ⟨3, "call", none, "janet_assert(p2.index >= 0, \"bad slot\")"⟩,
    ⟨3, "call", some .moveNear, "janetc_emit(p0, ((uint32_t)(p2.index) << 16) | ((uint32_t)(p1) << 8) | JOP_MOVE_NEAR)"⟩]

def janetc_regnear : List SkLine :=
   [⟨0, "if", none, "p1.envindex < 0 && p1.index >= 0 && p1.index <= 0xFF"⟩,
    ⟨1, "ret", none, "p1.index"⟩,
    ⟨0, "let", none, "$0 = janetc_regalloc_temp(&p0->scope->ra, p2)"⟩,
    ⟨0, "call", none, "janetc_movenear(p0, $0, p1)"⟩,
    ⟨0, "ret", none, "$0"⟩]

def janetc_emit_sss : List SkLine :=
   [⟨0, "let", none, "$0 = janetc_regnear(p0, p2, JANETC_REGTEMP_0)"⟩,
    ⟨0, "let", none, "$1 = janetc_regnear(p0, p3, JANETC_REGTEMP_1)"⟩,
    ⟨0, "let", none, "$2 = janetc_regnear(p0, p4, JANETC_REGTEMP_2)"⟩,
    ⟨0, "let", none, "$3 = janet_v_count(p0->buffer)"⟩,
    ⟨0, "call", none, "janetc_emit(p0, p1 | ($0 << 8) | ($1 << 16) | ((uint32_t)$2 << 24))"⟩,
    ⟨0, "call", none, "janetc_free_regnear(p0, p3, $1, JANETC_REGTEMP_1)"⟩,
    ⟨0, "call", none, "janetc_free_regnear(p0, p4, $2, JANETC_REGTEMP_2)"⟩,
    ⟨0, "if", none, "p5"⟩,
    ⟨1, "call", none, "janetc_moveback(p0, p2, $0)"⟩,
    ⟨0, "call", none, "janetc_free_regnear(p0, p2, $0, JANETC_REGTEMP_0)"⟩,
    ⟨0, "ret", none, "$3"⟩]

def emit2s : List SkLine :=
   [⟨0, "let", none, "$0 = janetc_regnear(p0, p2, JANETC_REGTEMP_0)"⟩,
    ⟨0, "let", none, "$1 = janetc_regnear(p0, p3, JANETC_REGTEMP_1)"⟩,
    ⟨0, "let", none, "$2 = janet_v_count(p0->buffer)"⟩,
    ⟨0, "call", none, "janetc_emit(p0, p1 | ($0 << 8) | ($1 << 16) | ((uint32_t)p4 << 24))"⟩,
    ⟨0, "call", none, "janetc_free_regnear(p0, p3, $1, JANETC_REGTEMP_1)"⟩,
    ⟨0, "if", none, "p5"⟩,
    ⟨1, "call", none, "janetc_moveback(p0, p2, $0)"⟩,
    ⟨0, "call", none, "janetc_free_regnear(p0, p2, $0, JANETC_REGTEMP_0)"⟩,
    ⟨0, "ret", none, "$2"⟩]

def janetc_call_selection : List SkLine :=
   [⟨0, "let", none, "$0 = 0"⟩,
    ⟨0, "if", none, "p2.flags & JANET_SLOT_CONSTANT && !has_spliced(p1)"⟩,
    ⟨1, "if", none, "janet_checktype(p2.constant, JANET_FUNCTION)"⟩,
    ⟨2, "let", none, "$1 = janet_unwrap_function(p2.constant)"⟩,
    ⟨2, "let", none, "$2 = janetc_funopt($1->def->flags)"⟩,
    ⟨2, "if", none, "$2 && (!$2->can_optimize || $2->can_optimize(p0, p1))"⟩,
    ⟨3, "let", none, "$0 = 1"⟩,
    ⟨3, "set", none, "retslot = $2->optimize(p0, p1)"⟩]

end JanetModel.Spec.Skeleton
