import JanetModel.Bytecode.VMExec
import JanetModel.Gen.Cfuns

/-!
C15 model of the condition guards of specials.c `janetc_if` / `janetc_while`.

Both special forms look at the condition form: `(= nil x)` / `(not= nil x)` (function VALUE in head position, either operand order:
`janetc_check_nil_form`) is replaced by `x` and tested with jump-if-(not-)nil; a constant condition is folded at compile time (`if`: only
one body is compiled, `while`: the loop is dropped or becomes infinite).  `janetc_while` emits the guard at TWO sites: the jump that
leaves the loop, and - when the body creates a closure and the loop is recompiled as a tail-recursive function (`while-iife`) - a jump
over a `JOP_RETURN_NIL`, with the opposite sense.

`guardSel` is the selection as a function of the stripped head (at most ONE head is stripped); `Gen.Cfuns.nilGuardSites` /
`nilConstFolds` are regenerated from the C by symbolic execution of the canonical skeletons, one row per (form, list of stripped heads,
emission site), and compared with `guardSel` (`guardSiteOk`, `constFoldOk`).  Core Lean only.
-/

namespace JanetModel.Spec
open JanetModel.Gen.Bytecode JanetModel.Gen.Cfuns JanetModel.Bytecode.VM

/-- head of a nil test: `JANET_FUN_EQ` / `JANET_FUN_NEQ` -/
inductive NilTag where
  | eq | neq
  deriving DecidableEq, Repr, Inhabited

def NilTag.ofName : String → Option NilTag
  | "EQ" => some .eq
  | "NEQ" => some .neq
  | _ => none

/-- what `janetc_if` / `janetc_while` select after looking at the head of the condition: the jump taken when the condition is FALSE
    (`ifnjmp`), the jump taken when it is TRUE (`ifjmp`, used by the while-iife guard), and the predicate of a constant condition under
    which the condition counts as false -/
structure GuardSel where
  leave : Op
  stay : Op
  constFalse : String
  deriving DecidableEq, Repr, Inhabited

def guardSel : Option NilTag → GuardSel
  | none => ⟨.jumpIfNot, .jumpIf, "falsy"⟩
  | some .eq => ⟨.jumpIfNotNil, .jumpIfNil, "notNil"⟩
  | some .neq => ⟨.jumpIfNil, .jumpIfNotNil, "isNil"⟩

/-- the allowed lists of stripped heads: none or exactly one (`(= nil (not= nil y))` is a comparison of a boolean with nil, not a nil
    test of `y`: only the outer head may be stripped) -/
def pathTag : List String → Option (Option NilTag)
  | [] => some none
  | [n] => (NilTag.ofName n).map some
  | _ => none

/-- a regenerated emission site agrees with the model: opcode by head and sense of the site, literal offset argument (0 = patched later
    to the end of the branch / loop; 2 = over the next instruction), and the `JOP_RETURN_NIL` the iife guard jumps over -/
def guardSiteOk (g : GuardSite) : Bool :=
  match pathTag g.path with
  | none => false
  | some t =>
    if g.site == "main" then g.op == (guardSel t).leave && g.offset == 0
    else if g.site == "iife" then g.form == "while" && g.op == (guardSel t).stay && g.offset == 2 && g.nextOp == some .returnNil
    else false

/-- every (form, stripped heads, site) at which a guard must be emitted, in the translator's order -/
def guardSiteKeys : List (String × List String × String) :=
  [("if", [], "main"), ("if", ["EQ"], "main"), ("if", ["NEQ"], "main"),
   ("while", [], "iife"), ("while", [], "main"), ("while", ["EQ"], "iife"), ("while", ["EQ"], "main"),
   ("while", ["NEQ"], "iife"), ("while", ["NEQ"], "main")]

def constFoldOk (c : ConstFold) : Bool :=
  match pathTag c.path with
  | none => false
  | some t => c.pred == (guardSel t).constFalse && c.role == (if c.form == "if" then "swap" else "never")

def constFoldKeys : List (String × List String) :=
  [("if", []), ("if", ["EQ"]), ("if", ["NEQ"]), ("while", []), ("while", ["EQ"]), ("while", ["NEQ"])]

theorem ofName_name (n : String) (t : NilTag) (h : NilTag.ofName n = some t) : n = (match t with | .eq => "EQ" | .neq => "NEQ") := by
  unfold NilTag.ofName at h
  split at h
  · cases h; rfl
  · cases h; rfl
  · cases h

theorem pathTag_cases (p : List String) (t : Option NilTag) (h : pathTag p = some t) :
    (p = [] ∧ t = none) ∨ ∃ n k, p = [n] ∧ NilTag.ofName n = some k ∧ t = some k := by
  unfold pathTag at h
  split at h
  · exact Or.inl ⟨rfl, (Option.some.inj h).symm⟩
  · rename_i n
    cases hof : NilTag.ofName n with
    | none => rw [hof] at h; cases h
    | some k =>
      rw [hof] at h
      exact Or.inr ⟨n, k, rfl, hof, (Option.some.inj h).symm⟩
  · cases h

theorem guardSiteOk_main (g : GuardSite) (h : guardSiteOk g = true) (hm : g.site = "main") :
    ∃ t, pathTag g.path = some t ∧ g.op = (guardSel t).leave ∧ g.offset = 0 := by
  unfold guardSiteOk at h
  split at h
  · cases h
  · rename_i t ht
    have hb : (g.site == "main") = true := by rw [hm]; decide
    rw [if_pos hb] at h
    simp only [Bool.and_eq_true, beq_iff_eq] at h
    exact ⟨t, ht, h.1, h.2⟩

theorem guardSiteOk_iife (g : GuardSite) (h : guardSiteOk g = true) (hm : g.site ≠ "main") :
    ∃ t, pathTag g.path = some t ∧ g.site = "iife" ∧ g.form = "while" ∧ g.op = (guardSel t).stay ∧ g.offset = 2 ∧ g.nextOp = some .returnNil := by
  unfold guardSiteOk at h
  split at h
  · cases h
  · rename_i t ht
    have hb : ¬ (g.site == "main") = true := by simpa using hm
    rw [if_neg hb] at h
    by_cases hi : (g.site == "iife") = true
    · rw [if_pos hi] at h
      simp only [Bool.and_eq_true, beq_iff_eq] at h
      exact ⟨t, ht, by simpa using hi, h.1.1.1, h.1.1.2, h.1.2, h.2⟩
    · rw [if_neg hi] at h
      cases h

variable (P : Prims)

/-- reading of `VM.step`: is the conditional jump `op` taken when the tested slot holds `x` -/
def jumpTaken (op : Op) (x : P.V) : Bool :=
  match op with
  | .jumpIf => P.truthy x
  | .jumpIfNot => !P.truthy x
  | .jumpIfNil => P.isNil x
  | .jumpIfNotNil => !P.isNil x
  | _ => false

def isCondJump (op : Op) : Bool := op == .jumpIf || op == .jumpIfNot || op == .jumpIfNil || op == .jumpIfNotNil

theorem guard_jump_step (op : Op) (h : isCondJump op = true) (i : Instr) (hi : i.op = op) (f : Frame P) :
    step P i f = some (M.pure (.cont (if jumpTaken P op (getSlot P f i.A) then jumpBy P f i.ES else next P f))) := by
  cases op <;> simp [isCondJump] at h
  · simp only [step, hi, jumpTaken]
    rfl
  · simp only [step, hi, jumpTaken]
    by_cases ht : P.truthy (getSlot P f i.A) = true <;> simp [ht]
  · simp only [step, hi, jumpTaken]
    rfl
  · simp only [step, hi, jumpTaken]
    by_cases ht : P.isNil (getSlot P f i.A) = true <;> simp [ht]

/-- the value of the condition as the UNSPECIALISED evaluation computes it (head applied to nil and `x`, as inline comparison or as a
    call of the generic function - `Props.C15.comparison_emitted_eq_generic`): `x` itself when no head was stripped -/
def condValue (t : Option NilTag) (x : P.V) : M P P.V :=
  match t with
  | none => M.pure x
  | some .eq => binop P .equals P.nil x
  | some .neq => binop P .notEquals P.nil x

/-- the same with the operands the other way round (`(= x nil)`) -/
def condValueR (t : Option NilTag) (x : P.V) : M P P.V :=
  match t with
  | none => M.pure x
  | some .eq => binop P .equals x P.nil
  | some .neq => binop P .notEquals x P.nil

/-- truth of the condition: `x` truthy / `x` is nil / `x` is not nil -/
def condHolds (t : Option NilTag) (x : P.V) : Bool :=
  match t with
  | none => P.truthy x
  | some .eq => P.isNil x
  | some .neq => !P.isNil x

/-- `condHolds` IS the truthiness of the unspecialised condition value, which is pure (no method call, world unchanged) -/
theorem condValue_truthy (hnil : ∀ x, P.eqv P.nil x = P.isNil x ∧ P.eqv x P.nil = P.isNil x) (t : Option NilTag) (x : P.V) :
    ∃ v, condValue P t x = M.pure v ∧ condValueR P t x = M.pure v ∧ P.truthy v = condHolds P t x := by
  match t with
  | none => exact ⟨x, rfl, rfl, rfl⟩
  | some .eq =>
    refine ⟨ofBool P (P.isNil x), ?_, ?_, truthy_ofBool P _⟩
    · simp only [condValue, eq_eq, (hnil x).1]
    · simp only [condValueR, eq_eq, (hnil x).2]
  | some .neq =>
    refine ⟨ofBool P (!P.isNil x), ?_, ?_, truthy_ofBool P _⟩
    · simp only [condValue, neq_eq_not, (hnil x).1]
    · simp only [condValueR, neq_eq_not, (hnil x).2]

/-- the opcode the unspecialised comparison of a head uses -/
def NilTag.op : NilTag → Op
  | .eq => .equals
  | .neq => .notEquals

def NilTag.name : NilTag → String
  | .eq => "EQ"
  | .neq => "NEQ"

/-- the head named by a tag is a comparison row of `optimizers[]` whose opcode is of the tag's family (so the inline comparison and - by
    `comparison_emitted_eq_generic` - the generic function compute `condValue`) -/
def headRowOk (t : NilTag) : Bool :=
  match optimizers.find? (fun r => r.tagName == t.name) with
  | some r =>
    match r.handler with
    | .compreduce op _ _ => kindOf op == kindOf t.op
    | _ => false
  | none => false

theorem headRow_binop (t : NilTag) (h : headRowOk t = true) :
    ∃ r ∈ optimizers, r.tagName = t.name ∧ ∃ op opim inv, r.handler = .compreduce op opim inv ∧ ∀ a b, binop P op a b = binop P t.op a b := by
  unfold headRowOk at h
  split at h
  · rename_i r hfind
    split at h
    · rename_i op opim inv hh
      refine ⟨r, List.mem_of_find?_eq_some hfind, ?_, op, opim, inv, hh, fun a b => ?_⟩
      · simpa using List.find?_some hfind
      · simp only [beq_iff_eq] at h
        simp only [binop, h]
        cases t <;> rfl
    · cases h
  · cases h

/-- ★ model level: the leaving jump is taken exactly when the condition is false, the staying jump exactly when it is true -/
theorem guardSel_sound (t : Option NilTag) (x : P.V) :
    jumpTaken P (guardSel t).leave x = !condHolds P t x ∧ jumpTaken P (guardSel t).stay x = condHolds P t x ∧
    isCondJump (guardSel t).leave = true ∧ isCondJump (guardSel t).stay = true := by
  match t with
  | none => simp [guardSel, jumpTaken, condHolds, isCondJump]
  | some .eq => simp [guardSel, jumpTaken, condHolds, isCondJump]
  | some .neq => simp [guardSel, jumpTaken, condHolds, isCondJump]

/-- the predicates the constant folding applies (`janet_truthy`, `janet_checktype(.., JANET_NIL)`) -/
def predHolds (p : String) (x : P.V) : Option Bool :=
  if p == "falsy" then some (!P.truthy x)
  else if p == "truthy" then some (P.truthy x)
  else if p == "isNil" then some (P.isNil x)
  else if p == "notNil" then some (!P.isNil x)
  else none

/-- ★ model level: the fold predicate holds of a constant exactly when the condition is false of it - the decision taken at compile
    time is the decision the leaving jump would take at run time -/
theorem guardSel_fold_sound (t : Option NilTag) (x : P.V) :
    predHolds P (guardSel t).constFalse x = some (!condHolds P t x) ∧
    predHolds P (guardSel t).constFalse x = some (jumpTaken P (guardSel t).leave x) := by
  match t with
  | none => simp [guardSel, predHolds, jumpTaken, condHolds]
  | some .eq => simp [guardSel, predHolds, jumpTaken, condHolds]
  | some .neq => simp [guardSel, predHolds, jumpTaken, condHolds]

/-- `janetc_if` on a constant condition: `true` = the then-body is the one that is compiled (the other is thrown away) -/
def ifConstCompilesThen (t : Option NilTag) (c : P.V) : Option Bool := (predHolds P (guardSel t).constFalse c).map (!·)

/-- `janetc_while` on a constant condition: `true` = the loop is compiled (without a guard: infinite), `false` = nothing is emitted -/
def whileConstCompilesLoop (t : Option NilTag) (c : P.V) : Option Bool := (predHolds P (guardSel t).constFalse c).map (!·)

theorem const_compile_sound (t : Option NilTag) (c : P.V) :
    ifConstCompilesThen P t c = some (condHolds P t c) ∧ whileConstCompilesLoop P t c = some (condHolds P t c) := by
  simp [ifConstCompilesThen, whileConstCompilesLoop, (guardSel_fold_sound P t c).1]

/-- ★ the guard of the while loop recompiled as a closure: `jmp<stay> x +2; retn; body...` returns nil when the condition is false and
    enters the body (slots unchanged) when it is true -/
theorem iife_guard_exec (t : Option NilTag) (code : List Instr) (pc : Nat) (i j : Instr) (hi : code[pc]? = some i) (hj : code[pc + 1]? = some j)
    (hop : i.op = (guardSel t).stay) (hoff : i.ES = 2) (hret : j.op = .returnNil) (s : List P.V) (w : P.W) (fuel : Nat) :
    exec P code (fuel + 2) ⟨s, pc⟩ w =
      if condHolds P t (s.getD i.A P.nil) then exec P code (fuel + 1) ⟨s, pc + 2⟩ w else some (.ok P.nil, w) := by
  have hs := guard_jump_step P (guardSel t).stay (guardSel_sound P t P.nil).2.2.2 i hop ⟨s, pc⟩
  rw [(guardSel_sound P t _).2.1] at hs
  have hx : getSlot P ⟨s, pc⟩ i.A = s.getD i.A P.nil := rfl
  rw [hx] at hs
  by_cases hc : condHolds P t (s.getD i.A P.nil) = true
  · simp only [hc, if_true] at hs ⊢
    show exec P code (fuel + 1 + 1) ⟨s, pc⟩ w = _
    rw [exec]
    simp only [hi, hs, M.pure, jumpBy, hoff]
    congr 2
  · simp only [hc] at hs ⊢
    show exec P code (fuel + 1 + 1) ⟨s, pc⟩ w = _
    rw [exec]
    simp only [hi, hs, M.pure, next]
    rw [exec]
    simp [hj, step, hret, M.pure]

/-- the leaving jump of `if` / `while` (offset patched to the else-branch / the end of the loop): goes there exactly when the condition
    is false, else falls into the then-branch / the body -/
theorem leave_guard_step (t : Option NilTag) (i : Instr) (hop : i.op = (guardSel t).leave) (f : Frame P) :
    step P i f = some (M.pure (.cont (if condHolds P t (getSlot P f i.A) then next P f else jumpBy P f i.ES))) := by
  rw [guard_jump_step P (guardSel t).leave (guardSel_sound P t P.nil).2.2.1 i hop f, (guardSel_sound P t _).1]
  by_cases hc : condHolds P t (getSlot P f i.A) = true <;> simp [hc]

end JanetModel.Spec
