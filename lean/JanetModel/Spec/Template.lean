import JanetModel.Bytecode.VMExec
import JanetModel.Spec.Model

/-!
C15: the generic templates of corelib.c as VM programs, and the proof that running them computes the folds
`evalVarop` / `evalComparator` of Spec/Model.lean.  The instruction lists `varopCode` / `comparatorCode` mirror the C
initialisers; Props/C15 checks by `decide` that the bytecode words regenerated from corelib.c decode to exactly them.
-/

namespace JanetModel.Spec
open JanetModel.Gen.Bytecode JanetModel.Gen.Cfuns JanetModel.Bytecode.VM

/-- `varop_asm[]` of `templatize_varop` -/
def varopCode (nullary unary : Int) (op : Op) : List Instr := [
  mkAE .length 1 0,
  mkABI .equalsImmediate 2 1 0,
  mkAI .jumpIfNot 2 3,
  mkAI .loadInteger 3 nullary,
  mkD .return 3,
  mkABI .equalsImmediate 2 1 1,
  mkAI .jumpIfNot 2 5,
  mkAI .loadInteger 3 unary,
  mkABC .getIndex 4 0 0,
  mkABC op 3 3 4,
  mkD .return 3,
  mkABC .getIndex 3 0 0,
  mkAI .loadInteger 5 1,
  mkABC .in 4 0 5,
  mkABC op 3 3 4,
  mkABI .addImmediate 5 5 1,
  mkABC .equals 2 5 1,
  mkAI .jumpIfNot 2 (-4),
  mkD .return 3]

/-- `comparator_asm[]` of `templatize_comparator` -/
def comparatorCode (invert : Bool) (op : Op) : List Instr := [
  mkAE .length 1 0,
  mkABI .lessThanImmediate 2 1 2,
  mkAI .jumpIf 2 10,
  mkABC .getIndex 3 0 0,
  mkAI .loadInteger 5 1,
  mkABC .in 4 0 5,
  mkABC op 2 3 4,
  mkAI .jumpIfNot 2 7,
  mkABI .addImmediate 5 5 1,
  mkAE .moveNear 3 4,
  mkABC .equals 2 5 1,
  mkAI .jumpIfNot 2 (-6),
  mkD (if invert then .loadFalse else .loadTrue) 3,
  mkD .return 3,
  mkD (if invert then .loadTrue else .loadFalse) 3,
  mkD .return 3]

/-- the words of a template decode to the given instruction list -/
def decodesTo (words : List Nat) (code : List Instr) : Bool := words.map decode == code.map some

variable (P : Prims)

section fields
@[simp] theorem mkABC_op (op a b c) : (mkABC op a b c).op = op := rfl
@[simp] theorem mkABI_op (op a b i) : (mkABI op a b i).op = op := rfl
@[simp] theorem mkAE_op (op a e) : (mkAE op a e).op = op := rfl
@[simp] theorem mkAI_op (op a i) : (mkAI op a i).op = op := rfl
@[simp] theorem mkD_op (op d) : (mkD op d).op = op := rfl
end fields

/-- the frame a vararg template starts in: slot 0 = argument tuple, five more nil slots -/
def frame0 (T : TupleLaws P) (args : List P.V) : Frame P := ⟨[T.tup args, P.nil, P.nil, P.nil, P.nil, P.nil], 0⟩

/-! ### one-step facts per opcode (so that symbolic execution never has to unfold the big `step` match on an unknown opcode) -/

abbrev cont' (g : Frame P) : M P (Step P) := M.pure (.cont g)

theorem step_length (i : Instr) (f : Frame P) (h : i.op = .length) :
    step P i f = some (M.bind (P.unary .length (getSlot P f i.E)) fun v => cont' P (next P (setSlot P f i.A v))) := by
  simp [step, h]
theorem step_getIndex (i : Instr) (f : Frame P) (h : i.op = .getIndex) :
    step P i f = some (M.bind (P.getIndex (getSlot P f i.B) i.C) fun v => cont' P (next P (setSlot P f i.A v))) := by
  simp [step, h]
theorem step_loadInteger (i : Instr) (f : Frame P) (h : i.op = .loadInteger) :
    step P i f = some (cont' P (next P (setSlot P f i.A (P.num i.ES)))) := by simp [step, h]
theorem step_loadTrue (i : Instr) (f : Frame P) (h : i.op = .loadTrue) :
    step P i f = some (cont' P (next P (setSlot P f i.D P.tru))) := by simp [step, h]
theorem step_loadFalse (i : Instr) (f : Frame P) (h : i.op = .loadFalse) :
    step P i f = some (cont' P (next P (setSlot P f i.D P.fls))) := by simp [step, h]
theorem step_moveNear (i : Instr) (f : Frame P) (h : i.op = .moveNear) :
    step P i f = some (cont' P (next P (setSlot P f i.A (getSlot P f i.E)))) := by simp [step, h]
theorem step_return (i : Instr) (f : Frame P) (h : i.op = .return) :
    step P i f = some (M.pure (.ret (getSlot P f i.D))) := by simp [step, h]
theorem step_jumpIfNot (i : Instr) (f : Frame P) (h : i.op = .jumpIfNot) :
    step P i f = some (cont' P (if P.truthy (getSlot P f i.A) then next P f else jumpBy P f i.ES)) := by simp [step, h]
theorem step_jumpIf (i : Instr) (f : Frame P) (h : i.op = .jumpIf) :
    step P i f = some (cont' P (if P.truthy (getSlot P f i.A) then jumpBy P f i.ES else next P f)) := by simp [step, h]
theorem step_imm (i : Instr) (f : Frame P) (op : Op) (h : i.op = op)
    (hop : op = .equalsImmediate ∨ op = .lessThanImmediate ∨ op = .addImmediate) :
    step P i f = some (M.bind (immop P op (getSlot P f i.B) i.CS) fun v => cont' P (next P (setSlot P f i.A v))) := by
  rcases hop with rfl | rfl | rfl <;> simp [step, h, immBase]

/-- `op` is executed by the generic three-register case of `step` -/
def IsBinOp (op : Op) : Prop :=
  ∀ (a b c : Nat) (f : Frame P),
    step P (mkABC op a b c) f = some (M.bind (binop P op (getSlot P f (mkABC op a b c).B) (getSlot P f (mkABC op a b c).C)) fun v =>
      cont' P (next P (setSlot P f (mkABC op a b c).A v)))

theorem isBinOp_in : IsBinOp P .in := by intro a b c f; simp [step, immBase, Op.itype]
theorem isBinOp_equals : IsBinOp P .equals := by intro a b c f; simp [step, immBase, Op.itype]

/-- the opcodes the variadic templates are instantiated with -/
def templateOps : List Op :=
  [.add, .subtract, .multiply, .divide, .divideFloor, .modulo, .remainder, .band, .bor, .bxor, .shiftLeft, .shiftRight,
   .shiftRightUnsigned, .greaterThan, .lessThan, .greaterThanEqual, .lessThanEqual, .equals, .notEquals]

theorem isBinOp_of_mem (op : Op) (h : op ∈ templateOps) : IsBinOp P op := by
  simp only [templateOps, List.mem_cons, List.mem_nil_iff, or_false] at h
  rcases h with rfl | rfl | rfl | rfl | rfl | rfl | rfl | rfl | rfl | rfl | rfl | rfl | rfl | rfl | rfl | rfl | rfl | rfl | rfl <;>
    (intro a b c f; simp [step, immBase, Op.itype])

/-! the same facts on the instruction constructors (the form `simp` can use while executing a listed program) -/
theorem stepc_length (a e : Nat) (f : Frame P) : step P (mkAE .length a e) f =
    some (M.bind (P.unary .length (getSlot P f (mkAE .length a e).E)) fun v => cont' P (next P (setSlot P f (mkAE .length a e).A v))) :=
  step_length P _ f rfl
theorem stepc_moveNear (a e : Nat) (f : Frame P) : step P (mkAE .moveNear a e) f =
    some (cont' P (next P (setSlot P f (mkAE .moveNear a e).A (getSlot P f (mkAE .moveNear a e).E)))) := step_moveNear P _ f rfl
theorem stepc_getIndex (a b c : Nat) (f : Frame P) : step P (mkABC .getIndex a b c) f =
    some (M.bind (P.getIndex (getSlot P f (mkABC .getIndex a b c).B) (mkABC .getIndex a b c).C) fun v =>
      cont' P (next P (setSlot P f (mkABC .getIndex a b c).A v))) := step_getIndex P _ f rfl
theorem stepc_loadInteger (a : Nat) (i : Int) (f : Frame P) : step P (mkAI .loadInteger a i) f =
    some (cont' P (next P (setSlot P f (mkAI .loadInteger a i).A (P.num (mkAI .loadInteger a i).ES)))) := step_loadInteger P _ f rfl
theorem stepc_loadTrue (d : Nat) (f : Frame P) : step P (mkD .loadTrue d) f =
    some (cont' P (next P (setSlot P f (mkD .loadTrue d).D P.tru))) := step_loadTrue P _ f rfl
theorem stepc_loadFalse (d : Nat) (f : Frame P) : step P (mkD .loadFalse d) f =
    some (cont' P (next P (setSlot P f (mkD .loadFalse d).D P.fls))) := step_loadFalse P _ f rfl
theorem stepc_return (d : Nat) (f : Frame P) : step P (mkD .return d) f =
    some (M.pure (.ret (getSlot P f (mkD .return d).D))) := step_return P _ f rfl
theorem stepc_jumpIfNot (a : Nat) (i : Int) (f : Frame P) : step P (mkAI .jumpIfNot a i) f =
    some (cont' P (if P.truthy (getSlot P f (mkAI .jumpIfNot a i).A) then next P f else jumpBy P f (mkAI .jumpIfNot a i).ES)) :=
  step_jumpIfNot P _ f rfl
theorem stepc_jumpIf (a : Nat) (i : Int) (f : Frame P) : step P (mkAI .jumpIf a i) f =
    some (cont' P (if P.truthy (getSlot P f (mkAI .jumpIf a i).A) then jumpBy P f (mkAI .jumpIf a i).ES else next P f)) :=
  step_jumpIf P _ f rfl
theorem stepc_eqim (a b : Nat) (i : Int) (f : Frame P) : step P (mkABI .equalsImmediate a b i) f =
    some (M.bind (immop P .equalsImmediate (getSlot P f (mkABI .equalsImmediate a b i).B) (mkABI .equalsImmediate a b i).CS) fun v =>
      cont' P (next P (setSlot P f (mkABI .equalsImmediate a b i).A v))) := step_imm P _ f _ rfl (Or.inl rfl)
theorem stepc_ltim (a b : Nat) (i : Int) (f : Frame P) : step P (mkABI .lessThanImmediate a b i) f =
    some (M.bind (immop P .lessThanImmediate (getSlot P f (mkABI .lessThanImmediate a b i).B) (mkABI .lessThanImmediate a b i).CS) fun v =>
      cont' P (next P (setSlot P f (mkABI .lessThanImmediate a b i).A v))) := step_imm P _ f _ rfl (Or.inr (Or.inl rfl))
theorem stepc_addim (a b : Nat) (i : Int) (f : Frame P) : step P (mkABI .addImmediate a b i) f =
    some (M.bind (immop P .addImmediate (getSlot P f (mkABI .addImmediate a b i).B) (mkABI .addImmediate a b i).CS) fun v =>
      cont' P (next P (setSlot P f (mkABI .addImmediate a b i).A v))) := step_imm P _ f _ rfl (Or.inr (Or.inr rfl))

theorem exec_succ (code : List Instr) (k : Nat) (f : Frame P) (w : P.W) (i : Instr) (m : M P (Step P))
    (hc : code[f.pc]? = some i) (hs : step P i f = some m) :
    exec P code (k + 1) f w =
      match m w with
      | (.error e, w') => some (.error e, w')
      | (.ok (.ret v), w') => some (.ok v, w')
      | (.ok (.cont g), w') => exec P code k g w' := by
  simp only [exec, hc, hs]
  rcases m w with ⟨(_ | (_ | _)), _⟩ <;> rfl

/-! ### what the bookkeeping instructions compute on tuples and counters -/

theorem binop_in_tup (T : TupleLaws P) (l : List P.V) (i : Nat) (h : i < l.length) :
    binop P .in (T.tup l) (P.num i) = M.pure l[i] := by
  simp [binop, binopK, kindOf, T.in_tup l i h]
theorem binop_equals_num (T : TupleLaws P) (a b : Int) : binop P .equals (P.num a) (P.num b) = M.pure (ofBool P (a == b)) := by
  simp [binop, binopK, kindOf, P.eqv_num, P.num_isNum, T.numEq_num]
theorem immop_eqim_num (T : TupleLaws P) (a i : Int) : immop P .equalsImmediate (P.num a) i = M.pure (ofBool P (a == i)) := by
  simp [immop, immopK, immBase, kindOf, P.num_isNum, T.numEq_num]
theorem immop_ltim_num (T : TupleLaws P) (a i : Int) : immop P .lessThanImmediate (P.num a) i = M.pure (ofBool P (decide (a < i))) := by
  simp [immop, immopK, immBase, kindOf, P.num_isNum, T.numLt_num]
theorem immop_addim_num (T : TupleLaws P) (a i : Int) : immop P .addImmediate (P.num a) i = M.pure (P.num (a + i)) := by
  simp [immop, immopK, immBase, kindOf, P.num_isNum, T.add_num, M.ofExcept]

theorem varop_nullary (T : TupleLaws P) (n u : Int) (op : Op) (hn : -32768 ≤ n ∧ n < 32768) (w : P.W) :
    exec P (varopCode n u op) 5 (frame0 P T []) w = some (evalVarop P n u op [] w) := by
  simp [exec, varopCode, frame0, step, getSlot, setSlot, next, jumpBy, mkAE_A, mkAE_E, T.length_tup, M.bind, M.pure,
    mkABI_A, mkABI_B, mkABI_CS, immBase, immop, immopK, kindOf, P.num_isNum, T.numEq_num, ofBool, P.truthy_tru, mkAI_A, mkAI_ES,
    hn, mkD_D, evalVarop]

theorem varop_unary (T : TupleLaws P) (n u : Int) (op : Op) (hu : -32768 ≤ u ∧ u < 32768) (hop : IsBinOp P op) (x : P.V) (w : P.W) :
    exec P (varopCode n u op) 9 (frame0 P T [x]) w = some (evalVarop P n u op [x] w) := by
  unfold IsBinOp at hop
  simp [exec, varopCode, frame0, stepc_length, stepc_getIndex, stepc_loadInteger, stepc_return, stepc_jumpIfNot, stepc_eqim, hop,
    getSlot, setSlot, next, jumpBy, mkAE_A, mkAE_E, T.length_tup, M.bind, M.pure,
    mkABI_A, mkABI_B, mkABI_CS, mkABC_A, mkABC_B, mkABC_C, immBase, immop, immopK, kindOf, P.num_isNum, T.numEq_num, ofBool, P.truthy_tru,
    P.truthy_fls, mkAI_A, mkAI_ES, hu, mkD_D, evalVarop, T.getIndex_tup]
  rcases binop P op (P.num u) x w with ⟨(_ | _), _⟩ <;> rfl

/-- loop invariant of `varop_asm`: at pc 13 with accumulator `acc` in slot 3, counter `k` in slot 5, `rest = args.drop k`
    non-empty, the loop computes the left fold of `op` over `rest` and returns it -/
theorem varop_loop (T : TupleLaws P) (n u : Int) (op : Op) (hop : IsBinOp P op) (args : List P.V) :
    ∀ (rest : List P.V) (k : Nat) (acc s2 s4 : P.V) (w : P.W), rest ≠ [] → args.drop k = rest →
      exec P (varopCode n u op) (5 * rest.length + 1) ⟨[T.tup args, P.num args.length, s2, acc, s4, P.num k], 13⟩ w =
        some (M.foldl (binop P op) acc rest w) := by
  unfold IsBinOp at hop
  have hin := isBinOp_in P
  have heq := isBinOp_equals P
  unfold IsBinOp at hin heq
  intro rest
  induction rest with
  | nil => intro k acc s2 s4 w h; exact absurd rfl h
  | cons x rest ih =>
    intro k acc s2 s4 w _ hdrop
    have hk : k < args.length := by
      apply Nat.lt_of_not_le
      intro hge
      rw [List.drop_eq_nil_of_le hge] at hdrop
      cases hdrop
    have hx : args[k] = x := by
      have := List.drop_eq_getElem_cons hk
      rw [this] at hdrop
      exact (List.cons.inj hdrop).1
    have hrest : args.drop (k + 1) = rest := by
      have := List.drop_eq_getElem_cons hk
      rw [this] at hdrop
      exact (List.cons.inj hdrop).2
    have hfuel : 5 * (x :: rest).length + 1 = (5 * rest.length + 1) + 1 + 1 + 1 + 1 + 1 := by simp [List.length_cons]; omega
    rw [hfuel]
    have hadd : ((k : Int) + 1) = ((k + 1 : Nat) : Int) := by omega
    -- pc 13: operand = args[k];  pc 14: acc = acc op operand
    simp only [exec, varopCode, List.getElem?_cons_succ, List.getElem?_cons_zero, hin, hop, getSlot, setSlot, next, mkABC_A, mkABC_B,
      mkABC_C, List.getD_cons_succ, List.getD_cons_zero, List.set_cons_succ, List.set_cons_zero,
      binop_in_tup P T args k hk, hx, M.bind, M.pure, Nat.reduceLT, Nat.reduceAdd, M.foldl]
    rcases hb : binop P op acc x w with ⟨(e | v), w'⟩
    · rfl
    · -- pc 15: k++ ; pc 16: jump? = (k == argn) ; pc 17: loop or fall through to the return
      by_cases hlast : rest = []
      · subst hlast
        have hlen : ((k : Int) + 1 == (args.length : Int)) = true := by
          have := congrArg List.length hrest
          simp at this
          simp
          omega
        simp [exec, stepc_addim, stepc_jumpIfNot, stepc_return, heq, getSlot, setSlot, next, jumpBy, mkABI_A, mkABI_B, mkABI_CS,
          mkABC_A, mkABC_B, mkABC_C, mkAI_A, mkAI_ES, mkD_D, immop_addim_num P T, binop_equals_num P T,
          M.bind, M.pure, ofBool, P.truthy_tru, M.foldl, hlen]
      · have hne : ((k : Int) + 1 == (args.length : Int)) = false := by
          simp
          intro h
          have h2 : k + 1 = args.length := by omega
          rw [h2, List.drop_length] at hrest
          exact hlast hrest.symm
        have := ih (k + 1) v (ofBool P false) x w' hlast hrest
        simp [exec, stepc_addim, stepc_jumpIfNot, heq, getSlot, setSlot, next, jumpBy, mkABI_A, mkABI_B, mkABI_CS,
          mkABC_A, mkABC_B, mkABC_C, mkAI_A, mkAI_ES, immop_addim_num P T, binop_equals_num P T,
          M.bind, M.pure, ofBool, P.truthy_fls, hne, ← hadd] at this ⊢
        exact this

theorem varop_multi (T : TupleLaws P) (n u : Int) (op : Op) (hop : IsBinOp P op) (args : List P.V) (x : P.V) (tl : List P.V)
    (h : args = x :: tl) (htl : tl ≠ []) (w : P.W) :
    exec P (varopCode n u op) (5 * tl.length + 1 + 7) (frame0 P T args) w = some (M.foldl (binop P op) x tl w) := by
  have hdrop : args.drop 1 = tl := by rw [h]; rfl
  have hpos : 0 < args.length := by rw [h]; simp
  have h0 : args[0] = x := by subst h; rfl
  have hloop := varop_loop P T n u op hop args tl 1 x P.fls P.nil w htl hdrop
  have hone : ((1 : Nat) : Int) = 1 := rfl
  rw [hone] at hloop
  have hlen : args.length = tl.length + 1 := by rw [h]; simp
  have htl0 : 0 < tl.length := List.length_pos_iff.mpr htl
  have hlen0 : (((args.length : Nat) : Int) == 0) = false := by rw [beq_eq_false_iff_ne]; omega
  have hlen1 : (((args.length : Nat) : Int) == 1) = false := by rw [beq_eq_false_iff_ne]; omega
  have hfuel : 5 * tl.length + 1 + 7 = (5 * tl.length + 1) + 1 + 1 + 1 + 1 + 1 + 1 + 1 := by omega
  rw [hfuel]
  simp [exec, varopCode, frame0, stepc_length, stepc_eqim, stepc_jumpIfNot,
    stepc_getIndex, stepc_loadInteger, getSlot, setSlot, next, jumpBy, mkAE_A, mkAE_E, mkABI_A, mkABI_B, mkABI_CS, mkABC_A, mkABC_B, mkABC_C,
    mkAI_A, mkAI_ES, T.length_tup, immop_eqim_num P T, M.bind, M.pure, hlen0, hlen1, ofBool, P.truthy_fls,
    T.getIndex_tup args 0 hpos, h0]
  exact hloop

/-- ★ running the bytecode of a variadic operator template on an argument tuple computes `evalVarop`: nullary constant,
    `unary op x`, else the left fold - for every argument list (loop invariant `varop_loop`) -/
theorem varop_template_correct (T : TupleLaws P) (n u : Int) (op : Op) (hn : -32768 ≤ n ∧ n < 32768) (hu : -32768 ≤ u ∧ u < 32768)
    (hop : IsBinOp P op) (args : List P.V) (w : P.W) :
    ∃ fuel, exec P (varopCode n u op) fuel (frame0 P T args) w = some (evalVarop P n u op args w) := by
  match args with
  | [] => exact ⟨5, varop_nullary P T n u op hn w⟩
  | [x] => exact ⟨9, varop_unary P T n u op hu hop x w⟩
  | x :: y :: rest => exact ⟨_, varop_multi P T n u op hop (x :: y :: rest) x (y :: rest) rfl (by simp) w⟩

/-! ### comparator template -/

/-- loop invariant of `comparator_asm`: at pc 5 with `last` in slot 3, counter `k` in slot 5 and `args.drop k = nxt :: rest` -/
theorem comparator_loop (T : TupleLaws P) (invert : Bool) (op : Op) (hop : IsBinOp P op) (args : List P.V) :
    ∀ (rest : List P.V) (nxt : P.V) (k : Nat) (last s2 s4 : P.V) (w : P.W), args.drop k = nxt :: rest →
      exec P (comparatorCode invert op) (7 * (rest.length + 1) + 2) ⟨[T.tup args, P.num args.length, s2, last, s4, P.num k], 5⟩ w =
        some (goGeneric P invert op last nxt rest w) := by
  unfold IsBinOp at hop
  have hin := isBinOp_in P
  have heq := isBinOp_equals P
  unfold IsBinOp at hin heq
  intro rest
  induction rest with
  | nil =>
    intro nxt k last s2 s4 w hdrop
    have hk : k < args.length := by
      apply Nat.lt_of_not_le
      intro hge
      rw [List.drop_eq_nil_of_le hge] at hdrop
      cases hdrop
    have hx : args[k] = nxt := by
      have := List.drop_eq_getElem_cons hk
      rw [this] at hdrop
      exact (List.cons.inj hdrop).1
    have hrest : args.drop (k + 1) = [] := by
      have := List.drop_eq_getElem_cons hk
      rw [this] at hdrop
      exact (List.cons.inj hdrop).2
    have hlen : ((k : Int) + 1 == (args.length : Int)) = true := by
      have := congrArg List.length hrest
      simp at this
      simp
      omega
    have hfuel : 7 * (([] : List P.V).length + 1) + 2 = 0 + 1 + 1 + 1 + 1 + 1 + 1 + 1 + 1 + 1 := by simp
    rw [hfuel]
    simp only [exec, comparatorCode, List.getElem?_cons_succ, List.getElem?_cons_zero, hin, hop, getSlot, setSlot, next, mkABC_A, mkABC_B,
      mkABC_C, List.getD_cons_succ, List.getD_cons_zero, List.set_cons_succ, List.set_cons_zero,
      binop_in_tup P T args k hk, hx, M.bind, M.pure, Nat.reduceLT, Nat.reduceAdd, goGeneric]
    rcases hb : binop P op last nxt w with ⟨(e | j), w'⟩
    · rfl
    · cases invert <;> by_cases ht : P.truthy j = true <;>
        simp [exec, stepc_addim, stepc_jumpIfNot, stepc_return, stepc_moveNear, stepc_loadTrue, stepc_loadFalse, heq, getSlot, setSlot, next,
          jumpBy, mkABI_A, mkABI_B, mkABI_CS, mkAE_A, mkAE_E, mkABC_A, mkABC_B, mkABC_C, mkAI_A, mkAI_ES, mkD_D, immop_addim_num P T,
          binop_equals_num P T, M.bind, M.pure, ofBool, P.truthy_tru, hlen, ht]
  | cons c rest ih =>
    intro nxt k last s2 s4 w hdrop
    have hk : k < args.length := by
      apply Nat.lt_of_not_le
      intro hge
      rw [List.drop_eq_nil_of_le hge] at hdrop
      cases hdrop
    have hx : args[k] = nxt := by
      have := List.drop_eq_getElem_cons hk
      rw [this] at hdrop
      exact (List.cons.inj hdrop).1
    have hrest : args.drop (k + 1) = c :: rest := by
      have := List.drop_eq_getElem_cons hk
      rw [this] at hdrop
      exact (List.cons.inj hdrop).2
    have hne : ((k : Int) + 1 == (args.length : Int)) = false := by
      rw [beq_eq_false_iff_ne]
      intro h
      have h2 : k + 1 = args.length := by omega
      rw [h2, List.drop_length] at hrest
      cases hrest
    have hadd : ((k : Int) + 1) = ((k + 1 : Nat) : Int) := by omega
    have hfuel : 7 * ((c :: rest).length + 1) + 2 = (7 * (rest.length + 1) + 2) + 1 + 1 + 1 + 1 + 1 + 1 + 1 := by
      simp [List.length_cons]; omega
    rw [hfuel]
    simp only [exec, comparatorCode, List.getElem?_cons_succ, List.getElem?_cons_zero, hin, hop, getSlot, setSlot, next, mkABC_A, mkABC_B,
      mkABC_C, List.getD_cons_succ, List.getD_cons_zero, List.set_cons_succ, List.set_cons_zero,
      binop_in_tup P T args k hk, hx, M.bind, M.pure, Nat.reduceLT, Nat.reduceAdd, goGeneric]
    rcases hb : binop P op last nxt w with ⟨(e | j), w'⟩
    · rfl
    · by_cases ht : P.truthy j = true
      · have := ih c (k + 1) nxt P.fls nxt w' hrest
        cases invert <;>
          simp [exec, stepc_addim, stepc_jumpIfNot, stepc_moveNear, heq, getSlot, setSlot, next,
            jumpBy, mkABI_A, mkABI_B, mkABI_CS, mkAE_A, mkAE_E, mkABC_A, mkABC_B, mkABC_C, mkAI_A, mkAI_ES, immop_addim_num P T,
            binop_equals_num P T, M.bind, M.pure, ofBool, P.truthy_fls, hne, ht, ← hadd] at this ⊢ <;>
          exact this
      · cases invert <;>
          simp [exec, stepc_jumpIfNot, stepc_return, stepc_loadTrue, stepc_loadFalse, getSlot, setSlot, next,
            jumpBy, mkAI_A, mkAI_ES, mkD_D, M.bind, M.pure, ofBool, ht]

theorem comparator_short (T : TupleLaws P) (invert : Bool) (op : Op) (args : List P.V) (h : args.length < 2) (w : P.W) :
    exec P (comparatorCode invert op) 5 (frame0 P T args) w = some (M.pure (ofBool P (!invert)) w) := by
  have hlt : decide (((args.length : Nat) : Int) < 2) = true := by simp; omega
  cases invert <;>
    simp [exec, comparatorCode, frame0, stepc_length, stepc_ltim, stepc_jumpIf, stepc_loadTrue, stepc_loadFalse, stepc_return,
      getSlot, setSlot, next, jumpBy, mkAE_A, mkAE_E, mkABI_A, mkABI_B, mkABI_CS, mkAI_A, mkAI_ES, mkD_D, T.length_tup,
      immop_ltim_num P T, M.bind, M.pure, hlt, ofBool, P.truthy_tru]

theorem comparator_multi (T : TupleLaws P) (invert : Bool) (op : Op) (hop : IsBinOp P op) (args : List P.V) (x y : P.V) (rest : List P.V)
    (h : args = x :: y :: rest) (w : P.W) :
    exec P (comparatorCode invert op) (7 * (rest.length + 1) + 2 + 5) (frame0 P T args) w = some (goGeneric P invert op x y rest w) := by
  have hdrop : args.drop 1 = y :: rest := by rw [h]; rfl
  have hpos : 0 < args.length := by rw [h]; simp
  have h0 : args[0] = x := by subst h; rfl
  have hloop := comparator_loop P T invert op hop args rest y 1 x P.fls P.nil w hdrop
  have hone : ((1 : Nat) : Int) = 1 := rfl
  rw [hone] at hloop
  have hlen : args.length = rest.length + 2 := by rw [h]; simp
  have hlt : decide (((args.length : Nat) : Int) < 2) = false := by simp; omega
  have hfuel : 7 * (rest.length + 1) + 2 + 5 = (7 * (rest.length + 1) + 2) + 1 + 1 + 1 + 1 + 1 := by omega
  rw [hfuel]
  simp [exec, comparatorCode, frame0, stepc_length, stepc_ltim, stepc_jumpIf, stepc_getIndex, stepc_loadInteger,
    getSlot, setSlot, next, jumpBy, mkAE_A, mkAE_E, mkABI_A, mkABI_B, mkABI_CS, mkABC_A, mkABC_B, mkABC_C, mkAI_A, mkAI_ES, T.length_tup,
    immop_ltim_num P T, M.bind, M.pure, hlt, ofBool, P.truthy_fls, T.getIndex_tup args 0 hpos, h0]
  exact hloop

/-- ★ running the bytecode of a variadic comparator template computes `evalComparator` for every argument list -/
theorem comparator_template_correct (T : TupleLaws P) (invert : Bool) (op : Op) (hop : IsBinOp P op) (args : List P.V) (w : P.W) :
    ∃ fuel, exec P (comparatorCode invert op) fuel (frame0 P T args) w = some (evalComparator P invert op args w) := by
  match args with
  | [] => exact ⟨5, comparator_short P T invert op [] (by simp) w⟩
  | [x] => exact ⟨5, comparator_short P T invert op [x] (by simp) w⟩
  | x :: y :: rest => exact ⟨_, comparator_multi P T invert op hop (x :: y :: rest) x y rest rfl w⟩

/-! ### the regenerated words -/

/-- checkable: the words of a variadic template decode to the modelled instruction list, its opcode is one the generic
    three-register step executes, its constants fit `JOP_LOAD_INTEGER`, and the function object is a 6-slot vararg of arity 0 -/
def templateWordsOk (t : CoreFun) : Bool :=
  match t.kind with
  | .varop n u op =>
    decodesTo t.words (varopCode n u op) && templateOps.contains op && decide (-32768 ≤ n ∧ n < 32768) && decide (-32768 ≤ u ∧ u < 32768) &&
      t.slots == 6 && t.vararg && t.arity == 0 && t.minArity == 0
  | .comparator inv op =>
    decodesTo t.words (comparatorCode inv op) && templateOps.contains op && t.slots == 6 && t.vararg && t.arity == 0 && t.minArity == 0
  | _ => true

/-- ★ for a template that passes the check, running its REAL bytecode words on the argument tuple computes `evalGeneric` -/
theorem generic_bytecode_correct (T : TupleLaws P) (t : CoreFun) (h : templateWordsOk t = true) (vals : List P.V) (m : M P P.V)
    (hm : evalGeneric P t vals = some m) (w : P.W) :
    ∃ code fuel, t.words.map decode = code.map some ∧ exec P code fuel (frame0 P T vals) w = some (m w) := by
  unfold templateWordsOk at h
  unfold evalGeneric at hm
  cases hk : t.kind with
  | varop n u op =>
    rw [hk] at h hm
    simp only [Bool.and_eq_true, decide_eq_true_eq, decodesTo, beq_iff_eq, List.contains_iff_mem] at h
    obtain ⟨⟨⟨⟨⟨⟨⟨hd, hmem⟩, hn⟩, hu⟩, _⟩, _⟩, _⟩, _⟩ := h
    cases hm
    obtain ⟨fuel, hf⟩ := varop_template_correct P T n u op hn hu (isBinOp_of_mem P op hmem) vals w
    exact ⟨_, fuel, hd, hf⟩
  | comparator inv op =>
    rw [hk] at h hm
    simp only [Bool.and_eq_true, decodesTo, beq_iff_eq, List.contains_iff_mem] at h
    obtain ⟨⟨⟨⟨⟨hd, hmem⟩, _⟩, _⟩, _⟩, _⟩ := h
    cases hm
    obtain ⟨fuel, hf⟩ := comparator_template_correct P T inv op (isBinOp_of_mem P op hmem) vals w
    exact ⟨_, fuel, hd, hf⟩
  | asm => rw [hk] at hm; cases hm
  | apply => rw [hk] at hm; cases hm

end JanetModel.Spec
