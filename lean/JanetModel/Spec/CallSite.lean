import JanetModel.Spec.Apply

/-!
C15: the call site (compile.c `janetc_call`).  When is the specialisation used (`selectSpecialised`: constant function
head, NO spliced argument, tagged function, arity guard), and what the generic route emits otherwise: `janetc_pushslots`
(pushes in groups of three / two / one, `JOP_PUSH_ARRAY` for a spliced slot) followed by `JOP_CALL` / `JOP_TAILCALL` of the
function VALUE.  A call with a splice, `(f ;xs)`, therefore always goes through the generic function value.
Core Lean only.
-/

namespace JanetModel.Spec
open JanetModel.Gen.Bytecode JanetModel.Gen.Cfuns JanetModel.Bytecode.VM

/-- an argument slot of a call: its register and `JANET_SLOT_SPLICED` -/
structure SArg where
  reg : Nat
  spliced : Bool
  deriving DecidableEq, Repr

/-- `has_spliced(slots)` -/
def hasSpliced (l : List SArg) : Bool := l.any (·.spliced)

/-- `janetc_funopt(flags)`: the row for a function tag (0 = untagged) -/
def funopt (tag : Nat) : Option OptRow := if tag = 0 then none else optimizers[tag - 1]?

/-- the selection block of `janetc_call`: `head` = `some tag` when the head slot is a constant that is a janet function with
    that tag.  Returns the row whose handler compiles the call, `none` = generic route -/
def selectSpecialised (head : Option Nat) (args : List SArg) : Option OptRow :=
  match head with
  | none => none
  | some tag =>
    if hasSpliced args then none
    else match funopt tag with
      | none => none
      | some r => if guardOk r.guard args.length then some r else none

/-- `janetc_pushslots` -/
def pushSlots : List SArg → List Instr
  | [] => []
  | [a] => if a.spliced then [mkD .pushArray a.reg] else [mkD .push a.reg]
  | [a, b] =>
    if a.spliced then mkD .pushArray a.reg :: pushSlots [b]
    else if b.spliced then [mkD .push a.reg, mkD .pushArray b.reg]
    else [mkAE .push2 a.reg b.reg]
  | a :: b :: c :: rest =>
    if a.spliced then mkD .pushArray a.reg :: pushSlots (b :: c :: rest)
    else if b.spliced then mkD .push a.reg :: mkD .pushArray b.reg :: pushSlots (c :: rest)
    else if c.spliced then mkAE .push2 a.reg b.reg :: mkD .pushArray c.reg :: pushSlots rest
    else mkABC .push3 a.reg b.reg c.reg :: pushSlots rest

/-- the generic route of `janetc_call`: push the argument slots, call the function value -/
def emitGenericCall (f : Nat) (args : List SArg) (tail : Option Nat) : List Instr :=
  pushSlots args ++ [match tail with | none => mkD .tailcall f | some target => mkAE .call target f]

variable {P : Prims}

/-- the argument list a call receives: register values, with the elements of spliced ones in place; the first spliced value that
    is not indexed raises -/
def argVals (X : CallPrims P) (s : List P.V) : List SArg → Except P.E (List P.V)
  | [] => .ok []
  | a :: rest =>
    if a.spliced then
      match X.indexedView (getS P s a.reg) with
      | none => .error (X.notIndexed (getS P s a.reg))
      | some l => match argVals X s rest with
        | .ok vs => .ok (l ++ vs)
        | .error e => .error e
    else match argVals X s rest with
      | .ok vs => .ok (getS P s a.reg :: vs)
      | .error e => .error e

/-- running one spliced push -/
theorem pushArray_exec (X : CallPrims P) (cap) (code : List Instr) (s a : List P.V) (pc fuel : Nat) (w : P.W) (r : Nat) (hr : r < 256)
    (hc : code[pc]? = some (mkD .pushArray r)) :
    execX X cap code (fuel + 1) ⟨s, a, pc⟩ w =
      match X.indexedView (getS P s r) with
      | none => some (.error (X.notIndexed (getS P s r)), w)
      | some l => execX X cap code fuel ⟨s, a ++ l, pc + 1⟩ w := by
  rw [execX_succ X cap code fuel ⟨s, a, pc⟩ w _ _ hc (stepX_pushArray X cap r _)]
  simp only [mkD_D _ r (by omega : r < 16777216)]
  cases X.indexedView (getS P s r) <;> rfl

theorem push_exec (X : CallPrims P) (cap) (code : List Instr) (s a : List P.V) (pc fuel : Nat) (w : P.W) (r : Nat) (hr : r < 256)
    (hc : code[pc]? = some (mkD .push r)) :
    execX X cap code (fuel + 1) ⟨s, a, pc⟩ w = execX X cap code fuel ⟨s, a ++ [getS P s r], pc + 1⟩ w := by
  rw [execX_succ X cap code fuel ⟨s, a, pc⟩ w _ _ hc (stepX_push X cap r _)]
  simp only [mkD_D _ r (by omega : r < 16777216), M.pure]

theorem push2_exec (X : CallPrims P) (cap) (code : List Instr) (s a : List P.V) (pc fuel : Nat) (w : P.W) (r1 r2 : Nat) (h1 : r1 < 256)
    (h2 : r2 < 256) (hc : code[pc]? = some (mkAE .push2 r1 r2)) :
    execX X cap code (fuel + 1) ⟨s, a, pc⟩ w = execX X cap code fuel ⟨s, a ++ [getS P s r1, getS P s r2], pc + 1⟩ w := by
  rw [execX_succ X cap code fuel ⟨s, a, pc⟩ w _ _ hc (stepX_push2 X cap r1 r2 _)]
  simp only [mkAE_A _ r1 r2 h1, mkAE_E _ r1 r2 h1 (by omega), M.pure]

theorem push3_exec (X : CallPrims P) (cap) (code : List Instr) (s a : List P.V) (pc fuel : Nat) (w : P.W) (r1 r2 r3 : Nat) (h1 : r1 < 256)
    (h2 : r2 < 256) (h3 : r3 < 256) (hc : code[pc]? = some (mkABC .push3 r1 r2 r3)) :
    execX X cap code (fuel + 1) ⟨s, a, pc⟩ w = execX X cap code fuel ⟨s, a ++ [getS P s r1, getS P s r2, getS P s r3], pc + 1⟩ w := by
  rw [execX_succ X cap code fuel ⟨s, a, pc⟩ w _ _ hc (stepX_push3 X cap r1 r2 r3 _)]
  simp only [mkABC_A _ r1 r2 r3 h1, mkABC_B _ r1 r2 r3 h1 h2, mkABC_C _ r1 r2 r3 h1 h2 h3, M.pure]

/-- what `fuel + n` steps through a push sequence amount to -/
def PushRuns (X : CallPrims P) (cap : Nat → Bool) (code : List Instr) (s : List P.V) (l : List SArg) : Prop :=
  ∀ (a : List P.V) (pc fuel : Nat) (w : P.W), HasAt code pc (pushSlots l) →
    execX X cap code (fuel + (pushSlots l).length) ⟨s, a, pc⟩ w =
      match argVals X s l with
      | .error e => some (.error e, w)
      | .ok vs => execX X cap code fuel ⟨s, a ++ vs, pc + (pushSlots l).length⟩ w

/-- ★ `janetc_pushslots`: the emitted pushes leave exactly `argVals` pending (or raise the not-indexed error of the first bad splice),
    for every mix of plain and spliced argument slots -/
theorem pushSlots_exec (X : CallPrims P) (cap : Nat → Bool) (code : List Instr) (s : List P.V) :
    ∀ (l : List SArg), (∀ x ∈ l, x.reg < 256) → PushRuns X cap code s l
  | [], _ => by intro a pc fuel w _; simp [pushSlots, argVals]
  | [x], hr => by
    intro a pc fuel w hat
    have hx := hr x (by simp)
    by_cases hsp : x.spliced = true
    · rw [show pushSlots [x] = [mkD .pushArray x.reg] by simp [pushSlots, hsp]] at hat ⊢
      rw [show argVals X s [x] = (match X.indexedView (getS P s x.reg) with
          | none => (.error (X.notIndexed (getS P s x.reg)) : Except P.E (List P.V))
          | some l => .ok l) by simp only [argVals, hsp, if_true]; cases X.indexedView (getS P s x.reg) <;> simp]
      simp only [List.length_cons, List.length_nil, Nat.zero_add]
      rw [pushArray_exec X cap code s a pc fuel w x.reg hx hat.head]
      cases X.indexedView (getS P s x.reg) <;> rfl
    · have hsp' : x.spliced = false := by simpa using hsp
      rw [show pushSlots [x] = [mkD .push x.reg] by simp [pushSlots, hsp']] at hat ⊢
      rw [show argVals X s [x] = (.ok [getS P s x.reg] : Except P.E (List P.V)) by simp [argVals, hsp']]
      simp only [List.length_cons, List.length_nil, Nat.zero_add]
      rw [push_exec X cap code s a pc fuel w x.reg hx hat.head]
  | [x, y], hr => by
    intro a pc fuel w hat
    have hx := hr x (by simp)
    have hy := hr y (by simp)
    by_cases hsp : x.spliced = true
    · have ih' := pushSlots_exec X cap code s [y] (fun u hu => hr u (List.mem_cons_of_mem _ hu))
      rw [show pushSlots [x, y] = mkD .pushArray x.reg :: pushSlots [y] by simp [pushSlots, hsp]] at hat ⊢
      simp only [List.length_cons]
      rw [show fuel + ((pushSlots [y]).length + 1) = (fuel + (pushSlots [y]).length) + 1 by omega]
      rw [pushArray_exec X cap code s a pc _ w x.reg hx hat.head]
      rw [show argVals X s [x, y] = (match X.indexedView (getS P s x.reg) with
          | none => (.error (X.notIndexed (getS P s x.reg)) : Except P.E (List P.V))
          | some l => match argVals X s [y] with
            | .ok vs => .ok (l ++ vs)
            | .error e => .error e) by simp [argVals, hsp]]
      cases hv : X.indexedView (getS P s x.reg) with
      | none => rfl
      | some lx =>
        simp only []
        rw [ih' (a ++ lx) (pc + 1) fuel w hat.tail]
        cases argVals X s [y] <;> simp [List.append_assoc, Nat.add_assoc, Nat.add_comm, Nat.add_left_comm]
    · have hsp' : x.spliced = false := by simpa using hsp
      by_cases hsq : y.spliced = true
      · rw [show pushSlots [x, y] = [mkD .push x.reg, mkD .pushArray y.reg] by simp [pushSlots, hsp', hsq]] at hat ⊢
        rw [show argVals X s [x, y] = (match X.indexedView (getS P s y.reg) with
          | none => (.error (X.notIndexed (getS P s y.reg)) : Except P.E (List P.V))
          | some l => .ok (getS P s x.reg :: l)) by
            simp only [argVals, hsp', hsq, if_true, Bool.false_eq_true, if_false]; cases X.indexedView (getS P s y.reg) <;> simp]
        simp only [List.length_cons, List.length_nil, Nat.zero_add]
        rw [show fuel + (1 + 1) = (fuel + 1) + 1 by omega]
        rw [push_exec X cap code s a pc _ w x.reg hx hat.head]
        rw [pushArray_exec X cap code s _ (pc + 1) fuel w y.reg hy hat.tail.head]
        cases X.indexedView (getS P s y.reg) <;> simp [List.append_assoc, Nat.add_assoc]
      · have hsq' : y.spliced = false := by simpa using hsq
        rw [show pushSlots [x, y] = [mkAE .push2 x.reg y.reg] by simp [pushSlots, hsp', hsq']] at hat ⊢
        rw [show argVals X s [x, y] = (.ok [getS P s x.reg, getS P s y.reg] : Except P.E (List P.V)) by simp [argVals, hsp', hsq']]
        simp only [List.length_cons, List.length_nil, Nat.zero_add]
        rw [push2_exec X cap code s a pc fuel w x.reg y.reg hx hy hat.head]
  | x :: y :: z :: rest, hr => by
    intro a pc fuel w hat
    have hx := hr x (by simp)
    have hy := hr y (by simp)
    have hz := hr z (by simp)
    by_cases hsp : x.spliced = true
    · have ih' := pushSlots_exec X cap code s (y :: z :: rest) (fun u hu => hr u (List.mem_cons_of_mem _ hu))
      rw [show pushSlots (x :: y :: z :: rest) = mkD .pushArray x.reg :: pushSlots (y :: z :: rest) by simp [pushSlots, hsp]] at hat ⊢
      simp only [List.length_cons]
      rw [show fuel + ((pushSlots (y :: z :: rest)).length + 1) = (fuel + (pushSlots (y :: z :: rest)).length) + 1 by omega]
      rw [pushArray_exec X cap code s a pc _ w x.reg hx hat.head]
      rw [show argVals X s (x :: y :: z :: rest) = (match X.indexedView (getS P s x.reg) with
          | none => (.error (X.notIndexed (getS P s x.reg)) : Except P.E (List P.V))
          | some l => match argVals X s (y :: z :: rest) with
            | .ok vs => .ok (l ++ vs)
            | .error e => .error e) by rw [argVals]; simp only [hsp, if_true]]
      cases hv : X.indexedView (getS P s x.reg) with
      | none => rfl
      | some lx =>
        simp only []
        rw [ih' (a ++ lx) (pc + 1) fuel w hat.tail]
        cases argVals X s (y :: z :: rest) <;> simp [List.append_assoc, Nat.add_assoc, Nat.add_comm, Nat.add_left_comm]
    · have hsp' : x.spliced = false := by simpa using hsp
      by_cases hsq : y.spliced = true
      · have ih' := pushSlots_exec X cap code s (z :: rest) (fun u hu => hr u (List.mem_cons_of_mem _ (List.mem_cons_of_mem _ hu)))
        rw [show pushSlots (x :: y :: z :: rest) = mkD .push x.reg :: mkD .pushArray y.reg :: pushSlots (z :: rest) by
          simp [pushSlots, hsp', hsq]] at hat ⊢
        simp only [List.length_cons]
        rw [show fuel + ((pushSlots (z :: rest)).length + 1 + 1) = ((fuel + (pushSlots (z :: rest)).length) + 1) + 1 by omega]
        rw [push_exec X cap code s a pc _ w x.reg hx hat.head]
        rw [pushArray_exec X cap code s _ (pc + 1) _ w y.reg hy hat.tail.head]
        rw [show argVals X s (x :: y :: z :: rest) = (match X.indexedView (getS P s y.reg) with
          | none => (.error (X.notIndexed (getS P s y.reg)) : Except P.E (List P.V))
          | some l => match argVals X s (z :: rest) with
            | .ok vs => .ok (getS P s x.reg :: (l ++ vs))
            | .error e => .error e) by
              rw [argVals]; simp only [hsp', Bool.false_eq_true, if_false]; rw [argVals]; simp only [hsq, if_true]
              cases X.indexedView (getS P s y.reg) with
              | none => rfl
              | some l => simp only []; cases argVals X s (z :: rest) <;> rfl]
        cases hv : X.indexedView (getS P s y.reg) with
        | none => rfl
        | some ly =>
          simp only []
          rw [ih' (a ++ [getS P s x.reg] ++ ly) (pc + 1 + 1) fuel w hat.tail.tail]
          cases argVals X s (z :: rest) <;> simp [List.append_assoc, Nat.add_assoc, Nat.add_comm, Nat.add_left_comm] <;>
            rw [show 1 + (1 + (pushSlots (z :: rest)).length) = 2 + (pushSlots (z :: rest)).length by omega]
      · have hsq' : y.spliced = false := by simpa using hsq
        by_cases hsr : z.spliced = true
        · have ih' := pushSlots_exec X cap code s rest (fun u hu => hr u (List.mem_cons_of_mem _ (List.mem_cons_of_mem _ (List.mem_cons_of_mem _ hu))))
          rw [show pushSlots (x :: y :: z :: rest) = mkAE .push2 x.reg y.reg :: mkD .pushArray z.reg :: pushSlots rest by
            simp [pushSlots, hsp', hsq', hsr]] at hat ⊢
          simp only [List.length_cons]
          rw [show fuel + ((pushSlots rest).length + 1 + 1) = ((fuel + (pushSlots rest).length) + 1) + 1 by omega]
          rw [push2_exec X cap code s a pc _ w x.reg y.reg hx hy hat.head]
          rw [pushArray_exec X cap code s _ (pc + 1) _ w z.reg hz hat.tail.head]
          rw [show argVals X s (x :: y :: z :: rest) = (match X.indexedView (getS P s z.reg) with
            | none => (.error (X.notIndexed (getS P s z.reg)) : Except P.E (List P.V))
            | some l => match argVals X s rest with
              | .ok vs => .ok (getS P s x.reg :: getS P s y.reg :: (l ++ vs))
              | .error e => .error e) by
                rw [argVals]; simp only [hsp', Bool.false_eq_true, if_false]; rw [argVals]; simp only [hsq', Bool.false_eq_true, if_false]
                rw [argVals]; simp only [hsr, if_true]
                cases X.indexedView (getS P s z.reg) with
                | none => rfl
                | some l => simp only []; cases argVals X s rest <;> rfl]
          cases hv : X.indexedView (getS P s z.reg) with
          | none => rfl
          | some lz =>
            simp only []
            rw [ih' (a ++ [getS P s x.reg, getS P s y.reg] ++ lz) (pc + 1 + 1) fuel w hat.tail.tail]
            cases argVals X s rest <;> simp [List.append_assoc, Nat.add_assoc, Nat.add_comm, Nat.add_left_comm] <;>
              rw [show 1 + (1 + (pushSlots rest).length) = 2 + (pushSlots rest).length by omega]
        · have hsr' : z.spliced = false := by simpa using hsr
          have ih' := pushSlots_exec X cap code s rest (fun u hu => hr u (List.mem_cons_of_mem _ (List.mem_cons_of_mem _ (List.mem_cons_of_mem _ hu))))
          rw [show pushSlots (x :: y :: z :: rest) = mkABC .push3 x.reg y.reg z.reg :: pushSlots rest by
            simp [pushSlots, hsp', hsq', hsr']] at hat ⊢
          simp only [List.length_cons]
          rw [show fuel + ((pushSlots rest).length + 1) = (fuel + (pushSlots rest).length) + 1 by omega]
          rw [push3_exec X cap code s a pc _ w x.reg y.reg z.reg hx hy hz hat.head]
          rw [show argVals X s (x :: y :: z :: rest) = (match argVals X s rest with
            | .ok vs => (.ok (getS P s x.reg :: getS P s y.reg :: getS P s z.reg :: vs) : Except P.E (List P.V))
            | .error e => .error e) by
              rw [argVals]; simp only [hsp', Bool.false_eq_true, if_false]; rw [argVals]; simp only [hsq', Bool.false_eq_true, if_false]
              rw [argVals]; simp only [hsr', Bool.false_eq_true, if_false]
              cases argVals X s rest <;> rfl]
          rw [ih' (a ++ [getS P s x.reg, getS P s y.reg, getS P s z.reg]) (pc + 1) fuel w hat.tail]
          cases argVals X s rest <;> simp [List.append_assoc, Nat.add_assoc, Nat.add_comm, Nat.add_left_comm]
termination_by l => l.length

/-- ★ the generic route in tail position: one call of the VALUE in the function register on `argVals` -/
theorem generic_call_tail (X : CallPrims P) (cap) (code : List Instr) (s : List P.V) (pc : Nat) (f : Nat) (args : List SArg)
    (hr : ∀ x ∈ args, x.reg < 256) (hf : f < 16777216) (hat : HasAt code pc (emitGenericCall f args none)) (w : P.W) :
    execX X cap code ((pushSlots args).length + 1) ⟨s, [], pc⟩ w =
      match argVals X s args with
      | .error e => some (.error e, w)
      | .ok vs => some (retOf (X.call (getS P s f) vs (view P cap s) w)) := by
  unfold emitGenericCall at hat
  rw [show (pushSlots args).length + 1 = 1 + (pushSlots args).length by omega]
  rw [pushSlots_exec X cap code s args hr [] pc 1 w hat.append_left]
  cases argVals X s args with
  | error e => rfl
  | ok vs =>
    simp only [List.nil_append]
    rw [execX_succ X cap code 0 _ w _ _ hat.append_right.head (stepX_tailcall X cap f _)]
    simp only [M.bind, M.pure, mkD_D _ f hf]
    rcases X.call (getS P s f) vs (view P cap s) w with ⟨(_ | _), _⟩ <;> rfl

/-- ★ a call with a spliced argument is never specialised: `janetc_call` takes the generic route whatever the head is -/
theorem splice_selects_generic (head : Option Nat) (args : List SArg) (h : hasSpliced args = true) :
    selectSpecialised head args = none := by
  unfold selectSpecialised
  cases head <;> simp [h]

/-- without splice the row of the tag is selected exactly when its arity guard admits the call -/
theorem select_no_splice (tag : Nat) (args : List SArg) (h : hasSpliced args = false) (r : OptRow) (hr : funopt tag = some r) :
    selectSpecialised (some tag) args = if guardOk r.guard args.length then some r else none := by
  simp [selectSpecialised, h, hr]

end JanetModel.Spec
