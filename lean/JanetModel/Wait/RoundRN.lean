import Mathlib.Data.Rat.Floor
import Mathlib.Tactic.Linarith
import Mathlib.Tactic.Positivity
import Mathlib.Data.Int.Interval
import Mathlib.Data.Finset.Max
import Mathlib.Algebra.Order.Floor.Semiring
import JanetModel.Wait.Rounding
/-
C07 — the two assumptions of `cMs_ge_exact` about the rounding `fl` of the double product (`Monotone fl`, `fl` fixes representable
half-integers) are CONSEQUENCES of the IEEE-754 definition of round-to-nearest: `fl x` is a binary64 number nearest to `x`, whatever
the tie-breaking rule.  So the only thing assumed about the hardware multiplication is that it rounds to nearest.
-/
namespace JanetModel.Wait

/-- the finite binary64 numbers (no upper exponent bound: the theorems carry a range hypothesis) -/
def IsBinary64 (x : ℚ) : Prop := ∃ (m : ℤ) (e : ℤ), |m| < 2 ^ 53 ∧ -1074 ≤ e ∧ x = (m : ℚ) * (2 : ℚ) ^ e

/-- IEEE-754 round-to-nearest with an arbitrary tie rule (ties-to-even, ties-away, …) -/
structure IsRoundNearest (fl : ℚ → ℚ) : Prop where
  mem : ∀ x, IsBinary64 (fl x)
  nearest : ∀ x z, IsBinary64 z → |x - fl x| ≤ |x - z|

theorem IsRoundNearest.monotone {fl : ℚ → ℚ} (h : IsRoundNearest fl) : Monotone fl := by
  intro x y hxy
  by_contra hlt
  rw [not_le] at hlt
  -- a = fl y < b = fl x
  have h1 := h.nearest x (fl y) (h.mem y)     -- |x - b| ≤ |x - a|
  have h2 := h.nearest y (fl x) (h.mem x)     -- |y - a| ≤ |y - b|
  -- from h1: x is at least the midpoint; from h2: y is at most the midpoint
  have hx : fl x + fl y ≤ 2 * x := by
    by_contra hc
    rw [not_le] at hc
    have : |x - fl y| < |x - fl x| := by
      rw [abs_lt]
      constructor
      · have := le_abs_self (fl x - x)
        rw [abs_sub_comm] at this
        linarith
      · have := le_abs_self (fl x - x)
        rw [abs_sub_comm] at this
        linarith
    linarith
  have hy : 2 * y ≤ fl x + fl y := by
    by_contra hc
    rw [not_le] at hc
    have : |y - fl x| < |y - fl y| := by
      rw [abs_lt]
      constructor
      · have := le_abs_self (y - fl y)
        linarith
      · have := le_abs_self (y - fl y)
        linarith
    linarith
  -- hence x = y = midpoint, so fl x = fl y
  have hxy' : x = y := by linarith
  rw [hxy'] at hlt
  exact lt_irrefl _ hlt

theorem IsRoundNearest.fixes {fl : ℚ → ℚ} (h : IsRoundNearest fl) {z : ℚ} (hz : IsBinary64 z) : fl z = z := by
  have := h.nearest z z hz
  simp only [sub_self, abs_zero] at this
  have h0 : |z - fl z| = 0 := le_antisymm this (abs_nonneg _)
  have := abs_eq_zero.mp h0
  linarith

/-- half-integers up to 2^52 are binary64 numbers -/
theorem halfInt_isBinary64 (k : ℤ) (hk : |k| ≤ 2 ^ 53) : IsBinary64 ((k : ℚ) / 2) := by
  by_cases hlt : |k| < 2 ^ 53
  · refine ⟨k, -1, hlt, by norm_num, ?_⟩
    rw [zpow_neg, zpow_one]; ring
  · have heq : |k| = 2 ^ 53 := le_antisymm hk (not_lt.mp hlt)
    rcases abs_eq (by positivity : (0 : ℤ) ≤ 2 ^ 53) |>.mp heq with h | h
    · refine ⟨2 ^ 52, 0, by norm_num, by norm_num, ?_⟩
      rw [h]; norm_num
    · refine ⟨-(2 ^ 52), 0, by norm_num, by norm_num, ?_⟩
      rw [h]; norm_num

example : IsBinary64 (3 / 2) := halfInt_isBinary64 3 (by norm_num)

/-- `cMs_ge_exact` with the rounding assumption reduced to "the multiplication rounds to nearest" -/
theorem cMs_rn_ge_exact (fl : ℚ → ℚ) (hfl : IsRoundNearest fl) (δ : ℚ)
    (hrange : |2 * roundHalfUp (δ * 1000) - 1| ≤ 2 ^ 53) : roundHalfUp (δ * 1000) ≤ cMs fl δ :=
  cMs_ge_exact fl hfl.monotone (fun k hk => hfl.fixes (halfInt_isBinary64 k hk)) δ hrange

theorem cMs_rn_ge_floor (fl : ℚ → ℚ) (hfl : IsRoundNearest fl) (δ : ℚ)
    (hrange : |2 * roundHalfUp (δ * 1000) - 1| ≤ 2 ^ 53) : ⌊δ * 1000⌋ ≤ cMs fl δ :=
  cMs_ge_floor fl hfl.monotone (fun k hk => hfl.fixes (halfInt_isBinary64 k hk)) δ hrange

/-! non-vacuity: a round-to-nearest function exists (every binary64 number is a multiple of 2^-1074, so near any `x` there are
finitely many candidates) -/

theorem exists_nearest (x : ℚ) : ∃ z, IsBinary64 z ∧ ∀ z', IsBinary64 z' → |x - z| ≤ |x - z'| := by
  classical
  have hu0 : (0 : ℚ) < (2 : ℚ) ^ (-1074 : ℤ) := zpow_pos (by norm_num) _
  generalize hu : (2 : ℚ) ^ (-1074 : ℤ) = u at hu0
  have hmul : ∀ z, IsBinary64 z → ∃ n : ℤ, z = (n : ℚ) * u := by
    rintro z ⟨m, e, -, he, rfl⟩
    refine ⟨m * 2 ^ (e + 1074).toNat, ?_⟩
    have h2 : (2 : ℚ) ^ e = (2 : ℚ) ^ (((e + 1074).toNat : ℤ)) * u := by
      rw [← hu, ← zpow_add₀ (by norm_num : (2 : ℚ) ≠ 0), Int.toNat_of_nonneg (by omega)]
      congr 1; ring
    rw [h2, zpow_natCast]; push_cast; ring
  obtain ⟨K, hK⟩ : ∃ K : ℕ, |x| / u ≤ K := ⟨⌈|x| / u⌉₊, Nat.le_ceil _⟩
  have hxK : |x| ≤ K * u := by rwa [div_le_iff₀ hu0] at hK
  let S : Finset ℤ := (Finset.Icc (-(2 * (K : ℤ) + 1)) (2 * K + 1)).filter (fun n => IsBinary64 ((n : ℚ) * u))
  have h0 : (0 : ℤ) ∈ S := by
    refine Finset.mem_filter.mpr ⟨Finset.mem_Icc.mpr ⟨by omega, by omega⟩, ⟨0, 0, by norm_num, by norm_num, by simp⟩⟩
  obtain ⟨n, hnS, hmin⟩ := Finset.exists_min_image S (fun n : ℤ => |x - (n : ℚ) * u|) ⟨0, h0⟩
  refine ⟨n * u, (Finset.mem_filter.mp hnS).2, ?_⟩
  intro z' hz'
  obtain ⟨n', rfl⟩ := hmul z' hz'
  by_cases hin : n' ∈ S
  · exact hmin n' hin
  · have hout : 2 * (K : ℤ) + 2 ≤ |n'| := by
      by_contra hc
      rw [not_le] at hc
      apply hin
      refine Finset.mem_filter.mpr ⟨Finset.mem_Icc.mpr ?_, hz'⟩
      have := abs_lt.mp hc
      constructor <;> omega
    have hq : (2 * (K : ℚ) + 2) * u ≤ |(n' : ℚ) * u| := by
      rw [abs_mul, abs_of_pos hu0]
      have h3 : (2 * (K : ℚ) + 2) ≤ |(n' : ℚ)| := by exact_mod_cast hout
      exact mul_le_mul_of_nonneg_right h3 hu0.le
    have h1 : |x - ((0 : ℤ) : ℚ) * u| ≤ |x - (n' : ℚ) * u| := by
      simp only [Int.cast_zero, zero_mul, sub_zero]
      have ht : |(n' : ℚ) * u| - |x| ≤ |x - (n' : ℚ) * u| := by
        rw [abs_sub_comm x]; exact abs_sub_abs_le_abs_sub _ _
      have hKu : 0 ≤ (K : ℚ) * u := by positivity
      linarith
    exact le_trans (hmin 0 h0) h1

theorem exists_roundNearest : ∃ fl : ℚ → ℚ, IsRoundNearest fl :=
  ⟨fun x => Classical.choose (exists_nearest x),
   fun x => (Classical.choose_spec (exists_nearest x)).1,
   fun x z hz => (Classical.choose_spec (exists_nearest x)).2 z hz⟩

end JanetModel.Wait
