import JanetModel.Wait.Mono
/-
C07 — with-deadline bodies: nothing but `bodyStart` / `bodyDone` touches them, a finished body stays finished.
-/
namespace JanetModel.Wait

/-- `w'` has the same body state as `w` -/
def BF (w w' : World) : Prop := w'.bodies = w.bodies ∧ w'.bodyDead = w.bodyDead

theorem BF.refl (w : World) : BF w w := ⟨rfl, rfl⟩
theorem BF.trans {a b c : World} (h1 : BF a b) (h2 : BF b c) : BF a c := ⟨h2.1.trans h1.1, h2.2.trans h1.2⟩

theorem schedule_BF (cfg : Cfg) (w : World) (f : Nat) (v : Val) (e : Bool) (rg nb : Nat) (src : Src) (re : Nat) :
    BF w (schedule cfg w f v e rg nb src re) := by
  unfold schedule
  by_cases hc : (cfg.canceledGuard && (w.fibers f).canceled) = true <;> simp [hc, BF]

theorem schedule_BF' (cfg : Cfg) (w w1 : World) (h : BF w w1) (f : Nat) (v : Val) (e : Bool) (rg nb : Nat) (src : Src) (re : Nat) :
    BF w (schedule cfg w1 f v e rg nb src re) := BF.trans h (schedule_BF cfg w1 f v e rg nb src re)

theorem chanPush_BF (cfg : Cfg) (w : World) (f c : Nat) (x : Val) (ch : Bool) : BF w (chanPush cfg w f c x ch).1 := by
  unfold chanPush
  cases popLive cfg.pushSkipsStale w (w.chans c).rp with
  | mk o rest =>
    cases o with
    | none =>
      simp only
      by_cases hlen : ((w.chans c).items ++ [x]).length > (w.chans c).limit
      · rw [if_pos hlen]; exact ⟨rfl, rfl⟩
      · rw [if_neg hlen]; exact ⟨rfl, rfl⟩
    | some r => simp only; (apply schedule_BF'; exact ⟨rfl, rfl⟩)

theorem superPush_BF (cfg : Cfg) (w : World) (c : Nat) (x : Val) : BF w (superPush cfg w c x) := by
  unfold superPush
  split
  · exact BF.refl _
  · cases popLive cfg.pushSkipsStale w (w.chans c).rp with
    | mk o rest =>
      cases o with
      | none => exact ⟨rfl, rfl⟩
      | some r => simp only; (apply schedule_BF'; exact ⟨rfl, rfl⟩)

theorem chanPopWake_BF (cfg : Cfg) (w : World) (c : Nat) (items : List Val) : BF w (chanPopWake cfg w c items) := by
  unfold chanPopWake
  cases popLive cfg.popSkipsStale w (w.chans c).wp with
  | mk o rest =>
    cases o with
    | none => exact ⟨rfl, rfl⟩
    | some r => simp only; (apply schedule_BF'; exact ⟨rfl, rfl⟩)

theorem chanPop_BF (cfg : Cfg) (w : World) (f c : Nat) (ch : Bool) : BF w (chanPop cfg w f c ch).1 := by
  unfold chanPop
  cases (w.chans c).items with
  | nil => exact ⟨rfl, rfl⟩
  | cons it items => exact chanPopWake_BF cfg w c items

theorem closeOne_BF (cfg : Cfg) (c : Nat) (w : World) (e : Pending) : BF w (closeOne cfg c w e) := by
  unfold closeOne
  split
  · exact schedule_BF _ _ _ _ _ _ _ _ _
  · exact BF.refl _

theorem closeFold_BF (cfg : Cfg) (c : Nat) (l : List Pending) (w : World) : BF w (l.foldl (closeOne cfg c) w) := by
  induction l generalizing w with
  | nil => exact BF.refl _
  | cons e es ih => exact BF.trans (closeOne_BF cfg c w e) (ih _)

theorem fireTimer_BF (cfg : Cfg) (w : World) (to : Timer) : BF w (fireTimer cfg w to) := by
  unfold fireTimer
  cases to.kind with
  | deadline b => simp only; split; exact schedule_BF _ _ _ _ _ _ _ _ _; exact BF.refl _
  | timeout => simp only; split; exact schedule_BF _ _ _ _ _ _ _ _ _; exact BF.refl _
  | sleep => simp only; split; exact schedule_BF _ _ _ _ _ _ _ _ _; exact BF.refl _

theorem timerPhase_BF (cfg : Cfg) (fuel : Nat) (w : World) : BF w (timerPhase cfg w fuel) := by
  induction fuel generalizing w with
  | zero => exact BF.refl _
  | succ n ih =>
    unfold timerPhase
    cases w.timers with
    | nil => exact BF.refl _
    | cons to rest =>
      simp only
      split
      · have h1 : BF w { w with timers := rest } := ⟨rfl, rfl⟩
        exact BF.trans h1 (BF.trans (fireTimer_BF cfg _ to) (ih _))
      · exact BF.refl _

theorem asyncEnd_BF (w : World) (f : Nat) : BF w (asyncEnd w f) := by
  unfold asyncEnd
  cases (w.fibers f).listener with
  | none => exact BF.refl _
  | some p => exact ⟨rfl, rfl⟩

theorem runTask_BF (cfg : Cfg) (w : World) : BF w (runTask cfg w) := by
  unfold runTask
  cases w.queue with
  | nil => exact BF.refl _
  | cons t q =>
    simp only
    split
    · exact ⟨rfl, rfl⟩
    · split
      · exact ⟨(asyncEnd_BF _ t.fiber).1, (asyncEnd_BF _ t.fiber).2⟩
      · exact ⟨rfl, rfl⟩

/-- every step except `bodyStart` / `bodyDone` leaves the bodies alone -/
theorem step_BF (cfg : Cfg) (w : World) (op : Op) (h1 : ∀ b, op ≠ .bodyStart b) (h2 : ∀ b, op ≠ .bodyDone b) : BF w (step cfg w op) := by
  cases op with
  | spawn f => exact schedule_BF _ _ _ _ _ _ _ _ _
  | give f c x ch => simp only [step]; split; exact BF.refl _; exact chanPush_BF _ _ _ _ _ _
  | take f c ch =>
    simp only [step]
    split
    · split; exact BF.refl _; exact schedule_BF _ _ _ _ _ _ _ _ _
    · have hp := chanPop_BF cfg w f c ch
      cases hr : chanPop cfg w f c ch with
      | mk w1 o =>
        rw [hr] at hp
        cases o with
        | none => exact hp
        | some it => simp only; split; exact hp; exact BF.trans hp (schedule_BF _ _ _ _ _ _ _ _ _)
  | close c =>
    simp only [step, chanClose]
    split
    · exact BF.refl _
    · have h0 : BF w { w with chans := set w.chans c { (w.chans c) with closed := true, rp := [], wp := [] } } := ⟨rfl, rfl⟩
      exact BF.trans h0 (closeFold_BF _ _ _ _)
  | cancel f v => exact schedule_BF _ _ _ _ _ _ _ _ _
  | sleep f d => exact ⟨rfl, rfl⟩
  | timeout f d => exact ⟨rfl, rfl⟩
  | deadline f b d => exact ⟨rfl, rfl⟩
  | bodyStart b => exact absurd rfl (h1 b)
  | bodyDone b => exact absurd rfl (h2 b)
  | fiberDead f => exact ⟨rfl, rfl⟩
  | asyncStart f s r => exact ⟨rfl, rfl⟩
  | streamEvent s r v e =>
    simp only [step, streamEvent]
    split
    · exact BF.refl _
    · split
      · exact BF.refl _
      · split
        · exact BF.trans (schedule_BF _ _ _ _ _ _ _ _ _) (asyncEnd_BF _ _)
        · exact BF.refl _
  | procWait f k => exact ⟨rfl, rfl⟩
  | procExit k st =>
    simp only [step, procExit]
    split
    · exact BF.refl _
    · split
      · split
        · split
          · apply schedule_BF'; exact ⟨rfl, rfl⟩
          · exact ⟨rfl, rfl⟩
        · split
          · apply schedule_BF'; exact ⟨rfl, rfl⟩
          · exact ⟨rfl, rfl⟩
      · exact ⟨rfl, rfl⟩
  | procFlag k x => exact ⟨rfl, rfl⟩
  | superPush c x => exact superPush_BF _ _ _ _
  | thrWait f k => exact ⟨rfl, rfl⟩
  | thrDone k v e =>
    simp only [step, thrDone]
    split
    · exact BF.refl _
    · split
      · apply schedule_BF'; exact ⟨rfl, rfl⟩
      · exact ⟨rfl, rfl⟩
  | childEnter f => exact ⟨rfl, rfl⟩
  | childLeave f =>
    simp only [step]
    split
    · have := asyncEnd_BF { w with fibers := set w.fibers f { w.fibers f with depth := (w.fibers f).depth - 1 } } f
      exact ⟨this.1, this.2⟩
    · exact ⟨rfl, rfl⟩
  | advance dt => exact ⟨rfl, rfl⟩
  | timers => exact timerPhase_BF _ _ _
  | run => exact runTask_BF _ _

/-- a finished body is not resumable -/
def BInv (w : World) : Prop := ∀ b, w.bodyDead b = true → w.bodies b = false

theorem init_BInv : BInv init := by intro b h; simp [init] at h

theorem step_body (cfg : Cfg) (w : World) (op : Op) (h : BInv w) :
    BInv (step cfg w op) ∧ ∀ b, w.bodyDead b = true → (step cfg w op).bodyDead b = true := by
  by_cases h1 : ∃ b, op = .bodyStart b
  · obtain ⟨b, rfl⟩ := h1
    simp only [step]
    by_cases hd : w.bodyDead b = true
    · rw [if_pos hd]; exact ⟨h, fun _ hb => hb⟩
    · rw [if_neg hd]
      refine ⟨?_, fun _ hb => hb⟩
      intro b' hb'
      by_cases hbb : b' = b
      · subst hbb; exact absurd hb' hd
      · simp only [set_other _ _ _ _ hbb]; exact h b' hb'
  · by_cases h2 : ∃ b, op = .bodyDone b
    · obtain ⟨b, rfl⟩ := h2
      simp only [step]
      refine ⟨?_, ?_⟩
      · intro b' hb'
        by_cases hbb : b' = b
        · subst hbb; simp
        · simp only [set_other _ _ _ _ hbb] at hb' ⊢; exact h b' hb'
      · intro b' hb'
        by_cases hbb : b' = b
        · subst hbb; simp
        · simp only [set_other _ _ _ _ hbb]; exact hb'
    · have hf := step_BF cfg w op (fun b hb => h1 ⟨b, hb⟩) (fun b hb => h2 ⟨b, hb⟩)
      refine ⟨?_, ?_⟩
      · intro b hb; rw [hf.1]; rw [hf.2] at hb; exact h b hb
      · intro b hb; rw [hf.2]; exact hb

theorem run_body (cfg : Cfg) (ops : List Op) (w : World) (h : BInv w) :
    BInv (run cfg w ops) ∧ ∀ b, w.bodyDead b = true → (run cfg w ops).bodyDead b = true := by
  induction ops generalizing w with
  | nil => exact ⟨h, fun _ hb => hb⟩
  | cons op ops ih =>
    obtain ⟨h1, h2⟩ := step_body cfg w op h
    obtain ⟨h3, h4⟩ := ih _ h1
    exact ⟨h3, fun b hb => h4 b (h2 b hb)⟩

end JanetModel.Wait
