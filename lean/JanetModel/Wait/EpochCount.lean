import JanetModel.Wait.Epoch
/-
C07 — the ghost `epoch` of Wait/Model.lean is not an arbitrary label: for every configuration and every step sequence it equals the
number of times the loop has resumed the fiber (events of that fiber in the log), and `epochAtRun` of an event is the number of
earlier events of the same fiber.  Only the run phase changes either.
-/
namespace JanetModel.Wait

/-- `w'` has the same log and the same epochs as `w` -/
def SE (w w' : World) : Prop := w'.log = w.log ∧ ∀ f, (w'.fibers f).epoch = (w.fibers f).epoch

theorem SE.refl (w : World) : SE w w := ⟨rfl, fun _ => rfl⟩
theorem SE.trans {a b c : World} (h1 : SE a b) (h2 : SE b c) : SE a c := ⟨h2.1.trans h1.1, fun f => (h2.2 f).trans (h1.2 f)⟩

theorem schedule_SE (cfg : Cfg) (w : World) (f : Nat) (v : Val) (e : Bool) (rg nb : Nat) (src : Src) (re : Nat) :
    SE w (schedule cfg w f v e rg nb src re) := by
  unfold schedule
  by_cases hc : (cfg.canceledGuard && (w.fibers f).canceled) = true
  · simp only [hc, if_true]; exact SE.refl _
  · simp only [hc]
    refine ⟨rfl, fun g => ?_⟩
    by_cases hg : g = f
    · subst hg; simp
    · simp [set_other _ _ _ _ hg]

theorem schedule_SE' (cfg : Cfg) (w w1 : World) (h : SE w w1) (f : Nat) (v : Val) (e : Bool) (rg nb : Nat) (src : Src) (re : Nat) :
    SE w (schedule cfg w1 f v e rg nb src re) := SE.trans h (schedule_SE cfg w1 f v e rg nb src re)

theorem chanPush_SE (cfg : Cfg) (w : World) (f c : Nat) (x : Val) (ch : Bool) : SE w (chanPush cfg w f c x ch).1 := by
  unfold chanPush
  cases popLive cfg.pushSkipsStale w (w.chans c).rp with
  | mk o rest =>
    cases o with
    | none =>
      simp only
      by_cases hlen : ((w.chans c).items ++ [x]).length > (w.chans c).limit
      · rw [if_pos hlen]; exact ⟨rfl, fun _ => rfl⟩
      · rw [if_neg hlen]; exact ⟨rfl, fun _ => rfl⟩
    | some r => simp only; (apply schedule_SE'; exact ⟨rfl, fun _ => rfl⟩)

theorem superPush_SE (cfg : Cfg) (w : World) (c : Nat) (x : Val) : SE w (superPush cfg w c x) := by
  unfold superPush
  split
  · exact SE.refl _
  · cases popLive cfg.pushSkipsStale w (w.chans c).rp with
    | mk o rest =>
      cases o with
      | none => exact ⟨rfl, fun _ => rfl⟩
      | some r => simp only; (apply schedule_SE'; exact ⟨rfl, fun _ => rfl⟩)

theorem chanPopWake_SE (cfg : Cfg) (w : World) (c : Nat) (items : List Val) : SE w (chanPopWake cfg w c items) := by
  unfold chanPopWake
  cases popLive cfg.popSkipsStale w (w.chans c).wp with
  | mk o rest =>
    cases o with
    | none => exact ⟨rfl, fun _ => rfl⟩
    | some r => simp only; (apply schedule_SE'; exact ⟨rfl, fun _ => rfl⟩)

theorem chanPop_SE (cfg : Cfg) (w : World) (f c : Nat) (ch : Bool) : SE w (chanPop cfg w f c ch).1 := by
  unfold chanPop
  cases (w.chans c).items with
  | nil => exact ⟨rfl, fun _ => rfl⟩
  | cons it items => exact chanPopWake_SE cfg w c items

theorem closeOne_SE (cfg : Cfg) (c : Nat) (w : World) (e : Pending) : SE w (closeOne cfg c w e) := by
  unfold closeOne
  split
  · exact schedule_SE _ _ _ _ _ _ _ _ _
  · exact SE.refl _

theorem closeFold_SE (cfg : Cfg) (c : Nat) (l : List Pending) (w : World) : SE w (l.foldl (closeOne cfg c) w) := by
  induction l generalizing w with
  | nil => exact SE.refl _
  | cons e es ih => exact SE.trans (closeOne_SE cfg c w e) (ih _)

theorem fireTimer_SE (cfg : Cfg) (w : World) (to : Timer) : SE w (fireTimer cfg w to) := by
  unfold fireTimer
  cases to.kind with
  | deadline b => simp only; split; exact schedule_SE _ _ _ _ _ _ _ _ _; exact SE.refl _
  | timeout => simp only; split; exact schedule_SE _ _ _ _ _ _ _ _ _; exact SE.refl _
  | sleep => simp only; split; exact schedule_SE _ _ _ _ _ _ _ _ _; exact SE.refl _

theorem timerPhase_SE (cfg : Cfg) (fuel : Nat) (w : World) : SE w (timerPhase cfg w fuel) := by
  induction fuel generalizing w with
  | zero => exact SE.refl _
  | succ n ih =>
    unfold timerPhase
    cases w.timers with
    | nil => exact SE.refl _
    | cons to rest =>
      simp only
      split
      · have h1 : SE w { w with timers := rest } := ⟨rfl, fun _ => rfl⟩
        exact SE.trans h1 (SE.trans (fireTimer_SE cfg _ to) (ih _))
      · exact SE.refl _

theorem setFiber_SE (w : World) (f : Nat) (fb : Fiber) (h : fb.epoch = (w.fibers f).epoch) :
    SE w { w with fibers := set w.fibers f fb } := by
  refine ⟨rfl, fun g => ?_⟩
  by_cases hg : g = f
  · subst hg; simp [h]
  · simp [set_other _ _ _ _ hg]

theorem asyncEnd_SE (w : World) (f : Nat) : SE w (asyncEnd w f) := by
  unfold asyncEnd
  cases (w.fibers f).listener with
  | none => exact SE.refl _
  | some p =>
    simp only
    refine ⟨rfl, fun g => ?_⟩
    by_cases hg : g = f
    · subst hg; simp
    · simp [set_other _ _ _ _ hg]

/-- every step except the run phase leaves the log and all epochs alone -/
theorem step_SE (cfg : Cfg) (w : World) (op : Op) (hrun : op ≠ .run) : SE w (step cfg w op) := by
  cases op with
  | spawn f => exact schedule_SE _ _ _ _ _ _ _ _ _
  | give f c x ch => simp only [step]; split; exact SE.refl _; exact chanPush_SE _ _ _ _ _ _
  | take f c ch =>
    simp only [step]
    split
    · split; exact SE.refl _; exact schedule_SE _ _ _ _ _ _ _ _ _
    · have hp := chanPop_SE cfg w f c ch
      cases hr : chanPop cfg w f c ch with
      | mk w1 o =>
        rw [hr] at hp
        cases o with
        | none => exact hp
        | some it => simp only; split; exact hp; exact SE.trans hp (schedule_SE _ _ _ _ _ _ _ _ _)
  | close c =>
    simp only [step, chanClose]
    split
    · exact SE.refl _
    · have h0 : SE w { w with chans := set w.chans c { (w.chans c) with closed := true, rp := [], wp := [] } } := ⟨rfl, fun _ => rfl⟩
      exact SE.trans h0 (closeFold_SE _ _ _ _)
  | cancel f v => exact schedule_SE _ _ _ _ _ _ _ _ _
  | sleep f d => exact ⟨rfl, fun _ => rfl⟩
  | timeout f d => exact ⟨rfl, fun _ => rfl⟩
  | deadline f b d => exact ⟨rfl, fun _ => rfl⟩
  | bodyStart b => simp only [step]; split <;> exact ⟨rfl, fun _ => rfl⟩
  | bodyDone b => exact ⟨rfl, fun _ => rfl⟩
  | fiberDead f => exact setFiber_SE w f _ rfl
  | asyncStart f s r =>
    have := setFiber_SE w f { w.fibers f with listener := some (s, r), listenEpoch := (w.fibers f).epoch } rfl
    exact ⟨this.1, this.2⟩
  | streamEvent s r v e =>
    simp only [step, streamEvent]
    split
    · exact SE.refl _
    · split
      · exact SE.refl _
      · split
        · exact SE.trans (schedule_SE _ _ _ _ _ _ _ _ _) (asyncEnd_SE _ _)
        · exact SE.refl _
  | procWait f k => exact ⟨rfl, fun _ => rfl⟩
  | procExit k st =>
    simp only [step, procExit]
    split
    · exact SE.refl _
    · split
      · split
        · split
          · apply schedule_SE'; exact ⟨rfl, fun _ => rfl⟩
          · exact ⟨rfl, fun _ => rfl⟩
        · split
          · apply schedule_SE'; exact ⟨rfl, fun _ => rfl⟩
          · exact ⟨rfl, fun _ => rfl⟩
      · exact ⟨rfl, fun _ => rfl⟩
  | procFlag k x => exact ⟨rfl, fun _ => rfl⟩
  | superPush c x => exact superPush_SE _ _ _ _
  | thrWait f k => exact ⟨rfl, fun _ => rfl⟩
  | thrDone k v e =>
    simp only [step, thrDone]
    split
    · exact SE.refl _
    · split
      · apply schedule_SE'; exact ⟨rfl, fun _ => rfl⟩
      · exact ⟨rfl, fun _ => rfl⟩
  | childEnter f => exact setFiber_SE w f _ rfl
  | childLeave f =>
    simp only [step]
    split
    · exact SE.trans (setFiber_SE w f { w.fibers f with depth := (w.fibers f).depth - 1 } rfl) (asyncEnd_SE _ _)
    · exact setFiber_SE w f _ rfl
  | advance dt => exact ⟨rfl, fun _ => rfl⟩
  | timers => exact timerPhase_SE _ _ _
  | run => exact absurd rfl hrun

/-- number of earlier resumes of fiber `f` recorded in a log (newest first) -/
def resumesOf (f : Nat) (l : List Event) : Nat := (l.filter (fun e => e.fiber == f)).length

/-- each event's `epochAtRun` is the number of earlier events of the same fiber -/
def LogOk : List Event → Prop
  | [] => True
  | e :: rest => e.epochAtRun = resumesOf e.fiber rest ∧ LogOk rest

/-- the ghost epoch IS the number of resumes: of the fiber so far, and at each logged event -/
structure CInv (w : World) : Prop where
  ep : ∀ f, (w.fibers f).epoch = resumesOf f w.log
  lg : LogOk w.log

theorem init_CInv : CInv init := ⟨fun _ => rfl, trivial⟩

theorem CInv.of_SE {w w' : World} (h : CInv w) (hs : SE w w') : CInv w' :=
  ⟨fun f => by rw [hs.2 f, hs.1]; exact h.ep f, by rw [hs.1]; exact h.lg⟩

theorem runTask_CInv (cfg : Cfg) {w : World} (h : CInv w) : CInv (runTask cfg w) := by
  unfold runTask
  cases hq : w.queue with
  | nil => exact h
  | cons t q =>
    simp only
    split
    · exact h.of_SE (by
        have := setFiber_SE w t.fiber { w.fibers t.fiber with canceled := false } rfl
        exact ⟨this.1, this.2⟩)
    · -- executed: epoch + 1 and one more event of this fiber
      have key : ∀ W : World, W.log = w.log → (∀ g, (W.fibers g).epoch = if g = t.fiber then (w.fibers t.fiber).epoch + 1 else (w.fibers g).epoch) →
          CInv { W with log := { tick := w.now, fiber := t.fiber, schedIdAtRun := (w.fibers t.fiber).schedId, task := t,
                                  epochAtRun := (w.fibers t.fiber).epoch } :: W.log } := by
        intro W hl he
        refine ⟨?_, ?_⟩
        · intro g
          simp only [resumesOf, List.filter_cons]
          rw [he g, hl]
          by_cases hg : g = t.fiber
          · subst hg; simp [h.ep t.fiber, resumesOf]
          · have : (t.fiber == g) = false := by simp [Ne.symm hg]
            simp [hg, this, h.ep g, resumesOf]
        · exact ⟨by rw [hl]; exact h.ep t.fiber, by rw [hl]; exact h.lg⟩
      have hW : ∀ g, (({ w with queue := q, fibers := set w.fibers t.fiber { w.fibers t.fiber with canceled := false, epoch := (w.fibers t.fiber).epoch + 1, schedId := (if cfg.resumeBumps then (w.fibers t.fiber).schedId + 1 else (w.fibers t.fiber).schedId) } } : World).fibers g).epoch =
          if g = t.fiber then (w.fibers t.fiber).epoch + 1 else (w.fibers g).epoch := by
        intro g
        by_cases hg : g = t.fiber
        · subst hg; simp
        · simp [hg, set_other _ _ _ _ hg]
      split
      · have hs := asyncEnd_SE { w with queue := q, fibers := set w.fibers t.fiber { w.fibers t.fiber with canceled := false, epoch := (w.fibers t.fiber).epoch + 1, schedId := (if cfg.resumeBumps then (w.fibers t.fiber).schedId + 1 else (w.fibers t.fiber).schedId) } } t.fiber
        exact key _ hs.1 (fun g => by rw [hs.2 g]; exact hW g)
      · exact key _ rfl hW

theorem step_CInv (cfg : Cfg) {w : World} (h : CInv w) (op : Op) : CInv (step cfg w op) := by
  by_cases hr : op = .run
  · subst hr; exact runTask_CInv cfg h
  · exact h.of_SE (step_SE cfg w op hr)

theorem run_CInv (cfg : Cfg) (ops : List Op) {w : World} (h : CInv w) : CInv (run cfg w ops) := by
  induction ops generalizing w with
  | nil => exact h
  | cons op ops ih => exact ih (step_CInv cfg h op)

theorem LogOk.at {pre : List Event} {e : Event} {rest : List Event} (h : LogOk (pre ++ e :: rest)) :
    e.epochAtRun = resumesOf e.fiber rest := by
  induction pre with
  | nil => exact h.1
  | cons x xs ih => exact ih h.2

end JanetModel.Wait
