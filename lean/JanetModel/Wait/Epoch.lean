import JanetModel.Wait.Bodies
/-
C07 — "current wait" in the property's own terms.

Ghost `epoch f` = how many times the loop has resumed fiber `f` so far.  Every registration (pending channel entry, timer,
process-wait record, stream listener) remembers the epoch of its fiber at the moment it was made, every task the epoch of the
registration (or request) it stems from.  Invariant `EInv`: a record whose generation is still the fiber's current generation was
made in the fiber's CURRENT epoch, i.e. after the fiber's last resume.  Consequence (`Props.C07.resumed_only_by_registration_of_current_wait`):
every executed task stems from a registration made after the previous resume of that fiber — never from a wait the fiber has
already left.  This needs the generation to be bumped both when a fiber is scheduled and when it is resumed (`resumeBumps`).
-/
namespace JanetModel.Wait

/-- a record of fiber `f` with generation `g`, made in epoch `ep`, is consistent with `w` -/
def Reg (w : World) (f g ep : Nat) : Prop :=
  g ≤ (w.fibers f).schedId ∧ (g = (w.fibers f).schedId → ep = (w.fibers f).epoch)

/-- generations only grow, and an epoch changes only together with the generation -/
def Adv (w w' : World) : Prop :=
  ∀ f, (w.fibers f).schedId ≤ (w'.fibers f).schedId ∧
       ((w.fibers f).schedId = (w'.fibers f).schedId → (w.fibers f).epoch = (w'.fibers f).epoch)

theorem Adv.refl (w : World) : Adv w w := fun _ => ⟨Nat.le_refl _, fun _ => rfl⟩

theorem Adv.of_fibers {w w' : World} (h : w'.fibers = w.fibers) : Adv w w' := by
  intro f; rw [h]; exact ⟨Nat.le_refl _, fun _ => rfl⟩

theorem Adv.trans {a b c : World} (h1 : Adv a b) (h2 : Adv b c) : Adv a c := by
  intro f
  obtain ⟨a1, a2⟩ := h1 f
  obtain ⟨b1, b2⟩ := h2 f
  refine ⟨Nat.le_trans a1 b1, fun h => ?_⟩
  have e1 : (a.fibers f).schedId = (b.fibers f).schedId := by omega
  have e2 : (b.fibers f).schedId = (c.fibers f).schedId := by omega
  rw [a2 e1, b2 e2]

theorem Reg.adv {w w' : World} {f g ep : Nat} (h : Reg w f g ep) (ha : Adv w w') : Reg w' f g ep := by
  obtain ⟨a1, a2⟩ := ha f
  obtain ⟨h1, h2⟩ := h
  refine ⟨Nat.le_trans h1 a1, fun hg => ?_⟩
  have e1 : (w.fibers f).schedId = (w'.fibers f).schedId := by omega
  rw [← a2 e1]; exact h2 (by omega)

theorem Reg.cur (w : World) (f : Nat) : Reg w f (w.fibers f).schedId (w.fibers f).epoch := ⟨Nat.le_refl _, fun _ => rfl⟩

structure EInv (w : World) : Prop where
  q : ∀ t ∈ w.queue, Reg w t.fiber t.expected t.regEpoch
  rp : ∀ c, ∀ p ∈ (w.chans c).rp, Reg w p.fiber p.schedId p.epoch
  wp : ∀ c, ∀ p ∈ (w.chans c).wp, Reg w p.fiber p.schedId p.epoch
  tm : ∀ to ∈ w.timers, Reg w to.fiber to.schedId to.epoch
  pr : ∀ k f g, w.procs k = some (f, g) → Reg w f g (w.procEpoch k)
  th : ∀ k f g, w.thr k = some (f, g) → Reg w f g (w.thrEpoch k)
  ls : ∀ f, (w.fibers f).listener ≠ none → (w.fibers f).listenEpoch = (w.fibers f).epoch
  lg : ∀ e ∈ w.log, e.task.regEpoch = e.epochAtRun

theorem init_EInv : EInv init := by
  refine ⟨?_, ?_, ?_, ?_, ?_, ?_, ?_, ?_⟩ <;> intros <;> simp_all [init]

/-- every record of `w'` is a record of `w` or is current in `w'` -/
theorem EInv.transfer {w w' : World} (h : EInv w) (ha : Adv w w')
    (hq : ∀ t ∈ w'.queue, t ∈ w.queue ∨ Reg w' t.fiber t.expected t.regEpoch)
    (hrp : ∀ c, ∀ p ∈ (w'.chans c).rp, p ∈ (w.chans c).rp ∨ Reg w' p.fiber p.schedId p.epoch)
    (hwp : ∀ c, ∀ p ∈ (w'.chans c).wp, p ∈ (w.chans c).wp ∨ Reg w' p.fiber p.schedId p.epoch)
    (htm : ∀ to ∈ w'.timers, to ∈ w.timers ∨ Reg w' to.fiber to.schedId to.epoch)
    (hpr : ∀ k f g, w'.procs k = some (f, g) →
        (w.procs k = some (f, g) ∧ w'.procEpoch k = w.procEpoch k) ∨ Reg w' f g (w'.procEpoch k))
    (hth : ∀ k f g, w'.thr k = some (f, g) →
        (w.thr k = some (f, g) ∧ w'.thrEpoch k = w.thrEpoch k) ∨ Reg w' f g (w'.thrEpoch k))
    (hls : ∀ f, (w'.fibers f).listener ≠ none →
        ((w.fibers f).listener ≠ none ∧ (w'.fibers f).listenEpoch = (w.fibers f).listenEpoch ∧
          (w'.fibers f).epoch = (w.fibers f).epoch) ∨ (w'.fibers f).listenEpoch = (w'.fibers f).epoch)
    (hlg : ∀ e ∈ w'.log, e ∈ w.log ∨ e.task.regEpoch = e.epochAtRun) : EInv w' := by
  refine ⟨?_, ?_, ?_, ?_, ?_, ?_, ?_, ?_⟩
  · intro t ht; rcases hq t ht with h1 | h1
    · exact (h.q t h1).adv ha
    · exact h1
  · intro c p hp; rcases hrp c p hp with h1 | h1
    · exact (h.rp c p h1).adv ha
    · exact h1
  · intro c p hp; rcases hwp c p hp with h1 | h1
    · exact (h.wp c p h1).adv ha
    · exact h1
  · intro to hto; rcases htm to hto with h1 | h1
    · exact (h.tm to h1).adv ha
    · exact h1
  · intro k f g hk; rcases hpr k f g hk with ⟨h1, h2⟩ | h1
    · rw [h2]; exact (h.pr k f g h1).adv ha
    · exact h1
  · intro k f g hk; rcases hth k f g hk with ⟨h1, h2⟩ | h1
    · rw [h2]; exact (h.th k f g h1).adv ha
    · exact h1
  · intro f hf; rcases hls f hf with ⟨h1, h2, h3⟩ | h1
    · rw [h2, h3]; exact h.ls f h1
    · exact h1
  · intro e he; rcases hlg e he with h1 | h1
    · exact h.lg e h1
    · exact h1

/-- a world that differs from `w` only in fields that carry no records -/
theorem EInv.frame {w w' : World} (h : EInv w) (hf : w'.fibers = w.fibers) (hq : w'.queue = w.queue) (hc : w'.chans = w.chans)
    (ht : w'.timers = w.timers) (hp : w'.procs = w.procs) (hpe : w'.procEpoch = w.procEpoch) (hl : w'.log = w.log)
    (hth : w'.thr = w.thr := by rfl) (hthe : w'.thrEpoch = w.thrEpoch := by rfl) : EInv w' := by
  refine h.transfer (Adv.of_fibers hf) ?_ ?_ ?_ ?_ ?_ ?_ ?_ ?_
  · intro t ht'; rw [hq] at ht'; exact Or.inl ht'
  · intro c p hp'; rw [hc] at hp'; exact Or.inl hp'
  · intro c p hp'; rw [hc] at hp'; exact Or.inl hp'
  · intro to hto; rw [ht] at hto; exact Or.inl hto
  · intro k f g hk; rw [hp] at hk; exact Or.inl ⟨hk, by rw [hpe]⟩
  · intro k f g hk; rw [hth] at hk; exact Or.inl ⟨hk, by rw [hthe]⟩
  · intro f hf'; rw [hf] at hf' ⊢; exact Or.inl ⟨hf', rfl, rfl⟩
  · intro e he; rw [hl] at he; exact Or.inl he

/-- replacing the channel table by one whose pending entries are old entries or current ones -/
theorem EInv.chans {w : World} (h : EInv w) (cs : Nat → Chan)
    (hrp : ∀ c, ∀ p ∈ (cs c).rp, p ∈ (w.chans c).rp ∨ Reg w p.fiber p.schedId p.epoch)
    (hwp : ∀ c, ∀ p ∈ (cs c).wp, p ∈ (w.chans c).wp ∨ Reg w p.fiber p.schedId p.epoch) : EInv { w with chans := cs } := by
  refine h.transfer (Adv.of_fibers rfl) (fun t ht => Or.inl ht) ?_ ?_ (fun to hto => Or.inl hto)
    (fun k f g hk => Or.inl ⟨hk, rfl⟩) (fun k f g hk => Or.inl ⟨hk, rfl⟩) (fun f hf => Or.inl ⟨hf, rfl, rfl⟩) (fun e he => Or.inl he)
  · intro c p hp; exact hrp c p hp
  · intro c p hp; exact hwp c p hp

/-- scheduling on behalf of a record (or request) of the fiber's current epoch -/
theorem schedule_E (cfg : Cfg) (hb : cfg.scheduleBumps = true) {w : World} (h : EInv w) (f : Nat) (v : Val) (e : Bool)
    (rg nb : Nat) (src : Src) {re : Nat} (hre : re = (w.fibers f).epoch) : EInv (schedule cfg w f v e rg nb src re) := by
  unfold schedule
  by_cases hc : (cfg.canceledGuard && (w.fibers f).canceled) = true
  · simp only [hc, if_true]; exact h
  · simp only [hc]
    have hadv : Adv w { w with fibers := set w.fibers f { w.fibers f with schedId := nextSid cfg (w.fibers f).schedId e,
                                                                             canceled := (w.fibers f).canceled || e },
                               queue := w.queue ++ [{ fiber := f, value := v, isErr := e, expected := nextSid cfg (w.fibers f).schedId e,
                                                       regGen := rg, notBefore := nb, src := src, regEpoch := re }] } := by
      intro g
      by_cases hg : g = f
      · subst hg; simp [nextSid, hb]
      · simp [set_other _ _ _ _ hg]
    refine h.transfer hadv ?_ (fun c p hp => Or.inl hp) (fun c p hp => Or.inl hp) (fun to hto => Or.inl hto)
      (fun k f' g hk => Or.inl ⟨hk, rfl⟩) (fun k f' g hk => Or.inl ⟨hk, rfl⟩) ?_ (fun ev hev => Or.inl hev)
    · intro t ht
      rcases List.mem_append.mp ht with ht | ht
      · exact Or.inl ht
      · right
        rw [List.mem_singleton.mp ht]
        simp [Reg, hre]
    · intro g hg
      by_cases hgf : g = f
      · subst hgf
        exact Or.inl ⟨by simpa using hg, by simp, by simp⟩
      · exact Or.inl ⟨by simpa [set_other _ _ _ _ hgf] using hg, by simp [set_other _ _ _ _ hgf], by simp [set_other _ _ _ _ hgf]⟩

theorem popLive_mem (c : Bool) (w : World) (l : List Pending) :
    (∀ e rest, popLive c w l = (some e, rest) → e ∈ l) ∧ (∀ o rest, popLive c w l = (o, rest) → ∀ p ∈ rest, p ∈ l) := by
  induction l with
  | nil => simp [popLive]
  | cons x xs ih =>
    unfold popLive
    by_cases hx : (c && !(live w x.fiber x.schedId)) = true
    · simp only [hx, if_true]
      exact ⟨fun e rest he => List.mem_cons_of_mem _ (ih.1 e rest he), fun o rest he p hp => List.mem_cons_of_mem _ (ih.2 o rest he p hp)⟩
    · simp only [hx]
      refine ⟨?_, ?_⟩
      · intro e rest he; simp at he; simp [he.1]
      · intro o rest he p hp; simp at he; rw [← he.2] at hp; exact List.mem_cons_of_mem _ hp

theorem asyncEnd_E {w : World} (h : EInv w) (f : Nat) : EInv (asyncEnd w f) := by
  unfold asyncEnd
  cases hl : (w.fibers f).listener with
  | none => exact h
  | some p =>
    obtain ⟨s, r⟩ := p
    simp only
    have hadv : Adv w { w with streams := set w.streams s { (w.streams s) with
                                  readFiber := if (w.streams s).readFiber = some f then none else (w.streams s).readFiber,
                                  writeFiber := if (w.streams s).writeFiber = some f then none else (w.streams s).writeFiber },
                               fibers := set w.fibers f { w.fibers f with listener := none } } := by
      intro g
      by_cases hg : g = f
      · subst hg; simp
      · simp [set_other _ _ _ _ hg]
    refine h.transfer hadv (fun t ht => Or.inl ht) (fun c p hp => Or.inl hp) (fun c p hp => Or.inl hp) (fun to hto => Or.inl hto)
      (fun k f' g hk => Or.inl ⟨hk, rfl⟩) (fun k f' g hk => Or.inl ⟨hk, rfl⟩) ?_ (fun ev hev => Or.inl hev)
    intro g hg
    by_cases hgf : g = f
    · subst hgf; simp at hg
    · exact Or.inl ⟨by simpa [set_other _ _ _ _ hgf] using hg, by simp [set_other _ _ _ _ hgf], by simp [set_other _ _ _ _ hgf]⟩

theorem chanPush_E (cfg : Cfg) (hc : cfg.allChecked = true) {w : World} (h : EInv w) (f c : Nat) (x : Val) (ch : Bool) :
    EInv (chanPush cfg w f c x ch).1 := by
  obtain ⟨-, -, hps, -, -, -, -, -, hb, -, -⟩ := allChecked_fields hc
  unfold chanPush
  rw [hps]
  cases hp : popLive true w (w.chans c).rp with
  | mk o rest =>
    have hm := popLive_mem true w (w.chans c).rp
    cases o with
    | none =>
      simp only
      by_cases hlen : ((w.chans c).items ++ [x]).length > (w.chans c).limit
      · rw [if_pos hlen]
        refine h.chans _ ?_ ?_
        · intro c' p hp'
          by_cases hcc : c' = c
          · subst hcc; simp at hp'
          · rw [set_other _ _ _ _ hcc] at hp'; exact Or.inl hp'
        · intro c' p hp'
          by_cases hcc : c' = c
          · subst hcc
            simp only [set_same, List.mem_append, List.mem_singleton] at hp'
            rcases hp' with hp' | rfl
            · exact Or.inl hp'
            · exact Or.inr (Reg.cur w f)
          · rw [set_other _ _ _ _ hcc] at hp'; exact Or.inl hp'
      · rw [if_neg hlen]
        refine h.chans _ ?_ ?_
        · intro c' p hp'
          by_cases hcc : c' = c
          · subst hcc; simp at hp'
          · rw [set_other _ _ _ _ hcc] at hp'; exact Or.inl hp'
        · intro c' p hp'
          by_cases hcc : c' = c
          · subst hcc; simp only [set_same] at hp'; exact Or.inl hp'
          · rw [set_other _ _ _ _ hcc] at hp'; exact Or.inl hp'
    | some r =>
      simp only
      have hl := popLive_live w _ r rest hp
      have hr := h.rp c r (hm.1 r rest hp)
      have h1 : EInv { w with chans := set w.chans c { (w.chans c) with rp := rest } } := by
        refine h.chans _ ?_ ?_
        · intro c' p hp'
          by_cases hcc : c' = c
          · subst hcc; simp only [set_same] at hp'; exact Or.inl (hm.2 _ rest hp p hp')
          · rw [set_other _ _ _ _ hcc] at hp'; exact Or.inl hp'
        · intro c' p hp'
          by_cases hcc : c' = c
          · subst hcc; simp only [set_same] at hp'; exact Or.inl hp'
          · rw [set_other _ _ _ _ hcc] at hp'; exact Or.inl hp'
      exact schedule_E cfg hb h1 _ _ _ _ _ _ (hr.2 hl.symm)

theorem superPush_E (cfg : Cfg) (hc : cfg.allChecked = true) {w : World} (h : EInv w) (c : Nat) (x : Val) :
    EInv (superPush cfg w c x) := by
  obtain ⟨-, -, hps, -, -, -, -, -, hb, -, -⟩ := allChecked_fields hc
  unfold superPush
  split
  · exact h
  · rw [hps]
    cases hp : popLive true w (w.chans c).rp with
    | mk o rest =>
      have hm := popLive_mem true w (w.chans c).rp
      have hch : ∀ (its : List Val) (rest' : List Pending), (∀ p ∈ rest', p ∈ (w.chans c).rp) →
          EInv { w with chans := set w.chans c { (w.chans c) with items := its, rp := rest' } } := by
        intro its rest' hsub
        refine h.chans _ ?_ ?_
        · intro c' p hp'
          by_cases hcc : c' = c
          · subst hcc; simp only [set_same] at hp'; exact Or.inl (hsub p hp')
          · rw [set_other _ _ _ _ hcc] at hp'; exact Or.inl hp'
        · intro c' p hp'
          by_cases hcc : c' = c
          · subst hcc; simp only [set_same] at hp'; exact Or.inl hp'
          · rw [set_other _ _ _ _ hcc] at hp'; exact Or.inl hp'
      cases o with
      | none => exact hch _ [] (by simp)
      | some r =>
        simp only
        have hl := popLive_live w _ r rest hp
        have hr := h.rp c r (hm.1 r rest hp)
        exact schedule_E cfg hb (hch (w.chans c).items rest (hm.2 _ rest hp)) _ _ _ _ _ _ (hr.2 hl.symm)

theorem chanPopWake_E (cfg : Cfg) (hc : cfg.allChecked = true) {w : World} (h : EInv w) (c : Nat) (items : List Val) :
    EInv (chanPopWake cfg w c items) := by
  obtain ⟨-, -, -, hps, -, -, -, -, hb, -, -⟩ := allChecked_fields hc
  unfold chanPopWake
  rw [hps]
  cases hp : popLive true w (w.chans c).wp with
  | mk o rest =>
    have hm := popLive_mem true w (w.chans c).wp
    have hch : ∀ rest', (∀ p ∈ rest', p ∈ (w.chans c).wp) →
        EInv { w with chans := set w.chans c { (w.chans c) with items := items, wp := rest' } } := by
      intro rest' hsub
      refine h.chans _ ?_ ?_
      · intro c' p hp'
        by_cases hcc : c' = c
        · subst hcc; simp only [set_same] at hp'; exact Or.inl hp'
        · rw [set_other _ _ _ _ hcc] at hp'; exact Or.inl hp'
      · intro c' p hp'
        by_cases hcc : c' = c
        · subst hcc; simp only [set_same] at hp'; exact Or.inl (hsub p hp')
        · rw [set_other _ _ _ _ hcc] at hp'; exact Or.inl hp'
    cases o with
    | none => exact hch [] (by simp)
    | some r =>
      simp only
      have hl := popLive_live w _ r rest hp
      have hr := h.wp c r (hm.1 r rest hp)
      exact schedule_E cfg hb (hch rest (hm.2 _ rest hp)) _ _ _ _ _ _ (hr.2 hl.symm)

theorem chanPop_E (cfg : Cfg) (hc : cfg.allChecked = true) {w : World} (h : EInv w) (f c : Nat) (ch : Bool) :
    EInv (chanPop cfg w f c ch).1 := by
  unfold chanPop
  cases hi : (w.chans c).items with
  | nil =>
    simp only
    refine h.chans _ ?_ ?_
    · intro c' p hp'
      by_cases hcc : c' = c
      · subst hcc
        simp only [set_same, List.mem_append, List.mem_singleton] at hp'
        rcases hp' with hp' | rfl
        · exact Or.inl hp'
        · exact Or.inr (Reg.cur w f)
      · rw [set_other _ _ _ _ hcc] at hp'; exact Or.inl hp'
    · intro c' p hp'
      by_cases hcc : c' = c
      · subst hcc; simp only [set_same] at hp'; exact Or.inl hp'
      · rw [set_other _ _ _ _ hcc] at hp'; exact Or.inl hp'
  | cons it items => exact chanPopWake_E cfg hc h c items

theorem closeOne_E (cfg : Cfg) (hc : cfg.allChecked = true) (c : Nat) {w : World} (h : EInv w) (e : Pending)
    (he : Reg w e.fiber e.schedId e.epoch) : EInv (closeOne cfg c w e) := by
  obtain ⟨-, -, -, -, hcl, -, -, -, hb, -, -⟩ := allChecked_fields hc
  unfold closeOne
  rw [hcl]
  by_cases hd : (!(w.fibers e.fiber).dead && (!true || live w e.fiber e.schedId)) = true
  · rw [if_pos hd]
    have hl : e.schedId = (w.fibers e.fiber).schedId := by
      simp [live] at hd; exact hd.2.symm
    exact schedule_E cfg hb h _ _ _ _ _ _ (he.2 hl)
  · rw [if_neg hd]; exact h

theorem schedule_Adv (cfg : Cfg) (w : World) (f : Nat) (v : Val) (e : Bool) (rg nb : Nat) (src : Src) (re : Nat) :
    Adv w (schedule cfg w f v e rg nb src re) := by
  intro g
  refine ⟨schedule_mono cfg w f v e rg nb src re g, fun _ => ?_⟩
  unfold schedule
  by_cases hc : (cfg.canceledGuard && (w.fibers f).canceled) = true
  · simp [hc]
  · simp only [hc]
    by_cases hg : g = f
    · subst hg; simp
    · simp [set_other _ _ _ _ hg]

theorem closeOne_Adv (cfg : Cfg) (c : Nat) (w : World) (e : Pending) : Adv w (closeOne cfg c w e) := by
  unfold closeOne
  split
  · exact schedule_Adv _ _ _ _ _ _ _ _ _
  · exact Adv.refl _

theorem closeFold_E (cfg : Cfg) (hc : cfg.allChecked = true) (c : Nat) (l : List Pending) {w : World} (h : EInv w)
    (hl : ∀ e ∈ l, Reg w e.fiber e.schedId e.epoch) : EInv (l.foldl (closeOne cfg c) w) := by
  induction l generalizing w with
  | nil => exact h
  | cons e es ih =>
    refine ih (closeOne_E cfg hc c h e (hl e (by simp))) ?_
    intro e' he'
    exact (hl e' (by simp [he'])).adv (closeOne_Adv cfg c w e)

theorem chanClose_E (cfg : Cfg) (hc : cfg.allChecked = true) {w : World} (h : EInv w) (c : Nat) : EInv (chanClose cfg w c) := by
  unfold chanClose
  by_cases hcl : (w.chans c).closed = true
  · simp [hcl]; exact h
  · simp only [hcl]
    refine closeFold_E cfg hc c _ ?_ ?_
    · refine h.chans _ ?_ ?_
      · intro c' p hp'
        by_cases hcc : c' = c
        · subst hcc; simp at hp'
        · rw [set_other _ _ _ _ hcc] at hp'; exact Or.inl hp'
      · intro c' p hp'
        by_cases hcc : c' = c
        · subst hcc; simp at hp'
        · rw [set_other _ _ _ _ hcc] at hp'; exact Or.inl hp'
    · intro e he
      rcases List.mem_append.mp he with he | he
      · exact h.wp c e he
      · exact h.rp c e he

theorem addTimer_E (cfg : Cfg) {w : World} (h : EInv w) (f : Nat) (k : TKind) (d : Nat) : EInv (addTimer cfg w f k d) := by
  refine h.transfer (Adv.of_fibers rfl) (fun t ht => Or.inl ht) (fun c p hp => Or.inl hp) (fun c p hp => Or.inl hp) ?_
    (fun k f' g hk => Or.inl ⟨hk, rfl⟩) (fun k f' g hk => Or.inl ⟨hk, rfl⟩) (fun f hf => Or.inl ⟨hf, rfl, rfl⟩) (fun e he => Or.inl he)
  intro to hto
  simp only [addTimer] at hto
  rcases (mem_insertTimer _ _ _).mp hto with rfl | hto
  · exact Or.inr (Reg.cur w f)
  · exact Or.inl hto

theorem fireTimer_E (cfg : Cfg) (hc : cfg.allChecked = true) {w : World} (h : EInv w) (to : Timer)
    (hto : Reg w to.fiber to.schedId to.epoch) : EInv (fireTimer cfg w to) := by
  obtain ⟨-, htc, -, -, -, -, hdc, -, hb, -, -⟩ := allChecked_fields hc
  unfold fireTimer
  rw [htc, hdc]
  cases to.kind with
  | deadline b =>
    simp only
    split
    · exact schedule_E cfg hb h _ _ _ _ _ _ rfl
    · exact h
  | timeout =>
    simp only
    by_cases hl : live w to.fiber to.schedId = true
    · simp [hl]
      have hl' : (w.fibers to.fiber).schedId = to.schedId := by simpa [live] using hl
      exact schedule_E cfg hb h _ _ _ _ _ _ (hto.2 hl'.symm)
    · simp [hl]; exact h
  | sleep =>
    simp only
    by_cases hl : live w to.fiber to.schedId = true
    · simp [hl]
      have hl' : (w.fibers to.fiber).schedId = to.schedId := by simpa [live] using hl
      exact schedule_E cfg hb h _ _ _ _ _ _ (hto.2 hl'.symm)
    · simp [hl]; exact h

theorem timerPhase_E (cfg : Cfg) (hc : cfg.allChecked = true) (fuel : Nat) {w : World} (h : EInv w) : EInv (timerPhase cfg w fuel) := by
  induction fuel generalizing w with
  | zero => exact h
  | succ n ih =>
    unfold timerPhase
    cases hts : w.timers with
    | nil => exact h
    | cons to rest =>
      simp only
      by_cases hw : to.when ≤ w.now
      · rw [if_pos hw]
        apply ih
        have h1 : EInv { w with timers := rest } := by
          refine h.transfer (Adv.of_fibers rfl) (fun t ht => Or.inl ht) (fun c p hp => Or.inl hp) (fun c p hp => Or.inl hp) ?_
            (fun k f' g hk => Or.inl ⟨hk, rfl⟩) (fun k f' g hk => Or.inl ⟨hk, rfl⟩) (fun f hf => Or.inl ⟨hf, rfl, rfl⟩) (fun e he => Or.inl he)
          intro x hx; exact Or.inl (by rw [hts]; simp [hx])
        exact fireTimer_E cfg hc h1 to (h.tm to (by rw [hts]; simp))
      · rw [if_neg hw]; exact h

theorem asyncEnd_frame2 (w : World) (f : Nat) :
    (asyncEnd w f).chans = w.chans ∧ (asyncEnd w f).procs = w.procs ∧ (asyncEnd w f).procEpoch = w.procEpoch ∧
    (asyncEnd w f).thr = w.thr ∧ (asyncEnd w f).thrEpoch = w.thrEpoch ∧
    (∀ g, ((asyncEnd w f).fibers g).epoch = (w.fibers g).epoch ∧ ((asyncEnd w f).fibers g).listenEpoch = (w.fibers g).listenEpoch) ∧
    (∀ g, g ≠ f → (asyncEnd w f).fibers g = w.fibers g) := by
  unfold asyncEnd
  cases h : (w.fibers f).listener with
  | none => simp
  | some p =>
    obtain ⟨s, r⟩ := p
    refine ⟨rfl, rfl, rfl, rfl, rfl, ?_, ?_⟩
    · intro g
      by_cases hg : g = f
      · subst hg; simp
      · simp [set_other _ _ _ _ hg]
    · intro g hg; simp [set_other _ _ _ _ hg]

/-- the world right after an executed task: generation and epoch of the resumed fiber bumped, listener detached, event logged -/
theorem runTask_exec_E {w : World} (h : EInv w) {t : Task} {q : List Task} (hq : w.queue = t :: q)
    (heq : t.expected = (w.fibers t.fiber).schedId) :
    EInv { (asyncEnd { w with queue := q, fibers := set w.fibers t.fiber { w.fibers t.fiber with canceled := false, epoch := (w.fibers t.fiber).epoch + 1, schedId := (w.fibers t.fiber).schedId + 1 } } t.fiber) with
            log := { tick := w.now, fiber := t.fiber, schedIdAtRun := (w.fibers t.fiber).schedId, task := t, epochAtRun := (w.fibers t.fiber).epoch } ::
              (asyncEnd { w with queue := q, fibers := set w.fibers t.fiber { w.fibers t.fiber with canceled := false, epoch := (w.fibers t.fiber).epoch + 1, schedId := (w.fibers t.fiber).schedId + 1 } } t.fiber).log } := by
  have ht := h.q t (by rw [hq]; simp)
  generalize hW : ({ w with queue := q, fibers := set w.fibers t.fiber { w.fibers t.fiber with canceled := false, epoch := (w.fibers t.fiber).epoch + 1, schedId := (w.fibers t.fiber).schedId + 1 } } : World) = W
  have hWq : W.queue = q := by rw [← hW]
  have hWc : W.chans = w.chans := by rw [← hW]
  have hWt : W.timers = w.timers := by rw [← hW]
  have hWp : W.procs = w.procs := by rw [← hW]
  have hWpe : W.procEpoch = w.procEpoch := by rw [← hW]
  have hWl : W.log = w.log := by rw [← hW]
  have hWth : W.thr = w.thr := by rw [← hW]
  have hWthe : W.thrEpoch = w.thrEpoch := by rw [← hW]
  have hWf : ∀ g, g ≠ t.fiber → W.fibers g = w.fibers g := by
    intro g hg; rw [← hW]; simp [set_other _ _ _ _ hg]
  have hWs : (W.fibers t.fiber).schedId = (w.fibers t.fiber).schedId + 1 := by rw [← hW]; simp
  obtain ⟨aq, al, atm, -, asid⟩ := asyncEnd_frame W t.fiber
  obtain ⟨ac, ap, ape, ath, athe, aep, aoth⟩ := asyncEnd_frame2 W t.fiber
  have hadv : Adv w (asyncEnd W t.fiber) := by
    intro g
    by_cases hg : g = t.fiber
    · subst hg
      rw [asid, hWs]
      exact ⟨Nat.le_succ _, fun hh => absurd hh (by omega)⟩
    · rw [aoth g hg, hWf g hg]; exact ⟨Nat.le_refl _, fun _ => rfl⟩
  have E1 : EInv (asyncEnd W t.fiber) := by
    refine h.transfer hadv ?_ ?_ ?_ ?_ ?_ ?_ ?_ ?_
    · intro x hx; rw [aq, hWq] at hx; exact Or.inl (by rw [hq]; simp [hx])
    · intro c p hp; rw [ac, hWc] at hp; exact Or.inl hp
    · intro c p hp; rw [ac, hWc] at hp; exact Or.inl hp
    · intro to hto; rw [atm, hWt] at hto; exact Or.inl hto
    · intro k f' g hk; rw [ap, hWp] at hk; exact Or.inl ⟨hk, by rw [ape, hWpe]⟩
    · intro k f' g hk; rw [ath, hWth] at hk; exact Or.inl ⟨hk, by rw [athe, hWthe]⟩
    · intro g hg
      by_cases hgf : g = t.fiber
      · subst hgf; exact absurd (asyncEnd_listener W t.fiber) hg
      · rw [aoth g hgf, hWf g hgf] at hg ⊢; exact Or.inl ⟨hg, rfl, rfl⟩
    · intro e he; rw [al, hWl] at he; exact Or.inl he
  refine E1.transfer (Adv.of_fibers rfl) (fun x hx => Or.inl hx) (fun c p hp => Or.inl hp) (fun c p hp => Or.inl hp)
    (fun to hto => Or.inl hto) (fun k f' g hk => Or.inl ⟨hk, rfl⟩) (fun k f' g hk => Or.inl ⟨hk, rfl⟩) (fun g hg => Or.inl ⟨hg, rfl, rfl⟩) ?_
  intro e he
  rcases List.mem_cons.mp he with rfl | he
  · right; exact ht.2 heq
  · exact Or.inl he

/-- the run phase: an executed task stems from a record of the fiber's current epoch; the bump at resume makes every other
    record of that fiber stale, so the epoch can advance -/
theorem runTask_E (cfg : Cfg) (hc : cfg.allChecked = true) {w : World} (h : EInv w) : EInv (runTask cfg w) := by
  obtain ⟨hrf, -, -, -, -, -, -, hdr, -, -, -⟩ := allChecked_fields hc
  have hdf := allChecked_didResumeFirst hc
  have hrb := allChecked_resumeBumps hc
  unfold runTask
  cases hq : w.queue with
  | nil => exact h
  | cons t q =>
    simp only
    have ht := h.q t (by rw [hq]; simp)
    rw [hrf, hdr, hdf, hrb]
    by_cases hne : (true && t.expected != (w.fibers t.fiber).schedId) = true
    · rw [if_pos hne]
      have hadv : Adv w { w with queue := q, fibers := set w.fibers t.fiber { w.fibers t.fiber with canceled := false } } := by
        intro g
        by_cases hg : g = t.fiber
        · subst hg; simp
        · simp [set_other _ _ _ _ hg]
      refine h.transfer hadv (fun x hx => Or.inl (by rw [hq]; simp [hx])) (fun c p hp => Or.inl hp) (fun c p hp => Or.inl hp)
        (fun to hto => Or.inl hto) (fun k f' g hk => Or.inl ⟨hk, rfl⟩) (fun k f' g hk => Or.inl ⟨hk, rfl⟩) ?_ (fun e he => Or.inl he)
      intro g hg
      by_cases hgf : g = t.fiber
      · subst hgf
        exact Or.inl ⟨by simpa using hg, by simp, by simp⟩
      · exact Or.inl ⟨by simpa [set_other _ _ _ _ hgf] using hg, by simp [set_other _ _ _ _ hgf], by simp [set_other _ _ _ _ hgf]⟩
    · rw [if_neg hne]
      simp only [Bool.true_or, Bool.and_self, if_true]
      have heq : t.expected = (w.fibers t.fiber).schedId := by simpa using hne
      exact runTask_exec_E h hq heq

theorem setFiber_E {w : World} (h : EInv w) (f : Nat) (fb : Fiber) (h1 : fb.schedId = (w.fibers f).schedId)
    (h2 : fb.epoch = (w.fibers f).epoch) (h3 : fb.listener ≠ none → fb.listenEpoch = fb.epoch) :
    EInv { w with fibers := set w.fibers f fb } := by
  have hadv : Adv w { w with fibers := set w.fibers f fb } := by
    intro g
    by_cases hg : g = f
    · subst hg; simp [h1, h2]
    · simp [set_other _ _ _ _ hg]
  refine h.transfer hadv (fun t ht => Or.inl ht) (fun c p hp => Or.inl hp) (fun c p hp => Or.inl hp) (fun to hto => Or.inl hto)
    (fun k f' g hk => Or.inl ⟨hk, rfl⟩) (fun k f' g hk => Or.inl ⟨hk, rfl⟩) ?_ (fun e he => Or.inl he)
  intro g hg
  by_cases hgf : g = f
  · subst hgf
    right
    simp only [set_same] at hg ⊢
    exact h3 hg
  · exact Or.inl ⟨by simpa [set_other _ _ _ _ hgf] using hg, by simp [set_other _ _ _ _ hgf], by simp [set_other _ _ _ _ hgf]⟩

theorem chanPop_fibers (cfg : Cfg) (w : World) (f c : Nat) (ch : Bool) (g : Nat) :
    ((chanPop cfg w f c ch).1.fibers g).epoch = (w.fibers g).epoch := by
  unfold chanPop
  cases (w.chans c).items with
  | nil => rfl
  | cons it items =>
    simp only
    unfold chanPopWake
    cases popLive cfg.popSkipsStale w (w.chans c).wp with
    | mk o rest =>
      cases o with
      | none => rfl
      | some r =>
        simp only
        unfold schedule
        split
        · rfl
        · by_cases hg : g = r.fiber
          · subst hg; simp
          · simp [set_other _ _ _ _ hg]

theorem step_E (cfg : Cfg) (hc : cfg.allChecked = true) {w : World} (h : EInv w) (op : Op) : EInv (step cfg w op) := by
  have hb : cfg.scheduleBumps = true := (allChecked_fields hc).2.2.2.2.2.2.2.2.1
  cases op with
  | spawn f => exact schedule_E cfg hb h _ _ _ _ _ _ rfl
  | give f c x ch =>
    simp only [step]
    split
    · exact h
    · exact chanPush_E cfg hc h f c x ch
  | take f c ch =>
    simp only [step]
    split
    · split
      · exact h
      · exact schedule_E cfg hb h _ _ _ _ _ _ rfl
    · have hp := chanPop_E cfg hc h f c ch
      cases hr : chanPop cfg w f c ch with
      | mk w1 o =>
        rw [hr] at hp
        cases o with
        | none => exact hp
        | some it =>
          simp only
          split
          · exact hp
          · exact schedule_E cfg hb hp _ _ _ _ _ _ rfl
  | close c => exact chanClose_E cfg hc h c
  | cancel f v => exact schedule_E cfg hb h _ _ _ _ _ _ rfl
  | sleep f d => exact addTimer_E cfg h f _ d
  | timeout f d => exact addTimer_E cfg h f _ d
  | deadline f b d => exact addTimer_E cfg h f _ d
  | bodyStart b =>
    simp only [step]
    split
    · exact h
    · exact h.frame rfl rfl rfl rfl rfl rfl rfl
  | bodyDone b => exact h.frame rfl rfl rfl rfl rfl rfl rfl
  | fiberDead f => exact setFiber_E h f _ rfl rfl (fun hl => h.ls f hl)
  | asyncStart f s r =>
    simp only [step, asyncStart]
    have := setFiber_E h f { w.fibers f with listener := some (s, r), listenEpoch := (w.fibers f).epoch } rfl rfl (fun _ => rfl)
    exact this.frame rfl rfl rfl rfl rfl rfl rfl
  | streamEvent s r v e =>
    simp only [step, streamEvent]
    split
    · exact h
    · rename_i f hf
      split
      · exact h
      · rename_i s' x hl
        split
        · exact asyncEnd_E (schedule_E cfg hb h _ _ _ _ _ _ (h.ls f (by rw [hl]; simp))) _
        · exact h
  | procWait f k =>
    simp only [step, procWait]
    refine h.transfer (Adv.of_fibers rfl) (fun t ht => Or.inl ht) (fun c p hp => Or.inl hp) (fun c p hp => Or.inl hp)
      (fun to hto => Or.inl hto) ?_ (fun k f g hk => Or.inl ⟨hk, rfl⟩) (fun f hf => Or.inl ⟨hf, rfl, rfl⟩) (fun e he => Or.inl he)
    intro k' f' g hk
    by_cases hkk : k' = k
    · subst hkk
      simp only [set_same, Option.some.injEq, Prod.mk.injEq] at hk ⊢
      right
      rw [← hk.1, ← hk.2]
      exact Reg.cur w f
    · simp only [set_other _ _ _ _ hkk] at hk ⊢
      exact Or.inl ⟨hk, trivial⟩
  | procExit k st =>
    have hpc : cfg.procCheck = true := (allChecked_fields hc).2.2.2.2.2.1
    have hpe := allChecked_procErrCheck hc
    simp only [step, procExit]
    split
    · exact h
    · rename_i f g hfg
      have hreg := h.pr k f g hfg
      have h1 : EInv { w with procs := set w.procs k none } := by
        refine h.transfer (Adv.of_fibers rfl) (fun t ht => Or.inl ht) (fun c p hp => Or.inl hp) (fun c p hp => Or.inl hp)
          (fun to hto => Or.inl hto) ?_ (fun k f g hk => Or.inl ⟨hk, rfl⟩) (fun f hf => Or.inl ⟨hf, rfl, rfl⟩) (fun e he => Or.inl he)
        intro k' f' g' hk
        by_cases hkk : k' = k
        · subst hkk; simp at hk
        · simp only [set_other _ _ _ _ hkk] at hk; exact Or.inl ⟨hk, rfl⟩
      rw [hpc, hpe]
      by_cases hl : live w f g = true
      · have hl' : g = (w.fibers f).schedId := by simp [live] at hl; exact hl.symm
        split
        · split
          · split
            · exact schedule_E cfg hb h1 _ _ _ _ _ _ (hreg.2 hl')
            · exact h1
          · split
            · exact schedule_E cfg hb h1 _ _ _ _ _ _ (hreg.2 hl')
            · exact h1
        · exact h1
      · simp only [hl, Bool.not_true, Bool.or_self, Bool.false_eq_true, if_false]
        split
        · split <;> exact h1
        · exact h1
  | procFlag k x => exact h.frame rfl rfl rfl rfl rfl rfl rfl
  | superPush c x => exact superPush_E cfg hc h c x
  | thrWait f k =>
    simp only [step, thrWait]
    refine h.transfer (Adv.of_fibers rfl) (fun t ht => Or.inl ht) (fun c p hp => Or.inl hp) (fun c p hp => Or.inl hp)
      (fun to hto => Or.inl hto) (fun k f g hk => Or.inl ⟨hk, rfl⟩) ?_ (fun f hf => Or.inl ⟨hf, rfl, rfl⟩) (fun e he => Or.inl he)
    intro k' f' g hk
    by_cases hkk : k' = k
    · subst hkk
      simp only [set_same, Option.some.injEq, Prod.mk.injEq] at hk ⊢
      right
      rw [← hk.1, ← hk.2]
      exact Reg.cur w f
    · simp only [set_other _ _ _ _ hkk] at hk ⊢
      exact Or.inl ⟨hk, trivial⟩
  | thrDone k v e =>
    have htc := allChecked_threadCheck hc
    simp only [step, thrDone]
    split
    · exact h
    · rename_i f g hfg
      have hreg := h.th k f g hfg
      have h1 : EInv { w with thr := set w.thr k none } := by
        refine h.transfer (Adv.of_fibers rfl) (fun t ht => Or.inl ht) (fun c p hp => Or.inl hp) (fun c p hp => Or.inl hp)
          (fun to hto => Or.inl hto) (fun k f g hk => Or.inl ⟨hk, rfl⟩) ?_ (fun f hf => Or.inl ⟨hf, rfl, rfl⟩) (fun e he => Or.inl he)
        intro k' f' g' hk
        by_cases hkk : k' = k
        · subst hkk; simp at hk
        · simp only [set_other _ _ _ _ hkk] at hk; exact Or.inl ⟨hk, rfl⟩
      rw [htc]
      by_cases hd : (!(w.fibers f).dead && (!true || live w f g)) = true
      · rw [if_pos hd]
        have hl : g = (w.fibers f).schedId := by
          simp [live] at hd; exact hd.2.symm
        exact schedule_E cfg hb h1 _ _ _ _ _ _ (hreg.2 hl)
      · rw [if_neg hd]; exact h1
  | childEnter f => exact setFiber_E h f _ rfl rfl (fun hl => h.ls f hl)
  | childLeave f =>
    have h1 := setFiber_E h f { w.fibers f with depth := (w.fibers f).depth - 1 } rfl rfl (fun hl => h.ls f hl)
    simp only [step]
    split
    · exact asyncEnd_E h1 f
    · exact h1
  | advance dt => exact h.frame rfl rfl rfl rfl rfl rfl rfl
  | timers => exact timerPhase_E cfg hc _ h
  | run => exact runTask_E cfg hc h

theorem run_E (cfg : Cfg) (hc : cfg.allChecked = true) (ops : List Op) {w : World} (h : EInv w) : EInv (run cfg w ops) := by
  induction ops generalizing w with
  | nil => exact h
  | cons op ops ih => exact ih (step_E cfg hc h op)

end JanetModel.Wait
