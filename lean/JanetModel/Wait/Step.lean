import JanetModel.Wait.Lemmas
/-
C07 — every step of the model preserves the generation-counter invariant when all checks are present;
generations never decrease under ANY configuration.
-/
namespace JanetModel.Wait

theorem allChecked_fields {cfg : Cfg} (h : cfg.allChecked = true) :
    cfg.runFilter = true ∧ cfg.timerCheck = true ∧ cfg.pushSkipsStale = true ∧ cfg.popSkipsStale = true ∧
    cfg.closeChecks = true ∧ cfg.procCheck = true ∧ cfg.deadlineChecks = true ∧ cfg.didResumeDetaches = true ∧
    cfg.scheduleBumps = true ∧ cfg.canceledGuard = true ∧ cfg.sleepRounds = true := by
  simp [Cfg.allChecked] at h
  obtain ⟨⟨⟨⟨⟨⟨⟨⟨⟨⟨⟨⟨⟨⟨⟨⟨a, b⟩, c⟩, d⟩, e⟩, f⟩, g⟩, i⟩, j⟩, k⟩, l⟩, _⟩, _⟩, _⟩, _⟩, _⟩, _⟩ := h
  exact ⟨a, b, c, d, e, f, g, i, j, k, l⟩

theorem allChecked_hasReader {cfg : Cfg} (h : cfg.allChecked = true) : cfg.hasReaderChecks = true := by
  simp [Cfg.allChecked] at h
  exact h.1.1.1.1.1.2

theorem allChecked_didResumeFirst {cfg : Cfg} (h : cfg.allChecked = true) : cfg.didResumeFirst = true := by
  simp [Cfg.allChecked] at h
  exact h.1.1.1.2

theorem allChecked_procErrCheck {cfg : Cfg} (h : cfg.allChecked = true) : cfg.procErrCheck = true := by
  simp [Cfg.allChecked] at h
  exact h.1.1.2

theorem allChecked_threadCheck {cfg : Cfg} (h : cfg.allChecked = true) : cfg.threadCheck = true := by
  simp [Cfg.allChecked] at h
  exact h.1.2

theorem allChecked_resumeBumps {cfg : Cfg} (h : cfg.allChecked = true) : cfg.resumeBumps = true := by
  simp [Cfg.allChecked] at h
  exact h.2

theorem TaskOk.of_eq {w w' : World} {t : Task} (h : TaskOk w t) (hf : w'.fibers = w.fibers) (hn : w'.now = w.now) : TaskOk w' t :=
  ⟨h.gen, by rw [hf]; exact h.le, by rw [hn]; exact h.nb, h.sl⟩

theorem chans_frame {w : World} (h : Inv w) (cs : Nat → Chan) : Inv { w with chans := cs } :=
  h.frame rfl rfl rfl (fun _ => Nat.le_refl _) (Nat.le_refl _)

theorem noSleep {src : Src} {nb : Nat} (h : ∀ s d, src ≠ .sleep s d) : ∀ s d, src = .sleep s d → s + (d + 500) / 1000 ≤ nb :=
  fun s d hs => absurd hs (h s d)

theorem chanPush_inv (cfg : Cfg) (hc : cfg.allChecked = true) {w : World} (h : Inv w) (f c : Nat) (x : Val) (ch : Bool) :
    Inv (chanPush cfg w f c x ch).1 := by
  obtain ⟨-, -, hps, -, -, -, -, -, hb, -, -⟩ := allChecked_fields hc
  unfold chanPush
  rw [hps]
  cases hp : popLive true w (w.chans c).rp with
  | mk o rest =>
    cases o with
    | none =>
      simp only
      by_cases hlen : ((w.chans c).items ++ [x]).length > (w.chans c).limit
      · rw [if_pos hlen]; exact chans_frame h _
      · rw [if_neg hlen]; exact chans_frame h _
    | some r =>
      simp only
      have hl := popLive_live w _ r rest hp
      exact schedule_inv cfg hb (chans_frame h _) _ _ _ _ _ (.chanRead c) hl.symm (Nat.le_refl _) (noSleep (by intro s d; simp))

theorem superPush_inv (cfg : Cfg) (hc : cfg.allChecked = true) {w : World} (h : Inv w) (c : Nat) (x : Val) :
    Inv (superPush cfg w c x) := by
  obtain ⟨-, -, hps, -, -, -, -, -, hb, -, -⟩ := allChecked_fields hc
  unfold superPush
  split
  · exact h
  · rw [hps]
    cases hp : popLive true w (w.chans c).rp with
    | mk o rest =>
      cases o with
      | none => exact chans_frame h _
      | some r =>
        simp only
        have hl := popLive_live w _ r rest hp
        exact schedule_inv cfg hb (chans_frame h _) _ _ _ _ _ (.chanRead c) hl.symm (Nat.le_refl _) (noSleep (by intro s d; simp))

theorem chanPopWake_inv (cfg : Cfg) (hc : cfg.allChecked = true) {w : World} (h : Inv w) (c : Nat) (items : List Val) :
    Inv (chanPopWake cfg w c items) := by
  obtain ⟨-, -, -, hps, -, -, -, -, hb, -, -⟩ := allChecked_fields hc
  unfold chanPopWake
  rw [hps]
  cases hp : popLive true w (w.chans c).wp with
  | mk o rest =>
    cases o with
    | none => exact chans_frame h _
    | some r =>
      simp only
      have hl := popLive_live w _ r rest hp
      exact schedule_inv cfg hb (chans_frame h _) _ _ _ _ _ (.chanWrite c) hl.symm (Nat.le_refl _) (noSleep (by intro s d; simp))

theorem chanPopWake_now (cfg : Cfg) (w : World) (c : Nat) (items : List Val) : (chanPopWake cfg w c items).now = w.now := by
  unfold chanPopWake
  cases popLive cfg.popSkipsStale w (w.chans c).wp with
  | mk o rest => cases o <;> simp [schedule_now]

theorem chanPop_inv (cfg : Cfg) (hc : cfg.allChecked = true) {w : World} (h : Inv w) (f c : Nat) (ch : Bool) :
    Inv (chanPop cfg w f c ch).1 := by
  unfold chanPop
  cases hi : (w.chans c).items with
  | nil => exact chans_frame h _
  | cons it items => exact chanPopWake_inv cfg hc h c items

theorem chanPop_now (cfg : Cfg) (w : World) (f c : Nat) (ch : Bool) : (chanPop cfg w f c ch).1.now = w.now := by
  unfold chanPop
  cases hi : (w.chans c).items with
  | nil => rfl
  | cons it items => exact chanPopWake_now cfg w c items

theorem closeOne_inv (cfg : Cfg) (hc : cfg.allChecked = true) (c : Nat) {w : World} (h : Inv w) (e : Pending) :
    Inv (closeOne cfg c w e) := by
  obtain ⟨-, -, -, -, hcl, -, -, -, hb, -, -⟩ := allChecked_fields hc
  unfold closeOne
  rw [hcl]
  by_cases hd : (!(w.fibers e.fiber).dead && (!true || live w e.fiber e.schedId)) = true
  · rw [if_pos hd]
    have hl : e.schedId = (w.fibers e.fiber).schedId := by
      simp [live] at hd; exact hd.2.symm
    exact schedule_inv cfg hb h _ _ _ _ _ _ hl (Nat.le_refl _) (noSleep (by intro s d; simp))
  · rw [if_neg hd]; exact h

theorem closeFold_inv (cfg : Cfg) (hc : cfg.allChecked = true) (c : Nat) (l : List Pending) {w : World} (h : Inv w) :
    Inv (l.foldl (closeOne cfg c) w) := by
  induction l generalizing w with
  | nil => exact h
  | cons e es ih => exact ih (closeOne_inv cfg hc c h e)

theorem chanClose_inv (cfg : Cfg) (hc : cfg.allChecked = true) {w : World} (h : Inv w) (c : Nat) : Inv (chanClose cfg w c) := by
  unfold chanClose
  by_cases hcl : (w.chans c).closed = true
  · simp [hcl]; exact h
  · simp only [hcl]
    exact closeFold_inv cfg hc c _ (chans_frame h _)

theorem addTimer_inv (cfg : Cfg) (hc : cfg.allChecked = true) {w : World} (h : Inv w) (f : Nat) (k : TKind) (d : Nat) :
    Inv (addTimer cfg w f k d) := by
  obtain ⟨-, -, -, -, -, -, -, -, -, -, hr⟩ := allChecked_fields hc
  refine ⟨?_, ?_, ?_⟩
  · intro t ht; exact (h.q t ht).of_eq rfl rfl
  · intro e he; exact h.l e he
  · intro to hto
    simp only [addTimer] at hto
    rcases (mem_insertTimer _ _ _).mp hto with rfl | hto
    · simp [deltaMs, hr]
    · exact h.tm to hto

theorem fireTimer_inv (cfg : Cfg) (hc : cfg.allChecked = true) {w : World} (h : Inv w) (to : Timer)
    (hw : to.when ≤ w.now) (ht : to.when = to.start + (to.durUs + 500) / 1000) : Inv (fireTimer cfg w to) := by
  obtain ⟨-, htc, -, -, -, -, hdc, -, hb, -, -⟩ := allChecked_fields hc
  unfold fireTimer
  rw [htc, hdc]
  cases to.kind with
  | deadline b =>
    simp only
    split
    · exact schedule_inv cfg hb h _ _ _ _ _ _ rfl hw (noSleep (by intro s d; simp))
    · exact h
  | timeout =>
    simp only
    by_cases hl : live w to.fiber to.schedId = true
    · simp [hl]
      have hl' : (w.fibers to.fiber).schedId = to.schedId := by simpa [live] using hl
      exact schedule_inv cfg hb h _ _ _ _ _ _ hl'.symm hw (noSleep (by intro s d; simp))
    · simp [hl]; exact h
  | sleep =>
    simp only
    by_cases hl : live w to.fiber to.schedId = true
    · simp [hl]
      have hl' : (w.fibers to.fiber).schedId = to.schedId := by simpa [live] using hl
      refine schedule_inv cfg hb h _ _ _ _ _ _ hl'.symm hw ?_
      intro s d hs
      cases hs
      exact Nat.le_of_eq ht.symm
    · simp [hl]; exact h

theorem timerPhase_inv (cfg : Cfg) (hc : cfg.allChecked = true) (fuel : Nat) {w : World} (h : Inv w) : Inv (timerPhase cfg w fuel) := by
  induction fuel generalizing w with
  | zero => exact h
  | succ n ih =>
    unfold timerPhase
    cases hts : w.timers with
    | nil => exact h
    | cons to rest =>
      simp only
      by_cases hw : to.when ≤ w.now
      · rw [if_pos hw]
        apply ih
        have h1 : Inv { w with timers := rest } := by
          refine ⟨fun t ht => (h.q t ht).of_eq rfl rfl, h.l, ?_⟩
          intro x hx; exact h.tm x (by rw [hts]; simp [hx])
        exact fireTimer_inv cfg hc h1 to hw (h.tm to (by rw [hts]; simp))
      · rw [if_neg hw]; exact h

theorem runTask_inv (cfg : Cfg) (hc : cfg.allChecked = true) {w : World} (h : Inv w) : Inv (runTask cfg w) := by
  obtain ⟨hrf, -, -, -, -, -, -, hdr, -, -, -⟩ := allChecked_fields hc
  have hdf := allChecked_didResumeFirst hc
  unfold runTask
  cases hq : w.queue with
  | nil => exact h
  | cons t q =>
    simp only
    have ht := h.q t (by rw [hq]; simp)
    have hgen : ∀ fb' : Fiber, (w.fibers t.fiber).schedId ≤ fb'.schedId →
        Inv { w with queue := q, fibers := set w.fibers t.fiber fb' } := by
      intro fb' hle
      refine ⟨?_, h.l, h.tm⟩
      intro x hx
      have := h.q x (by rw [hq]; simp [hx])
      refine ⟨this.gen, ?_, this.nb, this.sl⟩
      by_cases hf : x.fiber = t.fiber
      · have hle' := this.le
        rw [hf] at hle'
        simp only [hf, set_same]
        exact Nat.le_trans hle' hle
      · simp only [set_other _ _ _ _ hf]; exact this.le
    rw [hrf, hdr, hdf]
    by_cases hne : (true && t.expected != (w.fibers t.fiber).schedId) = true
    · rw [if_pos hne]; exact hgen _ (Nat.le_refl _)
    · rw [if_neg hne]
      simp only [Bool.true_or, Bool.and_self, if_true]
      have heq : t.expected = (w.fibers t.fiber).schedId := by simpa using hne
      have h1 := hgen ({ (w.fibers t.fiber) with canceled := false, epoch := (w.fibers t.fiber).epoch + 1, schedId := (if cfg.resumeBumps then (w.fibers t.fiber).schedId + 1 else (w.fibers t.fiber).schedId) } : Fiber) (by simp only; split <;> omega)
      have h2 := asyncEnd_inv h1 t.fiber
      refine ⟨fun t ht => (h2.q t ht).of_eq rfl rfl, ?_, h2.tm⟩
      intro e he
      simp only [List.mem_cons] at he
      rcases he with rfl | he
      · exact ⟨heq, ht.gen, ht.nb, fun s d hs => Nat.le_trans (ht.sl s d hs) ht.nb⟩
      · exact h2.l e he

theorem step_inv (cfg : Cfg) (hc : cfg.allChecked = true) {w : World} (h : Inv w) (op : Op) : Inv (step cfg w op) := by
  have hb : cfg.scheduleBumps = true := (allChecked_fields hc).2.2.2.2.2.2.2.2.1
  cases op with
  | spawn f => exact schedule_inv cfg hb h _ _ _ _ _ _ rfl (Nat.le_refl _) (noSleep (by intro s d; simp))
  | give f c x ch =>
    simp only [step]
    split
    · exact h
    · exact chanPush_inv cfg hc h f c x ch
  | take f c ch =>
    simp only [step]
    split
    · split
      · exact h
      · exact schedule_inv cfg hb h _ _ _ _ _ _ rfl (Nat.le_refl _) (noSleep (by intro s d; simp))
    · have hp := chanPop_inv cfg hc h f c ch
      have hn := chanPop_now cfg w f c ch
      cases hr : chanPop cfg w f c ch with
      | mk w1 o =>
        rw [hr] at hp hn
        cases o with
        | none => exact hp
        | some it =>
          simp only
          split
          · exact hp
          · exact schedule_inv cfg hb hp _ _ _ _ _ _ rfl (Nat.le_of_eq hn.symm) (noSleep (by intro s d; simp))
  | close c => exact chanClose_inv cfg hc h c
  | cancel f v => exact schedule_inv cfg hb h _ _ _ _ _ _ rfl (Nat.le_refl _) (noSleep (by intro s d; simp))
  | sleep f d => exact addTimer_inv cfg hc h f _ d
  | timeout f d => exact addTimer_inv cfg hc h f _ d
  | deadline f b d => exact addTimer_inv cfg hc h f _ d
  | bodyStart b =>
    simp only [step]
    split
    · exact h
    · exact h.frame rfl rfl rfl (fun _ => Nat.le_refl _) (Nat.le_refl _)
  | bodyDone b => exact h.frame rfl rfl rfl (fun _ => Nat.le_refl _) (Nat.le_refl _)
  | fiberDead f =>
    refine h.frame rfl rfl rfl ?_ (Nat.le_refl _)
    intro g
    by_cases hg : g = f
    · subst hg; simp [step]
    · simp [step, set_other _ _ _ _ hg]
  | asyncStart f s r =>
    refine h.frame rfl rfl rfl ?_ (Nat.le_refl _)
    intro g
    by_cases hg : g = f
    · subst hg; simp [step, asyncStart]
    · simp [step, asyncStart, set_other _ _ _ _ hg]
  | streamEvent s r v e =>
    simp only [step, streamEvent]
    split
    · exact h
    · split
      · exact h
      · split
        · exact asyncEnd_inv (schedule_inv cfg hb h _ _ _ _ _ _ rfl (Nat.le_refl _) (noSleep (by intro s d; simp))) _
        · exact h
  | procWait f k => exact h.frame rfl rfl rfl (fun _ => Nat.le_refl _) (Nat.le_refl _)
  | procExit k st =>
    have hpc : cfg.procCheck = true := (allChecked_fields hc).2.2.2.2.2.1
    have hpe := allChecked_procErrCheck hc
    simp only [step, procExit]
    split
    · exact h
    · rename_i f g hfg
      have h1 : Inv { w with procs := set w.procs k none } := h.frame rfl rfl rfl (fun _ => Nat.le_refl _) (Nat.le_refl _)
      rw [hpc, hpe]
      by_cases hl : live w f g = true
      · have hl' : g = (w.fibers f).schedId := by simp [live] at hl; exact hl.symm
        split
        · split
          · split
            · exact schedule_inv cfg hb h1 _ _ _ _ _ _ hl' (Nat.le_refl _) (noSleep (by intro s d; simp))
            · exact h1
          · split
            · exact schedule_inv cfg hb h1 _ _ _ _ _ _ hl' (Nat.le_refl _) (noSleep (by intro s d; simp))
            · exact h1
        · exact h1
      · simp only [hl, Bool.not_true, Bool.or_self, Bool.false_eq_true, if_false]
        split
        · split <;> exact h1
        · exact h1
  | procFlag k x => exact h.frame rfl rfl rfl (fun _ => Nat.le_refl _) (Nat.le_refl _)
  | superPush c x => exact superPush_inv cfg hc h c x
  | thrWait f k => exact h.frame rfl rfl rfl (fun _ => Nat.le_refl _) (Nat.le_refl _)
  | thrDone k v e =>
    have htc := allChecked_threadCheck hc
    simp only [step, thrDone]
    split
    · exact h
    · rename_i f g hfg
      have h1 : Inv { w with thr := set w.thr k none } := h.frame rfl rfl rfl (fun _ => Nat.le_refl _) (Nat.le_refl _)
      rw [htc]
      by_cases hd : (!(w.fibers f).dead && (!true || live w f g)) = true
      · rw [if_pos hd]
        have hl : g = (w.fibers f).schedId := by
          simp [live] at hd; exact hd.2.symm
        exact schedule_inv cfg hb h1 _ _ _ _ _ _ hl (Nat.le_refl _) (noSleep (by intro s d; simp))
      · rw [if_neg hd]; exact h1
  | childEnter f =>
    refine h.frame rfl rfl rfl ?_ (Nat.le_refl _)
    intro g
    by_cases hg : g = f
    · subst hg; simp [step]
    · simp [step, set_other _ _ _ _ hg]
  | childLeave f =>
    have h1 : Inv { w with fibers := set w.fibers f { w.fibers f with depth := (w.fibers f).depth - 1 } } := by
      refine h.frame rfl rfl rfl ?_ (Nat.le_refl _)
      intro g
      by_cases hg : g = f
      · subst hg; simp
      · simp [set_other _ _ _ _ hg]
    simp only [step]
    split
    · exact asyncEnd_inv h1 f
    · exact h1
  | advance dt => exact h.frame rfl rfl rfl (fun _ => Nat.le_refl _) (Nat.le_add_right _ _)
  | timers => exact timerPhase_inv cfg hc _ h
  | run => exact runTask_inv cfg hc h

theorem run_inv (cfg : Cfg) (hc : cfg.allChecked = true) (ops : List Op) {w : World} (h : Inv w) : Inv (run cfg w ops) := by
  induction ops generalizing w with
  | nil => exact h
  | cons op ops ih => exact ih (step_inv cfg hc h op)

end JanetModel.Wait
