import JanetModel.Wait.Step
/-
C07 — generations never decrease, under ANY configuration of checks (so a stale registration stays stale forever).
-/
namespace JanetModel.Wait

def Mono (w w' : World) : Prop := ∀ g, (w.fibers g).schedId ≤ (w'.fibers g).schedId

theorem Mono.refl (w : World) : Mono w w := fun _ => Nat.le_refl _
theorem Mono.trans {a b c : World} (h1 : Mono a b) (h2 : Mono b c) : Mono a c := fun g => Nat.le_trans (h1 g) (h2 g)
theorem Mono.of_fibers {w w' : World} (h : w'.fibers = w.fibers) : Mono w w' := fun g => by rw [h]; exact Nat.le_refl _

theorem schedule_Mono (cfg : Cfg) (w : World) (f : Nat) (v : Val) (e : Bool) (rg nb : Nat) (src : Src) (re : Nat) :
    Mono w (schedule cfg w f v e rg nb src re) := fun g => schedule_mono cfg w f v e rg nb src re g

theorem schedule_Mono' (cfg : Cfg) (w w1 : World) (hf : w1.fibers = w.fibers) (f : Nat) (v : Val) (e : Bool) (rg nb : Nat) (src : Src) (re : Nat) :
    Mono w (schedule cfg w1 f v e rg nb src re) := by
  intro g
  have := schedule_mono cfg w1 f v e rg nb src re g
  rw [hf] at this
  exact this

theorem chanPush_Mono (cfg : Cfg) (w : World) (f c : Nat) (x : Val) (ch : Bool) : Mono w (chanPush cfg w f c x ch).1 := by
  unfold chanPush
  cases popLive cfg.pushSkipsStale w (w.chans c).rp with
  | mk o rest =>
    cases o with
    | none =>
      simp only
      by_cases hlen : ((w.chans c).items ++ [x]).length > (w.chans c).limit
      · rw [if_pos hlen]; exact Mono.of_fibers rfl
      · rw [if_neg hlen]; exact Mono.of_fibers rfl
    | some r => simp only; (apply schedule_Mono'; rfl)

theorem superPush_Mono (cfg : Cfg) (w : World) (c : Nat) (x : Val) : Mono w (superPush cfg w c x) := by
  unfold superPush
  split
  · exact Mono.refl _
  · cases popLive cfg.pushSkipsStale w (w.chans c).rp with
    | mk o rest =>
      cases o with
      | none => exact Mono.of_fibers rfl
      | some r => simp only; (apply schedule_Mono'; rfl)

theorem chanPopWake_Mono (cfg : Cfg) (w : World) (c : Nat) (items : List Val) : Mono w (chanPopWake cfg w c items) := by
  unfold chanPopWake
  cases popLive cfg.popSkipsStale w (w.chans c).wp with
  | mk o rest =>
    cases o with
    | none => exact Mono.of_fibers rfl
    | some r => simp only; (apply schedule_Mono'; rfl)

theorem chanPop_Mono (cfg : Cfg) (w : World) (f c : Nat) (ch : Bool) : Mono w (chanPop cfg w f c ch).1 := by
  unfold chanPop
  cases (w.chans c).items with
  | nil => exact Mono.of_fibers rfl
  | cons it items => exact chanPopWake_Mono cfg w c items

theorem closeOne_Mono (cfg : Cfg) (c : Nat) (w : World) (e : Pending) : Mono w (closeOne cfg c w e) := by
  unfold closeOne
  split
  · exact schedule_Mono _ _ _ _ _ _ _ _ _
  · exact Mono.refl _

theorem closeFold_Mono (cfg : Cfg) (c : Nat) (l : List Pending) (w : World) : Mono w (l.foldl (closeOne cfg c) w) := by
  induction l generalizing w with
  | nil => exact Mono.refl _
  | cons e es ih => exact Mono.trans (closeOne_Mono cfg c w e) (ih _)

theorem fireTimer_Mono (cfg : Cfg) (w : World) (to : Timer) : Mono w (fireTimer cfg w to) := by
  unfold fireTimer
  cases to.kind with
  | deadline b => simp only; split; exact schedule_Mono _ _ _ _ _ _ _ _ _; exact Mono.refl _
  | timeout => simp only; split; exact schedule_Mono _ _ _ _ _ _ _ _ _; exact Mono.refl _
  | sleep => simp only; split; exact schedule_Mono _ _ _ _ _ _ _ _ _; exact Mono.refl _

theorem timerPhase_Mono (cfg : Cfg) (fuel : Nat) (w : World) : Mono w (timerPhase cfg w fuel) := by
  induction fuel generalizing w with
  | zero => exact Mono.refl _
  | succ n ih =>
    unfold timerPhase
    cases w.timers with
    | nil => exact Mono.refl _
    | cons to rest =>
      simp only
      split
      · exact fun g => Nat.le_trans (fireTimer_Mono cfg { w with timers := rest } to g) (ih _ g)
      · exact Mono.refl _

theorem asyncEnd_Mono (w : World) (f : Nat) : Mono w (asyncEnd w f) :=
  fun g => Nat.le_of_eq ((asyncEnd_frame w f).2.2.2.2 g).symm

theorem setFlag_Mono (w : World) (f : Nat) (fb : Fiber) (h : fb.schedId = (w.fibers f).schedId) :
    Mono w { w with fibers := set w.fibers f fb } := by
  intro g
  by_cases hg : g = f
  · subst hg; simp [h]
  · simp [set_other _ _ _ _ hg]

theorem runTask_Mono (cfg : Cfg) (w : World) : Mono w (runTask cfg w) := by
  unfold runTask
  cases w.queue with
  | nil => exact Mono.refl _
  | cons t q =>
    simp only
    have hgen : ∀ fb' : Fiber, (w.fibers t.fiber).schedId ≤ fb'.schedId →
        Mono w { w with queue := q, fibers := set w.fibers t.fiber fb' } := by
      intro fb' hle g
      by_cases hg : g = t.fiber
      · subst hg; simpa using hle
      · simp [set_other _ _ _ _ hg]
    have hle : (w.fibers t.fiber).schedId ≤
        (if cfg.resumeBumps then (w.fibers t.fiber).schedId + 1 else (w.fibers t.fiber).schedId) := by split <;> omega
    split
    · exact hgen _ (Nat.le_refl _)
    · split
      · exact Mono.trans (hgen ({ (w.fibers t.fiber) with canceled := false, epoch := (w.fibers t.fiber).epoch + 1, schedId := (if cfg.resumeBumps then (w.fibers t.fiber).schedId + 1 else (w.fibers t.fiber).schedId) } : Fiber) hle) (Mono.trans (asyncEnd_Mono _ _) (Mono.of_fibers rfl))
      · exact Mono.trans (hgen ({ (w.fibers t.fiber) with canceled := false, epoch := (w.fibers t.fiber).epoch + 1, schedId := (if cfg.resumeBumps then (w.fibers t.fiber).schedId + 1 else (w.fibers t.fiber).schedId) } : Fiber) hle) (Mono.of_fibers rfl)

theorem step_Mono (cfg : Cfg) (w : World) (op : Op) : Mono w (step cfg w op) := by
  cases op with
  | spawn f => exact schedule_Mono _ _ _ _ _ _ _ _ _
  | give f c x ch => simp only [step]; split; exact Mono.refl _; exact chanPush_Mono _ _ _ _ _ _
  | take f c ch =>
    simp only [step]
    split
    · split; exact Mono.refl _; exact schedule_Mono _ _ _ _ _ _ _ _ _
    · have hp := chanPop_Mono cfg w f c ch
      cases hr : chanPop cfg w f c ch with
      | mk w1 o =>
        rw [hr] at hp
        cases o with
        | none => exact hp
        | some it => simp only; split; exact hp; exact Mono.trans hp (schedule_Mono _ _ _ _ _ _ _ _ _)
  | close c =>
    simp only [step, chanClose]
    split
    · exact Mono.refl _
    · exact fun g => closeFold_Mono cfg c _ { w with chans := set w.chans c { (w.chans c) with closed := true, rp := [], wp := [] } } g
  | cancel f v => exact schedule_Mono _ _ _ _ _ _ _ _ _
  | sleep f d => exact Mono.of_fibers rfl
  | timeout f d => exact Mono.of_fibers rfl
  | deadline f b d => exact Mono.of_fibers rfl
  | bodyStart b =>
    simp only [step]
    split
    · exact Mono.refl _
    · exact Mono.of_fibers rfl
  | bodyDone b => exact Mono.of_fibers rfl
  | fiberDead f => exact setFlag_Mono w f _ rfl
  | asyncStart f s r => exact setFlag_Mono _ f _ rfl
  | streamEvent s r v e =>
    simp only [step, streamEvent]
    split
    · exact Mono.refl _
    · split
      · exact Mono.refl _
      · split
        · exact Mono.trans (schedule_Mono _ _ _ _ _ _ _ _ _) (asyncEnd_Mono _ _)
        · exact Mono.refl _
  | procWait f k => exact Mono.of_fibers rfl
  | procExit k st =>
    simp only [step, procExit]
    split
    · exact Mono.refl _
    · split
      · split
        · split
          · (apply schedule_Mono'; rfl)
          · exact Mono.of_fibers rfl
        · split
          · (apply schedule_Mono'; rfl)
          · exact Mono.of_fibers rfl
      · exact Mono.of_fibers rfl
  | procFlag k x => exact Mono.of_fibers rfl
  | superPush c x => exact superPush_Mono _ _ _ _
  | thrWait f k => exact Mono.of_fibers rfl
  | thrDone k v e =>
    simp only [step, thrDone]
    split
    · exact Mono.refl _
    · split
      · (apply schedule_Mono'; rfl)
      · exact Mono.of_fibers rfl
  | childEnter f => exact setFlag_Mono w f _ rfl
  | childLeave f =>
    simp only [step]
    split
    · exact Mono.trans (setFlag_Mono w f { w.fibers f with depth := (w.fibers f).depth - 1 } rfl) (asyncEnd_Mono _ _)
    · exact setFlag_Mono w f _ rfl
  | advance dt => exact Mono.of_fibers rfl
  | timers => exact timerPhase_Mono _ _ _
  | run => exact runTask_Mono _ _

theorem run_Mono (cfg : Cfg) (ops : List Op) (w : World) : Mono w (run cfg w ops) := by
  induction ops generalizing w with
  | nil => exact Mono.refl _
  | cons op ops ih => exact Mono.trans (step_Mono cfg w op) (ih _)

end JanetModel.Wait
