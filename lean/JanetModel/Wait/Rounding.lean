import Mathlib.Data.Rat.Floor
import JanetModel.Wait.Step
/-
C07 — the IEEE side of `ev/sleep`:  ts_delta computes  `ts += (int64_t) round(delta * 1000)`  on doubles.
`round()` is exact on doubles; the product `delta * 1000` is the correctly rounded value `fl (δ · 1000)` of the real product.
Assumptions on `fl` (any IEEE rounding mode satisfies them): it is monotone, and it leaves representable numbers alone —
used here only for half-integers `k/2` with `|k| ≤ 2^53`.
-/
namespace JanetModel.Wait

/-- C `round()` on a non-negative argument (half away from zero) -/
def roundHalfUp (x : ℚ) : ℤ := ⌊x + 1 / 2⌋

/-- `(int64_t) round(delta * 1000)` with `fl` the rounding of the double multiplication -/
def cMs (fl : ℚ → ℚ) (δ : ℚ) : ℤ := roundHalfUp (fl (δ * 1000))

/-- The milliseconds computed in doubles are never fewer than the exactly rounded milliseconds of the real duration. -/
theorem cMs_ge_exact (fl : ℚ → ℚ) (hmono : Monotone fl)
    (hfix : ∀ k : ℤ, |k| ≤ 2 ^ 53 → fl ((k : ℚ) / 2) = (k : ℚ) / 2)
    (δ : ℚ) (hrange : |2 * roundHalfUp (δ * 1000) - 1| ≤ 2 ^ 53) :
    roundHalfUp (δ * 1000) ≤ cMs fl δ := by
  unfold cMs
  set x := δ * 1000 with hx
  set n := roundHalfUp x with hn
  have h1 : (n : ℚ) ≤ x + 1 / 2 := by
    rw [hn]; unfold roundHalfUp; exact Int.floor_le _
  have h2 : ((2 * n - 1 : ℤ) : ℚ) / 2 ≤ x := by
    push_cast; linarith
  have h3 := hmono h2
  rw [hfix (2 * n - 1) hrange] at h3
  unfold roundHalfUp
  apply Int.le_floor.mpr
  push_cast at h3
  linarith

/-- … and in particular never fewer than the whole milliseconds contained in the real duration -/
theorem cMs_ge_floor (fl : ℚ → ℚ) (hmono : Monotone fl)
    (hfix : ∀ k : ℤ, |k| ≤ 2 ^ 53 → fl ((k : ℚ) / 2) = (k : ℚ) / 2)
    (δ : ℚ) (hrange : |2 * roundHalfUp (δ * 1000) - 1| ≤ 2 ^ 53) :
    ⌊δ * 1000⌋ ≤ cMs fl δ := by
  refine le_trans ?_ (cMs_ge_exact fl hmono hfix δ hrange)
  unfold roundHalfUp
  apply Int.floor_le_floor
  linarith

/-- for a duration written with microsecond digits the exact rounding is what the executable model computes (`deltaMs`) -/
theorem roundHalfUp_us (us : ℕ) : roundHalfUp ((us : ℚ) / 1000000 * 1000) = (((us + 500) / 1000 : ℕ) : ℤ) := by
  unfold roundHalfUp
  have : (us : ℚ) / 1000000 * 1000 + 1 / 2 = ((us + 500 : ℕ) : ℤ) / ((1000 : ℕ) : ℚ) := by
    push_cast; ring
  rw [this, Rat.floor_intCast_div_natCast]
  norm_cast

/-- the model's operation for `(ev/sleep δ)` with the double `δ`: the timer is set `cMs fl δ` ms ahead -/
def sleepOp (fl : ℚ → ℚ) (f : Nat) (δ : ℚ) : Op := .sleep f (1000 * (cMs fl δ).toNat)

theorem deltaMs_sleepOp (cfg : Cfg) (h : cfg.sleepRounds = true) (m : Nat) : deltaMs cfg (1000 * m) = m := by
  simp [deltaMs, h]; omega

end JanetModel.Wait
