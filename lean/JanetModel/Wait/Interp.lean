import JanetModel.Wait.Model
/-
C07 — interpreter for the scenario mini-language of harness/C07/gen.py on top of the wait model (core Lean only).
It plays the role of the janet program + janet_loop: fibers are flat lists of statements, every wait is wrapped in `try`;
all event-loop state changes go through the primitives of Wait/Model.lean (`step`, `chanPush`, `chanPop`, `fireTimer`,
`runTask`, `schedule`).  The timer queue is kept as the exact binary heap of ev.c (add_timeout / pop_timeout) so that the order
of equal deadlines matches the implementation.  Output = event log in the format of harness/C07/evwrap.c.
-/
namespace JanetModel.Wait.Interp
open JanetModel.Wait

inductive Clause where
  | take (c : Nat)
  | give (c : Nat) (v : Nat)
  deriving Repr, Inhabited

inductive Wait where
  | sleep (us : Nat)
  | take (c : Nat)
  | give (c : Nat) (v : Nat)
  | select (cl : List Clause)
  | deadline (us : Nat) (inner : Wait)
  | timed (us : Nat) (inner : Wait)             -- the timeout argument of ev/read, ev/chunk, ev/write
  | read (s n : Nat) (chunk : Bool)
  | write (s len : Nat)
  | pwait (k : Nat)
  | twait (k : Nat)                              -- os/shell / ev/thread: janet_ev_threaded_await
  deriving Repr, Inhabited

/-- result of one read()/write() system call, as observed on the implementation (input of the model) -/
inductive KRes where
  | again
  | err (msg : String)
  | bytes (n : Nat) (content : String)        -- content: all bytes if n ≤ 40, else the first byte
  deriving Repr, Inhabited

/-- kernel interactions of ev.c in the order they happened -/
inductive KIn where
  | rd (s : String) (limit : Nat) (res : KRes)
  | wr (s : String) (n : Nat) (res : KRes)
  | poll (n : Nat) (tick : Nat)
  | ev (s : String) (mask : String)
  | self
  | timer
  deriving Repr, Inhabited

/-- state of a pending stream operation (StateRead / StateWrite of ev.c) -/
inductive SOp where
  | read (s bytesLeft bytesRead : Nat) (chunk : Bool) (content : String)
  | write (s start len : Nat)
  deriving Repr, Inhabited

inductive Stmt where
  | w (w : Wait)
  | close (c : Nat)
  | cancel (f : Nat) (msg : Nat)
  | spawn (f : Nat)
  | dump (tag : String)
  | count (c : Nat)
  | closeStream (s : Nat)
  | exitproc (k : Nat)
  | enter                 -- the statements up to the matching `leave` run inside one child fiber of the task (try / defer / coro body)
  | enterDl (us : Nat)    -- (ev/with-deadline sec …statements…): a coro body guarded by a deadline timer
  | leave
  | goSelf                -- (ev/go (fiber/root)): the running task schedules itself
  | finish (k : Nat)      -- the worker thread of threaded call k is released (FIFO written) and has posted its completion
  deriving Repr, Inhabited

structure IFiber where
  name : String
  prog : List Stmt := []
  pc : Nat := 0
  started : Bool := false
  spawned : Bool := false
  bodies : List Nat := []
  blocks : List (Option Nat) := []     -- open blocks, innermost first; `some b` = with-deadline body b
  sup : Option Nat := none             -- supervisor channel of the task (ev/go f v chan)
  sop : Option SOp := none
  deriving Inhabited

structure IS where
  cfg : Cfg := Cfg.full
  w : World := {}
  heap : Array Timer := #[]
  fibers : Array IFiber := #[]
  chans : Array String := #[]
  kws : Array String := #[]
  msgs : Array String := #[]
  nextBody : Nat := 1
  out : Array String := #[]
  streams : Array String := #[]        -- stream names; index = stream id of the model
  sclosed : Array Bool := #[]
  procs : Array String := #[]
  bufs : Array String := #[]           -- printed form of the buffers handed to fibers (Val.buf i)
  kin : List KIn := []                 -- remaining kernel inputs
  pendingExits : List Nat := []        -- processes that exited, completion not yet delivered through the self pipe
  thrs : Array String := #[]           -- threaded calls
  thrShell : Array Bool := #[]         -- true: os/shell (result = exit status 0), false: ev/thread (result nil)
  pendingThr : List Nat := []
  deriving Inhabited

/-! ### exact timer heap of ev.c -/

def siftUp (h : Array Timer) : Nat → Nat → Array Timer
  | 0, _ => h
  | fuel + 1, i =>
    if i = 0 then h else
      let p := (i - 1) / 2
      if (h[p]!).when ≤ (h[i]!).when then h
      else siftUp ((h.set! i h[p]!).set! p h[i]!) fuel p

def heapAdd (h : Array Timer) (t : Timer) : Array Timer :=
  let h := h.push t
  siftUp h h.size (h.size - 1)

def siftDown (h : Array Timer) : Nat → Nat → Array Timer
  | 0, _ => h
  | fuel + 1, i =>
    let l := 2 * i + 1
    let r := l + 1
    let s := if l < h.size ∧ (h[l]!).when < (h[i]!).when then l else i
    let s := if r < h.size ∧ (h[r]!).when < (h[s]!).when then r else s
    if s = i then h else siftDown ((h.set! i h[s]!).set! s h[i]!) fuel s

def heapPop (h : Array Timer) : Array Timer :=
  if h.size = 0 then h else
    let h := (h.set! 0 h[h.size - 1]!).pop
    siftDown h (h.size + 1) 0

/-! ### printing -/

def nameOf (a : Array String) (i : Nat) : String := a[i]?.getD s!"?{i}"

def indexOf (a : Array String) (x : String) : Option Nat := a.toList.findIdx? (· == x)

def showVal (s : IS) : Val → String
  | .nil => "nil"
  | .kw n => ":" ++ nameOf s.kws n
  | .chan c => nameOf s.chans c
  | .giveR c => "(:give," ++ nameOf s.chans c ++ ")"
  | .takeR c v => "(:take," ++ nameOf s.chans c ++ ",:" ++ nameOf s.kws v ++ ")"
  | .closeR c => "(:close," ++ nameOf s.chans c ++ ")"
  | .err 0 => "\"timeout\""
  | .err 1 => "\"deadline_expired\""
  | .err 2 => "\"cannot_write_to_closed_channel\""
  | .err n => if n ≥ 1000 then s!"\"command_failed_with_non-zero_exit_code_{n - 1000}\"" else "\"" ++ nameOf s.msgs (n - 3) ++ "\""
  | .int n => toString n
  | .buf n => nameOf s.bufs n
  | .sup sig f => "(:" ++ (if sig == 0 then "ok" else "error") ++ "," ++ ((s.fibers[f]?.map (·.name)).getD "?") ++ ",nil)"

def fname (s : IS) (f : Nat) : String := (s.fibers[f]?.map (·.name)).getD "?"

def emit (s : IS) (line : String) : IS := { s with out := s.out.push line }

def showPending (s : IS) (l : List Pending) : String :=
  ",".intercalate (l.map fun p => s!"{fname s p.fiber}:{p.schedId}:{if live s.w p.fiber p.schedId then "live" else "stale"}")

def timerLine (s : IS) : String :=
  -- selection sort by (when, fiber name), first minimum wins: same as evwrap.c
  let rec go (fuel : Nat) (rest : List Timer) (acc : String) : String :=
    match fuel, rest with
    | 0, _ => acc
    | _, [] => acc
    | fuel + 1, t0 :: ts =>
      let best := ts.foldl (fun b t => if t.when < b.when ∨ (t.when = b.when ∧ fname s t.fiber < fname s b.fiber) then t else b) t0
      let rec remove : List Timer → List Timer
        | [] => []
        | x :: xs => if x == best then xs else x :: remove xs
      let kind := match best.kind with | .deadline _ => "deadline" | .timeout => "timeout" | .sleep => "sleep"
      let st := match best.kind with
        | .deadline b => if s.w.bodies b then "armed" else "bodydone"
        | _ => if live s.w best.fiber best.schedId then "live" else "stale"
      go fuel (remove (t0 :: ts)) (acc ++ s!" {best.when}:{fname s best.fiber}:{best.schedId}:{kind}:{st}")
  go (s.heap.size + 1) s.heap.toList "S timers"

def dump (s : IS) (tag : String) : IS := Id.run do
  let mut s := emit s s!"S {s.w.now} :{tag}"
  for i in [0:s.chans.size] do
    let ch := s.w.chans i
    s := emit s s!"S chan {nameOf s.chans i} items={ch.items.length} closed={if ch.closed then 1 else 0} rp=[{showPending s ch.rp}] wp=[{showPending s ch.wp}]"
  for i in [0:s.streams.size] do
    let st := s.w.streams i
    let fn := fun (o : Option Nat) => match o with | some f => fname s f | none => "-"
    s := emit s s!"S stream {nameOf s.streams i} rf={fn st.readFiber} wf={fn st.writeFiber} closed={if s.sclosed[i]?.getD false then 1 else 0}"
  for i in [0:s.fibers.size] do
    if (s.fibers[i]!).spawned then
      s := emit s s!"S fiber {fname s i} sid={(s.w.fibers i).schedId}"
  emit s (timerLine s)

/-! ### statements -/

def addTimerH (s : IS) (f : Nat) (kind : TKind) (us : Nat) : IS :=
  let t : Timer := { when := s.w.now + deltaMs s.cfg us, fiber := f, schedId := (s.w.fibers f).schedId, kind := kind,
                     start := s.w.now, durUs := us, epoch := (s.w.fibers f).epoch }
  { s with heap := heapAdd s.heap t }

/-! ### streams and processes: the callbacks of ev.c with the kernel's answers as input -/

def setSop (s : IS) (f : Nat) (o : Option SOp) : IS :=
  { s with fibers := s.fibers.modify f fun fb => { fb with sop := o } }

/-- `janet_schedule(fiber, v)` resp. `janet_cancel(fiber, v)` followed by `janet_async_end(fiber)` inside a callback -/
def complete (s : IS) (f sid : Nat) (v : Val) (isErr : Bool) : IS :=
  let w := asyncEnd (schedule s.cfg s.w f v isErr (s.w.fibers f).schedId s.w.now (.stream sid) (s.w.fibers f).listenEpoch) f
  setSop { s with w := w } f none

def internMsg (s : IS) (m : String) : IS × Nat :=
  match s.msgs.toList.findIdx? (· == m) with
  | some i => (s, i + 3)
  | none => ({ s with msgs := s.msgs.push m }, s.msgs.size + 3)

def bufVal (s : IS) (n : Nat) (content : String) : IS × Val :=
  let r := if n ≤ 40 then "@\"" ++ content ++ "\"" else s!"@\"<{n} bytes of {String.ofList (content.toList.take 1)}>\""
  ({ s with bufs := s.bufs.push r }, .buf s.bufs.size)

/-- ev_callback_read, events INIT / READ / HUP: the `read_more` loop -/
def readStep (s : IS) (f : Nat) : Nat → IS
  | 0 => s
  | fuel + 1 =>
    match (s.fibers[f]!).sop with
    | some (.read sid left got chunk content) =>
      match s.kin with
      | .rd nm _ res :: rest =>
        if nm != nameOf s.streams sid then emit s s!"KMISMATCH read of {nameOf s.streams sid} but the implementation read {nm}" else
        let s := { s with kin := rest }
        match res with
        | .again => s
        | .err m =>
            let (s, code) := internMsg s m
            complete s f sid (.err code) true
        | .bytes n c =>
            let got' := got + n
            if got' == 0 then complete s f sid .nil false
            else
              let content' := if got' ≤ 40 then content ++ c else (if content.isEmpty then String.ofList (c.toList.take 1) else String.ofList (content.toList.take 1))
              let left' := left - n
              if !chunk || left' == 0 || n == 0 then
                let (s, v) := bufVal s got' content'
                complete s f sid v false
              else readStep (setSop s f (some (.read sid left' got' chunk content'))) f fuel
      | _ => emit s s!"KMISMATCH read of {nameOf s.streams sid} without a kernel answer"
    | _ => s

/-- ev_callback_write, events INIT / WRITE: one write() -/
def writeStep (s : IS) (f : Nat) : IS :=
  match (s.fibers[f]!).sop with
  | some (.write sid start len) =>
    if start < len then
      match s.kin with
      | .wr nm _ res :: rest =>
        if nm != nameOf s.streams sid then emit s s!"KMISMATCH write to {nameOf s.streams sid} but the implementation wrote {nm}" else
        let s := { s with kin := rest }
        match res with
        | .again => s
        | .err m =>
            let (s, code) := internMsg s m
            complete s f sid (.err code) true
        | .bytes n _ =>
            if n == 0 then
              let (s, code) := internMsg s "disconnect"
              complete s f sid (.err code) true
            else if start + n ≥ len then complete s f sid .nil false
            else setSop s f (some (.write sid (start + n) len))
      | _ => emit s s!"KMISMATCH write to {nameOf s.streams sid} without a kernel answer"
    else complete s f sid .nil false
  | _ => s

def listening (s : IS) (f : Nat) : Bool := (s.w.fibers f).listener.isSome

/-- one callback invocation for fiber `f`: "r" READ, "w" WRITE, "e" ERR, "h" HUP, "c" CLOSE -/
def callback (s : IS) (f : Nat) (evn : String) : IS :=
  match (s.fibers[f]!).sop with
  | some (.read sid _ got _ content) =>
      if evn == "r" || evn == "h" then readStep s f 100000
      else if evn == "e" then
        let (s, v) := if got > 0 then bufVal s got content else (s, .nil)
        let st := s.w.streams sid
        let s := { s with w := { s.w with streams := set s.w.streams sid { st with readFiber := none } } }
        complete s f sid v false
      else if evn == "c" then complete s f sid .nil false
      else s
  | some (.write sid _ _) =>
      if evn == "w" then writeStep s f
      else if evn == "e" || evn == "h" || evn == "c" then
        let (s, code) := internMsg s (if evn == "e" then "stream_err" else if evn == "h" then "stream_hup" else "stream_closed")
        complete s f sid (.err code) true
      else s
  | none => s

/-- the dispatch of one epoll event in janet_loop1_impl -/
def dispatch (s : IS) (sid : Nat) (mask : String) : IS :=
  let has (c : Char) : Bool := mask.toList.contains c
  let st := s.w.streams sid
  let s := match st.readFiber with
    | none => s
    | some rf =>
      let s := if listening s rf && has 'r' then callback s rf "r" else s
      let s := if listening s rf && has 'e' then callback s rf "e" else s
      if listening s rf && has 'h' then callback s rf "h" else s
  match st.writeFiber with
  | none => s
  | some wf =>
    let s := if listening s wf && has 'w' then callback s wf "w" else s
    let s := if listening s wf && has 'e' then callback s wf "e" else s
    if listening s wf && has 'h' then callback s wf "h" else s

/-- janet_stream_close -/
def closeStream (s : IS) (sid : Nat) : IS :=
  let st := s.w.streams sid
  let s := match st.readFiber with
    | some rf => if listening s rf then
        let s := callback s rf "c"
        { s with w := { s.w with streams := set s.w.streams sid { (s.w.streams sid) with readFiber := none } } } else s
    | none => s
  let s := match st.writeFiber with
    | some wf => if listening s wf then
        let s := callback s wf "c"
        { s with w := { s.w with streams := set s.w.streams sid { (s.w.streams sid) with writeFiber := none } } } else s
    | none => s
  { s with sclosed := s.sclosed.setIfInBounds sid true }

inductive Outcome where
  | blocked
  | done (v : Val) (isErr : Bool)

/-- start a wait of fiber `f`: mirrors the cfuns (ev/sleep, ev/take, ev/give, ev/select) and the ev/with-deadline macro -/
def startWait (s : IS) (f : Nat) : Wait → IS × Outcome
  | .sleep us => (addTimerH s f .sleep us, .blocked)
  | .take c => ({ s with w := step s.cfg s.w (.take f c false) }, .blocked)
  | .give c v =>
      if (s.w.chans c).closed then (s, .done (.err 2) true)
      else
        let (w', blocked) := chanPush s.cfg s.w f c (.kw v) false
        ({ s with w := w' }, if blocked then .blocked else .done (.chan c) false)
  | .select cl =>
      -- first loop: anything that completes right now
      let rec first : List Clause → Option (IS × Outcome)
        | [] => none
        | .give c v :: rest =>
            if (s.w.chans c).closed then some (s, .done (.closeR c) false)
            else if selectGiveReady s.cfg s.w c then
              some ({ s with w := (chanPush s.cfg s.w f c (.kw v) true).1 }, .done (.giveR c) false)
            else first rest
        | .take c :: rest =>
            if (s.w.chans c).closed then some (s, .done (.closeR c) false)
            else match (s.w.chans c).items with
              | [] => first rest
              | _ :: _ =>
                match chanPop s.cfg s.w f c true with
                | (w', some (.kw n)) => some ({ s with w := w' }, .done (.takeR c n) false)
                | (w', _) => some ({ s with w := w' }, .done .nil false)
      match first cl with
      | some r => r
      | none =>
        -- second loop: register everywhere
        let w' := cl.foldl (fun w cl => match cl with
          | .give c v => (chanPush s.cfg w f c (.kw v) true).1
          | .take c => (chanPop s.cfg w f c true).1) s.w
        ({ s with w := w' }, .blocked)
  | .timed us inner => startWait (addTimerH s f .timeout us) f inner
  | .read sid n chunk =>
      if s.sclosed[sid]?.getD false then
        let (s, code) := internMsg s "stream_is_closed"
        (s, .done (.err code) true)
      else
        let s := { s with w := asyncStart s.w f sid true }
        (readStep (setSop s f (some (.read sid n 0 chunk ""))) f 100000, .blocked)
  | .write sid len =>
      if s.sclosed[sid]?.getD false then
        let (s, code) := internMsg s "stream_is_closed"
        (s, .done (.err code) true)
      else
        let s := { s with w := asyncStart s.w f sid false }
        (writeStep (setSop s f (some (.write sid 0 len))) f, .blocked)
  | .pwait k => ({ s with w := procWait s.w f k }, .blocked)
  | .twait k => ({ s with w := thrWait s.w f k }, .blocked)
  | .deadline us inner =>
      let b := s.nextBody
      let s := { s with nextBody := b + 1, w := step s.cfg s.w (.bodyStart b) }
      let s := addTimerH s f (.deadline b) us
      let s := { s with fibers := s.fibers.modify f fun fb => { fb with bodies := b :: fb.bodies } }
      startWait s f inner

def isMarker : Stmt → Bool
  | .enter => true
  | .enterDl _ => true
  | .leave => true
  | _ => false

/-- labels count the statements of the fiber in program order, block markers excluded (harness/C07/gen.py emit_stmts) -/
def label (s : IS) (f : Nat) : String :=
  let fb := s.fibers[f]!
  fb.name.toLower ++ toString ((fb.prog.take fb.pc).filter (fun st => !isMarker st)).length

/-- the statement at `pc` is complete with result `v`: log it, finish its with-deadline bodies, advance -/
def finishStmt (s : IS) (f : Nat) (v : Val) (isErr : Bool) : IS :=
  let r := if isErr then "(:err," ++ showVal s v ++ ")" else showVal s v
  let s := emit s s!"L {s.w.now} {fname s f} :{label s f} {r}"
  let fb := s.fibers[f]!
  let w := fb.bodies.foldl (fun w b => step s.cfg w (.bodyDone b)) s.w
  { s with w := w, fibers := s.fibers.modify f fun fb => { fb with bodies := [], pc := fb.pc + 1 } }

/-- run fiber `f` until it blocks or ends -/
def runFiber (s : IS) (f : Nat) : Nat → IS
  | 0 => s
  | fuel + 1 =>
    let fb := s.fibers[f]!
    match fb.prog[fb.pc]? with
    | none =>
        -- the task's function returned: run phase pushes the supervisor event (signal ok) if the task is supervised
        let w := step s.cfg s.w (.fiberDead f)
        let w := match fb.sup with
          | some c => step s.cfg w (.superPush c (.sup 0 f))
          | none => w
        { s with w := w }
    | some st =>
      let next (s : IS) : IS := { s with fibers := s.fibers.modify f fun fb => { fb with pc := fb.pc + 1 } }
      match st with
      | .w wt =>
          match startWait s f wt with
          | (s, .blocked) => s
          | (s, .done v e) => runFiber (finishStmt s f v e) f fuel
      | .close c => runFiber (next { s with w := step s.cfg s.w (.close c) }) f fuel
      | .cancel g m => runFiber (next { s with w := step s.cfg s.w (.cancel g (.err (m + 3))) }) f fuel
      | .spawn g =>
          let s := { s with w := step s.cfg s.w (.spawn g), fibers := s.fibers.modify g fun fb => { fb with spawned := true } }
          runFiber (next s) f fuel
      | .dump tag => runFiber (next (dump s tag)) f fuel
      | .count c =>
          let s := emit s s!"L {s.w.now} {fname s f} :{label s f} {(s.w.chans c).items.length}"
          runFiber (next s) f fuel
      | .closeStream sid => runFiber (next (closeStream s sid)) f fuel
      | .exitproc k =>
          -- closing the child's stdin makes it exit; verif/settle waits until the waiter thread has posted the completion
          let s := emit s s!"L {s.w.now} {fname s f} :settle true"
          runFiber (next { s with pendingExits := s.pendingExits ++ [k] }) f fuel
      | .finish k =>
          let s := emit s s!"L {s.w.now} {fname s f} :settle true"
          runFiber (next { s with pendingThr := s.pendingThr ++ [k] }) f fuel
      | .enter =>
          let s := { s with w := step s.cfg s.w (.childEnter f), fibers := s.fibers.modify f fun fb => { fb with blocks := none :: fb.blocks } }
          runFiber (next s) f fuel
      | .enterDl us =>
          -- `(let [f (coro …)] (ev/deadline sec nil f) (resume f))`
          let b := s.nextBody
          let s := { s with nextBody := b + 1, w := step s.cfg s.w (.bodyStart b) }
          let s := addTimerH s f (.deadline b) us
          let s := { s with w := step s.cfg s.w (.childEnter f), fibers := s.fibers.modify f fun fb => { fb with blocks := some b :: fb.blocks } }
          runFiber (next s) f fuel
      | .leave =>
          let w := match fb.blocks.head? with
            | some (some b) => step s.cfg s.w (.bodyDone b)
            | _ => s.w
          let s := { s with w := step s.cfg w (.childLeave f), fibers := s.fibers.modify f fun fb => { fb with blocks := fb.blocks.drop 1 } }
          runFiber (next s) f fuel
      | .goSelf => runFiber (next { s with w := step s.cfg s.w (.spawn f) }) f fuel

/-- a task was executed for fiber `f` -/
def resume (s : IS) (f : Nat) (v : Val) (isErr : Bool) : IS :=
  -- janet_fiber_did_resume -> janet_async_end frees the operation's state (when the model's runTask detached the listener)
  let s := if (s.w.fibers f).listener.isNone then setSop s f none else s
  let fb := s.fibers[f]!
  if !fb.started then
    runFiber { s with fibers := s.fibers.modify f fun fb => { fb with started := true } } f 10000
  else if fb.pc < fb.prog.length then
    runFiber (finishStmt s f v isErr) f 10000
  else s

/-- timer phase of janet_loop1 on the exact heap; the body for one timer is the model's `fireTimer` -/
def timerPhaseH (s : IS) : Nat → IS
  | 0 => s
  | fuel + 1 =>
    if s.heap.size = 0 then s else
      let to := s.heap[0]!
      if to.when ≤ s.w.now then
        timerPhaseH { s with heap := heapPop s.heap, w := fireTimer s.cfg s.w to } fuel
      else s

/-- run phase: `runTask` of the model, then the fiber's own code if the task was executed -/
def runPhase (s : IS) : Nat → IS
  | 0 => s
  | fuel + 1 =>
    match s.w.queue with
    | [] => s
    | t :: _ =>
      let w' := runTask s.cfg s.w
      if w'.log.length == s.w.log.length then runPhase { s with w := w' } fuel
      else
        let s := { s with w := w' }
        -- the harness logs fiber->sched_id as janet_continue_signal is entered, i.e. after the run phase's own bump
        let s := emit s s!"R {s.w.now} {fname s t.fiber} {(s.w.fibers t.fiber).schedId} {showVal s t.value}"
        runPhase (resume s t.fiber t.value t.isErr) fuel

/-- poll phase: drop timeouts that are no longer needed, then let the (virtual) clock jump to the next deadline -/
def dropPhase (s : IS) : Nat → IS
  | 0 => s
  | fuel + 1 =>
    if s.heap.size = 0 then s else
      let to := s.heap[0]!
      let dead := match to.kind with
        | .deadline b => !(s.w.bodies b)
        | _ => !(live s.w to.fiber to.schedId)
      if dead then dropPhase { s with heap := heapPop s.heap } fuel else s

/-- the events one epoll_wait call returned (input): stream readiness, self-pipe completions -/
def pollEvents (s : IS) : Nat → IS
  | 0 => s
  | n + 1 =>
    match s.kin with
    | .ev nm mask :: rest =>
        let s := { s with kin := rest }
        let s := match indexOf s.streams nm with
          | some sid => dispatch s sid mask
          | none => s
        pollEvents s n
    | .self :: rest =>
        let w := s.pendingExits.foldl (fun w k => procExit s.cfg w k 7) s.w
        let w := s.pendingThr.foldl (fun w k => thrDone s.cfg w k (if s.thrShell[k]?.getD true then .int 0 else .nil) false) w
        pollEvents { s with kin := rest, w := w, pendingExits := [], pendingThr := [] } n
    | .timer :: rest => pollEvents { s with kin := rest } n
    | _ => emit s "KMISMATCH poll group shorter than announced"

def loop (s : IS) : Nat → IS
  | 0 => emit s "D fuel"
  | fuel + 1 =>
    let s := timerPhaseH s (s.heap.size + 1)
    let s := runPhase s 100000
    let s := dropPhase s (s.heap.size + 1)
    let pollNow : Option (Nat × List KIn) := match s.kin with
      | .poll n t :: rest => if t ≤ s.w.now then some (n, rest) else none
      | _ => none
    match pollNow with
    | some (n, rest) => loop (pollEvents { s with kin := rest } n) fuel   -- the kernel had something ready: no clock jump
    | none =>
      if s.heap.size = 0 then (if s.kin.isEmpty then s else emit s s!"KMISMATCH {s.kin.length} kernel interactions of the implementation were not reached")
      else
        let to := s.heap[0]!
        let s := if to.when > s.w.now then { s with w := { s.w with now := to.when } } else s
        loop s fuel


end JanetModel.Wait.Interp
