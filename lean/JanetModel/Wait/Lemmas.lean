import JanetModel.Wait.Model
/-
C07 — the generation-counter invariant of the wait model and its preservation by every step.
-/
namespace JanetModel.Wait

theorem set_set {α : Type} (m : Nat → α) (k : Nat) (a b : α) : set (set m k a) k b = set m k b := by
  funext i; by_cases h : i = k <;> simp [set, h]

/-- a queued task: created by a registration of generation `regGen` that was live when the task was created -/
structure TaskOk (w : World) (t : Task) : Prop where
  gen : t.regGen + 1 = t.expected
  le : t.expected ≤ (w.fibers t.fiber).schedId
  nb : t.notBefore ≤ w.now
  sl : ∀ s d, t.src = .sleep s d → s + (d + 500) / 1000 ≤ t.notBefore

structure EventOk (e : Event) : Prop where
  cur : e.task.expected = e.schedIdAtRun
  gen : e.task.regGen + 1 = e.task.expected
  nb : e.task.notBefore ≤ e.tick
  sl : ∀ s d, e.task.src = .sleep s d → s + (d + 500) / 1000 ≤ e.tick

structure Inv (w : World) : Prop where
  q : ∀ t ∈ w.queue, TaskOk w t
  l : ∀ e ∈ w.log, EventOk e
  tm : ∀ to ∈ w.timers, to.when = to.start + (to.durUs + 500) / 1000

theorem Inv.frame {w w' : World} (h : Inv w) (hq : w'.queue = w.queue) (hl : w'.log = w.log) (ht : w'.timers = w.timers)
    (hs : ∀ f, (w.fibers f).schedId ≤ (w'.fibers f).schedId) (hn : w.now ≤ w'.now) : Inv w' := by
  refine ⟨?_, ?_, ?_⟩
  · intro t ht'
    rw [hq] at ht'
    have := h.q t ht'
    exact ⟨this.gen, Nat.le_trans this.le (hs _), Nat.le_trans this.nb hn, this.sl⟩
  · intro e he; rw [hl] at he; exact h.l e he
  · intro to hto; rw [ht] at hto; exact h.tm to hto

theorem init_inv : Inv init := by
  refine ⟨?_, ?_, ?_⟩ <;> intro x hx <;> simp [init] at hx

/-- `schedule` never lowers a generation (any configuration). -/
theorem schedule_mono (cfg : Cfg) (w : World) (f : Nat) (v : Val) (e : Bool) (rg nb : Nat) (src : Src) (re : Nat) (g : Nat) :
    (w.fibers g).schedId ≤ ((schedule cfg w f v e rg nb src re).fibers g).schedId := by
  unfold schedule
  by_cases hc : (cfg.canceledGuard && (w.fibers f).canceled) = true
  · simp [hc]
  · simp only [hc]
    by_cases hg : g = f
    · subst hg
      simp only [set_same, nextSid]
      by_cases hb : cfg.scheduleBumps = true <;> by_cases he : e = true <;> simp [hb, he]
    · simp [set_other _ _ _ _ hg]

theorem schedule_now (cfg : Cfg) (w : World) (f : Nat) (v : Val) (e : Bool) (rg nb : Nat) (src : Src) (re : Nat) :
    (schedule cfg w f v e rg nb src re).now = w.now := by
  unfold schedule
  by_cases hc : (cfg.canceledGuard && (w.fibers f).canceled) = true <;> simp [hc]

theorem schedule_log (cfg : Cfg) (w : World) (f : Nat) (v : Val) (e : Bool) (rg nb : Nat) (src : Src) (re : Nat) :
    (schedule cfg w f v e rg nb src re).log = w.log := by
  unfold schedule
  by_cases hc : (cfg.canceledGuard && (w.fibers f).canceled) = true <;> simp [hc]

theorem schedule_timers (cfg : Cfg) (w : World) (f : Nat) (v : Val) (e : Bool) (rg nb : Nat) (src : Src) (re : Nat) :
    (schedule cfg w f v e rg nb src re).timers = w.timers := by
  unfold schedule
  by_cases hc : (cfg.canceledGuard && (w.fibers f).canceled) = true <;> simp [hc]

theorem schedule_bodies (cfg : Cfg) (w : World) (f : Nat) (v : Val) (e : Bool) (rg nb : Nat) (src : Src) (re : Nat) :
    (schedule cfg w f v e rg nb src re).bodies = w.bodies := by
  unfold schedule
  by_cases hc : (cfg.canceledGuard && (w.fibers f).canceled) = true <;> simp [hc]

/-- Every schedule that is not swallowed by the CANCELED guard bumps the generation by exactly one. -/
theorem schedule_bumps (cfg : Cfg) (hb : cfg.scheduleBumps = true) (w : World) (f : Nat) (v : Val) (e : Bool) (rg nb : Nat) (src : Src) (re : Nat) :
    schedule cfg w f v e rg nb src re = w ∨
    (((schedule cfg w f v e rg nb src re).fibers f).schedId = (w.fibers f).schedId + 1 ∧
     (schedule cfg w f v e rg nb src re).queue = w.queue ++
        [{ fiber := f, value := v, isErr := e, expected := (w.fibers f).schedId + 1, regGen := rg, notBefore := nb, src := src,
           regEpoch := re }]) := by
  unfold schedule
  by_cases hc : (cfg.canceledGuard && (w.fibers f).canceled) = true
  · left; simp [hc]
  · right; simp [hc, hb, nextSid]

/-- scheduling on behalf of a LIVE registration keeps the invariant -/
theorem schedule_inv (cfg : Cfg) (hb : cfg.scheduleBumps = true) {w : World} (h : Inv w) (f : Nat) (v : Val) (e : Bool)
    (rg nb : Nat) (src : Src) {re : Nat} (hrg : rg = (w.fibers f).schedId) (hnb : nb ≤ w.now)
    (hsl : ∀ s d, src = .sleep s d → s + (d + 500) / 1000 ≤ nb) :
    Inv (schedule cfg w f v e rg nb src re) := by
  rcases schedule_bumps cfg hb w f v e rg nb src re with heq | ⟨hsid, hq⟩
  · rw [heq]; exact h
  · refine ⟨?_, ?_, ?_⟩
    · intro t ht
      rw [hq] at ht
      rcases List.mem_append.mp ht with ht | ht
      · have := h.q t ht
        exact ⟨this.gen, Nat.le_trans this.le (schedule_mono ..), by rw [schedule_now]; exact this.nb, this.sl⟩
      · simp at ht
        subst ht
        refine ⟨by simp [hrg], by simp [hsid], by simp [schedule_now, hnb], by simpa using hsl⟩
    · intro ev hev; rw [schedule_log] at hev; exact h.l ev hev
    · intro to hto; rw [schedule_timers] at hto; exact h.tm to hto

theorem popLive_congr (c : Bool) (w w' : World) (hf : w.fibers = w'.fibers) (l : List Pending) : popLive c w l = popLive c w' l := by
  induction l with
  | nil => rfl
  | cons e rest ih => simp [popLive, live, hf, ih]

theorem popLive_live (w : World) (l : List Pending) (e : Pending) (rest : List Pending)
    (h : popLive true w l = (some e, rest)) : (w.fibers e.fiber).schedId = e.schedId := by
  induction l with
  | nil => simp [popLive] at h
  | cons x xs ih =>
    unfold popLive at h
    by_cases hl : live w x.fiber x.schedId = true
    · simp [hl] at h
      rcases h with ⟨rfl, _⟩
      simpa [live] using hl
    · simp [hl] at h
      exact ih h

theorem popLive_stale_head (w : World) (e : Pending) (rest : List Pending) (h : live w e.fiber e.schedId = false) :
    popLive true w (e :: rest) = popLive true w rest := by
  simp [popLive, h]

theorem popLive_all_stale (w : World) (l : List Pending) (h : ∀ e ∈ l, live w e.fiber e.schedId = false) :
    popLive true w l = (none, []) := by
  induction l with
  | nil => rfl
  | cons x xs ih =>
    have hx := h x (by simp)
    simp [popLive, hx]
    exact ih (fun e he => h e (by simp [he]))

theorem mem_insertTimer (t x : Timer) (l : List Timer) : x ∈ insertTimer t l ↔ x = t ∨ x ∈ l := by
  induction l with
  | nil => simp [insertTimer]
  | cons y ys ih =>
    unfold insertTimer
    by_cases h : t.when < y.when
    · simp [h]
    · simp [h, ih]
      constructor
      · rintro (h1 | h1 | h1) <;> simp [h1]
      · rintro (h1 | h1 | h1) <;> simp [h1]

theorem asyncEnd_frame (w : World) (f : Nat) :
    (asyncEnd w f).queue = w.queue ∧ (asyncEnd w f).log = w.log ∧ (asyncEnd w f).timers = w.timers ∧
    (asyncEnd w f).now = w.now ∧ (∀ g, ((asyncEnd w f).fibers g).schedId = (w.fibers g).schedId) := by
  unfold asyncEnd
  cases h : (w.fibers f).listener with
  | none => simp
  | some p =>
    obtain ⟨s, r⟩ := p
    refine ⟨rfl, rfl, rfl, rfl, ?_⟩
    intro g
    by_cases hg : g = f
    · subst hg; simp
    · simp [set_other _ _ _ _ hg]

theorem asyncEnd_inv {w : World} (h : Inv w) (f : Nat) : Inv (asyncEnd w f) := by
  obtain ⟨a, b, c, d, e⟩ := asyncEnd_frame w f
  exact h.frame a b c (fun g => Nat.le_of_eq (e g).symm) (Nat.le_of_eq d.symm)

theorem asyncEnd_listener (w : World) (f : Nat) : ((asyncEnd w f).fibers f).listener = none := by
  unfold asyncEnd
  cases h : (w.fibers f).listener with
  | none => simpa using h
  | some p => obtain ⟨s, r⟩ := p; simp

end JanetModel.Wait
