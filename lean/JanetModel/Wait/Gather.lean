import JanetModel.Wait.Callback
/-
C07 — mirrors of the boot.janet forms that cancel other tasks: `cancel-all` / `wait-for-fibers` (ev/gather) and the
`ev/with-deadline` macro, on the wait model; plus the S-expression type the forms are regenerated into
(`Gen/WaitBoot.lean`, tools/gen/waitboot.py) so that the kernel checks on every run that the forms the mirrors were written from
are the forms of the current boot.janet (locals renamed in order of binding).  Core Lean only.

    (defn- cancel-all [chan fibers reason]
      (each f fibers (ev/cancel f reason))                       -- cancelAll
      (let [n (length fibers)] (table/clear fibers) (repeat n (ev/take chan))))
    (defn- wait-for-fibers [chan fibers]
      (defer (cancel-all chan fibers "parent canceled")          -- gatherEnd
        (repeat (length fibers)
          (def [sig fiber] (ev/take chan))                       -- gatherEvent
          (if (= sig :ok) (put fibers fiber nil)
            (do (cancel-all chan fibers "sibling canceled") (propagate (fiber/last-value fiber) fiber))))))
    (defmacro ev/with-deadline [sec & body]
      (with-syms [f] ~(let [,f (coro ,;body)] (,ev/deadline ,sec nil ,f) (,resume ,f))))      -- withDeadline

`fibers` is a table: `each` visits its keys in an order the program cannot rely on; the mirrors take the set as a list in ANY
order and the theorems hold for every order.
-/
namespace JanetModel.Wait.Gather
open JanetModel.Wait JanetModel.Wait.Callback

/-- janet source as data (symbols, keywords, strings and numbers are atoms with their source text) -/
inductive Sexp where
  | atom (s : String)
  | list (bracket : Char) (xs : List Sexp)      -- '(' tuple, '[' bracket tuple, '{' struct, with a leading '@' folded into the atom "@"
  deriving Repr, Inhabited

mutual
def Sexp.beq : Sexp → Sexp → Bool
  | .atom a, .atom b => a == b
  | .list c xs, .list d ys => c == d && Sexp.beqList xs ys
  | _, _ => false
def Sexp.beqList : List Sexp → List Sexp → Bool
  | [], [] => true
  | x :: xs, y :: ys => Sexp.beq x y && Sexp.beqList xs ys
  | _, _ => false
end

/-- `(ev/cancel f reason)` = cfun_ev_cancel = janet_cancel -/
def evCancel (cfg : Cfg) (w : World) (f : Nat) (reason : Val) : World := cancel cfg w f reason

/-- first line of cancel-all: `(each f fibers (ev/cancel f reason))` -/
def cancelAll (cfg : Cfg) (w : World) (fibers : List Nat) (reason : Val) : World :=
  fibers.foldl (fun w f => evCancel cfg w f reason) w

/-- what the parent does with one event `[sig fiber]` taken from the gather channel inside wait-for-fibers:
`:ok` → the fiber leaves the set; anything else → cancel-all with "sibling canceled" (the set still contains the failed fiber
itself), then the error is propagated.  Returns (world, remaining set, propagates?) -/
def gatherEvent (cfg : Cfg) (w : World) (fibers : List Nat) (sigOk : Bool) (fiber : Nat) (siblingCanceled : Val) :
    World × List Nat × Bool :=
  if sigOk then (w, fibers.filter (· != fiber), false)
  else (cancelAll cfg w fibers siblingCanceled, [], true)

/-- the `defer` of wait-for-fibers, run when the form is left for whatever reason (normally, by the propagated error, or because the
parent itself was cancelled while it waited): cancel-all with "parent canceled" on what is still in the set -/
def gatherEnd (cfg : Cfg) (w : World) (fibers : List Nat) (parentCanceled : Val) : World :=
  cancelAll cfg w fibers parentCanceled

/-- ev/with-deadline: `(ev/deadline sec nil f)` — cfun_ev_deadline with tocancel = nil → the ROOT fiber of the caller (the task),
tocheck = the body coroutine — then `(resume f)` -/
def withDeadline (cfg : Cfg) (w : World) (task body us : Nat) : World :=
  step cfg (addTimer cfg w task (.deadline body) us) (.bodyStart body)

theorem cancel_other (cfg : Cfg) (w : World) (f h : Nat) (hne : h ≠ f) (v : Val) :
    (cancel cfg w f v).fibers h = w.fibers h ∧ tasksOf (cancel cfg w f v) h = tasksOf w h :=
  schedule_other cfg w f h hne ..

theorem cancelAll_other (cfg : Cfg) (fibers : List Nat) (h : Nat) (hn : h ∉ fibers) (v : Val) (w : World) :
    (cancelAll cfg w fibers v).fibers h = w.fibers h ∧ tasksOf (cancelAll cfg w fibers v) h = tasksOf w h := by
  induction fibers generalizing w with
  | nil => exact ⟨rfl, rfl⟩
  | cons f fs ih =>
    have hf : h ≠ f := fun e => hn (e ▸ List.mem_cons_self ..)
    have ih' := ih (fun hm => hn (List.mem_cons_of_mem _ hm)) (evCancel cfg w f v)
    have h1 := cancel_other cfg w f h hf v
    simp only [cancelAll, List.foldl_cons] at ih' ⊢
    exact ⟨ih'.1.trans h1.1, ih'.2.trans h1.2⟩

/-- the generation of a fiber never decreases under cancel-all -/
theorem cancelAll_mono (cfg : Cfg) (fibers : List Nat) (v : Val) (w : World) (g : Nat) :
    (w.fibers g).schedId ≤ ((cancelAll cfg w fibers v).fibers g).schedId := by
  induction fibers generalizing w with
  | nil => exact Nat.le_refl _
  | cons f fs ih =>
    simp only [cancelAll, List.foldl_cons]
    exact Nat.le_trans (schedule_mono cfg w f v true _ _ _ _ g) (ih (evCancel cfg w f v))

/-- one `ev/cancel` of a fiber that is not already cancelled in this round: the generation moves on, so every registration the
fiber made for the wait it is in (recorded generation = the old one) is stale from now on, and exactly one task — the error, with
the new generation — is appended to the run queue -/
theorem cancel_live (cfg : Cfg) (hb : cfg.scheduleBumps = true) (w : World) (f : Nat) (v : Val) (hc : (w.fibers f).canceled = false) :
    ((cancel cfg w f v).fibers f).schedId = (w.fibers f).schedId + 1 ∧
    live (cancel cfg w f v) f (w.fibers f).schedId = false ∧
    (cancel cfg w f v).queue = w.queue ++ [Task.mk f v true ((w.fibers f).schedId + 1) (w.fibers f).schedId w.now .cancel (w.fibers f).epoch] := by
  simp [cancel, schedule, hc, nextSid, hb, live]

end JanetModel.Wait.Gather
