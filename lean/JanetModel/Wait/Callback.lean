import JanetModel.Wait.Lemmas
/-
C07 — listener callbacks (`JanetEVCallback`: ev_callback_read / ev_callback_write, net_callback_connect / net_callback_accept,
filewatch's watcher_callback_read) as case tables, and the wake-up call sites of ev.c / net.c / os.c / filewatch.c / io.c.

`Gen/WaitCb.lean` (tools/gen/waitcb.py, regenerated on every run from the preprocessed source) instantiates `Callback` once per
function with the listener signature: the wake-relevant calls (janet_schedule* / janet_cancel / janet_async_end with their
target, janet_mark*, janet_channel_give) of every case group of `switch (event)` in source order, and how control can leave
the group.  `reach cb e` over-approximates the calls that an invocation `cb(fiber, e)` can perform: the statements before the
switch, every group reachable from the entry group of `e` by falling through or by `goto`, and the statements after the switch
when some reachable group can `break` (or the event has no group at all).  The closure is computed with fuel and CHECKED to be
closed (`Callback.closedFor`), so no termination argument is trusted.

An execution of the callback is any sequence of instantiated actions drawn from `reach cb e` (any order, any multiplicity —
conditions, loops and data are opaque); `applyActs` replays it on the `World` of Wait/Model.lean with the model's own
primitives (`schedule`, `asyncEnd`, `superPush`).  Core Lean only.
-/
namespace JanetModel.Wait.Callback
open JanetModel.Wait

/-- JanetAsyncEvent (janet.h) -/
inductive Ev where
  | init | mark | deinit | close | err | hup | read | write | complete | failed
  deriving DecidableEq, Repr, Inhabited

def Ev.all : List Ev := [.init, .mark, .deinit, .close, .err, .hup, .read, .write, .complete, .failed]

theorem Ev.mem_all (e : Ev) : e ∈ Ev.all := by cases e <;> simp [Ev.all]

/-- first argument of a wake-relevant call: the callback's own fiber parameter, a fiber created by `janet_fiber(..)` inside the
callback (the handler of net/accept-loop), anything else -/
inductive Tgt where
  | self | fresh | other
  deriving DecidableEq, Repr, Inhabited

inductive Act where
  | schedule (t : Tgt)      -- janet_schedule / janet_schedule_soon / janet_schedule_signal
  | cancel (t : Tgt)        -- janet_cancel
  | asyncEnd (t : Tgt)      -- janet_async_end
  | mark                    -- janet_mark*: the collector's business, no effect on the wait state
  | chanGive                -- janet_channel_give: `janet_channel_push_with_lock(chan, x, 2)` = `superPush` of the model
  | callsWaker              -- a call of some other function that (transitively) schedules / cancels / ends: unknown
  deriving DecidableEq, Repr, Inhabited

structure Group where
  labels : List Ev
  isDefault : Bool
  acts : List Act
  canBreak : Bool           -- a `break;` occurs in the group: control may continue after the switch
  canFall : Bool            -- the group does not end in break / return / goto: control may enter the next group
  gotos : List Nat          -- groups that hold the target labels of the group's `goto`s
  deriving Repr, Inhabited

structure Callback where
  name : String
  file : String
  pre : List Act
  groups : List Group
  post : List Act
  deriving Repr, Inhabited

def findIdx (p : Group → Bool) : List Group → Nat → Option Nat
  | [], _ => none
  | g :: gs, i => if p g then some i else findIdx p gs (i + 1)

/-- the group `switch (event)` jumps to: the one labelled `e`, else `default:`, else none (the switch is skipped) -/
def Callback.entry (cb : Callback) (e : Ev) : Option Nat :=
  match findIdx (fun g => g.labels.contains e) cb.groups 0 with
  | some i => some i
  | none => findIdx (fun g => g.isDefault) cb.groups 0

def Callback.succs (cb : Callback) (i : Nat) : List Nat :=
  match cb.groups[i]? with
  | none => []
  | some g => (if g.canFall then [i + 1] else []) ++ g.gotos

def Callback.closure (cb : Callback) : Nat → List Nat → List Nat
  | 0, vis => vis
  | fuel + 1, vis => cb.closure fuel (vis ++ (vis.flatMap cb.succs).filter (fun j => !vis.contains j))

def Callback.visited (cb : Callback) (e : Ev) : List Nat :=
  match cb.entry e with
  | none => []
  | some i => cb.closure cb.groups.length [i]

/-- the visited set is closed under fall-through and goto (checked per generated callback, not argued) -/
def Callback.closedFor (cb : Callback) (e : Ev) : Bool :=
  ((cb.visited e).flatMap cb.succs).all (fun j => (cb.visited e).contains j)

def Callback.leavesSwitch (cb : Callback) (e : Ev) : Bool :=
  (cb.entry e).isNone ||
  (cb.visited e).any (fun i => match cb.groups[i]? with
    | none => true                                  -- fell off the last group
    | some g => g.canBreak)

/-- every wake-relevant call an invocation `cb(fiber, e)` can perform (over-approximation) -/
def Callback.reach (cb : Callback) (e : Ev) : List Act :=
  cb.pre ++ (cb.visited e).flatMap (fun i => match cb.groups[i]? with | none => [] | some g => g.acts) ++
    (if cb.leavesSwitch e then cb.post else [])

/-- what the opaque data of one executed call turned out to be -/
structure Inst where
  val : Val := .nil       -- value / error the fiber is resumed with
  fresh : Nat := 0        -- id of the fiber created by janet_fiber() (target `.fresh`)
  chan : Nat := 0         -- channel of a janet_channel_give
  stream : Nat := 0       -- ghost: the stream the callback belongs to
  deriving Inhabited

/-- actions whose effect the model knows -/
def Act.known : Act → Bool
  | .schedule .self | .cancel .self | .asyncEnd .self | .schedule .fresh | .cancel .fresh | .mark | .chanGive => true
  | _ => false

/-- actions that can only touch the callback's own fiber or a fiber it has just created -/
def Act.own : Act → Bool
  | .schedule .self | .cancel .self | .asyncEnd .self | .schedule .fresh | .cancel .fresh | .mark => true
  | _ => false

/-- actions that make some fiber runnable or end a listener -/
def Act.quiet : Act → Bool
  | .mark => true
  | _ => false

def applyAct (cfg : Cfg) (w : World) (f : Nat) (a : Act) (i : Inst) : World :=
  match a with
  | .schedule .self => schedule cfg w f i.val false (w.fibers f).schedId w.now (.stream i.stream) (w.fibers f).listenEpoch
  | .cancel .self => schedule cfg w f i.val true (w.fibers f).schedId w.now (.stream i.stream) (w.fibers f).listenEpoch
  | .asyncEnd .self => asyncEnd w f
  | .schedule .fresh => schedule cfg w i.fresh .nil false (w.fibers i.fresh).schedId w.now .spawn (w.fibers i.fresh).epoch
  | .cancel .fresh => schedule cfg w i.fresh i.val true (w.fibers i.fresh).schedId w.now .cancel (w.fibers i.fresh).epoch
  | .chanGive => superPush cfg w i.chan i.val
  | .mark => w
  -- `.other` targets and `.callsWaker` are NOT modelled: every theorem about `applyActs` carries `Act.known` / `Act.own` /
  -- `Act.quiet` of the actions involved, and those are established for the generated callbacks by `decide`
  | _ => w

def applyActs (cfg : Cfg) (w : World) (f : Nat) (xs : List (Act × Inst)) : World :=
  xs.foldl (fun w x => applyAct cfg w f x.1 x.2) w

theorem applyActs_quiet (cfg : Cfg) (f : Nat) (xs : List (Act × Inst)) (h : ∀ x ∈ xs, x.1.quiet = true) (w : World) :
    applyActs cfg w f xs = w := by
  induction xs generalizing w with
  | nil => rfl
  | cons x xs ih =>
    have hx : x.1.quiet = true := h x (List.mem_cons_self ..)
    have hxm : x.1 = .mark := by
      cases hxa : x.1 <;> simp [Act.quiet, hxa] at hx ⊢
    simp only [applyActs, List.foldl_cons, hxm, applyAct]
    exact ih (fun y hy => h y (List.mem_cons_of_mem _ hy)) w

/-- tasks of fiber `h` in the run queue -/
def tasksOf (w : World) (h : Nat) : List Task := w.queue.filter (fun t => t.fiber == h)

theorem schedule_other (cfg : Cfg) (w : World) (f h : Nat) (hne : h ≠ f) (v : Val) (e : Bool) (rg nb : Nat) (src : Src) (re : Nat) :
    (schedule cfg w f v e rg nb src re).fibers h = w.fibers h ∧ tasksOf (schedule cfg w f v e rg nb src re) h = tasksOf w h := by
  unfold schedule
  by_cases hc : (cfg.canceledGuard && (w.fibers f).canceled) = true
  · simp [hc]
  · have hne' : (f == h) = false := by simpa using fun h' => hne h'.symm
    simp [hc, tasksOf, set_other _ _ _ _ hne, List.filter_append, hne']

theorem asyncEnd_other (w : World) (f h : Nat) (hne : h ≠ f) :
    (asyncEnd w f).fibers h = w.fibers h ∧ tasksOf (asyncEnd w f) h = tasksOf w h := by
  unfold asyncEnd
  cases hl : (w.fibers f).listener with
  | none => simp
  | some p => simp [tasksOf, set_other _ _ _ _ hne]

/-- ★ frame: an execution made of `own` actions leaves every fiber other than the listener and the fibers the callback has just
created exactly as it was — same generation, same flags, same listener, no task added to or removed from the run queue. -/
theorem applyActs_own_frame (cfg : Cfg) (f h : Nat) (hne : h ≠ f) (xs : List (Act × Inst))
    (hown : ∀ x ∈ xs, x.1.own = true) (hfresh : ∀ x ∈ xs, x.2.fresh ≠ h) (w : World) :
    (applyActs cfg w f xs).fibers h = w.fibers h ∧ tasksOf (applyActs cfg w f xs) h = tasksOf w h := by
  induction xs generalizing w with
  | nil => exact ⟨rfl, rfl⟩
  | cons x xs ih =>
    have hx := hown x (List.mem_cons_self ..)
    have hf : h ≠ x.2.fresh := fun e => hfresh x (List.mem_cons_self ..) e.symm
    have ih' := ih (fun y hy => hown y (List.mem_cons_of_mem _ hy)) (fun y hy => hfresh y (List.mem_cons_of_mem _ hy))
      (applyAct cfg w f x.1 x.2)
    have h1 : (applyAct cfg w f x.1 x.2).fibers h = w.fibers h ∧ tasksOf (applyAct cfg w f x.1 x.2) h = tasksOf w h := by
      cases hxa : x.1 with
      | schedule t => cases t <;> simp [Act.own, hxa] at hx <;> simp only [applyAct] <;> first
          | exact schedule_other cfg w f h hne ..
          | exact schedule_other cfg w x.2.fresh h hf ..
      | cancel t => cases t <;> simp [Act.own, hxa] at hx <;> simp only [applyAct] <;> first
          | exact schedule_other cfg w f h hne ..
          | exact schedule_other cfg w x.2.fresh h hf ..
      | asyncEnd t => cases t <;> simp [Act.own, hxa] at hx <;> simp only [applyAct] <;> exact asyncEnd_other w f h hne
      | mark => exact ⟨rfl, rfl⟩
      | chanGive => simp [Act.own, hxa] at hx
      | callsWaker => simp [Act.own, hxa] at hx
    simp only [applyActs, List.foldl_cons] at ih' ⊢
    exact ⟨ih'.1.trans h1.1, ih'.2.trans h1.2⟩

/-! ### wake-up call sites -/

structure Site where
  file : String
  func : String
  callee : String
  listener : Bool          -- the enclosing function has the signature `(JanetFiber *, JanetAsyncEvent)`
  attributed : String      -- `func`, or — when `func` is a file-static helper with exactly one caller that is never used as a
                           --   function pointer — that caller (transitively): folding code into a helper is not a new source
  deriving DecidableEq, Repr, Inhabited

/-- what kind of wake-up source a janet_schedule* / janet_cancel call site is -/
inductive SiteClass where
  | listenerCallback     -- inside a JanetEVCallback: reached only through `stream->read_fiber / write_fiber` of a listening fiber
  | chanGive             -- janet_channel_push_with_lock: a pending reader woken by a give
  | chanTake             -- janet_channel_pop_with_lock: a pending writer woken by a take
  | chanImmediate        -- janet_channel_pop / cfun_channel_pop: the running fiber itself, value already there
  | chanClose            -- cfun_channel_close
  | threadChan           -- janet_thread_chan_cb: threaded channels (property C08; compares the generation)
  | timers               -- janet_loop1: expired sleep / timeout / deadline
  | rescheduleInterrupted-- janet_loop: an interrupted task is put back (not a wait)
  | threadedAwait        -- janet_ev_default_threaded_callback: os/shell, ev/thread, ev/do-thread
  | request              -- ev/go, ev/cancel, ev/thread: an explicit request of the program
  | procWait             -- janet_proc_wait_cb
  | signalHandler        -- janet_signal_callback: runs the handler in a fresh fiber, no waiter involved
  deriving DecidableEq, Repr, Inhabited

def classifyFunc : String → Option SiteClass
  | "janet_channel_push_with_lock" => some .chanGive
  | "janet_channel_pop_with_lock" => some .chanTake
  | "janet_channel_pop" => some .chanImmediate
  | "cfun_channel_pop" => some .chanImmediate
  | "cfun_channel_close" => some .chanClose
  | "janet_thread_chan_cb" => some .threadChan
  | "janet_loop1" => some .timers
  | "janet_loop" => some .rescheduleInterrupted
  | "janet_ev_default_threaded_callback" => some .threadedAwait
  | "cfun_ev_go" => some .request
  | "cfun_ev_thread" => some .request
  | "janet_go_thread_subr" => some .request
  | "cfun_ev_cancel" => some .request
  | "janet_proc_wait_cb" => some .procWait
  | "janet_signal_callback" => some .signalHandler
  | _ => none

def classify (s : Site) : Option SiteClass :=
  if s.listener then some .listenerCallback else classifyFunc s.attributed

end JanetModel.Wait.Callback
