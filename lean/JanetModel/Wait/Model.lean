/-
C07 — executable model of the wait / generation-counter mechanism of src/core/ev.c (core Lean only).

Mirrors, function by function:
  janet_schedule_general (`schedule`), janet_cancel, janet_channel_push_with_lock (`chanPush`), janet_channel_pop_with_lock
  (`chanPop`), cfun_channel_close (`chanClose`), janet_sleep_await / janet_addtimeout / cfun_ev_deadline (`addTimer`),
  the timer phase and the run phase of janet_loop1 (`fireTimer`, `timerPhase`, `runTask`), janet_async_start_fiber /
  janet_async_end / janet_fiber_did_resume (`asyncStart`, `asyncEnd`), the stream callbacks seen as an arbitrary event source
  (`streamEvent`), os_proc_wait_impl / janet_proc_wait_cb (`procWait`, `procExit`).

The model is parameterised by `Cfg`: which generation / status checks the source contains at which site.  `Gen/Wait.lean`
is regenerated from the current ev.c / os.c on every run and instantiates it.

Ghost fields (not in the C): `Task.regGen` = generation of the registration whose completion created the task,
`Task.notBefore`, `Timer.start/durUs`, the `log` of executed tasks.
-/
namespace JanetModel.Wait

structure Cfg where
  runFilter : Bool          -- loop1 run phase: `if (task.expected_sched_id != task.fiber->sched_id) continue;`
  timerCheck : Bool         -- loop1 timer phase: `if (to.fiber->sched_id == to.sched_id)`
  pushSkipsStale : Bool     -- push: `while (!is_empty && (reader.sched_id != reader.fiber->sched_id))`
  popSkipsStale : Bool      -- pop: the same loop for pending writers
  closeChecks : Bool        -- close: `sched_id == fiber->sched_id &&` in front of janet_fiber_can_resume
  procCheck : Bool          -- janet_proc_wait_cb: `args.fiber->sched_id == sched_id`
  deadlineChecks : Bool     -- timer phase: `if (janet_fiber_can_resume(to.curr_fiber))`
  didResumeDetaches : Bool  -- janet_fiber_did_resume calls janet_async_end
  scheduleBumps : Bool      -- `++fiber->sched_id` in janet_schedule_general (all signals, cancel included)
  canceledGuard : Bool      -- `if (fiber->gc.flags & JANET_FIBER_EV_FLAG_CANCELED) return;`
  sleepRounds : Bool        -- ts_delta: `round(delta * 1000)` (false: truncation)
  hasReaderChecks : Bool    -- janet_channel_has_reader (select's "give can complete now" test) looks for a LIVE reader only
  timeoutAfterValidation : Bool  -- stream cfuns call janet_addtimeout only after every argument check, directly before waiting
  didResumeFirst : Bool     -- vm.c janet_continue_no_check: janet_fiber_did_resume(fiber) precedes the `if (fiber->child)` block
                            --   (false: it runs only once the child chain has handed control back to this fiber)
  procErrCheck : Bool       -- janet_proc_wait_cb: the janet_cancel branch (non-zero status, :x flag) is guarded by the generation test too
  threadCheck : Bool        -- janet_ev_threaded_await records the fiber's generation and janet_ev_default_threaded_callback
                            --   (completion of os/shell, ev/thread, ev/do-thread) compares it before resuming the fiber
  resumeBumps : Bool        -- loop1 run phase: `task.fiber->sched_id++` between the stale filter and janet_continue_signal, so that
                            --   whatever the fiber registered before this resume (e.g. after cancelling itself) is stale afterwards
  deriving DecidableEq, Repr

def Cfg.allChecked (c : Cfg) : Bool :=
  c.runFilter && c.timerCheck && c.pushSkipsStale && c.popSkipsStale && c.closeChecks && c.procCheck &&
  c.deadlineChecks && c.didResumeDetaches && c.scheduleBumps && c.canceledGuard && c.sleepRounds &&
  c.hasReaderChecks && c.timeoutAfterValidation && c.didResumeFirst && c.procErrCheck && c.threadCheck && c.resumeBumps

def Cfg.full : Cfg := ⟨true, true, true, true, true, true, true, true, true, true, true, true, true, true, true, true, true⟩

inductive Val where
  | nil
  | kw (n : Nat)                    -- a keyword item
  | chan (c : Nat)                  -- result of a plain give
  | giveR (c : Nat)                 -- [:give c]
  | takeR (c : Nat) (v : Nat)       -- [:take c item]
  | closeR (c : Nat)                -- [:close c]
  | err (code : Nat)                -- 0 "timeout", 1 "deadline expired", n+2 user message n
  | int (n : Nat)
  | buf (n : Nat)
  | sup (sig : Nat) (f : Nat)       -- supervisor event [:ok fiber task-id] (sig 0 = ok, 1 = error, …)
  deriving DecidableEq, Repr, Inhabited

inductive Src where
  | spawn | self | chanRead (c : Nat) | chanWrite (c : Nat) | chanClose (c : Nat)
  | sleep (start durUs : Nat) | timeout | deadline | cancel | stream (s : Nat) | proc (k : Nat) | thread (k : Nat)
  deriving DecidableEq, Repr, Inhabited

structure Task where
  fiber : Nat
  value : Val
  isErr : Bool
  expected : Nat
  regGen : Nat := 0       -- ghost
  notBefore : Nat := 0    -- ghost
  src : Src := .spawn     -- ghost
  regEpoch : Nat := 0     -- ghost: epoch (number of earlier resumes) of the fiber when the originating registration / request was made
  deriving DecidableEq, Repr, Inhabited

structure Fiber where
  schedId : Nat := 0
  canceled : Bool := false
  dead : Bool := false                       -- ¬ janet_fiber_can_resume
  listener : Option (Nat × Bool) := none     -- ev_stream / ev_callback : (stream, isRead)
  depth : Nat := 0                           -- number of child fibers (try / defer / coro / with-deadline bodies) of this root fiber
                                             --   that stay suspended across its waits: `fiber->child` chain below the root
  epoch : Nat := 0                           -- ghost: how many times this fiber has been resumed by the loop so far
  listenEpoch : Nat := 0                     -- ghost: `epoch` at the moment the listener was attached
  deriving DecidableEq, Repr, Inhabited

structure Pending where
  fiber : Nat
  schedId : Nat
  choice : Bool
  epoch : Nat := 0        -- ghost: the fiber's epoch when it registered
  deriving DecidableEq, Repr, Inhabited

structure Chan where
  items : List Val := []
  rp : List Pending := []
  wp : List Pending := []
  limit : Nat := 0
  closed : Bool := false
  deriving Repr, Inhabited

inductive TKind where
  | sleep | timeout | deadline (body : Nat)
  deriving DecidableEq, Repr, Inhabited

structure Timer where
  when : Nat
  fiber : Nat
  schedId : Nat
  kind : TKind
  start : Nat := 0     -- ghost: tick at which the timer was created
  durUs : Nat := 0     -- ghost: requested duration in microseconds
  epoch : Nat := 0     -- ghost: the fiber's epoch when the timer was created
  deriving DecidableEq, Repr, Inhabited

structure Stream where
  readFiber : Option Nat := none
  writeFiber : Option Nat := none
  deriving DecidableEq, Repr, Inhabited

structure Event where     -- one executed run-queue task
  tick : Nat
  fiber : Nat
  schedIdAtRun : Nat
  task : Task
  epochAtRun : Nat := 0   -- ghost: number of resumes of this fiber before this one
  deriving DecidableEq, Repr, Inhabited

structure World where
  now : Nat := 0
  fibers : Nat → Fiber := fun _ => {}
  chans : Nat → Chan := fun _ => {}
  streams : Nat → Stream := fun _ => {}
  procs : Nat → Option (Nat × Nat) := fun _ => none     -- proc k is waited on by (fiber, sched_id)
  procX : Nat → Bool := fun _ => false                  -- proc k was spawned with :x (JANET_PROC_ERROR_NONZERO)
  procEpoch : Nat → Nat := fun _ => 0                   -- ghost: epoch of the waiting fiber when it called os/proc-wait
  thr : Nat → Option (Nat × Nat) := fun _ => none       -- threaded call k (os/shell, ev/thread) is awaited by (fiber, sched_id)
  thrEpoch : Nat → Nat := fun _ => 0                    -- ghost
  bodies : Nat → Bool := fun _ => false                 -- body b (a with-deadline coroutine) is resumable
  bodyDead : Nat → Bool := fun _ => false               -- ghost: body b has finished (dead / error status)
  timers : List Timer := []                             -- kept sorted by `when` (stable): abstraction of the heap
  queue : List Task := []
  log : List Event := []                                -- ghost, newest first

def set {α : Type} (m : Nat → α) (k : Nat) (v : α) : Nat → α := fun i => if i = k then v else m i

@[simp] theorem set_same {α : Type} (m : Nat → α) (k : Nat) (v : α) : set m k v k = v := by simp [set]
theorem set_other {α : Type} (m : Nat → α) (k i : Nat) (v : α) (h : i ≠ k) : set m k v i = m i := by simp [set, h]

def live (w : World) (f g : Nat) : Bool := (w.fibers f).schedId == g

/-- janet_schedule_general.  `regGen`, `nb`, `src` are ghost. -/
def nextSid (cfg : Cfg) (sid : Nat) (isErr : Bool) : Nat :=
  if cfg.scheduleBumps then sid + 1 else (if isErr then sid else sid + 1)

def schedule (cfg : Cfg) (w : World) (f : Nat) (v : Val) (isErr : Bool) (regGen nb : Nat) (src : Src)
    (regEpoch : Nat) : World :=
  if cfg.canceledGuard && (w.fibers f).canceled then w
  else
    { w with fibers := set w.fibers f { w.fibers f with schedId := nextSid cfg (w.fibers f).schedId isErr,
                                                        canceled := (w.fibers f).canceled || isErr },
             queue := w.queue ++ [{ fiber := f, value := v, isErr := isErr, expected := nextSid cfg (w.fibers f).schedId isErr,
                                    regGen := regGen, notBefore := nb, src := src, regEpoch := regEpoch }] }

/-- janet_cancel: applies to whatever the fiber currently waits for. -/
def cancel (cfg : Cfg) (w : World) (f : Nat) (v : Val) : World :=
  schedule cfg w f v true (w.fibers f).schedId w.now .cancel (w.fibers f).epoch

/-- the `do … while (!is_empty && stale)` loop: first live entry (or, without the check, simply the first entry) -/
def popLive (check : Bool) (w : World) : List Pending → Option Pending × List Pending
  | [] => (none, [])
  | e :: rest => if check && !(live w e.fiber e.schedId) then popLive check w rest else (some e, rest)

/-- janet_channel_push_with_lock for fiber `f` (mode 0 plain / 1 choice).  Returns (world, blocked). -/
def chanPush (cfg : Cfg) (w : World) (f c : Nat) (x : Val) (choice : Bool) : World × Bool :=
  match popLive cfg.pushSkipsStale w (w.chans c).rp with
  | (none, _) =>
      if ((w.chans c).items ++ [x]).length > (w.chans c).limit then
        ({ w with chans := set w.chans c { (w.chans c) with items := (w.chans c).items ++ [x], rp := [], wp := (w.chans c).wp ++ [{ fiber := f, schedId := (w.fibers f).schedId, choice := choice, epoch := (w.fibers f).epoch }] } }, true)
      else ({ w with chans := set w.chans c { (w.chans c) with items := (w.chans c).items ++ [x], rp := [] } }, false)
  | (some r, rest) =>
      (schedule cfg { w with chans := set w.chans c { (w.chans c) with rp := rest } } r.fiber
        (match x with | .kw n => (if r.choice then Val.takeR c n else x) | _ => x) false r.schedId w.now (.chanRead c) r.epoch, false)

/-- the supervisor event of the run phase: `janet_channel_push_with_lock(chan, event, 2)`, skipped when the channel is closed.
    Mode 2 = pushed by the loop itself, not by a fiber: the item is queued (or handed to the first LIVE reader), nobody is registered
    as a pending writer even if the channel is over its limit. -/
def superPush (cfg : Cfg) (w : World) (c : Nat) (x : Val) : World :=
  if (w.chans c).closed then w
  else match popLive cfg.pushSkipsStale w (w.chans c).rp with
    | (none, _) => { w with chans := set w.chans c { (w.chans c) with items := (w.chans c).items ++ [x], rp := [] } }
    | (some r, rest) =>
        schedule cfg { w with chans := set w.chans c { (w.chans c) with rp := rest } } r.fiber x false r.schedId w.now (.chanRead c) r.epoch

/-- janet_channel_has_reader -/
def hasReader (cfg : Cfg) (w : World) (c : Nat) : Bool :=
  if cfg.hasReaderChecks then (w.chans c).rp.any (fun e => live w e.fiber e.schedId) else !(w.chans c).rp.isEmpty

/-- first loop of cfun_channel_choice, give clause on an open channel: "this give completes right now" -/
def selectGiveReady (cfg : Cfg) (w : World) (c : Nat) : Bool :=
  decide ((w.chans c).items.length < (w.chans c).limit) || hasReader cfg w c

/-- the part of janet_channel_pop_with_lock after an item was obtained: wake the next pending writer -/
def chanPopWake (cfg : Cfg) (w : World) (c : Nat) (items : List Val) : World :=
  match popLive cfg.popSkipsStale w (w.chans c).wp with
  | (none, _) => { w with chans := set w.chans c { (w.chans c) with items := items, wp := [] } }
  | (some wr, rest) =>
      schedule cfg { w with chans := set w.chans c { (w.chans c) with items := items, wp := rest } } wr.fiber
        (if wr.choice then .giveR c else .chan c) false wr.schedId w.now (.chanWrite c) wr.epoch

/-- janet_channel_pop_with_lock for fiber `f` on an open channel.  Returns (world, item?) ; none = registered as reader. -/
def chanPop (cfg : Cfg) (w : World) (f c : Nat) (choice : Bool) : World × Option Val :=
  match (w.chans c).items with
  | [] => ({ w with chans := set w.chans c { (w.chans c) with rp := (w.chans c).rp ++ [{ fiber := f, schedId := (w.fibers f).schedId, choice := choice, epoch := (w.fibers f).epoch }] } }, none)
  | it :: items => (chanPopWake cfg w c items, some it)

/-- one pending entry handled by cfun_channel_close -/
def closeOne (cfg : Cfg) (c : Nat) (w : World) (e : Pending) : World :=
  if !(w.fibers e.fiber).dead && (!cfg.closeChecks || live w e.fiber e.schedId) then
    schedule cfg w e.fiber (if e.choice then .closeR c else .nil) false e.schedId w.now (.chanClose c) e.epoch
  else w

def chanClose (cfg : Cfg) (w : World) (c : Nat) : World :=
  if (w.chans c).closed then w
  else
    ((w.chans c).wp ++ (w.chans c).rp).foldl (closeOne cfg c)
      { w with chans := set w.chans c { (w.chans c) with closed := true, rp := [], wp := [] } }

/-- ts_delta in microseconds -> ms -/
def deltaMs (cfg : Cfg) (durUs : Nat) : Nat := if cfg.sleepRounds then (durUs + 500) / 1000 else durUs / 1000

def insertTimer (t : Timer) : List Timer → List Timer
  | [] => [t]
  | x :: xs => if t.when < x.when then t :: x :: xs else x :: insertTimer t xs

/-- janet_sleep_await / janet_addtimeout / cfun_ev_deadline: the timer records the CURRENT generation of `f`. -/
def addTimer (cfg : Cfg) (w : World) (f : Nat) (kind : TKind) (durUs : Nat) : World :=
  let t : Timer := { when := w.now + deltaMs cfg durUs, fiber := f, schedId := (w.fibers f).schedId, kind := kind,
                     start := w.now, durUs := durUs, epoch := (w.fibers f).epoch }
  { w with timers := insertTimer t w.timers }

/-- body of the `while (peek_timeout(&to) && to.when <= now)` loop for one popped timer -/
def fireTimer (cfg : Cfg) (w : World) (to : Timer) : World :=
  match to.kind with
  | .deadline b =>
      if !cfg.deadlineChecks || w.bodies b then
        schedule cfg w to.fiber (.err 1) true (w.fibers to.fiber).schedId to.when .deadline (w.fibers to.fiber).epoch
      else w
  | .timeout =>
      if !cfg.timerCheck || live w to.fiber to.schedId then schedule cfg w to.fiber (.err 0) true to.schedId to.when .timeout to.epoch else w
  | .sleep =>
      if !cfg.timerCheck || live w to.fiber to.schedId then schedule cfg w to.fiber .nil false to.schedId to.when (.sleep to.start to.durUs) to.epoch else w

def timerPhase (cfg : Cfg) (w : World) : Nat → World
  | 0 => w
  | fuel + 1 =>
    match w.timers with
    | [] => w
    | to :: rest => if to.when ≤ w.now then timerPhase cfg (fireTimer cfg { w with timers := rest } to) fuel else w

/-- janet_async_end -/
def asyncEnd (w : World) (f : Nat) : World :=
  match (w.fibers f).listener with
  | none => w
  | some (s, _) =>
      let st := w.streams s
      let st := { st with readFiber := if st.readFiber = some f then none else st.readFiber,
                          writeFiber := if st.writeFiber = some f then none else st.writeFiber }
      { w with streams := set w.streams s st, fibers := set w.fibers f { w.fibers f with listener := none } }

/-- janet_async_start_fiber -/
def asyncStart (w : World) (f s : Nat) (isRead : Bool) : World :=
  let st := w.streams s
  let st := if isRead then { st with readFiber := some f } else { st with writeFiber := some f }
  { w with streams := set w.streams s st, fibers := set w.fibers f { w.fibers f with listener := some (s, isRead), listenEpoch := (w.fibers f).epoch } }

/-- the kernel reports readiness on stream `s` and the callback of the registered fiber completes with value `v`
    (`rf && rf->ev_callback`: the stream must point at a fiber that still listens on this stream) -/
def streamEvent (cfg : Cfg) (w : World) (s : Nat) (isRead : Bool) (v : Val) (isErr : Bool) : World :=
  let st := w.streams s
  match (if isRead then st.readFiber else st.writeFiber) with
  | none => w
  | some f =>
      match (w.fibers f).listener with
      | none => w
      | some (s', _) =>
          if s' = s then asyncEnd (schedule cfg w f v isErr (w.fibers f).schedId w.now (.stream s) (w.fibers f).listenEpoch) f else w

/-- os_proc_wait_impl: remember (fiber, sched_id) in the threaded call -/
def procWait (w : World) (f k : Nat) : World :=
  { w with procs := set w.procs k (some (f, (w.fibers f).schedId)), procEpoch := set w.procEpoch k (w.fibers f).epoch }

/-- the error janet_proc_wait_cb raises for a non-zero exit status of a process spawned with :x -/
def procErrVal (status : Nat) : Val := .err (1000 + status)

/-- janet_proc_wait_cb: `if (can_resume(fiber) && fiber->sched_id == sched_id) { if (status != 0 && ERROR_NONZERO) janet_cancel(..)
    else janet_schedule(..) }` — one guard flag per branch, so that a restructured guard is followed faithfully -/
def procExit (cfg : Cfg) (w : World) (k status : Nat) : World :=
  match w.procs k with
  | none => w
  | some (f, g) =>
      let w1 := { w with procs := set w.procs k none }
      if !(w.fibers f).dead then
        if status != 0 && w.procX k then
          (if !cfg.procErrCheck || live w f g then schedule cfg w1 f (procErrVal status) true g w.now (.proc k) (w.procEpoch k) else w1)
        else
          (if !cfg.procCheck || live w f g then schedule cfg w1 f (.int status) false g w.now (.proc k) (w.procEpoch k) else w1)
      else w1

/-- janet_ev_threaded_await (os/shell, ev/thread, ev/do-thread): the message carries (fiber, generation) -/
def thrWait (w : World) (f k : Nat) : World :=
  { w with thr := set w.thr k (some (f, (w.fibers f).schedId)), thrEpoch := set w.thrEpoch k (w.fibers f).epoch }

/-- janet_ev_default_threaded_callback: the worker thread's result `v` (error tags: `isErr`) arrives through the self pipe -/
def thrDone (cfg : Cfg) (w : World) (k : Nat) (v : Val) (isErr : Bool) : World :=
  match w.thr k with
  | none => w
  | some (f, g) =>
      let w1 := { w with thr := set w.thr k none }
      if !(w.fibers f).dead && (!cfg.threadCheck || live w f g) then schedule cfg w1 f v isErr g w.now (.thread k) (w.thrEpoch k) else w1

/-- run phase of janet_loop1 for one task: clear flags, stale filter, janet_fiber_did_resume, log. -/
def runTask (cfg : Cfg) (w : World) : World :=
  match w.queue with
  | [] => w
  | t :: q =>
      let fb := w.fibers t.fiber
      let w1 := { w with queue := q, fibers := set w.fibers t.fiber { fb with canceled := false } }
      if cfg.runFilter && t.expected != fb.schedId then w1
      else
        -- the task is executed: `task.fiber->sched_id++` (everything registered before this resume goes stale), ghost epoch + 1
        let fb1 : Fiber := { fb with canceled := false, epoch := fb.epoch + 1,
                                     schedId := (if cfg.resumeBumps then fb.schedId + 1 else fb.schedId) }
        let w1 := { w with queue := q, fibers := set w.fibers t.fiber fb1 }
        -- janet_continue_no_check: janet_fiber_did_resume(fiber) at the top; if it came only after the `if (fiber->child)` block
        -- it would be skipped whenever the child chain suspends again instead of returning into this fiber
        let w2 := if cfg.didResumeDetaches && (cfg.didResumeFirst || fb.depth == 0) then asyncEnd w1 t.fiber else w1
        { w2 with log := { tick := w.now, fiber := t.fiber, schedIdAtRun := fb.schedId, task := t, epochAtRun := fb.epoch } :: w2.log }

/-- Everything that can happen: actions of (any) fiber, of the kernel, of the clock, and the phases of the loop. -/
inductive Op where
  | spawn (f : Nat)
  | give (f c : Nat) (x : Val) (choice : Bool)
  | take (f c : Nat) (choice : Bool)
  | close (c : Nat)
  | cancel (f : Nat) (v : Val)
  | sleep (f durUs : Nat)
  | timeout (f durUs : Nat)
  | deadline (f body durUs : Nat)
  | bodyStart (b : Nat)
  | bodyDone (b : Nat)
  | fiberDead (f : Nat)
  | asyncStart (f s : Nat) (isRead : Bool)
  | streamEvent (s : Nat) (isRead : Bool) (v : Val) (isErr : Bool)
  | procWait (f k : Nat)
  | procExit (k status : Nat)
  | procFlag (k : Nat) (x : Bool)
  | thrWait (f k : Nat)
  | thrDone (k : Nat) (v : Val) (isErr : Bool)
  | superPush (c : Nat) (x : Val)
  | childEnter (f : Nat)
  | childLeave (f : Nat)
  | advance (dt : Nat)
  | timers
  | run
  deriving Repr

def step (cfg : Cfg) (w : World) : Op → World
  | .spawn f => schedule cfg w f .nil false (w.fibers f).schedId w.now .spawn (w.fibers f).epoch
  | .give f c x ch => if (w.chans c).closed then w else (chanPush cfg w f c x ch).1
  | .take f c ch =>
      if (w.chans c).closed then (if ch then w else schedule cfg w f .nil false (w.fibers f).schedId w.now .self (w.fibers f).epoch)
      else match chanPop cfg w f c ch with
        | (w1, some it) => if ch then w1 else schedule cfg w1 f it false (w1.fibers f).schedId w.now .self (w1.fibers f).epoch
        | (w1, none) => w1
  | .close c => chanClose cfg w c
  | .cancel f v => cancel cfg w f v
  | .sleep f d => addTimer cfg w f .sleep d
  | .timeout f d => addTimer cfg w f .timeout d
  | .deadline f b d => addTimer cfg w f (.deadline b) d
  -- a finished fiber never becomes resumable again: status monotonicity of fibers, proved for the fiber model in
  -- Props/C05 (`status_monotone`, `finished_is_forever`); here it is part of the transition relation
  | .bodyStart b => if w.bodyDead b then w else { w with bodies := set w.bodies b true }
  | .bodyDone b => { w with bodies := set w.bodies b false, bodyDead := set w.bodyDead b true }
  | .fiberDead f => { w with fibers := set w.fibers f { w.fibers f with dead := true } }
  | .asyncStart f s r => asyncStart w f s r
  | .streamEvent s r v e => streamEvent cfg w s r v e
  | .procWait f k => procWait w f k
  | .procExit k st => procExit cfg w k st
  | .procFlag k x => { w with procX := set w.procX k x }
  | .thrWait f k => thrWait w f k
  | .thrDone k v e => thrDone cfg w k v e
  | .superPush c x => superPush cfg w c x
  -- the root fiber `f` starts / finishes a child fiber that encloses several of its waits
  | .childEnter f => { w with fibers := set w.fibers f { w.fibers f with depth := (w.fibers f).depth + 1 } }
  | .childLeave f =>
      let w1 := { w with fibers := set w.fibers f { w.fibers f with depth := (w.fibers f).depth - 1 } }
      -- control is back in the root fiber's own frame: a did_resume placed after the child block runs now
      if (w.fibers f).depth - 1 == 0 && cfg.didResumeDetaches && !cfg.didResumeFirst then asyncEnd w1 f else w1
  | .advance dt => { w with now := w.now + dt }
  | .timers => timerPhase cfg w (w.timers.length + 1)
  | .run => runTask cfg w

def run (cfg : Cfg) (w : World) (ops : List Op) : World := ops.foldl (step cfg) w

def init : World := {}

end JanetModel.Wait
