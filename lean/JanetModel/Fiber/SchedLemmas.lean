/- C05 — the cleanup theorems extended to executions in which the event loop re-enters fibers (ev/go, wake-ups) and
   cancels them (ev/cancel, timeouts: janet_cancel → janet_continue_signal); lemma file, no Mathlib. -/
import JanetModel.Fiber.Sched
import JanetModel.Fiber.Cleanup
namespace JanetModel.Fiber
open JanetModel.Gen.Fiber

theorem fiber?_idle (s : State) (g : FId) : ({ s with halt := none, stack := [] } : State).fiber? g = s.fiber? g := rfl

/-- a task dispatch keeps the machine invariant and moves statuses forward -/
theorem loopEnter_res (s : State) (hinv : Inv s) (g : FId) (v : Val) (sig : Nat) (hsig : sig < stNew) : Res s (loopEnter s g v sig) := by
  unfold loopEnter
  split
  · have hm0 : Mono s { s with halt := none, stack := [] } := Mono.of_fibers_eq rfl
    have hp0 : PendOK ({ s with halt := none, stack := [] } : State) := hinv.1.of_fibers_eq rfl
    have hs0 : StackOK ({ s with halt := none, stack := [] } : State) [] := ⟨List.nodup_nil, fun _ h => by cases h⟩
    simp only []
    split
    · exact ⟨Mono.refl s, hinv⟩
    · rename_i fg hg
      split
      · exact ⟨Mono.of_fibers_eq rfl, hinv.1.of_fibers_eq rfl, fun h => by cases h⟩
      · rename_i hnr
        have hnr' : refuseResume.contains fg.status = false := by simpa using hnr
        split
        · exact Res.trans hm0 (contNoCheck_res _ _ _ _ _ hp0 hs0 (fun cur hc => by rw [hg] at hc; cases hc; exact hnr'))
        · split
          · exact ⟨Mono.of_fibers_eq rfl, hinv.1.of_fibers_eq rfl, fun h => by cases h⟩
          · split
            · exact Res.trans hm0 (Res.stop _ hp0 _)
            · rename_i d hd
              split
              · exact Res.trans hm0 (Res.stop _ hp0 _)
              · rename_i fd hfd
                have hm1 : Mono ({ s with halt := none, stack := [] } : State) (({ s with halt := none, stack := [] } : State).setFiber d { fd with pending := some sig }) :=
                  Mono.setFiber _ hfd (Fwd.refl _) rfl
                refine Res.trans (hm0.trans hm1) (contNoCheck_res _ _ _ _ _ (hp0.setFiber d _ ?_) (hs0.setFiber_notin d _ (by simp)) ?_)
                · intro sg h
                  have : sig = sg := by simpa using h
                  exact this ▸ hsig
                · intro cur hc
                  by_cases hgd : g = d
                  · subst hgd
                    rw [fiber?_setFiber_eq _ hfd] at hc; cases hc
                    rw [hg] at hfd; cases hfd; exact hnr'
                  · rw [fiber?_setFiber_ne _ _ _ _ hgd, hg] at hc; cases hc; exact hnr'
  · exact ⟨Mono.refl s, hinv⟩

section
variable {m : Nat} {p f : FId} {cont : Cont}

theorem Blk.of_fibers_eq {s s' : State} {stk : List FId} (h : ∀ g, s'.fiber? g = s.fiber? g) (hb : Blk m p f cont s stk) :
    Blk m p f cont s' stk := by
  obtain ⟨hp, hf, hsh⟩ := hb
  refine ⟨by rw [h]; exact hp, by rw [h]; exact hf, ?_⟩
  rcases hsh with ⟨h1, h2, h3, h4⟩ | hon
  · exact Or.inl ⟨h1, h2, by rw [h]; exact h3, by rw [h]; exact h4⟩
  · exact Or.inr hon

/-- ★ a task dispatch by the event loop — a plain continue (ev/go, a wake-up) or a cancellation (ev/cancel, a timeout:
    janet_continue_signal with JANET_SIGNAL_ERROR) — of any fiber but the macro's private body fiber, while `p` is blocked
    on `f`: halted-stuck, or `f` exited and the cleanup is what `p` runs / the signal passed `p` by, or still blocked with
    `f` not exited.  In particular a cancellation that reaches the body fiber through the child chain makes it exit with
    the injected error, which (masks :ti, :ie) is handed to `p`: the cleanup runs. -/
theorem loopEnter_G (hm : AccFin m) (s : State) (hinv : Inv s) (hne : p ≠ f) (hb : Blk m p f cont s s.stack) (ho : Only p f s)
    (g : FId) (v : Val) (sig : Nat) (hgf : g ≠ f) (hsig : sig < stNew)
    (hC : sig ≠ sigOk → cancelTarget { s with halt := none, stack := [] } g ≠ some p) :
    G m p f cont (loopEnter s g v sig) := by
  unfold loopEnter
  split
  · rename_i hh hstk
    rw [hstk] at hb
    have hp0 : PendOK ({ s with halt := none, stack := [] } : State) := hinv.1.of_fibers_eq rfl
    have hs0 : StackOK ({ s with halt := none, stack := [] } : State) [] := ⟨List.nodup_nil, fun _ h => by cases h⟩
    have hb0 : Blk m p f cont ({ s with halt := none, stack := [] } : State) [] := hb.of_fibers_eq (fun _ => rfl)
    have hoff : Off p f ({ s with halt := none, stack := [] } : State) [] := by
      rcases hb0.2.2 with h | ⟨pre, post, h⟩
      · exact h
      · cases pre <;> cases h
    have ho0 : Only p f ({ s with halt := none, stack := [] } : State) := ho
    simp only []
    split
    · exact Or.inr (Or.inr (hstk ▸ hb))
    · rename_i fg hg
      split
      · exact Or.inr (Or.inr (show Blk m p f cont _ s.stack from hstk ▸ hb.of_fibers_eq (fun _ => rfl)))
      · rename_i hnr
        have hnr' : refuseResume.contains fg.status = false := by simpa using hnr
        split
        · exact contNoCheck_G hm _ _ _ _ _ hp0 hs0 ho0 hne hb0.1 hb0.2.1 (fun cur hc => by rw [hg] at hc; cases hc; exact hnr') (Or.inl ⟨hoff, hgf⟩)
        · rename_i hso
          split
          · exact Or.inr (Or.inr (show Blk m p f cont _ s.stack from hstk ▸ hb.of_fibers_eq (fun _ => rfl)))
          · split
            · exact Or.inl (stuck_stop _ _ rfl)
            · rename_i d hd
              split
              · exact Or.inl (stuck_stop _ _ rfl)
              · rename_i fd hfd
                have hdp : p ≠ d := fun h => hC hso (h ▸ hd)
                obtain ⟨k1, k2, k3, k4⟩ := pre_setFiber (cont := cont) (m := m) { fd with pending := some sig } hfd hdp rfl rfl rfl (Or.inl rfl) hb0.1 hb0.2.1 ho0
                refine contNoCheck_G hm _ _ _ _ _ (hp0.setFiber d _ ?_) (hs0.setFiber_notin d _ (by simp)) k3 hne k1 k2 ?_ (Or.inl ⟨k4 _ hoff, hgf⟩)
                · intro sg h
                  have : sig = sg := by simpa using h
                  exact this ▸ hsig
                · intro cur hc
                  by_cases hgd : g = d
                  · subst hgd
                    rw [fiber?_setFiber_eq _ hfd] at hc; cases hc
                    rw [hg] at hfd; cases hfd; exact hnr'
                  · rw [fiber?_setFiber_ne _ _ _ _ hgd, hg] at hc; cases hc; exact hnr'
  · exact Or.inr (Or.inr hb)

/-- privacy of the body fiber with respect to one transition: `Priv` for an instruction; for a task dispatch: nobody but `p`
    links to `f`, the task is not `f` itself, and a cancellation's walk does not end on `p` -/
def PrivT (p f : FId) (s : State) : Trans → Prop
  | .step => Priv p f s
  | .enter g _ sig => Only p f s ∧ g ≠ f ∧ sig < stNew ∧ (sig ≠ sigOk → cancelTarget { s with halt := none, stack := [] } g ≠ some p)

/-- the signals the loop injects are real signals -/
def SigsOK : List Trans → Prop
  | [] => True
  | .step :: ts => SigsOK ts
  | .enter _ _ sig :: ts => sig < stNew ∧ SigsOK ts

theorem trans_res (s : State) (hinv : Inv s) : ∀ (t : Trans), SigsOK [t] → Res s (trans s t)
  | .step, _ => step_res s hinv
  | .enter g v sig, h => loopEnter_res s hinv g v sig h.1

theorem runT_res : ∀ (ts : List Trans) (s : State), Inv s → SigsOK ts → Res s (runT s ts)
  | [], s, hinv, _ => ⟨Mono.refl s, hinv⟩
  | .step :: ts, s, hinv, h => by
    have h1 := step_res s hinv
    exact Res.trans h1.1 (runT_res ts _ h1.2 h)
  | .enter g v sig :: ts, s, hinv, h => by
    have h1 := loopEnter_res s hinv g v sig h.1
    exact Res.trans h1.1 (runT_res ts _ h1.2 h.2)

theorem trans_G (hm : AccFin m) (s : State) (hinv : Inv s) (hne : p ≠ f) (hb : Blk m p f cont s s.stack) :
    ∀ (t : Trans), PrivT p f s t → G m p f cont (trans s t)
  | .step, h => step_G hm s hinv hne hb h
  | .enter g v sig, h => loopEnter_G hm s hinv hne hb h.1 g v sig h.2.1 h.2.2.1 h.2.2.2

theorem privT_sigsOK {s : State} : ∀ {t : Trans}, PrivT p f s t → SigsOK [t]
  | .step, _ => trivial
  | .enter _ _ _, h => ⟨h.2.2.1, trivial⟩

/-- ★ composition over whole executions WITH the event loop: any sequence of machine steps and task dispatches -/
theorem blocked_until_exit_sched (hm : AccFin m) : ∀ (ts : List Trans) (s : State), Inv s → p ≠ f → Blk m p f cont s s.stack →
    (∀ k (hk : k < ts.length), PrivT p f (runT s (ts.take k)) ts[k]) →
    Blk m p f cont (runT s ts) (runT s ts).stack ∨
    ∃ k, 0 < k ∧ k ≤ ts.length ∧ (∀ j, j < k → Blk m p f cont (runT s (ts.take j)) (runT s (ts.take j)).stack) ∧
      (Stuck (runT s (ts.take k)) ∨ Exited p f cont (runT s (ts.take k)) ∨ Passed m p f cont (runT s (ts.take k))) := by
  intro ts
  induction ts with
  | nil => intro s _ _ hb _; exact Or.inl hb
  | cons t ts ih =>
    intro s hinv hne hb hpriv
    have hp0 : PrivT p f s t := hpriv 0 (by simp)
    have first : ∀ j, j < 1 → Blk m p f cont (runT s ((t :: ts).take j)) (runT s ((t :: ts).take j)).stack := by
      intro j hj
      have : j = 0 := by omega
      subst this; exact hb
    rcases trans_G hm s hinv hne hb t hp0 with hst | hdone | hblk
    · exact Or.inr ⟨1, by omega, by simp, first, Or.inl hst⟩
    · exact Or.inr ⟨1, by omega, by simp, first, Or.inr hdone⟩
    · have hinv' := (trans_res s hinv t (privT_sigsOK hp0)).2
      have hpriv' : ∀ k (hk : k < ts.length), PrivT p f (runT (trans s t) (ts.take k)) ts[k] := by
        intro k hk
        have := hpriv (k + 1) (by simp; omega)
        simpa [runT] using this
      rcases ih (trans s t) hinv' hne hblk hpriv' with hl | ⟨k, hk0, hk, hbefore, hat⟩
      · exact Or.inl hl
      · refine Or.inr ⟨k + 1, by omega, by simp; omega, ?_, by simpa [runT] using hat⟩
        intro j hj
        cases j with
        | zero => exact hb
        | succ j => simpa [runT] using hbefore j (by omega)

end
end JanetModel.Fiber
