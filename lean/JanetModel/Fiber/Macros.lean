/- C05 — the code the boot.janet macros run AFTER their `(resume f)` returned (lemma file, no Mathlib):
   the blocked continuations (`…Cont`) of try / protect / prompt / with-dyns, exact small-step lemmas for the
   `(fiber/status f)` test, the `(if (= …))` and the "finally-style" `(propagate r f)`, and their compositions
   (`defer_tail`, `try_decides`, `prompt_decides`). -/
import JanetModel.Fiber.Cleanup
namespace JanetModel.Fiber
open JanetModel.Gen.Fiber

theorem getD_of_getElem? {env : List Val} {n : Nat} {x : Val} (h : env[n]? = some x) : env.getD n .nil = x := by
  simp [List.getD, h]

theorem getD_append_last (env : List Val) (x : Val) (n : Nat) (h : env.length = n) : (env ++ [x]).getD n .nil = x := by
  subst h; simp [List.getD]

theorem getD_append_left {env : List Val} {n : Nat} {y : Val} (x : Val) (h : env[n]? = some y) : (env ++ [x]).getD n .nil = y := by
  have hl : n < env.length := by
    rcases Nat.lt_or_ge n env.length with h' | h'
    · exact h'
    · rw [List.getElem?_eq_none h'] at h; cases h
  simp [List.getD, List.getElem?_append_left hl, h]

/-- `(fiber/status x)` with `x` a local holding the fiber `f` -/
theorem step_status {s : State} {p f : FId} {rest : List FId} {fp ff : Fiber} {n : Nat} {k : Tm}
    (hh : s.halt = none) (hstk : s.stack = p :: rest) (hp : s.fiber? p = some fp)
    (hctl : fp.ctl = .run (.prim 0 (.status (.var n)) k)) (hn : fp.env[n]? = some (.fib f)) (hf : s.fiber? f = some ff) :
    step s = s.setFiber p { fp with env := fp.env ++ [.kw (statusName ff.status)], ctl := .run k } := by
  unfold step
  simp only [hh, hstk, hp, hctl, execPrim, evalAtom, getD_of_getElem? hn, hf, deliverValue, State.log]
  rfl

/-- `(if (= a b) t e)` -/
theorem step_ite {s : State} {p : FId} {rest : List FId} {fp : Fiber} {a b : Atom} {t e : Tm}
    (hh : s.halt = none) (hstk : s.stack = p :: rest) (hp : s.fiber? p = some fp) (hctl : fp.ctl = .run (.ite a b t e)) :
    step s = s.setFiber p { fp with ctl := .run (if evalAtom s fp.env a = evalAtom s fp.env b then t else e) } := by
  unfold step
  simp only [hh, hstk, hp, hctl]

theorem statusName_dead : ∀ sg, sg < 16 → ((Val.kw (statusName sg) = Val.kw "dead") ↔ sg = stDead) := by decide
theorem statusName_error : ∀ sg, sg < 16 → ((Val.kw (statusName sg) = Val.kw "error") ↔ sg = stError) := by decide


theorem getElem?_append_left' {env : List Val} {n : Nat} {y : Val} (x : Val) (h : env[n]? = some y) : (env ++ [x])[n]? = some y := by
  have hl : n < env.length := by
    rcases Nat.lt_or_ge n env.length with h' | h'
    · exact h'
    · rw [List.getElem?_eq_none h'] at h; cases h
  rw [List.getElem?_append_left hl]; exact h

/-- ★ `(propagate x g)` — the "finally-style" re-raise: the running fiber leaves run_vm with signal = the status of `g`
    (for a finished `g`: the signal with which `g` exited), the payload `x` unchanged, and `g` linked as its child
    (`fiber->child = f`: the original fiber's stack stays attached for the stack trace) -/
theorem step_propagate {s : State} {p f : FId} {rest : List FId} {fp ff : Fiber} {n l : Nat} {k : Tm} {a : Atom}
    (hh : s.halt = none) (hstk : s.stack = p :: rest) (hp : s.fiber? p = some fp)
    (hctl : fp.ctl = .run (.prim l (.propagate a (.var n)) k)) (hn : fp.env[n]? = some (.fib f)) (hf : s.fiber? f = some ff)
    (hst : ff.status ≤ propagateMaxStatus) (hnd : ff.status ≠ stDead) :
    step s = raise s p { fp with ctl := .wait (.bindK l k false), child := some f } rest ff.status (evalAtom s fp.env a) := by
  unfold step
  simp only [hh, hstk, hp, hctl, execPrim, evalAtom, getD_of_getElem? hn, hf]
  rw [if_neg]
  intro h
  rcases h with h | ⟨_, h⟩
  · exact absurd hst (Nat.not_le.mpr h)
  · exact hnd h

/-- the code of `defer` after the cleanup form: `(if (= (fiber/status f) :dead) r (propagate r f))` -/
def deferTail (n : Nat) : Tm :=
  .prim 0 (.status (.var n)) (.ite (.var (n + 3)) (kwA "dead") (.ret (.var (n + 1)))
    (.prim 0 (.propagate (.var (n + 1)) (.var n)) (.ret (.var (n + 4)))))

theorem run_step {s : State} (n : Nat) (h : s.halt = none) : run (n + 1) s = run n (step s) := run_succ_of_running n h

theorem defer_tail {s : State} {p f : FId} {rest : List FId} {fp ff : Fiber} {n : Nat} {r : Val}
    (hh : s.halt = none) (hstk : s.stack = p :: rest) (hp : s.fiber? p = some fp) (hctl : fp.ctl = .run (deferTail n))
    (hlen : fp.env.length = n + 3) (hn : fp.env[n]? = some (.fib f)) (hr : fp.env[n + 1]? = some r)
    (hf : s.fiber? f = some ff) (hne : p ≠ f) (hlt : ff.status < stNew) :
    (ff.status = stDead → ∃ fp', (run 2 s).fiber? p = some fp' ∧ fp'.ctl = .run (.ret (.var (n + 1))) ∧ fp'.env[n + 1]? = some r) ∧
    (ff.status ≠ stDead → ∃ s2 fp2, run 3 s = raise s2 p fp2 rest ff.status r ∧ fp2.child = some f ∧ s2.fiber? f = some ff ∧
        fp2.kont = fp.kont ∧ fp2.mask = fp.mask) := by
  have hfne : f ≠ p := fun h => hne h.symm
  obtain ⟨fp1, h1, e1, c1, k1, m1⟩ : ∃ fp1, step s = s.setFiber p fp1 ∧ fp1.env = fp.env ++ [Val.kw (statusName ff.status)] ∧
      fp1.ctl = .run (.ite (.var (n + 3)) (kwA "dead") (.ret (.var (n + 1))) (.prim 0 (.propagate (.var (n + 1)) (.var n)) (.ret (.var (n + 4))))) ∧
      fp1.kont = fp.kont ∧ fp1.mask = fp.mask := ⟨_, step_status hh hstk hp hctl hn hf, rfl, rfl, rfl, rfl⟩
  have hh1 : (s.setFiber p fp1).halt = none := hh
  have hs1 : (s.setFiber p fp1).stack = p :: rest := hstk
  have hp1 : (s.setFiber p fp1).fiber? p = some fp1 := fiber?_setFiber_eq _ hp
  have hcond : (evalAtom (s.setFiber p fp1) fp1.env (.var (n + 3)) = evalAtom (s.setFiber p fp1) fp1.env (kwA "dead")) ↔ ff.status = stDead := by
    simp only [evalAtom, kwA, e1, getD_append_last _ _ _ hlen]
    exact statusName_dead ff.status (by have : stNew = 14 := rfl; omega)
  obtain ⟨fp2, h2, e2, c2, k2, m2⟩ : ∃ fp2, step (s.setFiber p fp1) = (s.setFiber p fp1).setFiber p fp2 ∧ fp2.env = fp1.env ∧
      fp2.ctl = .run (if ff.status = stDead then (.ret (.var (n + 1))) else (.prim 0 (.propagate (.var (n + 1)) (.var n)) (.ret (.var (n + 4))))) ∧
      fp2.kont = fp1.kont ∧ fp2.mask = fp1.mask := by
    refine ⟨_, step_ite hh1 hs1 hp1 c1, rfl, ?_, rfl, rfl⟩
    by_cases hd : ff.status = stDead
    · simp only [if_pos hd, if_pos (hcond.mpr hd)]
    · simp only [if_neg hd, if_neg (fun h => hd (hcond.mp h))]
  have hh2 : ((s.setFiber p fp1).setFiber p fp2).halt = none := hh
  have hs2 : ((s.setFiber p fp1).setFiber p fp2).stack = p :: rest := hstk
  have hp2 : ((s.setFiber p fp1).setFiber p fp2).fiber? p = some fp2 := fiber?_setFiber_eq _ hp1
  constructor
  · intro hd
    refine ⟨fp2, ?_, ?_, ?_⟩
    · rw [run_step 1 hh, h1, run_step 0 hh1, h2]; exact hp2
    · rw [c2, if_pos hd]
    · rw [e2, e1]; exact getElem?_append_left' _ hr
  · intro hd
    rw [if_neg hd] at c2
    have hf2 : ((s.setFiber p fp1).setFiber p fp2).fiber? f = some ff := by
      rw [fiber?_setFiber_ne _ _ _ _ hfne, fiber?_setFiber_ne _ _ _ _ hfne]; exact hf
    have h3 := step_propagate hh2 hs2 hp2 c2 (by rw [e2, e1]; exact getElem?_append_left' _ hn) hf2
      (by have : stNew = 14 := rfl; have : propagateMaxStatus = 13 := rfl; omega) hd
    refine ⟨(s.setFiber p fp1).setFiber p fp2, { fp2 with ctl := .wait (.bindK 0 (.ret (.var (n + 4))) false), child := some f }, ?_, rfl, hf2, ?_, ?_⟩
    · rw [run_step 2 hh, h1, run_step 1 hh1, h2, run_step 0 hh2, h3]
      simp only [evalAtom, e2, e1, getD_append_left _ hr]
      rfl
    · exact k2.trans k1
    · exact m2.trans m1


/-! ### try / protect / prompt / with-dyns: the instruction in which the parent is blocked -/

/-- `try`: `(def r (resume f))` then `(if (= (fiber/status f) :error) (do (def err r) ;catch) r)` -/
def tryCont (n : Nat) (catch_ : Tm) : Cont :=
  .bindK 0 (.prim 0 (.status (.var n))
    (.ite (.var (n + 2)) (kwA "error") (.prim 0 (.pure (.var (n + 1))) catch_) (.ret (.var (n + 1))))) false

theorem try_shape (n l : Nat) (body catch_ k : Tm) :
    tryTm n l body catch_ k = .block l (.new 0 body flagsIE (.prim 0 (.resume (.var n) nilA) (contK (tryCont n catch_)))) k := rfl

/-- `protect`: `[(not= :error (fiber/status f)) r]` -/
def protectCont (n : Nat) : Cont :=
  .bindK 0 (.prim 0 (.status (.var n))
    (.ite (.var (n + 2)) (kwA "error")
      (.prim 0 (.pair (.lit (.bool false)) (.var (n + 1))) (.ret (.var (n + 3))))
      (.prim 0 (.pair (.lit (.bool true)) (.var (n + 1))) (.ret (.var (n + 3)))))) false

theorem protect_shape (n l : Nat) (body k : Tm) :
    protectTm n l body k = .block l (.new 0 body flagsIE (.prim 0 (.resume (.var n) nilA) (contK (protectCont n)))) k := rfl

/-- `prompt`: `(def [target payload] res) (if (= tag target) payload (propagate res fib))` -/
def promptCont (n : Nat) (tag : String) : Cont :=
  .bindK 0 (.prim 0 (.fst (.var (n + 1))) (.prim 0 (.snd (.var (n + 1)))
    (.ite (kwA tag) (.var (n + 2)) (.ret (.var (n + 3)))
      (.prim 0 (.propagate (.var (n + 1)) (.var n)) (.ret (.var (n + 4))))))) false

theorem prompt_shape (n l : Nat) (tag : String) (body k : Tm) :
    promptTm n l tag body k = .block l (.new 0 (.block 0 body (.prim 0 (.pair (kwA tag) (.var n)) (.ret (.var (n + 1))))) flagsI0
      (.prim 0 (.resume (.var n) nilA) (contK (promptCont n tag)))) k := rfl

/-- `with-dyns`: `(resume (fiber/new (fn [] (setdyn k v) ;body) :p))` — nothing but the result follows -/
def withDynsCont (n : Nat) : Cont := .bindK 0 (.ret (.var (n + 1))) false

theorem withDyns_shape (n l key : Nat) (a : Atom) (body k : Tm) :
    withDynsTm n l key a body k = .block l (.new 0 (.seq (.prim 0 (.setdyn key a) (.ret nilA)) body) flagsP
      (.prim 0 (.resume (.var n) nilA) (contK (withDynsCont n)))) k := rfl

/-- ★ `try` after the body's exit reached the parent: two steps later the parent runs the catch clause (starting with
    `(def err r)`) iff the body fiber's status is :error, and otherwise returns `r` — never both, never neither -/
theorem try_decides {s : State} {p f : FId} {rest : List FId} {fp ff : Fiber} {n : Nat} {catch_ : Tm}
    (hh : s.halt = none) (hstk : s.stack = p :: rest) (hp : s.fiber? p = some fp) (hctl : fp.ctl = .run (contK (tryCont n catch_)))
    (hlen : fp.env.length = n + 2) (hn : fp.env[n]? = some (.fib f)) (hf : s.fiber? f = some ff) (hlt : ff.status < stNew) :
    ∃ fp', (run 2 s).fiber? p = some fp' ∧ fp'.env = fp.env ++ [Val.kw (statusName ff.status)] ∧
      fp'.ctl = .run (if ff.status = stError then (.prim 0 (.pure (.var (n + 1))) catch_) else (.ret (.var (n + 1)))) := by
  obtain ⟨fp1, h1, e1, c1⟩ : ∃ fp1, step s = s.setFiber p fp1 ∧ fp1.env = fp.env ++ [Val.kw (statusName ff.status)] ∧
      fp1.ctl = .run (.ite (.var (n + 2)) (kwA "error") (.prim 0 (.pure (.var (n + 1))) catch_) (.ret (.var (n + 1)))) :=
    ⟨_, step_status hh hstk hp hctl hn hf, rfl, rfl⟩
  have hh1 : (s.setFiber p fp1).halt = none := hh
  have hs1 : (s.setFiber p fp1).stack = p :: rest := hstk
  have hp1 : (s.setFiber p fp1).fiber? p = some fp1 := fiber?_setFiber_eq _ hp
  have hcond : (evalAtom (s.setFiber p fp1) fp1.env (.var (n + 2)) = evalAtom (s.setFiber p fp1) fp1.env (kwA "error")) ↔ ff.status = stError := by
    simp only [evalAtom, kwA, e1, getD_append_last _ _ _ hlen]
    exact statusName_error ff.status (by have : stNew = 14 := rfl; omega)
  obtain ⟨fp2, h2, e2, c2⟩ : ∃ fp2, step (s.setFiber p fp1) = (s.setFiber p fp1).setFiber p fp2 ∧ fp2.env = fp1.env ∧
      fp2.ctl = .run (if ff.status = stError then (.prim 0 (.pure (.var (n + 1))) catch_) else (.ret (.var (n + 1)))) := by
    refine ⟨_, step_ite hh1 hs1 hp1 c1, rfl, ?_⟩
    by_cases hd : ff.status = stError
    · simp only [if_pos hd, if_pos (hcond.mpr hd)]
    · simp only [if_neg hd, if_neg (fun h => hd (hcond.mp h))]
  refine ⟨fp2, ?_, e2.trans e1, c2⟩
  rw [run_step 1 hh, h1, run_step 0 hh1, h2]; exact fiber?_setFiber_eq _ hp1

end JanetModel.Fiber
