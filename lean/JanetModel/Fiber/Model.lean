/- C05 — executable model of janet's fiber / signal protocol (core Lean only; linked into the driver jm_c05).

   Mirrors, function by function:
     vm.c      janet_check_can_resume, janet_continue, janet_continue_no_check, janet_continue_signal,
               run_vm prologue (RESUME_SIGNAL), JOP_RESUME, JOP_CANCEL, JOP_PROPAGATE, JOP_SIGNAL, JOP_NEXT,
               janet_call (coercion of non-error signals across a C re-entry)
     capi.c    janet_signalv (coercion when `coerce_error` is set)
     value.c   janet_next_impl / janet_in on fibers
     fiber.c   cfun_fiber_new (mask letters, :i / :p environments), janet_dyn / janet_setdyn
   The C recursion  run_vm -> janet_continue -> run_vm ...  is defunctionalised into `State.stack`, the list of
   fibers whose `janet_continue_no_check` activation is live (innermost first).  A fiber on that list that is not
   the head is blocked inside a resume / cancel / next instruction (status alive) or inside the child-chain branch of
   janet_continue_no_check (status still suspended); both wait for the signal of the fiber above them, and
   `unwind` is the common "return from janet_continue + mask test" that both C sites perform.
   All numeric constants come from Gen/Fiber.lean, regenerated from the C source on every run. -/
import JanetModel.Gen.Fiber
namespace JanetModel.Fiber
open JanetModel.Gen.Fiber

abbrev FId := Nat

inductive Val where
  | nil
  | bool (b : Bool)
  | int (n : Int)
  | str (s : String)
  | kw (s : String)
  | fib (f : FId)
  | pair (a b : Val)
  | unit                -- the empty tuple ()
  | single (a : Val)    -- the 1-tuple (a)
  | estruct             -- the empty struct {}
  deriving Repr, DecidableEq, Inhabited

/-- signature shape of a fiber function: number of positional parameters (required + &opt), number of required ones,
    and the trailing collector: 0 none, 1 `& rest` (tuple), 2 `&keys` (struct) -/
structure Sig where
  arity : Nat := 0
  minArity : Nat := 0
  rest : Nat := 0
  deriving Repr, DecidableEq, Inhabited

inductive Atom where
  | lit (v : Val)
  | var (i : Nat)     -- local slot (absolute index into the frame's environment)
  | glob (i : Nat)    -- i-th fiber ever created (harness registry `G`), nil when it does not exist yet
  deriving Repr, DecidableEq, Inhabited

/-- Instructions without sub-terms. -/
inductive Prim where
  | pure (a : Atom)
  | pair (a b : Atom)
  | fst (a : Atom)
  | snd (a : Atom)
  | status (f : Atom)
  | yield (a : Atom)
  | signal (n : Nat) (a : Atom)        -- (signal n a), user signal n
  | error (a : Atom)
  | debug (a : Atom)                   -- (debug a): JOP_SIGNAL with JANET_SIGNAL_DEBUG
  | resume (f a : Atom)
  | cancel (f a : Atom)
  | propagate (a f : Atom)
  | next (f : Atom)
  | last (f : Atom)                    -- (in f 0) = fiber/last-value
  | setdyn (k : Nat) (a : Atom)
  | dyn (k : Nat)
  deriving Repr, DecidableEq, Inhabited

/-- Scripts: A-normal form; every instruction carries a label `l` (0 = silent) under which the value it produced is
    logged, and binds that value to the next free slot. -/
inductive Tm where
  | ret (a : Atom)
  | ite (a b : Atom) (t e : Tm)                          -- (if (= a b) t e)
  | prim (l : Nat) (p : Prim) (k : Tm)
  | new (l : Nat) (body : Tm) (flags : List Nat) (k : Tm)  -- (fiber/new (fn [] body) flags)
  | newp (l : Nat) (sig : Sig) (body : Tm) (flags : List Nat) (k : Tm)  -- (fiber/new (fn [params…] body) flags)
  | block (l : Nat) (t : Tm) (k : Tm)                    -- (def x (do t))
  | ccall (l : Nat) (t : Tm) (k : Tm)                    -- body run through janet_call (C re-entry)
  | each (l : Nat) (f : Atom) (body : Tm) (k : Tm)       -- (each x f body): next / in loop
  | seq (t : Tm) (k : Tm)                                -- (do t) for effect, value dropped, no slot bound
  deriving Repr, Inhabited

/-- What a blocked instruction does with the value delivered to it. -/
inductive Cont where
  | bindK (l : Nat) (k : Tm) (isNext : Bool)
  | loopK (l : Nat) (f : Atom) (body : Tm) (k : Tm)
  deriving Repr, Inhabited

def Cont.isNext : Cont → Bool
  | .bindK _ _ b => b
  | .loopK .. => true

inductive Frame where
  | blk (env : List Val) (l : Nat) (k : Tm)
  | cc (env : List Val) (l : Nat) (k : Tm)                -- entrance frame of a janet_call
  | loop (env : List Val) (l : Nat) (f : Atom) (body : Tm) (k : Tm)
  | drop (env : List Val) (k : Tm)
  deriving Repr, Inhabited

def Frame.isCC : Frame → Bool
  | .cc .. => true
  | _ => false

inductive Ctl where
  | run (t : Tm)
  | wait (c : Cont)
  deriving Repr, Inhabited

structure Fiber where
  status : Nat
  mask : Nat                    -- low bits of `flags`: bit (1 <<< sig)
  child : Option FId := none
  pending : Option Nat := none  -- JANET_FIBER_RESUME_SIGNAL + signal stored by janet_continue_signal
  ctl : Ctl
  env : List Val := []
  kont : List Frame := []
  denv : Option Nat := none     -- fiber->env (index into State.denvs)
  last : Val := .nil
  root : Bool := false          -- JANET_FIBER_FLAG_ROOT
  passThrough : Bool := false   -- this fiber's live activation sits in the child branch of janet_continue_no_check
  sig : Sig := {}               -- parameters of the fiber function (bound at the first resume)
  deriving Repr, Inhabited

structure DEnv where
  proto : Option Nat
  tbl : List (Nat × Val)
  deriving Repr, Inhabited

structure Event where
  l : Nat
  fid : FId
  v : Val
  snap : List Nat
  depth : Nat := 0     -- janet_vm.stackn at the time of the event, relative to the entry of the outermost janet_continue
  deriving Repr, Inhabited

inductive Halt where
  | done (sig : Nat) (v : Val)   -- control returned to the C caller of the outermost janet_continue
  | hang                         -- janet_continue_signal's `while (child->child)` walk does not terminate
  | unmodelled (why : String)
  | bad (why : String)           -- ill-formed machine state (never reached from `init`)
  deriving Repr, Inhabited

structure State where
  fibers : List Fiber
  denvs : List DEnv := []
  stack : List FId := []
  trace : List Event := []       -- newest first
  halt : Option Halt := none
  deriving Repr, Inhabited

/-! ### small helpers -/

def testBit (m sig : Nat) : Bool := (m / 2 ^ sig) % 2 == 1

def nameOf (xs : List String) (i : Nat) : String := xs.getD i "?"

def statusName (s : Nat) : String := nameOf statusNames s
def signalName (s : Nat) : String := nameOf signalNames s

def isFinished (s : Nat) : Bool := refuseResume.contains s && s != stAlive
def isSuspended (s : Nat) : Bool := s != stNew && s != stAlive && !isFinished s

def escStr (s : String) : String :=
  String.join (s.toList.map fun c => if c == '"' then "\\\"" else if c == '\\' then "\\\\" else String.singleton c)

/-- `%v` of janet_formatc, for the values the model uses (fibers print as `<fiber>`; the harness strips addresses). -/
def Val.descr : Val → String
  | .nil => "nil"
  | .bool b => if b then "true" else "false"
  | .int n => toString n
  | .str s => "\"" ++ escStr s ++ "\""
  | .kw s => ":" ++ s
  | .fib _ => "<fiber>"
  | .pair _ _ => "<tuple>"
  | .unit => "<tuple>"
  | .single _ => "<tuple>"
  | .estruct => "<struct>"

def State.fiber? (s : State) (f : FId) : Option Fiber := s.fibers[f]?
def State.setFiber (s : State) (f : FId) (x : Fiber) : State := { s with fibers := s.fibers.set f x }
def State.snapshot (s : State) : List Nat := s.fibers.map (·.status)
def State.stop (s : State) (h : Halt) : State := { s with halt := some h }
/-- live janet_call frames of a fiber (each one did `oldn = janet_vm.stackn++`) -/
def ccFrames (fp : Fiber) : Nat := (fp.kont.filter Frame.isCC).length

/-- janet_vm.stackn relative to its value when the outermost janet_continue was entered: every live
    janet_continue_no_check activation counts once (`state->stackn = janet_vm.stackn++` in janet_try_init when it is in
    run_vm, resp. the `janet_vm.stackn++` around `janet_continue(child)` when it is in the child branch), plus once per
    live janet_call frame.  That the C's increments / decrements / restores amount to exactly this function of the
    nesting is `counter_restored` (Fiber/Guard.lean); that the number is right is compared with the real
    `janet_vm.stackn` at every logged instruction (guard pass of checks/C05.py). -/
def depthOf (s : State) : Nat :=
  s.stack.foldl (fun n q => n + 1 + (match s.fiber? q with | some fq => ccFrames fq | none => 0)) 0

def State.log (s : State) (l : Nat) (f : FId) (v : Val) : State :=
  if l == 0 then s else { s with trace := { l := l, fid := f, v := v, snap := s.snapshot, depth := depthOf s } :: s.trace }

def evalAtom (s : State) (env : List Val) : Atom → Val
  | .lit v => v
  | .var i => env.getD i .nil
  | .glob i => if i < s.fibers.length then .fib i else .nil

def inCcall (fp : Fiber) : Bool := fp.kont.any Frame.isCC

/-- janet_call's / janet_signalv's coercion of a non-ok signal that tries to cross a C frame. -/
def coerce (sig : Nat) (v : Val) : Nat × Val :=
  if sig == sigError then (sigError, v)
  else (sigError, .str (v.descr ++ " coerced from " ++ signalName sig ++ " to error"))

/-- janet_check_can_resume: `some msg` = refused.  Root test first, then the status set. -/
def checkCanResume (fp : Fiber) (isCancel : Bool) : Option Val :=
  if fp.root then some (.str (if isCancel then "cannot cancel root fiber, use ev/cancel" else "cannot resume root fiber, use ev/go"))
  else if refuseResume.contains fp.status then some (.str ("cannot resume fiber with status :" ++ statusName fp.status))
  else none

/-- cfun_fiber_new's loop over the flag letters: (mask bits, env action of the last i/p letter seen … but every
    i/p letter has its side effect, so the actions are returned in order). -/
def maskOfFlags (flags : List Nat) : Nat :=
  flags.foldl (fun m c =>
    if 48 ≤ c ∧ c ≤ 57 then m ||| maskUserN.getD (c - 48) 0
    else match maskLetters.lookup c with
      | some b => m ||| b
      | none => m) 0

/-! ### dynamic bindings (janet_dyn / janet_setdyn over fiber->env tables with prototypes) -/

def tblPut (t : List (Nat × Val)) (k : Nat) (v : Val) : List (Nat × Val) :=
  let t' := t.filter (fun p => p.1 != k)
  if v = .nil then t' else (k, v) :: t'       -- janet_table_put with a nil value removes the key

def dynLookup (denvs : List DEnv) : Nat → Option Nat → Nat → Val
  | 0, _, _ => .nil
  | _, none, _ => .nil
  | fuel + 1, some e, k =>
    match denvs[e]? with
    | none => .nil
    | some d =>
      match d.tbl.lookup k with
      | some v => v
      | none => dynLookup denvs fuel d.proto k

/-- make sure fiber `p` has an environment table (`if (!janet_vm.fiber->env) janet_vm.fiber->env = janet_table(0)`) -/
def ensureEnv (s : State) (p : FId) (fp : Fiber) : State × Fiber × Nat :=
  match fp.denv with
  | some e => (s, fp, e)
  | none =>
    let e := s.denvs.length
    let fp' : Fiber := { fp with denv := some e }
    let s' : State := { s with denvs := s.denvs ++ [{ proto := none, tbl := [] }] }
    (s'.setFiber p fp', fp', e)

/-! ### delivery of a value to a blocked instruction, signals, unwinding -/

/-- Fiber `p` (head of the stack, status alive) gets the result `v` of the instruction it was blocked in. -/
def deliverValue (s : State) (p : FId) (fp : Fiber) (c : Cont) (v : Val) : State :=
  match c with
  | .bindK l k _ =>
    ((s.setFiber p { fp with env := fp.env ++ [v], ctl := .run k })).log l p v
  | .loopK l f body k =>
    if v = .nil then
      ((s.setFiber p { fp with env := fp.env ++ [.nil], ctl := .run k })).log l p .nil
    else
      let x := match evalAtom s fp.env f with
        | .fib g => (match s.fiber? g with | some fg => fg.last | none => .nil)
        | _ => .nil
      s.setFiber p { fp with env := fp.env ++ [x], kont := .loop fp.env l f body k :: fp.kont, ctl := .run body }

/-- The fiber `c` has just produced `(sig, v)` towards the `janet_continue` caller chain `stack` (innermost first):
    the common tail of JOP_RESUME / JOP_CANCEL / janet_next_impl / the child branch of janet_continue_no_check.
    `if (sig != JANET_SIGNAL_OK && !(child->flags & (1 << sig)))` propagate further up `else` deliver here. -/
def unwind : State → List FId → FId → Nat → Val → State
  | s, [], _, sig, v => { s with stack := [], halt := some (.done sig v) }
  | s, p :: rest, c, sig, v =>
    match s.fiber? p, s.fiber? c with
    | some fp, some fc =>
      match fp.ctl with
      | .run _ => s.stop (.bad "unwind: caller is not blocked")
      | .wait cont =>
        if sig = sigOk ∨ testBit fc.mask sig = true then
          -- caught by p (the resumer of c)
          let v' := if cont.isNext then (if nextNil.contains sig then Val.nil else Val.int 0) else v
          if fp.passThrough = false then
            -- p was inside run_vm (JOP_RESUME / JOP_CANCEL / JOP_NEXT): `fiber->child = NULL; stack[A] = retreg`
            deliverValue { s with stack := p :: rest } p { fp with child := none } cont v'
          else
            -- p was in the child branch of janet_continue_no_check: `fiber->child = NULL`, then run_vm(p, in)
            match fp.pending with
            | some sg =>
              let fp' := { fp with child := none, pending := none, status := sg, last := v', passThrough := false }
              unwind (s.setFiber p fp') rest p sg v'
            | none =>
              deliverValue { s with stack := p :: rest } p { fp with child := none, status := stAlive, passThrough := false } cont v'
        else
          -- not caught: p takes the same status; `fiber->last_value = child->last_value` resp. the payload
          let cv := if inCcall fp then coerce sig v else (sig, v)
          let lastv := if fp.passThrough = false then cv.2 else fc.last
          -- (patched tree) child branch of janet_continue_no_check: a child refused because it is alive is unlinked
          let ch := if staleChildCleared && fp.passThrough && fc.status == stAlive then none else fp.child
          unwind (s.setFiber p { fp with status := cv.1, last := lastv, child := ch, passThrough := false }) rest p cv.1 cv.2
    | _, _ => s.stop (.bad "unwind: no such fiber")

/-- The running fiber `p` (head of the stack, `rest` below it) leaves run_vm with `(sig, v)`:
    vm_return / janet_signalv / normal return; coerced to an error if a janet_call frame is live. -/
def raise (s : State) (p : FId) (fp : Fiber) (rest : List FId) (sig : Nat) (v : Val) : State :=
  if sig = sigOk ∧ inCcall fp = true then s.stop (.unmodelled "signal ok (propagate of a dead fiber) inside janet_call")
  else
    let cv := if inCcall fp then coerce sig v else (sig, v)
    unwind (s.setFiber p { fp with status := cv.1, last := cv.2 }) rest p cv.1 cv.2

def panic (s : State) (p : FId) (fp : Fiber) (rest : List FId) (msg : String) : State :=
  raise s p fp rest sigError (.str msg)

/-- Parameter slots of a fiber function at its first resume with value `v` (janet_fiber(func, …, min_arity, NULL) fills the
    positional slots with nil and the collector with () / {}; then janet_continue_no_check, for a NEW fiber and a non-nil
    `v`: `if (def->arity > 0) stack[0] = v; else if (VARARG) stack[0] = (v)`). -/
def baseParams (sg : Sig) : List Val :=
  List.replicate sg.arity Val.nil ++ (if sg.rest = 0 then [] else if sg.rest = 1 then [Val.unit] else [Val.estruct])

def firstParams (sg : Sig) (v : Val) : List Val :=
  let base := baseParams sg
  if v = .nil then base
  else if (if firstValueUsesArity then sg.arity else sg.minArity) > 0 then base.set 0 v
  else if sg.rest ≠ 0 then base.set 0 (.single v)
  else base

/-- Enter run_vm on the (childless, resumable) fiber `f` with input `v`; `stk` = callers.
    run_vm prologue: a pending RESUME_SIGNAL makes it return that signal at once with `v` as payload. -/
def startRun (s : State) (stk : List FId) (f : FId) (ff : Fiber) (v : Val) : State :=
  match ff.pending with
  | some sg => unwind (s.setFiber f { ff with pending := none, status := sg, last := v }) stk f sg v
  | none =>
    match ff.ctl with
    | .run _ =>   -- new fiber: the first value is bound to the function's parameters
      { (s.setFiber f { ff with status := stAlive, env := ff.env ++ firstParams ff.sig v }) with stack := f :: stk }
    | .wait c => deliverValue { s with stack := f :: stk } f { ff with status := stAlive } c v

/-- janet_continue_no_check(f, v), callers `stk` (the resumer is the head). -/
def contNoCheck : Nat → State → List FId → FId → Val → State
  | 0, s, _, _, _ => s.stop (.unmodelled "child chain deeper than fuel (cyclic chain -> C recursion guard)")
  | fuel + 1, s, stk, f, v =>
    match s.fiber? f with
    | none => s.stop (.bad "continue: no such fiber")
    | some ff0 =>
      match ff0.child with
      | some c =>
        -- child branch; (patched tree) the fiber is marked alive while its child runs
        let ff := { ff0 with last := .nil, passThrough := true, status := if chainAliveMarked then stAlive else ff0.status }
        let s := s.setFiber f ff
        match s.fiber? c with
        | none => s.stop (.bad "continue: no such child")
        | some fc =>
          match checkCanResume fc false with
          | some msg => unwind s (f :: stk) c sigError msg      -- janet_continue(child) refused; child untouched
          | none => contNoCheck fuel s (f :: stk) c v
      | none =>
        let ff := { ff0 with last := .nil }
        startRun (s.setFiber f ff) stk f ff v

/-- `while (child->child) child = child->child;` — none = does not terminate. -/
def deepest (s : State) : Nat → FId → Option FId
  | 0, _ => none
  | fuel + 1, f =>
    match s.fiber? f with
    | none => some f
    | some ff =>
      match ff.child with
      | none => some f
      | some c => deepest s fuel c

/-- the patched walk: stop at a child that is alive; tortoise / hare cycle break -/
def deepestGuarded (s : State) : Nat → FId → FId → Nat → FId
  | 0, child, _, _ => child
  | fuel + 1, child, slow, step =>
    match s.fiber? child with
    | none => child
    | some fc =>
      match fc.child with
      | none => child
      | some c =>
        match s.fiber? c with
        | none => child
        | some cc =>
          if cc.status = stAlive then child
          else
            let slow' := if step % 2 = 1 then (match s.fiber? slow with | some fs => fs.child.getD slow | none => slow) else slow
            if c = slow' then c else deepestGuarded s fuel c slow' (step + 1)

def chainFuel (s : State) : Nat := s.fibers.length + 2

/-- the same walk, asking whether it meets a descendant with JANET_FIBER_FLAG_ROOT (a task of the event loop that was
    linked as a child: `propagate` from it, or `ev/go` on a fiber that already was somebody's child) -/
def walkMeetsRoot (s : State) : Nat → FId → FId → Nat → Bool
  | 0, _, _, _ => false
  | fuel + 1, child, slow, step =>
    match s.fiber? child with
    | none => false
    | some fc =>
      match fc.child with
      | none => false
      | some c =>
        match s.fiber? c with
        | none => false
        | some cc =>
          if cc.status = stAlive then false
          else if cc.root then true
          else
            let slow' := if step % 2 = 1 then (match s.fiber? slow with | some fs => fs.child.getD slow | none => slow) else slow
            if c = slow' then false else walkMeetsRoot s fuel c slow' (step + 1)

/-- (patched tree) janet_continue_signal refuses with an error, before it marks anything, when its walk meets a root fiber -/
def cancelRefusedRoot (s : State) (g : FId) : Bool :=
  cancelWalkRefusesRoot && walkMeetsRoot s (3 * chainFuel s) g g 0

def cancelRootMsg : Val := .str "cannot cancel root fiber, use ev/cancel"

/-- the walk of janet_continue_signal as it is in the current tree -/
def cancelTarget (s : State) (g : FId) : Option FId :=
  if cancelWalkGuarded then some (deepestGuarded s (3 * chainFuel s) g g 0) else deepest s (chainFuel s) g

/-! ### one instruction of the running fiber -/

def execPrim (s : State) (p : FId) (fp : Fiber) (rest : List FId) (l : Nat) (pr : Prim) (k : Tm) : State :=
  let ev := evalAtom s fp.env
  let bind (s : State) (fp : Fiber) (v : Val) : State := deliverValue s p fp (.bindK l k false) v
  let block (fp : Fiber) (isNext : Bool) : Fiber := { fp with ctl := .wait (.bindK l k isNext) }
  match pr with
  | .pure a => bind s fp (ev a)
  | .pair a b => bind s fp (.pair (ev a) (ev b))
  | .fst a =>
    match ev a with
    | .pair x _ => bind s fp x
    | .str st => bind s fp (match st.toList[0]? with | some c => .int c.toNat | none => .nil)
    | .kw st => bind s fp (match st.toList[0]? with | some c => .int c.toNat | none => .nil)
    | .fib g => bind s fp (match s.fiber? g with | some fg => fg.last | none => .nil)   -- janet_getindex: fiber[0] = last_value
    | .single x => bind s fp x
    | .unit => bind s fp .nil
    | .estruct => bind s fp .nil
    | v => panic s p fp rest ("expected string, symbol, keyword, array, tuple, table, struct or buffer, got " ++ v.descr)
  | .snd a =>
    match ev a with
    | .pair _ y => bind s fp y
    | .str st => bind s fp (match st.toList[1]? with | some c => .int c.toNat | none => .nil)
    | .kw st => bind s fp (match st.toList[1]? with | some c => .int c.toNat | none => .nil)
    | .fib _ => bind s fp .nil                                                           -- fiber[i > 0] = nil
    | .single _ => bind s fp .nil
    | .unit => bind s fp .nil
    | .estruct => bind s fp .nil
    | v => panic s p fp rest ("expected string, symbol, keyword, array, tuple, table, struct or buffer, got " ++ v.descr)
  | .status f =>
    match ev f with
    | .fib g => bind s fp (match s.fiber? g with | some fg => .kw (statusName fg.status) | none => .nil)
    | _ => bind s fp (.kw "nofib")
  | .yield a => raise s p (block fp false) rest sigYield (ev a)
  | .signal n a => raise s p (block fp false) rest (userBase + (if n > userMax then userMax else n)) (ev a)
  | .error a => raise s p (block fp false) rest sigError (ev a)
  | .debug a => raise s p (block fp false) rest sigDebug (ev a)
  | .resume f a =>
    match ev f with
    | .fib g =>
      match s.fiber? g with
      | none => s.stop (.bad "resume: no such fiber")
      | some fg =>
        match checkCanResume fg false with
        | some msg => raise s p fp rest sigError msg
        | none =>
          let s := s.setFiber p { block fp false with child := some g }      -- fiber->child = child
          contNoCheck (chainFuel s) s (p :: rest) g (ev a)
    | v => panic s p fp rest ("expected fiber, got " ++ v.descr)
  | .cancel f a =>
    match ev f with
    | .fib g =>
      match s.fiber? g with
      | none => s.stop (.bad "cancel: no such fiber")
      | some fg =>
        match checkCanResume fg true with
        | some msg => raise s p fp rest sigError msg
        | none =>
          let s := s.setFiber p { block fp false with child := some g }
          -- janet_continue_signal: (patched tree) a task of the event loop in the chain is refused like a direct cancel; the
          -- refusal comes back to JOP_CANCEL as a signal of `g` (mask test of g, `g` itself untouched)
          if cancelRefusedRoot s g = true then unwind s (p :: rest) g sigError cancelRootMsg
          else
          -- mark the deepest descendant, then janet_continue_no_check
          match cancelTarget s g with
          | none => s.stop .hang
          | some d =>
            match s.fiber? d with
            | none => s.stop (.bad "cancel: no such fiber")
            | some fd =>
              let s := s.setFiber d { fd with pending := some cancelSignal }
              contNoCheck (chainFuel s) s (p :: rest) g (ev a)
    | v => panic s p fp rest ("expected fiber, got " ++ v.descr)
  | .propagate a f =>
    match ev f with
    | .fib g =>
      match s.fiber? g with
      | none => s.stop (.bad "propagate: no such fiber")
      | some fg =>
        if fg.status > propagateMaxStatus ∨ (propagateRefusesDead = true ∧ fg.status = stDead) then
          panic s p fp rest ("cannot propagate from fiber with status :" ++ statusName fg.status)
        else
          raise s p { block fp false with child := some g } rest fg.status (ev a)
    | v => panic s p fp rest ("expected fiber, got " ++ v.descr)
  | .next f =>
    match ev f with
    | .fib g =>
      match s.fiber? g with
      | none => s.stop (.bad "next: no such fiber")
      | some fg =>
        if nextSkip.contains fg.status then bind s fp .nil
        else
          let s := s.setFiber p { block fp true with child := some g }
          match checkCanResume fg false with
          | some msg => unwind s (p :: rest) g sigError msg
          | none => contNoCheck (chainFuel s) s (p :: rest) g .nil
    | v => panic s p fp rest ("expected iterable type, got " ++ v.descr)
  | .last f =>
    match ev f with
    | .fib g => bind s fp (match s.fiber? g with | some fg => fg.last | none => .nil)
    | _ => bind s fp (.kw "nofib")
  | .setdyn kk a =>
    let r := ensureEnv s p fp
    match r.1.denvs[r.2.2]? with
    | none => r.1.stop (.bad "setdyn: no such env")
    | some d =>
      let s' : State := { r.1 with denvs := r.1.denvs.set r.2.2 { d with tbl := tblPut d.tbl kk (ev a) } }
      bind s' r.2.1 (ev a)
  | .dyn kk => bind s fp (dynLookup s.denvs (s.denvs.length + 1) fp.denv kk)

/-- `fiber/new` with a flags argument: status new, mask from the letters, env by :i / :p (in letter order). -/
def newEnvStep (p : FId) (acc : State × Fiber × Option Nat) (c : Nat) : State × Fiber × Option Nat :=
  if c = letterInherit then
    let r := ensureEnv acc.1 p acc.2.1
    (r.1, r.2.1, some r.2.2)
  else if c = letterProto then
    let r := ensureEnv acc.1 p acc.2.1
    let e' := r.1.denvs.length
    ({ r.1 with denvs := r.1.denvs ++ [{ proto := some r.2.2, tbl := [] }] }, r.2.1, some e')
  else acc

def execNew (s : State) (p : FId) (fp : Fiber) (l : Nat) (body : Tm) (flags : List Nat) (k : Tm) (sg : Sig := {}) : State :=
  let g := s.fibers.length
  let r := flags.foldl (newEnvStep p) (s, fp, none)
  let nf : Fiber := { status := stNew, mask := maskOfFlags flags, ctl := .run body, env := r.2.1.env, denv := r.2.2, sig := sg }
  let s' : State := { r.1 with fibers := r.1.fibers ++ [nf] }
  deliverValue s' p r.2.1 (.bindK l k false) (.fib g)

/-- `(next f nil)` issued by the `each` loop of fiber `p`. -/
def execLoopNext (s : State) (p : FId) (fp : Fiber) (rest : List FId) (l : Nat) (f : Atom) (body : Tm) (k : Tm) : State :=
  let c := Cont.loopK l f body k
  match evalAtom s fp.env f with
  | .fib g =>
    match s.fiber? g with
    | none => s.stop (.bad "each: no such fiber")
    | some fg =>
      if nextSkip.contains fg.status then deliverValue s p fp c .nil
      else
        let s := s.setFiber p { fp with ctl := .wait c, child := some g }
        match checkCanResume fg false with
        | some msg => unwind s (p :: rest) g sigError msg
        | none => contNoCheck (chainFuel s) s (p :: rest) g .nil
  | v => panic s p { fp with ctl := .wait c } rest ("expected iterable type, got " ++ v.descr)

def step (s : State) : State :=
  match s.halt with
  | some _ => s
  | none =>
    match s.stack with
    | [] => s.stop (.bad "empty stack")
    | p :: rest =>
      match s.fiber? p with
      | none => s.stop (.bad "no such fiber")
      | some fp =>
        match fp.ctl with
        | .wait _ => s.stop (.bad "head of stack is blocked")
        | .run t =>
          match t with
          | .ret a =>
            let v := evalAtom s fp.env a
            match fp.kont with
            | [] => raise s p fp rest sigOk v
            | .blk env l k :: ks => (s.setFiber p { fp with env := env ++ [v], kont := ks, ctl := .run k }).log l p v
            | .cc env l k :: ks => (s.setFiber p { fp with env := env ++ [v], kont := ks, ctl := .run k }).log l p v
            | .loop env l f body k :: ks =>
              let fp' := { fp with env := env, kont := ks }
              execLoopNext (s.setFiber p fp') p fp' rest l f body k
            | .drop env k :: ks => s.setFiber p { fp with env := env, kont := ks, ctl := .run k }
          | .ite a b t e =>
            s.setFiber p { fp with ctl := .run (if evalAtom s fp.env a = evalAtom s fp.env b then t else e) }
          | .prim l pr k => execPrim s p fp rest l pr k
          | .new l body flags k => execNew s p fp l body flags k
          | .newp l sg body flags k =>
            -- cfun_fiber_new: `if (func->def->min_arity > 1) janet_panicf(...)`
            if sg.minArity > newMaxMinArity then panic s p fp rest "fiber function must accept 0 or 1 arguments"
            else execNew s p fp l body flags k sg
          | .block l t k => s.setFiber p { fp with kont := .blk fp.env l k :: fp.kont, ctl := .run t }
          | .ccall l t k => s.setFiber p { fp with kont := .cc fp.env l k :: fp.kont, ctl := .run t }
          | .each l f body k => execLoopNext s p fp rest l f body k
          | .seq t k => s.setFiber p { fp with kont := .drop fp.env k :: fp.kont, ctl := .run t }

def run : Nat → State → State
  | 0, s => s
  | n + 1, s => match s.halt with
    | some _ => s
    | none => run n (step s)

/-- Fiber 0 = the harness' real main fiber (root task, alive, inert); fiber 1 = the tree's main fiber, created
    `(fiber/new (fn [] t) flags)` and resumed once by fiber 0's C-level caller. -/
def initp (t : Tm) (flags : List Nat) (sg : Sig) (v : Val) : State :=
  let main : Fiber := { status := stAlive, mask := defaultMask, ctl := .wait (.bindK 0 (.ret (.lit .nil)) false), root := true, denv := some 0 }
  let top : Fiber := { status := stNew, mask := maskOfFlags flags, ctl := .run t, sig := sg }
  let s : State := { fibers := [main, top], denvs := [{ proto := none, tbl := [] }] }
  startRun s [] 1 top v

def init (t : Tm) (flags : List Nat) : State := initp t flags {} .nil

end JanetModel.Fiber
