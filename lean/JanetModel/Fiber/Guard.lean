/- C05 — the C recursion guard (`janet_vm.stackn` / JANET_RECURSION_GUARD) on top of Fiber/Model.lean (core Lean only;
   linked into the driver jm_c05).

   Mirrors  vm.c  janet_check_can_resume (the guard test and `janet_fiber_set_status(fiber, JANET_STATUS_ERROR)`, in the
            statement order of the tree: flag `guardAfterRefusals`), the guard test at the head of janet_call,
            and the five places that write janet_vm.stackn: janet_try_init / janet_restore, the `++ … --` around
            `janet_continue(child, …)` in janet_continue_no_check, `oldn = stackn++ … stackn = oldn` in janet_call.

   Two layers:
   * `stepG after lim` — the machine of Model.lean with the guard: before an instruction that calls
     janet_check_can_resume (resume, cancel, next, each) or janet_call (ccall) executes, the counter `depthOf s` is
     compared with `lim` (= JANET_RECURSION_GUARD minus the C depth at which the tree's root fiber was entered).
     A guard trip on the instruction's own target is modelled exactly (status of the target := error, refusal message
     "C stack recursed too deeply" handed to the caller the same way a status refusal is); a trip further down a suspended
     child chain (janet_continue(child) inside janet_continue_no_check) stops with `unmodelled`.
   * `runEvs / contN` — the counter discipline itself, with everything but the writes to `stackn` abstracted: explicit
     save / increment / decrement / restore, longjmp as an in-flight flag. -/
import JanetModel.Fiber.Model
namespace JanetModel.Fiber
open JanetModel.Gen.Fiber

def guardText : String := "C stack recursed too deeply"
def guardMsg : Val := .str guardText

/-- number of child links below `g` (the janet_continue(child) recursion janet_continue_no_check would perform) -/
def chainLen (s : State) : Nat → FId → Nat
  | 0, _ => 0
  | fuel + 1, g =>
    match s.fiber? g with
    | none => 0
    | some fg =>
      match fg.child with
      | none => 0
      | some c => 1 + chainLen s fuel c

/-- janet_check_can_resume including the guard test, in the statement order of the tree (`after` = the guard is tested
    after the root and status refusals).  `some (msg, true)` = refused by the guard: the C also overwrites the status of
    the refused fiber with JANET_STATUS_ERROR. -/
def checkGuarded (after : Bool) (lim n : Nat) (fp : Fiber) (isCancel : Bool) : Option (Val × Bool) :=
  if after then
    match checkCanResume fp isCancel with
    | some msg => some (msg, false)
    | none => if n ≥ lim then some (guardMsg, true) else none
  else
    if n ≥ lim then some (guardMsg, true)
    else
      match checkCanResume fp isCancel with
      | some msg => some (msg, false)
      | none => none

/-- JOP_RESUME / JOP_CANCEL at depth `d`: a refusal is a panic in the caller (`janet_panicv(retreg)`) -/
def resumeG (after : Bool) (lim : Nat) (s : State) (p : FId) (rest : List FId) (d : Nat) (tv : Val) (isCancel : Bool) : State :=
  match tv with
  | .fib g =>
    match s.fiber? g with
    | none => step s
    | some fg =>
      match checkGuarded after lim d fg isCancel with
      | some (msg, true) =>
        let s2 := s.setFiber g { fg with status := stError }
        match s2.fiber? p with
        | some fp2 => raise s2 p fp2 rest sigError msg
        | none => s2.stop (.bad "guard: no such fiber")
      | some (_, false) => step s
      | none =>
        if d + chainLen s (chainFuel s) g ≥ lim then s.stop (.unmodelled "recursion guard inside a child chain") else step s
  | _ => step s

/-- JOP_NEXT / janet_next_impl at depth `d`: `janet_continue(child, nil, &retreg)` returns the refusal as an error signal of
    the child, which then goes through the mask test like any other signal.  `s0` is the state before the instruction
    (what `step` starts from); `s`, `fp` are state and record of the running fiber as `execLoopNext` sees them. -/
def nextG (after : Bool) (lim : Nat) (s0 s : State) (p : FId) (fp : Fiber) (rest : List FId) (d : Nat) (tv : Val) (c : Cont) : State :=
  match tv with
  | .fib g =>
    match s.fiber? g with
    | none => step s0
    | some fg =>
      if nextSkip.contains fg.status then step s0
      else
        match checkGuarded after lim d fg false with
        | some (msg, true) =>
          -- `janet_vm.fiber->child = child` (the caller blocks), the refused fiber's status := error; the two writes
          -- touch different fibers unless the target is the caller itself (only possible in the old statement order)
          let s2 := s.setFiber g { fg with status := stError }
          match s2.fiber? p with
          | some fp2 => unwind (s2.setFiber p { fp2 with ctl := .wait c, child := some g, env := fp.env, kont := fp.kont }) (p :: rest) g sigError msg
          | none => s2.stop (.bad "guard: no such fiber")
        | some (_, false) => step s0
        | none =>
          if d + chainLen s (chainFuel s) g ≥ lim then s0.stop (.unmodelled "recursion guard inside a child chain") else step s0
  | _ => step s0

/-- one instruction of the guarded machine -/
def stepG (after : Bool) (lim : Nat) (s : State) : State :=
  match s.halt with
  | some _ => s
  | none =>
    match s.stack with
    | [] => step s
    | p :: rest =>
      match s.fiber? p with
      | none => step s
      | some fp =>
        match fp.ctl with
        | .wait _ => step s
        | .run t =>
          match t with
          | .prim _ (.resume f _) _ => resumeG after lim s p rest (depthOf s) (evalAtom s fp.env f) false
          | .prim _ (.cancel f _) _ => resumeG after lim s p rest (depthOf s) (evalAtom s fp.env f) true
          | .prim l (.next f) k => nextG after lim s s p fp rest (depthOf s) (evalAtom s fp.env f) (.bindK l k true)
          | .each l f body k => nextG after lim s s p fp rest (depthOf s) (evalAtom s fp.env f) (.loopK l f body k)
          | .ret _ =>
            match fp.kont with
            | .loop env l f body k :: ks =>
              let fp' := { fp with env := env, kont := ks }
              nextG after lim s (s.setFiber p fp') p fp' rest (depthOf s) (evalAtom (s.setFiber p fp') env f) (.loopK l f body k)
            | _ => step s
          | .ccall _ _ _ =>
            -- janet_call: `if (janet_vm.stackn >= JANET_RECURSION_GUARD) janet_panic("C stack recursed too deeply")`
            if depthOf s ≥ lim then panic s p fp rest guardText else step s
          | _ => step s

def runG (after : Bool) (lim : Nat) : Nat → State → State
  | 0, s => s
  | n + 1, s => match s.halt with
    | some _ => s
    | none => runG after lim n (stepG after lim s)

/-! ### the counter discipline (everything but the writes to `janet_vm.stackn` abstracted) -/

/-- what one run_vm activation does, as far as the counter is concerned -/
inductive Ev where
  | call (inner : List Ev)                  -- janet_call(fun, …): the callee's run_vm performs `inner`
  | resume (chain : Nat) (inner : List Ev)  -- janet_continue on a fiber with `chain` suspended descendants; the innermost runs `inner`
  | panic                                   -- janet_panic / janet_signalv: longjmp to the nearest janet_try

/-- janet_continue_no_check on a fiber with `chain` suspended descendants, `innerRun` = what the innermost run_vm does to
    the counter (possibly leaving it anywhere: a longjmp skips every decrement on its way).  Never left by a longjmp. -/
def contN (innerRun : Nat → Nat × Bool) : Nat → Nat → Nat
  | 0, n =>
    -- janet_try_init: `state->stackn = janet_vm.stackn++`; run_vm; janet_restore: `janet_vm.stackn = state->stackn`
    let saved := n
    let _r := innerRun (n + 1)
    saved
  | chain + 1, n =>
    -- child branch: `janet_vm.stackn++; janet_continue(child, …); janet_vm.stackn--;` then the fiber's own try / run_vm / restore
    let n1 := contN innerRun chain (n + 1)
    let n2 := n1 - 1
    let saved := n2
    saved

mutual
/-- run the events of one run_vm activation from counter value `n`: (counter afterwards, longjmp in flight) -/
def runEvs (n : Nat) : List Ev → Nat × Bool
  | [] => (n, false)
  | e :: es =>
    let r := runEv n e
    if r.2 then r else runEvs r.1 es
def runEv (n : Nat) : Ev → Nat × Bool
  | .panic => (n, true)
  | .call inner =>
    -- `int32_t oldn = janet_vm.stackn++; … run_vm … ; janet_vm.stackn = oldn;` — the last statement is skipped by a longjmp
    let oldn := n
    let r := runEvs (n + 1) inner
    if r.2 then r else (oldn, false)
  | .resume chain inner => (contN (fun m => runEvs m inner) chain n, false)
end

end JanetModel.Fiber
