/- C05 — `&named` parameters of a fiber function at its first resume (core Lean only; linked into the driver jm_c05).

   Mirrors  specials.c janetc_fn: `&named k1 … kn` compiles to a STRUCTARG | VARARG function whose extra arguments are packed
            into one struct slot (index = arity) and a prologue `(in structslot :ki)` per key — in the iteration order of the
            compiler's `named_table` (the harness reads that order from `(disasm f :constants)`);
            fiber.c  janet_fiber / janet_fiber_funcframe: the struct slot starts as `{}`;
            vm.c     janet_continue_no_check: first non-nil resume value → `stack[0] = v` when `arity > 0`, else (VARARG)
                     `stack[0] = (v)` — which for a function with ONLY named parameters replaces the struct by a tuple;
            value.c  janet_in on a struct (absent key → nil) and on a tuple (keyword key → error). -/
import JanetModel.Fiber.Model
namespace JanetModel.Fiber
open JanetModel.Gen.Fiber

/-- `(in slot :key)` for the values the struct slot can hold -/
def inKey (slot : Val) (key : String) : Except String Val :=
  match slot with
  | .estruct => .ok .nil
  | .single _ => .error ("expected integer key for tuple in range [0, 1), got :" ++ key)
  | .unit => .error ("expected integer key for tuple in range [0, 0), got :" ++ key)
  | v => .error ("expected string, symbol, keyword, array, tuple, table, struct or buffer, got " ++ v.descr)

/-- the prologue: one `in` per key, in compiled order; the first failing one raises -/
def namedPrologue (slot : Val) : List String → Except String (List Val)
  | [] => .ok []
  | k :: ks =>
    match inKey slot k with
    | .error e => .error e
    | .ok v =>
      match namedPrologue slot ks with
      | .error e => .error e
      | .ok vs => .ok (v :: vs)

/-- what `(fn [p1 … pa &named k1 … kn] …)` sees when the fiber is first resumed with `v`:
    (positional parameters, named parameters), or the error raised before the body starts -/
def firstResumeNamed (arity minArity : Nat) (keys : List String) (v : Val) : Except String (List Val × List Val) :=
  let ps := firstParams { arity := arity, minArity := minArity, rest := 2 } v
  match namedPrologue (ps.getD arity .nil) keys with
  | .error e => .error e
  | .ok ns => .ok (ps.take arity, ns)

end JanetModel.Fiber
