/- C05 — the boot.janet macros `try protect defer edefer with prompt return generate coro with-dyns`,
   written as expansions over the script language of Fiber/Model.lean (core Lean only).
   `n` is the environment depth (number of bound slots) at the point of use: the gensym'd `f`, `r`, … of the macro
   occupy slots n, n+1, … inside a `block`, whose value is bound to slot n of the surrounding code under label `l`.
   Internal instructions carry label 0 (silent) because the real macros cannot be instrumented. -/
import JanetModel.Fiber.Model
namespace JanetModel.Fiber
open JanetModel.Gen.Fiber

def flagsTI : List Nat := [116, 105]     -- :ti
def flagsIE : List Nat := [105, 101]     -- :ie
def flagsI0 : List Nat := [105, 48]      -- :i0
def flagsYI : List Nat := [121, 105]     -- :yi
def flagsP : List Nat := [112]           -- :p

def nilA : Atom := .lit .nil
def kwA (s : String) : Atom := .lit (.kw s)

/-- boot.janet `defer`:
    (do (def f (fiber/new (fn [] ;body) :ti)) (def r (resume f)) form
        (if (= (fiber/status f) :dead) r (propagate r f))) -/
def deferTm (n l : Nat) (form body k : Tm) : Tm :=
  .block l
    (.new 0 body flagsTI
    (.prim 0 (.resume (.var n) nilA)
    (.block 0 form
    (.prim 0 (.status (.var n))
    (.ite (.var (n + 3)) (kwA "dead")
      (.ret (.var (n + 1)))
      (.prim 0 (.propagate (.var (n + 1)) (.var n)) (.ret (.var (n + 4)))))))))
    k

/-- boot.janet `edefer`: … (if (= (fiber/status f) :dead) r (do form (propagate r f))) -/
def edeferTm (n l : Nat) (form body k : Tm) : Tm :=
  .block l
    (.new 0 body flagsTI
    (.prim 0 (.resume (.var n) nilA)
    (.prim 0 (.status (.var n))
    (.ite (.var (n + 2)) (kwA "dead")
      (.ret (.var (n + 1)))
      (.block 0 form
      (.prim 0 (.propagate (.var (n + 1)) (.var n)) (.ret (.var (n + 4)))))))))
    k

/-- boot.janet `try`:  (let [f (fiber/new (fn [] body) :ie) r (resume f)]
      (if (= (fiber/status f) :error) (do (def err r) ;catch) r));  `err` is slot n+3, catch starts at depth n+4 -/
def tryTm (n l : Nat) (body catch_ k : Tm) : Tm :=
  .block l
    (.new 0 body flagsIE
    (.prim 0 (.resume (.var n) nilA)
    (.prim 0 (.status (.var n))
    (.ite (.var (n + 2)) (kwA "error")
      (.prim 0 (.pure (.var (n + 1))) catch_)
      (.ret (.var (n + 1)))))))
    k

/-- boot.janet `protect`: [(not= :error (fiber/status f)) r] -/
def protectTm (n l : Nat) (body k : Tm) : Tm :=
  .block l
    (.new 0 body flagsIE
    (.prim 0 (.resume (.var n) nilA)
    (.prim 0 (.status (.var n))
    (.ite (.var (n + 2)) (kwA "error")
      (.prim 0 (.pair (.lit (.bool false)) (.var (n + 1))) (.ret (.var (n + 3))))
      (.prim 0 (.pair (.lit (.bool true)) (.var (n + 1))) (.ret (.var (n + 3))))))))
    k

/-- boot.janet `with`: (do (def x ctor) (defer (dtor x) ;body)); the destructor is `(fn [y] dtor)`, so `dtor` runs
    with y = x in slot n+3 (after x, f, r) at depth n+4. -/
def withTm (n l : Nat) (ctor : Prim) (dtor body k : Tm) : Tm :=
  .block l
    (.prim 0 ctor
    (deferTm (n + 1) 0 (.prim 0 (.pure (.var n)) dtor) body (.ret (.var (n + 1)))))
    k

/-- boot.janet `prompt`: fiber :i0 returning [tag (do ;body)]; (def [target payload] res);
    (if (= tag target) payload (propagate res fib)) -/
def promptTm (n l : Nat) (tag : String) (body k : Tm) : Tm :=
  .block l
    (.new 0 (.block 0 body (.prim 0 (.pair (kwA tag) (.var n)) (.ret (.var (n + 1))))) flagsI0
    (.prim 0 (.resume (.var n) nilA)
    (.prim 0 (.fst (.var (n + 1)))
    (.prim 0 (.snd (.var (n + 1)))
    (.ite (kwA tag) (.var (n + 2))
      (.ret (.var (n + 3)))
      (.prim 0 (.propagate (.var (n + 1)) (.var n)) (.ret (.var (n + 4)))))))))
    k

/-- boot.janet `return`: (signal 0 [to value]) -/
def returnTm (n l : Nat) (tag : String) (a : Atom) (k : Tm) : Tm :=
  .block l
    (.prim 0 (.pair (kwA tag) a) (.prim 0 (.signal 0 (.var n)) (.ret (.var (n + 1)))))
    k

/-- the loop body of `generate`, `cnt` times: (yield (do ;body)) -/
def genBody (n : Nat) (body : Tm) : Nat → Tm
  | 0 => .ret nilA
  | c + 1 => .seq (.block 0 body (.prim 0 (.yield (.var n)) (.ret nilA))) (genBody n body c)

/-- boot.janet `generate` over `:range [0 cnt]`: (fiber/new (fn [] (loop head (yield (do ;body)))) :yi) -/
def generateTm (n l cnt : Nat) (body k : Tm) : Tm := .new l (genBody n body cnt) flagsYI k

/-- boot.janet `coro` -/
def coroTm (l : Nat) (body k : Tm) : Tm := .new l body flagsYI k

/-- boot.janet `with-dyns` with one binding: (resume (fiber/new (fn [] (setdyn key a) ;body) :p)) -/
def withDynsTm (n l key : Nat) (a : Atom) (body k : Tm) : Tm :=
  .block l
    (.new 0 (.seq (.prim 0 (.setdyn key a) (.ret nilA)) body) flagsP
    (.prim 0 (.resume (.var n) nilA) (.ret (.var (n + 1)))))
    k

end JanetModel.Fiber
