/- C05 — composition of the cleanup-arrival lemma over whole executions (no Mathlib).
   `p` is blocked in the `(resume f)` of a defer / edefer / with expansion, `f` is the macro's private body fiber
   (mask :ti).  `G` = halted ∨ exited (f finished and the cleanup code is what p runs now) ∨ still blocked with f not
   finished; `step_G` shows that one machine step leads from `Blk` into `G`, whatever instruction whichever fiber
   executes, provided the body fiber stays private to the macro (`Priv`). -/
import JanetModel.Fiber.Invariant
namespace JanetModel.Fiber
open JanetModel.Gen.Fiber

def contK : Cont → Tm
  | .bindK _ k _ => k
  | .loopK _ _ _ k => k

theorem deliverValue_stack (s : State) (p : FId) (fp : Fiber) (c : Cont) (v : Val) : (deliverValue s p fp c v).stack = s.stack := by
  unfold deliverValue
  split
  · rw [log_stack]; rfl
  · split
    · rw [log_stack]; rfl
    · rfl

theorem deliverValue_halt (s : State) (p : FId) (fp : Fiber) (c : Cont) (v : Val) : (deliverValue s p fp c v).halt = s.halt := by
  unfold deliverValue
  split
  · rw [log_halt]; rfl
  · split
    · rw [log_halt]; rfl
    · rfl

def Halt.isDone : Halt → Bool
  | .done .. => true
  | _ => false

/-- the machine stopped for a reason other than control returning to the C caller of the outermost janet_continue
    (`done`): hang / unmodelled / ill-formed.  A `done` halt is NOT an escape of the cleanup theorems: the fibers keep
    their records and the event loop may re-enter them (`loopEnter`). -/
def Stuck (s : State) : Prop := ∃ h, s.halt = some h ∧ h.isDone = false

theorem stuck_stop (s : State) (h : Halt) (hd : h.isDone = false) : Stuck (s.stop h) := ⟨h, rfl, hd⟩

/-- unless `unwind` gets stuck, the activation stack it leaves is a suffix of the caller chain it was given
    (the empty suffix when control returns to the C caller: halt `done`) -/
theorem unwind_stack : ∀ (stk : List FId) (s : State) (c : FId) (sig : Nat) (v : Val),
    Stuck (unwind s stk c sig v) ∨ ∃ pre, stk = pre ++ (unwind s stk c sig v).stack := by
  intro stk
  induction stk with
  | nil => intro s c sig v; right; exact ⟨[], by simp [unwind]⟩
  | cons q rest ih =>
    intro s c sig v
    unfold unwind
    simp only []
    repeat' split
    all_goals first
      | (left; exact stuck_stop _ _ rfl)
      | (right; exact ⟨[], by rw [deliverValue_stack]; rfl⟩)
      | (rcases ih _ _ _ _ with h | ⟨pre, h⟩
         · exact Or.inl h
         · exact Or.inr ⟨q :: pre, by rw [List.cons_append, ← h]⟩)

section
variable (m : Nat) (p f : FId) (cont : Cont)

def PRec (fp : Fiber) : Prop := fp.ctl = .wait cont ∧ fp.child = some f ∧ fp.pending = none ∧ inCcall fp = false ∧ cont.isNext = false
def FRec (ff : Fiber) : Prop := ff.mask = m ∧ ff.root = false

def Off (s : State) (stk : List FId) : Prop :=
  p ∉ stk ∧ f ∉ stk ∧ (∀ fp, s.fiber? p = some fp → fp.status ≠ stAlive) ∧ (∀ ff, s.fiber? f = some ff → ff.status ≠ stAlive)

def On (stk : List FId) : Prop := ∃ pre post, stk = pre ++ f :: p :: post

/-- `p` is blocked in the macro's `(resume f)`; the private body fiber `f` has not exited -/
def Blk (s : State) (stk : List FId) : Prop :=
  (∃ fp, s.fiber? p = some fp ∧ PRec f cont fp) ∧ (∃ ff, s.fiber? f = some ff ∧ FRec m ff ∧ isFinished ff.status = false) ∧
  (Off p f s stk ∨ On p f stk)

/-- the body fiber has exited and the code after the resume — the cleanup form — is what `p` runs now -/
def Exited (s : State) : Prop :=
  (∃ ff, s.fiber? f = some ff ∧ isFinished ff.status = true) ∧
  ∃ fp rest, s.fiber? p = some fp ∧ fp.ctl = .run (contK cont) ∧ s.stack = p :: rest

/-- the body fiber has exited with a signal its mask does NOT hand to `p` (for `try`: user0-4): the signal passed `p` by;
    `p` took the same finished status, is still parked in the macro's `(resume f)` and is not on the activation stack —
    the code after the resume (catch clause / cleanup) has not run and, `p` being finished, never will -/
def Passed (s : State) : Prop :=
  ∃ ff fp, s.fiber? f = some ff ∧ s.fiber? p = some fp ∧ isFinished ff.status = true ∧ ff.status < stNew ∧
    ¬ (ff.status = sigOk ∨ testBit m ff.status = true) ∧ fp.status = ff.status ∧ fp.ctl = .wait cont ∧ p ∉ s.stack

/-- every signal the mask hands to the resumer is an exit of the body (true of :ti :ie :i0 :p, false of :yi) -/
def AccFin (m : Nat) : Prop := ∀ sig, sig < stNew → (sig = sigOk ∨ testBit m sig = true) → isFinished sig = true

def G (s : State) : Prop := Stuck s ∨ (Exited p f cont s ∨ Passed m p f cont s) ∨ Blk m p f cont s s.stack

variable {m p f cont}

/-- Case A: neither `p` nor `f` is among the callers: nothing about them changes -/
theorem unwind_A {s : State} {stk : List FId} (c : FId) (sig : Nat) (v : Val)
    (hp : ∃ fp, s.fiber? p = some fp ∧ PRec f cont fp) (hf : ∃ ff, s.fiber? f = some ff ∧ FRec m ff ∧ isFinished ff.status = false)
    (hoff : Off p f s stk) : G m p f cont (unwind s stk c sig v) := by
  obtain ⟨hpn, hfn, hpa, hfa⟩ := hoff
  rcases unwind_stack stk s c sig v with h | ⟨pre, h⟩
  · exact Or.inl h
  · refine Or.inr (Or.inr ⟨?_, ?_, Or.inl ⟨?_, ?_, ?_, ?_⟩⟩)
    · rw [unwind_other stk s c sig v p hpn]; exact hp
    · rw [unwind_other stk s c sig v f hfn]; exact hf
    · intro hm; exact hpn (h ▸ List.mem_append_right _ hm)
    · intro hm; exact hfn (h ▸ List.mem_append_right _ hm)
    · rw [unwind_other stk s c sig v p hpn]; exact hpa
    · rw [unwind_other stk s c sig v f hfn]; exact hfa

theorem accFin_TI : AccFin (maskOfFlags flagsTI) := by unfold AccFin; decide
theorem accFin_IE : AccFin (maskOfFlags flagsIE) := by unfold AccFin; decide
theorem accFin_I0 : AccFin (maskOfFlags flagsI0) := by unfold AccFin; decide
theorem accFin_P : AccFin (maskOfFlags flagsP) := by unfold AccFin; decide

/-- mask :ti — every signal that finishes the body is handed to the parent (so `Passed` cannot occur) -/
theorem rejected_unfinished : ∀ sig, sig < stNew → ¬ (sig = sigOk ∨ testBit (maskOfFlags flagsTI) sig = true) →
    isFinished sig = false := by decide

theorem lt_new_ne_alive : ∀ sig, sig < stNew → sig ≠ stAlive := by decide

theorem deliverValue_self {s : State} {q : FId} {cur : Fiber} (fq : Fiber) (l : Nat) (k : Tm) (b : Bool) (v : Val)
    (h : s.fiber? q = some cur) :
    (deliverValue s q fq (.bindK l k b) v).fiber? q = some { fq with env := fq.env ++ [v], ctl := .run k } := by
  unfold deliverValue
  rw [fiber?_log]
  exact fiber?_setFiber_eq _ h

/-- the signal that finished `f` was not handed to `p` and goes on to the callers below `p` -/
theorem unwind_passed {s2 : State} {post : List FId} {ff fp2 : Fiber} (sig : Nat) (v : Val)
    (hf2 : s2.fiber? f = some ff) (hp2 : s2.fiber? p = some fp2) (hfin : isFinished ff.status = true) (hlt : ff.status < stNew)
    (hrej : ¬ (ff.status = sigOk ∨ testBit m ff.status = true)) (hst : fp2.status = ff.status) (hw : fp2.ctl = .wait cont)
    (hpn : p ∉ post) (hfn : f ∉ post) : G m p f cont (unwind s2 post p sig v) := by
  rcases unwind_stack post s2 p sig v with hst' | ⟨pre, hpre⟩
  · exact Or.inl hst'
  · refine Or.inr (Or.inl (Or.inr ⟨ff, fp2, ?_, ?_, hfin, hlt, hrej, hst, hw, ?_⟩))
    · rw [unwind_other post _ p sig v f hfn]; exact hf2
    · rw [unwind_other post _ p sig v p hpn]; exact hp2
    · intro hmem; exact hpn (hpre ▸ List.mem_append_right _ hmem)

/-- Case C: the body fiber `f` itself hands `(sig, v)` to `p` (its status already is `sig`):
    exit signal → delivered, cleanup next; anything else → `p` stays blocked, takes the status, signal goes on -/
theorem unwind_C (hm : AccFin m) {s : State} {post : List FId} {fp ff : Fiber} (sig : Nat) (v : Val)
    (hp : s.fiber? p = some fp) (hpr : PRec f cont fp) (hf : s.fiber? f = some ff) (hfr : FRec m ff) (hst : ff.status = sig)
    (hsig : sig < stNew) (hne : p ≠ f) (hpn : p ∉ post) (hfn : f ∉ post) :
    G m p f cont (unwind s (p :: post) f sig v) := by
  obtain ⟨hw, hch, hpe, hcc, hnn⟩ := hpr
  cases cont with
  | loopK l a b k => simp [Cont.isNext] at hnn
  | bindK l k b =>
    simp only [Cont.isNext] at hnn
    subst hnn
    rw [unwind]
    simp only [hp, hf, hw]
    by_cases hacc : sig = sigOk ∨ testBit ff.mask sig = true
    · -- exit: delivered
      have hfin : isFinished ff.status = true := by rw [hst]; exact hm sig hsig (hfr.1 ▸ hacc)
      rw [if_pos hacc]
      simp only [Cont.isNext, Bool.false_eq_true, if_false, hpe]
      refine Or.inr (Or.inl (Or.inl ?_))
      have hfne : f ≠ p := fun h => hne h.symm
      split
      · refine ⟨⟨ff, by rw [deliverValue_other _ _ _ _ _ _ hfne]; exact hf, hfin⟩, _, post, deliverValue_self _ _ _ _ _ hp, rfl, ?_⟩
        rw [deliverValue_stack]
      · refine ⟨⟨ff, by rw [deliverValue_other _ _ _ _ _ _ hfne]; exact hf, hfin⟩, _, post, deliverValue_self _ _ _ _ _ hp, rfl, ?_⟩
        rw [deliverValue_stack]
    · -- not handed to p: p takes the status and the signal goes on
      have hna := lt_new_ne_alive sig hsig
      rw [if_neg hacc]
      simp only [hcc, Bool.false_eq_true, if_false]
      have hfa : (ff.status == stAlive) = false := by rw [hst]; simpa using hna
      simp only [hfa, Bool.and_false]
      by_cases hfin : isFinished sig = true
      · -- … and it finished the body (try: user0-4): `Passed`
        refine unwind_passed sig v (by rw [fiber?_setFiber_ne _ _ _ _ (fun h => hne h.symm)]; exact hf) (fiber?_setFiber_eq _ hp)
          (hst ▸ hfin) (hst ▸ hsig) ?_ hst.symm rfl hpn hfn
        rw [hst]; exact fun h => hacc (hfr.1 ▸ h)
      · -- not an exit: p keeps waiting
        have hnf : isFinished sig = false := by cases h : isFinished sig <;> simp_all
        apply unwind_A
        · exact ⟨_, fiber?_setFiber_eq _ hp, rfl, by simp [hch], hpe, hcc, rfl⟩
        · exact ⟨ff, by rw [fiber?_setFiber_ne _ _ _ _ (fun h => hne h.symm)]; exact hf, hfr, hst ▸ hnf⟩
        · refine ⟨hpn, hfn, ?_, ?_⟩
          · intro fp' h'; rw [fiber?_setFiber_eq _ hp] at h'; cases h'; exact hna
          · intro ff' h'; rw [fiber?_setFiber_ne _ _ _ _ (fun h => hne h.symm), hf] at h'; cases h'; rw [hst]; exact hna

theorem deliverValue_self_gen {s : State} {q : FId} {cur : Fiber} (fq : Fiber) (c : Cont) (v : Val) (h : s.fiber? q = some cur) :
    ∃ x, (deliverValue s q fq c v).fiber? q = some x ∧ x.status = fq.status ∧ x.mask = fq.mask ∧ x.root = fq.root := by
  unfold deliverValue
  split
  · exact ⟨_, by rw [fiber?_log]; exact fiber?_setFiber_eq _ h, by rfl, by rfl, by rfl⟩
  · split
    · exact ⟨_, by rw [fiber?_log]; exact fiber?_setFiber_eq _ h, by rfl, by rfl, by rfl⟩
    · exact ⟨_, fiber?_setFiber_eq _ h, by rfl, by rfl, by rfl⟩

/-- a value delivered to a fiber other than `p`, `f` while the stack has the shape `pre ++ f :: p :: post` -/
theorem G_deliver_other {s : State} {q : FId} (fq : Fiber) (c : Cont) (v : Val)
    (hp : ∃ fp, s.fiber? p = some fp ∧ PRec f cont fp) (hf : ∃ ff, s.fiber? f = some ff ∧ FRec m ff ∧ isFinished ff.status = false)
    (hon : On p f s.stack) (hqp : p ≠ q) (hqf : f ≠ q) : G m p f cont (deliverValue s q fq c v) := by
  refine Or.inr (Or.inr ⟨?_, ?_, Or.inr ?_⟩)
  · rw [deliverValue_other _ _ _ _ _ _ hqp]; exact hp
  · rw [deliverValue_other _ _ _ _ _ _ hqf]; exact hf
  · rw [deliverValue_stack]; exact hon

/-- a value delivered to the running body fiber `f` itself -/
theorem G_deliver_f {s : State} {cur : Fiber} (fq : Fiber) (c : Cont) (v : Val)
    (hp : ∃ fp, s.fiber? p = some fp ∧ PRec f cont fp) (hcur : s.fiber? f = some cur)
    (hfr : FRec m fq) (hnf : isFinished fq.status = false)
    (hon : On p f s.stack) (hne : p ≠ f) : G m p f cont (deliverValue s f fq c v) := by
  obtain ⟨x, hx, h1, h2, h3⟩ := deliverValue_self_gen fq c v hcur
  refine Or.inr (Or.inr ⟨?_, ⟨x, hx, ⟨h2.trans hfr.1, h3.trans hfr.2⟩, h1 ▸ hnf⟩, Or.inr ?_⟩)
  · rw [deliverValue_other _ _ _ _ _ _ hne]; exact hp
  · rw [deliverValue_stack]; exact hon

/-- Case B: the signal comes from somewhere above `f` in the stack `pre ++ f :: p :: post` (induction on `pre`) -/
theorem unwind_B (hm : AccFin m) : ∀ (pre : List FId) (s : State) (post : List FId) (c : FId) (sig : Nat) (v : Val),
    PendOK s → (∃ fp, s.fiber? p = some fp ∧ PRec f cont fp) →
    (∃ ff, s.fiber? f = some ff ∧ FRec m ff ∧ isFinished ff.status = false) →
    (pre ++ f :: p :: post).Nodup → sig < stNew →
    G m p f cont (unwind s (pre ++ f :: p :: post) c sig v) := by
  intro pre
  induction pre with
  | nil =>
    intro s post c sig v hpo hp hf hnd hsig
    obtain ⟨fp, hfp, hpr⟩ := hp
    obtain ⟨ff, hff, hfr, hnf⟩ := hf
    simp only [List.nil_append] at hnd ⊢
    have hne : p ≠ f := fun h => by subst h; simp at hnd
    have hpn : p ∉ post := (List.nodup_cons.mp (List.nodup_cons.mp hnd).2).1
    have hfn : f ∉ post := fun h => (List.nodup_cons.mp hnd).1 (List.mem_cons_of_mem _ h)
    have hp' : ∀ x, (s.setFiber f x).fiber? p = some fp :=
      fun x => by rw [fiber?_setFiber_ne _ _ _ _ hne]; exact hfp
    unfold unwind
    simp only []
    split
    · rename_i ff' fc hff' hfc
      rw [hff] at hff'; cases hff'
      split
      · exact Or.inl (stuck_stop _ _ rfl)
      · split
        · split
          · exact G_deliver_f (s := { s with stack := f :: p :: post }) _ _ _ ⟨fp, hfp, hpr⟩ hff hfr hnf ⟨[], post, rfl⟩ hne
          · split
            · rename_i sg hsg
              have hlt := hpo f ff sg hff hsg
              exact unwind_C hm sg _ (hp' _) hpr (fiber?_setFiber_eq _ hff) (by exact hfr) (by rfl) hlt hne hpn hfn
            · exact G_deliver_f (s := { s with stack := f :: p :: post }) _ _ _ ⟨fp, hfp, hpr⟩ hff (by exact hfr) alive_not_finished ⟨[], post, rfl⟩ hne
        · have hlt : (if inCcall ff = true then coerce sig v else (sig, v)).1 < stNew := by
            split
            · exact coerce_lt sig v hsig
            · exact hsig
          exact unwind_C hm _ _ (hp' _) hpr (fiber?_setFiber_eq _ hff) (by exact hfr) (by rfl) hlt hne hpn hfn
    · exact Or.inl (stuck_stop _ _ rfl)
  | cons q pre ih =>
    intro s post c sig v hpo hp hf hnd hsig
    rw [List.cons_append] at hnd ⊢
    have hq := (List.nodup_cons.mp hnd).1
    have hnd' := (List.nodup_cons.mp hnd).2
    have hqf : f ≠ q := fun h => hq (by subst h; simp)
    have hqp : p ≠ q := fun h => hq (by subst h; simp)
    have hp' : ∀ x, ∃ fp, (s.setFiber q x).fiber? p = some fp ∧ PRec f cont fp := by
      intro x; obtain ⟨fp, h1, h2⟩ := hp; exact ⟨fp, by rw [fiber?_setFiber_ne _ _ _ _ hqp]; exact h1, h2⟩
    have hf' : ∀ x, ∃ ff, (s.setFiber q x).fiber? f = some ff ∧ FRec m ff ∧ isFinished ff.status = false := by
      intro x; obtain ⟨ff, h1, h2⟩ := hf; exact ⟨ff, by rw [fiber?_setFiber_ne _ _ _ _ hqf]; exact h1, h2⟩
    unfold unwind
    simp only []
    split
    · rename_i fq fc hfq hfc
      split
      · exact Or.inl (stuck_stop _ _ rfl)
      · split
        · split
          · exact G_deliver_other (s := { s with stack := q :: (pre ++ f :: p :: post) }) _ _ _ hp hf ⟨q :: pre, post, rfl⟩ hqp hqf
          · split
            · rename_i sg hsg
              exact ih _ _ _ _ _ (hpo.setFiber q _ (by intro _ h; simp at h)) (hp' _) (hf' _) hnd' (hpo q fq sg hfq hsg)
            · exact G_deliver_other (s := { s with stack := q :: (pre ++ f :: p :: post) }) _ _ _ hp hf ⟨q :: pre, post, rfl⟩ hqp hqf
        · have hlt : (if inCcall fq = true then coerce sig v else (sig, v)).1 < stNew := by
            split
            · exact coerce_lt sig v hsig
            · exact hsig
          exact ih _ _ _ _ _ (hpo.setFiber q _ (by exact fun sg h => hpo q fq sg hfq h)) (hp' _) (hf' _) hnd' hlt
    · exact Or.inl (stuck_stop _ _ rfl)

theorem checkCanResume_eq_none {ff : Fiber} (b : Bool) (hr : ff.root = false) (hnf : isFinished ff.status = false)
    (hna : ff.status ≠ stAlive) : checkCanResume ff b = none := by
  have hc : refuseResume.contains ff.status = false := by
    unfold isFinished at hnf
    cases h : refuseResume.contains ff.status
    · rfl
    · rw [h] at hnf; simp at hnf; exact absurd hnf hna
  unfold checkCanResume
  rw [if_neg (by rw [hr]; exact Bool.false_ne_true), if_neg (by rw [hc]; exact Bool.false_ne_true)]

/-- generalisation of `G_deliver_other` to both shapes -/
theorem G_deliver_any {s : State} {q : FId} (fq : Fiber) (c : Cont) (v : Val)
    (hb : Blk m p f cont s s.stack) (hqp : p ≠ q) (hqf : f ≠ q) : G m p f cont (deliverValue s q fq c v) := by
  obtain ⟨hp, hf, hsh⟩ := hb
  refine Or.inr (Or.inr ⟨?_, ?_, ?_⟩)
  · rw [deliverValue_other _ _ _ _ _ _ hqp]; exact hp
  · rw [deliverValue_other _ _ _ _ _ _ hqf]; exact hf
  · rw [deliverValue_stack]
    rcases hsh with ⟨h1, h2, h3, h4⟩ | h
    · left; refine ⟨h1, h2, ?_, ?_⟩
      · rw [deliverValue_other _ _ _ _ _ _ hqp]; exact h3
      · rw [deliverValue_other _ _ _ _ _ _ hqf]; exact h4
    · exact Or.inr h

/-- `Only s`: no fiber but `p` has `f` as its child (the body fiber is private to the macro) -/
def Only (p f : FId) (s : State) : Prop := ∀ w fw, s.fiber? w = some fw → fw.child = some f → w = p

theorem Only.setFiber {s : State} {q : FId} {cur : Fiber} (x : Fiber) (ho : Only p f s) (h : s.fiber? q = some cur)
    (hc : x.child = cur.child) : Only p f (s.setFiber q x) := by
  intro w fw hw hcw
  by_cases hwq : w = q
  · subst hwq
    rw [fiber?_setFiber_eq _ h] at hw; cases hw
    exact ho w cur h (hc ▸ hcw)
  · rw [fiber?_setFiber_ne _ _ _ _ hwq] at hw; exact ho w fw hw hcw

/-- entering a fiber that is neither `p` nor `f` and has no child (startRun) -/
theorem startRun_G_other (hm : AccFin m) {s : State} {stk : List FId} {g : FId} {cur : Fiber} (fg : Fiber) (v : Val)
    (hcur : s.fiber? g = some cur) (hpo : PendOK s) (hpp : ∀ sg, fg.pending = some sg → sg < stNew)
    (hb : Blk m p f cont s stk) (hnd : (g :: stk).Nodup) (hgp : p ≠ g) (hgf : f ≠ g) :
    G m p f cont (startRun s stk g fg v) := by
  obtain ⟨hp, hf, hsh⟩ := hb
  have hp' : ∀ x, ∃ fp, (s.setFiber g x).fiber? p = some fp ∧ PRec f cont fp := by
    intro x; obtain ⟨fp, h1, h2⟩ := hp; exact ⟨fp, by rw [fiber?_setFiber_ne _ _ _ _ hgp]; exact h1, h2⟩
  have hf' : ∀ x, ∃ ff, (s.setFiber g x).fiber? f = some ff ∧ FRec m ff ∧ isFinished ff.status = false := by
    intro x; obtain ⟨ff, h1, h2⟩ := hf; exact ⟨ff, by rw [fiber?_setFiber_ne _ _ _ _ hgf]; exact h1, h2⟩
  have hsh' : ∀ x, Off p f (s.setFiber g x) stk ∨ On p f stk := by
    intro x
    rcases hsh with ⟨h1, h2, h3, h4⟩ | h
    · left; refine ⟨h1, h2, ?_, ?_⟩
      · rw [fiber?_setFiber_ne _ _ _ _ hgp]; exact h3
      · rw [fiber?_setFiber_ne _ _ _ _ hgf]; exact h4
    · exact Or.inr h
  have push : ∀ x, Off p f (s.setFiber g x) (g :: stk) ∨ On p f (g :: stk) := by
    intro x
    rcases hsh' x with ⟨h1, h2, h3, h4⟩ | ⟨pre, post, h⟩
    · left; exact ⟨by simp [hgp, h1], by simp [hgf, h2], h3, h4⟩
    · right; exact ⟨g :: pre, post, by rw [h]; rfl⟩
  unfold startRun
  split
  · rename_i sg hsg
    have hlt := hpp sg hsg
    rcases hsh' { fg with pending := none, status := sg, last := v } with hoff | ⟨pre, post, h⟩
    · exact unwind_A _ _ _ (hp' _) (hf' _) hoff
    · subst h
      exact unwind_B hm pre _ post _ _ _ (hpo.setFiber g _ (by intro _ h; simp at h)) (hp' _) (hf' _) (List.nodup_cons.mp hnd).2 hlt
  · split
    · exact Or.inr (Or.inr ⟨hp' _, hf' _, push _⟩)
    · refine G_deliver_any (s := { s with stack := g :: stk }) _ _ _ ⟨hp, hf, ?_⟩ hgp hgf
      rcases hsh with ⟨h1, h2, h3, h4⟩ | ⟨pre, post, h⟩
      · left; exact ⟨by simp [hgp, h1], by simp [hgf, h2], h3, h4⟩
      · right; exact ⟨g :: pre, post, by show g :: stk = _; rw [h]; rfl⟩

/-- entering the body fiber `f` itself, from `p` directly below it -/
theorem startRun_G_f (hm : AccFin m) {s : State} {post : List FId} {cur fp : Fiber} (fg : Fiber) (v : Val)
    (hcur : s.fiber? f = some cur) (hp : s.fiber? p = some fp) (hpr : PRec f cont fp) (hfr : FRec m fg)
    (hpp : ∀ sg, fg.pending = some sg → sg < stNew) (hne : p ≠ f) (hpn : p ∉ post) (hfn : f ∉ post) :
    G m p f cont (startRun s (p :: post) f fg v) := by
  have hp' : ∀ x, (s.setFiber f x).fiber? p = some fp := fun x => by rw [fiber?_setFiber_ne _ _ _ _ hne]; exact hp
  unfold startRun
  split
  · rename_i sg hsg
    exact unwind_C hm sg v (hp' _) hpr (fiber?_setFiber_eq _ hcur) (by exact hfr) (by rfl) (hpp sg hsg) hne hpn hfn
  · split
    · exact Or.inr (Or.inr ⟨⟨fp, hp' _, hpr⟩, ⟨_, fiber?_setFiber_eq _ hcur, by exact hfr, alive_not_finished⟩, Or.inr ⟨[], post, rfl⟩⟩)
    · exact G_deliver_f (s := { s with stack := f :: p :: post }) _ _ _ ⟨fp, hp, hpr⟩ hcur (by exact hfr) alive_not_finished ⟨[], post, rfl⟩ hne

/-- the three situations in which a fiber `g` is entered while `p` is blocked on `f` -/
def Ent (p f : FId) (s : State) (stk : List FId) (g : FId) : Prop :=
  (Off p f s stk ∧ g ≠ f) ∨ (∃ post, stk = p :: post ∧ g = f) ∨ (On p f stk ∧ g ≠ p ∧ g ≠ f)

theorem off_setFiber {s : State} {stk : List FId} {g : FId} (x : Fiber) (h : Off p f s stk) (hgp : p ≠ g) (hgf : f ≠ g) :
    Off p f (s.setFiber g x) stk := by
  obtain ⟨h1, h2, h3, h4⟩ := h
  refine ⟨h1, h2, ?_, ?_⟩
  · rw [fiber?_setFiber_ne _ _ _ _ hgp]; exact h3
  · rw [fiber?_setFiber_ne _ _ _ _ hgf]; exact h4

theorem off_cons {s : State} {stk : List FId} {g : FId} (h : Off p f s stk) (hgp : p ≠ g) (hgf : f ≠ g) : Off p f s (g :: stk) :=
  ⟨by simp [hgp, h.1], by simp [hgf, h.2.1], h.2.2.1, h.2.2.2⟩

theorem on_cons {stk : List FId} (g : FId) (h : On p f stk) : On p f (g :: stk) := by
  obtain ⟨pre, post, h⟩ := h; exact ⟨g :: pre, post, by rw [h]; rfl⟩

/-- janet_continue_no_check while `p` is blocked on `f`: whatever is entered, through child chains of any depth -/
theorem contNoCheck_G (hm : AccFin m) : ∀ (fuel : Nat) (s : State) (stk : List FId) (g : FId) (v : Val),
    PendOK s → StackOK s stk → Only p f s → p ≠ f →
    (∃ fp, s.fiber? p = some fp ∧ PRec f cont fp) → (∃ ff, s.fiber? f = some ff ∧ FRec m ff ∧ isFinished ff.status = false) →
    (∀ cur, s.fiber? g = some cur → refuseResume.contains cur.status = false) →
    Ent p f s stk g → G m p f cont (contNoCheck fuel s stk g v) := by
  intro fuel
  induction fuel with
  | zero => intro s stk g v _ _ _ _ _ _ _ _; simp only [contNoCheck]; exact Or.inl (stuck_stop _ _ rfl)
  | succ n ih =>
    intro s stk g v hpo hs ho hne hp hf hnr hent
    obtain ⟨fp, hfp, hpr⟩ := hp
    obtain ⟨ff, hff, hfr, hfnf⟩ := hf
    unfold contNoCheck
    split
    · exact Or.inl (stuck_stop _ _ rfl)
    · rename_i ff0 hff0
      have hnr0 := hnr ff0 hff0
      obtain ⟨hnf0, hna0⟩ := not_refused hnr0
      have hgn : g ∉ stk := not_mem_of_not_alive hs hff0 hna0
      split
      · -- child branch
        rename_i c hc
        simp only [chainAliveMarked, if_true]
        have hp1 : PendOK (s.setFiber g { ff0 with last := .nil, passThrough := true, status := stAlive }) :=
          hpo.setFiber g _ (fun sg h => hpo g ff0 sg hff0 h)
        have hs1 : StackOK (s.setFiber g { ff0 with last := .nil, passThrough := true, status := stAlive }) (g :: stk) :=
          (hs.setFiber_notin g _ hgn).cons hgn (fiber?_setFiber_eq _ hff0) rfl
        have ho1 : Only p f (s.setFiber g { ff0 with last := .nil, passThrough := true, status := stAlive }) :=
          ho.setFiber _ hff0 rfl
        rcases hent with ⟨hoff, hgf⟩ | ⟨post, hstk, hgf⟩ | ⟨hon, hgp, hgf⟩
        · by_cases hgp : g = p
          · -- p itself is re-entered: its child is f
            subst hgp
            rw [hfp] at hff0; cases hff0
            have hcf : c = f := by have := hpr.2.1; rw [hc] at this; cases this; rfl
            subst hcf
            have hfl : (s.setFiber g { fp with last := .nil, passThrough := true, status := stAlive }).fiber? c = some ff := by
              rw [fiber?_setFiber_ne _ _ _ _ (fun h => hne h.symm)]; exact hff
            simp only [hfl]
            have hchk := checkCanResume_eq_none false hfr.2 hfnf (hoff.2.2.2 ff hff)
            simp only [hchk]
            refine ih _ _ _ _ hp1 hs1 ho1 hne ⟨_, fiber?_setFiber_eq _ hfp, hpr.1, hpr.2.1, hpr.2.2.1, hpr.2.2.2.1, hpr.2.2.2.2⟩
              ⟨ff, hfl, hfr, hfnf⟩ ?_ (Or.inr (Or.inl ⟨stk, rfl, rfl⟩))
            intro cur hcur; rw [hfl] at hcur; cases hcur; exact checkCanResume_none hchk
          · have hpg : p ≠ g := fun h => hgp h.symm
            have hfg : f ≠ g := fun h => hgf h.symm
            have hcf : c ≠ f := fun h => hgp (ho g ff0 hff0 (h ▸ hc))
            have hp1' : ∃ fp', (s.setFiber g { ff0 with last := .nil, passThrough := true, status := stAlive }).fiber? p = some fp' ∧ PRec f cont fp' :=
              ⟨fp, by rw [fiber?_setFiber_ne _ _ _ _ hpg]; exact hfp, hpr⟩
            have hf1' : ∃ ff', (s.setFiber g { ff0 with last := .nil, passThrough := true, status := stAlive }).fiber? f = some ff' ∧ FRec m ff' ∧ isFinished ff'.status = false :=
              ⟨ff, by rw [fiber?_setFiber_ne _ _ _ _ hfg]; exact hff, hfr, hfnf⟩
            have hoff1 := off_cons (off_setFiber { ff0 with last := .nil, passThrough := true, status := stAlive } hoff hpg hfg) hpg hfg
            split
            · exact Or.inl (stuck_stop _ _ rfl)
            · rename_i fc hfc
              split
              · exact unwind_A _ _ _ hp1' hf1' hoff1
              · rename_i hchk
                refine ih _ _ _ _ hp1 hs1 ho1 hne hp1' hf1' ?_ (Or.inl ⟨hoff1, hcf⟩)
                intro cur hcur; rw [hfc] at hcur; cases hcur; exact checkCanResume_none hchk
        · -- the body fiber f is entered from p
          subst hgf; subst hstk
          rw [hff] at hff0; cases hff0
          obtain ⟨hsp, hpn⟩ := hs.tail
          have hfn : g ∉ post := fun h => hgn (List.mem_cons_of_mem _ h)
          have hp1' : ∃ fp', (s.setFiber g { ff with last := .nil, passThrough := true, status := stAlive }).fiber? p = some fp' ∧ PRec g cont fp' :=
            ⟨fp, by rw [fiber?_setFiber_ne _ _ _ _ hne]; exact hfp, hpr⟩
          have hf1' : ∃ ff', (s.setFiber g { ff with last := .nil, passThrough := true, status := stAlive }).fiber? g = some ff' ∧ FRec m ff' ∧ isFinished ff'.status = false :=
            ⟨_, fiber?_setFiber_eq _ hff, hfr, alive_not_finished⟩
          split
          · exact Or.inl (stuck_stop _ _ rfl)
          · rename_i fc hfc
            split
            · exact unwind_B hm [] _ post _ _ _ hp1 hp1' hf1' hs1.1 sigError_lt
            · rename_i hchk
              have hcna := (not_refused (checkCanResume_none hchk)).2
              have hcg : c ≠ g := by
                intro h; subst h; rw [fiber?_setFiber_eq _ hff] at hfc; cases hfc; exact hcna rfl
              have hcp : c ≠ p := by
                intro h; subst h
                obtain ⟨x, hx1, hx2⟩ := hs1.2 c (by simp)
                rw [hfc] at hx1; cases hx1; exact hcna hx2
              refine ih _ _ _ _ hp1 hs1 ho1 hne hp1' hf1' ?_ (Or.inr (Or.inr ⟨⟨[], post, rfl⟩, hcp, hcg⟩))
              intro cur hcur; rw [hfc] at hcur; cases hcur; exact checkCanResume_none hchk
        · -- somewhere above f
          have hpg : p ≠ g := fun h => hgp h.symm
          have hfg : f ≠ g := fun h => hgf h.symm
          have hp1' : ∃ fp', (s.setFiber g { ff0 with last := .nil, passThrough := true, status := stAlive }).fiber? p = some fp' ∧ PRec f cont fp' :=
            ⟨fp, by rw [fiber?_setFiber_ne _ _ _ _ hpg]; exact hfp, hpr⟩
          have hf1' : ∃ ff', (s.setFiber g { ff0 with last := .nil, passThrough := true, status := stAlive }).fiber? f = some ff' ∧ FRec m ff' ∧ isFinished ff'.status = false :=
            ⟨ff, by rw [fiber?_setFiber_ne _ _ _ _ hfg]; exact hff, hfr, hfnf⟩
          obtain ⟨pre, post, hstk⟩ := hon
          subst hstk
          split
          · exact Or.inl (stuck_stop _ _ rfl)
          · rename_i fc hfc
            split
            · exact unwind_B hm (g :: pre) _ post _ _ _ hp1 hp1' hf1' hs1.1 sigError_lt
            · rename_i hchk
              have hcna := (not_refused (checkCanResume_none hchk)).2
              have hmem : ∀ q, q ∈ g :: (pre ++ f :: p :: post) → c ≠ q := by
                intro q hq h; subst h
                obtain ⟨x, hx1, hx2⟩ := hs1.2 c hq
                rw [hfc] at hx1; cases hx1; exact hcna hx2
              refine ih _ _ _ _ hp1 hs1 ho1 hne hp1' hf1' ?_
                (Or.inr (Or.inr ⟨⟨g :: pre, post, rfl⟩, hmem p (by simp), hmem f (by simp)⟩))
              intro cur hcur; rw [hfc] at hcur; cases hcur; exact checkCanResume_none hchk
      · -- no child: run_vm is entered
        rename_i hc
        simp only []
        have hp2 : PendOK (s.setFiber g { ff0 with last := .nil }) := hpo.setFiber g _ (fun sg h => hpo g ff0 sg hff0 h)
        rcases hent with ⟨hoff, hgf⟩ | ⟨post, hstk, hgf⟩ | ⟨hon, hgp, hgf⟩
        · have hgp : g ≠ p := by
            intro h; subst h; rw [hfp] at hff0; cases hff0; rw [hpr.2.1] at hc; cases hc
          have hpg : p ≠ g := fun h => hgp h.symm
          have hfg : f ≠ g := fun h => hgf h.symm
          refine startRun_G_other hm _ v (fiber?_setFiber_eq _ hff0) hp2 (by exact fun sg h => hpo g ff0 sg hff0 h)
            ⟨⟨fp, by rw [fiber?_setFiber_ne _ _ _ _ hpg]; exact hfp, hpr⟩,
             ⟨ff, by rw [fiber?_setFiber_ne _ _ _ _ hfg]; exact hff, hfr, hfnf⟩,
             Or.inl (off_setFiber _ hoff hpg hfg)⟩ (List.nodup_cons.mpr ⟨hgn, hs.1⟩) hpg hfg
        · subst hgf; subst hstk
          rw [hff] at hff0; cases hff0
          obtain ⟨hsp, hpn⟩ := hs.tail
          have hfn : g ∉ post := fun h => hgn (List.mem_cons_of_mem _ h)
          exact startRun_G_f hm _ v (fiber?_setFiber_eq _ hff) (by rw [fiber?_setFiber_ne _ _ _ _ hne]; exact hfp) hpr (by exact hfr)
            (by exact fun sg h => hpo g ff sg hff h) hne hpn hfn
        · have hpg : p ≠ g := fun h => hgp h.symm
          have hfg : f ≠ g := fun h => hgf h.symm
          refine startRun_G_other hm _ v (fiber?_setFiber_eq _ hff0) hp2 (by exact fun sg h => hpo g ff0 sg hff0 h)
            ⟨⟨fp, by rw [fiber?_setFiber_ne _ _ _ _ hpg]; exact hfp, hpr⟩,
             ⟨ff, by rw [fiber?_setFiber_ne _ _ _ _ hfg]; exact hff, hfr, hfnf⟩,
             Or.inr hon⟩ (List.nodup_cons.mpr ⟨hgn, hs.1⟩) hpg hfg

theorem Only.setFiber' {s : State} {q : FId} (x : Fiber) (ho : Only p f s) (hc : x.child ≠ some f) : Only p f (s.setFiber q x) := by
  intro w fw hw hcw
  by_cases hwq : w = q
  · subst hwq
    by_cases hl : w < s.fibers.length
    · have : (s.setFiber w x).fiber? w = some x := by unfold State.setFiber State.fiber?; simp [hl]
      rw [this] at hw; cases hw; exact absurd hcw hc
    · have : (s.setFiber w x).fiber? w = none := by unfold State.setFiber State.fiber?; simp [hl]
      rw [this] at hw; cases hw
  · rw [fiber?_setFiber_ne _ _ _ _ hwq] at hw; exact ho w fw hw hcw

/-- context of one instruction while `p` is blocked on `f`: `h` is the running head of the stack -/
structure BCtx (m : Nat) (p f : FId) (cont : Cont) (s : State) (h : FId) (fh : Fiber) (rest : List FId) : Prop where
  c : Ctx s h fh rest
  blk : Blk m p f cont s (h :: rest)
  only : Only p f s
  hne : p ≠ f
  hhp : p ≠ h
  acc : AccFin m

namespace BCtx
variable {s : State} {h : FId} {fh : Fiber} {rest : List FId}

theorem hp (b : BCtx m p f cont s h fh rest) : ∃ fp, s.fiber? p = some fp ∧ PRec f cont fp := b.blk.1
theorem hf (b : BCtx m p f cont s h fh rest) : ∃ ff, s.fiber? f = some ff ∧ FRec m ff ∧ isFinished ff.status = false := b.blk.2.1

/-- when the running fiber is the body fiber itself, the stack is `f :: p :: post` -/
theorem shape_f (b : BCtx m p f cont s h fh rest) (hhf : h = f) : ∃ post, rest = p :: post ∧ p ∉ post ∧ f ∉ post := by
  rcases b.blk.2.2 with hoff | ⟨pre, post, hstk⟩
  · exact absurd (hhf ▸ List.mem_cons_self ..) hoff.2.1
  · have hnd := b.c.hs.1
    cases pre with
    | nil =>
      simp only [List.nil_append, List.cons.injEq] at hstk
      refine ⟨post, hstk.2, ?_, ?_⟩
      · rw [hstk.2] at hnd; exact (List.nodup_cons.mp (List.nodup_cons.mp hnd).2).1
      · rw [hstk.2, hhf] at hnd; exact fun hm => (List.nodup_cons.mp hnd).1 (List.mem_cons_of_mem _ hm)
    | cons q pre' =>
      simp only [List.cons_append, List.cons.injEq] at hstk
      rw [hstk.2, hstk.1] at hnd
      exact absurd (by rw [← hstk.1, hhf]; simp) (List.nodup_cons.mp hnd).1

/-- the head's own record, when the head is `f` -/
theorem frec (b : BCtx m p f cont s h fh rest) (hhf : h = f) : FRec m fh ∧ isFinished fh.status = false := by
  obtain ⟨ff, h1, h2, h3⟩ := b.hf
  rw [← hhf, b.c.hfp] at h1; cases h1; exact ⟨h2, h3⟩

/-- the instruction completes with a value -/
theorem bind (b : BCtx m p f cont s h fh rest) (fh' : Fiber) (cont' : Cont) (v : Val)
    (hst : fh'.status = fh.status) (hm : fh'.mask = fh.mask) (hrt : fh'.root = fh.root) :
    G m p f cont (deliverValue s h fh' cont' v) := by
  by_cases hhf : h = f
  · obtain ⟨post, hr, _, _⟩ := b.shape_f hhf
    obtain ⟨h2, h3⟩ := b.frec hhf
    subst hhf
    exact G_deliver_f _ _ _ b.hp b.c.hfp ⟨hm.trans h2.1, hrt.trans h2.2⟩ (hst ▸ h3) ⟨[], post, by rw [b.c.hstk, hr]; rfl⟩ b.hne
  · exact G_deliver_any _ _ _ (by rw [b.c.hstk]; exact b.blk) b.hhp (fun hh => hhf hh.symm)

/-- the running fiber leaves run_vm with a signal -/
theorem raise (b : BCtx m p f cont s h fh rest) (fh' : Fiber) {sig : Nat} (v : Val)
    (hm : fh'.mask = fh.mask) (hrt : fh'.root = fh.root) (hpe : fh'.pending = fh.pending) (hsig : sig < stNew) :
    G m p f cont (raise s h fh' rest sig v) := by
  unfold Fiber.raise
  split
  · exact Or.inl (stuck_stop _ _ rfl)
  · have hlt : (if inCcall fh' = true then coerce sig v else (sig, v)).1 < stNew := by
      split
      · exact coerce_lt sig v hsig
      · exact hsig
    have hpo1 : ∀ x : Fiber, x.pending = fh'.pending → PendOK (s.setFiber h x) :=
      fun x hx => b.c.hpo.setFiber h x (fun sg hh => b.c.pp sg (hpe ▸ hx ▸ hh))
    obtain ⟨fp, hfp, hpr⟩ := b.hp
    have hp1 : ∀ x, (s.setFiber h x).fiber? p = some fp := fun x => by rw [fiber?_setFiber_ne _ _ _ _ b.hhp]; exact hfp
    by_cases hhf : h = f
    · obtain ⟨post, hr, hpn, hfn⟩ := b.shape_f hhf
      obtain ⟨h2, _⟩ := b.frec hhf
      subst hhf; subst hr
      exact unwind_C b.acc _ _ (hp1 _) hpr (fiber?_setFiber_eq _ b.c.hfp) ⟨hm.trans h2.1, hrt.trans h2.2⟩ rfl hlt b.hne hpn hfn
    · have hfh : f ≠ h := fun hh => hhf hh.symm
      obtain ⟨ff, hff, hfr⟩ := b.hf
      have hf1 : ∀ x, ∃ ff', (s.setFiber h x).fiber? f = some ff' ∧ FRec m ff' ∧ isFinished ff'.status = false :=
        fun x => ⟨ff, by rw [fiber?_setFiber_ne _ _ _ _ hfh]; exact hff, hfr⟩
      rcases b.blk.2.2 with hoff | ⟨pre, post, hstk⟩
      · refine unwind_A _ _ _ ⟨fp, hp1 _, hpr⟩ (hf1 _) (off_setFiber _ ?_ b.hhp hfh)
        exact ⟨fun hm' => hoff.1 (List.mem_cons_of_mem _ hm'), fun hm' => hoff.2.1 (List.mem_cons_of_mem _ hm'), hoff.2.2.1, hoff.2.2.2⟩
      · cases pre with
        | nil => simp only [List.nil_append, List.cons.injEq] at hstk; exact absurd hstk.1 hhf
        | cons q pre' =>
          simp only [List.cons_append, List.cons.injEq] at hstk
          have hnd := b.c.hs.1
          rw [hstk.2] at hnd ⊢
          exact unwind_B b.acc pre' _ post _ _ _ (hpo1 _ rfl) ⟨fp, hp1 _, hpr⟩ (hf1 _) (List.nodup_cons.mp hnd).2 hlt

theorem panic (b : BCtx m p f cont s h fh rest) (fh' : Fiber) (msg : String)
    (hm : fh'.mask = fh.mask) (hrt : fh'.root = fh.root) (hpe : fh'.pending = fh.pending) :
    G m p f cont (panic s h fh' rest msg) := b.raise fh' _ hm hrt hpe sigError_lt

end BCtx

/-- a write to a fiber other than `p` that keeps status, mask and root flag and does not link to `f`
    keeps everything the composition argument looks at -/
theorem pre_setFiber {s : State} {d : FId} {fd : Fiber} (x : Fiber) (hd : s.fiber? d = some fd) (hdp : p ≠ d)
    (hst : x.status = fd.status) (hm : x.mask = fd.mask) (hrt : x.root = fd.root) (hch : x.child = fd.child ∨ x.child ≠ some f)
    (hp : ∃ fp, s.fiber? p = some fp ∧ PRec f cont fp) (hf : ∃ ff, s.fiber? f = some ff ∧ FRec m ff ∧ isFinished ff.status = false)
    (ho : Only p f s) :
    (∃ fp, (s.setFiber d x).fiber? p = some fp ∧ PRec f cont fp) ∧
    (∃ ff, (s.setFiber d x).fiber? f = some ff ∧ FRec m ff ∧ isFinished ff.status = false) ∧
    Only p f (s.setFiber d x) ∧ (∀ stk, Off p f s stk → Off p f (s.setFiber d x) stk) := by
  refine ⟨?_, ?_, ?_, ?_⟩
  · obtain ⟨fp, h1, h2⟩ := hp; exact ⟨fp, by rw [fiber?_setFiber_ne _ _ _ _ hdp]; exact h1, h2⟩
  · obtain ⟨ff, h1, h2, h3⟩ := hf
    by_cases hfd : f = d
    · subst hfd; rw [hd] at h1; cases h1
      exact ⟨x, fiber?_setFiber_eq _ hd, ⟨hm.trans h2.1, hrt.trans h2.2⟩, hst ▸ h3⟩
    · exact ⟨ff, by rw [fiber?_setFiber_ne _ _ _ _ hfd]; exact h1, h2, h3⟩
  · rcases hch with hc | hc
    · exact ho.setFiber x hd hc
    · exact ho.setFiber' x hc
  · intro stk ⟨h1, h2, h3, h4⟩
    refine ⟨h1, h2, ?_, ?_⟩
    · rw [fiber?_setFiber_ne _ _ _ _ hdp]; exact h3
    · by_cases hfd : f = d
      · subst hfd; intro ff hff; rw [fiber?_setFiber_eq _ hd] at hff; cases hff; rw [hst]; exact h4 fd hd
      · rw [fiber?_setFiber_ne _ _ _ _ hfd]; exact h4

namespace BCtx
variable {s : State} {h : FId} {fh : Fiber} {rest : List FId}

/-- the head's record `x` (same status / mask / root, child := the entered fiber) written, then `g ≠ f` entered -/
theorem enterGen (b : BCtx m p f cont s h fh rest) (s2 : State) (g : FId) (fuel : Nat) (v : Val)
    (hpo : PendOK s2) (hs : StackOK s2 (h :: rest))
    (hp : ∃ fp, s2.fiber? p = some fp ∧ PRec f cont fp) (hf : ∃ ff, s2.fiber? f = some ff ∧ FRec m ff ∧ isFinished ff.status = false)
    (ho : Only p f s2) (hoff : Off p f s (h :: rest) → Off p f s2 (h :: rest))
    (hnr : ∀ cur, s2.fiber? g = some cur → refuseResume.contains cur.status = false) (hgf : g ≠ f) :
    G m p f cont (contNoCheck fuel s2 (h :: rest) g v) := by
  refine contNoCheck_G b.acc fuel s2 (h :: rest) g v hpo hs ho b.hne hp hf hnr ?_
  rcases b.blk.2.2 with hoff' | hon
  · exact Or.inl ⟨hoff hoff', hgf⟩
  · refine Or.inr (Or.inr ⟨hon, ?_, hgf⟩)
    intro hgp; subst hgp
    obtain ⟨pre, post, hstk⟩ := hon
    obtain ⟨x, hx1, hx2⟩ := hs.2 g (by rw [hstk]; simp)
    have := (not_refused (hnr x hx1)).2
    exact this hx2

theorem enter (b : BCtx m p f cont s h fh rest) (x : Fiber) (g : FId) (fg : Fiber) (bb : Bool) (fuel : Nat) (v : Val)
    (hst : x.status = fh.status) (hm : x.mask = fh.mask) (hpe : x.pending = fh.pending) (hrt : x.root = fh.root)
    (hxc : x.child = some g) (hg : s.fiber? g = some fg) (hchk : checkCanResume fg bb = none) (hgf : g ≠ f)
    (hdk : DKeep fh x := by dkeep_tac) :
    G m p f cont (contNoCheck fuel (s.setFiber h x) (h :: rest) g v) := by
  have t := Tweak.setFiber x b.c.hfp hst hm hpe hrt hdk
  have c' := b.c.tweak t
  obtain ⟨h1, h2, h3, h4⟩ := pre_setFiber (cont := cont) x b.c.hfp b.hhp hst hm hrt (Or.inr (by rw [hxc]; intro hh; cases hh; exact hgf rfl)) b.hp b.hf b.only
  refine b.enterGen _ g fuel v c'.hpo c'.hs h1 h2 h3 (h4 _) ?_ hgf
  refine refuse_after_tweak t b.c.hfp (fun cur hh => ?_) (fun q hq => fiber?_setFiber_ne _ _ _ _ hq)
  rw [hg] at hh; cases hh; exact checkCanResume_none hchk

theorem enterMarked (b : BCtx m p f cont s h fh rest) (x : Fiber) (g : FId) (fg : Fiber) (bb : Bool) (fuel : Nat) (v : Val)
    (d : FId) (fd : Fiber)
    (hst : x.status = fh.status) (hm : x.mask = fh.mask) (hpe : x.pending = fh.pending) (hrt : x.root = fh.root)
    (hxc : x.child = some g) (hg : s.fiber? g = some fg) (hchk : checkCanResume fg bb = none) (hgf : g ≠ f)
    (hd : (s.setFiber h x).fiber? d = some fd) (hdp : p ≠ d) (hdk : DKeep fh x := by dkeep_tac) :
    G m p f cont (contNoCheck fuel ((s.setFiber h x).setFiber d { fd with pending := some cancelSignal }) (h :: rest) g v) := by
  have t := Tweak.setFiber x b.c.hfp hst hm hpe hrt hdk
  have c' := b.c.tweak t
  obtain ⟨h1, h2, h3, h4⟩ := pre_setFiber (cont := cont) x b.c.hfp b.hhp hst hm hrt (Or.inr (by rw [hxc]; intro hh; cases hh; exact hgf rfl)) b.hp b.hf b.only
  obtain ⟨k1, k2, k3, k4⟩ := pre_setFiber (cont := cont) { fd with pending := some cancelSignal } hd hdp rfl rfl rfl (Or.inl rfl) h1 h2 h3
  have hr1 : ∀ cur, (s.setFiber h x).fiber? g = some cur → refuseResume.contains cur.status = false := by
    refine refuse_after_tweak t b.c.hfp (fun cur hh => ?_) (fun q hq => fiber?_setFiber_ne _ _ _ _ hq)
    rw [hg] at hh; cases hh; exact checkCanResume_none hchk
  have hp2 : PendOK ((s.setFiber h x).setFiber d { fd with pending := some cancelSignal }) := by
    refine c'.hpo.setFiber d _ ?_
    intro sg hh
    have h2' : cancelSignal = sg := by simpa using hh
    exact h2' ▸ cancelSignal_lt
  refine b.enterGen _ g fuel v hp2 (c'.hs.setFiber_same _ hd rfl) k1 k2 k3 (fun ho => k4 _ (h4 _ ho)) ?_ hgf
  intro cur hc
  by_cases hgd : g = d
  · subst hgd
    rw [fiber?_setFiber_eq _ hd] at hc; cases hc
    exact hr1 fd hd
  · rw [fiber?_setFiber_ne _ _ _ _ hgd] at hc; exact hr1 cur hc

/-- a write to the head only (status, mask, root, child kept), stack unchanged -/
theorem tweak (b : BCtx m p f cont s h fh rest) (x : Fiber)
    (hst : x.status = fh.status) (hm : x.mask = fh.mask) (hpe : x.pending = fh.pending) (hrt : x.root = fh.root)
    (hxc : x.child = fh.child ∨ x.child ≠ some f) (hdk : DKeep fh x := by dkeep_tac) : BCtx m p f cont (s.setFiber h x) h x rest := by
  have t := Tweak.setFiber x b.c.hfp hst hm hpe hrt hdk
  obtain ⟨h1, h2, h3, h4⟩ := pre_setFiber (cont := cont) x b.c.hfp b.hhp hst hm hrt hxc b.hp b.hf b.only
  refine ⟨b.c.tweak t, ⟨h1, h2, ?_⟩, h3, b.hne, b.hhp, b.acc⟩
  rcases b.blk.2.2 with ho | ho
  · exact Or.inl (h4 _ ho)
  · exact Or.inr ho

theorem toG (b : BCtx m p f cont s h fh rest) : G m p f cont s := Or.inr (Or.inr (by rw [b.c.hstk]; exact b.blk))

end BCtx

theorem ensureEnv_child (s : State) (q : FId) (fq : Fiber) : (ensureEnv s q fq).2.1.child = fq.child := by
  unfold ensureEnv; split <;> rfl

theorem newEnvStep_child (q : FId) (acc : State × Fiber × Option Nat) (c : Nat) : (newEnvStep q acc c).2.1.child = acc.2.1.child := by
  unfold newEnvStep
  split
  · exact ensureEnv_child ..
  · split
    · exact ensureEnv_child ..
    · rfl

theorem foldl_newEnvStep_child (q : FId) : ∀ (flags : List Nat) (acc : State × Fiber × Option Nat),
    (flags.foldl (newEnvStep q) acc).2.1.child = acc.2.1.child := by
  intro flags
  induction flags with
  | nil => intro acc; rfl
  | cons c cs ih => intro acc; rw [List.foldl_cons, ih, newEnvStep_child]

namespace BCtx
variable {s : State} {h : FId} {fh : Fiber} {rest : List FId}

/-- transfer along a head-only rewrite that may also change things the argument does not look at -/
theorem ofTweak (b : BCtx m p f cont s h fh rest) {s' : State} {fh' : Fiber} (t : Tweak s s' h fh fh') (hch : fh'.child = fh.child) :
    BCtx m p f cont s' h fh' rest := by
  obtain ⟨fp, hfp, hpr⟩ := b.hp
  obtain ⟨ff, hff, hfr, hfn⟩ := b.hf
  have hp' : s'.fiber? p = some fp := t.other p fp b.hhp hfp
  have hf' : ∃ ff', s'.fiber? f = some ff' ∧ FRec m ff' ∧ isFinished ff'.status = false ∧ ff'.status = ff.status := by
    by_cases hfh : f = h
    · subst hfh; rw [b.c.hfp] at hff; cases hff
      exact ⟨fh', t.cur, ⟨t.msk.trans hfr.1, t.rt.trans hfr.2⟩, t.st ▸ hfn, t.st⟩
    · exact ⟨ff, t.other f ff hfh hff, hfr, hfn, rfl⟩
  obtain ⟨ff', hff', hfr', hfn', hst'⟩ := hf'
  refine ⟨b.c.tweak t, ⟨⟨fp, hp', hpr⟩, ⟨ff', hff', hfr', hfn'⟩, ?_⟩, ?_, b.hne, b.hhp, b.acc⟩
  · rcases b.blk.2.2 with ⟨h1, h2, h3, h4⟩ | hon
    · left; refine ⟨h1, h2, ?_, ?_⟩
      · intro x hx; rw [hp'] at hx; cases hx; exact h3 fp hfp
      · intro x hx; rw [hff'] at hx; cases hx; rw [hst']; exact h4 ff hff
    · exact Or.inr hon
  · intro w fw hw hcw
    by_cases hwh : w = h
    · subst hwh; rw [t.cur] at hw; cases hw
      exact b.only w fh b.c.hfp (hch ▸ hcw)
    · rcases t.back w fw hwh hw with hb | hb
      · exact b.only w fw hb hcw
      · rw [hb] at hcw; cases hcw

/-- a refused `next`: the refusal error is handed to the callers -/
theorem refusedUnwind (b : BCtx m p f cont s h fh rest) (x : Fiber) (g : FId) (v : Val)
    (hst : x.status = fh.status) (hm : x.mask = fh.mask) (hpe : x.pending = fh.pending) (hrt : x.root = fh.root)
    (hxc : x.child = some g) (hgf : g ≠ f) (hdk : DKeep fh x := by dkeep_tac) :
    G m p f cont (unwind (s.setFiber h x) (h :: rest) g sigError v) := by
  have t := Tweak.setFiber x b.c.hfp hst hm hpe hrt hdk
  have c' := b.c.tweak t
  obtain ⟨h1, h2, h3, h4⟩ := pre_setFiber (cont := cont) x b.c.hfp b.hhp hst hm hrt (Or.inr (by rw [hxc]; intro hh; cases hh; exact hgf rfl)) b.hp b.hf b.only
  rcases b.blk.2.2 with hoff | ⟨pre, post, hstk⟩
  · exact unwind_A _ _ _ h1 h2 (h4 _ hoff)
  · have hnd := c'.hs.1
    rw [hstk] at hnd ⊢
    exact unwind_B b.acc pre _ post _ _ _ c'.hpo h1 h2 hnd sigError_lt

end BCtx

/-- the fiber operand of the instruction `t` about to be executed by the running fiber -/
def instrTarget (s : State) (fh : Fiber) : Tm → Option Val
  | .prim _ (.resume a _) _ => some (evalAtom s fh.env a)
  | .prim _ (.cancel a _) _ => some (evalAtom s fh.env a)
  | .prim _ (.propagate _ a) _ => some (evalAtom s fh.env a)
  | .prim _ (.next a) _ => some (evalAtom s fh.env a)
  | .each _ a _ _ => some (evalAtom s fh.env a)
  | .ret _ => match fh.kont with
    | .loop env _ a _ _ :: _ => some (evalAtom s env a)
    | _ => none
  | _ => none

/-- a `cancel` whose walk to the innermost child ends on `p` (only possible on a cyclic child chain) -/
def cancelHits (p : FId) (s : State) (h : FId) (fh : Fiber) : Tm → Prop
  | .prim l (.cancel a _) k =>
    ∃ g, evalAtom s fh.env a = .fib g ∧
      cancelTarget (s.setFiber h { fh with ctl := .wait (.bindK l k false), child := some g }) g = some p
  | _ => False

theorem target_ne {f : FId} {v : Val} {g : FId} (hT : some v ≠ some (Val.fib f)) (heq : v = Val.fib g) : g ≠ f :=
  fun hh => hT (by rw [heq, hh])


theorem evalAtom_setFiber (s : State) (q : FId) (x : Fiber) (env : List Val) (a : Atom) :
    evalAtom (s.setFiber q x) env a = evalAtom s env a := by
  cases a <;> simp [evalAtom, State.setFiber]

theorem G_stop (s : State) (h : Halt) (hd : h.isDone = false) : G m p f cont (s.stop h) := Or.inl (stuck_stop _ _ hd)

theorem execPrim_G {s : State} {h : FId} {fh : Fiber} {rest : List FId} (b : BCtx m p f cont s h fh rest) (l : Nat) (pr : Prim) (k : Tm)
    (hT : instrTarget s fh (.prim l pr k) ≠ some (.fib f)) (hC : ¬ cancelHits p s h fh (.prim l pr k)) :
    G m p f cont (execPrim s h fh rest l pr k) := by
  unfold execPrim
  simp only []
  cases pr <;> simp only [instrTarget, cancelHits] at hT hC ⊢
  all_goals repeat' split
  all_goals first
    | exact b.bind _ _ _ (by rfl) (by rfl) (by rfl)
    | exact b.raise _ _ (by rfl) (by rfl) (by rfl) (by decide)
    | exact b.raise _ _ (by rfl) (by rfl) (by rfl) (by simp only [userBase, userMax, stNew, propagateMaxStatus] at *; omega)
    | exact b.panic _ _ (by rfl) (by rfl) (by rfl)
    | exact G_stop _ _ rfl
    | exact b.enter _ _ _ _ _ _ (by rfl) (by rfl) (by rfl) (by rfl) (by rfl) (by assumption) (by assumption) (target_ne hT (by assumption))
    | exact b.enterMarked _ _ _ _ _ _ _ _ (by rfl) (by rfl) (by rfl) (by rfl) (by rfl) (by assumption) (by assumption) (target_ne hT (by assumption))
        (by assumption) (by intro hh; subst hh; exact hC ⟨_, by assumption, by assumption⟩)
    | exact b.refusedUnwind _ _ _ (by rfl) (by rfl) (by rfl) (by rfl) (by rfl) (target_ne hT (by assumption))
    | (refine BCtx.bind (s := _) (fh := (ensureEnv s h fh).2.1) (rest := rest) ?_ _ _ _ (by rfl) (by rfl) (by rfl)
       exact b.ofTweak ((ensureEnv_tweak b.c.hfp).trans (Tweak.of_fibers_eq (ensureEnv_tweak b.c.hfp).cur rfl rfl)) (ensureEnv_child ..))

theorem execNew_G {s : State} {h : FId} {fh : Fiber} {rest : List FId} (b : BCtx m p f cont s h fh rest) (l : Nat) (body : Tm) (flags : List Nat) (k : Tm) (sg : Sig) :
    G m p f cont (execNew s h fh l body flags k sg) := by
  unfold execNew
  simp only []
  have t := foldl_newEnvStep_tweak (p := h) flags (s, fh, none) b.c.hfp
  have t2 := t.trans (Tweak.append (s := (flags.foldl (newEnvStep h) (s, fh, none)).1)
    { status := stNew, mask := maskOfFlags flags, ctl := .run body, env := (flags.foldl (newEnvStep h) (s, fh, none)).2.1.env,
      denv := (flags.foldl (newEnvStep h) (s, fh, none)).2.2, sig := sg } t.cur rfl rfl)
  exact (b.ofTweak t2 (foldl_newEnvStep_child h flags (s, fh, none))).bind _ _ _ rfl rfl rfl

theorem execLoopNext_G {s : State} {h : FId} {fh : Fiber} {rest : List FId} (b : BCtx m p f cont s h fh rest) (l : Nat) (a : Atom) (body k : Tm)
    (hT : some (evalAtom s fh.env a) ≠ some (.fib f)) :
    G m p f cont (execLoopNext s h fh rest l a body k) := by
  unfold execLoopNext
  simp only []
  repeat' split
  all_goals first
    | exact b.bind _ _ _ (by rfl) (by rfl) (by rfl)
    | exact b.panic _ _ (by rfl) (by rfl) (by rfl)
    | exact b.enter _ _ _ _ _ _ (by rfl) (by rfl) (by rfl) (by rfl) (by rfl) (by assumption) (by assumption) (target_ne hT (by assumption))
    | exact b.refusedUnwind _ _ _ (by rfl) (by rfl) (by rfl) (by rfl) (by rfl) (target_ne hT (by assumption))
    | exact G_stop _ _ rfl

/-- the body fiber stays private to the macro during this step: nobody but `p` links to it, the instruction about to be
    executed does not name it as its fiber operand, and no `cancel` walk ends on `p` -/
def Priv (p f : FId) (s : State) : Prop :=
  Only p f s ∧
  ∀ h rest fh t, s.stack = h :: rest → s.fiber? h = some fh → fh.ctl = .run t →
    instrTarget s fh t ≠ some (.fib f) ∧ ¬ cancelHits p s h fh t

theorem G_log {s : State} (l q : Nat) (v : Val) (h : G m p f cont s) : G m p f cont (s.log l q v) := by
  unfold G Exited Blk Off Passed Stuck at *
  simp only [log_halt, log_stack, fiber?_log]
  exact h

/-- ★ one step of the machine, whatever it is: from "blocked, body not exited" to halted / exited (cleanup is next) /
    still blocked with the body not exited -/
theorem step_G (hm : AccFin m) (s : State) (hinv : Inv s) (hne : p ≠ f) (hb : Blk m p f cont s s.stack) (hpriv : Priv p f s) :
    G m p f cont (step s) := by
  unfold step
  split
  · exact Or.inr (Or.inr hb)
  · rename_i hh
    have hso := hinv.2 hh
    split
    · exact G_stop _ _ rfl
    · rename_i h rest hstk
      rw [hstk] at hso
      split
      · exact G_stop _ _ rfl
      · rename_i fh hfh
        split
        · exact G_stop _ _ rfl
        · rename_i t hctl
          have hhp : p ≠ h := by
            intro hph; subst hph
            obtain ⟨fp, h1, h2⟩ := hb.1
            rw [hfh] at h1; cases h1; rw [h2.1] at hctl; cases hctl
          have b : BCtx m p f cont s h fh rest := ⟨⟨hstk, hfh, hinv.1, hso⟩, hstk ▸ hb, hpriv.1, hne, hhp, hm⟩
          obtain ⟨hT, hC⟩ := hpriv.2 h rest fh t hstk hfh hctl
          split
          · -- ret
            simp only []
            split
            · exact b.raise _ _ rfl rfl rfl sigOk_lt
            · exact G_log _ _ _ (b.tweak _ (by rfl) (by rfl) (by rfl) (by rfl) (Or.inl (by rfl))).toG
            · exact G_log _ _ _ (b.tweak _ (by rfl) (by rfl) (by rfl) (by rfl) (Or.inl (by rfl))).toG
            · rename_i env l a body k ks hk
              have b2 := b.tweak { fh with env := env, kont := ks } rfl rfl rfl rfl (Or.inl rfl)
              refine execLoopNext_G b2 _ _ _ _ ?_
              simp only [instrTarget, hk] at hT
              rw [evalAtom_setFiber]
              exact hT
            · exact (b.tweak _ (by rfl) (by rfl) (by rfl) (by rfl) (Or.inl (by rfl))).toG
          · exact (b.tweak _ (by rfl) (by rfl) (by rfl) (by rfl) (Or.inl (by rfl))).toG
          · exact execPrim_G b _ _ _ hT hC
          · exact execNew_G b _ _ _ _ _
          · split
            · exact b.panic _ _ rfl rfl rfl
            · exact execNew_G b _ _ _ _ _
          · exact (b.tweak _ (by rfl) (by rfl) (by rfl) (by rfl) (Or.inl (by rfl))).toG
          · exact (b.tweak _ (by rfl) (by rfl) (by rfl) (by rfl) (Or.inl (by rfl))).toG
          · exact execLoopNext_G b _ _ _ _ (by simpa [instrTarget] using hT)
          · exact (b.tweak _ (by rfl) (by rfl) (by rfl) (by rfl) (Or.inl (by rfl))).toG

theorem run_succ_of_running {s : State} (n : Nat) (h : s.halt = none) : run (n + 1) s = run n (step s) := by
  rw [run]; simp [h]

theorem run_of_halted {s : State} (n : Nat) (h : s.halt ≠ none) : run n s = s := by
  cases n with
  | zero => rfl
  | succ n => rw [run]; split
              · rfl
              · rename_i hh; exact absurd hh h

/-- ★ composition over whole executions: starting from a state in which `p` is blocked in the macro's `(resume f)`
    and `f` has not exited, for EVERY number of steps `n` of ANY script: either `p` is still blocked and `f` still has not
    exited after `n` steps, or there is a first step `i ≤ n` — and before it `p` was blocked all the time — after which
    the machine has halted or the body fiber is finished AND the code after the resume (the cleanup) is what `p` runs. -/
theorem blocked_until_exit (hm : AccFin m) : ∀ (n : Nat) (s : State), Inv s → p ≠ f → Blk m p f cont s s.stack → (∀ i, Priv p f (run i s)) →
    Blk m p f cont (run n s) (run n s).stack ∨
    ∃ i, i ≤ n ∧ (∀ j, j < i → Blk m p f cont (run j s) (run j s).stack) ∧
      (Stuck (run i s) ∨ Exited p f cont (run i s) ∨ Passed m p f cont (run i s)) := by
  intro n
  induction n with
  | zero => intro s _ _ hb _; exact Or.inl hb
  | succ n ih =>
    intro s hinv hne hb hpriv
    by_cases hh : s.halt = none
    · rw [run_succ_of_running n hh]
      have hstep := step_G hm s hinv hne hb (hpriv 0)
      have h1 : run 1 s = step s := by rw [run_succ_of_running 0 hh]; rfl
      have first : ∀ j, j < 1 → Blk m p f cont (run j s) (run j s).stack := by
        intro j hj; have : j = 0 := by omega
        subst this; exact hb
      rcases hstep with hhalt | hex | hblk
      · exact Or.inr ⟨1, by omega, first, Or.inl (h1 ▸ hhalt)⟩
      · exact Or.inr ⟨1, by omega, first, Or.inr (h1 ▸ hex)⟩
      · have hpriv' : ∀ i, Priv p f (run i (step s)) := fun i => by rw [← run_succ_of_running i hh]; exact hpriv (i + 1)
        rcases ih (step s) (step_res s hinv).2 hne hblk hpriv' with hl | ⟨i, hi, hbefore, hat⟩
        · exact Or.inl hl
        · refine Or.inr ⟨i + 1, by omega, ?_, ?_⟩
          · intro j hj
            cases j with
            | zero => exact hb
            | succ j => rw [run_succ_of_running j hh]; exact hbefore j (by omega)
          · rw [run_succ_of_running i hh]; exact hat
    · rw [run_of_halted _ hh]; exact Or.inl hb

end
end JanetModel.Fiber
