/- C05 — dynamic bindings: who sees what, through `:i` (shared table) and `:p` (prototype) links of any depth, after any
   write (lemma file, no Mathlib).  `chainOf` is the list of tables `janet_dyn` → `janet_table_get` walks; `firstBound` the
   value it returns. -/
import JanetModel.Fiber.Model
namespace JanetModel.Fiber
open JanetModel.Gen.Fiber

/-- the tables a lookup starting at `eo` visits, in order (the table itself, its prototype, …) -/
def chainOf (denvs : List DEnv) : Nat → Option Nat → List Nat
  | 0, _ => []
  | _ + 1, none => []
  | fuel + 1, some e =>
    match denvs[e]? with
    | none => []
    | some d => e :: chainOf denvs fuel d.proto

def bound (denvs : List DEnv) (e k : Nat) : Option Val :=
  match denvs[e]? with
  | none => none
  | some d => d.tbl.lookup k

/-- the value of `k` in the first table of `es` that binds it -/
def firstBound (denvs : List DEnv) (k : Nat) : List Nat → Val
  | [] => .nil
  | e :: es =>
    match bound denvs e k with
    | some v => v
    | none => firstBound denvs k es

/-- ★ what a fiber observes: `(dyn k)` is the binding of `k` in the NEAREST table of its chain that has one -/
theorem dynLookup_eq_firstBound (denvs : List DEnv) (k : Nat) : ∀ (fuel : Nat) (eo : Option Nat),
    dynLookup denvs fuel eo k = firstBound denvs k (chainOf denvs fuel eo) := by
  intro fuel
  induction fuel with
  | zero => intro eo; simp [dynLookup, chainOf, firstBound]
  | succ n ih =>
    intro eo
    cases eo with
    | none => simp [dynLookup, chainOf, firstBound]
    | some e =>
      unfold dynLookup chainOf
      cases hd : denvs[e]? with
      | none => simp [firstBound]
      | some d =>
        simp only [firstBound, bound, hd]
        cases d.tbl.lookup k with
        | some v => rfl
        | none => exact ih d.proto

/-! ### one write: `(setdyn k v)` into table `e` -/

def writeTbl (denvs : List DEnv) (e k : Nat) (v : Val) : List DEnv :=
  match denvs[e]? with
  | none => denvs
  | some d => denvs.set e { d with tbl := tblPut d.tbl k v }

theorem writeTbl_get_ne (denvs : List DEnv) (e k : Nat) (v : Val) (e' : Nat) (h : e' ≠ e) : (writeTbl denvs e k v)[e']? = denvs[e']? := by
  unfold writeTbl
  split
  · rfl
  · exact List.getElem?_set_ne (Ne.symm h)

theorem writeTbl_get_self (denvs : List DEnv) (e k : Nat) (v : Val) (d : DEnv) (h : denvs[e]? = some d) :
    (writeTbl denvs e k v)[e]? = some { d with tbl := tblPut d.tbl k v } := by
  have hl : e < denvs.length := by
    rcases Nat.lt_or_ge e denvs.length with h' | h'
    · exact h'
    · rw [List.getElem?_eq_none h'] at h; cases h
  unfold writeTbl
  rw [h]
  exact List.getElem?_set_self hl

/-- a write does not change any prototype link: every chain stays what it was -/
theorem chainOf_writeTbl (denvs : List DEnv) (e k : Nat) (v : Val) : ∀ (fuel : Nat) (eo : Option Nat),
    chainOf (writeTbl denvs e k v) fuel eo = chainOf denvs fuel eo := by
  intro fuel
  induction fuel with
  | zero => intro eo; simp [chainOf]
  | succ n ih =>
    intro eo
    cases eo with
    | none => simp [chainOf]
    | some e0 =>
      unfold chainOf
      by_cases he : e0 = e
      · subst he
        cases hd : denvs[e0]? with
        | none => simp [writeTbl, hd]
        | some d => rw [writeTbl_get_self _ _ _ _ _ hd]; simp only []; rw [ih]
      · rw [writeTbl_get_ne _ _ _ _ _ he]
        cases denvs[e0]? with
        | none => rfl
        | some d => simp only []; rw [ih]

theorem lookup_tblPut_ne (t : List (Nat × Val)) (k k' : Nat) (v : Val) (h : k' ≠ k) : (tblPut t k v).lookup k' = t.lookup k' := by
  have hf : ∀ (t : List (Nat × Val)), (t.filter (fun p => p.1 != k)).lookup k' = t.lookup k' := by
    intro t
    induction t with
    | nil => rfl
    | cons a t ih =>
      by_cases ha : a.1 = k
      · have : (a.1 != k) = false := by simp [ha]
        rw [List.filter_cons_of_neg (by simp [this])]
        rw [ih]
        obtain ⟨a1, a2⟩ := a
        simp only at ha
        subst ha
        simp [List.lookup, Ne.symm (Ne.symm h)]
        have : (k' == a1) = false := by simp [h]
        rw [this]
      · have : (a.1 != k) = true := by simp [ha]
        rw [List.filter_cons_of_pos (by simp [this])]
        obtain ⟨a1, a2⟩ := a
        simp only [List.lookup]
        rw [ih]
  unfold tblPut
  simp only []
  split
  · exact hf t
  · simp only [List.lookup]
    have : (k' == k) = false := by simp [h]
    rw [this]; exact hf t

theorem lookup_filter_self (t : List (Nat × Val)) (k : Nat) : (t.filter (fun p => p.1 != k)).lookup k = none := by
  induction t with
  | nil => rfl
  | cons a t ih =>
    by_cases ha : a.1 = k
    · have : (a.1 != k) = false := by simp [ha]
      rw [List.filter_cons_of_neg (by simp [this])]; exact ih
    · have : (a.1 != k) = true := by simp [ha]
      rw [List.filter_cons_of_pos (by simp [this])]
      obtain ⟨a1, a2⟩ := a
      simp only [List.lookup]
      have : (k == a1) = false := by simp only at ha; simp [Ne.symm ha]
      rw [this]; exact ih

theorem lookup_tblPut_self (t : List (Nat × Val)) (k : Nat) (v : Val) :
    (tblPut t k v).lookup k = if v = .nil then none else some v := by
  unfold tblPut
  simp only []
  split
  · exact lookup_filter_self t k
  · simp [List.lookup]

theorem bound_writeTbl_other (denvs : List DEnv) (e k : Nat) (v : Val) (e' k' : Nat) (h : e' ≠ e ∨ k' ≠ k) :
    bound (writeTbl denvs e k v) e' k' = bound denvs e' k' := by
  unfold bound
  by_cases he : e' = e
  · subst he
    have hk : k' ≠ k := by rcases h with h | h; exact absurd rfl h; exact h
    cases hd : denvs[e']? with
    | none => simp [writeTbl, hd]
    | some d => rw [writeTbl_get_self _ _ _ _ _ hd]; exact lookup_tblPut_ne _ _ _ _ hk
  · rw [writeTbl_get_ne _ _ _ _ _ he]

theorem firstBound_writeTbl_frame (denvs : List DEnv) (e k : Nat) (v : Val) (k' : Nat) : ∀ (es : List Nat), (e ∉ es ∨ k' ≠ k) →
    firstBound (writeTbl denvs e k v) k' es = firstBound denvs k' es := by
  intro es
  induction es with
  | nil => intro _; rfl
  | cons a es ih =>
    intro h
    have ha : a ≠ e ∨ k' ≠ k := by
      rcases h with h | h
      · exact Or.inl (fun hh => h (hh ▸ List.mem_cons_self ..))
      · exact Or.inr h
    have ht : e ∉ es ∨ k' ≠ k := by
      rcases h with h | h
      · exact Or.inl (fun hh => h (List.mem_cons_of_mem _ hh))
      · exact Or.inr h
    simp only [firstBound, bound_writeTbl_other _ _ _ _ _ _ ha, ih ht]

/-- ★ ISOLATION: a `(setdyn k v)` into table `e` is invisible (a) for every other key, everywhere, and (b) for every key,
    to every fiber whose chain of tables does not contain `e` — i.e. that is neither the writer, nor shares its table
    (`:i`), nor inherits from it through prototype links (`:p`, any depth) -/
theorem setdyn_invisible_elsewhere (denvs : List DEnv) (e k : Nat) (v : Val) (fuel : Nat) (eo : Option Nat) (k' : Nat)
    (h : e ∉ chainOf denvs fuel eo ∨ k' ≠ k) :
    dynLookup (writeTbl denvs e k v) fuel eo k' = dynLookup denvs fuel eo k' := by
  rw [dynLookup_eq_firstBound, dynLookup_eq_firstBound, chainOf_writeTbl]
  exact firstBound_writeTbl_frame denvs e k v k' _ h

/-- ★ VISIBILITY through links of any depth: if `e` is on the observer's chain (`pre ++ e :: post`) and no NEARER table
    binds `k`, then after `(setdyn k v)` into `e` the observer reads `v`; and `(setdyn k nil)` REMOVES the binding from `e`
    only — the observer then reads what the tables behind `e` (its prototypes) say -/
theorem setdyn_visible_through_chain (denvs : List DEnv) (e k : Nat) (v : Val) (fuel : Nat) (eo : Option Nat) (pre post : List Nat)
    (d : DEnv) (hd : denvs[e]? = some d) (hc : chainOf denvs fuel eo = pre ++ e :: post) (hpre : ∀ a ∈ pre, a ≠ e ∧ bound denvs a k = none)
    (hpost : e ∉ post) :
    dynLookup (writeTbl denvs e k v) fuel eo k = if v = .nil then firstBound denvs k post else v := by
  rw [dynLookup_eq_firstBound, chainOf_writeTbl, hc]
  clear hc
  induction pre with
  | nil =>
    simp only [List.nil_append, firstBound, bound]
    rw [writeTbl_get_self _ _ _ _ _ hd]
    simp only [lookup_tblPut_self]
    by_cases hv : v = .nil
    · simp only [hv, if_true]
      exact firstBound_writeTbl_frame denvs e k .nil k post (Or.inl hpost)
    · simp only [hv, if_false]
  | cons a pre ih =>
    have ha := hpre a (List.mem_cons_self ..)
    simp only [List.cons_append, firstBound]
    rw [bound_writeTbl_other _ _ _ _ _ _ (Or.inl ha.1), ha.2]
    exact ih (fun b hb => hpre b (List.mem_cons_of_mem _ hb))

/-! ### fiber/new: how the child's table is linked (cfun_fiber_new, letters :i and :p) -/

/-- `:i` — the child gets the PARENT'S table itself (created first if the parent has none): every later write by either is
    a write to the same table, so both observe the same binding for every key, for ever (sharing both ways) -/
theorem new_inherit_shares (p : FId) (acc : State × Fiber × Option Nat) :
    (newEnvStep p acc letterInherit).2.2 = (newEnvStep p acc letterInherit).2.1.denv ∧
    (newEnvStep p acc letterInherit).2.2.isSome = true := by
  unfold newEnvStep ensureEnv
  simp only [if_true]
  split <;> simp_all

/-- `:p` — the child gets a FRESH, EMPTY table whose prototype is the parent's table: it sees the parent's bindings (past
    and future) unless it shadows them, and its own writes never reach the parent's table (`e ≠ pe`, and `pe` is not on
    any chain that starts behind `e`: prototype links point to OLDER tables, `pe < e`) -/
theorem new_proto_links (p : FId) (acc : State × Fiber × Option Nat)
    (hvalid : ∀ e, acc.2.1.denv = some e → e < acc.1.denvs.length) :
    ∃ e pe, (newEnvStep p acc letterProto).2.2 = some e ∧ (newEnvStep p acc letterProto).2.1.denv = some pe ∧
      (newEnvStep p acc letterProto).1.denvs[e]? = some { proto := some pe, tbl := [] } ∧ pe < e := by
  have hne : letterProto ≠ letterInherit := by decide
  unfold newEnvStep
  simp only [hne, if_false, if_true]
  unfold ensureEnv
  split
  · rename_i e he
    exact ⟨_, e, rfl, he, by simp, hvalid e he⟩
  · exact ⟨_, _, rfl, rfl, by simp [State.setFiber], by simp [State.setFiber]⟩

/-- no letter — the child has no table at all: it observes nothing (`dyn_visibility` (1)); its first own `setdyn` creates a
    table WITHOUT prototype (`ensureEnv`), so it stays isolated in both directions -/
theorem new_plain_isolated (p : FId) (acc : State × Fiber × Option Nat) (c : Nat) (h1 : c ≠ letterInherit) (h2 : c ≠ letterProto) :
    newEnvStep p acc c = acc := by
  unfold newEnvStep
  simp [h1, h2]

theorem ensureEnv_fresh_has_no_proto (s : State) (p : FId) (fp : Fiber) (h : fp.denv = none) :
    (ensureEnv s p fp).1.denvs[(ensureEnv s p fp).2.2]? = some { proto := none, tbl := [] } ∧ (ensureEnv s p fp).2.2 = s.denvs.length := by
  unfold ensureEnv
  simp [h, State.setFiber]

/-! ### the instructions -/

theorem log_denvs (s : State) (l f : Nat) (v : Val) : (s.log l f v).denvs = s.denvs := by unfold State.log; split <;> rfl

theorem deliverValue_denvs (s : State) (p : FId) (fp : Fiber) (c : Cont) (v : Val) : (deliverValue s p fp c v).denvs = s.denvs := by
  unfold deliverValue
  split
  · rw [log_denvs]; rfl
  · split
    · rw [log_denvs]; rfl
    · rfl

/-- `(setdyn k a)` executed by fiber `p` is exactly one `writeTbl` into `p`'s OWN table (created, without prototype, if `p`
    had none) — no other table changes -/
theorem setdyn_writes_own_table (s : State) (p : FId) (fp : Fiber) (rest : List FId) (l k : Nat) (a : Atom) (kk : Tm) :
    (execPrim s p fp rest l (.setdyn k a) kk).denvs
      = writeTbl (ensureEnv s p fp).1.denvs (ensureEnv s p fp).2.2 k (evalAtom s fp.env a) ∨
    (∃ h, (execPrim s p fp rest l (.setdyn k a) kk).halt = some (.bad h)) := by
  unfold execPrim
  simp only []
  cases hd : (ensureEnv s p fp).1.denvs[(ensureEnv s p fp).2.2]? with
  | none => right; exact ⟨_, rfl⟩
  | some d =>
    left
    simp only [deliverValue_denvs, writeTbl, hd]

/-- `(dyn k)` executed by fiber `p` returns the lookup along `p`'s chain (`dynLookup_eq_firstBound`) and changes no table -/
theorem dyn_reads_own_chain (s : State) (p : FId) (fp : Fiber) (rest : List FId) (l k : Nat) (kk : Tm) :
    execPrim s p fp rest l (.dyn k) kk
      = deliverValue s p fp (.bindK l kk false) (firstBound s.denvs k (chainOf s.denvs (s.denvs.length + 1) fp.denv)) := by
  unfold execPrim
  simp only [dynLookup_eq_firstBound]

/-! ### along whole executions: tables are never removed and prototype links never change -/

/-- `b` extends `a`: every table of `a` is still there with the same prototype link -/
def DGrow (a b : List DEnv) : Prop :=
  a.length ≤ b.length ∧ ∀ (e : Nat) (d : DEnv), a[e]? = some d → ∃ d' : DEnv, b[e]? = some d' ∧ d'.proto = d.proto

theorem DGrow.refl (a : List DEnv) : DGrow a a := ⟨Nat.le_refl _, fun _ d h => ⟨d, h, rfl⟩⟩

theorem DGrow.trans {a b c : List DEnv} (h1 : DGrow a b) (h2 : DGrow b c) : DGrow a c := by
  refine ⟨Nat.le_trans h1.1 h2.1, fun e d h => ?_⟩
  obtain ⟨d', hd', hp'⟩ := h1.2 e d h
  obtain ⟨d'', hd'', hp''⟩ := h2.2 e d' hd'
  exact ⟨d'', hd'', hp''.trans hp'⟩

theorem DGrow.of_eq {a b : List DEnv} (h : b = a) : DGrow a b := h ▸ DGrow.refl a

theorem DGrow.append (a : List DEnv) (x : List DEnv) : DGrow a (a ++ x) := by
  refine ⟨by simp, fun e d h => ⟨d, ?_, rfl⟩⟩
  have hl : e < a.length := by
    rcases Nat.lt_or_ge e a.length with h' | h'
    · exact h'
    · rw [List.getElem?_eq_none h'] at h; cases h
  rw [List.getElem?_append_left hl]; exact h

theorem DGrow.writeTbl (a : List DEnv) (e k : Nat) (v : Val) : DGrow a (writeTbl a e k v) := by
  refine ⟨by unfold JanetModel.Fiber.writeTbl; split <;> simp, fun e' d h => ?_⟩
  by_cases he : e' = e
  · subst he; exact ⟨_, writeTbl_get_self _ _ _ _ _ h, rfl⟩
  · exact ⟨d, by rw [writeTbl_get_ne _ _ _ _ _ he]; exact h, rfl⟩

theorem unwind_denvs : ∀ (stk : List FId) (s : State) (c : FId) (sig : Nat) (v : Val), (unwind s stk c sig v).denvs = s.denvs := by
  intro stk
  induction stk with
  | nil => intro s c sig v; rfl
  | cons q rest ih =>
    intro s c sig v
    unfold unwind
    simp only []
    repeat' split
    all_goals first
      | rfl
      | (rw [deliverValue_denvs])
      | (rw [ih]; rfl)

theorem raise_denvs (s : State) (p : FId) (fp : Fiber) (rest : List FId) (sig : Nat) (v : Val) : (raise s p fp rest sig v).denvs = s.denvs := by
  unfold raise
  split
  · rfl
  · rw [unwind_denvs]; rfl

theorem panic_denvs (s : State) (p : FId) (fp : Fiber) (rest : List FId) (msg : String) : (panic s p fp rest msg).denvs = s.denvs :=
  raise_denvs ..

theorem startRun_denvs (s : State) (stk : List FId) (f : FId) (ff : Fiber) (v : Val) : (startRun s stk f ff v).denvs = s.denvs := by
  unfold startRun
  split
  · rw [unwind_denvs]; rfl
  · split
    · rfl
    · rw [deliverValue_denvs]

theorem contNoCheck_denvs : ∀ (fuel : Nat) (s : State) (stk : List FId) (f : FId) (v : Val), (contNoCheck fuel s stk f v).denvs = s.denvs := by
  intro fuel
  induction fuel with
  | zero => intro s stk f v; rfl
  | succ n ih =>
    intro s stk f v
    unfold contNoCheck
    split
    · rfl
    · simp only []
      split
      · split
        · rfl
        · split
          · rw [unwind_denvs]; rfl
          · rw [ih]; rfl
      · rw [startRun_denvs]; rfl

theorem execLoopNext_denvs (s : State) (p : FId) (fp : Fiber) (rest : List FId) (l : Nat) (f : Atom) (body k : Tm) :
    (execLoopNext s p fp rest l f body k).denvs = s.denvs := by
  unfold execLoopNext
  simp only []
  repeat' split
  all_goals first
    | rfl
    | (rw [deliverValue_denvs])
    | (rw [unwind_denvs]; rfl)
    | (rw [contNoCheck_denvs]; rfl)
    | (rw [panic_denvs])

theorem ensureEnv_dgrow (s : State) (p : FId) (fp : Fiber) : DGrow s.denvs (ensureEnv s p fp).1.denvs := by
  unfold ensureEnv
  split
  · exact DGrow.refl _
  · exact DGrow.append _ _

theorem execPrim_dgrow (s : State) (p : FId) (fp : Fiber) (rest : List FId) (l : Nat) (pr : Prim) (k : Tm) :
    DGrow s.denvs (execPrim s p fp rest l pr k).denvs := by
  cases pr with
  | setdyn kk a =>
    unfold execPrim
    simp only []
    split
    · exact ensureEnv_dgrow s p fp
    · rename_i d hd
      rw [deliverValue_denvs]
      refine (ensureEnv_dgrow s p fp).trans ?_
      have := DGrow.writeTbl (ensureEnv s p fp).1.denvs (ensureEnv s p fp).2.2 kk (evalAtom s fp.env a)
      simpa [writeTbl, hd] using this
  | _ =>
    apply DGrow.of_eq
    unfold execPrim
    simp only []
    repeat' split
    all_goals first
      | rfl
      | (rw [deliverValue_denvs])
      | (rw [raise_denvs])
      | (rw [panic_denvs])
      | (rw [unwind_denvs]; rfl)
      | (rw [contNoCheck_denvs]; rfl)

theorem newEnvStep_dgrow (p : FId) (acc : State × Fiber × Option Nat) (c : Nat) : DGrow acc.1.denvs (newEnvStep p acc c).1.denvs := by
  unfold newEnvStep
  split
  · exact ensureEnv_dgrow ..
  · split
    · exact (ensureEnv_dgrow ..).trans (DGrow.append _ _)
    · exact DGrow.refl _

theorem foldl_newEnvStep_dgrow (p : FId) : ∀ (flags : List Nat) (acc : State × Fiber × Option Nat),
    DGrow acc.1.denvs (flags.foldl (newEnvStep p) acc).1.denvs := by
  intro flags
  induction flags with
  | nil => intro acc; exact DGrow.refl _
  | cons c cs ih => intro acc; rw [List.foldl_cons]; exact (newEnvStep_dgrow p acc c).trans (ih _)

theorem execNew_dgrow (s : State) (p : FId) (fp : Fiber) (l : Nat) (body : Tm) (flags : List Nat) (k : Tm) (sg : Sig) :
    DGrow s.denvs (execNew s p fp l body flags k sg).denvs := by
  unfold execNew
  simp only []
  rw [deliverValue_denvs]
  exact foldl_newEnvStep_dgrow p flags (s, fp, none)

/-- one machine step never removes a table and never changes a prototype link -/
theorem step_dgrow (s : State) : DGrow s.denvs (step s).denvs := by
  unfold step
  repeat' split
  all_goals first
    | exact DGrow.refl _
    | exact execPrim_dgrow ..
    | exact execNew_dgrow ..
    | (apply DGrow.of_eq; first
        | rfl
        | (rw [raise_denvs])
        | (rw [panic_denvs])
        | (rw [log_denvs] <;> rfl)
        | (rw [execLoopNext_denvs] <;> rfl))

/-- ★ along EVERY execution: the tables a fiber's chain consists of are never removed, and a prototype link (`:p`
    inheritance), once made, is there for ever — so "inherits from" is a permanent relation between fibers -/
theorem run_dgrow : ∀ (n : Nat) (s : State), DGrow s.denvs (run n s).denvs := by
  intro n
  induction n with
  | zero => intro s; exact DGrow.refl _
  | succ n ih =>
    intro s
    unfold run
    split
    · exact DGrow.refl _
    · exact (step_dgrow s).trans (ih _)

end JanetModel.Fiber
