/- C05 — the global invariant of the fiber machine and status monotonicity for every `step` (no Mathlib).
   Needs the patched shape of janet_continue_no_check (`chainAliveMarked`): every live activation is alive. -/
import JanetModel.Fiber.Lemmas
namespace JanetModel.Fiber
open JanetModel.Gen.Fiber

/-- allowed status movement: stay, or leave a non-finished status for anything but `new` -/
def Fwd (a b : Nat) : Prop := a = b ∨ (isFinished a = false ∧ b ≠ stNew)

theorem Fwd.refl (a : Nat) : Fwd a a := Or.inl rfl

theorem Fwd.trans {a b c : Nat} (h1 : Fwd a b) (h2 : Fwd b c) : Fwd a c := by
  rcases h1 with rfl | ⟨ha, hb⟩
  · exact h2
  · rcases h2 with rfl | ⟨_, hc⟩
    · exact Or.inr ⟨ha, hb⟩
    · exact Or.inr ⟨ha, hc⟩

/-- `fiber->env` is only ever assigned when it is NULL: an environment index, once set, stays -/
def DKeep (a b : Fiber) : Prop := ∀ e, a.denv = some e → b.denv = some e

theorem DKeep.refl (a : Fiber) : DKeep a a := fun _ h => h
theorem DKeep.trans {a b c : Fiber} (h1 : DKeep a b) (h2 : DKeep b c) : DKeep a c := fun e h => h2 e (h1 e h)
theorem DKeep.of_eq {a b : Fiber} (h : b.denv = a.denv) : DKeep a b := fun e he => by rw [h]; exact he

/-- discharges the `DKeep` side condition of a record update that does not touch `denv` (directly, or relative to a
    `DKeep` hypothesis in the context) -/
macro "dkeep_tac" : tactic =>
  `(tactic| first | exact DKeep.refl _ | (intro e he; exact he) | (intro e he; exact (by assumption : DKeep _ _) e he))

/-- every fiber of `s` is still there in `s'`, its status moved forward (or not at all), its mask is the same, and its
    environment index, if it had one, is the same -/
def Mono (s s' : State) : Prop :=
  ∀ g fg, s.fiber? g = some fg → ∃ fg', s'.fiber? g = some fg' ∧ Fwd fg.status fg'.status ∧ fg'.mask = fg.mask ∧ DKeep fg fg'

theorem Mono.refl (s : State) : Mono s s := fun _ fg h => ⟨fg, h, Fwd.refl _, rfl, DKeep.refl _⟩

theorem Mono.trans {a b c : State} (h1 : Mono a b) (h2 : Mono b c) : Mono a c := by
  intro g fg h
  obtain ⟨fg', h', hf, hm, hd⟩ := h1 g fg h
  obtain ⟨fg'', h'', hf', hm', hd'⟩ := h2 g fg' h'
  exact ⟨fg'', h'', hf.trans hf', hm'.trans hm, hd.trans hd'⟩

theorem Mono.of_fibers_eq {s s' : State} (h : s'.fibers = s.fibers) : Mono s s' := by
  intro g fg hg
  refine ⟨fg, ?_, Fwd.refl _, rfl, DKeep.refl _⟩
  unfold State.fiber? at *
  rw [h]; exact hg

def PendOK (s : State) : Prop := ∀ g fg sg, s.fiber? g = some fg → fg.pending = some sg → sg < stNew

/-- the activation stack: no fiber twice, every one of them alive -/
def StackOK (s : State) (stk : List FId) : Prop :=
  stk.Nodup ∧ ∀ p ∈ stk, ∃ fp, s.fiber? p = some fp ∧ fp.status = stAlive

def Inv (s : State) : Prop := PendOK s ∧ (s.halt = none → StackOK s s.stack)

/-- result of a machine function: statuses moved forward, invariant holds again -/
def Res (s s' : State) : Prop := Mono s s' ∧ Inv s'

theorem PendOK.of_fibers_eq {s s' : State} (h : s'.fibers = s.fibers) (hp : PendOK s) : PendOK s' := by
  intro g fg sg hg; apply hp g fg sg; unfold State.fiber? at *; rw [← h]; exact hg

theorem StackOK.of_fibers_eq {s s' : State} {stk : List FId} (h : s'.fibers = s.fibers) (hs : StackOK s stk) : StackOK s' stk := by
  refine ⟨hs.1, fun p hp => ?_⟩
  obtain ⟨fp, h1, h2⟩ := hs.2 p hp
  exact ⟨fp, by unfold State.fiber? at *; rw [h]; exact h1, h2⟩

theorem fiber?_lt {s : State} {p : FId} {fp : Fiber} (h : s.fiber? p = some fp) : p < s.fibers.length := by
  unfold State.fiber? at h
  rcases Nat.lt_or_ge p s.fibers.length with hl | hl
  · exact hl
  · rw [List.getElem?_eq_none hl] at h; cases h

theorem fiber?_setFiber_eq {s : State} {p : FId} {fp : Fiber} (x : Fiber) (h : s.fiber? p = some fp) :
    (s.setFiber p x).fiber? p = some x := by
  have := fiber?_lt h
  unfold State.setFiber State.fiber?
  simp [this]

theorem Mono.setFiber {s : State} {p : FId} {cur : Fiber} (x : Fiber) (h : s.fiber? p = some cur)
    (hf : Fwd cur.status x.status) (hm : x.mask = cur.mask) (hd : DKeep cur x := by dkeep_tac) : Mono s (s.setFiber p x) := by
  intro g fg hg
  by_cases hgp : g = p
  · subst hgp
    rw [h] at hg; cases hg
    exact ⟨x, fiber?_setFiber_eq x h, hf, hm, hd⟩
  · exact ⟨fg, by rw [fiber?_setFiber_ne _ _ _ _ hgp]; exact hg, Fwd.refl _, rfl, DKeep.refl _⟩

theorem PendOK.setFiber {s : State} (p : FId) (x : Fiber) (hp : PendOK s) (hx : ∀ sg, x.pending = some sg → sg < stNew) :
    PendOK (s.setFiber p x) := by
  intro g fg sg hg hpe
  by_cases hgp : g = p
  · subst hgp
    by_cases hl : g < s.fibers.length
    · have : (s.setFiber g x).fiber? g = some x := by unfold State.setFiber State.fiber?; simp [hl]
      rw [this] at hg; cases hg; exact hx sg hpe
    · have : (s.setFiber g x).fiber? g = none := by
        unfold State.setFiber State.fiber?; simp [hl]
      rw [this] at hg; cases hg
  · rw [fiber?_setFiber_ne _ _ _ _ hgp] at hg; exact hp g fg sg hg hpe

theorem StackOK.setFiber_notin {s : State} {stk : List FId} (p : FId) (x : Fiber) (hs : StackOK s stk) (hn : p ∉ stk) :
    StackOK (s.setFiber p x) stk := by
  refine ⟨hs.1, fun q hq => ?_⟩
  obtain ⟨fq, h1, h2⟩ := hs.2 q hq
  have : q ≠ p := fun h => hn (h ▸ hq)
  exact ⟨fq, by rw [fiber?_setFiber_ne _ _ _ _ this]; exact h1, h2⟩

theorem StackOK.setFiber_alive {s : State} {stk : List FId} {p : FId} {cur : Fiber} (x : Fiber) (hs : StackOK s stk)
    (h : s.fiber? p = some cur) (ha : x.status = stAlive) : StackOK (s.setFiber p x) stk := by
  refine ⟨hs.1, fun q hq => ?_⟩
  by_cases hqp : q = p
  · subst hqp; exact ⟨x, fiber?_setFiber_eq x h, ha⟩
  · obtain ⟨fq, h1, h2⟩ := hs.2 q hq
    exact ⟨fq, by rw [fiber?_setFiber_ne _ _ _ _ hqp]; exact h1, h2⟩

theorem StackOK.cons {s : State} {stk : List FId} {p : FId} {fp : Fiber} (hs : StackOK s stk) (hn : p ∉ stk)
    (h : s.fiber? p = some fp) (ha : fp.status = stAlive) : StackOK s (p :: stk) := by
  refine ⟨List.nodup_cons.mpr ⟨hn, hs.1⟩, fun q hq => ?_⟩
  rcases List.mem_cons.mp hq with rfl | hq
  · exact ⟨fp, h, ha⟩
  · exact hs.2 q hq

theorem StackOK.tail {s : State} {stk : List FId} {p : FId} (hs : StackOK s (p :: stk)) : StackOK s stk ∧ p ∉ stk :=
  ⟨⟨(List.nodup_cons.mp hs.1).2, fun q hq => hs.2 q (List.mem_cons_of_mem _ hq)⟩, (List.nodup_cons.mp hs.1).1⟩

theorem alive_not_finished : isFinished stAlive = false := by decide

theorem fwd_alive {b : Nat} (h : b < stNew) : Fwd stAlive b := Or.inr ⟨alive_not_finished, Nat.ne_of_lt h⟩

theorem not_mem_of_not_alive {s : State} {stk : List FId} {f : FId} {cur : Fiber} (hs : StackOK s stk)
    (h : s.fiber? f = some cur) (hna : cur.status ≠ stAlive) : f ∉ stk := by
  intro hm
  obtain ⟨fp, h1, h2⟩ := hs.2 f hm
  rw [h] at h1; cases h1; exact hna h2


theorem log_fibers (s : State) (l f : Nat) (v : Val) : (s.log l f v).fibers = s.fibers := by unfold State.log; split <;> rfl
theorem log_stack (s : State) (l f : Nat) (v : Val) : (s.log l f v).stack = s.stack := by unfold State.log; split <;> rfl
theorem log_halt (s : State) (l f : Nat) (v : Val) : (s.log l f v).halt = s.halt := by unfold State.log; split <;> rfl

theorem Inv.of_eq {s s' : State} (hf : s'.fibers = s.fibers) (hs : s'.stack = s.stack) (hh : s'.halt = s.halt) (h : Inv s) : Inv s' :=
  ⟨h.1.of_fibers_eq hf, fun hn => by rw [hs]; exact (h.2 (hh ▸ hn)).of_fibers_eq hf⟩

theorem Res.log {s s' : State} (l f : Nat) (v : Val) (h : Res s s') : Res s (s'.log l f v) :=
  ⟨h.1.trans (Mono.of_fibers_eq (log_fibers ..)), h.2.of_eq (log_fibers ..) (log_stack ..) (log_halt ..)⟩

theorem Res.stop (s : State) (hp : PendOK s) (h : Halt) : Res s (s.stop h) :=
  ⟨Mono.refl s, hp, fun hn => by simp [State.stop] at hn⟩

theorem Res.trans {a b c : State} (h1 : Mono a b) (h2 : Res b c) : Res a c := ⟨h1.trans h2.1, h2.2⟩

/-- a write to the head of the stack that keeps it alive -/
theorem res_setFiber_head {s : State} {p : FId} {cur : Fiber} {rest : List FId} (x : Fiber)
    (hstk : s.stack = p :: rest) (hcur : s.fiber? p = some cur) (hf : Fwd cur.status x.status) (hm : x.mask = cur.mask)
    (hal : x.status = stAlive) (hpo : PendOK s) (hpp : ∀ sg, x.pending = some sg → sg < stNew)
    (hs : StackOK s rest) (hn : p ∉ rest) (hd : DKeep cur x := by dkeep_tac) : Res s (s.setFiber p x) := by
  refine ⟨Mono.setFiber x hcur hf hm hd, hpo.setFiber p x hpp, fun _ => ?_⟩
  show StackOK (s.setFiber p x) s.stack
  rw [hstk]
  exact (hs.setFiber_notin p x hn).cons hn (fiber?_setFiber_eq x hcur) hal

theorem deliverValue_res {s : State} {p : FId} {cur fp : Fiber} (c : Cont) (v : Val) {rest : List FId}
    (hstk : s.stack = p :: rest) (hcur : s.fiber? p = some cur) (hf : Fwd cur.status fp.status) (hm : fp.mask = cur.mask)
    (hal : fp.status = stAlive) (hpo : PendOK s) (hpp : ∀ sg, fp.pending = some sg → sg < stNew)
    (hs : StackOK s rest) (hn : p ∉ rest) (hd : DKeep cur fp := by dkeep_tac) : Res s (deliverValue s p fp c v) := by
  unfold deliverValue
  split
  · exact Res.log _ _ _ (res_setFiber_head _ hstk hcur (by exact hf) (by exact hm) (by exact hal) hpo (by exact hpp) hs hn)
  · split
    · exact Res.log _ _ _ (res_setFiber_head _ hstk hcur (by exact hf) (by exact hm) (by exact hal) hpo (by exact hpp) hs hn)
    · exact res_setFiber_head _ hstk hcur (by exact hf) (by exact hm) (by exact hal) hpo (by exact hpp) hs hn

theorem coerce_lt (sig : Nat) (v : Val) (h : sig < stNew) : (coerce sig v).1 < stNew := by
  unfold coerce; split <;> exact (by decide : sigError < stNew)

/-- `unwind` keeps the invariant and only moves statuses forward, for every depth of the caller chain. -/
theorem unwind_res : ∀ (stack : List FId) (s : State) (c : FId) (sig : Nat) (v : Val),
    PendOK s → StackOK s stack → sig < stNew → Res s (unwind s stack c sig v) := by
  intro stack
  induction stack with
  | nil =>
    intro s c sig v hp _ _
    exact ⟨Mono.refl s, hp, fun hn => by simp [unwind] at hn⟩
  | cons p rest ih =>
    intro s c sig v hp hs hsig
    obtain ⟨hsr, hnr⟩ := hs.tail
    obtain ⟨cur, hcur, hal⟩ := hs.2 p (List.mem_cons_self ..)
    unfold unwind
    simp only []
    split
    · rename_i fp fc hfp hfc
      rw [hcur] at hfp; cases hfp
      split
      · exact Res.stop s hp _
      · split
        · split
          · exact deliverValue_res (s := { s with stack := p :: rest }) _ _ rfl hcur (Fwd.refl _) rfl hal hp
              (fun sg h => hp p cur sg hcur h) hsr hnr
          · split
            · rename_i sg hsg
              have hlt : sg < stNew := hp p cur sg hcur hsg
              have hfw : Fwd cur.status sg := by rw [hal]; exact fwd_alive hlt
              exact Res.trans (Mono.setFiber _ hcur (by exact hfw) (by rfl))
                (ih _ _ _ _ (hp.setFiber p _ (by intro _ h; simp at h)) (hsr.setFiber_notin p _ hnr) hlt)
            · exact deliverValue_res (s := { s with stack := p :: rest }) _ _ rfl hcur (hal ▸ Fwd.refl _) rfl rfl hp
                (fun sg h => hp p cur sg hcur h) hsr hnr
        · have hlt : (if inCcall cur = true then coerce sig v else (sig, v)).1 < stNew := by
            split
            · exact coerce_lt sig v hsig
            · exact hsig
          have hfw : Fwd cur.status (if inCcall cur = true then coerce sig v else (sig, v)).1 := by rw [hal]; exact fwd_alive hlt
          exact Res.trans (Mono.setFiber _ hcur (by exact hfw) (by rfl))
            (ih _ _ _ _ (hp.setFiber p _ (by exact fun sg h => hp p cur sg hcur h)) (hsr.setFiber_notin p _ hnr) hlt)
    · exact Res.stop s hp _

theorem sigError_lt : sigError < stNew := by decide

theorem raise_res {s : State} {p : FId} {cur fp : Fiber} {rest : List FId} {sig : Nat} (v : Val)
    (hcur : s.fiber? p = some cur) (hal : cur.status = stAlive) (hm : fp.mask = cur.mask)
    (hpo : PendOK s) (hpp : ∀ sg, fp.pending = some sg → sg < stNew) (hs : StackOK s rest) (hn : p ∉ rest)
    (hsig : sig < stNew) (hd : DKeep cur fp := by dkeep_tac) : Res s (raise s p fp rest sig v) := by
  unfold raise
  split
  · exact Res.stop s hpo _
  · have hlt : (if inCcall fp = true then coerce sig v else (sig, v)).1 < stNew := by
      split
      · exact coerce_lt sig v hsig
      · exact hsig
    have hfw : Fwd cur.status (if inCcall fp = true then coerce sig v else (sig, v)).1 := by rw [hal]; exact fwd_alive hlt
    exact Res.trans (Mono.setFiber _ hcur (by exact hfw) (by exact hm))
      (unwind_res _ _ _ _ _ (hpo.setFiber p _ (by exact hpp)) (hs.setFiber_notin p _ hn) hlt)

theorem panic_res {s : State} {p : FId} {cur fp : Fiber} {rest : List FId} (msg : String)
    (hcur : s.fiber? p = some cur) (hal : cur.status = stAlive) (hm : fp.mask = cur.mask)
    (hpo : PendOK s) (hpp : ∀ sg, fp.pending = some sg → sg < stNew) (hs : StackOK s rest) (hn : p ∉ rest)
    (hd : DKeep cur fp := by dkeep_tac) :
    Res s (panic s p fp rest msg) :=
  raise_res _ hcur hal hm hpo hpp hs hn sigError_lt hd

theorem not_refused {st : Nat} (h : refuseResume.contains st = false) : isFinished st = false ∧ st ≠ stAlive := by
  constructor
  · unfold isFinished; rw [h]; rfl
  · intro he; subst he; revert h; decide

theorem checkCanResume_none {fp : Fiber} {b : Bool} (h : checkCanResume fp b = none) : refuseResume.contains fp.status = false := by
  unfold checkCanResume at h
  split at h
  · cases h
  · split at h
    · cases h
    · rename_i hc; simpa using hc

theorem startRun_res {s : State} {f : FId} {cur ff : Fiber} (stk : List FId) (v : Val)
    (hcur : s.fiber? f = some cur) (hnr : refuseResume.contains cur.status = false) (hm : ff.mask = cur.mask)
    (hpo : PendOK s) (hpp : ∀ sg, ff.pending = some sg → sg < stNew) (hs : StackOK s stk) (hd : DKeep cur ff := by dkeep_tac) :
    Res s (startRun s stk f ff v) := by
  obtain ⟨hnf, hna⟩ := not_refused hnr
  have hn : f ∉ stk := not_mem_of_not_alive hs hcur hna
  have hfa : Fwd cur.status stAlive := Or.inr ⟨hnf, by decide⟩
  unfold startRun
  split
  · rename_i sg hsg
    have hlt : sg < stNew := hpp sg hsg
    exact Res.trans (Mono.setFiber _ hcur (by exact Or.inr ⟨hnf, Nat.ne_of_lt hlt⟩) (by exact hm))
      (unwind_res _ _ _ _ _ (hpo.setFiber f _ (by intro _ h; simp at h)) (hs.setFiber_notin f _ hn) hlt)
  · split
    · refine ⟨Mono.trans (Mono.setFiber _ hcur (by exact hfa) (by exact hm)) (Mono.of_fibers_eq rfl),
        (hpo.setFiber f _ (by exact hpp)).of_fibers_eq rfl, fun _ => ?_⟩
      exact ((hs.setFiber_notin f _ hn).cons hn (fiber?_setFiber_eq _ hcur) rfl).of_fibers_eq rfl
    · exact deliverValue_res (s := { s with stack := f :: stk }) _ _ rfl hcur (by exact hfa) (by exact hm) rfl hpo (by exact hpp) hs hn

/-- janet_continue_no_check keeps the invariant, for every depth of the child chain (needs `chainAliveMarked`). -/
theorem contNoCheck_res : ∀ (fuel : Nat) (s : State) (stk : List FId) (f : FId) (v : Val),
    PendOK s → StackOK s stk → (∀ cur, s.fiber? f = some cur → refuseResume.contains cur.status = false) →
    Res s (contNoCheck fuel s stk f v) := by
  intro fuel
  induction fuel with
  | zero => intro s stk f v hp _ _; exact Res.stop s hp _
  | succ n ih =>
    intro s stk f v hp hs hnr
    unfold contNoCheck
    split
    · exact Res.stop s hp _
    · rename_i ff0 hff0
      have hnr0 := hnr ff0 hff0
      obtain ⟨hnf, hna⟩ := not_refused hnr0
      have hn : f ∉ stk := not_mem_of_not_alive hs hff0 hna
      split
      · -- child branch
        simp only [chainAliveMarked, if_true]
        have hm1 : Mono s (s.setFiber f { ff0 with last := .nil, passThrough := true, status := stAlive }) :=
          Mono.setFiber _ hff0 (Or.inr ⟨hnf, (by decide : stAlive ≠ stNew)⟩) rfl
        have hp1 : PendOK (s.setFiber f { ff0 with last := .nil, passThrough := true, status := stAlive }) :=
          hp.setFiber f _ (fun sg h => hp f ff0 sg hff0 h)
        have hs1 : StackOK (s.setFiber f { ff0 with last := .nil, passThrough := true, status := stAlive }) (f :: stk) :=
          (hs.setFiber_notin f _ hn).cons hn (fiber?_setFiber_eq _ hff0) rfl
        split
        · exact Res.trans hm1 (Res.stop _ hp1 _)
        · rename_i fc hfc
          split
          · exact Res.trans hm1 (unwind_res _ _ _ _ _ hp1 hs1 sigError_lt)
          · rename_i hchk
            refine Res.trans hm1 (ih _ _ _ _ hp1 hs1 ?_)
            intro cur' hcur'
            rw [hfc] at hcur'; cases hcur'
            exact checkCanResume_none hchk
      · simp only []
        exact Res.trans (Mono.setFiber { ff0 with last := .nil } hff0 (Fwd.refl _) rfl)
          (startRun_res (ff := { ff0 with last := .nil }) stk v (fiber?_setFiber_eq _ hff0) (by exact hnr0) (by rfl)
            (hp.setFiber f _ (fun sg h => hp f ff0 sg hff0 h)) (by exact fun sg h => hp f ff0 sg hff0 h) (hs.setFiber_notin f _ hn))

/-- `s'` differs from `s` only in things the invariant does not look at, plus a rewrite of fiber `p`'s record
    (`fp` ↦ `fp'`) that keeps status, mask and pending signal. -/
structure Tweak (s s' : State) (p : FId) (fp fp' : Fiber) : Prop where
  mono : Mono s s'
  pend : PendOK s → PendOK s'
  stk : ∀ stk, StackOK s stk → StackOK s' stk
  stack : s'.stack = s.stack
  cur : s'.fiber? p = some fp'
  st : fp'.status = fp.status
  msk : fp'.mask = fp.mask
  pe : fp'.pending = fp.pending
  rt : fp'.root = fp.root
  other : ∀ q fq, q ≠ p → s.fiber? q = some fq → s'.fiber? q = some fq
  back : ∀ q fq, q ≠ p → s'.fiber? q = some fq → s.fiber? q = some fq ∨ fq.child = none

theorem Tweak.refl {s : State} {p : FId} {fp : Fiber} (h : s.fiber? p = some fp) : Tweak s s p fp fp :=
  ⟨Mono.refl s, id, fun _ h => h, rfl, h, rfl, rfl, rfl, rfl, fun _ _ _ h => h, fun _ _ _ h => Or.inl h⟩

theorem Tweak.trans {a b c : State} {p : FId} {f0 f1 f2 : Fiber} (h1 : Tweak a b p f0 f1) (h2 : Tweak b c p f1 f2) : Tweak a c p f0 f2 :=
  ⟨h1.mono.trans h2.mono, fun h => h2.pend (h1.pend h), fun k h => h2.stk k (h1.stk k h), h2.stack.trans h1.stack, h2.cur,
   h2.st.trans h1.st, h2.msk.trans h1.msk, h2.pe.trans h1.pe, h2.rt.trans h1.rt,
   fun q fq hq h => h2.other q fq hq (h1.other q fq hq h),
   fun q fq hq h => (h2.back q fq hq h).elim (fun h' => h1.back q fq hq h') Or.inr⟩

theorem Tweak.of_fibers_eq {s s' : State} {p : FId} {fp : Fiber} (h : s.fiber? p = some fp) (hf : s'.fibers = s.fibers)
    (hs : s'.stack = s.stack) : Tweak s s' p fp fp :=
  ⟨Mono.of_fibers_eq hf, fun hp => hp.of_fibers_eq hf, fun _ hk => hk.of_fibers_eq hf, hs,
   by unfold State.fiber? at *; rw [hf]; exact h, rfl, rfl, rfl, rfl,
   fun q fq _ hq => by unfold State.fiber? at *; rw [hf]; exact hq,
   fun q fq _ hq => Or.inl (by unfold State.fiber? at *; rw [← hf]; exact hq)⟩

theorem Tweak.setFiber {s : State} {p : FId} {fp : Fiber} (x : Fiber) (h : s.fiber? p = some fp)
    (hst : x.status = fp.status) (hm : x.mask = fp.mask) (hpe : x.pending = fp.pending) (hrt : x.root = fp.root)
    (hdk : DKeep fp x := by dkeep_tac) :
    Tweak s (s.setFiber p x) p fp x := by
  refine ⟨Mono.setFiber x h (hst ▸ Fwd.refl _) hm hdk, fun hp => hp.setFiber p x (fun sg hx => hp p fp sg h (hpe ▸ hx)), ?_, rfl,
    fiber?_setFiber_eq x h, hst, hm, hpe, hrt, fun q fq hq hh => by rw [fiber?_setFiber_ne _ _ _ _ hq]; exact hh,
    fun q fq hq hh => Or.inl (by rw [fiber?_setFiber_ne _ _ _ _ hq] at hh; exact hh)⟩
  intro stk hk
  refine ⟨hk.1, fun q hq => ?_⟩
  obtain ⟨fq, h1, h2⟩ := hk.2 q hq
  by_cases hqp : q = p
  · subst hqp
    rw [h] at h1; cases h1
    exact ⟨x, fiber?_setFiber_eq x h, hst.trans h2⟩
  · exact ⟨fq, by rw [fiber?_setFiber_ne _ _ _ _ hqp]; exact h1, h2⟩

theorem ensureEnv_tweak {s : State} {p : FId} {fp : Fiber} (h : s.fiber? p = some fp) :
    Tweak s (ensureEnv s p fp).1 p fp (ensureEnv s p fp).2.1 := by
  unfold ensureEnv
  split
  · exact Tweak.refl h
  · rename_i hnone
    -- the ONLY write to `denv`: from `none` (`if (!janet_vm.fiber->env) janet_vm.fiber->env = janet_table(0)`)
    exact (Tweak.of_fibers_eq (s' := { s with denvs := s.denvs ++ [{ proto := none, tbl := [] }] }) h rfl rfl).trans
      (Tweak.setFiber _ (by exact h) rfl rfl rfl rfl (fun e he => by rw [hnone] at he; cases he))

theorem newEnvStep_tweak {p : FId} {acc : State × Fiber × Option Nat} (c : Nat) (h : acc.1.fiber? p = some acc.2.1) :
    Tweak acc.1 (newEnvStep p acc c).1 p acc.2.1 (newEnvStep p acc c).2.1 := by
  unfold newEnvStep
  split
  · exact ensureEnv_tweak h
  · split
    · exact (ensureEnv_tweak h).trans (Tweak.of_fibers_eq (ensureEnv_tweak h).cur rfl rfl)
    · exact Tweak.refl h

theorem foldl_newEnvStep_tweak {p : FId} : ∀ (flags : List Nat) (acc : State × Fiber × Option Nat),
    acc.1.fiber? p = some acc.2.1 →
    Tweak acc.1 (flags.foldl (newEnvStep p) acc).1 p acc.2.1 (flags.foldl (newEnvStep p) acc).2.1 := by
  intro flags
  induction flags with
  | nil => intro acc h; exact Tweak.refl h
  | cons c cs ih =>
    intro acc h
    rw [List.foldl_cons]
    exact (newEnvStep_tweak c h).trans (ih _ (newEnvStep_tweak c h).cur)

/-- context of one instruction: fiber `p` is the head of the stack -/
structure Ctx (s : State) (p : FId) (fp : Fiber) (rest : List FId) : Prop where
  hstk : s.stack = p :: rest
  hfp : s.fiber? p = some fp
  hpo : PendOK s
  hs : StackOK s (p :: rest)

theorem Ctx.alive {s p fp rest} (c : Ctx s p fp rest) : fp.status = stAlive := by
  obtain ⟨x, h1, h2⟩ := c.hs.2 p (List.mem_cons_self ..)
  rw [c.hfp] at h1; cases h1; exact h2

theorem Ctx.pp {s p fp rest} (c : Ctx s p fp rest) : ∀ sg, fp.pending = some sg → sg < stNew := fun sg h => c.hpo p fp sg c.hfp h

theorem Ctx.tweak {s s' p fp fp' rest} (c : Ctx s p fp rest) (t : Tweak s s' p fp fp') : Ctx s' p fp' rest :=
  ⟨t.stack.trans c.hstk, t.cur, t.pend c.hpo, t.stk _ c.hs⟩

/-- the instruction completes with a value -/
theorem Ctx.bind {s p fp rest} (c : Ctx s p fp rest) (fp' : Fiber) (cont : Cont) (v : Val)
    (hst : fp'.status = fp.status) (hm : fp'.mask = fp.mask) (hpe : fp'.pending = fp.pending) (hdk : DKeep fp fp' := by dkeep_tac) :
    Res s (deliverValue s p fp' cont v) :=
  deliverValue_res cont v c.hstk c.hfp (hst ▸ Fwd.refl _) hm (hst.trans c.alive) c.hpo (fun sg h => c.pp sg (hpe ▸ h)) c.hs.tail.1 c.hs.tail.2 hdk

theorem Ctx.raise {s p fp rest} (c : Ctx s p fp rest) (fp' : Fiber) {sig : Nat} (v : Val)
    (hm : fp'.mask = fp.mask) (hpe : fp'.pending = fp.pending) (hsig : sig < stNew) (hdk : DKeep fp fp' := by dkeep_tac) :
    Res s (raise s p fp' rest sig v) :=
  raise_res v c.hfp c.alive hm c.hpo (fun sg h => c.pp sg (hpe ▸ h)) c.hs.tail.1 c.hs.tail.2 hsig hdk

theorem refuse_after_tweak {s s' : State} {p : FId} {fp fp' : Fiber} (t : Tweak s s' p fp fp') (hfp : s.fiber? p = some fp)
    {g : FId} (h : ∀ cur, s.fiber? g = some cur → refuseResume.contains cur.status = false)
    (hother : ∀ q, q ≠ p → s'.fiber? q = s.fiber? q) :
    ∀ cur, s'.fiber? g = some cur → refuseResume.contains cur.status = false := by
  intro cur hc
  by_cases hg : g = p
  · subst hg
    rw [t.cur] at hc; cases hc
    rw [t.st]; exact h fp hfp
  · rw [hother g hg] at hc; exact h cur hc

/-- the instruction enters another fiber: `fiber->child = g; janet_continue_no_check(g, v)` -/
theorem Ctx.enter {s p fp rest} (c : Ctx s p fp rest) (x : Fiber) (g : FId) (fg : Fiber) (b : Bool) (fuel : Nat) (v : Val)
    (hst : x.status = fp.status) (hm : x.mask = fp.mask) (hpe : x.pending = fp.pending) (hrt : x.root = fp.root)
    (hg : s.fiber? g = some fg) (hchk : checkCanResume fg b = none) (hdk : DKeep fp x := by dkeep_tac) :
    Res s (contNoCheck fuel (s.setFiber p x) (p :: rest) g v) := by
  have t := Tweak.setFiber x c.hfp hst hm hpe hrt hdk
  have c' := c.tweak t
  refine Res.trans t.mono (contNoCheck_res _ _ _ _ _ c'.hpo c'.hs ?_)
  refine refuse_after_tweak t c.hfp (fun cur h => ?_) (fun q hq => fiber?_setFiber_ne _ _ _ _ hq)
  rw [hg] at h; cases h; exact checkCanResume_none hchk

theorem StackOK.setFiber_same {s : State} {stk : List FId} {d : FId} {fd : Fiber} (x : Fiber) (hk : StackOK s stk)
    (hd : s.fiber? d = some fd) (hst : x.status = fd.status) : StackOK (s.setFiber d x) stk := by
  refine ⟨hk.1, fun q hq => ?_⟩
  obtain ⟨fq, h1, h2⟩ := hk.2 q hq
  by_cases hqd : q = d
  · subst hqd
    rw [hd] at h1; cases h1
    exact ⟨x, fiber?_setFiber_eq x hd, hst.trans h2⟩
  · exact ⟨fq, by rw [fiber?_setFiber_ne _ _ _ _ hqd]; exact h1, h2⟩

theorem cancelSignal_lt : cancelSignal < stNew := by decide

/-- `cancel`: additionally mark the innermost descendant `d` with the pending signal, then enter -/
theorem Ctx.enterMarked {s p fp rest} (c : Ctx s p fp rest) (x : Fiber) (g : FId) (fg : Fiber) (b : Bool) (fuel : Nat) (v : Val)
    (d : FId) (fd : Fiber)
    (hst : x.status = fp.status) (hm : x.mask = fp.mask) (hpe : x.pending = fp.pending) (hrt : x.root = fp.root)
    (hg : s.fiber? g = some fg) (hchk : checkCanResume fg b = none) (hd : (s.setFiber p x).fiber? d = some fd)
    (hdk : DKeep fp x := by dkeep_tac) :
    Res s (contNoCheck fuel ((s.setFiber p x).setFiber d { fd with pending := some cancelSignal }) (p :: rest) g v) := by
  have t := Tweak.setFiber x c.hfp hst hm hpe hrt hdk
  have c' := c.tweak t
  have h1 : ∀ cur, (s.setFiber p x).fiber? g = some cur → refuseResume.contains cur.status = false := by
    refine refuse_after_tweak t c.hfp (fun cur h => ?_) (fun q hq => fiber?_setFiber_ne _ _ _ _ hq)
    rw [hg] at h; cases h; exact checkCanResume_none hchk
  have hm2 : Mono (s.setFiber p x) ((s.setFiber p x).setFiber d { fd with pending := some cancelSignal }) :=
    Mono.setFiber _ hd (Fwd.refl _) rfl
  have hp2 : PendOK ((s.setFiber p x).setFiber d { fd with pending := some cancelSignal }) := by
    refine c'.hpo.setFiber d _ ?_
    intro sg h
    have h2 : cancelSignal = sg := by simpa using h
    exact h2 ▸ cancelSignal_lt
  have hs2 : StackOK ((s.setFiber p x).setFiber d { fd with pending := some cancelSignal }) (p :: rest) :=
    c'.hs.setFiber_same _ hd rfl
  refine Res.trans (t.mono.trans hm2) (contNoCheck_res _ _ _ _ _ hp2 hs2 ?_)
  intro cur hc
  by_cases hgd : g = d
  · subst hgd
    rw [fiber?_setFiber_eq _ hd] at hc; cases hc
    exact h1 fd hd
  · rw [fiber?_setFiber_ne _ _ _ _ hgd] at hc; exact h1 cur hc

theorem execPrim_res {s : State} {p : FId} {fp : Fiber} {rest : List FId} (c : Ctx s p fp rest) (l : Nat) (pr : Prim) (k : Tm) :
    Res s (execPrim s p fp rest l pr k) := by
  unfold execPrim
  simp only []
  cases pr <;> simp only []
  all_goals repeat' split
  all_goals first
    | exact c.bind _ _ _ rfl rfl rfl
    | exact c.raise _ _ rfl rfl (by decide)
    | exact c.raise _ _ rfl rfl (by simp only [userBase, userMax, stNew, propagateMaxStatus] at *; omega)
    | exact panic_res _ c.hfp c.alive rfl c.hpo c.pp c.hs.tail.1 c.hs.tail.2
    | exact Res.stop _ c.hpo _
    | exact c.enter _ _ _ _ _ _ rfl rfl rfl rfl (by assumption) (by assumption)
    | exact c.enterMarked _ _ _ _ _ _ _ _ rfl rfl rfl rfl (by assumption) (by assumption) (by assumption)
    | (refine Res.trans ?_ (Res.stop _ ?_ _)
       · exact (Tweak.setFiber _ c.hfp (by rfl) (by rfl) (by rfl) (by rfl)).mono
       · exact (Tweak.setFiber _ c.hfp (by rfl) (by rfl) (by rfl) (by rfl)).pend c.hpo)
    | (refine Res.trans ?_ (unwind_res _ _ _ _ _ ?_ ?_ sigError_lt)
       · exact (Tweak.setFiber _ c.hfp (by rfl) (by rfl) (by rfl) (by rfl)).mono
       · exact (Tweak.setFiber _ c.hfp (by rfl) (by rfl) (by rfl) (by rfl)).pend c.hpo
       · exact (Tweak.setFiber _ c.hfp (by rfl) (by rfl) (by rfl) (by rfl)).stk _ c.hs)
    | exact Res.trans (ensureEnv_tweak c.hfp).mono (Res.stop _ ((ensureEnv_tweak c.hfp).pend c.hpo) _)
    | (have t := (ensureEnv_tweak c.hfp)
       refine Res.trans (b := _) ?_ (Ctx.bind (fp := (ensureEnv s p fp).2.1) (rest := rest) ?_ _ _ _ rfl rfl rfl)
       · exact (t.trans (Tweak.of_fibers_eq t.cur rfl rfl)).mono
       · exact c.tweak (t.trans (Tweak.of_fibers_eq t.cur rfl rfl)))

theorem Ctx.res {s s' p fp fp' rest} (c : Ctx s p fp rest) (t : Tweak s s' p fp fp') : Res s s' :=
  ⟨t.mono, t.pend c.hpo, fun _ => by rw [t.stack, c.hstk]; exact t.stk _ c.hs⟩

/-- the part of `Tweak.setFiber` that does not need the root flag -/
theorem Tweak.setFiber' {s : State} {p : FId} {fp : Fiber} (x : Fiber) (h : s.fiber? p = some fp)
    (hst : x.status = fp.status) (hm : x.mask = fp.mask) (hpe : x.pending = fp.pending) (hdk : DKeep fp x := by dkeep_tac) :
    Tweak s (s.setFiber p { x with root := fp.root }) p fp { x with root := fp.root } :=
  Tweak.setFiber _ h hst hm hpe rfl (fun e he => hdk e he)

theorem Tweak.append {s : State} {p : FId} {fp : Fiber} (nf : Fiber) (h : s.fiber? p = some fp) (hnp : nf.pending = none)
    (hnc : nf.child = none) :
    Tweak s { s with fibers := s.fibers ++ [nf] } p fp fp := by
  have key : ∀ g fg, s.fiber? g = some fg → ({ s with fibers := s.fibers ++ [nf] } : State).fiber? g = some fg := by
    intro g fg hg
    have hl := fiber?_lt hg
    unfold State.fiber? at *
    simp only
    rw [List.getElem?_append_left hl]; exact hg
  refine ⟨fun g fg hg => ⟨fg, key g fg hg, Fwd.refl _, rfl, DKeep.refl _⟩, ?_, ?_, rfl, key p fp h, rfl, rfl, rfl, rfl, fun q fq _ hq => key q fq hq, ?_⟩
  · intro hp g fg sg hg hpe
    by_cases hl : g < s.fibers.length
    · refine hp g fg sg ?_ hpe
      unfold State.fiber? at *
      simp only at hg
      rw [List.getElem?_append_left hl] at hg; exact hg
    · unfold State.fiber? at hg
      simp only at hg
      rw [List.getElem?_append_right (Nat.le_of_not_lt hl)] at hg
      cases hidx : g - s.fibers.length with
      | zero => rw [hidx] at hg; simp at hg; subst hg; rw [hnp] at hpe; cases hpe
      | succ n => rw [hidx] at hg; simp at hg
  · intro stk hk
    exact ⟨hk.1, fun q hq => by obtain ⟨fq, h1, h2⟩ := hk.2 q hq; exact ⟨fq, key q fq h1, h2⟩⟩
  · intro q fq _ hq
    by_cases hl : q < s.fibers.length
    · left
      unfold State.fiber? at *
      simp only at hq
      rw [List.getElem?_append_left hl] at hq; exact hq
    · right
      unfold State.fiber? at hq
      simp only at hq
      rw [List.getElem?_append_right (Nat.le_of_not_lt hl)] at hq
      cases hidx : q - s.fibers.length with
      | zero => rw [hidx] at hq; simp at hq; subst hq; exact hnc
      | succ n => rw [hidx] at hq; simp at hq

theorem execNew_res {s : State} {p : FId} {fp : Fiber} {rest : List FId} (c : Ctx s p fp rest) (l : Nat) (body : Tm) (flags : List Nat) (k : Tm) (sg : Sig) :
    Res s (execNew s p fp l body flags k sg) := by
  unfold execNew
  simp only []
  have t := foldl_newEnvStep_tweak (p := p) flags (s, fp, none) c.hfp
  have t2 := t.trans (Tweak.append (s := (flags.foldl (newEnvStep p) (s, fp, none)).1)
    { status := stNew, mask := maskOfFlags flags, ctl := .run body, env := (flags.foldl (newEnvStep p) (s, fp, none)).2.1.env,
      denv := (flags.foldl (newEnvStep p) (s, fp, none)).2.2, sig := sg } t.cur rfl rfl)
  exact Res.trans t2.mono ((c.tweak t2).bind _ _ _ rfl rfl rfl)

theorem execLoopNext_res {s : State} {p : FId} {fp : Fiber} {rest : List FId} (c : Ctx s p fp rest) (l : Nat) (f : Atom) (body k : Tm) :
    Res s (execLoopNext s p fp rest l f body k) := by
  unfold execLoopNext
  simp only []
  repeat' split
  all_goals first
    | exact c.bind _ _ _ rfl rfl rfl
    | exact panic_res _ c.hfp c.alive rfl c.hpo c.pp c.hs.tail.1 c.hs.tail.2
    | exact Res.stop _ c.hpo _
    | exact c.enter _ _ _ _ _ _ rfl rfl rfl rfl (by assumption) (by assumption)
    | (refine Res.trans ?_ (unwind_res _ _ _ _ _ ?_ ?_ sigError_lt)
       · exact (Tweak.setFiber _ c.hfp (by rfl) (by rfl) (by rfl) (by rfl)).mono
       · exact (Tweak.setFiber _ c.hfp (by rfl) (by rfl) (by rfl) (by rfl)).pend c.hpo
       · exact (Tweak.setFiber _ c.hfp (by rfl) (by rfl) (by rfl) (by rfl)).stk _ c.hs)

theorem sigOk_lt : sigOk < stNew := by decide

/-- ★ one step of the machine keeps the invariant and moves every status forward or not at all -/
theorem step_res (s : State) (hinv : Inv s) : Res s (step s) := by
  unfold step
  split
  · exact ⟨Mono.refl s, hinv⟩
  · rename_i hh
    have hso := hinv.2 hh
    split
    · exact Res.stop s hinv.1 _
    · rename_i p rest hstk
      rw [hstk] at hso
      split
      · exact Res.stop s hinv.1 _
      · rename_i fp hfp
        have c : Ctx s p fp rest := ⟨hstk, hfp, hinv.1, hso⟩
        split
        · exact Res.stop s hinv.1 _
        · split
          · -- ret
            simp only []
            split
            · exact c.raise _ _ rfl rfl sigOk_lt
            · exact Res.log _ _ _ (c.res (Tweak.setFiber _ c.hfp (by rfl) (by rfl) (by rfl) (by rfl)))
            · exact Res.log _ _ _ (c.res (Tweak.setFiber _ c.hfp (by rfl) (by rfl) (by rfl) (by rfl)))
            · rename_i env l f body k ks _
              have t := Tweak.setFiber (s := s) (p := p) (fp := fp) { fp with env := env, kont := ks } c.hfp rfl rfl rfl rfl
              exact Res.trans t.mono (execLoopNext_res (c.tweak t) _ _ _ _)
            · exact c.res (Tweak.setFiber _ c.hfp (by rfl) (by rfl) (by rfl) (by rfl))
          · exact c.res (Tweak.setFiber _ c.hfp (by rfl) (by rfl) (by rfl) (by rfl))
          · exact execPrim_res c _ _ _
          · exact execNew_res c _ _ _ _ _
          · split
            · exact panic_res _ c.hfp c.alive rfl c.hpo c.pp c.hs.tail.1 c.hs.tail.2
            · exact execNew_res c _ _ _ _ _
          · exact c.res (Tweak.setFiber _ c.hfp (by rfl) (by rfl) (by rfl) (by rfl))
          · exact c.res (Tweak.setFiber _ c.hfp (by rfl) (by rfl) (by rfl) (by rfl))
          · exact execLoopNext_res c _ _ _ _
          · exact c.res (Tweak.setFiber _ c.hfp (by rfl) (by rfl) (by rfl) (by rfl))

theorem run_res : ∀ (n : Nat) (s : State), Inv s → Res s (run n s) := by
  intro n
  induction n with
  | zero => intro s h; exact ⟨Mono.refl s, h⟩
  | succ n ih =>
    intro s h
    unfold run
    split
    · exact ⟨Mono.refl s, h⟩
    · have h1 := step_res s h
      exact Res.trans h1.1 (ih _ h1.2)

theorem init_inv (t : Tm) (flags : List Nat) : Inv (init t flags) := by
  unfold init initp
  simp only []
  refine (startRun_res (cur := { status := stNew, mask := maskOfFlags flags, ctl := .run t, sig := {} }) [] .nil (by rfl) (by exact (by decide : refuseResume.contains stNew = false)) rfl ?_ (by intro _ h; cases h)
    ⟨List.nodup_nil, fun _ h => by cases h⟩).2
  intro g fg sg hg hpe
  match g, hg with
  | 0, hg => cases hg; cases hpe
  | 1, hg => cases hg; cases hpe
  | n + 2, hg => cases hg

end JanetModel.Fiber
