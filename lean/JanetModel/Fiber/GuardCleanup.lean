/- C05 — the cleanup composition (`Blk` → stuck / exited / passed / still blocked) for the GUARDED machine `stepG`
   (lemma file, no Mathlib): a recursion-guard trip is one more way in which a resume is refused. -/
import JanetModel.Fiber.GuardLemmas
import JanetModel.Fiber.Cleanup
namespace JanetModel.Fiber
open JanetModel.Gen.Fiber

section
variable {m : Nat} {p f : FId} {cont : Cont}

/-- the guard overwrites the status of a resumable fiber `g ≠ f` that is not on the activation stack with :error -/
theorem BCtx.guardSet {s : State} {h : FId} {fh : Fiber} {rest : List FId} (b : BCtx m p f cont s h fh rest)
    {g : FId} {fg : Fiber} (hg : s.fiber? g = some fg) (hgn : g ∉ h :: rest) (hgf : g ≠ f) :
    BCtx m p f cont (s.setFiber g { fg with status := stError }) h fh rest := by
  have hgh : h ≠ g := fun hh => hgn (hh ▸ List.mem_cons_self ..)
  have hfg : f ≠ g := fun hh => hgf hh.symm
  have hfp2 : (s.setFiber g { fg with status := stError }).fiber? h = some fh := by
    rw [fiber?_setFiber_ne _ _ _ _ hgh]; exact b.c.hfp
  refine ⟨⟨b.c.hstk, hfp2, b.c.hpo.setFiber g _ (fun sg hh => b.c.hpo g fg sg hg hh), b.c.hs.setFiber_notin g _ hgn⟩, ?_, ?_, b.hne, b.hhp, b.acc⟩
  · obtain ⟨⟨fp, hfp, hpr⟩, ⟨ff, hff, hfr⟩, hsh⟩ := b.blk
    have hf2 : (s.setFiber g { fg with status := stError }).fiber? f = some ff := by
      rw [fiber?_setFiber_ne _ _ _ _ hfg]; exact hff
    by_cases hpg : p = g
    · subst hpg
      rw [hg] at hfp; cases hfp
      refine ⟨⟨_, fiber?_setFiber_eq _ hg, hpr.1, hpr.2.1, hpr.2.2.1, hpr.2.2.2.1, hpr.2.2.2.2⟩, ⟨ff, hf2, hfr⟩, ?_⟩
      rcases hsh with ⟨h1, h2, _, h4⟩ | hon
      · refine Or.inl ⟨h1, h2, ?_, ?_⟩
        · intro x hx; rw [fiber?_setFiber_eq _ hg] at hx; cases hx; exact (by decide : stError ≠ stAlive)
        · intro x hx; rw [hf2] at hx; cases hx; exact h4 ff hff
      · exact Or.inr hon
    · have hp2 : (s.setFiber g { fg with status := stError }).fiber? p = some fp := by
        rw [fiber?_setFiber_ne _ _ _ _ hpg]; exact hfp
      refine ⟨⟨fp, hp2, hpr⟩, ⟨ff, hf2, hfr⟩, ?_⟩
      rcases hsh with ⟨h1, h2, h3, h4⟩ | hon
      · refine Or.inl ⟨h1, h2, ?_, ?_⟩
        · intro x hx; rw [hp2] at hx; cases hx; exact h3 fp hfp
        · intro x hx; rw [hf2] at hx; cases hx; exact h4 ff hff
      · exact Or.inr hon
  · exact b.only.setFiber _ hg rfl

theorem resumeG_G {lim : Nat} {s : State} {h : FId} {fh : Fiber} {rest : List FId} (b : BCtx m p f cont s h fh rest)
    (hstep : G m p f cont (step s)) (d : Nat) (tv : Val) (bb : Bool) (hT : some tv ≠ some (.fib f)) :
    G m p f cont (resumeG true lim s h rest d tv bb) := by
  unfold resumeG
  split
  · rename_i g
    split
    · exact hstep
    · rename_i fg hg
      split
      · rename_i msg hchk
        obtain ⟨hc, _, _⟩ := checkGuarded_trip_resumable hchk
        obtain ⟨_, hna⟩ := not_refused (checkCanResume_none hc)
        have hgn : g ∉ h :: rest := not_mem_of_not_alive b.c.hs hg hna
        have hgf : g ≠ f := fun hh => hT (by rw [hh])
        have b2 := b.guardSet hg hgn hgf
        simp only [b2.c.hfp]
        exact b2.raise fh _ rfl rfl rfl sigError_lt
      · exact hstep
      · split
        · exact G_stop _ _ rfl
        · exact hstep
  · exact hstep

theorem nextG_G {lim : Nat} {s0 s : State} {h : FId} {fh : Fiber} {rest : List FId} (b : BCtx m p f cont s h fh rest)
    (hstep : G m p f cont (step s0)) (d : Nat) (tv : Val) (c : Cont) (hT : some tv ≠ some (.fib f)) :
    G m p f cont (nextG true lim s0 s h fh rest d tv c) := by
  unfold nextG
  split
  · rename_i g
    split
    · exact hstep
    · rename_i fg hg
      split
      · exact hstep
      · split
        · rename_i msg hchk
          obtain ⟨hc, _, _⟩ := checkGuarded_trip_resumable hchk
          obtain ⟨_, hna⟩ := not_refused (checkCanResume_none hc)
          have hgn : g ∉ h :: rest := not_mem_of_not_alive b.c.hs hg hna
          have hgf : g ≠ f := fun hh => hT (by rw [hh])
          have b2 := b.guardSet hg hgn hgf
          simp only [b2.c.hfp]
          exact b2.refusedUnwind _ g _ rfl rfl rfl rfl rfl hgf
        · exact hstep
        · split
          · exact G_stop _ _ rfl
          · exact hstep
  · exact hstep

/-- ★ one step of the GUARDED machine from "blocked, body not exited": stuck / exited (cleanup next) / passed / still blocked -/
theorem stepG_G (hm : AccFin m) (lim : Nat) (s : State) (hinv : Inv s) (hne : p ≠ f) (hb : Blk m p f cont s s.stack)
    (hpriv : Priv p f s) : G m p f cont (stepG true lim s) := by
  have hstep := step_G hm s hinv hne hb hpriv
  unfold stepG
  split
  · exact Or.inr (Or.inr hb)
  · rename_i hh
    have hso := hinv.2 hh
    split
    · exact hstep
    · rename_i h rest hstk
      rw [hstk] at hso
      split
      · exact hstep
      · rename_i fh hfh
        split
        · exact hstep
        · rename_i t hctl
          have hhp : p ≠ h := by
            intro hph; subst hph
            obtain ⟨fp, h1, h2⟩ := hb.1
            rw [hfh] at h1; cases h1; rw [h2.1] at hctl; cases hctl
          have b : BCtx m p f cont s h fh rest := ⟨⟨hstk, hfh, hinv.1, hso⟩, hstk ▸ hb, hpriv.1, hne, hhp, hm⟩
          obtain ⟨hT, _⟩ := hpriv.2 h rest fh t hstk hfh hctl
          split
          · exact resumeG_G b hstep _ _ _ (by simpa [instrTarget] using hT)
          · exact resumeG_G b hstep _ _ _ (by simpa [instrTarget] using hT)
          · exact nextG_G b hstep _ _ _ (by simpa [instrTarget] using hT)
          · exact nextG_G b hstep _ _ _ (by simpa [instrTarget] using hT)
          · split
            · rename_i env l a body k ks hk
              have b2 := b.tweak { fh with env := env, kont := ks } rfl rfl rfl rfl (Or.inl rfl)
              refine nextG_G b2 hstep _ _ _ ?_
              simp only [instrTarget, hk] at hT
              rw [evalAtom_setFiber]
              exact hT
            · exact hstep
          · split
            · exact b.panic _ _ rfl rfl rfl
            · exact hstep
          · exact hstep

theorem runG_succ_of_running {a : Bool} {lim : Nat} {s : State} (n : Nat) (h : s.halt = none) :
    runG a lim (n + 1) s = runG a lim n (stepG a lim s) := by
  rw [runG]; simp [h]

theorem runG_of_halted {a : Bool} {lim : Nat} {s : State} (n : Nat) (h : s.halt ≠ none) : runG a lim n s = s := by
  cases n with
  | zero => rfl
  | succ n => rw [runG]; split
              · rfl
              · rename_i hh; exact absurd hh h

/-- ★ composition over whole executions of the guarded machine, at any limit -/
theorem blocked_until_exit_guarded (hm : AccFin m) (lim : Nat) : ∀ (n : Nat) (s : State), Inv s → p ≠ f → Blk m p f cont s s.stack →
    (∀ i, Priv p f (runG true lim i s)) →
    Blk m p f cont (runG true lim n s) (runG true lim n s).stack ∨
    ∃ i, i ≤ n ∧ (∀ j, j < i → Blk m p f cont (runG true lim j s) (runG true lim j s).stack) ∧
      (Stuck (runG true lim i s) ∨ Exited p f cont (runG true lim i s) ∨ Passed m p f cont (runG true lim i s)) := by
  intro n
  induction n with
  | zero => intro s _ _ hb _; exact Or.inl hb
  | succ n ih =>
    intro s hinv hne hb hpriv
    by_cases hh : s.halt = none
    · rw [runG_succ_of_running n hh]
      have hstep := stepG_G hm lim s hinv hne hb (hpriv 0)
      have h1 : runG true lim 1 s = stepG true lim s := by rw [runG_succ_of_running 0 hh]; rfl
      have first : ∀ j, j < 1 → Blk m p f cont (runG true lim j s) (runG true lim j s).stack := by
        intro j hj; have : j = 0 := by omega
        subst this; exact hb
      rcases hstep with hhalt | hex | hblk
      · exact Or.inr ⟨1, by omega, first, Or.inl (h1 ▸ hhalt)⟩
      · exact Or.inr ⟨1, by omega, first, Or.inr (h1 ▸ hex)⟩
      · have hpriv' : ∀ i, Priv p f (runG true lim i (stepG true lim s)) := fun i => by rw [← runG_succ_of_running i hh]; exact hpriv (i + 1)
        rcases ih (stepG true lim s) (stepG_res lim s hinv).2 hne hblk hpriv' with hl | ⟨i, hi, hbefore, hat⟩
        · exact Or.inl hl
        · refine Or.inr ⟨i + 1, by omega, ?_, ?_⟩
          · intro j hj
            cases j with
            | zero => exact hb
            | succ j => rw [runG_succ_of_running j hh]; exact hbefore j (by omega)
          · rw [runG_succ_of_running i hh]; exact hat
    · rw [runG_of_halted _ hh]; exact Or.inl hb

end
end JanetModel.Fiber
