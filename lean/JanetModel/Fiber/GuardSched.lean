/- C05 — the event loop's task dispatch ON TOP OF the guarded machine (core Lean only; linked into the driver jm_c05).

   Mirrors  ev.c  janet_loop1 calling `janet_continue_signal(task.fiber, task.value, &res, task.sig)` at C depth 0
            (janet_vm.stackn = 0: no fiber is running), with the recursion guard of vm.c janet_check_can_resume in force:
            the test on the task itself sees `0 >= JANET_RECURSION_GUARD`, and each level of the task's suspended child
            chain is re-entered one level deeper (`janet_vm.stackn++; janet_continue(child, …)` in janet_continue_no_check).
   As in `resumeG`, a guard trip somewhere INSIDE the chain (here: `chainLen ≥ lim`, which includes the degenerate limit 0
   where the test on the task itself trips) stops with `unmodelled`; below the limit the dispatch is `loopEnter`.
   One execution of the whole system = any list of `Trans`: guarded instructions and task dispatches. -/
import JanetModel.Fiber.Guard
import JanetModel.Fiber.Sched
namespace JanetModel.Fiber
open JanetModel.Gen.Fiber

/-- the event loop continues task fiber `g` with `(v, sig)`; recursion guard at `lim` levels above the loop -/
def loopEnterG (lim : Nat) (s : State) (g : FId) (v : Val) (sig : Nat) : State :=
  match s.halt, s.stack with
  | some (.done _ _), [] =>
    match s.fiber? g with
    | none => s
    | some fg =>
      -- the status refusals come first (guardAfterRefusals): a finished task is refused as in `loopEnter`
      if refuseResume.contains fg.status then loopEnter s g v sig
      else if chainLen s (chainFuel s) g ≥ lim then s.stop (.unmodelled "recursion guard inside a task's child chain")
      else loopEnter s g v sig
  | _, _ => s

/-- one transition of the whole system with the guard: a guarded instruction, or — when nothing runs — a task dispatch -/
def transG (after : Bool) (lim : Nat) (s : State) : Trans → State
  | .step => stepG after lim s
  | .enter g v sig => loopEnterG lim s g v sig

def runTG (after : Bool) (lim : Nat) (s : State) : List Trans → State
  | [] => s
  | t :: ts => runTG after lim (transG after lim s t) ts

end JanetModel.Fiber
