/- C05 — lemmas about the recursion-guard layer (Fiber/Guard.lean); no Mathlib. -/
import JanetModel.Fiber.Guard
import JanetModel.Fiber.Invariant
namespace JanetModel.Fiber
open JanetModel.Gen.Fiber

/-! ### the counter is restored on every exit path -/

/-- janet_continue_no_check leaves janet_vm.stackn as it found it — whatever the innermost run_vm did to it (normal return,
    signal, or a longjmp out of arbitrarily nested janet_calls that skipped their `stackn = oldn`), through child chains
    of any length -/
theorem contN_restores (innerRun : Nat → Nat × Bool) : ∀ (chain n : Nat), contN innerRun chain n = n := by
  intro chain
  induction chain with
  | zero => intro n; rfl
  | succ c ih => intro n; simp only [contN, ih]; omega

mutual
/-- a run_vm activation that is not left by a longjmp leaves the counter as it found it … -/
theorem runEvs_restores : ∀ (es : List Ev) (n : Nat), (runEvs n es).2 = false → (runEvs n es).1 = n
  | [], n, _ => by simp [runEvs]
  | e :: es, n, h => by
    simp only [runEvs] at h ⊢
    by_cases hp : (runEv n e).2 = true
    · rw [if_pos hp] at h; rw [hp] at h; cases h
    · have hp' : (runEv n e).2 = false := by simpa using hp
      have h1 := runEv_restores e n hp'
      rw [if_neg hp] at h ⊢
      rw [h1] at h ⊢
      exact runEvs_restores es n h
/-- … and so does every single nested call / resume -/
theorem runEv_restores : ∀ (e : Ev) (n : Nat), (runEv n e).2 = false → (runEv n e).1 = n
  | .panic, n, h => by simp [runEv] at h
  | .call inner, n, h => by
    simp only [runEv] at h ⊢
    by_cases hp : (runEvs (n + 1) inner).2 = true
    · rw [if_pos hp] at h; rw [hp] at h; cases h
    · rw [if_neg hp]
  | .resume c inner, n, _ => by simp [runEv, contN_restores]
end

/-- a resume is never left by a longjmp, and restores the counter even if a longjmp happened inside it -/
theorem resume_restores (chain : Nat) (inner : List Ev) (n : Nat) : runEv n (.resume chain inner) = (n, false) := by
  simp [runEv, contN_restores]

/-- inside a janet_call the callee runs one level deeper -/
theorem call_enters_deeper (inner : List Ev) (n : Nat) :
    runEv n (.call inner) = (if (runEvs (n + 1) inner).2 then runEvs (n + 1) inner else (n, false)) := by
  simp only [runEv]

/-! ### janet_check_can_resume with the guard -/

/-- guard tested after the refusals: the guard only ever fails a fiber that could otherwise be resumed -/
theorem checkGuarded_trip_resumable {lim n : Nat} {fp : Fiber} {b : Bool} {msg : Val}
    (h : checkGuarded true lim n fp b = some (msg, true)) : checkCanResume fp b = none ∧ n ≥ lim ∧ msg = guardMsg := by
  unfold checkGuarded at h
  simp only [if_true] at h
  split at h
  · cases h
  · rename_i hc
    split at h
    · rename_i hn; simp only [Option.some.injEq, Prod.mk.injEq, and_true] at h; exact ⟨hc, hn, h.symm⟩
    · cases h

/-- below the limit the guarded check is janet_check_can_resume as modelled before, in either statement order -/
theorem checkGuarded_below (after : Bool) {lim n : Nat} (fp : Fiber) (b : Bool) (h : n < lim) :
    checkGuarded after lim n fp b = (checkCanResume fp b).map (fun m => (m, false)) := by
  have hn : ¬ n ≥ lim := by omega
  unfold checkGuarded
  cases after <;> simp only [hn, if_false, if_true, Bool.false_eq_true] <;> cases checkCanResume fp b <;> rfl

theorem chainLen_le (s : State) : ∀ (fuel : Nat) (g : FId), chainLen s fuel g ≤ fuel := by
  intro fuel
  induction fuel with
  | zero => intro g; simp [chainLen]
  | succ n ih =>
    intro g
    unfold chainLen
    split
    · omega
    · split
      · omega
      · have := ih ‹_›; omega

/-! ### the guarded machine keeps the invariant and moves statuses forward -/

theorem resumeG_res {lim : Nat} {s : State} {p : FId} {fp : Fiber} {rest : List FId} (c : Ctx s p fp rest) (hinv : Inv s)
    (d : Nat) (tv : Val) (b : Bool) : Res s (resumeG true lim s p rest d tv b) := by
  unfold resumeG
  split
  · rename_i g
    split
    · exact step_res s hinv
    · rename_i fg hg
      split
      · rename_i msg hchk
        obtain ⟨hc, _, _⟩ := checkGuarded_trip_resumable hchk
        obtain ⟨hnf, hna⟩ := not_refused (checkCanResume_none hc)
        have hgn : g ∉ p :: rest := not_mem_of_not_alive c.hs hg hna
        have hgp : p ≠ g := fun h => hgn (h ▸ List.mem_cons_self ..)
        have hm : Mono s (s.setFiber g { fg with status := stError }) :=
          Mono.setFiber _ hg (Or.inr ⟨hnf, (by decide : stError ≠ stNew)⟩) rfl
        have hp2 : (s.setFiber g { fg with status := stError }).fiber? p = some fp := by
          rw [fiber?_setFiber_ne _ _ _ _ hgp]; exact c.hfp
        simp only [hp2]
        have hs2 : StackOK (s.setFiber g { fg with status := stError }) (p :: rest) := c.hs.setFiber_notin g _ hgn
        refine Res.trans hm (raise_res _ hp2 c.alive rfl (c.hpo.setFiber g _ (fun sg h => c.hpo g fg sg hg h))
          (fun sg h => c.pp sg h) hs2.tail.1 hs2.tail.2 sigError_lt)
      · exact step_res s hinv
      · split
        · exact Res.stop s hinv.1 _
        · exact step_res s hinv
  · exact step_res s hinv

theorem nextG_res {lim : Nat} {s0 s : State} {p : FId} {fp0 fp : Fiber} {rest : List FId} (c0 : Ctx s0 p fp0 rest) (hinv : Inv s0)
    (t : Tweak s0 s p fp0 fp) (d : Nat) (tv : Val) (cont : Cont) : Res s0 (nextG true lim s0 s p fp rest d tv cont) := by
  have c := c0.tweak t
  unfold nextG
  split
  · rename_i g
    split
    · exact step_res s0 hinv
    · rename_i fg hg
      split
      · exact step_res s0 hinv
      · split
        · rename_i msg hchk
          obtain ⟨hc, _, _⟩ := checkGuarded_trip_resumable hchk
          obtain ⟨hnf, hna⟩ := not_refused (checkCanResume_none hc)
          have hgn : g ∉ p :: rest := not_mem_of_not_alive c.hs hg hna
          have hgp : g ≠ p := fun h => hgn (h ▸ List.mem_cons_self ..)
          have hpg : p ≠ g := fun h => hgp h.symm
          have hm : Mono s (s.setFiber g { fg with status := stError }) :=
            Mono.setFiber _ hg (Or.inr ⟨hnf, (by decide : stError ≠ stNew)⟩) rfl
          have hp2 : (s.setFiber g { fg with status := stError }).fiber? p = some fp := by
            rw [fiber?_setFiber_ne _ _ _ _ hpg]; exact c.hfp
          simp only [hp2]
          have c2 : Ctx (s.setFiber g { fg with status := stError }) p fp rest :=
            ⟨c.hstk, hp2, c.hpo.setFiber g _ (fun sg h => c.hpo g fg sg hg h), c.hs.setFiber_notin g _ hgn⟩
          have t1 := Tweak.setFiber (s := s.setFiber g { fg with status := stError }) (p := p) (fp := fp)
            { fp with ctl := .wait cont, child := some g, env := fp.env, kont := fp.kont } hp2 rfl rfl rfl rfl
          have c1 := c2.tweak t1
          refine Res.trans (t.mono.trans (hm.trans t1.mono)) (unwind_res _ _ _ _ _ c1.hpo c1.hs sigError_lt)
        · exact step_res s0 hinv
        · split
          · exact Res.stop s0 hinv.1 _
          · exact step_res s0 hinv
  · exact step_res s0 hinv

/-- ★ one step of the GUARDED machine (guard tested after the refusals) keeps the invariant and moves every status forward
    or not at all — in particular a guard trip never touches a finished or running fiber -/
theorem stepG_res (lim : Nat) (s : State) (hinv : Inv s) : Res s (stepG true lim s) := by
  unfold stepG
  split
  · exact ⟨Mono.refl s, hinv⟩
  · rename_i hh
    have hso := hinv.2 hh
    split
    · exact step_res s hinv
    · rename_i p rest hstk
      rw [hstk] at hso
      split
      · exact step_res s hinv
      · rename_i fp hfp
        have c : Ctx s p fp rest := ⟨hstk, hfp, hinv.1, hso⟩
        split
        · exact step_res s hinv
        · split
          · exact resumeG_res c hinv _ _ _
          · exact resumeG_res c hinv _ _ _
          · exact nextG_res c hinv (Tweak.refl hfp) _ _ _
          · exact nextG_res c hinv (Tweak.refl hfp) _ _ _
          · split
            · rename_i env l f body k ks _
              exact nextG_res c hinv (Tweak.setFiber (s := s) (p := p) (fp := fp) { fp with env := env, kont := ks } hfp rfl rfl rfl rfl) _ _ _
            · exact step_res s hinv
          · split
            · exact panic_res _ c.hfp c.alive rfl c.hpo c.pp c.hs.tail.1 c.hs.tail.2
            · exact step_res s hinv
          · exact step_res s hinv

theorem runG_res (lim : Nat) : ∀ (n : Nat) (s : State), Inv s → Res s (runG true lim n s) := by
  intro n
  induction n with
  | zero => intro s h; exact ⟨Mono.refl s, h⟩
  | succ n ih =>
    intro s h
    unfold runG
    split
    · exact ⟨Mono.refl s, h⟩
    · have h1 := stepG_res lim s h
      exact Res.trans h1.1 (ih _ h1.2)

/-- far enough below the limit the guarded machine IS the machine of Model.lean (so every theorem about `step` / `run`
    applies to executions that stay below the guard) -/
theorem stepG_below (after : Bool) (lim : Nat) (s : State) (h : depthOf s + chainFuel s < lim) : stepG after lim s = step s := by
  have hd : depthOf s < lim := by omega
  have hch : ∀ s' g, chainFuel s' = chainFuel s → ¬ (depthOf s + chainLen s' (chainFuel s') g ≥ lim) := by
    intro s' g he
    have := chainLen_le s' (chainFuel s') g
    omega
  have hR : ∀ p rest tv b, resumeG after lim s p rest (depthOf s) tv b = step s := by
    intro p rest tv b
    unfold resumeG
    split
    · split
      · rfl
      · rw [checkGuarded_below after _ _ hd]
        cases checkCanResume _ b with
        | some m => rfl
        | none => simp only [Option.map, hch s _ rfl, if_false]
    · rfl
  have hN : ∀ s1 p fp rest tv c, chainFuel s1 = chainFuel s → nextG after lim s s1 p fp rest (depthOf s) tv c = step s := by
    intro s1 p fp rest tv c he
    unfold nextG
    split
    · split
      · rfl
      · split
        · rfl
        · rw [checkGuarded_below after _ _ hd]
          cases checkCanResume _ false with
          | some m => rfl
          | none => simp only [Option.map, hch s1 _ he, if_false]
    · rfl
  unfold stepG
  split
  · rename_i hh; unfold step; simp [hh]
  · split
    · rfl
    · split
      · rfl
      · split
        · rfl
        · split
          · exact hR ..
          · exact hR ..
          · exact hN _ _ _ _ _ _ rfl
          · exact hN _ _ _ _ _ _ rfl
          · split
            · exact hN _ _ _ _ _ _ (by simp [chainFuel, State.setFiber])
            · rfl
          · rw [if_neg (by omega)]
          · rfl

end JanetModel.Fiber
