/- C05 — lemmas about Fiber/GuardSched.lean (lemma file, no Mathlib): the invariant / status monotonicity and the cleanup
   composition for executions in which BOTH happen: recursion-guard trips and event-loop dispatches. -/
import JanetModel.Fiber.GuardSched
import JanetModel.Fiber.GuardCleanup
import JanetModel.Fiber.SchedLemmas
namespace JanetModel.Fiber
open JanetModel.Gen.Fiber

theorem loopEnterG_res (lim : Nat) (s : State) (hinv : Inv s) (g : FId) (v : Val) (sig : Nat) (hsig : sig < stNew) :
    Res s (loopEnterG lim s g v sig) := by
  unfold loopEnterG
  split
  · split
    · exact ⟨Mono.refl s, hinv⟩
    · split
      · exact loopEnter_res s hinv g v sig hsig
      · split
        · exact Res.stop s hinv.1 _
        · exact loopEnter_res s hinv g v sig hsig
  · exact ⟨Mono.refl s, hinv⟩

theorem transG_res (lim : Nat) (s : State) (hinv : Inv s) : ∀ (t : Trans), SigsOK [t] → Res s (transG true lim s t)
  | .step, _ => stepG_res lim s hinv
  | .enter g v sig, h => loopEnterG_res lim s hinv g v sig h.1

theorem runTG_res (lim : Nat) : ∀ (ts : List Trans) (s : State), Inv s → SigsOK ts → Res s (runTG true lim s ts)
  | [], s, hinv, _ => ⟨Mono.refl s, hinv⟩
  | .step :: ts, s, hinv, h => by
    have h1 := stepG_res lim s hinv
    exact Res.trans h1.1 (runTG_res lim ts _ h1.2 h)
  | .enter g v sig :: ts, s, hinv, h => by
    have h1 := loopEnterG_res lim s hinv g v sig h.1
    exact Res.trans h1.1 (runTG_res lim ts _ h1.2 h.2)

section
variable {m : Nat} {p f : FId} {cont : Cont}

/-- ★ a task dispatch under the guard, from "p blocked in the macro's resume, body not exited": stuck / exited / passed /
    still blocked -/
theorem loopEnterG_G (hm : AccFin m) (lim : Nat) (s : State) (hinv : Inv s) (hne : p ≠ f) (hb : Blk m p f cont s s.stack) (ho : Only p f s)
    (g : FId) (v : Val) (sig : Nat) (hgf : g ≠ f) (hsig : sig < stNew)
    (hC : sig ≠ sigOk → cancelTarget { s with halt := none, stack := [] } g ≠ some p) :
    G m p f cont (loopEnterG lim s g v sig) := by
  unfold loopEnterG
  split
  · split
    · exact Or.inr (Or.inr hb)
    · split
      · exact loopEnter_G hm s hinv hne hb ho g v sig hgf hsig hC
      · split
        · exact G_stop _ _ rfl
        · exact loopEnter_G hm s hinv hne hb ho g v sig hgf hsig hC
  · exact Or.inr (Or.inr hb)

theorem transG_G (hm : AccFin m) (lim : Nat) (s : State) (hinv : Inv s) (hne : p ≠ f) (hb : Blk m p f cont s s.stack) :
    ∀ (t : Trans), PrivT p f s t → G m p f cont (transG true lim s t)
  | .step, h => stepG_G hm lim s hinv hne hb h
  | .enter g v sig, h => loopEnterG_G hm lim s hinv hne hb h.1 g v sig h.2.1 h.2.2.1 h.2.2.2

/-- ★ composition over whole executions of the guarded machine WITH the event loop, at any limit: any sequence of guarded
    instructions and task dispatches -/
theorem blocked_until_exit_guarded_sched (hm : AccFin m) (lim : Nat) : ∀ (ts : List Trans) (s : State), Inv s → p ≠ f →
    Blk m p f cont s s.stack →
    (∀ k (hk : k < ts.length), PrivT p f (runTG true lim s (ts.take k)) ts[k]) →
    Blk m p f cont (runTG true lim s ts) (runTG true lim s ts).stack ∨
    ∃ k, 0 < k ∧ k ≤ ts.length ∧ (∀ j, j < k → Blk m p f cont (runTG true lim s (ts.take j)) (runTG true lim s (ts.take j)).stack) ∧
      (Stuck (runTG true lim s (ts.take k)) ∨ Exited p f cont (runTG true lim s (ts.take k)) ∨ Passed m p f cont (runTG true lim s (ts.take k))) := by
  intro ts
  induction ts with
  | nil => intro s _ _ hb _; exact Or.inl hb
  | cons t ts ih =>
    intro s hinv hne hb hpriv
    have hp0 : PrivT p f s t := hpriv 0 (by simp)
    have first : ∀ j, j < 1 → Blk m p f cont (runTG true lim s ((t :: ts).take j)) (runTG true lim s ((t :: ts).take j)).stack := by
      intro j hj
      have : j = 0 := by omega
      subst this; exact hb
    rcases transG_G hm lim s hinv hne hb t hp0 with hst | hdone | hblk
    · exact Or.inr ⟨1, by omega, by simp, first, Or.inl hst⟩
    · exact Or.inr ⟨1, by omega, by simp, first, Or.inr hdone⟩
    · have hinv' := (transG_res lim s hinv t (privT_sigsOK hp0)).2
      have hpriv' : ∀ k (hk : k < ts.length), PrivT p f (runTG true lim (transG true lim s t) (ts.take k)) ts[k] := by
        intro k hk
        have := hpriv (k + 1) (by simp; omega)
        simpa [runTG] using this
      rcases ih (transG true lim s t) hinv' hne hblk hpriv' with hl | ⟨k, hk0, hk, hbefore, hat⟩
      · exact Or.inl hl
      · refine Or.inr ⟨k + 1, by omega, by simp; omega, ?_, by simpa [runTG] using hat⟩
        intro j hj
        cases j with
        | zero => exact hb
        | succ j => simpa [runTG] using hbefore j (by omega)

end
end JanetModel.Fiber
