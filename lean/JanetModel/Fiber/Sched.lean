/- C05 — the event loop's entry into the fiber machine (core Lean only; linked into the driver jm_c05).

   Mirrors  ev.c  janet_loop1's task dispatch `janet_continue_signal(task.fiber, task.value, &res, task.sig)` for tasks
            queued by janet_schedule (sig = OK: ev/go, wake-ups) and janet_cancel (sig = ERROR: ev/cancel, timeouts),
            vm.c  janet_continue_signal called with no current fiber (`janet_vm.fiber == NULL`: the root test of
            janet_check_can_resume does not apply), its walk to the innermost suspended child and the pending signal.
   The loop runs a task only when no fiber is running: the machine has halted with `done` (control is back in the C caller
   of the outermost janet_continue).  What the loop does with the result (supervisor channel, stack trace, refcounts) is
   C06 / C07 / C20 territory and not modelled. -/
import JanetModel.Fiber.Model
namespace JanetModel.Fiber
open JanetModel.Gen.Fiber

/-- the event loop continues task fiber `g` with `(v, sig)` -/
def loopEnter (s : State) (g : FId) (v : Val) (sig : Nat) : State :=
  match s.halt, s.stack with
  | some (.done _ _), [] =>
    let s0 : State := { s with halt := none, stack := [] }
    match s0.fiber? g with
    | none => s
    | some fg =>
      -- janet_check_can_resume(fiber, out, sig != OK) with janet_vm.fiber == NULL
      if refuseResume.contains fg.status then
        { s with halt := some (.done sigError (.str ("cannot resume fiber with status :" ++ statusName fg.status))) }
      else if sig = sigOk then contNoCheck (chainFuel s0) s0 [] g v
      else if cancelRefusedRoot s0 g = true then { s with halt := some (.done sigError cancelRootMsg) }
      else
        match cancelTarget s0 g with
        | none => s0.stop .hang
        | some d =>
          match s0.fiber? d with
          | none => s0.stop (.bad "loop: no such fiber")
          | some fd => contNoCheck (chainFuel s0) (s0.setFiber d { fd with pending := some sig }) [] g v
  | _, _ => s

/-- one transition of the whole system: an instruction of the running fiber, or — when nothing runs — a task dispatch -/
inductive Trans where
  | step
  | enter (g : FId) (v : Val) (sig : Nat)
  deriving Repr, Inhabited

def trans (s : State) : Trans → State
  | .step => step s
  | .enter g v sig => loopEnter s g v sig

def runT (s : State) : List Trans → State
  | [] => s
  | t :: ts => runT (trans s t) ts

/-- initial state of a tree whose root fiber is a TASK (`(ev/go m v)`): janet_schedule set JANET_FIBER_FLAG_ROOT on it, and
    the harness' main fiber is itself suspended in the loop (status 13 = :suspended) while it runs -/
def initTask (t : Tm) (flags : List Nat) (sg : Sig) (v : Val) : State :=
  let main : Fiber := { status := stUser9, mask := defaultMask, ctl := .wait (.bindK 0 (.ret (.lit .nil)) false), root := true, denv := some 0 }
  let top : Fiber := { status := stNew, mask := maskOfFlags flags, ctl := .run t, sig := sg, root := true }
  let s : State := { fibers := [main, top], denvs := [{ proto := none, tbl := [] }] }
  startRun s [] 1 top v

end JanetModel.Fiber
