/- C05 — helper lemmas about the fiber model (no Mathlib needed). -/
import JanetModel.Fiber.Boot
namespace JanetModel.Fiber
open JanetModel.Gen.Fiber

theorem fiber?_setFiber_ne (s : State) (p g : FId) (x : Fiber) (h : g ≠ p) :
    (s.setFiber p x).fiber? g = s.fiber? g := by
  unfold State.setFiber State.fiber?
  simp only
  rw [List.getElem?_set_ne (Ne.symm h)]

theorem fiber?_log (s : State) (l f : Nat) (v : Val) (g : FId) : (s.log l f v).fiber? g = s.fiber? g := by
  unfold State.log State.fiber?
  split <;> rfl

theorem fiber?_stop (s : State) (h : Halt) (g : FId) : (s.stop h).fiber? g = s.fiber? g := rfl

theorem fiber?_withStack (s : State) (stk : List FId) (g : FId) : ({ s with stack := stk } : State).fiber? g = s.fiber? g := rfl

/-- `deliverValue` touches no fiber but the receiver. -/
theorem deliverValue_other (s : State) (p : FId) (fp : Fiber) (c : Cont) (v : Val) (g : FId) (h : g ≠ p) :
    (deliverValue s p fp c v).fiber? g = s.fiber? g := by
  unfold deliverValue
  split
  · rw [fiber?_log, fiber?_setFiber_ne _ _ _ _ h]
  · split
    · rw [fiber?_log, fiber?_setFiber_ne _ _ _ _ h]
    · rw [fiber?_setFiber_ne _ _ _ _ h]

/-- Unwinding a signal changes no fiber outside the chain of callers it is handed to. -/
theorem unwind_other : ∀ (stack : List FId) (s : State) (c : FId) (sig : Nat) (v : Val) (g : FId),
    g ∉ stack → (unwind s stack c sig v).fiber? g = s.fiber? g := by
  intro stack
  induction stack with
  | nil => intro s c sig v g _; rfl
  | cons p rest ih =>
    intro s c sig v g hg
    have hgp : g ≠ p := fun h => hg (h ▸ List.mem_cons_self ..)
    have hgr : g ∉ rest := fun h => hg (List.mem_cons_of_mem _ h)
    unfold unwind
    simp only []
    repeat' split
    all_goals first
      | rfl
      | (rw [deliverValue_other _ _ _ _ _ _ hgp]; rfl)
      | (rw [ih _ _ _ _ _ hgr, fiber?_setFiber_ne _ _ _ _ hgp])

end JanetModel.Fiber
