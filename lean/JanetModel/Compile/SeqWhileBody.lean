/- C02: `while`: `Lang/Sem.whileLoop` unfolded and inverted; the body statements of `janetc_while` (every one dropped and
   freed): compile correctness (`whileBody_correct`, from the induction hypothesis `CorrectAt`) and compile-only shape
   (`whileBody_shapeM`); a `Correct2` used against the segment / pool / scope the compile fixed (`Correct2.use`); the
   `break`-placeholder rewrite on code without placeholders. -/
import JanetModel.Compile.SeqWhileDef
namespace JanetModel.Compile
open JanetModel.Emit JanetModel.Lang JanetModel.Bytecode.Exec JanetModel.Gen.Bytecode

/-! ### semantics -/

theorem eval_while (n : Nat) (cur : Pos) (env : Env) (c : Expr) (body : List Expr) (p : Pos) (s : SS) :
    eval (n + 1) cur env (.form (.sym "while" :: c :: body) p) s =
      (match whileLoop n (posOf cur p) env c body s with
       | .ok _ s' => .ok (.nil, env) s'
       | .err v p s' => .err v p s' | .brk v s' => .brk v s' | .stop w => .stop w) := by
  simp only [eval] <;> rfl

theorem eval_while_inv (n : Nat) (cur : Pos) (env env' : Env) (c : Expr) (body : List Expr) (p : Pos) (s s' : SS) (v : Value)
    (h : eval n cur env (.form (.sym "while" :: c :: body) p) s = .ok (v, env') s') :
    ∃ n2, n = n2 + 1 ∧ whileLoop n2 (posOf cur p) env c body s = .ok () s' ∧ v = .nil ∧ env' = env := by
  cases n with
  | zero => simp [eval] at h
  | succ n2 =>
    rw [eval_while] at h
    cases hw : whileLoop n2 (posOf cur p) env c body s with
    | ok u s1 =>
      rw [hw] at h
      simp only [R.ok.injEq, Prod.mk.injEq] at h
      obtain ⟨⟨hv, henv⟩, hs⟩ := h
      subst hs
      cases u
      exact ⟨n2, rfl, hw, hv.symm, henv.symm⟩
    | err _ _ _ => rw [hw] at h; exact absurd h (by simp)
    | brk _ _ => rw [hw] at h; exact absurd h (by simp)
    | stop _ => rw [hw] at h; exact absurd h (by simp)

/-- one turn of `whileLoop` that ended well: the condition's run, then either it is falsy, or the body ran and the loop went on
    (or the body broke out) -/
theorem whileLoop_inv (f : Nat) (cur : Pos) (env : Env) (c : Expr) (body : List Expr) (s s' : SS)
    (h : whileLoop f cur env c body s = .ok () s') :
    ∃ f2 cv cenv s1, f = f2 + 1 ∧ eval f2 cur env c s = .ok (cv, cenv) s1 ∧
      ((truthy cv = false ∧ s' = s1) ∨
       (truthy cv = true ∧ ((∃ bv benv s2, evalSeq f2 cur cenv body s1 = .ok (bv, benv) s2 ∧ whileLoop f2 cur env c body s2 = .ok () s') ∨
          (∃ bv, evalSeq f2 cur cenv body s1 = .brk bv s')))) := by
  cases f with
  | zero => simp [whileLoop] at h
  | succ f2 =>
    simp only [whileLoop] at h
    cases hc : eval f2 cur env c s with
    | ok r s1 =>
      obtain ⟨cv, cenv⟩ := r
      rw [hc] at h
      simp only at h
      cases ht : truthy cv with
      | false =>
        simp only [ht, Bool.false_eq_true, if_false, R.ok.injEq, true_and] at h
        exact ⟨f2, cv, cenv, s1, rfl, hc, Or.inl ⟨ht, h.symm⟩⟩
      | true =>
        simp only [ht, if_true] at h
        cases hb : evalSeq f2 cur cenv body s1 with
        | ok r2 s2 =>
          obtain ⟨bv, benv⟩ := r2
          rw [hb] at h
          exact ⟨f2, cv, cenv, s1, rfl, hc, Or.inr ⟨ht, Or.inl ⟨bv, benv, s2, hb, h⟩⟩⟩
        | brk bv s2 =>
          rw [hb] at h
          simp only [R.ok.injEq, true_and] at h
          subst h
          exact ⟨f2, cv, cenv, s1, rfl, hc, Or.inr ⟨ht, Or.inr ⟨bv, hb⟩⟩⟩
        | err _ _ _ => rw [hb] at h; exact absurd h (by simp)
        | stop _ => rw [hb] at h; exact absurd h (by simp)
    | err _ _ _ => rw [hc] at h; exact absurd h (by simp)
    | brk _ _ => rw [hc] at h; exact absurd h (by simp)
    | stop _ => rw [hc] at h; exact absurd h (by simp)

/-! ### the `break`-placeholder rewrite -/

theorem brkRewrite_id (buf : List CI) (lo hi : Nat) (h : ∀ i, lo ≤ i → i < hi → buf.getD i default ≠ .brk) : brkRewrite buf lo hi = buf := by
  apply List.ext_getElem
  · simp [brkRewrite]
  · intro i h1 h2
    simp only [brkRewrite, List.getElem_map, List.getElem_range]
    have hg : buf.getD i default = buf[i] := by simp [List.getD, h2]
    rw [hg]
    cases hb : buf[i] with
    | brk =>
      by_cases hin : lo ≤ i ∧ i < hi
      · exact absurd (hg.trans hb) (h i hin.1 hin.2)
      · simp only
        have : (decide (lo ≤ i) && decide (i < hi)) = false := by
          simp only [Bool.and_eq_false_iff, decide_eq_false_iff_not]
          by_cases h0 : lo ≤ i
          · exact Or.inr (fun h' => hin ⟨h0, h'⟩)
          · exact Or.inl h0
        simp [this]
    | _ => rfl

section
variable (p : Program) (f0 : Frame) (rest : List Frame) (V : Array Value) (P : List KConst)

/-! ### a `Correct2` against the segment the compile fixed -/

theorem Correct2.anyv {G : String → Prop} {c c1 : CState} {slot : JSlot} {sc : Scope} {rs : List Scope} {pool : List KConst}
    {ps : List (List KConst)} {env env' : Env} {s s' : SS} {v : Value} (v' : Value)
    (h : Correct2 p f0 rest V P G true c c1 slot sc rs pool ps env env' s s' v) :
    Correct2 p f0 rest V P G true c c1 slot sc rs pool ps env env' s s' v' := by
  obtain ⟨ra', nsyms, more, seg, segm, hc, a1, a2, a3, a4, a5, a6, a7, vm⟩ := h
  refine ⟨ra', nsyms, more, seg, segm, hc, a1, a2, a3, a4, a5, a6, a7, ?_⟩
  intro k h1 h2 h3 h4 h5 h6 h7
  obtain ⟨regs', b1, b2, b3, _, b5⟩ := vm k h1 h2 h3 h4 h5 h6 h7
  exact ⟨regs', b1, b2, b3, fun h => absurd h (by simp), b5⟩

theorem Correct2.use {G : String → Prop} {dr : Bool} {c c1 : CState} {slot : JSlot} {sc : Scope} {rs : List Scope} {pool : List KConst}
    {ps : List (List KConst)} {env env' : Env} {s s' : SS} {v : Value}
    (h : Correct2 p f0 rest V P G dr c c1 slot sc rs pool ps env env' s s' v)
    (seg : List CI) (pool1 : List KConst) (sc1 : Scope) (hb : c1.buf = c.buf ++ seg) (hp1 : c1.pools = pool1 :: ps) (hs1 : c1.scopes = sc1 :: rs) :
    PrefA s.boxes s'.boxes ∧ EnvS G c1.scopes env' s'.boxes.size sc1.ra ∧ SlotOK2 sc sc1.ra c1.scopes c1.vals slot ∧
    (∀ r, sc.ra.alloc r = true → sc1.ra.alloc r = true) ∧
    ∀ (k : Cfg), k.w = s.st.world → k.args = #[] → EnvD c.scopes env s k.regs →
      CodeAt (p.defs.getD f0.defIdx default).code k.pc seg → PrefL pool1 P → PrefA c1.vals V → sc1.ra.max < k.regs.size →
      ∃ regs', Reach p (inj f0 rest k) (inj f0 rest { regs := regs', pc := k.pc + seg.length, args := #[], w := s'.st.world }) ∧
        regs'.size = k.regs.size ∧ (∀ r, sc.ra.alloc r = true → regs'.getD r .nil = k.regs.getD r .nil) ∧
        (dr = false → slotVal V regs' slot = v) ∧ EnvD c1.scopes env' s' regs' := by
  obtain ⟨ra', nsyms, more, seg0, segm, hc, a1, a2, a3, a4, a5, a6, a7, vm⟩ := h
  have e_seg : seg = seg0 := by
    have : c1.buf = c.buf ++ seg0 := by rw [hc]
    rw [this] at hb
    exact (List.append_cancel_left hb).symm
  have e_pool : pool1 = pool ++ more := by
    have : c1.pools = (pool ++ more) :: ps := by rw [hc]
    rw [this] at hp1
    exact (List.cons.inj hp1).1.symm
  have e_sc : sc1 = { sc with ra := ra', syms := sc.syms ++ nsyms } := by
    have : c1.scopes = { sc with ra := ra', syms := sc.syms ++ nsyms } :: rs := by rw [hc]
    rw [this] at hs1
    exact (List.cons.inj hs1).1.symm
  subst e_seg e_pool e_sc
  exact ⟨a5, a6, a4, a2, vm⟩

/-! ### the body statements -/

/-- `janetc_while` body: every statement dropped and freed -/
theorem whileBody_correct (G : String → Prop) (T : Expr → Prop) (w : Bool) (fuel : Nat) (IH : CorrectAt p f0 rest V P G T w fuel)
    (ML : MLAt G T true fuel) :
    ∀ (b : List Expr), (∀ e, e ∈ b → T e) →
    ∀ (c c' : CState) (sc : Scope) (rs : List Scope) (pool : List KConst) (ps : List (List KConst))
      (n : Nat) (cur : Pos) (env env' : Env) (s s' : SS) (v : Value),
      c.scopes = sc :: rs → c.pools = pool :: ps → c.lim ≤ 240 → sc.top = false → c.map.length = c.buf.length →
      whileBody (cValue fuel) b c = some c' → evalSeq n cur env b s = .ok (v, env') s' → EnvS G c.scopes env s.boxes.size sc.ra →
      Correct2 p f0 rest V P G true c c' (cslot .nil) sc rs pool ps env env' s s' v := by
  intro b
  induction b with
  | nil =>
    intro _ c c' sc rs pool ps n cur env env' s s' v hs hp _ _ _ hc hsem hE
    simp only [whileBody, Option.some.injEq] at hc
    obtain ⟨e1, e2, e3⟩ := evalSeq_nil_inv n cur env env' s s' v hsem
    subst hc e1 e2 e3
    exact Correct2.weaken p f0 rest V P _ (atom_nil2 p f0 rest V P G _ sc rs pool ps hs hp _ _ hE)
  | cons x t ih =>
    intro hT c c' sc rs pool ps n cur env env' s s' v hs hp hl htop hm hc hsem hE
    simp only [whileBody, Option.bind_eq_bind, Option.bind_eq_some_iff, Prod.exists] at hc
    obtain ⟨sl1, c1, hx, c1f, hf, hrest⟩ := hc
    have hm1 : ∀ env0 nb, EnvS G c.scopes env0 nb sc.ra → c1f.map.length = c1f.buf.length := by
      intro env0 nb hE0
      obtain ⟨e1, e2⟩ := freeslot_bufmap c1 c1f sl1 hf
      rw [e1, e2]
      exact ML rfl x { drop := true } c c1 sl1 sc rs pool ps env0 nb rfl rfl hs hp htop (hT x (by simp)) hE0 hx hm
    cases t with
    | nil =>
      obtain ⟨n2, hn, he⟩ := evalSeq_one_inv n cur env env' x s s' v hsem
      have h1 := IH x { drop := true } c c1 sl1 sc rs pool ps n2 cur env env' s s' v rfl rfl hs hp hl htop (fun _ => hm) (hT x (by simp)) hx he hE
      simp only [whileBody, Option.some.injEq] at hrest
      subst hrest
      refine Correct2_seq p f0 rest V P G (true && w) true c c1 c1f c1f sl1 (cslot .nil) sc rs pool ps env env' env' s s' s' v v h1 hf ?_
      intro sc1 pool1 hs1 hp1 _ _ hE1
      exact Correct2.anyv p f0 rest V P v (Correct2.weaken p f0 rest V P true (atom_nil2 p f0 rest V P G c1f sc1 rs pool1 ps hs1 hp1 _ _ hE1))
    | cons y r =>
      obtain ⟨n2, v1, env1, s1, hn, he1, he2⟩ := evalSeq_cons_inv n cur env env' x y r s s' v hsem
      have h1 := IH x { drop := true } c c1 sl1 sc rs pool ps n2 cur env env1 s s1 v1 rfl rfl hs hp hl htop (fun _ => hm) (hT x (by simp)) hx he1 hE
      refine Correct2_seq p f0 rest V P G (true && w) true c c1 c1f c' sl1 (cslot .nil) sc rs pool ps env env1 env' s s1 s' v1 v h1 hf ?_
      intro sc1 pool1 hs1 hp1 htop1 hl1 hE1
      exact ih (fun e he => hT e (by simp [he])) c1f c' sc1 rs pool1 ps n2 cur env1 env' s1 s' v hs1 hp1
        (by rw [hl1]; exact hl) (by rw [htop1]; exact htop) (hm1 env s.boxes.size hE) hrest he2 hE1

end

/-- the body statements, compile side only (also when the body never runs) -/
theorem whileBody_shapeM (G : String → Prop) (fuel : Nat) (b : Bool) : ∀ (body : List Expr), (∀ e, e ∈ body → TF G b e) →
    ∀ (c c' : CState) (sc : Scope) (rs : List Scope) (pool : List KConst) (ps : List (List KConst)),
      c.scopes = sc :: rs → c.pools = pool :: ps → sc.top = false → c.map.length = c.buf.length →
      LkL G c.scopes → whileBody (cValue fuel) body c = some c' → Shp G c c' sc rs pool ps := by
  intro body
  induction body with
  | nil =>
    intro _ c c' sc rs pool ps hs hp _ _ hL h
    simp only [whileBody, Option.some.injEq] at h
    rw [← h]
    exact Shp.refl hs hp hL
  | cons x t ih =>
    intro hT c c' sc rs pool ps hs hp htop hm hL h
    simp only [whileBody, Option.bind_eq_bind, Option.bind_eq_some_iff, Prod.exists] at h
    obtain ⟨sl1, c1, hx, c1f, hf, hrest⟩ := h
    have S1 := (tf_shapeM_at G fuel b x { drop := true } c c1 sl1 sc rs pool ps rfl rfl hs hp htop hm (hT x (by simp)) hL hx).1
    obtain ⟨sc1, pool1, hs1, hp1, ht1, hL1, _⟩ := S1.out
    have R2 := freeslot_stepR c1 c1f sl1 sc1 rs pool1 ps hs1 hp1 hf
    have S2 := R2.shp hs1 hL1
    obtain ⟨sc2, pool2, hs2, hp2, ht2, hL2, _⟩ := S2.out
    have S3 := ih (fun e he => hT e (by simp [he])) c1f c' sc2 rs pool2 ps hs2 hp2
      (by rw [ht2, ht1]; exact htop) (R2.mapLen (S1.mapLen hm)) hL2 hrest
    exact S1.trans' hs1 hp1 (S2.trans' hs2 hp2 S3)

end JanetModel.Compile
