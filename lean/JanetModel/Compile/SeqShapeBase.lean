/- C02: compile-only "shape" facts of the compiler model (no semantics, no VM): what one compile step does to the compiler
   state — code / map only appended, pool of the current function only appended, value table only extended, only the
   innermost scope's allocator and symbols changed.  Building blocks for `tf_shape` (Compile/SeqShape.lean), which is needed for
   the branch of an `if` that `Lang/Sem` does not evaluate.  Also: `janetc_if` unfolded (`cIf`). -/
import JanetModel.Compile.SeqArgs
import JanetModel.Compile.SeqPush
namespace JanetModel.Compile
open JanetModel.Emit JanetModel.Lang JanetModel.Bytecode.Exec JanetModel.Gen.Bytecode

/-- compile-time invariant of the shape theorem: every resolvable name is a plain named local found without crossing a
    function scope; names used as global functions are not bound -/
def LkL (G : String → Prop) (scs : List Scope) : Prop :=
  (∀ f, G f → lk scs f = none) ∧
  ∀ x slot u l, lk scs x = some (slot, u, l) → l = true ∧ slot.cflag = false ∧ (∃ r, slot.k = .loc r) ∧ slot.named = true

theorem EnvS.lkl {G : String → Prop} {scs : List Scope} {env : Env} {nb : Nat} {ra : RA} (h : EnvS G scs env nb ra) : LkL G scs := by
  refine ⟨h.1, fun x slot u l hx => ?_⟩
  obtain ⟨a1, a2, a3, r, _, a4, _⟩ := h.found hx
  exact ⟨a1, a3, ⟨r, a4⟩, a2⟩

theorem LkL.of_lk {G : String → Prop} {scs scs' : List Scope} (h : LkL G scs) (hlk : ∀ x, lk scs' x = lk scs x) : LkL G scs' :=
  ⟨fun f hf => by rw [hlk]; exact h.1 f hf, fun x slot u l hx => h.2 x slot u l (by rw [← hlk]; exact hx)⟩

/-- the `unused` flag seen so far only shows in the `unused` component of the answer -/
theorem lookupR_u (x : String) : ∀ (l : List Scope) (u lc : Bool),
    lookupR x l u lc = (lookupR x l false lc).map (fun r => (r.1, u || r.2.1, r.2.2))
  | [], _, _ => rfl
  | sc :: rest, u, lc => by
    simp only [lookupR]
    cases hf : findSym sc.syms x with
    | some i => simp
    | none =>
      simp only []
      rw [lookupR_u x rest (u || sc.unused), lookupR_u x rest (false || sc.unused)]
      cases lookupR x rest false (lc && !sc.fn) <;> simp [Bool.or_assoc]

/-- the block scope `janetc_scope` pushes (flags: not a function, not a loop, not top) -/
def blk (c : CState) (sc : Scope) (un : Bool) : Scope :=
  { unused := un, ra := { alloc := sc.ra.alloc, max := sc.ra.max }, start := c.buf.length }

theorem pushScope_blk (c : CState) (sc : Scope) (rs : List Scope) (un : Bool) (hs : c.scopes = sc :: rs) :
    pushScope c false false false un = { c with scopes := blk c sc un :: sc :: rs } := by
  simp [pushScope, hs, blk]

theorem LkL.push {G : String → Prop} {l : List Scope} (h : LkL G l) (nw : Scope) (h1 : nw.syms = []) (h3 : nw.fn = false) : LkL G (nw :: l) := by
  have hf : ∀ x, findSym nw.syms x = none := by intro x; rw [h1]; rfl
  have e : ∀ x, lk (nw :: l) x = (lk l x).map (fun r => (r.1, nw.unused || r.2.1, r.2.2)) := by
    intro x
    simp only [lk, lookupR, hf, h3, Bool.false_or, Bool.not_false, Bool.and_true]
    exact lookupR_u x l nw.unused true
  refine ⟨fun f hf' => by rw [e, h.1 f hf']; rfl, fun x slot u lc hx => ?_⟩
  rw [e] at hx
  cases hh : lk l x with
  | none => rw [hh] at hx; exact absurd hx (by simp)
  | some r =>
    obtain ⟨s0, u0, l0⟩ := r
    rw [hh] at hx
    simp only [Option.map_some, Option.some.injEq, Prod.mk.injEq] at hx
    obtain ⟨e1, _, e3⟩ := hx
    subst e1 e3
    exact h.2 x s0 u0 l0 hh

/-! ### steps that only touch the allocator -/

/-- a compile step that changes only the innermost allocator, appends to the pool, the code and the map -/
def StepR (c c' : CState) (sc : Scope) (rs : List Scope) (pool : List KConst) (ps : List (List KConst)) : Prop :=
  ∃ (ra' : RA) (more : List KConst) (seg : List CI) (segm : List Pos),
    c' = { c with scopes := { sc with ra := ra' } :: rs, pools := (pool ++ more) :: ps, buf := c.buf ++ seg, map := c.map ++ segm } ∧
    segm.length = seg.length

theorem StepR.of_ra (c : CState) (sc : Scope) (rs : List Scope) (pool : List KConst) (ps : List (List KConst))
    (hp : c.pools = pool :: ps) (ra : RA) : StepR c { c with scopes := { sc with ra := ra } :: rs } sc rs pool ps :=
  ⟨ra, [], [], [], by simp [← hp], rfl⟩

theorem StepR.refl (c : CState) (sc : Scope) (rs : List Scope) (pool : List KConst) (ps : List (List KConst))
    (hs : c.scopes = sc :: rs) (hp : c.pools = pool :: ps) : StepR c c sc rs pool ps := by
  have := StepR.of_ra c sc rs pool ps hp sc.ra
  rw [← cstate_scopes_eta c sc rs hs] at this
  exact this

theorem StepR.trans {c c1 c2 : CState} {sc : Scope} {rs : List Scope} {pool : List KConst} {ps : List (List KConst)}
    (h1 : StepR c c1 sc rs pool ps)
    (h2 : ∀ sc1 pool1, c1.scopes = sc1 :: rs → c1.pools = pool1 :: ps → StepR c1 c2 sc1 rs pool1 ps) : StepR c c2 sc rs pool ps := by
  obtain ⟨ra1, more1, seg1, segm1, hc1, hl1⟩ := h1
  obtain ⟨ra2, more2, seg2, segm2, hc2, hl2⟩ := h2 { sc with ra := ra1 } (pool ++ more1) (by rw [hc1]) (by rw [hc1])
  refine ⟨ra2, more1 ++ more2, seg1 ++ seg2, segm1 ++ segm2, ?_, by simp [hl1, hl2]⟩
  rw [hc2, hc1]
  simp [List.append_assoc]

theorem emitW_stepR (c c' : CState) (f : Emit.C → Emit.C) (sc : Scope) (rs : List Scope) (pool : List KConst) (ps : List (List KConst))
    (hs : c.scopes = sc :: rs) (hp : c.pools = pool :: ps) (hpre : PrefL pool (f { ra := sc.ra, buf := [], consts := pool }).consts)
    (h : emitW c f = some c') : StepR c c' sc rs pool ps := by
  obtain ⟨_, hc'⟩ := emitW_spec c c' f sc rs pool ps hs hp h
  obtain ⟨m, hm⟩ := hpre
  exact ⟨_, m, _, _, by rw [hc', hm], by simp⟩

theorem W_emitS_consts (e : Emit.C) (op : Nat) (wr : Bool) (s : Slot) :
    (W.emitS e op wr s).consts = (W.slotConst s).foldl W.intern e.consts := by
  unfold W.emitS
  rcases W.farTemp e.ra s 0 with ⟨t0, fr, r, ra1⟩
  simp only
  rcases W.backTemp ra1 wr s with ⟨t5, ra2⟩
  rfl

theorem W_emitSS_consts (e : Emit.C) (op : Nat) (wr : Bool) (s1 s2 : Slot) :
    (W.emitSS e op wr s1 s2).consts = (W.slotConst s1 ++ W.slotConst s2).foldl W.intern e.consts := by
  unfold W.emitSS
  rcases W.nearTemp e.ra s1 0 with ⟨t0, ra1⟩
  simp only
  rcases W.farTemp ra1 s2 1 with ⟨t1, fr, r2, ra2⟩
  simp only
  rcases W.backTemp (W.freeNear ra2 s2 r2 1) wr s1 with ⟨t5, ra4⟩
  rfl

theorem W_emitSSS_consts (e : Emit.C) (op : Nat) (wr : Bool) (s1 s2 s3 : Slot) :
    (W.emitSSS e op wr s1 s2 s3).consts = (W.slotConst s1 ++ W.slotConst s2 ++ W.slotConst s3).foldl W.intern e.consts := by
  unfold W.emitSSS
  rcases W.nearTemp e.ra s1 0 with ⟨t0, ra1⟩
  simp only
  rcases W.nearTemp ra1 s2 1 with ⟨t1, ra2⟩
  simp only
  rcases W.nearTemp ra2 s3 2 with ⟨t2, ra3⟩
  simp only
  rcases W.backTemp (W.freeNear (W.freeNear ra3 s2 t1 1) s3 t2 2) wr s1 with ⟨t5, ra6⟩
  rfl

theorem W_emitSI_consts (e : Emit.C) (op : Nat) (wr : Bool) (s : Slot) (imm : Nat) :
    (W.emitSI e op wr s imm).consts = (W.slotConst s).foldl W.intern e.consts ∧ 1 ≤ (W.emitSI e op wr s imm).buf.length := by
  unfold W.emitSI
  rcases W.nearTemp e.ra s 0 with ⟨t0, ra1⟩
  simp only
  rcases W.backTemp ra1 wr s with ⟨t5, ra2⟩
  refine ⟨rfl, ?_⟩
  simp only [W.finish, Emit.emitSI, List.length_append, List.length_cons, List.length_nil]
  omega

theorem W_copy_consts (e : Emit.C) (dest src : Slot) : PrefL e.consts (W.copy e dest src).consts := by
  unfold W.copy
  split
  · exact PrefL.refl _
  · split
    · exact PrefL.refl _
    · split
      · exact foldl_intern_pref _ _
      · split
        · rcases W.backTemp e.ra true dest with ⟨t5, ra1⟩
          exact foldl_intern_pref _ _
        · rcases e.ra.allocTemp 3 with ⟨t3, ra1⟩
          simp only
          rcases W.backTemp ra1 true dest with ⟨t5, ra2⟩
          exact foldl_intern_pref _ _

theorem emitS_stepR (c c' : CState) (op : Op) (s : JSlot) (wr : Bool) (sc : Scope) (rs : List Scope) (pool : List KConst) (ps : List (List KConst))
    (hs : c.scopes = sc :: rs) (hp : c.pools = pool :: ps) (h : emitS c op s wr = some c') : StepR c c' sc rs pool ps :=
  emitW_stepR c c' _ sc rs pool ps hs hp (by rw [W_emitS_consts]; exact foldl_intern_pref _ _) h

theorem emitSS_stepR (c c' : CState) (op : Op) (s1 s2 : JSlot) (wr : Bool) (sc : Scope) (rs : List Scope) (pool : List KConst) (ps : List (List KConst))
    (hs : c.scopes = sc :: rs) (hp : c.pools = pool :: ps) (h : emitSS c op s1 s2 wr = some c') : StepR c c' sc rs pool ps :=
  emitW_stepR c c' _ sc rs pool ps hs hp (by rw [W_emitSS_consts]; exact foldl_intern_pref _ _) h

theorem emitSSS_stepR (c c' : CState) (op : Op) (s1 s2 s3 : JSlot) (wr : Bool) (sc : Scope) (rs : List Scope) (pool : List KConst) (ps : List (List KConst))
    (hs : c.scopes = sc :: rs) (hp : c.pools = pool :: ps) (h : emitSSS c op s1 s2 s3 wr = some c') : StepR c c' sc rs pool ps :=
  emitW_stepR c c' _ sc rs pool ps hs hp (by rw [W_emitSSS_consts]; exact foldl_intern_pref _ _) h

/-- `emit1s`: at least the payload is emitted -/
theorem emitSI_stepR (c c' : CState) (op : Op) (s : JSlot) (imm : Nat) (wr : Bool) (sc : Scope) (rs : List Scope) (pool : List KConst) (ps : List (List KConst))
    (hs : c.scopes = sc :: rs) (hp : c.pools = pool :: ps) (h : emitSI c op s imm wr = some c') :
    StepR c c' sc rs pool ps ∧ c.buf.length + 1 ≤ c'.buf.length := by
  refine ⟨emitW_stepR c c' _ sc rs pool ps hs hp (by rw [(W_emitSI_consts _ _ _ _ _).1]; exact foldl_intern_pref _ _) h, ?_⟩
  obtain ⟨_, hc'⟩ := emitW_spec c c' _ sc rs pool ps hs hp h
  have := (W_emitSI_consts { ra := sc.ra, buf := [], consts := pool } op.toNat wr s.k imm).2
  rw [hc']
  simp only [List.length_append, List.length_map]
  omega

theorem copySlot_stepR (c c' : CState) (dest src : JSlot) (sc : Scope) (rs : List Scope) (pool : List KConst) (ps : List (List KConst))
    (hs : c.scopes = sc :: rs) (hp : c.pools = pool :: ps) (h : copySlot c dest src = some c') : StepR c c' sc rs pool ps := by
  unfold copySlot at h
  split at h
  · exact absurd h (by simp)
  · split at h
    · exact absurd h (by simp)
    · exact emitW_stepR c c' _ sc rs pool ps hs hp (W_copy_consts _ _ _) h

theorem freeslot_stepR (c c' : CState) (s : JSlot) (sc : Scope) (rs : List Scope) (pool : List KConst) (ps : List (List KConst))
    (hs : c.scopes = sc :: rs) (hp : c.pools = pool :: ps) (h : freeslot c s = some c') : StepR c c' sc rs pool ps := by
  unfold freeslot at h
  split at h
  · rw [← Option.some.inj h]; exact StepR.refl c sc rs pool ps hs hp
  · split at h
    · rw [← Option.some.inj h]; exact StepR.refl c sc rs pool ps hs hp
    · rw [hs] at h
      simp only [Option.some.injEq] at h
      rw [← h]
      exact StepR.of_ra c sc rs pool ps hp _
    · exact absurd h (by simp)

theorem freeslots_stepR : ∀ (ss : List JSlot) (c c' : CState) (sc : Scope) (rs : List Scope) (pool : List KConst) (ps : List (List KConst)),
    c.scopes = sc :: rs → c.pools = pool :: ps → freeslots c ss = some c' → StepR c c' sc rs pool ps
  | [], c, c', sc, rs, pool, ps, hs, hp, h => by
    simp only [freeslots, Option.some.injEq] at h
    rw [← h]; exact StepR.refl c sc rs pool ps hs hp
  | s :: ss, c, c', sc, rs, pool, ps, hs, hp, h => by
    simp only [freeslots, Option.bind_eq_bind, Option.bind_eq_some_iff] at h
    obtain ⟨c1, h1, h2⟩ := h
    exact (freeslot_stepR c c1 s sc rs pool ps hs hp h1).trans (fun sc1 pool1 hs1 hp1 => freeslots_stepR ss c1 c' sc1 rs pool1 ps hs1 hp1 h2)

theorem getTarget_stepR (c c' : CState) (opts : Fopts) (t : JSlot) (hh : opts.hint = none) (sc : Scope) (rs : List Scope) (pool : List KConst) (ps : List (List KConst))
    (hs : c.scopes = sc :: rs) (hp : c.pools = pool :: ps) (h : getTarget c opts = some (t, c')) : StepR c c' sc rs pool ps := by
  simp only [getTarget, hh, allocFar, hs] at h
  split at h
  · exact absurd h (by simp)
  · simp only [Option.bind_eq_bind, Option.bind_some, Option.pure_def, Option.some.injEq, Prod.mk.injEq] at h
    rw [← h.2]
    exact StepR.of_ra c sc rs pool ps hp _

theorem emitRaw_stepR (c : CState) (i : CI) (sc : Scope) (rs : List Scope) (pool : List KConst) (ps : List (List KConst))
    (hs : c.scopes = sc :: rs) (hp : c.pools = pool :: ps) : StepR c (emitRaw c i) sc rs pool ps := by
  refine ⟨sc.ra, [], [i], [c.cur], ?_, rfl⟩
  simp only [emitRaw, List.append_nil, ← hp]
  conv => lhs; rw [cstate_scopes_eta c sc rs hs]

theorem pushSlots_stepR : ∀ (ss : List JSlot) (c c' : CState) (sc : Scope) (rs : List Scope) (pool : List KConst) (ps : List (List KConst)),
    c.scopes = sc :: rs → c.pools = pool :: ps → pushSlots c ss = some c' → StepR c c' sc rs pool ps
  | [], c, c', sc, rs, pool, ps, hs, hp, h => by
    simp only [pushSlots, Option.some.injEq] at h
    rw [← h]; exact StepR.refl c sc rs pool ps hs hp
  | [a], c, c', sc, rs, pool, ps, hs, hp, h => by
    simp only [pushSlots] at h
    exact emitS_stepR c c' _ a false sc rs pool ps hs hp h
  | [a, b], c, c', sc, rs, pool, ps, hs, hp, h => by
    simp only [pushSlots] at h
    exact emitSS_stepR c c' _ a b false sc rs pool ps hs hp h
  | a :: b :: d :: rest, c, c', sc, rs, pool, ps, hs, hp, h => by
    simp only [pushSlots, Option.bind_eq_bind, Option.bind_eq_some_iff] at h
    obtain ⟨c1, h1, h2⟩ := h
    exact (emitSSS_stepR c c1 _ a b d false sc rs pool ps hs hp h1).trans
      (fun sc1 pool1 hs1 hp1 => pushSlots_stepR rest c1 c' sc1 rs pool1 ps hs1 hp1 h2)

/-! ### the general shape -/

/-- what compiling a form does to the compiler state -/
def Shp (G : String → Prop) (c c' : CState) (sc : Scope) (rs : List Scope) (pool : List KConst) (ps : List (List KConst)) : Prop :=
  ∃ (ra' : RA) (nsyms : List SymPair) (more : List KConst) (seg : List CI) (segm : List Pos),
    c' = { c with scopes := { sc with ra := ra', syms := sc.syms ++ nsyms } :: rs, pools := (pool ++ more) :: ps, buf := c.buf ++ seg,
                  map := c.map ++ segm, vals := c'.vals } ∧
    PrefA c.vals c'.vals ∧ LkL G c'.scopes ∧ segm.length = seg.length

theorem StepR.shp {G : String → Prop} {c c' : CState} {sc : Scope} {rs : List Scope} {pool : List KConst} {ps : List (List KConst)}
    (hs : c.scopes = sc :: rs) (hL : LkL G c.scopes) (h : StepR c c' sc rs pool ps) : Shp G c c' sc rs pool ps := by
  obtain ⟨ra', more, seg, segm, hc, hl⟩ := h
  refine ⟨ra', [], more, seg, segm, ?_, ?_, ?_, hl⟩
  · rw [hc]; simp
  · rw [hc]; exact PrefA.refl _
  · refine hL.of_lk (fun x => ?_)
    rw [hc, hs]; rfl

theorem Shp.refl {G : String → Prop} {c : CState} {sc : Scope} {rs : List Scope} {pool : List KConst} {ps : List (List KConst)}
    (hs : c.scopes = sc :: rs) (hp : c.pools = pool :: ps) (hL : LkL G c.scopes) : Shp G c c sc rs pool ps :=
  (StepR.refl c sc rs pool ps hs hp).shp hs hL

theorem Shp.mapLen {G : String → Prop} {c c' : CState} {sc : Scope} {rs : List Scope} {pool : List KConst} {ps : List (List KConst)}
    (h : Shp G c c' sc rs pool ps) (hm : c.map.length = c.buf.length) : c'.map.length = c'.buf.length := by
  obtain ⟨ra', ns, more, seg, segm, hc, _, _, hl⟩ := h
  rw [hc]; simp [hm, hl]

theorem Shp.trans {G : String → Prop} {c c1 c2 : CState} {sc : Scope} {rs : List Scope} {pool : List KConst} {ps : List (List KConst)}
    (h1 : Shp G c c1 sc rs pool ps)
    (h2 : ∀ sc1 pool1, c1.scopes = sc1 :: rs → c1.pools = pool1 :: ps → sc1.top = sc.top → LkL G c1.scopes →
          Shp G c1 c2 sc1 rs pool1 ps) : Shp G c c2 sc rs pool ps := by
  obtain ⟨ra1, ns1, more1, seg1, segm1, hc1, pv1, lk1, hl1⟩ := h1
  obtain ⟨ra2, ns2, more2, seg2, segm2, hc2, pv2, lk2, hl2⟩ :=
    h2 { sc with ra := ra1, syms := sc.syms ++ ns1 } (pool ++ more1) (by rw [hc1]) (by rw [hc1]) rfl lk1
  refine ⟨ra2, ns1 ++ ns2, more1 ++ more2, seg1 ++ seg2, segm1 ++ segm2, ?_, PrefA.trans pv1 pv2, lk2, by simp [hl1, hl2]⟩
  rw [hc2, hc1]
  simp [List.append_assoc]

theorem Shp.thenR {G : String → Prop} {c c1 c2 : CState} {sc : Scope} {rs : List Scope} {pool : List KConst} {ps : List (List KConst)}
    (h1 : Shp G c c1 sc rs pool ps)
    (h2 : ∀ sc1 pool1, c1.scopes = sc1 :: rs → c1.pools = pool1 :: ps → StepR c1 c2 sc1 rs pool1 ps) : Shp G c c2 sc rs pool ps :=
  h1.trans (fun sc1 pool1 hs1 hp1 _ hL1 => (h2 sc1 pool1 hs1 hp1).shp hs1 hL1)

theorem StepR.mapLen {c c' : CState} {sc : Scope} {rs : List Scope} {pool : List KConst} {ps : List (List KConst)}
    (h : StepR c c' sc rs pool ps) (hm : c.map.length = c.buf.length) : c'.map.length = c'.buf.length := by
  obtain ⟨ra', more, seg, segm, hc, hl⟩ := h
  rw [hc]; simp [hm, hl]

/-- transitivity carrying the map / code length invariant -/
theorem Shp.transM {G : String → Prop} {c c1 c2 : CState} {sc : Scope} {rs : List Scope} {pool : List KConst} {ps : List (List KConst)}
    (hm : c.map.length = c.buf.length) (h1 : Shp G c c1 sc rs pool ps)
    (h2 : ∀ sc1 pool1, c1.scopes = sc1 :: rs → c1.pools = pool1 :: ps → sc1.top = sc.top → LkL G c1.scopes →
          c1.map.length = c1.buf.length → Shp G c1 c2 sc1 rs pool1 ps) : Shp G c c2 sc rs pool ps :=
  h1.trans (fun sc1 pool1 a b c d => h2 sc1 pool1 a b c d (h1.mapLen hm))

/-- the mapping cursor does not matter -/
theorem Shp.recur {G : String → Prop} {c c1 : CState} {q : Pos} {sc : Scope} {rs : List Scope} {pool : List KConst} {ps : List (List KConst)}
    (h : Shp G { c with cur := q } c1 sc rs pool ps) : Shp G c { c1 with cur := c.cur } sc rs pool ps := by
  obtain ⟨ra', nsyms, more, seg, segm, hc, h2⟩ := h
  refine ⟨ra', nsyms, more, seg, segm, ?_, h2⟩
  conv => lhs; rw [hc]

theorem kOf_shape (c : CState) (v : Value) : (kOf c v).2 = { c with vals := (kOf c v).2.vals } ∧ PrefA c.vals (kOf c v).2.vals := by
  unfold kOf
  split
  · exact ⟨rfl, PrefA.refl _⟩
  · exact ⟨rfl, PrefA.refl _⟩
  · exact ⟨rfl, PrefA.refl _⟩
  · split
    · exact ⟨rfl, PrefA.refl _⟩
    · split
      · exact ⟨rfl, PrefA.refl _⟩
      · exact ⟨rfl, PrefA.push _ _⟩
  · split
    · exact ⟨rfl, PrefA.refl _⟩
    · exact ⟨rfl, PrefA.push _ _⟩

theorem constSlot_shape (G : String → Prop) (c : CState) (v : Value) (sc : Scope) (rs : List Scope) (pool : List KConst) (ps : List (List KConst))
    (hs : c.scopes = sc :: rs) (hp : c.pools = pool :: ps) (hL : LkL G c.scopes) : Shp G c (constSlot c v).2 sc rs pool ps := by
  obtain ⟨h1, h2⟩ := kOf_shape c v
  have hsc : (constSlot c v).2.scopes = c.scopes := by
    show (kOf c v).2.scopes = _
    rw [h1]
  refine ⟨sc.ra, [], [], [], [], ?_, h2, by rw [hsc]; exact hL, rfl⟩
  show (kOf c v).2 = _
  conv => lhs; rw [h1]
  simp [hs, hp]
  rfl

/-! ### block scopes -/

/-- `janetc_popscope` of a used block scope after a shaped body -/
theorem pop_shape (G : String → Prop) (c c2 c3 : CState) (sc : Scope) (rs : List Scope) (pool : List KConst) (ps : List (List KConst))
    (hs : c.scopes = sc :: rs) (hL : LkL G c.scopes)
    (h : Shp G { c with scopes := blk c sc false :: sc :: rs } c2 (blk c sc false) (sc :: rs) pool ps) (hpop : popScope c2 = some c3) :
    Shp G c c3 sc rs pool ps := by
  obtain ⟨ra2, ns2, more2, seg2, segm2, hc2, pv2, _, hl2⟩ := h
  have hs2 : c2.scopes = { blk c sc false with ra := ra2, syms := (blk c sc false).syms ++ ns2 } :: sc :: rs := by rw [hc2]
  obtain ⟨raX, hpop', _, _⟩ := popScope_block c2 _ sc rs hs2 rfl rfl rfl
  rw [hpop'] at hpop
  have hc3 := (Option.some.inj hpop).symm
  refine ⟨raX, ((blk c sc false).syms ++ ns2).map (fun q => { q with visible := false }), more2, seg2, segm2, ?_, ?_, ?_, hl2⟩
  · rw [hc3, hc2]
  · rw [hc3]; exact pv2
  · refine hL.of_lk (fun x => ?_)
    rw [hc3, hs]
    have hinv : ∀ q, q ∈ ((blk c sc false).syms ++ ns2).map (fun q : SymPair => { q with visible := false }) → q.visible = false := by
      intro q hq
      simp only [List.mem_map] at hq
      obtain ⟨q0, _, rfl⟩ := hq
      rfl
    exact (lk_append_invisible { sc with ra := raX } rs _ hinv x).trans (lk_ra sc rs raX x)

/-- `janetc_popscope_keepslot` likewise -/
theorem popKeep_shape (G : String → Prop) (c c2 c3 : CState) (r : JSlot) (sc : Scope) (rs : List Scope) (pool : List KConst) (ps : List (List KConst))
    (hs : c.scopes = sc :: rs) (hL : LkL G c.scopes)
    (h : Shp G { c with scopes := blk c sc false :: sc :: rs } c2 (blk c sc false) (sc :: rs) pool ps) (hpop : popScopeKeep c2 r = some c3) :
    Shp G c c3 sc rs pool ps := by
  obtain ⟨ra2, ns2, more2, seg2, segm2, hc2, pv2, _, hl2⟩ := h
  have hs2 : c2.scopes = { blk c sc false with ra := ra2, syms := (blk c sc false).syms ++ ns2 } :: sc :: rs := by rw [hc2]
  obtain ⟨raX, hc3, _, _, _⟩ := popScopeKeep_block c2 c3 r _ sc rs hs2 rfl rfl rfl hpop
  refine ⟨raX, ((blk c sc false).syms ++ ns2).map (fun q => { q with visible := false }), more2, seg2, segm2, ?_, ?_, ?_, hl2⟩
  · rw [hc3, hc2]
  · rw [hc3]; exact pv2
  · refine hL.of_lk (fun x => ?_)
    rw [hc3, hs]
    have hinv : ∀ q, q ∈ ((blk c sc false).syms ++ ns2).map (fun q : SymPair => { q with visible := false }) → q.visible = false := by
      intro q hq
      simp only [List.mem_map] at hq
      obtain ⟨q0, _, rfl⟩ := hq
      rfl
    exact (lk_append_invisible { sc with ra := raX } rs _ hinv x).trans (lk_ra sc rs raX x)

/-- `janetc_throwaway`: only the pool and the value table keep a trace -/
theorem throwaway_eq (G : String → Prop) (rec' : Fopts → Expr → CState → Option (JSlot × CState)) (opts : Fopts) (x : Expr)
    (c c' : CState) (sc : Scope) (rs : List Scope) (pool : List KConst) (ps : List (List KConst))
    (hs : c.scopes = sc :: rs) (hm : c.map.length = c.buf.length)
    (IH : ∀ c2 sl, rec' opts x { c with scopes := blk c sc true :: sc :: rs } = some (sl, c2) →
          Shp G { c with scopes := blk c sc true :: sc :: rs } c2 (blk c sc true) (sc :: rs) pool ps)
    (h : throwaway rec' opts x c = some c') :
    ∃ (more : List KConst), c' = { c with pools := (pool ++ more) :: ps, vals := c'.vals } ∧ PrefA c.vals c'.vals := by
  simp only [throwaway, pushScope_blk c sc rs true hs, Option.bind_eq_bind, Option.bind_eq_some_iff, Prod.exists, Option.pure_def,
    Option.some.injEq] at h
  obtain ⟨sl, c2, h1, c3, hpop, hc'⟩ := h
  obtain ⟨ra2, ns2, more2, seg2, segm2, hc2, pv2, _, hl2⟩ := IH c2 sl h1
  have hs2 : c2.scopes = { blk c sc true with ra := ra2, syms := (blk c sc true).syms ++ ns2 } :: sc :: rs := by rw [hc2]
  have hc3 : c3 = { c2 with scopes := sc :: rs } := by
    unfold popScope at hpop
    rw [hs2] at hpop
    simp [blk] at hpop
    exact hpop.symm
  refine ⟨more2, ?_, ?_⟩
  · rw [← hc', hc3, hc2]
    simp [hm]
    rw [← hs]
  · rw [← hc', hc3]; exact pv2

theorem throwaway_shape (G : String → Prop) (rec' : Fopts → Expr → CState → Option (JSlot × CState)) (opts : Fopts) (x : Expr)
    (c c' : CState) (sc : Scope) (rs : List Scope) (pool : List KConst) (ps : List (List KConst))
    (hs : c.scopes = sc :: rs) (hL : LkL G c.scopes) (hm : c.map.length = c.buf.length)
    (IH : ∀ c2 sl, rec' opts x { c with scopes := blk c sc true :: sc :: rs } = some (sl, c2) →
          Shp G { c with scopes := blk c sc true :: sc :: rs } c2 (blk c sc true) (sc :: rs) pool ps)
    (h : throwaway rec' opts x c = some c') : Shp G c c' sc rs pool ps := by
  obtain ⟨more, hc', pv⟩ := throwaway_eq G rec' opts x c c' sc rs pool ps hs hm IH h
  have hsc : c'.scopes = c.scopes := by rw [hc']
  refine ⟨sc.ra, [], more, [], [], ?_, pv, by rw [hsc]; exact hL, rfl⟩
  conv => lhs; rw [hc']
  simp [hs]

/-! ### patching inside the appended segment -/

theorem modBuf_append (f : CI → CI) : ∀ (a b : List CI) (i : Nat), a.length ≤ i → modBuf (a ++ b) i f = a ++ modBuf b (i - a.length) f
  | [], b, i, _ => by simp
  | x :: a, b, i, h => by
    cases i with
    | zero => simp at h
    | succ j =>
      have := modBuf_append f a b j (by simpa using h)
      simp only [modBuf] at this ⊢
      simp [List.modify_succ_cons, this]

theorem modBuf_length (f : CI → CI) (b : List CI) (i : Nat) : (modBuf b i f).length = b.length := by simp [modBuf]

end JanetModel.Compile
