/- C02: compile correctness of the compiler model for the call fragment
     e ::= literal | symbol | (f e)              f a global core function other than `apply`, not a special form
   (nested calls of core functions on constants, locals and nested calls), value used, near registers.
   Running the code `Compile.cValue` emits, on the Lean VM, from any frame whose registers hold the boxes of the
   environment, reaches the value and the world `Lang/Sem.eval` gives the source form, leaves every register that was
   allocated at entry untouched, and the allocator keeps everything that was allocated allocated. -/
import JanetModel.Compile.CompCall
namespace JanetModel.Compile
open JanetModel.Emit JanetModel.Lang JanetModel.Bytecode.Exec JanetModel.Gen.Bytecode

/-- what the scopes know about a name: its slot and the two flags of the search -/
def lookupSlot (c : CState) (x : String) : Option (JSlot × Bool × Bool) :=
  (searchScopes x c.scopes 0 false true).map (fun r => (((c.scopes.getD r.1 default).syms.getD r.2.1 default).slot, r.2.2.1, r.2.2.2))

theorem lookupSlot_ra (c c1 : CState) (sc : Scope) (rs : List Scope) (ra : RA) (hs : c.scopes = sc :: rs)
    (h1 : c1.scopes = { sc with ra := ra } :: rs) (x : String) : lookupSlot c1 x = lookupSlot c x := by
  unfold lookupSlot
  rw [h1, hs, searchScopes_ra]
  cases searchScopes x (sc :: rs) 0 false true with
  | none => rfl
  | some r =>
    obtain ⟨pos, i, u, l⟩ := r
    cases pos <;> rfl

theorem resolve_global (c : CState) (x : String) (h : lookupSlot c x = none) : resolve c x = globalSlot c x := by
  unfold lookupSlot at h
  cases hs : searchScopes x c.scopes 0 false true with
  | none => simp only [resolve, hs]
  | some r => rw [hs] at h; exact absurd h (by simp)

theorem resolve_local (c : CState) (x : String) (slot : JSlot) (u : Bool) (h : lookupSlot c x = some (slot, u, true))
    (hc : slot.cflag = false) : resolve c x = some (slot, c) := by
  unfold lookupSlot at h
  cases hs : searchScopes x c.scopes 0 false true with
  | none => rw [hs] at h; exact absurd h (by simp)
  | some r =>
    obtain ⟨pos, i, u', l⟩ := r
    rw [hs] at h
    simp only [Option.map_some, Option.some.injEq, Prod.mk.injEq] at h
    obtain ⟨h1, h2, h3⟩ := h
    subst h2 h3
    simp only [resolve, hs, h1, hc, Bool.false_or, Bool.or_true, if_true]
    split <;> rfl

/-- the names: a global name is unbound in the environment; a local name is a named near local whose register is allocated,
    in bounds of the model's limit, and holds the box of the name -/
def EnvOK (c : CState) (env : Env) (s : SS) (regs : Array Value) (ra : RA) : Prop :=
  ∀ x, (lookupSlot c x = none ∧ lookupEnv env x = none) ∨
    (∃ slot r a u, lookupSlot c x = some (slot, u, true) ∧ slot.k = .loc r ∧ slot.named = true ∧ slot.cflag = false ∧
      lookupEnv env x = some a ∧ regs.getD r .nil = readBox s a ∧ ra.alloc r = true ∧ r < 240)

/-- value a slot stands for -/
def slotVal (V : Array Value) (regs : Array Value) (s : JSlot) : Value :=
  match s.k with
  | .const kc => litOf V kc
  | .loc r => regs.getD r .nil
  | _ => .nil

/-- the call fragment (relative to the scopes: call heads are global) -/
inductive TC (c : CState) : Expr → Prop
  | lit (v : Value) : SimpleLit v → TC c (.lit v)
  | sym (x : String) : TC c (.sym x)
  | call1 (f : String) (a : Expr) (p : Pos) : specials.contains f = false → f ≠ "apply" → lookupSlot c f = none → TC c a →
      TC c (.form [.sym f, a] p)

theorem TC.ra {c c1 : CState} {sc : Scope} {rs : List Scope} {ra : RA} (hs : c.scopes = sc :: rs)
    (h1 : c1.scopes = { sc with ra := ra } :: rs) {e : Expr} (h : TC c e) : TC c1 e := by
  induction h with
  | lit v hv => exact .lit v hv
  | sym x => exact .sym x
  | call1 f a p h1' h2 h3 _ ih => exact .call1 f a p h1' h2 (by rw [lookupSlot_ra c c1 sc rs ra hs h1]; exact h3) ih

theorem TC.notSplice {c : CState} {e : Expr} (h : TC c e) : isSplice e = none := by
  cases h with
  | lit v hv => rfl
  | sym x => rfl
  | call1 f a p h1 h2 h3 h4 =>
    simp only [isSplice]
    split
    · rename_i x _ heq
      simp only [Expr.form.injEq, List.cons.injEq, Expr.sym.injEq] at heq
      obtain ⟨⟨hf, _⟩, _⟩ := heq
      subst hf
      simp [specials] at h1
    · rfl

/-! ### pool lemmas -/

def PrefL (a b : List KConst) : Prop := ∃ more, b = a ++ more

theorem PrefL.refl (a : List KConst) : PrefL a a := ⟨[], by simp⟩
theorem PrefL.trans {a b c : List KConst} (h1 : PrefL a b) (h2 : PrefL b c) : PrefL a c := by
  obtain ⟨m1, rfl⟩ := h1; obtain ⟨m2, rfl⟩ := h2; exact ⟨m1 ++ m2, by simp⟩
theorem PrefL.app (a m : List KConst) : PrefL a (a ++ m) := ⟨m, rfl⟩
theorem PrefL.length {a b : List KConst} (h : PrefL a b) : a.length ≤ b.length := by obtain ⟨m, rfl⟩ := h; simp
theorem PrefL.getD {a b : List KConst} (h : PrefL a b) (i : Nat) (hi : i < a.length) : b.getD i .nil = a.getD i .nil := by
  obtain ⟨m, rfl⟩ := h
  simp [List.getD, List.getElem?_append_left hi]

theorem intern_pref (pool : List KConst) (k : KConst) : PrefL pool (W.intern pool k) := by
  unfold W.intern; split
  · exact PrefL.refl _
  · exact PrefL.app _ _

theorem intern_mem (pool : List KConst) (k : KConst) : k ∈ W.intern pool k := by
  unfold W.intern; split
  · assumption
  · simp

theorem idxOf_getD : ∀ (l : List KConst) (k : KConst), k ∈ l → l.idxOf k < l.length ∧ l.getD (l.idxOf k) .nil = k
  | [], k, h => by simp at h
  | a :: l, k, h => by
    by_cases e : a = k
    · subst e; simp [List.idxOf_cons_self]
    · have hm : k ∈ l := by simpa [Ne.symm e] using h
      have ih := idxOf_getD l k hm
      have hne : (a == k) = false := by simpa using e
      rw [List.idxOf_cons, hne]
      simp only [cond_false, List.length_cons]
      exact ⟨by omega, by simpa [List.getD] using ih.2⟩

theorem poolIdx_le (pool : List KConst) (k : KConst) : W.poolIdx pool k ≤ pool.length := List.idxOf_le_length

/-- the pool after interning a constant operand, as seen from the final pool `P` of the function -/
theorem pooled_const_at (P : List KConst) (pool : List KConst) (k : KConst)
    (hpre : PrefL (if k.pooled then W.intern pool k else pool) P) (hp : k.pooled = true) :
    W.poolIdx (if k.pooled then W.intern pool k else pool) k < P.length ∧
    P.getD (W.poolIdx (if k.pooled then W.intern pool k else pool) k) .nil = k := by
  rw [hp] at hpre ⊢
  simp only [if_true] at hpre ⊢
  obtain ⟨h1, h2⟩ := idxOf_getD (W.intern pool k) k (intern_mem pool k)
  unfold W.poolIdx
  exact ⟨Nat.lt_of_lt_of_le h1 hpre.length, by rw [hpre.getD _ h1]; exact h2⟩

/-! ### register file lemmas -/

theorem getD_set_eq (a : Array Value) (t : Nat) (v : Value) (h : t < a.size) : (a.setIfInBounds t v).getD t .nil = v := by
  simp [Array.getD, h]

theorem getD_set_ne (a : Array Value) (t r : Nat) (v : Value) (h : r ≠ t) : (a.setIfInBounds t v).getD r .nil = a.getD r .nil := by
  simp [Array.getD_eq_getD_getElem?, Array.getElem?_setIfInBounds, Ne.symm h]

theorem size_set (a : Array Value) (t : Nat) (v : Value) : (a.setIfInBounds t v).size = a.size := by simp

/-- kinds of operand slot the fragment produces -/
def SK (s : JSlot) : Prop := (∃ kc, s.k = .const kc) ∨ (∃ r, s.k = .loc r ∧ r < 240)

section
variable (p : Program) (f0 : Frame) (rest : List Frame) (V : Array Value) (P : List KConst)

/-- `janetc_pushslots` on one operand: compile-side effect and VM run -/
theorem push1 (hP : P.length < 65536)
    (hK : ∀ i, i < P.length → (p.defs.getD f0.defIdx default).consts.getD i .nil = litOf V (P.getD i .nil))
    (c c3 : CState) (sa : JSlot) (sc : Scope) (rs : List Scope) (pool : List KConst) (ps : List (List KConst))
    (hs : c.scopes = sc :: rs) (hp : c.pools = pool :: ps) (hl : c.lim ≤ 240) (hsa : SK sa)
    (h : emitS c .push sa false = some c3) :
    ∃ (ra3 : RA) (more : List KConst) (seg : List CI) (segm : List Pos),
      c3 = { c with scopes := { sc with ra := ra3 } :: rs, pools := (pool ++ more) :: ps, buf := c.buf ++ seg, map := c.map ++ segm } ∧
      (∀ j, ra3.alloc j = sc.ra.alloc j) ∧ sc.ra.max ≤ ra3.max ∧ ra3.max < c.lim ∧
      ∀ (k : Cfg), CodeAt (p.defs.getD f0.defIdx default).code k.pc seg → PrefL (pool ++ more) P → ra3.max < k.regs.size →
        ∃ regs', Reach p (inj f0 rest k) (inj f0 rest { regs := regs', pc := k.pc + seg.length, args := k.args.push (slotVal V k.regs sa), w := k.w }) ∧
          regs'.size = k.regs.size ∧ ∀ r, sc.ra.alloc r = true → regs'.getD r .nil = k.regs.getD r .nil := by
  rcases hsa with ⟨kc, hk⟩ | ⟨r, hk, hr⟩
  · obtain ⟨t, ra', a1, a2, a3, a4, a5, a6, hc3⟩ := emitS_const c c3 .push sa kc hk sc rs pool ps hs hp hl h
    obtain ⟨m, hm⟩ : PrefL pool (if kc.pooled then W.intern pool kc else pool) := by
      split
      · exact intern_pref pool kc
      · exact PrefL.refl _
    refine ⟨ra', m, [CI.mi (MI.ldk t kc (W.poolIdx (if kc.pooled = true then W.intern pool kc else pool) kc)),
            CI.mi (MI.pay Op.push.toNat Shape.s false [t] 0)], [c.cur, c.cur], ?_, a6, a4, a5, ?_⟩
    · rw [hc3, hm]
    · intro k hcode hpre hsz
      rw [← hm] at hpre
      have hidx : W.poolIdx (if kc.pooled then W.intern pool kc else pool) kc < 65536 := by
        have := poolIdx_le (if kc.pooled then W.intern pool kc else pool) kc
        have := hpre.length
        omega
      have hconst : kc.pooled = true → (p.defs.getD f0.defIdx default).consts.getD (W.poolIdx (if kc.pooled then W.intern pool kc else pool) kc) .nil = litOf V kc := by
        intro hpl
        obtain ⟨h1, h2⟩ := pooled_const_at P pool kc hpre hpl
        rw [hK _ h1, h2]
      have s1 := run_ldk p f0 rest k t kc _ V (by omega) hidx hcode.head hconst
      have s2 := run_push p f0 rest { k with regs := k.regs.setIfInBounds t (litOf V kc), pc := k.pc + 1 } t (by omega) hcode.tail.head
      refine ⟨k.regs.setIfInBounds t (litOf V kc), ?_, size_set _ _ _, ?_⟩
      · refine Reach.head s1 (Reach.head s2 ?_)
        have e : slotVal V k.regs sa = (k.regs.setIfInBounds t (litOf V kc)).getD t .nil := by
          rw [getD_set_eq _ _ _ (by omega)]; simp [slotVal, hk]
        rw [e]
        exact Reach.refl _ _
      · intro r hr
        exact getD_set_ne _ _ _ _ (by intro e; rw [e] at hr; rw [hr] at a1; exact Bool.noConfusion a1)
  · obtain ⟨hmax, hc3⟩ := emitS_local c c3 .push sa r hk sc rs pool ps hs hp h
    refine ⟨sc.ra, [], [CI.mi (.pay Op.push.toNat .s false [r] 0)], [c.cur], ?_, fun _ => rfl, Nat.le_refl _, hmax, ?_⟩
    · rw [hc3]; simp
    · intro k hcode _ _
      have s1 := run_push p f0 rest k r (by omega) hcode.head
      refine ⟨k.regs, Reach.head s1 ?_, rfl, fun _ _ => rfl⟩
      have e : slotVal V k.regs sa = k.regs.getD r .nil := by simp [slotVal, hk]
      rw [e]
      exact Reach.refl _ _

theorem call_word (d t : Nat) : (CI.mi (.pay Op.call.toNat .ss true [d, t] 0)).word = (CI.call d t).word := by
  simp [CI.word, MI.word]

/-- target allocation + `JOP_CALL` of a constant core function: compile-side effect, VM run, agreement with `applyFn` -/
theorem callEmit (hP : P.length < 65536)
    (hK : ∀ i, i < P.length → (p.defs.getD f0.defIdx default).consts.getD i .nil = litOf V (P.getD i .nil))
    (c cT c4 : CState) (t head : JSlot) (kf : KConst) (f : String) (hna : f ≠ "apply")
    (sc : Scope) (rs : List Scope) (pool : List KConst) (ps : List (List KConst))
    (hs : c.scopes = sc :: rs) (hp : c.pools = pool :: ps) (hl : c.lim ≤ 240)
    (hhead : head.k = .const kf)
    (hT : getTarget c {} = some (t, cT)) (hE : emitSS cT .call t head true = some c4) :
    ∃ (d : Nat) (ra4 : RA) (more : List KConst) (seg : List CI) (segm : List Pos),
      t = { k := .loc d } ∧
      c4 = { c with scopes := { sc with ra := ra4 } :: rs, pools := (pool ++ more) :: ps, buf := c.buf ++ seg, map := c.map ++ segm } ∧
      sc.ra.alloc d = false ∧ (∀ j, ra4.alloc j = (if j = d then true else sc.ra.alloc j)) ∧ d ≤ ra4.max ∧ sc.ra.max ≤ ra4.max ∧ ra4.max < c.lim ∧
      ∀ (k : Cfg) (s s' : SS) (n : Nat) (pos : Pos) (v : Value),
        CodeAt (p.defs.getD f0.defIdx default).code k.pc seg → PrefL (pool ++ more) P → ra4.max < k.regs.size → k.w = s.st.world →
        litOf V kf = .cfun f →
        applyFn (n + 1) pos (.cfun f) k.args.toList s = .ok v s' →
        ∃ regs', Reach p (inj f0 rest k) (inj f0 rest { regs := regs', pc := k.pc + seg.length, args := #[], w := s'.st.world }) ∧
          regs'.size = k.regs.size ∧ regs'.getD d .nil = v ∧ ∀ r, sc.ra.alloc r = true → regs'.getD r .nil = k.regs.getD r .nil := by
  obtain ⟨d, raT, ht, b1, b2, b3, b4, b5, hcT⟩ := getTarget_spec c cT t sc rs hs hl hT
  have hsT : cT.scopes = { sc with ra := raT } :: rs := by rw [hcT]
  have hpT : cT.pools = pool :: ps := by rw [hcT]; exact hp
  have hlT : cT.lim ≤ 240 := by rw [hcT]; exact hl
  have hlimT : cT.lim = c.lim := by rw [hcT]
  have hd : d ≤ 0xFF := by omega
  obtain ⟨t', ra', a1, a2, a3, a4, a5, a6, hc4⟩ :=
    emitSS_loc_const cT c4 .call t head d kf (by rw [ht]) hd hhead { sc with ra := raT } rs pool ps hsT hpT hlT hE
  obtain ⟨m, hm⟩ : PrefL pool (if kf.pooled then W.intern pool kf else pool) := by
    split
    · exact intern_pref pool kf
    · exact PrefL.refl _
  refine ⟨d, ra', m, [CI.mi (MI.ldk t' kf (W.poolIdx (if kf.pooled = true then W.intern pool kf else pool) kf)),
      CI.mi (MI.pay Op.call.toNat Shape.ss true [d, t'] 0)], [c.cur, c.cur], ht, ?_, b1, ?_, ?_, ?_, ?_, ?_⟩
  · rw [hc4, hcT, hm]
  · intro j; rw [a6 j]; exact b5 j
  · exact Nat.le_trans b2 a4
  · exact Nat.le_trans b4 a4
  · rw [← hlimT]; exact a5
  · intro k s s' n pos v hcode hpre hsz hw hlit happ
    rw [← hm] at hpre
    have hidx : W.poolIdx (if kf.pooled then W.intern pool kf else pool) kf < 65536 := by
      have := poolIdx_le (if kf.pooled then W.intern pool kf else pool) kf
      have := hpre.length
      omega
    have hconst : kf.pooled = true → (p.defs.getD f0.defIdx default).consts.getD (W.poolIdx (if kf.pooled then W.intern pool kf else pool) kf) .nil = litOf V kf := by
      intro hpl
      obtain ⟨h1, h2⟩ := pooled_const_at P pool kf hpre hpl
      rw [hK _ h1, h2]
    have ht'd : t' ≠ d := by
      intro e
      have := b5 d
      simp only [if_true] at this
      rw [e] at a1
      simp only at a1
      rw [this] at a1
      exact Bool.noConfusion a1
    have s1 := run_ldk p f0 rest k t' kf _ V (by omega) hidx hcode.head hconst
    -- the call
    have hcode2 : (p.defs.getD f0.defIdx default).code[k.pc + 1]? = some (CI.call d t').word := by
      rw [← call_word]; exact hcode.tail.head
    have happ' := applyFn_cfun n pos f hna k.args.toList s
    rw [happ'] at happ
    cases hcp : callPrimW f k.args.toList s.st.world with
    | rt => rw [hcp] at happ; exact absurd happ (by simp)
    | user e => rw [hcp] at happ; exact absurd happ (by simp)
    | unsup why => rw [hcp] at happ; exact absurd happ (by simp)
    | ok a =>
      obtain ⟨v', w'⟩ := a
      rw [hcp] at happ
      simp only [R.ok.injEq] at happ
      obtain ⟨hv, hs'⟩ := happ
      subst hv
      let k1 : Cfg := { k with regs := k.regs.setIfInBounds t' (litOf V kf), pc := k.pc + 1 }
      have hreg : (inj f0 rest k1).getReg t' = .cfun f := by
        rw [inj_getReg]
        show (k.regs.setIfInBounds t' (litOf V kf)).getD t' .nil = .cfun f
        rw [getD_set_eq _ _ _ (by omega), hlit]
      have s2 := step_call p (inj f0 rest k1) d t' (by omega) (by omega) (by rw [inj_curDef, inj_pc]; exact hcode2)
      rw [hreg, doCall_cfun] at s2
      have hw1 : (inj f0 rest k1).world = s.st.world := by rw [inj_world]; exact hw
      have ha1 : (inj f0 rest k1).args = k.args := rfl
      rw [hw1, ha1, hcp] at s2
      refine ⟨(k.regs.setIfInBounds t' (litOf V kf)).setIfInBounds d v', ?_, by simp, ?_, ?_⟩
      · refine Reach.head s1 (Reach.head s2 ?_)
        have : s'.st.world = w' := by rw [← hs']; rfl
        rw [this]
        exact Reach.refl _ _
      · have a4' : raT.max ≤ ra'.max := a4
        exact getD_set_eq _ _ _ (by simp; omega)
      · intro r hr
        have hrd : r ≠ d := by intro e; rw [e] at hr; rw [hr] at b1; exact Bool.noConfusion b1
        have hrt : r ≠ t' := by
          intro e
          rw [e] at hr
          have := b5 t'
          rw [if_neg ht'd] at this
          simp only at a1
          rw [this, hr] at a1
          exact Bool.noConfusion a1
        rw [getD_set_ne _ _ _ _ hrd, getD_set_ne _ _ _ _ hrt]

end

/-- `cCall` on one argument, value used: the sequence of its steps -/
theorem cCall1_inv (rec' : Fopts → Expr → CState → Option (JSlot × CState)) (f : String) (a : Expr) (c0 cq : CState) (slot : JSlot)
    (h : cCall rec' {} (.sym f) [a] c0 = some (slot, cq)) :
    ∃ head c1 sa c2 c3 cT c4 c5, rec' {} (.sym f) c0 = some (head, c1) ∧ rec' {} a c1 = some (sa, c2) ∧
      emitS c2 .push sa false = some c3 ∧ getTarget c3 {} = some (slot, cT) ∧ emitSS cT .call slot head true = some c4 ∧
      freeslot c4 sa = some c5 ∧ freeslot c5 head = some cq := by
  unfold cCall at h
  simp only [toSlots, pushSlots, freeslots, Option.bind_eq_bind, Option.pure_def, Bool.false_and, Bool.false_eq_true, if_false,
    Option.bind_eq_some_iff, Prod.exists] at h
  obtain ⟨head, c1, h1, h⟩ := h
  obtain ⟨slots, c2', ⟨sa, c2, h2, ss, hrest⟩, h⟩ := h
  obtain ⟨b, ⟨hss, hb⟩, hsl, hb2⟩ := hrest
  simp only [Option.ite_none_left_eq_some] at h
  obtain ⟨_, h⟩ := h
  simp only [pushSlots, freeslots, Option.bind_eq_bind, Option.bind_eq_some_iff, Prod.exists, Option.some.injEq, Prod.mk.injEq,
    Option.pure_def] at h
  obtain ⟨c3, h3, t, cT, hT, c4, hE, t2, c42, ⟨ht, hc4⟩, c5, ⟨c5', hf1, hc5⟩, c6, hf2, hs, hq⟩ := h
  subst_vars
  exact ⟨head, c1, sa, _, c3, cT, _, _, h1, h2, h3, hT, hE, hf1, hf2⟩

/-- `Lang/Sem.eval` of a one-argument call of a global function that returned a value: the argument's evaluation and the
    application -/
theorem eval_call1_inv (n : Nat) (cur : Pos) (env env' : Env) (f : String) (a : Expr) (pp : Pos) (s s' : SS) (v : Value)
    (hf : specials.contains f = false) (hg : lookupEnv env f = none) (hsp : isSplice a = none)
    (h : eval n cur env (.form [.sym f, a] pp) s = .ok (v, env') s') :
    ∃ n2 va env_a s_a, n = n2 + 3 ∧ eval (n2 + 1) (posOf cur pp) env a s = .ok (va, env_a) s_a ∧
      applyFn (n2 + 2) (posOf cur pp) (.cfun f) [va] s_a = .ok v s' := by
  match n, h with
  | 0, h => simp [eval] at h
  | 1, h =>
    rw [eval_call 0 cur env f [a] pp s hf] at h
    simp [eval] at h
  | 2, h =>
    rw [eval_call 1 cur env f [a] pp s hf, eval_sym_global 0 _ env f s hg] at h
    simp [evalArgs, hsp, eval] at h
  | n2 + 3, h =>
    rw [eval_call (n2 + 2) cur env f [a] pp s hf, eval_sym_global (n2 + 1) _ env f s hg] at h
    simp only [evalArgs, hsp] at h
    cases he : eval (n2 + 1) (posOf cur pp) env a s with
    | ok r s_a =>
      obtain ⟨va, env_a⟩ := r
      rw [he] at h
      simp only [evalArgs] at h
      cases ha : applyFn (n2 + 2) (posOf cur pp) (.cfun f) [va] s_a with
      | ok v2 s3 =>
        rw [ha] at h
        simp only [R.ok.injEq, Prod.mk.injEq] at h
        obtain ⟨⟨hv, _⟩, hs⟩ := h
        subst hv hs
        exact ⟨n2, va, env_a, s_a, rfl, he, ha⟩
      | err _ _ _ => rw [ha] at h; exact absurd h (by simp)
      | brk _ _ => rw [ha] at h; exact absurd h (by simp)
      | stop _ => rw [ha] at h; exact absurd h (by simp)
    | err _ _ _ => rw [he] at h; exact absurd h (by simp)
    | brk _ _ => rw [he] at h; exact absurd h (by simp)
    | stop _ => rw [he] at h; exact absurd h (by simp)

/-- what is known about the slot a form of the fragment is compiled to -/
def SlotOK (sc : Scope) (ra' : RA) (vals : Array Value) (slot : JSlot) : Prop :=
  (slot.cflag = true ∧ ∃ kc, slot.k = .const kc ∧ KWf vals kc) ∨
  (slot.cflag = false ∧ slot.named = true ∧ ∃ r, slot.k = .loc r ∧ sc.ra.alloc r = true ∧ r < 240) ∨
  (slot.cflag = false ∧ slot.named = false ∧ ∃ d, slot.k = .loc d ∧ sc.ra.alloc d = false ∧ ra'.alloc d = true ∧ d < 240)

theorem SlotOK.sk {sc : Scope} {ra' : RA} {vals : Array Value} {slot : JSlot} (h : SlotOK sc ra' vals slot) : SK slot := by
  rcases h with ⟨_, kc, hk, _⟩ | ⟨_, _, r, hk, _, hr⟩ | ⟨_, _, d, hk, _, _, hd⟩
  · exact Or.inl ⟨kc, hk⟩
  · exact Or.inr ⟨r, hk, hr⟩
  · exact Or.inr ⟨d, hk, hd⟩

theorem curAt_eq (c : CState) (p : Pos) : ∃ q, curAt c p = { c with cur := q } := by
  unfold curAt; split
  · exact ⟨p, rfl⟩
  · exact ⟨c.cur, rfl⟩

section
variable (p : Program) (f0 : Frame) (rest : List Frame) (V : Array Value) (P : List KConst)

/-- the statement of compile correctness for one form (value used, near registers) -/
def Correct (c c' : CState) (slot : JSlot) (sc : Scope) (rs : List Scope) (pool : List KConst) (ps : List (List KConst))
    (s' : SS) (v : Value) (k : Cfg) : Prop :=
  ∃ (ra' : RA) (more : List KConst) (seg : List CI) (segm : List Pos),
    c' = { c with scopes := { sc with ra := ra' } :: rs, pools := (pool ++ more) :: ps, buf := c.buf ++ seg, map := c.map ++ segm, vals := c'.vals } ∧
    PrefA c.vals c'.vals ∧ (∀ r, sc.ra.alloc r = true → ra'.alloc r = true) ∧ sc.ra.max ≤ ra'.max ∧ SlotOK sc ra' c'.vals slot ∧
    (CodeAt (p.defs.getD f0.defIdx default).code k.pc seg → PrefL (pool ++ more) P → PrefA c'.vals V → ra'.max < k.regs.size →
      ∃ regs', Reach p (inj f0 rest k) (inj f0 rest { regs := regs', pc := k.pc + seg.length, args := #[], w := s'.st.world }) ∧
        regs'.size = k.regs.size ∧ (∀ r, sc.ra.alloc r = true → regs'.getD r .nil = k.regs.getD r .nil) ∧ slotVal V regs' slot = v)

/-- a form that compiles to a constant: no code, nothing changes but the value table -/
theorem atom_const (FF : FloatFacts) (c : CState) (w : Value) (hw : SimpleLit w) (sc : Scope) (rs : List Scope) (pool : List KConst)
    (ps : List (List KConst)) (hs : c.scopes = sc :: rs) (hp : c.pools = pool :: ps) (s : SS) (k : Cfg) (hkw : k.w = s.st.world) (hka : k.args = #[]) :
    Correct p f0 rest V P c { (constSlot c w).2 with cur := c.cur } (constSlot c w).1 sc rs pool ps s w k := by
  obtain ⟨h1, h2, h3, h4⟩ := kOf_spec FF c w hw
  refine ⟨sc.ra, [], [], [], ?_, h2, fun _ h => h, Nat.le_refl _, Or.inl ⟨rfl, (kOf c w).1, rfl, h3⟩, ?_⟩
  · show ({ (kOf c w).2 with cur := c.cur } : CState) = _
    rw [h1]
    simp [hs, hp]
    rfl
  · intro _ _ hV _
    refine ⟨k.regs, ?_, rfl, fun _ _ => rfl, ?_⟩
    · have e : ({ regs := k.regs, pc := k.pc + ([] : List CI).length, args := #[], w := s.st.world } : Cfg) = k := by
        obtain ⟨regs, pc, args, w0⟩ := k
        change w0 = s.st.world at hkw
        change args = #[] at hka
        subst hkw hka
        rfl
      rw [e]; exact Reach.refl _ _
    · show litOf V (kOf c w).1 = w
      rw [litOf_pref hV _ h3]; exact h4

end

end JanetModel.Compile
