/- C02: allocator facts (regalloc.c model `Emit.RA`) in the form the compile-correctness induction uses, for the near case
   (every register < 0xF0, which a successful compile with `lim ≤ 0xF0` guarantees). -/
import JanetModel.Emit.Proofs
import JanetModel.Compile.Model
namespace JanetModel.Compile
open JanetModel.Emit

/-- first fit stopped before its fuel ran out: it stopped at a register that is not taken -/
theorem firstFit_lt_free (ra : RA) : ∀ (fuel r0 : Nat), firstFit ra fuel r0 < r0 + fuel → ra.taken (firstFit ra fuel r0) = false := by
  intro fuel
  induction fuel with
  | zero => intro r0 h; simp [firstFit] at h
  | succ n ih =>
    intro r0 h
    by_cases ht : ra.taken r0 = true
    · simp only [firstFit, ht, if_true] at h ⊢
      exact ih (r0 + 1) (by omega)
    · simp only [firstFit, ht]
      cases hh : ra.taken r0 with
      | true => exact absurd hh ht
      | false => simp [hh]

/-- `janetc_regalloc_1` that stays below 0xF0: a free register, now marked, `max` covers it -/
theorem alloc1_near (ra : RA) (h : (ra.alloc1).2.max < 240) :
    ra.alloc (ra.alloc1).1 = false ∧ (ra.alloc1).1 ≤ (ra.alloc1).2.max ∧ ra.max ≤ (ra.alloc1).2.max ∧
    (∀ j, (ra.alloc1).2.alloc j = (if j = (ra.alloc1).1 then true else ra.alloc j)) := by
  simp only [RA.alloc1, RA.mark] at h ⊢
  have hr : firstFit ra searchFuel 0 < 240 := by
    by_cases c : firstFit ra searchFuel 0 > ra.max
    · simp only [c, if_true] at h; exact h
    · simp only [c, if_false] at h; omega
  have hfree := firstFit_lt_free ra searchFuel 0 (by have : searchFuel = 70000 := rfl; omega)
  have ha : ra.alloc (firstFit ra searchFuel 0) = false := by
    simp only [RA.taken, Bool.or_eq_false_iff] at hfree
    exact hfree.1
  refine ⟨ha, ?_, ?_, fun j => rfl⟩
  · split <;> omega
  · split <;> omega

/-- `janetc_regalloc_temp` that stays below 0xF0 -/
theorem allocTemp_near (ra : RA) (tag : Nat) (h : (ra.allocTemp tag).2.max < 240) :
    ra.alloc (ra.allocTemp tag).1 = false ∧ (ra.allocTemp tag).1 ≤ (ra.allocTemp tag).2.max ∧ (ra.allocTemp tag).1 < 240 ∧
    ra.max ≤ (ra.allocTemp tag).2.max ∧
    (∀ j, (ra.allocTemp tag).2.alloc j = (if j = (ra.allocTemp tag).1 then true else ra.alloc j)) := by
  have hc := firstFit_congr { ra with temps := fun j => if j = tag then true else ra.temps j } ra (fun _ => rfl) searchFuel 0
  by_cases c : firstFit ra searchFuel 0 > 0xFF
  · -- the far case sets max ≥ 0xF0
    exfalso
    simp only [RA.allocTemp, RA.alloc1, hc, c, if_true] at h
    split at h <;> omega
  · have e1 : (ra.allocTemp tag) = ((({ ra with temps := fun j => if j = tag then true else ra.temps j } : RA).alloc1)) := by
      simp only [RA.allocTemp, RA.alloc1, hc, c, if_false]
    rw [e1] at h ⊢
    have := alloc1_near ({ ra with temps := fun j => if j = tag then true else ra.temps j } : RA) h
    obtain ⟨a1, a2, a3, a4⟩ := this
    exact ⟨a1, a2, by omega, a3, a4⟩

end JanetModel.Compile
