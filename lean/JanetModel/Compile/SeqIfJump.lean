/- C02: compile correctness, core fragment: `janetc_if` with a NON-constant condition slot (JUMP_IF_NOT over the then-branch,
   JUMP over the else-branch, both patched), value used or dropped.  The branch `Lang/Sem` evaluates is run with the induction
   hypothesis (`branch_core`), the other branch's compile-side effect comes from the shape theorem (`branch_shape2`). -/
import JanetModel.Compile.SeqIfBranch
namespace JanetModel.Compile
open JanetModel.Emit JanetModel.Lang JanetModel.Bytecode.Exec JanetModel.Gen.Bytecode

/-- a scope with a new allocator and more symbols -/
abbrev upd (sc : Scope) (ra : RA) (ns : List SymPair) : Scope := { sc with ra := ra, syms := sc.syms ++ ns }

theorem lk_upd (sc : Scope) (rs : List Scope) (ra : RA) (ns : List SymPair) (h : ∀ q, q ∈ ns → q.visible = false) (x : String) :
    lk (upd sc ra ns :: rs) x = lk (sc :: rs) x :=
  (lk_append_invisible { sc with ra := ra } rs ns h x).trans (lk_ra sc rs ra x)

theorem jmp0_length (nj : Bool) : (jmp0 nj).length = if nj then 0 else 1 := by cases nj <;> rfl

section
variable (p : Program) (f0 : Frame) (rest : List Frame) (V : Array Value) (P : List KConst)

theorem if_jump_core (hP : P.length < 65536)
    (hK : ∀ i, i < P.length → (p.defs.getD f0.defIdx default).consts.getD i .nil = litOf V (P.getD i .nil))
    (G : String → Prop) (b w : Bool) (fuel : Nat) (IH : CorrectAt p f0 rest V P G (TF G b) w fuel)
    (cnd tb fb : Expr) (hTc : TF G b cnd) (hTt : TF G b tb) (hTf : TF G b fb)
    (opts : Fopts) (ht : opts.tail = false) (hh : opts.hint = none)
    (c c' : CState) (slot : JSlot) (sc : Scope) (rs : List Scope) (pool : List KConst) (ps : List (List KConst))
    (n2 : Nat) (pos : Pos) (env cenv envb : Env) (s s1 s' : SS) (cv v : Value)
    (hs : c.scopes = sc :: rs) (hp : c.pools = pool :: ps) (hl : c.lim ≤ 240) (hm : c.map.length = c.buf.length)
    (target : JSlot) (c1 c3 : CState) (cond : JSlot)
    (hT : (if opts.drop then some (cslot .nil, c) else getTarget c opts) = some (target, c1))
    (hcond : cValue fuel {} cnd (pushScope c1 false false false false) = some (cond, c3))
    (hnc : isConstSlot cond = none)
    (hj : cIfJump (cValue fuel) opts target cond tb fb (fbNilOf fb) c3 = some (slot, c'))
    (hsc : eval n2 pos env cnd s = .ok (cv, cenv) s1)
    (hsb : eval n2 pos cenv (if truthy cv then tb else fb) s1 = .ok (v, envb) s')
    (hE : EnvS G c.scopes env s.boxes.size sc.ra) :
    Correct2 p f0 rest V P G opts.drop c c' slot sc rs pool ps env env s s' v := by
  -- the target
  obtain ⟨raT, hc1, monoT, maxT, htgtT, htgtF⟩ : ∃ raT, c1 = { c with scopes := { sc with ra := raT } :: rs } ∧
      (∀ j, sc.ra.alloc j = true → raT.alloc j = true) ∧ sc.ra.max ≤ raT.max ∧
      (opts.drop = true → target = cslot .nil) ∧
      (opts.drop = false → ∃ d, target = { k := .loc d } ∧ sc.ra.alloc d = false ∧ raT.alloc d = true ∧ d ≤ raT.max ∧ d < 240) := by
    cases hd : opts.drop with
    | true =>
      rw [hd] at hT
      simp only [if_true, Option.some.injEq, Prod.mk.injEq] at hT
      refine ⟨sc.ra, ?_, fun _ h => h, Nat.le_refl _, fun _ => hT.1.symm, fun h => absurd h (by simp)⟩
      rw [← hT.2]; exact cstate_scopes_eta c sc rs hs
    | false =>
      rw [hd] at hT
      simp only [Bool.false_eq_true, if_false] at hT
      rw [getTarget_hint_none c opts hh] at hT
      obtain ⟨d, raT, e1, b1, b2, b3, b4, b5, e2⟩ := getTarget_spec c c1 target sc rs hs hl hT
      refine ⟨raT, e2, ?_, b4, fun h => absurd h (by simp), fun _ => ⟨d, e1, b1, ?_, b2, by omega⟩⟩
      · intro j hj; rw [b5 j]; split
        · rfl
        · exact hj
      · rw [b5 d]; simp
  -- the condition, in its block scope
  have hs1 : c1.scopes = { sc with ra := raT } :: rs := by rw [hc1]
  have hp1 : c1.pools = pool :: ps := by rw [hc1]; exact hp
  have hl1 : c1.lim ≤ 240 := by rw [hc1]; exact hl
  have hm1 : c1.map.length = c1.buf.length := by rw [hc1]; exact hm
  rw [pushScope_blk c1 { sc with ra := raT } rs false hs1] at hcond
  have hlk1 : ∀ y, lk (blk c1 { sc with ra := raT } false :: { sc with ra := raT } :: rs) y = lk c.scopes y := by
    intro y; rw [hs]; exact (lk_push _ _ rfl rfl rfl y).trans (lk_ra sc rs raT y)
  have hE1 : EnvS G ({ c1 with scopes := blk c1 { sc with ra := raT } false :: { sc with ra := raT } :: rs } : CState).scopes env s.boxes.size
      (blk c1 { sc with ra := raT } false).ra :=
    hE.of_lk hlk1 (Nat.le_refl _) (fun _ _ _ _ r _ _ h => monoT r h)
  obtain ⟨ra3, ns3, more3, seg3, segm3, hc3, pv3, mono3, max3, sok3, bx3, es3, nf3, vm3⟩ :=
    IH cnd {} { c1 with scopes := blk c1 { sc with ra := raT } false :: { sc with ra := raT } :: rs } c3 cond (blk c1 { sc with ra := raT } false)
      ({ sc with ra := raT } :: rs) pool ps n2 pos env cenv s s1 cv rfl rfl rfl hp1 hl1 rfl (fun _ => hm1) hTc hcond hsc hE1
  have hm3 : c3.map.length = c3.buf.length :=
    (tf_shapeM_at G fuel b cnd {} { c1 with scopes := blk c1 { sc with ra := raT } false :: { sc with ra := raT } :: rs } c3 cond
      (blk c1 { sc with ra := raT } false) ({ sc with ra := raT } :: rs) pool ps rfl rfl rfl hp1 rfl hm1 hTc hE1.lkl hcond).1.mapLen hm1
  have hs3 : c3.scopes = upd (blk c1 { sc with ra := raT } false) ra3 ns3 :: { sc with ra := raT } :: rs := by rw [hc3]
  have hp3 : c3.pools = (pool ++ more3) :: ps := by rw [hc3]
  have mono3' : ∀ r, raT.alloc r = true → ra3.alloc r = true := mono3
  obtain ⟨rc, hrc, hrc240, hrcal⟩ : ∃ rc, cond.k = .loc rc ∧ rc < 240 ∧ ra3.alloc rc = true := by
    rcases sok3 with ⟨hcf, kc, hk, _⟩ | ⟨_, _, r, hk, hal, hr⟩ | ⟨_, _, d, hk, _, hal, hd, _⟩
    · simp [isConstSlot, hcf, hk] at hnc
    · exact ⟨r, hk, hr, hal⟩
    · exact ⟨d, hk, hd, hal⟩
  -- the steps of the jump path
  obtain ⟨c4, left, c6, c7, c8, right, c11, c12, c13, c14, e1, e2, e3, e4, e5, e6, e7, e8, r1, r2, r3, eslot, ec'⟩ :=
    cIfJump_inv _ _ _ _ _ _ _ _ _ _ hj
  obtain ⟨nj, hnj⟩ : ∃ nj, nj = (opts.drop && fbNilOf fb) := ⟨_, rfl⟩
  rw [← hnj] at e5 r1 r3 ec'
  obtain ⟨_, hc4⟩ := emitSI_local c3 c4 .jumpIfNot cond rc 0 hrc (by omega) _ ({ sc with ra := raT } :: rs) (pool ++ more3) ps hs3 hp3 e1
  have hs4 : c4.scopes = upd (blk c1 { sc with ra := raT } false) ra3 ns3 :: { sc with ra := raT } :: rs := by rw [hc4]
  have hp4 : c4.pools = (pool ++ more3) :: ps := by rw [hc4]
  have hl4 : c4.lim ≤ 240 := by rw [hc4]; show c3.lim ≤ 240; rw [hc3]; exact hl1
  have hm4 : c4.map.length = c4.buf.length := by rw [hc4]; simp [hm3]
  have hL4 : LkL G c4.scopes := by rw [hs4, ← hs3]; exact es3.lkl
  -- the then-branch, compile side
  obtain ⟨ra8, ns8, more8, seg8, segm8, hc8, pv8, hl8, inv8, mono8, max8⟩ :=
    branch_shape2 G fuel b tb hTt opts ht hh target c4 c6 c7 c8 left _ ({ sc with ra := raT } :: rs) (pool ++ more3) ps hs4 hp4 hm4 hL4 e2 e3 e4
  have mono8' : ∀ r, ra3.alloc r = true → ra8.alloc r = true := mono8
  have max8' : ra3.max ≤ ra8.max := max8
  have hs8 : c8.scopes = upd (upd (blk c1 { sc with ra := raT } false) ra3 ns3) ra8 ns8 :: { sc with ra := raT } :: rs := by rw [hc8]
  obtain ⟨c9, hc9d⟩ : ∃ c9, c9 = ifJmp nj c8 := ⟨_, rfl⟩
  rw [← hc9d] at e5 r1 ec'
  have hc9 : c9 = { c8 with buf := c8.buf ++ jmp0 nj, map := c8.map ++ (jmp0 nj).map (fun _ => c8.cur) } := by rw [hc9d]; exact ifJmp_eq nj c8
  have hs9 : c9.scopes = upd (upd (blk c1 { sc with ra := raT } false) ra3 ns3) ra8 ns8 :: { sc with ra := raT } :: rs := by rw [hc9]; exact hs8
  have hp9 : c9.pools = (pool ++ more3 ++ more8) :: ps := by rw [hc9]; show c8.pools = _; rw [hc8]
  have hl9 : c9.lim ≤ 240 := by rw [hc9]; show c8.lim ≤ 240; rw [hc8]; exact hl4
  have hm8 : c8.map.length = c8.buf.length := by rw [hc8]; simp [hm4, hl8]
  have hm9 : c9.map.length = c9.buf.length := by rw [hc9]; simp [hm8]
  have hlk9 : ∀ y, lk c9.scopes y = lk c3.scopes y := by
    intro y; rw [hs9, hs3]; exact lk_upd _ _ _ _ inv8 y
  have hL9 : LkL G c9.scopes := es3.lkl.of_lk hlk9
  -- the else-branch, compile side
  obtain ⟨ra13, ns13, more13, seg13, segm13, hc13, pv13, hl13, inv13, mono13, max13⟩ :=
    branch_shape2 G fuel b fb hTf opts ht hh target c9 c11 c12 c13 right _ ({ sc with ra := raT } :: rs) (pool ++ more3 ++ more8) ps hs9 hp9 hm9 hL9 e5 e6 e7
  have max13' : ra8.max ≤ ra13.max := max13
  have hs13 : c13.scopes = upd (upd (upd (blk c1 { sc with ra := raT } false) ra3 ns3) ra8 ns8) ra13 ns13 :: { sc with ra := raT } :: rs := by
    rw [hc13]
  -- the final pop
  obtain ⟨raX, hpop, hmaxX, hmonoX⟩ := popScope_block c13 _ { sc with ra := raT } rs hs13 rfl rfl rfl
  rw [hpop] at e8
  have hc14 := (Option.some.inj e8).symm
  have hmaxX' : raX.max = (if raT.max < ra13.max then ra13.max else raT.max) := hmaxX
  have hmonoX' : ∀ j, raT.alloc j = true → raX.alloc j = true := hmonoX
  -- the code
  have hb3 : c3.buf = c.buf ++ seg3 := by rw [hc3]; show c1.buf ++ seg3 = _; rw [hc1]
  have hb4 : c4.buf = c.buf ++ seg3 ++ [CI.mi (.pay Op.jumpIfNot.toNat .si false [rc] 0)] := by rw [hc4]; show c3.buf ++ _ = _; rw [hb3]
  have hb8 : c8.buf = c4.buf ++ seg8 := by rw [hc8]
  have hb9 : c9.buf = c8.buf ++ jmp0 nj := by rw [hc9]
  have hb13 : c13.buf = c9.buf ++ seg13 := by rw [hc13]
  have hb14 : c14.buf = c13.buf := by rw [hc14]
  have hbuf14 : c14.buf = c.buf ++ (seg3 ++ CI.mi (.pay Op.jumpIfNot.toNat .si false [rc] 0) :: (seg8 ++ (jmp0 nj ++ seg13))) := by
    rw [hb14, hb13, hb9, hb8, hb4]; simp
  have hll : lastLabel c4 = (c.buf ++ seg3).length := by unfold lastLabel; rw [hb4]; simp
  have hl8len : c8.buf.length = (c.buf ++ seg3 ++ CI.mi (.pay Op.jumpIfNot.toNat .si false [rc] 0) :: seg8).length := by rw [hb8, hb4]; simp
  obtain ⟨offr, hoffr⟩ : ∃ offr, offr = c9.buf.length - lastLabel c4 := ⟨_, rfl⟩
  obtain ⟨off2, hoff2⟩ : ∃ off2, off2 = c14.buf.length - c8.buf.length := ⟨_, rfl⟩
  have hoffr' : offr = 1 + seg8.length + (jmp0 nj).length := by
    rw [hoffr, hll, hb9, hb8, hb4]; simp <;> omega
  have hoff2' : off2 = (jmp0 nj).length + seg13.length := by
    rw [hoff2, hb14, hb13, hb9]; simp <;> omega
  have hoffr_lt : offr < 32768 := by
    rw [hoffr]; omega
  have hoff2_le : off2 ≤ 8388607 := by
    rw [hoff2]; omega
  have hnj13 : nj = true → seg13 = [] := by
    intro h
    have := r3 h
    rw [hb14, hb13, hb9] at this
    simp at this
    exact this.2
  have hpatch : ifPatch nj c14.buf (lastLabel c4) (c9.buf.length - lastLabel c4) c8.buf.length =
      c.buf ++ (seg3 ++ CI.mi (.pay Op.jumpIfNot.toNat .si false [rc] offr) :: (seg8 ++ ((if nj then [] else [CI.jump (Int.ofNat off2)]) ++ seg13))) := by
    rw [← hoffr, hll, hl8len]
    have := ifPatch_eq nj c.buf seg3 seg8 seg13 (CI.mi (.pay Op.jumpIfNot.toNat .si false [rc] 0)) offr
    rw [← hbuf14, ← hl8len, ← hoff2] at this
    rw [hl8len] at this
    exact this
  -- names and the target register
  have hlk' : ∀ x, lk c'.scopes x = lk c.scopes x := by
    intro x
    rw [ec']
    show lk c14.scopes x = _
    rw [hc14, hs]
    have hinv : ∀ q, q ∈ (upd (upd (upd (blk c1 { sc with ra := raT } false) ra3 ns3) ra8 ns8) ra13 ns13).syms.map
        (fun q : SymPair => { q with visible := false }) → q.visible = false := by
      intro q hq
      simp only [List.mem_map] at hq
      obtain ⟨q0, _, rfl⟩ := hq
      rfl
    exact (lk_append_invisible { ({ sc with ra := raT } : Scope) with ra := raX } rs _ hinv x).trans (lk_ra sc rs raX x)
  have hnn0 : ∀ d, sc.ra.alloc d = false → NoName c.scopes d := by
    intro d hd x sl u l hx hk
    obtain ⟨_, _, _, r, _, hk', _, _, hal, _⟩ := hE.found hx
    rw [hk'] at hk
    injection hk with e
    rw [e, hd] at hal
    exact Bool.noConfusion hal
  have hnn3 : ∀ d, sc.ra.alloc d = false → raT.alloc d = true → NoName c3.scopes d := by
    intro d hd hdT
    exact nf3.1 d hdT ((hnn0 d hd).of_lk hlk1)
  have hlk4 : ∀ y, lk c4.scopes y = lk c3.scopes y := by intro y; rw [hs4, hs3]
  have hE4 : EnvS G c4.scopes cenv s1.boxes.size (upd (blk c1 { sc with ra := raT } false) ra3 ns3).ra :=
    es3.of_lk hlk4 (Nat.le_refl _) (fun _ _ _ _ _ _ _ h => h)
  have hE9 : EnvS G c9.scopes cenv s1.boxes.size (upd (upd (blk c1 { sc with ra := raT } false) ra3 ns3) ra8 ns8).ra :=
    es3.of_lk hlk9 (Nat.le_refl _) (fun _ _ _ _ r _ _ h => mono8' r h)
  have htgt4 : opts.drop = false → ∃ d, target = { k := .loc d } ∧ d < 240 ∧
      (upd (blk c1 { sc with ra := raT } false) ra3 ns3).ra.alloc d = true ∧ NoName c4.scopes d := by
    intro hd
    obtain ⟨d, e, hfree, hal, _, hd240⟩ := htgtF hd
    exact ⟨d, e, hd240, mono3' d hal, (hnn3 d hfree hal).of_lk hlk4⟩
  have htgt9 : opts.drop = false → ∃ d, target = { k := .loc d } ∧ d < 240 ∧
      (upd (upd (blk c1 { sc with ra := raT } false) ra3 ns3) ra8 ns8).ra.alloc d = true ∧ NoName c9.scopes d := by
    intro hd
    obtain ⟨d, e, hfree, hal, _, hd240⟩ := htgtF hd
    exact ⟨d, e, hd240, mono8' d (mono3' d hal), (hnn3 d hfree hal).of_lk hlk9⟩
  have hv8 : PrefA c8.vals c13.vals := by
    have : c9.vals = c8.vals := by rw [hc9]
    rw [← this]; exact pv13
  have hv3 : PrefA c3.vals c13.vals := by
    have : c4.vals = c3.vals := by rw [hc4]
    rw [← this]; exact PrefA.trans pv8 hv8
  have hp8 : c8.pools = (pool ++ more3 ++ more8) :: ps := by rw [hc8]
  have hp13 : c13.pools = (pool ++ more3 ++ more8 ++ more13) :: ps := by rw [hc13]
  -- the branch that is taken
  have taken : PrefA s1.boxes s'.boxes ∧ ∀ (regs3 : Array Value) (pc0 : Nat),
      EnvD c3.scopes cenv s1 regs3 →
      CodeAt (p.defs.getD f0.defIdx default).code pc0
        (seg3 ++ CI.mi (.pay Op.jumpIfNot.toNat .si false [rc] offr) :: (seg8 ++ ((if nj then [] else [CI.jump (Int.ofNat off2)]) ++ seg13))) →
      PrefL (pool ++ more3 ++ more8 ++ more13) P → PrefA c13.vals V → ra13.max < regs3.size →
      (opts.drop = false → ∀ d, target.k = .loc d → d < regs3.size) → truthy (regs3.getD rc .nil) = truthy cv →
      ∃ regsF, Reach p (inj f0 rest { regs := regs3, pc := pc0 + seg3.length, args := #[], w := s1.st.world })
          (inj f0 rest { regs := regsF, pc := pc0 + (seg3.length + 1 + seg8.length + (jmp0 nj).length + seg13.length), args := #[], w := s'.st.world }) ∧
        regsF.size = regs3.size ∧
        (∀ r, ra3.alloc r = true → (opts.drop = false → target.k ≠ .loc r) → regsF.getD r .nil = regs3.getD r .nil) ∧
        (opts.drop = false → slotVal V regsF target = v) := by
    have hjl : (if nj then [] else [CI.jump (Int.ofNat off2)] : List CI).length = (jmp0 nj).length := by cases nj <;> rfl
    cases htr : truthy cv with
    | true =>
      have hsb' : eval n2 pos cenv tb s1 = .ok (v, envb) s' := by simpa [htr] using hsb
      obtain ⟨bxB, vmB⟩ := branch_core p f0 rest V P hP hK G b w fuel IH tb hTt opts ht hh target c4 c6 c7 c8 left _
        ({ sc with ra := raT } :: rs) (pool ++ more3) ps n2 pos cenv envb s1 s' v hs4 hp4 hl4 hm4 htgt4 e2 e3 e4 hsb' hE4
      refine ⟨bxB, ?_⟩
      intro regs3 pc0 hD3 hcode hpre hV hsz hdsz hcv
      have hcJ : (p.defs.getD f0.defIdx default).code[pc0 + seg3.length]? = some (MI.pay Op.jumpIfNot.toNat .si false [rc] offr).word :=
        hcode.right.head
      have hc8' : CodeAt (p.defs.getD f0.defIdx default).code (pc0 + seg3.length + 1) seg8 := hcode.right.tail.left
      have hcR := hcode.right.tail.right
      have jstep := jumpIfNot_agrees p (inj f0 rest { regs := regs3, pc := pc0 + seg3.length, args := #[], w := s1.st.world }) rc offr
        (by omega) hoffr_lt (by rw [inj_curDef, inj_pc]; exact hcJ)
      rw [inj_getReg] at jstep
      simp only [hcv, if_true, inj_adv] at jstep
      obtain ⟨regs8, rch8, sz8, pr8, sv8⟩ := vmB seg8 _ _ hb8 hp8 hs8
        { regs := regs3, pc := pc0 + seg3.length + 1, args := #[], w := s1.st.world } rfl rfl (hD3.of_lk hlk4) hc8'
        (PrefL.trans ⟨more13, rfl⟩ hpre) (PrefA.trans hv8 hV) (by show ra8.max < regs3.size; omega) hdsz
      refine ⟨regs8, ?_, sz8, pr8, sv8⟩
      refine Reach.head jstep (Reach.trans rch8 ?_)
      cases hnjc : nj with
      | true =>
        have h13 := hnj13 hnjc
        have e : pc0 + (seg3.length + 1 + seg8.length + (jmp0 true).length + seg13.length) = pc0 + seg3.length + 1 + seg8.length := by
          rw [h13]; simp [jmp0]; omega
        rw [e]
        exact Reach.refl _ _
      | false =>
        rw [hnjc] at hcR hoff2'
        simp only [Bool.false_eq_true, if_false, List.singleton_append] at hcR
        have jst := step_jump p (inj f0 rest { regs := regs8, pc := pc0 + seg3.length + 1 + seg8.length, args := #[], w := s'.st.world })
          (Int.ofNat off2) (by simp <;> omega) (by simp <;> omega) (by rw [inj_curDef, inj_pc]; exact hcR.head)
        rw [inj_jump] at jst
        refine Reach.head jst ?_
        have e : (Int.ofNat (pc0 + seg3.length + 1 + seg8.length) + Int.ofNat off2).toNat =
            pc0 + (seg3.length + 1 + seg8.length + (jmp0 false).length + seg13.length) := by
          simp only [Int.ofNat_eq_natCast]; omega
        simp only [e]
        exact Reach.refl _ _
    | false =>
      have hsb' : eval n2 pos cenv fb s1 = .ok (v, envb) s' := by simpa [htr] using hsb
      obtain ⟨bxB, vmB⟩ := branch_core p f0 rest V P hP hK G b w fuel IH fb hTf opts ht hh target c9 c11 c12 c13 right _
        ({ sc with ra := raT } :: rs) (pool ++ more3 ++ more8) ps n2 pos cenv envb s1 s' v hs9 hp9 hl9 hm9 htgt9 e5 e6 e7 hsb' hE9
      refine ⟨bxB, ?_⟩
      intro regs3 pc0 hD3 hcode hpre hV hsz hdsz hcv
      have hcJ : (p.defs.getD f0.defIdx default).code[pc0 + seg3.length]? = some (MI.pay Op.jumpIfNot.toNat .si false [rc] offr).word :=
        hcode.right.head
      have hcR := hcode.right.tail.right.right
      rw [hjl] at hcR
      have jstep := jumpIfNot_agrees p (inj f0 rest { regs := regs3, pc := pc0 + seg3.length, args := #[], w := s1.st.world }) rc offr
        (by omega) hoffr_lt (by rw [inj_curDef, inj_pc]; exact hcJ)
      rw [inj_getReg] at jstep
      simp only [hcv, Bool.false_eq_true, if_false, inj_jump] at jstep
      have e1' : (Int.ofNat (pc0 + seg3.length) + (offr : Int)).toNat = pc0 + seg3.length + 1 + seg8.length + (jmp0 nj).length := by
        simp only [Int.ofNat_eq_natCast]; omega
      simp only [e1'] at jstep
      obtain ⟨regs13, rch13, sz13, pr13, sv13⟩ := vmB seg13 _ _ hb13 hp13 hs13
        { regs := regs3, pc := pc0 + seg3.length + 1 + seg8.length + (jmp0 nj).length, args := #[], w := s1.st.world } rfl rfl (hD3.of_lk hlk9) hcR
        hpre hV hsz hdsz
      refine ⟨regs13, ?_, sz13, fun r hr hne => pr13 r (mono8' r hr) hne, sv13⟩
      refine Reach.head jstep ?_
      have e : pc0 + (seg3.length + 1 + seg8.length + (jmp0 nj).length + seg13.length) =
          pc0 + seg3.length + 1 + seg8.length + (jmp0 nj).length + seg13.length := by omega
      rw [e]
      exact rch13
  obtain ⟨bxB, vmB⟩ := taken
  have hv' : c'.vals = c13.vals := by rw [ec']; show c14.vals = _; rw [hc14]
  have htn : target.named = false ∧ target.cflag = (opts.drop) := by
    cases hd : opts.drop with
    | true => rw [htgtT hd]; exact ⟨rfl, rfl⟩
    | false => obtain ⟨d, e, _⟩ := htgtF hd; rw [e]; exact ⟨rfl, rfl⟩
  have pv3' : PrefA c.vals c3.vals := by
    have : ({ c1 with scopes := blk c1 { sc with ra := raT } false :: { sc with ra := raT } :: rs } : CState).vals = c.vals := by
      show c1.vals = _; rw [hc1]
    rw [← this]; exact pv3
  have hjl : (if nj then [] else [CI.jump (Int.ofNat off2)] : List CI).length = (jmp0 nj).length := by cases nj <;> rfl
  refine ⟨raX, (upd (upd (upd (blk c1 { sc with ra := raT } false) ra3 ns3) ra8 ns8) ra13 ns13).syms.map (fun q => { q with visible := false }),
    more3 ++ more8 ++ more13,
    seg3 ++ CI.mi (.pay Op.jumpIfNot.toNat .si false [rc] offr) :: (seg8 ++ ((if nj then [] else [CI.jump (Int.ofNat off2)]) ++ seg13)),
    segm3 ++ [c3.cur] ++ segm8 ++ (jmp0 nj).map (fun _ => c8.cur) ++ segm13, ?_, ?_, ?_, ?_, ?_, PrefA.trans bx3 bxB, ?_, ?_, ?_⟩
  · rw [ec', hpatch, hc14, hc13, hc9, hc8, hc4, hc3, hc1]
    simp [List.append_assoc]
  · rw [hv']; exact PrefA.trans pv3' hv3
  · intro r hr; exact hmonoX' r (monoT r hr)
  · rw [hmaxX']; split <;> omega
  · rw [eslot]
    cases hd : opts.drop with
    | true => rw [htgtT hd]; exact Or.inl ⟨rfl, .nil, rfl, trivial⟩
    | false =>
      obtain ⟨d, e, hfree, hal, _, hd240⟩ := htgtF hd
      rw [e]
      exact Or.inr (Or.inr ⟨rfl, rfl, d, rfl, hfree, hmonoX' d hal, hd240, (hnn0 d hfree).of_lk hlk'⟩)
  · exact hE.of_lk hlk' (PrefA.trans bx3 bxB).1 (fun _ _ _ _ r _ _ h => hmonoX' r (monoT r h))
  · exact NameFrame.of_lk hlk' (by rw [eslot]; exact htn.1)
  · intro k hkw hka hD hcode hpre hV hsz
    rw [hv'] at hV
    have hsz13 : ra13.max < k.regs.size := by
      rw [hmaxX'] at hsz; split at hsz <;> omega
    have hszT : raT.max < k.regs.size := by
      rw [hmaxX'] at hsz; split at hsz <;> omega
    obtain ⟨regs3, rch3, sz3, pr3, sv3, ed3⟩ := vm3 k hkw hka (hD.of_lk hlk1) hcode.left
      (PrefL.trans ⟨more8 ++ more13, by simp [List.append_assoc]⟩ hpre) (PrefA.trans hv3 hV) (by show ra3.max < _; omega)
    have hcv3 : regs3.getD rc .nil = cv := by
      have := sv3 rfl
      simpa [slotVal, hrc] using this
    obtain ⟨regsF, rchF, szF, prF, svF⟩ := vmB regs3 k.pc ed3 hcode (by simpa [List.append_assoc] using hpre) hV (by rw [sz3]; exact hsz13)
      (by
        intro hd d' hk
        obtain ⟨d, e, _, _, hdm, _⟩ := htgtF hd
        rw [e] at hk
        injection hk with e'
        rw [sz3, ← e']; omega)
      (by rw [hcv3])
    have pr3' : ∀ r, raT.alloc r = true → regs3.getD r .nil = k.regs.getD r .nil := pr3
    have hframe : ∀ r, sc.ra.alloc r = true → regsF.getD r .nil = k.regs.getD r .nil := by
      intro r hr
      rw [prF r (mono3' r (monoT r hr)) ?_, pr3' r (monoT r hr)]
      intro hd hk
      obtain ⟨d, e, hfree, _⟩ := htgtF hd
      rw [e] at hk
      injection hk with e'
      rw [e', hr] at hfree
      exact Bool.noConfusion hfree
    refine ⟨regsF, ?_, by omega, hframe, ?_, ?_⟩
    · have e : k.pc + (seg3 ++ CI.mi (.pay Op.jumpIfNot.toNat .si false [rc] offr) ::
          (seg8 ++ ((if nj then [] else [CI.jump (Int.ofNat off2)]) ++ seg13))).length =
          k.pc + (seg3.length + 1 + seg8.length + (jmp0 nj).length + seg13.length) := by
        simp only [List.length_append, List.length_cons, hjl]; omega
      rw [e]
      exact Reach.trans rch3 rchF
    · intro hd
      rw [eslot]; exact svF hd
    · intro x sl u l r a hx hk he
      rw [hlk'] at hx
      obtain ⟨_, _, _, r'', a'', hk', he', ha, hal, _⟩ := hE.found hx
      have e1 : r'' = r := by rw [hk'] at hk; injection hk
      have e2 : a'' = a := by rw [he] at he'; exact (Option.some.inj he').symm
      subst e1 e2
      rw [hframe r'' hal, hD x sl u l r'' a'' hx hk he]
      exact (readBox_pref (PrefA.trans bx3 bxB) a'' ha).symm

end

end JanetModel.Compile
