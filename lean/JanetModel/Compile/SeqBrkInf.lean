/- C02: `(while K pre... (break) post...)` with a constant truthy condition slot (`janetc_while`'s "infinite" path: no
   conditional jump is emitted): the loop ends by the patched `break` placeholder. -/
import JanetModel.Compile.SeqBrkJump
namespace JanetModel.Compile
open JanetModel.Emit JanetModel.Lang JanetModel.Bytecode.Exec JanetModel.Gen.Bytecode

section
variable (p : Program) (f0 : Frame) (rest : List Frame) (V : Array Value) (P : List KConst)

theorem while_break_inf (G : String → Prop) (T : Expr → Prop) (b w : Bool) (fuel : Nat) (IH : CorrectAt p f0 rest V P G T w fuel)
    (ML : MLAt G T true fuel) (hTT : ∀ e, TF G b e → T e)
    (cnd : Expr) (pre post : List Expr) (bp : Pos) (hTc : TF G b cnd) (hTb : ∀ e, e ∈ pre → T e)
    (HSHa : BodyShp G fuel pre) (HMXa : BodyMax G fuel pre) (HNBa : BodyNbr G fuel pre)
    (HSHp : BodyShp G fuel post) (HMXp : BodyMax G fuel post) (HNBp : BodyNbr G fuel post)
    (c : CState) (sc : Scope) (rs : List Scope) (pool : List KConst) (ps : List (List KConst))
    (f : Nat) (pos : Pos) (env : Env) (s s' : SS)
    (hs : c.scopes = sc :: rs) (hp : c.pools = pool :: ps) (hl : c.lim ≤ 240) (hm : c.map.length = c.buf.length)
    (c3 c4 : CState) (cond : JSlot)
    (hcond : cValue fuel {} cnd (pushScope c false true false false) = some (cond, c3))
    (hCT : ∀ (f2 : Nat) (si s1 : SS) (cv : Value) (cenv : Env), eval f2 pos env cnd si = .ok (cv, cenv) s1 → truthy cv = true)
    (hbody : whileBody (cValue fuel) (pre ++ .form [.sym "break"] bp :: post) c3 = some c4)
    (hNB3 : NoBrkFrom c3.buf c.buf.length)
    (hnbP : ∀ n cur env0 s0 v0 s1, (∀ f, G f → lookupEnv env0 f = none) → evalSeq n cur env0 pre s0 ≠ .brk v0 s1)
    (hw : whileLoop f pos env cnd (pre ++ .form [.sym "break"] bp :: post) s = .ok () s')
    (hE : EnvS G c.scopes env s.boxes.size sc.ra) :
    (c4.scopes.headD default).closure = false ∧ ∀ (c6 : CState), c4.buf.length - c.buf.length < 8388607 →
      popScope { emitRaw c4 (CI.jump 0) with
        buf := brkRewrite (modBuf (emitRaw c4 (CI.jump 0)).buf c4.buf.length fun _ => CI.jump (Int.ofNat c.buf.length - Int.ofNat c4.buf.length))
                 c.buf.length (emitRaw c4 (CI.jump 0)).buf.length } = some c6 →
      Correct2 p f0 rest V P G false c c6 (cslot .nil) sc rs pool ps env env s s' .nil := by
  -- the loop's block scope
  obtain ⟨wb, hwb⟩ : ∃ wb : Scope, wb = { whl := true, ra := { alloc := sc.ra.alloc, max := sc.ra.max }, start := c.buf.length } := ⟨_, rfl⟩
  have hc1 : pushScope c false true false false = { c with scopes := wb :: sc :: rs } := by
    simp [pushScope, hs, hwb]
  rw [hc1] at hcond
  have hwsyms : wb.syms = [] := by rw [hwb]
  have hwun : wb.unused = false := by rw [hwb]
  have hwfn : wb.fn = false := by rw [hwb]
  have hwwhl : wb.whl = true := by rw [hwb]
  have hwcl : wb.closure = false := by rw [hwb]
  have hwtop : wb.top = false := by rw [hwb]
  have hwal : wb.ra.alloc = sc.ra.alloc := by rw [hwb]
  have hwmax : wb.ra.max = sc.ra.max := by rw [hwb]
  have hlk1 : ∀ y, lk (wb :: sc :: rs) y = lk c.scopes y := by
    intro y; rw [hs]; exact lk_push wb (sc :: rs) hwsyms hwun hwfn y
  have hE1 : ∀ nb, s.boxes.size ≤ nb → EnvS G ({ c with scopes := wb :: sc :: rs } : CState).scopes env nb wb.ra :=
    fun nb hnb => hE.of_lk hlk1 hnb (fun _ _ _ _ r _ _ h => by rw [hwal]; exact h)
  -- the only turn evaluates the condition
  obtain ⟨f2, cv, cenv, s1, hf, hsc, hrest⟩ := whileLoop_inv f pos env cnd _ s s' hw
  have C3 := IH cnd {} { c with scopes := wb :: sc :: rs } c3 cond wb (sc :: rs) pool ps f2 pos env cenv s s1 cv
      rfl rfl rfl hp hl hwtop (fun _ => hm) (hTT cnd hTc) hcond hsc (hE1 _ (Nat.le_refl _))
  obtain ⟨ra3, ns3, more3, seg3, segm3, hc3, pv3, mono3, max3, sok3, _, es30, _, _⟩ := C3
  have S3 := (tf_shapeM_at G fuel b cnd {} { c with scopes := wb :: sc :: rs } c3 cond wb (sc :: rs) pool ps
      rfl rfl rfl hp hwtop hm hTc (hE1 _ (Nat.le_refl _)).lkl hcond).1
  have hm3 : c3.map.length = c3.buf.length := S3.mapLen hm
  have hs3 : c3.scopes = upd wb ra3 ns3 :: sc :: rs := by rw [hc3]
  have hp3 : c3.pools = (pool ++ more3) :: ps := by rw [hc3]
  have hb3 : c3.buf = c.buf ++ seg3 := by rw [hc3]
  have hl3 : c3.lim ≤ 240 := by rw [hc3]; exact hl
  have max3' : sc.ra.max ≤ ra3.max := by rw [← hwmax]; exact max3
  have hlk3j : ∀ y, lk c3.scopes y = lk c3.scopes y := fun _ => rfl
  have hL3j : LkL G c3.scopes := es30.lkl
  -- the body, compile side: `pre`, the placeholder, `post`
  obtain ⟨cA, hpreC, hrestC⟩ := (whileBody_append _ pre _ c3 c4).mp hbody
  have SA := HSHa c3 cA (upd wb ra3 ns3) (sc :: rs) (pool ++ more3) ps hs3 hp3 hwtop hm3 hL3j hpreC
  have hmA : cA.map.length = cA.buf.length := SA.mapLen hm3
  obtain ⟨raA, nsA, moreA, segA, segmA, hcA, pvA, hLA, hlA⟩ := SA
  have hsA : cA.scopes = upd (upd wb ra3 ns3) raA nsA :: sc :: rs := by rw [hcA]
  have hpA : cA.pools = (pool ++ more3 ++ moreA) :: ps := by rw [hcA]
  have hbA : cA.buf = c3.buf ++ segA := by rw [hcA]
  have hlimA : cA.lim = c3.lim := by rw [hcA]
  have maxA : ra3.max ≤ raA.max :=
    HMXa c3 cA (upd wb ra3 ns3) (upd (upd wb ra3 ns3) raA nsA) (sc :: rs) (pool ++ more3) ps hs3 hp3 hwtop hm3 hL3j hpreC hsA
  have NA : NoBrkFrom cA.buf c.buf.length :=
    HNBa c3 cA (upd wb ra3 ns3) (sc :: rs) (pool ++ more3) ps hs3 hp3 hwtop hm3 hL3j hpreC _ hNB3
  simp only [whileBody, Option.bind_eq_bind, Option.bind_eq_some_iff, Prod.exists] at hrestC
  obtain ⟨slB, cB, hB, cBf, hfB, hpostC⟩ := hrestC
  have hfind : cA.scopes.find? (fun s => s.fn || s.whl) = some (upd (upd wb ra3 ns3) raA nsA) := by
    rw [hsA]; simp [List.find?, hwfn, hwwhl]
  obtain ⟨hslB, hcB⟩ := cValue_break_while fuel bp cA _ hfind hwfn slB cB hB
  obtain ⟨qb, hqb⟩ := curAt_eq cA bp
  rw [hqb] at hcB
  subst hslB
  have hcBf : cB = cBf := by
    simp [freeslot, cslot] at hfB; exact hfB
  subst hcBf
  have hsB : cB.scopes = upd (upd wb ra3 ns3) raA nsA :: sc :: rs := by rw [hcB]; exact hsA
  have hpB : cB.pools = (pool ++ more3 ++ moreA) :: ps := by rw [hcB]; exact hpA
  have hbB : cB.buf = cA.buf ++ [CI.brk] := by rw [hcB]; rfl
  have hmB : cB.map.length = cB.buf.length := by rw [hcB]; simp [emitRaw, hmA]
  have hvB : cB.vals = cA.vals := by rw [hcB]; rfl
  have hLB : LkL G cB.scopes := by rw [hsB, ← hsA]; exact hLA
  have SP := HSHp cB c4 (upd (upd wb ra3 ns3) raA nsA) (sc :: rs) (pool ++ more3 ++ moreA) ps hsB hpB hwtop hmB hLB hpostC
  obtain ⟨ra4, ns4, more4, segP, segmP, hc4, pv4, hL4, hlP⟩ := SP
  have hs4 : c4.scopes = upd (upd (upd wb ra3 ns3) raA nsA) ra4 ns4 :: sc :: rs := by rw [hc4]
  have hp4 : c4.pools = (pool ++ more3 ++ moreA ++ more4) :: ps := by rw [hc4]
  have hb4 : c4.buf = cB.buf ++ segP := by rw [hc4]
  have max4 : raA.max ≤ ra4.max :=
    HMXp cB c4 (upd (upd wb ra3 ns3) raA nsA) (upd (upd (upd wb ra3 ns3) raA nsA) ra4 ns4) (sc :: rs) (pool ++ more3 ++ moreA) ps
      hsB hpB hwtop hmB hLB hpostC hs4
  have NP : NoBrkFrom c4.buf cB.buf.length :=
    HNBp cB c4 (upd (upd wb ra3 ns3) raA nsA) (sc :: rs) (pool ++ more3 ++ moreA) ps hsB hpB hwtop hmB hLB hpostC _ (noBrkFrom_length _)
  refine ⟨by rw [hs4]; simp [hwcl], ?_⟩
  intro c6 hr2 hpop
  -- the code
  have hb4' : c4.buf = c.buf ++ seg3 ++ (segA ++ CI.brk :: segP) := by
    rw [hb4, hbB, hbA, hb3]; simp
  have hb5 : (emitRaw c4 (CI.jump 0)).buf = (c.buf ++ seg3) ++ (segA ++ CI.brk :: (segP ++ [CI.jump 0])) := by
    simp only [emitRaw]; rw [hb4']; simp
  have hlen4 : c4.buf.length = c.buf.length + seg3.length + segA.length + 1 + segP.length := by rw [hb4']; simp <;> omega
  obtain ⟨offb, hoffb⟩ : ∃ offb : Int, offb = Int.ofNat c.buf.length - Int.ofNat c4.buf.length := ⟨_, rfl⟩
  have hbuf2 : modBuf (emitRaw c4 (CI.jump 0)).buf
      c4.buf.length (fun _ => CI.jump (Int.ofNat c.buf.length - Int.ofNat c4.buf.length)) =
      (c.buf ++ (seg3 ++ segA)) ++ CI.brk :: (segP ++ [CI.jump offb]) := by
    rw [← hoffb, hb5]
    have e2 : (c.buf ++ seg3) ++ (segA ++ CI.brk :: (segP ++ [CI.jump 0])) =
        (c.buf ++ seg3 ++ (segA ++ CI.brk :: segP)) ++ CI.jump 0 :: [] := by simp
    have e3 : c4.buf.length = (c.buf ++ seg3 ++ (segA ++ CI.brk :: segP)).length := by rw [hb4']
    rw [e2, e3, modBuf_at]
    simp
  have hnewA : ∀ ci, ci ∈ (seg3 ++ segA) → ci ≠ CI.brk := by
    intro ci hci
    have hd : cA.buf.drop c.buf.length = seg3 ++ segA := by
      rw [hbA, hb3]; simp
    have hN := noBrkFrom_drop NA
    rw [hd] at hN
    exact hN ci hci
  have hnewP : ∀ ci, ci ∈ (segP ++ [CI.jump offb]) → ci ≠ CI.brk := by
    intro ci hci
    have hd : c4.buf.drop cB.buf.length = segP := by rw [hb4]; simp
    have hN := noBrkFrom_drop NP
    rw [hd] at hN
    simp only [List.mem_append, List.mem_cons, List.not_mem_nil, or_false] at hci
    rcases hci with h | h
    · exact hN ci h
    · rw [h]; exact fun e => CI.noConfusion e
  have hk : (emitRaw c4 (CI.jump 0)).buf.length - (c.buf ++ (seg3 ++ segA)).length = segP.length + 2 := by
    rw [hb5]; simp <;> omega
  have hbuf3 : brkRewrite (modBuf (emitRaw c4 (CI.jump 0)).buf
      c4.buf.length (fun _ => CI.jump (Int.ofNat c.buf.length - Int.ofNat c4.buf.length))) c.buf.length (emitRaw c4 (CI.jump 0)).buf.length =
      c.buf ++ (seg3 ++ (segA ++ CI.jump (Int.ofNat (segP.length + 2)) :: (segP ++ [CI.jump offb]))) := by
    rw [hbuf2, brkRewrite_one _ _ _ _ (by simp) (by rw [hb5]; simp <;> omega) ?_ hnewP, hk]
    · simp
    · intro i h1 h2
      exact hnewA _ (getD_append_mem _ _ i h1 h2)
  rw [hbuf3] at hpop
  -- the pop
  have hs5 : ({ emitRaw c4 (CI.jump 0) with buf := c.buf ++ (seg3 ++ (segA ++ CI.jump (Int.ofNat (segP.length + 2)) :: (segP ++ [CI.jump offb]))) } : CState).scopes =
      upd (upd (upd wb ra3 ns3) raA nsA) ra4 ns4 :: sc :: rs := hs4
  obtain ⟨raX, hpop', hmaxX, hmonoX⟩ := popScope_block _ _ sc rs hs5 hwfn hwun hwcl
  rw [hpop'] at hpop
  have hc6 := (Option.some.inj hpop).symm
  have hmaxX' : raX.max = (if sc.ra.max < ra4.max then ra4.max else sc.ra.max) := hmaxX
  have hlk' : ∀ x, lk c6.scopes x = lk c.scopes x := by
    intro x
    rw [hc6, hs]
    have hinv : ∀ q, q ∈ (upd (upd (upd wb ra3 ns3) raA nsA) ra4 ns4).syms.map (fun q : SymPair => { q with visible := false }) → q.visible = false := by
      intro q hq
      simp only [List.mem_map] at hq
      obtain ⟨q0, _, rfl⟩ := hq
      rfl
    exact (lk_append_invisible { sc with ra := raX } rs _ hinv x).trans (lk_ra sc rs raX x)
  have hv6 : c6.vals = c4.vals := by rw [hc6]; rfl
  have pv3' : PrefA c.vals c3.vals := pv3
  have pvA' : PrefA c3.vals cA.vals := by
    have : c3.vals = c3.vals := by rw [hc3]
    rw [← this]; exact pvA
  have pv4' : PrefA cA.vals c4.vals := by rw [← hvB]; exact pv4
  -- the run: the condition once, then out (falsy) or `pre` and the patched placeholder
  have run : PrefA s.boxes s'.boxes ∧ ∀ (k : Cfg), k.w = s.st.world → k.args = #[] → EnvD c.scopes env s k.regs →
      CodeAt (p.defs.getD f0.defIdx default).code k.pc
        (seg3 ++ (segA ++ CI.jump (Int.ofNat (segP.length + 2)) :: (segP ++ [CI.jump offb]))) →
      PrefL (pool ++ more3 ++ moreA ++ more4) P → PrefA c4.vals V → ra4.max < k.regs.size →
      ∃ regs', Reach p (inj f0 rest k)
          (inj f0 rest { regs := regs', pc := k.pc + (seg3.length + segA.length + 1 + segP.length + 1), args := #[], w := s'.st.world }) ∧
        regs'.size = k.regs.size ∧ (∀ r, sc.ra.alloc r = true → regs'.getD r .nil = k.regs.getD r .nil) := by
    have C3' := IH cnd {} { c with scopes := wb :: sc :: rs } c3 cond wb (sc :: rs) pool ps f2 pos env cenv s s1 cv
      rfl rfl rfl hp hl hwtop (fun _ => hm) (hTT cnd hTc) hcond hsc (hE1 _ (Nat.le_refl _))
    obtain ⟨bx3, es3, _, _, vm3⟩ := Correct2.use p f0 rest V P C3' seg3 (pool ++ more3) (upd wb ra3 ns3) hb3 hp3 hs3
    have htr : truthy cv = true := hCT f2 s s1 cv cenv hsc
    rcases hrest with ⟨htf, _⟩ | ⟨_, hgo⟩
    · rw [htr] at htf; exact Bool.noConfusion htf
    · obtain ⟨hnok, hbrkinv⟩ := evalSeq_break_inv pos bp post pre f2 cenv s1
      rcases hgo with ⟨bv, benv, s2, hsb, _⟩ | ⟨bv, hbrk⟩
      · exact absurd hsb (hnok _ _)
      · rcases hbrkinv bv s' hbrk with ⟨vA, envA, hpreS⟩ | hpb
        · -- `pre` ran to its end, then the placeholder jump
          have hE3j : EnvS G c3.scopes cenv s1.boxes.size (upd wb ra3 ns3).ra :=
            es3.of_lk hlk3j (Nat.le_refl _) (fun _ _ _ _ _ _ _ h => h)
          have CB := whileBody_correct p f0 rest V P G T w fuel IH ML pre hTb c3 cA (upd wb ra3 ns3) (sc :: rs) (pool ++ more3) ps
            f2 pos cenv envA s1 s' vA hs3 hp3 hl3 hwtop hm3 hpreC hpreS hE3j
          obtain ⟨bx4, _, _, mono4, vm4⟩ := Correct2.use p f0 rest V P CB segA (pool ++ more3 ++ moreA) (upd (upd wb ra3 ns3) raA nsA) hbA hpA hsA
          refine ⟨PrefA.trans bx3 bx4, ?_⟩
          intro k hkw hka hD hcode hpre hV hsz
          obtain ⟨regs3, rch3, sz3, pr3, _, ed3⟩ := vm3 k hkw hka (hD.of_lk hlk1)
            hcode.left (PrefL.trans ⟨moreA ++ more4, by simp [List.append_assoc]⟩ hpre) (PrefA.trans pvA' (PrefA.trans pv4' hV)) (by show ra3.max < k.regs.size; omega)
          have pr3' : ∀ r, sc.ra.alloc r = true → regs3.getD r .nil = k.regs.getD r .nil := by
            intro r hr; exact pr3 r (by rw [hwal]; exact hr)
          have sz3' : regs3.size = k.regs.size := sz3
          obtain ⟨regs4, rch4, sz4, pr4, _, _⟩ := vm4 { regs := regs3, pc := k.pc + seg3.length, args := #[], w := s1.st.world } rfl rfl
            (ed3.of_lk hlk3j) hcode.right.left (PrefL.trans ⟨more4, rfl⟩ hpre) (PrefA.trans pv4' hV) (by show raA.max < regs3.size; omega)
          have sz4' : regs4.size = regs3.size := sz4
          have pr4' : ∀ r, ra3.alloc r = true → regs4.getD r .nil = regs3.getD r .nil := pr4
          have mono3' : ∀ r, sc.ra.alloc r = true → ra3.alloc r = true := by
            intro r hr; exact mono3 r (by rw [hwal]; exact hr)
          have hcB : (p.defs.getD f0.defIdx default).code[k.pc + seg3.length + segA.length]? = some (CI.jump (Int.ofNat (segP.length + 2))).word :=
            hcode.right.right.head
          have jst := step_jump p (inj f0 rest { regs := regs4, pc := k.pc + seg3.length + segA.length, args := #[], w := s'.st.world })
            (Int.ofNat (segP.length + 2)) (by simp only [Int.ofNat_eq_natCast]; omega) (by simp only [Int.ofNat_eq_natCast]; omega)
            (by rw [inj_curDef, inj_pc]; exact hcB)
          rw [inj_jump] at jst
          have e2' : (Int.ofNat (k.pc + seg3.length + segA.length) + Int.ofNat (segP.length + 2)).toNat =
              k.pc + (seg3.length + segA.length + 1 + segP.length + 1) := by
            simp only [Int.ofNat_eq_natCast]; omega
          simp only [e2'] at jst
          refine ⟨regs4, Reach.trans rch3 (Reach.trans rch4 (Reach.head jst (Reach.refl _ _))), by omega, ?_⟩
          intro r hr; rw [pr4' r (mono3' r hr), pr3' r hr]
        · refine absurd hpb (hnbP _ _ _ _ _ _ (fun g hg => ?_))
          rcases es3.2 g with ⟨_, h⟩ | ⟨sl, r, a, u, h, _⟩
          · exact h
          · rw [es3.1 g hg] at h; exact absurd h (by simp)
  obtain ⟨hbxAll, loop⟩ := run
  -- assembling
  refine ⟨raX, (upd (upd (upd wb ra3 ns3) raA nsA) ra4 ns4).syms.map (fun q => { q with visible := false }), more3 ++ moreA ++ more4,
    seg3 ++ (segA ++ CI.jump (Int.ofNat (segP.length + 2)) :: (segP ++ [CI.jump offb])),
    segm3 ++ segmA ++ [qb] ++ segmP ++ [c4.cur], ?_, ?_, hmonoX, ?_, ?_, ?_, ?_, ?_, ?_⟩
  · rw [hc6]
    simp only [emitRaw]
    rw [hc4, hcB]
    simp only [emitRaw]
    rw [hcA, hc3]
    simp [List.append_assoc]
  · rw [hv6]; exact PrefA.trans pv3' (PrefA.trans pvA' pv4')
  · rw [hmaxX']; split <;> omega
  · exact Or.inl ⟨rfl, .nil, rfl, trivial⟩
  · exact hbxAll
  · exact hE.of_lk hlk' hbxAll.1 (fun _ _ _ _ r _ _ h => hmonoX r h)
  · exact NameFrame.of_lk hlk' (by rfl)
  · intro k hkw hka hD hcode hpre hV hsz
    rw [hv6] at hV
    have hsz4 : ra4.max < k.regs.size := by
      rw [hmaxX'] at hsz; split at hsz <;> omega
    have hpre' : PrefL (pool ++ more3 ++ moreA ++ more4) P := by simpa [List.append_assoc] using hpre
    obtain ⟨regs', rch, sz, pr⟩ := loop k hkw hka hD hcode hpre' hV hsz4
    refine ⟨regs', ?_, sz, pr, fun _ => by rfl, ?_⟩
    · have e : k.pc + (seg3 ++ (segA ++ CI.jump (Int.ofNat (segP.length + 2)) :: (segP ++ [CI.jump offb]))).length =
          k.pc + (seg3.length + segA.length + 1 + segP.length + 1) := by
        simp only [List.length_append, List.length_cons, List.length_nil]; omega
      rw [e]; exact rch
    · intro x sl u l r a hx hk he
      rw [hlk'] at hx
      obtain ⟨_, _, _, r'', a'', hk', he', ha, hal, _⟩ := hE.found hx
      have e1 : r'' = r := by rw [hk'] at hk; injection hk
      have e2 : a'' = a := by rw [he] at he'; exact (Option.some.inj he').symm
      subst e1 e2
      rw [pr r'' hal, hD x sl u l r'' a'' hx hk he]
      exact (readBox_pref hbxAll a'' ha).symm

end

end JanetModel.Compile
