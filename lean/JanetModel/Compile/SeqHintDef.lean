/- C02: statements for compiles with a HINT slot (`opts.hint = some h`): what `janetc_varset` uses — `(set x e)` compiles `e` with the
   variable's slot as hint, so that calls take it as target (`CALL r_x f`), `if` writes both branches into it, `do` passes it to its
   last statement, and every other form is followed by a `janetc_copy` into it.  Definitions only (shared by the proofs). -/
import JanetModel.Compile.SeqCoreIf
namespace JanetModel.Compile
open JanetModel.Emit JanetModel.Lang JanetModel.Bytecode.Exec JanetModel.Gen.Bytecode

/-- the run-time invariant for every name that does not live in register `rh` -/
def EnvDx (scs : List Scope) (env : Env) (s : SS) (regs : Array Value) (rh : Nat) : Prop :=
  ∀ x slot u l r a, lk scs x = some (slot, u, l) → slot.k = .loc r → r ≠ rh → lookupEnv env x = some a → regs.getD r .nil = readBox s a

theorem EnvD.toX {scs : List Scope} {env : Env} {s : SS} {regs : Array Value} (h : EnvD scs env s regs) (rh : Nat) : EnvDx scs env s regs rh :=
  fun x slot u l r a h1 h2 _ h3 => h x slot u l r a h1 h2 h3

/-- a mutable name's register is held by no other resolvable name (`namelocal` aliases only immutable sources) -/
def MutInj (scs : List Scope) : Prop :=
  ∀ x y slx sly ux lx uy ly, lk scs x = some (slx, ux, lx) → lk scs y = some (sly, uy, ly) → slx.mutable = true → slx.k = sly.k → x = y

/-- distinct names have distinct boxes, all below `nb` (`Lang/Sem.bind` always allocates `boxes.size`) -/
def BoxInj (env : Env) (nb : Nat) : Prop :=
  (∀ x y a, lookupEnv env x = some a → lookupEnv env y = some a → x = y) ∧ ∀ x a, lookupEnv env x = some a → a < nb

section
variable (p : Program) (f0 : Frame) (rest : List Frame) (V : Array Value) (P : List KConst)

/-- what a form compiled with the hint `h` (a near local in register `rh`, allocated) delivers: compile side as `Correct2`; run
    side: the value ends up in `rh`, every OTHER register allocated at entry keeps its content, the run-time invariant holds for
    every name outside `rh` -/
def HintOK (G : String → Prop) (c c' : CState) (rh : Nat) (sc : Scope) (rs : List Scope) (pool : List KConst) (ps : List (List KConst))
    (env env' : Env) (s s' : SS) (v : Value) : Prop :=
  ∃ (ra' : RA) (nsyms : List SymPair) (more : List KConst) (seg : List CI) (segm : List Pos),
    c' = { c with scopes := { sc with ra := ra', syms := sc.syms ++ nsyms } :: rs, pools := (pool ++ more) :: ps, buf := c.buf ++ seg,
                  map := c.map ++ segm, vals := c'.vals } ∧
    PrefA c.vals c'.vals ∧ (∀ r, sc.ra.alloc r = true → ra'.alloc r = true) ∧ sc.ra.max ≤ ra'.max ∧
    PrefA s.boxes s'.boxes ∧ EnvS G c'.scopes env' s'.boxes.size ra' ∧ segm.length = seg.length ∧
    ∀ (k : Cfg), k.w = s.st.world → k.args = #[] → EnvD c.scopes env s k.regs →
      CodeAt (p.defs.getD f0.defIdx default).code k.pc seg → PrefL (pool ++ more) P → PrefA c'.vals V → ra'.max < k.regs.size →
      ∃ regs', Reach p (inj f0 rest k) (inj f0 rest { regs := regs', pc := k.pc + seg.length, args := #[], w := s'.st.world }) ∧
        regs'.size = k.regs.size ∧ (∀ r, sc.ra.alloc r = true → r ≠ rh → regs'.getD r .nil = k.regs.getD r .nil) ∧
        regs'.getD rh .nil = v ∧ EnvDx c'.scopes env' s' regs' rh

/-- the induction hypothesis for hinted compiles over a fragment `T` -/
def HintAt (G : String → Prop) (T : Expr → Prop) (fuel : Nat) : Prop :=
  ∀ (e : Expr) (opts : Fopts) (c c' : CState) (slot : JSlot) (sc : Scope) (rs : List Scope) (pool : List KConst) (ps : List (List KConst))
    (n : Nat) (cur : Pos) (env env' : Env) (s s' : SS) (v : Value) (h : JSlot) (rh : Nat),
    opts.tail = false → opts.hint = some h → h.k = .loc rh → h.cflag = false → rh < 240 → sc.ra.alloc rh = true →
    c.scopes = sc :: rs → c.pools = pool :: ps → c.lim ≤ 240 → sc.top = false → c.map.length = c.buf.length → T e →
    cValue fuel opts e c = some (slot, c') → eval n cur env e s = .ok (v, env') s' → EnvS G c.scopes env s.boxes.size sc.ra →
    slot = h ∧ HintOK p f0 rest V P G c c' rh sc rs pool ps env env' s s' v

end

end JanetModel.Compile
