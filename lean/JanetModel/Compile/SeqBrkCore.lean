/- C02: one `while` loop WITH an unconditional `(break)` statement: `(while cnd pre... (break) post...)`. The semantics runs
   `cnd`, `pre`, then ends the loop with nil; `post` and the jump back are dead code. `while_break_gen` is generic in the
   predicate `T` of the `pre` statements (as `while_core_gen`), `while_break_core` instantiates it with `TFW G true`. -/
import JanetModel.Compile.SeqBrkInf
namespace JanetModel.Compile
open JanetModel.Emit JanetModel.Lang JanetModel.Bytecode.Exec JanetModel.Gen.Bytecode

section
variable (p : Program) (f0 : Frame) (rest : List Frame) (V : Array Value) (P : List KConst)

theorem while_break_gen (G : String → Prop) (T : Expr → Prop) (b w : Bool) (fuel : Nat) (IH : CorrectAt p f0 rest V P G T w fuel)
    (ML : MLAt G T true fuel) (hTT : ∀ e, TF G b e → T e)
    (cnd : Expr) (pre post : List Expr) (bp pp : Pos) (hTc : TF G b cnd) (hTb : ∀ e, e ∈ pre → T e) (hok : CondOK cnd)
    (HSHa : BodyShp G fuel pre) (HMXa : BodyMax G fuel pre) (HNBa : BodyNbr G fuel pre)
    (HSHp : BodyShp G fuel post) (HMXp : BodyMax G fuel post) (HNBp : BodyNbr G fuel post)
    (hnbP : ∀ n cur env0 s0 v0 s1, (∀ f, G f → lookupEnv env0 f = none) → evalSeq n cur env0 pre s0 ≠ .brk v0 s1)
    (opts : Fopts) (c c' : CState) (slot : JSlot) (sc : Scope) (rs : List Scope) (pool : List KConst) (ps : List (List KConst))
    (n : Nat) (cur : Pos) (env env' : Env) (s s' : SS) (v : Value)
    (ht : opts.tail = false) (hh : opts.hint = none) (hs : c.scopes = sc :: rs) (hp : c.pools = pool :: ps) (hl : c.lim ≤ 240)
    (hm : c.map.length = c.buf.length)
    (hc : cValue (fuel + 1) opts (.form (.sym "while" :: cnd :: (pre ++ .form [.sym "break"] bp :: post)) pp) c = some (slot, c'))
    (hrg : c'.buf.length - c.buf.length ≤ 8388607)
    (hsem : eval n cur env (.form (.sym "while" :: cnd :: (pre ++ .form [.sym "break"] bp :: post)) pp) s = .ok (v, env') s')
    (hE : EnvS G c.scopes env s.boxes.size sc.ra) :
    Correct2 p f0 rest V P G opts.drop c c' slot sc rs pool ps env env' s s' v := by
  rw [cValue_while_o fuel opts ht hh cnd _ pp c] at hc
  obtain ⟨q, hq⟩ := curAt_eq c pp
  cases hcc : cWhile (cValue fuel) cnd (pre ++ .form [.sym "break"] bp :: post) (curAt c pp) with
  | none => rw [hcc] at hc; simp [fin] at hc
  | some res =>
    obtain ⟨slot0, cq⟩ := res
    rw [hcc] at hc
    simp only [fin, Option.some.injEq, Prod.mk.injEq] at hc
    obtain ⟨hsl, hc'⟩ := hc
    subst hsl hc'
    rw [hq] at hcc
    obtain ⟨n2, hn, hw, hv, henv⟩ := eval_while_inv n cur env env' cnd _ pp s s' v hsem
    subst hv henv
    refine Correct2.recur p f0 rest V P (q := q) (Correct2.weaken p f0 rest V P _ ?_)
    simp only [cWhile, Option.bind_eq_bind, Option.bind_eq_some_iff, Prod.exists] at hcc
    obtain ⟨cond, c2, hcond, h⟩ := hcc
    cases hk : isConstSlot cond with
    | none =>
      simp only [hk, Bool.false_eq_true, if_false, Option.bind_eq_some_iff, Bool.not_false, Bool.true_and] at h
      obtain ⟨c3j, hem, c4, hbody, hfin⟩ := h
      have h0 : NoBrkFrom (pushScope ({ c with cur := q } : CState) false true false false).buf c.buf.length := noBrkFrom_length c.buf
      have h2 := tf_nobrk G b fuel cnd {} _ c2 cond c.buf.length rfl rfl hTc hcond h0
      have h3 : NoBrkFrom c3j.buf c.buf.length := emitW_nbr c2 c3j _ hem _ h2
      exact while_break_jump p f0 rest V P G T b w fuel IH ML hTT cnd pre post bp hTc hTb HSHa HMXa HNBa HSHp HMXp HNBp
        { c with cur := q } cq slot0 sc rs pool ps n2 (posOf cur pp) env' s s'
        hs hp hl hm c2 c3j c4 cond hcond hk hem hbody hfin h3 hnbP hw hE
    | some k =>
      -- the loop's block scope
      obtain ⟨wb, hwb⟩ : ∃ wb : Scope, wb = { whl := true, ra := { alloc := sc.ra.alloc, max := sc.ra.max }, start := c.buf.length } := ⟨_, rfl⟩
      have hc1 : pushScope ({ c with cur := q } : CState) false true false false = { ({ c with cur := q } : CState) with scopes := wb :: sc :: rs } := by
        simp [pushScope, hs, hwb]
      rw [hc1] at hcond
      have hwsyms : wb.syms = [] := by rw [hwb]
      have hwun : wb.unused = false := by rw [hwb]
      have hwfn : wb.fn = false := by rw [hwb]
      have hwcl : wb.closure = false := by rw [hwb]
      have hwtop : wb.top = false := by rw [hwb]
      have hwal : wb.ra.alloc = sc.ra.alloc := by rw [hwb]
      have hwmax : wb.ra.max = sc.ra.max := by rw [hwb]
      have hlk1 : ∀ y, lk (wb :: sc :: rs) y = lk c.scopes y := by
        intro y; rw [hs]; exact lk_push wb (sc :: rs) hwsyms hwun hwfn y
      have hE1 : ∀ nb, s.boxes.size ≤ nb → EnvS G (wb :: sc :: rs) env' nb wb.ra :=
        fun nb hnb => hE.of_lk hlk1 hnb (fun _ _ _ _ r _ _ h => by rw [hwal]; exact h)
      have hCT : ∀ (f2 : Nat) (si s1 : SS) (cv : Value) (cenv : Env), eval f2 (posOf cur pp) env' cnd si = .ok (cv, cenv) s1 →
          truthy cv = constTruthy k := by
        intro f2 si s1 cv cenv hsc
        exact condT_of_ok G b fuel cnd hok hTc _ c2 cond k f2 (posOf cur pp) env' cenv si s1 cv (hE.lkl.of_lk hlk1)
          (fun x hx => by
            have hx' : lk (wb :: sc :: rs) x = none := hx
            rw [hlk1] at hx'
            rcases hE.2 x with ⟨_, h2⟩ | ⟨sl, r, a, u, h1, _⟩
            · exact h2
            · rw [hx'] at h1; exact absurd h1 (by simp))
          hcond hk hsc
      cases htk : constTruthy k with
      | true =>
        simp only [hk, htk, Bool.not_true, Bool.false_eq_true, if_false, if_true, Option.pure_def, Option.bind_some, Option.bind_eq_some_iff] at h
        obtain ⟨c4, hbody, hfin⟩ := h
        have hc1' : pushScope ({ c with cur := q } : CState) false true false false = { ({ c with cur := q } : CState) with scopes := wb :: sc :: rs } := hc1
        have h0 : NoBrkFrom ({ ({ c with cur := q } : CState) with scopes := wb :: sc :: rs } : CState).buf c.buf.length := noBrkFrom_length c.buf
        have h2 := tf_nobrk G b fuel cnd {} _ c2 cond c.buf.length rfl rfl hTc hcond h0
        obtain ⟨hcl4, HI⟩ := while_break_inf p f0 rest V P G T b w fuel IH ML hTT cnd pre post bp hTc hTb HSHa HMXa HNBa HSHp HMXp HNBp
          { c with cur := q } sc rs pool ps n2 (posOf cur pp) env' s s' hs hp hl hm c2 c4 cond (by rw [hc1']; exact hcond)
          (fun f2 si s1 cv cenv hsc => by rw [hCT f2 si s1 cv cenv hsc, htk]) hbody h2 hnbP hw hE
        rw [hcl4] at hfin
        simp only [Bool.false_eq_true, if_false] at hfin
        split at hfin
        · exact absurd hfin (by simp)
        · simp only [Option.bind_eq_some_iff, Option.some.injEq, Prod.mk.injEq] at hfin
          obtain ⟨c6, hpop, hslot, hc6⟩ := hfin
          subst hc6
          rw [← hslot]
          have hb6 := popScope_buf _ c6 hpop
          refine HI c6 ?_ hpop
          have hrg' : c6.buf.length - c.buf.length ≤ 8388607 := hrg
          clear hrg
          show c4.buf.length - c.buf.length < 8388607
          rw [hb6] at hrg'
          simp [brkRewrite_length, modBuf_length, emitRaw] at hrg'
          omega
      | false =>
        simp only [hk, htk, Bool.not_false, if_true, Option.bind_eq_some_iff, Option.pure_def, Option.some.injEq, Prod.mk.injEq] at h
        obtain ⟨c6, hpop, hslot, hc6⟩ := h
        subst hc6
        -- the condition is false at once
        obtain ⟨f2, cv, cenv, s1, hf, hsc, hrest⟩ := whileLoop_inv n2 (posOf cur pp) env' cnd _ s s' hw
        have hcv := hCT f2 s s1 cv cenv hsc
        rw [htk] at hcv
        have hs1 : s' = s1 := by
          rcases hrest with ⟨_, h⟩ | ⟨htr, _⟩
          · exact h
          · rw [hcv] at htr; exact Bool.noConfusion htr
        subst hs1
        obtain ⟨ra3, ns3, more3, seg3, segm3, hc3, pv3, mono3, max3, sok3, bx3, es3, nf3, vm3⟩ :=
          IH cnd {} { ({ c with cur := q } : CState) with scopes := wb :: sc :: rs } c2 cond wb (sc :: rs) pool ps f2 (posOf cur pp) env' cenv s s' cv
            rfl rfl rfl hp hl hwtop (fun _ => hm) (hTT cnd hTc) hcond hsc (hE1 _ (Nat.le_refl _))
        have hs3 : c2.scopes = upd wb ra3 ns3 :: sc :: rs := by rw [hc3]
        obtain ⟨raX, hpop', hmaxX, hmonoX⟩ := popScope_block c2 _ sc rs hs3 hwfn hwun hwcl
        rw [hpop'] at hpop
        have hc6 := (Option.some.inj hpop).symm
        have hmaxX' : raX.max = (if sc.ra.max < ra3.max then ra3.max else sc.ra.max) := hmaxX
        have max3' : sc.ra.max ≤ ra3.max := by rw [← hwmax]; exact max3
        have hlk' : ∀ x, lk c6.scopes x = lk c.scopes x := by
          intro x
          rw [hc6, hs]
          have hinv : ∀ q, q ∈ (upd wb ra3 ns3).syms.map (fun q : SymPair => { q with visible := false }) → q.visible = false := by
            intro q hq
            simp only [List.mem_map] at hq
            obtain ⟨q0, _, rfl⟩ := hq
            rfl
          exact (lk_append_invisible { sc with ra := raX } rs _ hinv x).trans (lk_ra sc rs raX x)
        have hv6 : c6.vals = c2.vals := by rw [hc6]
        refine ⟨raX, (upd wb ra3 ns3).syms.map (fun q => { q with visible := false }), more3, seg3, segm3, ?_, ?_, hmonoX, ?_, ?_, bx3, ?_, ?_, ?_⟩
        · rw [hc6, hc3]
        · rw [hv6]; exact pv3
        · rw [hmaxX']; split <;> omega
        · rw [← hslot]; exact Or.inl ⟨rfl, .nil, rfl, trivial⟩
        · exact hE.of_lk hlk' bx3.1 (fun _ _ _ _ r _ _ h => hmonoX r h)
        · exact NameFrame.of_lk hlk' (by rw [← hslot]; rfl)
        · intro k0 hkw hka hD hcode hpre hV hsz
          rw [hv6] at hV
          obtain ⟨regs3, rch3, sz3, pr3, _, _⟩ := vm3 k0 hkw hka (hD.of_lk hlk1) hcode hpre hV
            (by rw [hmaxX'] at hsz; show ra3.max < _; split at hsz <;> omega)
          have pr3' : ∀ r, sc.ra.alloc r = true → regs3.getD r .nil = k0.regs.getD r .nil := by
            intro r hr; exact pr3 r (by rw [hwal]; exact hr)
          refine ⟨regs3, rch3, sz3, pr3', fun _ => by rw [← hslot]; rfl, ?_⟩
          intro x sl u l r a hx hk he
          rw [hlk'] at hx
          obtain ⟨_, _, _, r'', a'', hk', he', ha, hal, _⟩ := hE.found hx
          have e1 : r'' = r := by rw [hk'] at hk; injection hk
          have e2 : a'' = a := by rw [he] at he'; exact (Option.some.inj he').symm
          subst e1 e2
          rw [pr3' r'' hal, hD x sl u l r'' a'' hx hk he]
          exact (readBox_pref bx3 a'' ha).symm


/-- one `while` loop with an unconditional `(break)`: condition in the fragment (`CondOK`), the statements before and after the
    `(break)` fragment forms or inner loops without `break` -/
theorem while_break_core (hP : P.length < 65536)
    (hK : ∀ i, i < P.length → (p.defs.getD f0.defIdx default).consts.getD i .nil = litOf V (P.getD i .nil))
    (FF : FloatFacts) (G : String → Prop) (fuel : Nat)
    (cnd : Expr) (pre post : List Expr) (bp pp : Pos) (hTc : TF G true cnd)
    (hTpre : ∀ e, e ∈ pre → TFW G true e) (hTpost : ∀ e, e ∈ post → TFW G true e) (hok : CondOK cnd)
    (opts : Fopts) (c c' : CState) (slot : JSlot) (sc : Scope) (rs : List Scope) (pool : List KConst) (ps : List (List KConst))
    (n : Nat) (cur : Pos) (env env' : Env) (s s' : SS) (v : Value)
    (ht : opts.tail = false) (hh : opts.hint = none) (hs : c.scopes = sc :: rs) (hp : c.pools = pool :: ps) (hl : c.lim ≤ 240)
    (hm : c.map.length = c.buf.length)
    (hc : cValue (fuel + 1) opts (.form (.sym "while" :: cnd :: (pre ++ .form [.sym "break"] bp :: post)) pp) c = some (slot, c'))
    (hrg : c'.buf.length - c.buf.length ≤ 8388607)
    (hsem : eval n cur env (.form (.sym "while" :: cnd :: (pre ++ .form [.sym "break"] bp :: post)) pp) s = .ok (v, env') s')
    (hE : EnvS G c.scopes env s.boxes.size sc.ra) :
    Correct2 p f0 rest V P G opts.drop c c' slot sc rs pool ps env env' s s' v :=
  while_break_gen p f0 rest V P G (TFW G true) true true fuel (tfw_correct p f0 rest V P hP hK FF G fuel) (tfw_ML G fuel)
    (fun _ h => Or.inl h) cnd pre post bp pp hTc hTpre hok
    (bodyShp_of (tfw_stmtFacts G fuel) hTpre) (bodyMax_of (tfw_stmtFacts G fuel) hTpre) (bodyNbr_of (tfw_stmtFacts G fuel) hTpre)
    (bodyShp_of (tfw_stmtFacts G fuel) hTpost) (bodyMax_of (tfw_stmtFacts G fuel) hTpost) (bodyNbr_of (tfw_stmtFacts G fuel) hTpost)
    (fun n cur env0 s0 v0 s1 hg => (tfw_evalSeq_nbg G n cur env0 pre s0 hg hTpre).1 v0 s1)
    opts c c' slot sc rs pool ps n cur env env' s s' v ht hh hs hp hl hm hc hrg hsem hE

end

end JanetModel.Compile
