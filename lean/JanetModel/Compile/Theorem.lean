/- C02: the compile-correctness induction for the call fragment (see Compile/Correct.lean for the statement `Correct`). -/
import JanetModel.Compile.Correct
namespace JanetModel.Compile
open JanetModel.Emit JanetModel.Lang JanetModel.Bytecode.Exec JanetModel.Gen.Bytecode

theorem cValue_lit (fuel : Nat) (v : Value) (hv : SimpleLit v) (c : CState) :
    cValue (fuel + 1) {} (.lit v) c = some ((constSlot c v).1, { (constSlot c v).2 with cur := c.cur }) := by
  cases v <;> simp_all [cValue, SimpleLit]

theorem EnvOK.ra {c c1 : CState} {sc : Scope} {rs : List Scope} {env : Env} {s : SS} {regs : Array Value}
    (hs : c.scopes = sc :: rs) (h1 : c1.scopes = sc :: rs) (h : EnvOK c env s regs sc.ra) : EnvOK c1 env s regs sc.ra := by
  intro x
  have e : lookupSlot c1 x = lookupSlot c x := lookupSlot_ra c c1 sc rs sc.ra hs (by rw [h1]) x
  rw [e]
  exact h x

section
variable (p : Program) (f0 : Frame) (rest : List Frame) (V : Array Value) (P : List KConst)

theorem tc_correct (hP : P.length < 65536)
    (hK : ∀ i, i < P.length → (p.defs.getD f0.defIdx default).consts.getD i .nil = litOf V (P.getD i .nil))
    (FF : FloatFacts) :
    ∀ (fuel : Nat) (e : Expr) (c c' : CState) (slot : JSlot) (sc : Scope) (rs : List Scope) (pool : List KConst) (ps : List (List KConst))
      (n : Nat) (cur : Pos) (env env' : Env) (s s' : SS) (v : Value) (k : Cfg),
      c.scopes = sc :: rs → c.pools = pool :: ps → c.lim ≤ 240 → TC c e →
      cValue fuel {} e c = some (slot, c') → eval n cur env e s = .ok (v, env') s' →
      k.w = s.st.world → k.args = #[] → EnvOK c env s k.regs sc.ra →
      Correct p f0 rest V P c c' slot sc rs pool ps s' v k := by
  intro fuel
  induction fuel with
  | zero => intro e c c' slot sc rs pool ps n cur env env' s s' v k _ _ _ _ hc; simp [cValue] at hc
  | succ fuel ih =>
    intro e c c' slot sc rs pool ps n cur env env' s s' v k hs hp hl hTC hc hsem hkw hka henv
    cases hTC with
    | lit w hw =>
      rw [cValue_lit fuel w hw c] at hc
      simp only [Option.some.injEq, Prod.mk.injEq] at hc
      obtain ⟨h1, h2⟩ := hc
      subst h1 h2
      cases n with
      | zero => simp [eval] at hsem
      | succ n =>
        rw [eval_lit] at hsem
        simp only [R.ok.injEq, Prod.mk.injEq] at hsem
        obtain ⟨⟨hv, _⟩, hss⟩ := hsem
        subst hv hss
        exact atom_const p f0 rest V P FF c w hw sc rs pool ps hs hp s k hkw hka
    | sym x =>
      rw [cValue_sym] at hc
      rcases henv x with ⟨hl1, hl2⟩ | ⟨sl, r, a, u, hl1, hk1, hn1, hc1, hl2, hreg, hal, hr⟩
      · -- global function
        rw [resolve_global c x hl1] at hc
        have hg : globalSlot c x = some (constSlot c (.cfun x)) := by
          unfold globalSlot at hc ⊢
          split at hc <;> simp_all [fin]
        rw [hg] at hc
        simp only [fin, Option.some.injEq, Prod.mk.injEq] at hc
        obtain ⟨h1, h2⟩ := hc
        subst h1 h2
        cases n with
        | zero => simp [eval] at hsem
        | succ n =>
          rw [eval_sym_global n cur env x s hl2] at hsem
          simp only [R.ok.injEq, Prod.mk.injEq] at hsem
          obtain ⟨⟨hv, _⟩, hss⟩ := hsem
          subst hv hss
          exact atom_const p f0 rest V P FF c (.cfun x) trivial sc rs pool ps hs hp s k hkw hka
      · -- local
        rw [resolve_local c x sl u hl1 hc1] at hc
        simp only [fin, Option.some.injEq, Prod.mk.injEq] at hc
        obtain ⟨h1, h2⟩ := hc
        subst h1 h2
        cases n with
        | zero => simp [eval] at hsem
        | succ n =>
          rw [eval_sym_local n cur env x s a hl2] at hsem
          simp only [R.ok.injEq, Prod.mk.injEq] at hsem
          obtain ⟨⟨hv, _⟩, hss⟩ := hsem
          subst hv hss
          refine ⟨sc.ra, [], [], [], ?_, PrefA.refl _, fun _ h => h, Nat.le_refl _, Or.inr (Or.inl ⟨hc1, hn1, r, hk1, hal, hr⟩), ?_⟩
          · simp [hs, hp]
          · intro _ _ _ _
            refine ⟨k.regs, ?_, rfl, fun _ _ => rfl, ?_⟩
            · have e : ({ regs := k.regs, pc := k.pc + ([] : List CI).length, args := #[], w := s.st.world } : Cfg) = k := by
                obtain ⟨regs, pc, args, w0⟩ := k
                change w0 = s.st.world at hkw
                change args = #[] at hka
                subst hkw hka
                rfl
              rw [e]; exact Reach.refl _ _
            · simp only [slotVal, hk1]; exact hreg
    | call1 f a pp hf hna hg hTa =>
      rw [cValue_call fuel f [a] pp c hf] at hc
      obtain ⟨q, hq⟩ := curAt_eq c pp
      cases hcc : cCall (cValue fuel) {} (.sym f) [a] (curAt c pp) with
      | none => rw [hcc] at hc; simp [fin] at hc
      | some res =>
        obtain ⟨slot0, cq⟩ := res
        rw [hcc] at hc
        simp only [fin, Option.some.injEq, Prod.mk.injEq] at hc
        obtain ⟨hsl, hc'⟩ := hc
        subst hsl
        obtain ⟨head, c1, sa, c2, c3, cT, c4, c5, h1, h2, h3, hT, hE, hf1, hf2⟩ := cCall1_inv (cValue fuel) f a (curAt c pp) cq slot0 hcc
        rw [hq] at h1
        -- the head: a global function constant
        cases fuel with
        | zero => simp [cValue] at h1
        | succ fuel' =>
        have hs0 : ({ c with cur := q } : CState).scopes = sc :: rs := hs
        have hg0 : lookupSlot { c with cur := q } f = none := by
          rw [lookupSlot_ra c { c with cur := q } sc rs sc.ra hs (by rw [hs0])]; exact hg
        rw [cValue_sym, resolve_global _ f hg0] at h1
        have hgs : globalSlot { c with cur := q } f = some (constSlot { c with cur := q } (.cfun f)) := by
          unfold globalSlot at h1 ⊢
          split at h1 <;> simp_all [fin]
        rw [hgs] at h1
        simp only [fin, Option.some.injEq, Prod.mk.injEq] at h1
        obtain ⟨hh, hc1⟩ := h1
        obtain ⟨vals1, kf, k1, k2, k3, k4⟩ := kOf_spec' FF { c with cur := q } (.cfun f) trivial
        have cs : constSlot { c with cur := q } (.cfun f) = (cslot kf, { c with cur := q, vals := vals1 }) := by
          unfold constSlot; rw [k1]
        rw [cs] at hh hc1
        have hhead : head = cslot kf := hh.symm
        have hc1eq : c1 = { c with cur := q, vals := vals1 } := hc1.symm
        subst hhead hc1eq
        -- the argument
        have hs1 : ({ c with cur := q, vals := vals1 } : CState).scopes = sc :: rs := hs
        have hp1 : ({ c with cur := q, vals := vals1 } : CState).pools = pool :: ps := hp
        have hTa1 : TC { c with cur := q, vals := vals1 } a := TC.ra (ra := sc.ra) hs (by rw [hs1]) hTa
        have henv1 : EnvOK { c with cur := q, vals := vals1 } env s k.regs sc.ra := EnvOK.ra hs hs1 henv
        have hgl : lookupEnv env f = none := by
          rcases henv f with ⟨_, h⟩ | ⟨sl, r, a', u, h, _⟩
          · exact h
          · rw [hg] at h; exact absurd h (by simp)
        obtain ⟨n2, va, env_a, s_a, hn, hsa, happ⟩ := eval_call1_inv n cur env env' f a pp s s' v hf hgl hTa.notSplice hsem
        obtain ⟨ra2, more2, seg2, segm2, hc2, pv2, r1a, r3a, sok2, vm2⟩ :=
          ih a _ c2 sa sc rs pool ps (n2 + 1) (posOf cur pp) env env_a s s_a va k hs1 hp1 hl hTa1 h2 hsa hkw hka henv1
        -- c2, the state after the argument
        have hs2 : c2.scopes = { sc with ra := ra2 } :: rs := by rw [hc2]
        have hp2 : c2.pools = (pool ++ more2) :: ps := by rw [hc2]
        have hl2 : c2.lim ≤ 240 := by rw [hc2]; exact hl
        obtain ⟨ra3, more3, seg3, segm3, hc3, e3, m3, _, vm3⟩ :=
          push1 p f0 rest V P hP hK c2 c3 sa { sc with ra := ra2 } rs (pool ++ more2) ps hs2 hp2 hl2 sok2.sk h3
        have hs3 : c3.scopes = { sc with ra := ra3 } :: rs := by rw [hc3]
        have hp3 : c3.pools = ((pool ++ more2) ++ more3) :: ps := by rw [hc3]
        have hl3 : c3.lim ≤ 240 := by rw [hc3]; exact hl2
        obtain ⟨d, ra4, more4, seg4, segm4, hslot, hc4, d1, d2, d3, d4, d5, vm4⟩ :=
          callEmit p f0 rest V P hP hK c3 cT c4 slot0 (cslot kf) kf f hna { sc with ra := ra3 } rs ((pool ++ more2) ++ more3) ps
            hs3 hp3 hl3 rfl hT hE
        have hs4 : c4.scopes = { sc with ra := ra4 } :: rs := by rw [hc4]
        -- the frees
        rw [freeslot_const c5 (cslot kf) rfl] at hf2
        have hcq : c5 = cq := Option.some.inj hf2
        subst hcq
        have e3' : ∀ j, ra3.alloc j = ra2.alloc j := e3
        have d1' : ra3.alloc d = false := d1
        have d2' : ∀ j, ra4.alloc j = (if j = d then true else ra3.alloc j) := d2
        have m3' : ra2.max ≤ ra3.max := m3
        have d4' : ra3.max ≤ ra4.max := d4
        have hd240 : d < 240 := by
          have : c3.lim ≤ 240 := hl3
          omega
        have hd_sc : sc.ra.alloc d = false := by
          cases hh : sc.ra.alloc d with
          | false => rfl
          | true => have := r1a d hh; rw [← e3' d, d1'] at this; exact Bool.noConfusion this
        -- the final allocator
        have hfinal : ∃ ra5, c5 = { c4 with scopes := { sc with ra := ra5 } :: rs } ∧ ra5.max = ra4.max ∧
            (∀ r, sc.ra.alloc r = true → ra5.alloc r = true) ∧ ra5.alloc d = true := by
          have base : ∀ r, sc.ra.alloc r = true → ra4.alloc r = true := by
            intro r hr
            rw [d2' r]; split
            · rfl
            · rw [e3' r]; exact r1a r hr
          have hd4 : ra4.alloc d = true := by rw [d2' d]; simp
          rcases sok2 with ⟨hcf, _⟩ | ⟨_, hnm, _⟩ | ⟨hcf, hnm, da, hka', hda1, hda2, _⟩
          · rw [freeslot_const c4 sa hcf] at hf1
            exact ⟨ra4, by rw [← Option.some.inj hf1, hc4], rfl, base, hd4⟩
          · rw [freeslot_named c4 sa hnm] at hf1
            exact ⟨ra4, by rw [← Option.some.inj hf1, hc4], rfl, base, hd4⟩
          · rw [freeslot_loc c4 sa da { sc with ra := ra4 } rs hs4 hcf hnm hka'] at hf1
            refine ⟨ra4.unmark da, by rw [← Option.some.inj hf1], rfl, ?_, ?_⟩
            · intro r hr
              have hne : r ≠ da := by intro e; rw [e] at hr; rw [hr] at hda1; exact Bool.noConfusion hda1
              simp only [RA.unmark, hne, if_false]; exact base r hr
            · have hne : d ≠ da := by
                intro e
                rw [← e] at hda2
                rw [← e3' d, d1'] at hda2
                exact Bool.noConfusion hda2
              simp only [RA.unmark, hne, if_false]; exact hd4
        obtain ⟨ra5, hc5, hmax5, r15, hd5⟩ := hfinal
        refine ⟨ra5, more2 ++ more3 ++ more4, seg2 ++ seg3 ++ seg4, segm2 ++ segm3 ++ segm4, ?_, ?_, r15, ?_, ?_, ?_⟩
        · rw [← hc', hc5, hc4, hc3, hc2]
          simp [List.append_assoc]
        · rw [← hc', hc5, hc4, hc3]
          exact PrefA.trans k2 pv2
        · rw [hmax5]; exact Nat.le_trans r3a (Nat.le_trans m3' d4')
        · exact Or.inr (Or.inr ⟨by rw [hslot], by rw [hslot], d, by rw [hslot], hd_sc, hd5, hd240⟩)
        · intro hcode hpre hV hsz
          rw [hmax5] at hsz
          have hvals : c'.vals = c2.vals := by rw [← hc', hc5, hc4, hc3]
          rw [hvals] at hV
          have hcodeA : CodeAt (p.defs.getD f0.defIdx default).code k.pc seg2 := by
            rw [List.append_assoc] at hcode; exact hcode.left
          have hcodeB : CodeAt (p.defs.getD f0.defIdx default).code (k.pc + seg2.length) seg3 := by
            rw [List.append_assoc] at hcode; exact hcode.right.left
          have hcodeC : CodeAt (p.defs.getD f0.defIdx default).code (k.pc + seg2.length + seg3.length) seg4 := by
            rw [List.append_assoc] at hcode; exact hcode.right.right
          have hpreA : PrefL (pool ++ more2) P := by
            refine PrefL.trans ?_ hpre
            exact ⟨more3 ++ more4, by simp [List.append_assoc]⟩
          have hpreB : PrefL (pool ++ more2 ++ more3) P := by
            refine PrefL.trans ?_ hpre
            exact ⟨more4, by simp [List.append_assoc]⟩
          have hpreC : PrefL (pool ++ more2 ++ more3 ++ more4) P := by
            refine PrefL.trans ?_ hpre
            exact ⟨[], by simp [List.append_assoc]⟩
          obtain ⟨regs2, rch2, sz2, pr2, sv2⟩ := vm2 hcodeA hpreA hV (by omega)
          obtain ⟨regs3, rch3, sz3, pr3⟩ := vm3 { regs := regs2, pc := k.pc + seg2.length, args := #[], w := s_a.st.world } hcodeB hpreB
            (by show ra3.max < regs2.size; omega)
          have sz3' : regs3.size = regs2.size := sz3
          have hlit : litOf V kf = .cfun f := by
            rw [litOf_pref (PrefA.trans pv2 hV) kf k3]; exact k4
          have hargs : ((#[] : Array Value).push (slotVal V regs2 sa)).toList = [va] := by simp [sv2]
          obtain ⟨regs4, rch4, sz4, hv4, pr4⟩ := vm4
            { regs := regs3, pc := k.pc + seg2.length + seg3.length, args := (#[] : Array Value).push (slotVal V regs2 sa), w := s_a.st.world }
            s_a s' (n2 + 1) (posOf cur pp) v hcodeC hpreC (by show ra4.max < regs3.size; omega) rfl hlit (by rw [hargs]; exact happ)
          have sz4' : regs4.size = regs3.size := sz4
          refine ⟨regs4, ?_, by omega, ?_, ?_⟩
          · have e : k.pc + (seg2 ++ seg3 ++ seg4).length = k.pc + seg2.length + seg3.length + seg4.length := by
              simp [List.length_append]; omega
            rw [e]
            exact Reach.trans rch2 (Reach.trans rch3 rch4)
          · intro r hr
            have h2r : ra2.alloc r = true := r1a r hr
            have h3r : ra3.alloc r = true := by rw [e3' r]; exact h2r
            rw [pr4 r h3r, pr3 r h2r, pr2 r hr]
          · simp only [slotVal, hslot]; exact hv4
end

end JanetModel.Compile
