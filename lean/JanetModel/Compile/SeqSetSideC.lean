/- C02: side conditions of `set`, compile side: compiling a form of the fragment in which no `(def x …)` occurs appends to the
   innermost scope only pairs that are invisible or not named `x`, so `lk · x` is unchanged (parallel induction on top of
   `tf_shapeM_at`, same layout as `tf_maxM_at`). -/
import JanetModel.Compile.SeqShapeMaxR
import JanetModel.Compile.SeqSetSide
namespace JanetModel.Compile
open JanetModel.Emit JanetModel.Lang JanetModel.Bytecode.Exec JanetModel.Gen.Bytecode

/-- every pair is invisible or not named `xn` -/
def OKs (xn : String) (ns : List SymPair) : Prop := ∀ p, p ∈ ns → p.visible = false ∨ p.name ≠ xn

theorem OKs.nil (xn : String) : OKs xn [] := fun p hp => by simp at hp

theorem OKs.single {xn : String} (p : SymPair) (h : p.name ≠ xn) : OKs xn [p] := fun q hq => by
  simp only [List.mem_singleton] at hq; rw [hq]; exact Or.inr h

theorem OKs.append {xn : String} {a b : List SymPair} (ha : OKs xn a) (hb : OKs xn b) : OKs xn (a ++ b) := fun p hp => by
  rcases List.mem_append.mp hp with h | h
  · exact ha p h
  · exact hb p h

theorem OKs.of_invisible {xn : String} {a : List SymPair} (h : ∀ q, q ∈ a → q.visible = false) : OKs xn a := fun p hp => Or.inl (h p hp)

theorem findSym_append_oks (x : String) : ∀ (kept syms : List SymPair), OKs x kept → findSym (syms ++ kept) x = findSym syms x
  | [], syms, _ => by simp
  | k :: ks, syms, h => by
    have e : syms ++ k :: ks = (syms ++ [k]) ++ ks := by simp
    rw [e, findSym_append_oks x ks (syms ++ [k]) (fun p hp => h p (by simp [hp])), findSym_snoc]
    have : (k.visible && k.name == x) = false := by
      rcases h k (by simp) with hv | hn
      · simp [hv]
      · have : (k.name == x) = false := by
          cases hb : (k.name == x) with
          | false => rfl
          | true => exact absurd (beq_iff_eq.mp hb) hn
        simp [this]
    simp [this]

theorem lk_append_oks (sc : Scope) (rs : List Scope) (kept : List SymPair) (x : String) (hk : OKs x kept) (ra' : RA) :
    lk ({ sc with ra := ra', syms := sc.syms ++ kept } :: rs) x = lk (sc :: rs) x := by
  simp only [lk, lookupR, findSym_append_oks x kept sc.syms hk]
  cases hf : findSym sc.syms x with
  | some i => simp only [getD_append_lt sc.syms kept i (findSym_lt _ _ _ hf)]
  | none => rfl

/-- from `c` to `c'` the innermost scope (scopes below: `rs`) got only pairs that are invisible or not named `xn` -/
def SyR (xn : String) (c c' : CState) (rs : List Scope) : Prop :=
  ∀ sc sc', c.scopes = sc :: rs → c'.scopes = sc' :: rs → ∃ ns, sc'.syms = sc.syms ++ ns ∧ OKs xn ns

theorem SyR.of_eq {xn : String} {c c' : CState} {rs : List Scope} (h : c'.scopes = c.scopes) : SyR xn c c' rs := by
  intro sc sc' a b
  rw [h, a] at b
  rw [(List.cons.inj b).1]
  exact ⟨[], by simp, OKs.nil xn⟩

theorem SyR.refl {xn : String} (c : CState) (rs : List Scope) : SyR xn c c rs := SyR.of_eq rfl

theorem SyR.trans {xn : String} {c c1 c2 : CState} {rs : List Scope} {sc1 : Scope} (h1 : SyR xn c c1 rs) (hs1 : c1.scopes = sc1 :: rs)
    (h2 : SyR xn c1 c2 rs) : SyR xn c c2 rs := by
  intro sc sc' a b
  obtain ⟨n1, e1, o1⟩ := h1 sc sc1 a hs1
  obtain ⟨n2, e2, o2⟩ := h2 sc1 sc' hs1 b
  exact ⟨n1 ++ n2, by rw [e2, e1, List.append_assoc], o1.append o2⟩

theorem SyR.of_ra {xn : String} {c c' : CState} {sc : Scope} {rs : List Scope} {ra' : RA} {ns : List SymPair} (hs : c.scopes = sc :: rs)
    (hs' : c'.scopes = { sc with ra := ra', syms := sc.syms ++ ns } :: rs) (h : OKs xn ns) : SyR xn c c' rs := by
  intro sc0 sc0' a b
  rw [hs] at a
  rw [hs'] at b
  rw [← (List.cons.inj a).1, ← (List.cons.inj b).1]
  exact ⟨ns, rfl, h⟩

theorem StepR.sy {c c' : CState} {sc : Scope} {rs : List Scope} {pool : List KConst} {ps : List (List KConst)}
    (h : StepR c c' sc rs pool ps) (xn : String) (hs : c.scopes = sc :: rs) : SyR xn c c' rs := by
  obtain ⟨ra', more, seg, segm, hc, _⟩ := h
  exact SyR.of_ra (ra' := ra') (ns := []) hs (by rw [hc]; simp) (OKs.nil xn)

theorem block_syR (xn : String) (G : String → Prop) (c c2 c3 : CState) (sc : Scope) (rs : List Scope) (pool : List KConst) (ps : List (List KConst))
    (hs : c.scopes = sc :: rs)
    (h : Shp G { c with scopes := blk c sc false :: sc :: rs } c2 (blk c sc false) (sc :: rs) pool ps) (hpop : popScope c2 = some c3) :
    SyR xn c c3 rs := by
  obtain ⟨ra3, ns3, more, seg, segm, hc3, _, _, hinv, _, _⟩ := pop_shape2 G c c2 c3 sc rs pool ps h hpop
  exact SyR.of_ra hs (by rw [hc3]) (OKs.of_invisible hinv)

theorem blockKeep_syR (xn : String) (G : String → Prop) (c c2 c3 : CState) (r : JSlot) (sc : Scope) (rs : List Scope) (pool : List KConst)
    (ps : List (List KConst)) (hs : c.scopes = sc :: rs)
    (h : Shp G { c with scopes := blk c sc false :: sc :: rs } c2 (blk c sc false) (sc :: rs) pool ps) (hpop : popScopeKeep c2 r = some c3) :
    SyR xn c c3 rs := by
  obtain ⟨ra2, ns2, more2, seg2, segm2, hc2, _, _, _⟩ := h
  have hs2 : c2.scopes = { blk c sc false with ra := ra2, syms := (blk c sc false).syms ++ ns2 } :: sc :: rs := by rw [hc2]
  obtain ⟨raX, hc3, _, _, _⟩ := popScopeKeep_block c2 c3 r _ sc rs hs2 rfl rfl rfl hpop
  refine SyR.of_ra hs (by rw [hc3]) (OKs.of_invisible (fun q hq => ?_))
  obtain ⟨q0, _, hq0⟩ := List.mem_map.mp hq
  rw [← hq0]

/-- the statement at compile fuel `fuel` -/
def SyAt (xn : String) (G : String → Prop) (fuel : Nat) : Prop :=
  ∀ (b : Bool) (e : Expr) (opts : Fopts) (c c' : CState) (slot : JSlot) (sc : Scope) (rs : List Scope) (pool : List KConst) (ps : List (List KConst)),
    opts.tail = false → opts.hint = none → c.scopes = sc :: rs → c.pools = pool :: ps → sc.top = false → c.map.length = c.buf.length →
    TF G b e → NoBind xn e → LkL G c.scopes → cValue fuel opts e c = some (slot, c') → SyR xn c c' rs

theorem toSlots_syR (xn : String) (G : String → Prop) (fuel : Nat) (IH : SyAt xn G fuel) (b : Bool) : ∀ (args : List Expr), (∀ a, a ∈ args → TF G b a) → (∀ a, a ∈ args → NoBind xn a) →
    ∀ (c c' : CState) (slots : List JSlot) (sc : Scope) (rs : List Scope) (pool : List KConst) (ps : List (List KConst)),
      c.scopes = sc :: rs → c.pools = pool :: ps → sc.top = false → c.map.length = c.buf.length → LkL G c.scopes →
      toSlots (cValue fuel) args c = some (slots, c') → SyR xn c c' rs := by
  intro args
  induction args with
  | nil =>
    intro _ _ c c' slots sc rs pool ps _ _ _ _ _ h
    simp only [toSlots, Option.some.injEq, Prod.mk.injEq] at h
    rw [← h.2]; exact SyR.refl c rs
  | cons a as ih =>
    intro hT hN c c' slots sc rs pool ps hs hp htop hm hL h
    simp only [toSlots, Option.bind_eq_bind, Option.bind_eq_some_iff, Prod.exists, Option.pure_def, Option.some.injEq, Prod.mk.injEq] at h
    obtain ⟨sl1, c1, hx, ss, c2, hrest, _, hc2⟩ := h
    rw [← hc2]
    have S1 := (tf_shapeM_at G fuel b a {} c c1 sl1 sc rs pool ps rfl rfl hs hp htop hm (hT a (by simp)) hL hx).1
    obtain ⟨sc1, pool1, hs1, hp1, ht1, hL1, _⟩ := S1.out
    exact (IH b a {} c c1 sl1 sc rs pool ps rfl rfl hs hp htop hm (hT a (by simp)) (hN a (by simp)) hL hx).trans hs1
      (ih (fun e he => hT e (by simp [he])) (fun e he => hN e (by simp [he])) c1 c2 ss sc1 rs pool1 ps hs1 hp1 (by rw [ht1]; exact htop) (S1.mapLen hm) hL1 hrest)

theorem cCall_syR (xn : String) (G : String → Prop) (fuel : Nat) (IH : SyAt xn G fuel) (b : Bool) (f : String) (args : List Expr)
    (hTa : ∀ a, a ∈ args → TF G b a) (hNa : ∀ a, a ∈ args → NoBind xn a) (c cq : CState) (slot : JSlot) (sc : Scope) (rs : List Scope) (pool : List KConst) (ps : List (List KConst))
    (hs : c.scopes = sc :: rs) (hp : c.pools = pool :: ps) (htop : sc.top = false) (hm : c.map.length = c.buf.length) (hL : LkL G c.scopes)
    (h : cCall (cValue fuel) {} (.sym f) args c = some (slot, cq)) : SyR xn c cq rs := by
  obtain ⟨head, c1, slots, c2, c3, cT, c4, c5, h1, h2, h3, hT, hEm, hf1, hf2⟩ := cCall_steps (cValue fuel) f args c cq slot h
  have S1 := (tf_shapeM_at G fuel b (.sym f) {} c c1 head sc rs pool ps rfl rfl hs hp htop hm (.sym f) hL h1).1
  obtain ⟨sc1, pool1, hs1, hp1, ht1, hL1, _⟩ := S1.out
  have hm1 := S1.mapLen hm
  have htop1 : sc1.top = false := by rw [ht1]; exact htop
  have S2 := toSlots_shapeM G fuel (tf_shapeM_at G fuel) b args hTa c1 c2 slots sc1 rs pool1 ps hs1 hp1 htop1 hm1 hL1 h2
  obtain ⟨sc2, pool2, hs2, hp2, _, _, _⟩ := S2.out
  obtain ⟨sc3, pool3, hs3, hp3, _, _⟩ := (pushSlots_stepR slots c2 c3 sc2 rs pool2 ps hs2 hp2 h3).out
  obtain ⟨sc4, pool4, hs4, hp4, _, _⟩ := (getTarget_stepR c3 cT {} slot rfl sc3 rs pool3 ps hs3 hp3 hT).out
  obtain ⟨sc5, pool5, hs5, hp5, _, _⟩ := (emitSS_stepR cT c4 _ slot head true sc4 rs pool4 ps hs4 hp4 hEm).out
  obtain ⟨sc6, pool6, hs6, hp6, _, _⟩ := (freeslots_stepR slots c4 c5 sc5 rs pool5 ps hs5 hp5 hf1).out
  have M1 := IH b (.sym f) {} c c1 head sc rs pool ps rfl rfl hs hp htop hm (.sym f) (.sym f) hL h1
  have M2 := toSlots_syR xn G fuel IH b args hTa hNa c1 c2 slots sc1 rs pool1 ps hs1 hp1 htop1 hm1 hL1 h2
  have M3 := (pushSlots_stepR slots c2 c3 sc2 rs pool2 ps hs2 hp2 h3).sy xn hs2
  have M4 := (getTarget_stepR c3 cT {} slot rfl sc3 rs pool3 ps hs3 hp3 hT).sy xn hs3
  have M5 := (emitSS_stepR cT c4 _ slot head true sc4 rs pool4 ps hs4 hp4 hEm).sy xn hs4
  have M6 := (freeslots_stepR slots c4 c5 sc5 rs pool5 ps hs5 hp5 hf1).sy xn hs5
  have M7 := (freeslot_stepR c5 cq head sc6 rs pool6 ps hs6 hp6 hf2).sy xn hs6
  exact M1.trans hs1 (M2.trans hs2 (M3.trans hs3 (M4.trans hs4 (M5.trans hs5 (M6.trans hs6 M7)))))

theorem doBody_syR (xn : String) (G : String → Prop) (fuel : Nat) (IH : SyAt xn G fuel) (b : Bool) : ∀ (body : List Expr), (∀ e, e ∈ body → TF G b e) → (∀ e, e ∈ body → NoBind xn e) →
    ∀ (opts : Fopts) (c c' : CState) (slot : JSlot) (sc : Scope) (rs : List Scope) (pool : List KConst) (ps : List (List KConst)),
      opts.tail = false → opts.hint = none → c.scopes = sc :: rs → c.pools = pool :: ps → sc.top = false → c.map.length = c.buf.length →
      LkL G c.scopes → doBody (cValue fuel) opts body c = some (slot, c') → SyR xn c c' rs := by
  intro body
  induction body with
  | nil =>
    intro _ _ opts c c' slot sc rs pool ps _ _ _ _ _ _ _ h
    simp only [doBody, Option.some.injEq, Prod.mk.injEq] at h
    rw [← h.2]; exact SyR.refl c rs
  | cons x t ih =>
    intro hT hN opts c c' slot sc rs pool ps ht hh hs hp htop hm hL h
    cases t with
    | nil =>
      simp only [doBody] at h
      exact IH b x opts c c' slot sc rs pool ps ht hh hs hp htop hm (hT x (by simp)) (hN x (by simp)) hL h
    | cons y r =>
      simp only [doBody, Option.bind_eq_bind, Option.bind_eq_some_iff, Prod.exists] at h
      obtain ⟨sl1, c1, hx, c1f, hf, hrest⟩ := h
      have S1 := (tf_shapeM_at G fuel b x { drop := true } c c1 sl1 sc rs pool ps rfl rfl hs hp htop hm (hT x (by simp)) hL hx).1
      obtain ⟨sc1, pool1, hs1, hp1, ht1, hL1, _⟩ := S1.out
      have S2 := (freeslot_stepR c1 c1f sl1 sc1 rs pool1 ps hs1 hp1 hf).shp hs1 hL1
      obtain ⟨sc2, pool2, hs2, hp2, ht2, hL2, _⟩ := S2.out
      have M1 := IH b x { drop := true } c c1 sl1 sc rs pool ps rfl rfl hs hp htop hm (hT x (by simp)) (hN x (by simp)) hL hx
      have M2 := (freeslot_stepR c1 c1f sl1 sc1 rs pool1 ps hs1 hp1 hf).sy xn hs1
      have M3 := ih (fun e he => hT e (by simp [he])) (fun e he => hN e (by simp [he])) opts c1f c' slot sc2 rs pool2 ps ht hh hs2 hp2
        (by rw [ht2, ht1]; exact htop) (S2.mapLen (S1.mapLen hm)) hL2 hrest
      exact M1.trans hs1 (M2.trans hs2 M3)

theorem namelocal_fresh_syR (xn : String) (c c2 : CState) (name : String) (hne : name ≠ xn) (r : JSlot) (mf : Bool) (sc : Scope) (rs : List Scope)
    (pool : List KConst) (ps : List (List KConst)) (hs : c.scopes = sc :: rs) (hp : c.pools = pool :: ps)
    (h : (do let (ls, c1) ← farslot c
             let c2 ← copySlot c1 ls r
             pure (nameslot c2 name { ls with mutable := mf })) = some c2) : SyR xn c c2 rs := by
  simp only [Option.bind_eq_bind, Option.bind_eq_some_iff, Prod.exists, Option.pure_def, Option.some.injEq] at h
  obtain ⟨ls, c1a, h1, c1b, h2, h3⟩ := h
  rw [farslot_eq] at h1
  have R1 := getTarget_stepR c c1a {} ls rfl sc rs pool ps hs hp h1
  obtain ⟨sc1, pool1, hs1, hp1, _, _⟩ := R1.out
  have R2 := copySlot_stepR c1a c1b ls r sc1 rs pool1 ps hs1 hp1 h2
  obtain ⟨sc2, pool2, hs2, hp2, _, _⟩ := R2.out
  have M1 := R1.sy xn hs
  have M2 := R2.sy xn hs1
  have M3 : SyR xn c1b c2 rs := by
    rw [← h3]
    exact SyR.of_ra hs2 (nameslot_scopes c1b name _ sc2 rs hs2) (OKs.single _ hne)
  exact M1.trans hs1 (M2.trans hs2 M3)

theorem namelocal_syR (xn : String) (c c2 : CState) (name : String) (hne : name ≠ xn) (r : JSlot) (sc : Scope) (rs : List Scope)
    (pool : List KConst) (ps : List (List KConst)) (hs : c.scopes = sc :: rs) (hp : c.pools = pool :: ps)
    (hsl : SlotSh r) (h : namelocal c name false r = some c2) : SyR xn c c2 rs := by
  obtain ⟨k, cf, nm, mu, ret⟩ := r
  rcases hsl with ⟨_, kc, hk⟩ | ⟨hcf, r0, hk⟩
  · simp only at hk; subst hk
    have hX : namelocal c name false { k := .const kc, cflag := cf, named := nm, mutable := mu, returned := ret } =
        (do let (ls, c1) ← farslot c
            let c2 ← copySlot c1 ls { k := .const kc, cflag := cf, named := nm, mutable := mu, returned := ret }
            pure (nameslot c2 name { ls with mutable := false })) := by
      simp [namelocal]
    rw [hX] at h
    exact namelocal_fresh_syR xn c c2 name hne _ false sc rs pool ps hs hp h
  · simp only at hk hcf; subst hk hcf
    by_cases hal : nm = true ∧ mu = false
    · obtain ⟨e1, e2⟩ := hal
      subst e1 e2
      simp [namelocal] at h
      rw [← h]
      exact SyR.of_ra hs (nameslot_scopes c name _ sc rs hs) (OKs.single _ hne)
    · have hX : namelocal c name false { k := .loc r0, cflag := false, named := nm, mutable := mu, returned := ret } =
          (do let (ls, c1) ← farslot c
              let c2 ← copySlot c1 ls { k := .loc r0, cflag := false, named := nm, mutable := mu, returned := ret }
              pure (nameslot c2 name { ls with mutable := false })) := by
        cases nm <;> cases mu <;> simp_all [namelocal]
      rw [hX] at h
      exact namelocal_fresh_syR xn c c2 name hne _ false sc rs pool ps hs hp h

/-- `if`: the target is allocated in the scope at entry, everything else happens in a block scope that is popped -/
theorem if_syR (xn : String) (G : String → Prop) (fuel : Nat) (b : Bool) (cnd tb fb : Expr)
    (hTc : TF G b cnd) (hTt : TF G b tb) (hTf : TF G b fb) (opts : Fopts) (ht : opts.tail = false) (hh : opts.hint = none)
    (c c' : CState) (slot : JSlot) (sc : Scope) (rs : List Scope) (pool : List KConst) (ps : List (List KConst))
    (hs : c.scopes = sc :: rs) (hp : c.pools = pool :: ps) (hm : c.map.length = c.buf.length) (hL : LkL G c.scopes)
    (hc : cIfBody (cValue fuel) opts cnd tb fb c = some (slot, c')) : SyR xn c c' rs := by
  have IH := tf_shapeM_at G fuel
  obtain ⟨target, c1, cond, c3, hT, hcond, hrest⟩ := cIfBody_inv _ opts cnd tb fb c c' slot hc
  have hT' : StepR c c1 sc rs pool ps ∧ SyR xn c c1 rs := by
    split at hT
    · simp only [Option.some.injEq, Prod.mk.injEq] at hT
      rw [← hT.2]
      exact ⟨StepR.refl c sc rs pool ps hs hp, SyR.refl c rs⟩
    · exact ⟨getTarget_stepR c c1 opts target hh sc rs pool ps hs hp hT, (getTarget_stepR c c1 opts target hh sc rs pool ps hs hp hT).sy xn hs⟩
  obtain ⟨R0, M0⟩ := hT'
  have S0 := R0.shp hs hL
  have hm1 := R0.mapLen hm
  obtain ⟨sc1, pool1, hs1, hp1, _, hL1, _⟩ := S0.out
  rw [pushScope_blk c1 sc1 rs false hs1] at hcond
  have hLP : LkL G (blk c1 sc1 false :: sc1 :: rs) := by
    rw [hs1] at hL1; exact hL1.push _ rfl rfl
  obtain ⟨S1, _⟩ := IH b cnd {} { c1 with scopes := blk c1 sc1 false :: sc1 :: rs } c3 cond (blk c1 sc1 false) (sc1 :: rs) pool1 ps
    rfl rfl rfl hp1 rfl hm1 hTc hLP hcond
  have hm3 : c3.map.length = c3.buf.length := S1.mapLen hm1
  obtain ⟨sc3, pool3, hs3, hp3, _, hL3, _⟩ := S1.out
  cases hk : isConstSlot cond with
  | some k =>
    rw [hk] at hrest
    simp only at hrest
    obtain ⟨right, c5, c6, c7, c8, e1, e2, e3, e4, e5, _⟩ := cIfConst_inv _ _ _ _ _ _ _ _ _ hrest
    have hTl : TF G b (if constTruthy k then tb else fb) := by split <;> assumption
    have hTd : TF G b (if constTruthy k then fb else tb) := by split <;> assumption
    obtain ⟨dead, hdead⟩ : ∃ d, d = (if constTruthy k then fb else tb) := ⟨_, rfl⟩
    rw [← hdead] at e4 hTd
    have S7 := branch_shapeM G fuel IH b _ hTl opts ht hh target c3 c5 c6 c7 right sc3 (sc1 :: rs) pool3 ps hs3 hp3 hm3 hL3 e1 e2 e3
    have hm7 := S7.mapLen hm3
    obtain ⟨sc7, pool7, hs7, hp7, _, hL7, _⟩ := S7.out
    have S8 : Shp G c7 c8 sc7 (sc1 :: rs) pool7 ps := by
      split at e4
      · rw [← Option.some.inj e4]; exact Shp.refl hs7 hp7 hL7
      · refine throwaway_shape G _ opts _ c7 c8 sc7 (sc1 :: rs) pool7 ps hs7 hL7 hm7 (fun c2 sl h => ?_) e4
        have hLT : LkL G (blk c7 sc7 true :: sc7 :: sc1 :: rs) := by
          rw [hs7] at hL7; exact hL7.push _ rfl rfl
        exact (IH b _ opts { c7 with scopes := blk c7 sc7 true :: sc7 :: sc1 :: rs } c2 sl (blk c7 sc7 true) (sc7 :: sc1 :: rs) pool7 ps
          ht hh rfl hp7 rfl hm7 hTd hLT h).1
    have Sblock := S1.trans' hs3 hp3 (S7.trans' hs7 hp7 S8)
    exact M0.trans hs1 (block_syR xn G c1 c8 c' sc1 rs pool1 ps hs1 Sblock e5)
  | none =>
    rw [hk] at hrest
    simp only at hrest
    obtain ⟨c4, left, c6, c7, c8, right, c11, c12, c13, c14, e1, e2, e3, e4, e5, e6, e7, e8, _, _, _, _, ec'⟩ :=
      cIfJump_inv _ _ _ _ _ _ _ _ _ _ hrest
    obtain ⟨R4, _⟩ := emitSI_stepR c3 c4 _ cond 0 false sc3 (sc1 :: rs) pool3 ps hs3 hp3 e1
    have S4 := R4.shp hs3 hL3
    have hm4 := R4.mapLen hm3
    obtain ⟨sc4, pool4, hs4, hp4, _, hL4, _⟩ := S4.out
    have S8 := branch_shapeM G fuel IH b tb hTt opts ht hh target c4 c6 c7 c8 left sc4 (sc1 :: rs) pool4 ps hs4 hp4 hm4 hL4 e2 e3 e4
    have hm8 := S8.mapLen hm4
    obtain ⟨sc8, pool8, hs8, hp8, _, hL8, _⟩ := S8.out
    have R9 : StepR c8 (ifJmp (opts.drop && fbNilOf fb) c8) sc8 (sc1 :: rs) pool8 ps := by
      unfold ifJmp
      split
      · exact StepR.refl c8 sc8 _ pool8 ps hs8 hp8
      · exact emitRaw_stepR c8 _ sc8 _ pool8 ps hs8 hp8
    have S9 := R9.shp hs8 hL8
    have hm9 := R9.mapLen hm8
    obtain ⟨sc9, pool9, hs9, hp9, _, hL9, _⟩ := S9.out
    have S13 := branch_shapeM G fuel IH b fb hTf opts ht hh target _ c11 c12 c13 right sc9 (sc1 :: rs) pool9 ps hs9 hp9 hm9 hL9 e5 e6 e7
    have Sblock := S1.trans' hs3 hp3 (S4.trans' hs4 hp4 (S8.trans' hs8 hp8 (S9.trans' hs9 hp9 S13)))
    have M14 := block_syR xn G c1 c13 c14 sc1 rs pool1 ps hs1 Sblock e8
    have : SyR xn c c14 rs := M0.trans hs1 M14
    rw [ec']
    exact fun sc0 sc0' a b => this sc0 sc0' a b

theorem tf_sy_at (xn : String) (G : String → Prop) : ∀ fuel, SyAt xn G fuel := by
  intro fuel
  induction fuel with
  | zero =>
    intro b e opts c c' slot sc rs pool ps _ _ _ _ _ _ _ _ _ hc
    simp [cValue] at hc
  | succ fuel ih =>
    intro b e opts c c' slot sc rs pool ps ht hh hs hp htop hm hT hN hL hc
    cases hT with
    | lit w hw =>
      rw [cValue_lit_o fuel opts ht hh w hw c] at hc
      simp only [Option.some.injEq, Prod.mk.injEq] at hc
      rw [← hc.2]
      exact SyR.of_eq (by show (kOf c w).2.scopes = _; rw [(kOf_shape c w).1])
    | sym x =>
      rw [cValue_sym_o fuel opts ht hh] at hc
      cases hlk : lk c.scopes x with
      | none =>
        rw [resolve_global c x (by rw [lookupSlot_lk]; exact hlk)] at hc
        have hg : globalSlot c x = some (constSlot c (.cfun x)) := by
          unfold globalSlot at hc ⊢
          split at hc <;> simp_all [fin]
        rw [hg] at hc
        simp only [fin, Option.some.injEq, Prod.mk.injEq] at hc
        rw [← hc.2]
        exact SyR.of_eq (by show (kOf c (.cfun x)).2.scopes = _; rw [(kOf_shape c (.cfun x)).1])
      | some r =>
        obtain ⟨sl, u, l⟩ := r
        obtain ⟨hl, hcf, _, _⟩ := hL.2 x sl u l hlk
        subst hl
        rw [resolve_local c x sl u (by rw [lookupSlot_lk]; exact hlk) hcf] at hc
        simp only [fin, Option.some.injEq, Prod.mk.injEq] at hc
        rw [← hc.2]
        exact SyR.of_eq rfl
    | call f args pp hf hna hG hTa =>
      cases hN with
      | form _ _ hall hdef =>
      rw [cValue_call_o fuel opts ht hh f args pp c hf] at hc
      obtain ⟨q, hq⟩ := curAt_eq c pp
      cases hcc : cCall (cValue fuel) {} (.sym f) args (curAt c pp) with
      | none => rw [hcc] at hc; simp [fin] at hc
      | some res =>
        obtain ⟨slot0, cq⟩ := res
        rw [hcc] at hc
        simp only [fin, Option.some.injEq, Prod.mk.injEq] at hc
        rw [← hc.2]
        rw [hq] at hcc
        have := cCall_syR xn G fuel ih b f args hTa (fun a ha => hall a (List.mem_cons_of_mem _ ha)) { c with cur := q } cq slot0 sc rs pool ps hs hp htop hm hL hcc
        exact fun sc0 sc0' a b => this sc0 sc0' a b
    | doo body pp hTb =>
      rw [cValue_do_o fuel opts ht hh body pp c] at hc
      obtain ⟨q, hq⟩ := curAt_eq c pp
      cases hcc : cDo (cValue fuel) opts body (curAt c pp) with
      | none => rw [hcc] at hc; simp [fin] at hc
      | some res =>
        obtain ⟨slot0, cq⟩ := res
        rw [hcc] at hc
        simp only [fin, Option.some.injEq, Prod.mk.injEq] at hc
        rw [← hc.2]
        rw [hq] at hcc
        simp only [cDo, Option.bind_eq_bind, Option.bind_eq_some_iff, Prod.exists, Option.pure_def, Option.some.injEq, Prod.mk.injEq] at hcc
        obtain ⟨r, c2, hbody, c3, hpop, _, hc3⟩ := hcc
        rw [← hc3]
        rw [pushScope_blk { c with cur := q } sc rs false hs] at hbody
        have hLP : LkL G (blk { c with cur := q } sc false :: sc :: rs) := by
          rw [hs] at hL; exact hL.push _ rfl rfl
        obtain ⟨S1, _⟩ := doBody_shapeM G fuel (tf_shapeM_at G fuel) b body hTb opts
          { ({ c with cur := q } : CState) with scopes := blk { c with cur := q } sc false :: sc :: rs } c2 r (blk { c with cur := q } sc false)
          (sc :: rs) pool ps ht hh rfl hp rfl hm hLP hbody
        have := blockKeep_syR xn G { c with cur := q } c2 c3 r sc rs pool ps hs S1 hpop
        exact fun sc0 sc0' a b => this sc0 sc0' a b
    | ups body pp hTb =>
      cases hN with
      | form _ _ hall hdef =>
      rw [cValue_upscope_o fuel opts ht hh body pp c] at hc
      obtain ⟨q, hq⟩ := curAt_eq c pp
      cases hcc : doBody (cValue fuel) opts body (curAt c pp) with
      | none => rw [hcc] at hc; simp [fin] at hc
      | some res =>
        obtain ⟨slot0, cq⟩ := res
        rw [hcc] at hc
        simp only [fin, Option.some.injEq, Prod.mk.injEq] at hc
        rw [← hc.2]
        rw [hq] at hcc
        have := doBody_syR xn G fuel ih b body hTb (fun a ha => hall a (List.mem_cons_of_mem _ ha)) opts { c with cur := q } cq slot0 sc rs pool ps ht hh hs hp htop hm hL hcc
        exact fun sc0 sc0' a b => this sc0 sc0' a b
    | deff x ve pp hGx hTv =>
      cases hN with
      | form _ _ hall hdef =>
      rw [cValue_def_o fuel opts ht hh x ve pp c] at hc
      obtain ⟨q, hq⟩ := curAt_eq c pp
      cases hcc : cDef (cValue fuel) x ve (curAt c pp) with
      | none => rw [hcc] at hc; simp [fin] at hc
      | some res =>
        obtain ⟨slot0, cq⟩ := res
        rw [hcc] at hc
        simp only [fin, Option.some.injEq, Prod.mk.injEq] at hc
        rw [← hc.2]
        rw [hq] at hcc
        have hct : curTop ({ c with cur := q } : CState) = false := by simp [curTop, hs, htop]
        simp only [cDef, hct, Bool.false_eq_true, if_false, Option.bind_eq_bind, Option.bind_eq_some_iff, Prod.exists, Option.pure_def,
          Option.some.injEq, Prod.mk.injEq] at hcc
        obtain ⟨r, c1, hv, c2, hnl, _, hc2⟩ := hcc
        rw [← hc2]
        obtain ⟨S1, hsl⟩ := tf_shapeM_at G fuel b ve {} { c with cur := q } c1 r sc rs pool ps rfl rfl hs hp htop hm hTv hL hv
        obtain ⟨sc1, pool1, hs1, hp1, _, _, _⟩ := S1.out
        have M1 := ih b ve {} { c with cur := q } c1 r sc rs pool ps rfl rfl hs hp htop hm hTv (hall ve (by simp)) hL hv
        have := M1.trans hs1 (namelocal_syR xn c1 c2 x (hdef x [ve] rfl) r sc1 rs pool1 ps hs1 hp1 hsl hnl)
        exact fun sc0 sc0' a b => this sc0 sc0' a b
    | iff cnd tb rest pp _ _ hlen hTc hTt hTe =>
      rw [cValue_if_o fuel opts ht hh cnd tb rest pp c, cIf_le1 _ _ _ _ _ _ hlen] at hc
      obtain ⟨q, hq⟩ := curAt_eq c pp
      cases hcc : cIfBody (cValue fuel) opts cnd tb (rest.headD (.lit .nil)) (curAt c pp) with
      | none => rw [hcc] at hc; simp [fin] at hc
      | some res =>
        obtain ⟨slot0, cq⟩ := res
        rw [hcc] at hc
        simp only [fin, Option.some.injEq, Prod.mk.injEq] at hc
        rw [← hc.2]
        rw [hq] at hcc
        have hTf : TF G b (rest.headD (.lit .nil)) := by
          cases rest with
          | nil => exact .lit .nil trivial
          | cons e _ => exact hTe e (by simp)
        have := if_syR xn G fuel b cnd tb _ hTc hTt hTf opts ht hh { c with cur := q } cq slot0 sc rs pool ps hs hp hm hL hcc
        exact fun sc0 sc0' a b => this sc0 sc0' a b


/-- compile side (un-hinted, non-tail): a form of the fragment without `(def x …)` leaves `lk · x` alone -/
theorem nobind_lk (G : String → Prop) (b : Bool) (x : String) (fuel : Nat) (e : Expr) (opts : Fopts) (c c' : CState) (slot : JSlot) (sc : Scope)
    (rs : List Scope) (pool : List KConst) (ps : List (List KConst))
    (ht : opts.tail = false) (hh : opts.hint = none) (hs : c.scopes = sc :: rs) (hp : c.pools = pool :: ps) (htop : sc.top = false)
    (hm : c.map.length = c.buf.length) (hT : TF G b e) (hN : NoBind x e) (hL : LkL G c.scopes) (hc : cValue fuel opts e c = some (slot, c')) :
    lk c'.scopes x = lk c.scopes x := by
  obtain ⟨S, _⟩ := tf_shapeM_at G fuel b e opts c c' slot sc rs pool ps ht hh hs hp htop hm hT hL hc
  obtain ⟨ra', nsyms, more, seg, segm, hc', _, _, _⟩ := S
  have hs' : c'.scopes = { sc with ra := ra', syms := sc.syms ++ nsyms } :: rs := by rw [hc']
  obtain ⟨ns, e1, o1⟩ := tf_sy_at x G fuel b e opts c c' slot sc rs pool ps ht hh hs hp htop hm hT hN hL hc sc _ hs hs'
  have : nsyms = ns := List.append_cancel_left e1
  rw [hs', hs, this]
  exact lk_append_oks sc rs ns x o1 ra'

end JanetModel.Compile
