/- C02: compile correctness, tail position: the compile-only fact `NRAt` (Compile/SeqTailRet.lean) the tail induction
   (Compile/SeqTailAll.lean) uses — the NON-tail compile of a form of the fragment `TF G false` yields a slot that is not flagged RETURNED and
   binds no name to a slot flagged RETURNED (the flag is set by `janetc_return` only, on the copy of the slot it hands back;
   `namelocal` names either the value's slot or a fresh register).  By induction on the compile fuel, without semantics, on
   top of the shape theorem (Compile/SeqShapeM.lean), which provides the state between the steps. -/
import JanetModel.Compile.SeqTailRet
namespace JanetModel.Compile
open JanetModel.Emit JanetModel.Lang JanetModel.Bytecode.Exec JanetModel.Gen.Bytecode

/-- a step that changes only the innermost allocator keeps the symbol table -/
theorem StepR.lk {c c' : CState} {sc : Scope} {rs : List Scope} {pool : List KConst} {ps : List (List KConst)}
    (h : StepR c c' sc rs pool ps) (hs : c.scopes = sc :: rs) : ∀ x, lk c'.scopes x = lk c.scopes x := by
  obtain ⟨ra', more, seg, segm, hc, _⟩ := h
  intro x
  rw [hc, hs]
  rfl

/-- the statement of this file at compile fuel `fuel`, with the invariant of the shape theorem -/
def NRL (G : String → Prop) (fuel : Nat) : Prop :=
  ∀ (e : Expr) (opts : Fopts) (c c' : CState) (slot : JSlot) (sc : Scope) (rs : List Scope) (pool : List KConst) (ps : List (List KConst)),
    opts.tail = false → opts.hint = none → c.scopes = sc :: rs → c.pools = pool :: ps → sc.top = false → c.map.length = c.buf.length →
    TF G false e → LkL G c.scopes → NR c.scopes → cValue fuel opts e c = some (slot, c') → slot.returned = false ∧ NR c'.scopes

theorem constSlot_NR (c : CState) (v : Value) (hN : NR c.scopes) : (constSlot c v).1.returned = false ∧ NR (constSlot c v).2.scopes := by
  obtain ⟨h1, _⟩ := kOf_shape c v
  have hsc : (constSlot c v).2.scopes = c.scopes := by
    show (kOf c v).2.scopes = _
    rw [h1]
  exact ⟨rfl, by rw [hsc]; exact hN⟩

theorem toSlots_NR (G : String → Prop) (fuel : Nat) (IH : NRL G fuel) : ∀ (args : List Expr), (∀ a, a ∈ args → TF G false a) →
    ∀ (c c' : CState) (slots : List JSlot) (sc : Scope) (rs : List Scope) (pool : List KConst) (ps : List (List KConst)),
      c.scopes = sc :: rs → c.pools = pool :: ps → sc.top = false → c.map.length = c.buf.length → LkL G c.scopes → NR c.scopes →
      toSlots (cValue fuel) args c = some (slots, c') → NR c'.scopes := by
  intro args
  induction args with
  | nil =>
    intro _ c c' slots sc rs pool ps _ _ _ _ _ hN h
    simp only [toSlots, Option.some.injEq, Prod.mk.injEq] at h
    rw [← h.2]; exact hN
  | cons a as ih =>
    intro hT c c' slots sc rs pool ps hs hp htop hm hL hN h
    simp only [toSlots, Option.bind_eq_bind, Option.bind_eq_some_iff, Prod.exists, Option.pure_def, Option.some.injEq, Prod.mk.injEq] at h
    obtain ⟨sl1, c1, hx, ss, c2, hrest, _, hc2⟩ := h
    rw [← hc2]
    have S1 := (tf_shapeM_at G fuel false a {} c c1 sl1 sc rs pool ps rfl rfl hs hp htop hm (hT a (by simp)) hL hx).1
    obtain ⟨sc1, pool1, hs1, hp1, ht1, hL1, _⟩ := S1.out
    have hN1 := (IH a {} c c1 sl1 sc rs pool ps rfl rfl hs hp htop hm (hT a (by simp)) hL hN hx).2
    exact ih (fun e he => hT e (by simp [he])) c1 c2 ss sc1 rs pool1 ps hs1 hp1 (by rw [ht1]; exact htop) (S1.mapLen hm) hL1 hN1 hrest

theorem cCall_NR (G : String → Prop) (fuel : Nat) (IH : NRL G fuel) (f : String) (args : List Expr)
    (hTa : ∀ a, a ∈ args → TF G false a) (c cq : CState) (slot : JSlot) (sc : Scope) (rs : List Scope) (pool : List KConst) (ps : List (List KConst))
    (hs : c.scopes = sc :: rs) (hp : c.pools = pool :: ps) (htop : sc.top = false) (hm : c.map.length = c.buf.length) (hL : LkL G c.scopes)
    (hN : NR c.scopes) (h : cCall (cValue fuel) {} (.sym f) args c = some (slot, cq)) : slot.returned = false ∧ NR cq.scopes := by
  obtain ⟨head, c1, slots, c2, c3, cT, c4, c5, h1, h2, h3, hT, hEm, hf1, hf2⟩ := cCall_steps (cValue fuel) f args c cq slot h
  have S1 := (tf_shapeM_at G fuel false (.sym f) {} c c1 head sc rs pool ps rfl rfl hs hp htop hm (.sym f) hL h1).1
  obtain ⟨sc1, pool1, hs1, hp1, ht1, hL1, _⟩ := S1.out
  have hm1 := S1.mapLen hm
  have hN1 := (IH (.sym f) {} c c1 head sc rs pool ps rfl rfl hs hp htop hm (.sym f) hL hN h1).2
  have S2 := toSlots_shapeM G fuel (tf_shapeM_at G fuel) false args hTa c1 c2 slots sc1 rs pool1 ps hs1 hp1 (by rw [ht1]; exact htop) hm1 hL1 h2
  obtain ⟨sc2, pool2, hs2, hp2, _, _, _⟩ := S2.out
  have hN2 := toSlots_NR G fuel IH args hTa c1 c2 slots sc1 rs pool1 ps hs1 hp1 (by rw [ht1]; exact htop) hm1 hL1 hN1 h2
  have R3 := pushSlots_stepR slots c2 c3 sc2 rs pool2 ps hs2 hp2 h3
  obtain ⟨sc3, pool3, hs3, hp3, _, _⟩ := R3.out
  have R4 := getTarget_stepR c3 cT {} slot rfl sc3 rs pool3 ps hs3 hp3 hT
  obtain ⟨sc4, pool4, hs4, hp4, _, _⟩ := R4.out
  have R5 := emitSS_stepR cT c4 _ slot head true sc4 rs pool4 ps hs4 hp4 hEm
  obtain ⟨sc5, pool5, hs5, hp5, _, _⟩ := R5.out
  have R6 := freeslots_stepR slots c4 c5 sc5 rs pool5 ps hs5 hp5 hf1
  obtain ⟨sc6, pool6, hs6, hp6, _, _⟩ := R6.out
  have R7 := freeslot_stepR c5 cq head sc6 rs pool6 ps hs6 hp6 hf2
  refine ⟨?_, ((((hN2.of_lk (R3.lk hs2)).of_lk (R4.lk hs3)).of_lk (R5.lk hs4)).of_lk (R6.lk hs5)).of_lk (R7.lk hs6)⟩
  obtain ⟨r, hr⟩ := getTarget_slot c3 cT {} rfl slot hT
  rw [hr]

theorem doBody_NR (G : String → Prop) (fuel : Nat) (IH : NRL G fuel) : ∀ (body : List Expr), (∀ e, e ∈ body → TF G false e) →
    ∀ (opts : Fopts) (c c' : CState) (slot : JSlot) (sc : Scope) (rs : List Scope) (pool : List KConst) (ps : List (List KConst)),
      opts.tail = false → opts.hint = none → c.scopes = sc :: rs → c.pools = pool :: ps → sc.top = false → c.map.length = c.buf.length →
      LkL G c.scopes → NR c.scopes → doBody (cValue fuel) opts body c = some (slot, c') → slot.returned = false ∧ NR c'.scopes := by
  intro body
  induction body with
  | nil =>
    intro _ opts c c' slot sc rs pool ps _ _ _ _ _ _ _ hN h
    simp only [doBody, Option.some.injEq, Prod.mk.injEq] at h
    rw [← h.1, ← h.2]
    exact ⟨rfl, hN⟩
  | cons x t ih =>
    intro hT opts c c' slot sc rs pool ps ht hh hs hp htop hm hL hN h
    cases t with
    | nil =>
      simp only [doBody] at h
      exact IH x opts c c' slot sc rs pool ps ht hh hs hp htop hm (hT x (by simp)) hL hN h
    | cons y r =>
      simp only [doBody, Option.bind_eq_bind, Option.bind_eq_some_iff, Prod.exists] at h
      obtain ⟨sl1, c1, hx, c1f, hf, hrest⟩ := h
      have S1 := (tf_shapeM_at G fuel false x { drop := true } c c1 sl1 sc rs pool ps rfl rfl hs hp htop hm (hT x (by simp)) hL hx).1
      obtain ⟨sc1, pool1, hs1, hp1, ht1, hL1, _⟩ := S1.out
      have hN1 := (IH x { drop := true } c c1 sl1 sc rs pool ps rfl rfl hs hp htop hm (hT x (by simp)) hL hN hx).2
      have R2 := freeslot_stepR c1 c1f sl1 sc1 rs pool1 ps hs1 hp1 hf
      have S2 := R2.shp hs1 hL1
      obtain ⟨sc2, pool2, hs2, hp2, ht2, hL2, _⟩ := S2.out
      exact ih (fun e he => hT e (by simp [he])) opts c1f c' slot sc2 rs pool2 ps ht hh hs2 hp2
        (by rw [ht2, ht1]; exact htop) (R2.mapLen (S1.mapLen hm)) hL2 (hN1.of_lk (R2.lk hs1)) hrest

theorem do_NR (G : String → Prop) (fuel : Nat) (IH : NRL G fuel) (body : List Expr) (hT : ∀ e, e ∈ body → TF G false e)
    (opts : Fopts) (ht : opts.tail = false) (hh : opts.hint = none)
    (c c' : CState) (slot : JSlot) (sc : Scope) (rs : List Scope) (pool : List KConst) (ps : List (List KConst))
    (hs : c.scopes = sc :: rs) (hp : c.pools = pool :: ps) (hm : c.map.length = c.buf.length) (hL : LkL G c.scopes) (hN : NR c.scopes)
    (h : cDo (cValue fuel) opts body c = some (slot, c')) : slot.returned = false ∧ NR c'.scopes := by
  simp only [cDo, Option.bind_eq_bind, Option.bind_eq_some_iff, Prod.exists, Option.pure_def, Option.some.injEq, Prod.mk.injEq] at h
  obtain ⟨r, c2, hbody, c3, hpop, hslot, hc3⟩ := h
  subst hslot hc3
  rw [pushScope_blk c sc rs false hs] at hbody
  have hLP : LkL G (blk c sc false :: sc :: rs) := by
    rw [hs] at hL; exact hL.push _ rfl rfl
  have hlk1 : ∀ x, lk (blk c sc false :: sc :: rs) x = lk c.scopes x := by
    intro x; rw [hs]; exact lk_push (blk c sc false) (sc :: rs) rfl rfl rfl x
  obtain ⟨S1, _⟩ := doBody_shapeM G fuel (tf_shapeM_at G fuel) false body hT opts { c with scopes := blk c sc false :: sc :: rs } c2 r (blk c sc false)
    (sc :: rs) pool ps ht hh rfl hp rfl hm hLP hbody
  obtain ⟨hr, _⟩ := doBody_NR G fuel IH body hT opts { c with scopes := blk c sc false :: sc :: rs } c2 r (blk c sc false)
    (sc :: rs) pool ps ht hh rfl hp rfl hm hLP (hN.of_lk hlk1) hbody
  refine ⟨hr, ?_⟩
  obtain ⟨ra2, ns2, more2, seg2, segm2, hc2, _, _, _⟩ := S1
  have hs2 : c2.scopes = { blk c sc false with ra := ra2, syms := (blk c sc false).syms ++ ns2 } :: sc :: rs := by rw [hc2]
  obtain ⟨raX, hc3, _, _, _⟩ := popScopeKeep_block c2 c3 r _ sc rs hs2 rfl rfl rfl hpop
  refine hN.of_lk (fun x => ?_)
  rw [hc3, hs]
  have hinv : ∀ q, q ∈ ((blk c sc false).syms ++ ns2).map (fun q : SymPair => { q with visible := false }) → q.visible = false := by
    intro q hq
    simp only [List.mem_map] at hq
    obtain ⟨q0, _, rfl⟩ := hq
    rfl
  exact (lk_append_invisible { sc with ra := raX } rs _ hinv x).trans (lk_ra sc rs raX x)

theorem nameslot_NR (c : CState) (name : String) (s : JSlot) (sc : Scope) (rs : List Scope) (hs : c.scopes = sc :: rs) (hN : NR c.scopes)
    (hr : s.returned = false) : NR (nameslot c name s).scopes := by
  let pair : SymPair := { name := name, slot := { s with named := true } }
  have hsn : (nameslot c name s).scopes = { sc with syms := sc.syms ++ [pair] } :: rs := by
    simp only [nameslot, hs]
    rfl
  rw [hsn]
  rw [hs] at hN
  intro x slot u l hx
  rw [lk_snoc sc rs pair rfl x] at hx
  cases hb : (pair.name == x) with
  | true =>
    rw [hb] at hx
    simp only [if_true, Option.some.injEq, Prod.mk.injEq] at hx
    obtain ⟨e1, _, _⟩ := hx
    subst e1
    exact hr
  | false =>
    rw [hb] at hx
    simp only [Bool.false_eq_true, if_false] at hx
    exact hN x slot u l hx

theorem namelocal_fresh_NR (c c2 : CState) (name : String) (r : JSlot) (mf : Bool) (sc : Scope) (rs : List Scope)
    (pool : List KConst) (ps : List (List KConst)) (hs : c.scopes = sc :: rs) (hp : c.pools = pool :: ps) (hN : NR c.scopes)
    (h : (do let (ls, c1) ← farslot c
             let c2 ← copySlot c1 ls r
             pure (nameslot c2 name { ls with mutable := mf })) = some c2) : NR c2.scopes := by
  simp only [Option.bind_eq_bind, Option.bind_eq_some_iff, Prod.exists, Option.pure_def, Option.some.injEq] at h
  obtain ⟨ls, c1a, h1, c1b, h2, h3⟩ := h
  rw [farslot_eq] at h1
  obtain ⟨d, hd⟩ := getTarget_slot c c1a {} rfl ls h1
  have R1 := getTarget_stepR c c1a {} ls rfl sc rs pool ps hs hp h1
  obtain ⟨sc1, pool1, hs1, hp1, _, _⟩ := R1.out
  have R2 := copySlot_stepR c1a c1b ls r sc1 rs pool1 ps hs1 hp1 h2
  obtain ⟨sc2, pool2, hs2, hp2, _, _⟩ := R2.out
  rw [← h3]
  exact nameslot_NR c1b name _ sc2 rs hs2 ((hN.of_lk (R1.lk hs)).of_lk (R2.lk hs1)) (by rw [hd])

theorem namelocal_NR (c c2 : CState) (name : String) (r : JSlot) (sc : Scope) (rs : List Scope)
    (pool : List KConst) (ps : List (List KConst)) (hs : c.scopes = sc :: rs) (hp : c.pools = pool :: ps) (hN : NR c.scopes)
    (hsl : SlotSh r) (hr : r.returned = false) (h : namelocal c name false r = some c2) : NR c2.scopes := by
  obtain ⟨k, cf, nm, mu, ret⟩ := r
  simp only at hr
  subst hr
  rcases hsl with ⟨_, kc, hk⟩ | ⟨hcf, r0, hk⟩
  · simp only at hk; subst hk
    have hX : namelocal c name false { k := .const kc, cflag := cf, named := nm, mutable := mu, returned := false } =
        (do let (ls, c1) ← farslot c
            let c2 ← copySlot c1 ls { k := .const kc, cflag := cf, named := nm, mutable := mu, returned := false }
            pure (nameslot c2 name { ls with mutable := false })) := by
      simp [namelocal]
    rw [hX] at h
    exact namelocal_fresh_NR c c2 name _ false sc rs pool ps hs hp hN h
  · simp only at hk hcf; subst hk hcf
    by_cases hal : nm = true ∧ mu = false
    · obtain ⟨e1, e2⟩ := hal
      subst e1 e2
      simp [namelocal] at h
      rw [← h]
      exact nameslot_NR c name _ sc rs hs hN rfl
    · have hX : namelocal c name false { k := .loc r0, cflag := false, named := nm, mutable := mu, returned := false } =
          (do let (ls, c1) ← farslot c
              let c2 ← copySlot c1 ls { k := .loc r0, cflag := false, named := nm, mutable := mu, returned := false }
              pure (nameslot c2 name { ls with mutable := false })) := by
        cases nm <;> cases mu <;> simp_all [namelocal]
      rw [hX] at h
      exact namelocal_fresh_NR c c2 name _ false sc rs pool ps hs hp hN h

theorem def_NR (G : String → Prop) (fuel : Nat) (IH : NRL G fuel) (x : String) (ve : Expr) (hTv : TF G false ve)
    (c c' : CState) (slot : JSlot) (sc : Scope) (rs : List Scope) (pool : List KConst) (ps : List (List KConst))
    (hs : c.scopes = sc :: rs) (hp : c.pools = pool :: ps) (htop : sc.top = false) (hm : c.map.length = c.buf.length) (hL : LkL G c.scopes)
    (hN : NR c.scopes) (h : cDef (cValue fuel) x ve c = some (slot, c')) : slot.returned = false ∧ NR c'.scopes := by
  have hct : curTop c = false := by simp [curTop, hs, htop]
  simp only [cDef, hct, Bool.false_eq_true, if_false, Option.bind_eq_bind, Option.bind_eq_some_iff, Prod.exists, Option.pure_def,
    Option.some.injEq, Prod.mk.injEq] at h
  obtain ⟨r, c1, hv, c2, hnl, hslot, hc2⟩ := h
  subst hslot hc2
  obtain ⟨S1, hsl⟩ := tf_shapeM_at G fuel false ve {} c c1 r sc rs pool ps rfl rfl hs hp htop hm hTv hL hv
  obtain ⟨sc1, pool1, hs1, hp1, _, _, _⟩ := S1.out
  obtain ⟨hr, hN1⟩ := IH ve {} c c1 r sc rs pool ps rfl rfl hs hp htop hm hTv hL hN hv
  exact ⟨hr, namelocal_NR c1 c2 x r sc1 rs pool1 ps hs1 hp1 hN1 hsl hr hnl⟩

theorem tf_NRL (G : String → Prop) : ∀ fuel, NRL G fuel := by
  intro fuel
  induction fuel with
  | zero =>
    intro e opts c c' slot sc rs pool ps _ _ _ _ _ _ _ _ _ hc
    simp [cValue] at hc
  | succ fuel ih =>
    intro e opts c c' slot sc rs pool ps ht hh hs hp htop hm hT hL hN hc
    cases hT with
    | lit w hw =>
      rw [cValue_lit_o fuel opts ht hh w hw c] at hc
      simp only [Option.some.injEq, Prod.mk.injEq] at hc
      obtain ⟨h1, h2⟩ := hc
      subst h1 h2
      exact constSlot_NR c w hN
    | sym x =>
      rw [cValue_sym_o fuel opts ht hh] at hc
      cases hlk : lk c.scopes x with
      | none =>
        rw [resolve_global c x (by rw [lookupSlot_lk]; exact hlk)] at hc
        have hg : globalSlot c x = some (constSlot c (.cfun x)) := by
          unfold globalSlot at hc ⊢
          split at hc <;> simp_all [fin]
        rw [hg] at hc
        simp only [fin, Option.some.injEq, Prod.mk.injEq] at hc
        obtain ⟨h1, h2⟩ := hc
        subst h1 h2
        exact constSlot_NR c (.cfun x) hN
      | some r =>
        obtain ⟨sl, u, l⟩ := r
        obtain ⟨hl, hcf, hk, _⟩ := hL.2 x sl u l hlk
        subst hl
        rw [resolve_local c x sl u (by rw [lookupSlot_lk]; exact hlk) hcf] at hc
        simp only [fin, Option.some.injEq, Prod.mk.injEq] at hc
        obtain ⟨h1, h2⟩ := hc
        subst h1 h2
        exact ⟨hN x sl u true hlk, hN⟩
    | call f args pp hf hna hG hTa =>
      rw [cValue_call_o fuel opts ht hh f args pp c hf] at hc
      obtain ⟨q, hq⟩ := curAt_eq c pp
      cases hcc : cCall (cValue fuel) {} (.sym f) args (curAt c pp) with
      | none => rw [hcc] at hc; simp [fin] at hc
      | some res =>
        obtain ⟨slot0, cq⟩ := res
        rw [hcc] at hc
        simp only [fin, Option.some.injEq, Prod.mk.injEq] at hc
        obtain ⟨hsl, hc'⟩ := hc
        subst hsl hc'
        rw [hq] at hcc
        exact cCall_NR G fuel ih f args hTa { c with cur := q } cq slot0 sc rs pool ps hs hp htop hm hL hN hcc
    | doo body pp hTb =>
      rw [cValue_do_o fuel opts ht hh body pp c] at hc
      obtain ⟨q, hq⟩ := curAt_eq c pp
      cases hcc : cDo (cValue fuel) opts body (curAt c pp) with
      | none => rw [hcc] at hc; simp [fin] at hc
      | some res =>
        obtain ⟨slot0, cq⟩ := res
        rw [hcc] at hc
        simp only [fin, Option.some.injEq, Prod.mk.injEq] at hc
        obtain ⟨hsl, hc'⟩ := hc
        subst hsl hc'
        rw [hq] at hcc
        exact do_NR G fuel ih body hTb opts ht hh { c with cur := q } cq slot0 sc rs pool ps hs hp hm hL hN hcc
    | ups body pp hTb =>
      rw [cValue_upscope_o fuel opts ht hh body pp c] at hc
      obtain ⟨q, hq⟩ := curAt_eq c pp
      cases hcc : doBody (cValue fuel) opts body (curAt c pp) with
      | none => rw [hcc] at hc; simp [fin] at hc
      | some res =>
        obtain ⟨slot0, cq⟩ := res
        rw [hcc] at hc
        simp only [fin, Option.some.injEq, Prod.mk.injEq] at hc
        obtain ⟨hsl, hc'⟩ := hc
        subst hsl hc'
        rw [hq] at hcc
        exact doBody_NR G fuel ih body hTb opts { c with cur := q } cq slot0 sc rs pool ps ht hh hs hp htop hm hL hN hcc
    | deff x ve pp hGx hTv =>
      rw [cValue_def_o fuel opts ht hh x ve pp c] at hc
      obtain ⟨q, hq⟩ := curAt_eq c pp
      cases hcc : cDef (cValue fuel) x ve (curAt c pp) with
      | none => rw [hcc] at hc; simp [fin] at hc
      | some res =>
        obtain ⟨slot0, cq⟩ := res
        rw [hcc] at hc
        simp only [fin, Option.some.injEq, Prod.mk.injEq] at hc
        obtain ⟨hsl, hc'⟩ := hc
        subst hsl hc'
        rw [hq] at hcc
        exact def_NR G fuel ih x ve hTv { c with cur := q } cq slot0 sc rs pool ps hs hp htop hm hL hN hcc
    | iff cnd tb rest pp hb _ _ _ _ _ => exact absurd hb (by simp)

/-- the hypothesis of the tail induction (`tf_tail_correct_gen`, Compile/SeqTailAll.lean) for `TF G false`, discharged -/
theorem tf_NR (G : String → Prop) (fuel : Nat) : NRAt G (TF G false) fuel := by
  intro e opts c c' slot sc rs pool ps env nb ht hh hs hp htop hm hT hE hN hc
  exact tf_NRL G fuel e opts c c' slot sc rs pool ps ht hh hs hp htop hm hT hE.lkl hN hc

end JanetModel.Compile
