/- C02: error propagation, the `if` case (third part): the CONDITION raises (both paths of `janetc_if`: everything compiled after
   the condition only appends and is never reached; the patches hit positions behind the condition's code), and the assembled
   `if` case `if_err_core` (shape of `ErrIfCase`). -/
import JanetModel.Compile.SeqErrIfConst
import JanetModel.Compile.SeqIfM
namespace JanetModel.Compile
open JanetModel.Emit JanetModel.Lang JanetModel.Bytecode.Exec JanetModel.Gen.Bytecode

theorem ifPatch_prefix (nj : Bool) (a r : List CI) (i off j : Nat) (hi : a.length ≤ i) (hj : a.length ≤ j) :
    ∃ r', ifPatch nj (a ++ r) i off j = a ++ r' := by
  unfold ifPatch
  split
  · exact ⟨_, modBuf_append _ _ _ _ hi⟩
  · rw [modBuf_append _ _ _ _ hi, modBuf_append _ _ _ _ hj]
    exact ⟨_, rfl⟩

/-- the target of an `if`: the scope's allocator only grows -/
theorem if_target_eq (c c1 : CState) (opts : Fopts) (hh : opts.hint = none) (target : JSlot) (sc : Scope) (rs : List Scope) (hs : c.scopes = sc :: rs)
    (hT : (if opts.drop then some (cslot .nil, c) else getTarget c opts) = some (target, c1)) :
    ∃ raT, c1 = { c with scopes := { sc with ra := raT } :: rs } ∧ sc.ra.max ≤ raT.max ∧ ∀ j, sc.ra.alloc j = true → raT.alloc j = true := by
  split at hT
  · simp only [Option.some.injEq, Prod.mk.injEq] at hT
    exact ⟨sc.ra, by rw [← hT.2]; exact cstate_scopes_eta c sc rs hs, Nat.le_refl _, fun _ h => h⟩
  · simp only [getTarget, hh, allocFar, hs] at hT
    split at hT
    · exact absurd hT (by simp)
    · simp only [Option.bind_eq_bind, Option.bind_some, Option.pure_def, Option.some.injEq, Prod.mk.injEq] at hT
      exact ⟨_, hT.2.symm, alloc1_max_mono sc.ra, fun j hj => by simp [RA.alloc1, RA.mark, hj]⟩

/-- one branch, compile side, as an append-only step -/
theorem branch_app (G : String → Prop) (fuel : Nat) (b : Bool) (x : Expr) (hx : TF G b x)
    (opts : Fopts) (ht : opts.tail = false) (hh : opts.hint = none) (target : JSlot)
    (c c6 c7 c8 : CState) (left : JSlot) (sc : Scope) (rs : List Scope) (pool : List KConst) (ps : List (List KConst))
    (hs : c.scopes = sc :: rs) (hp : c.pools = pool :: ps) (hm : c.map.length = c.buf.length) (hL : LkL G c.scopes)
    (h1 : cValue fuel opts x (pushScope c false false false false) = some (left, c6))
    (h2 : ifCopy opts.drop c6 target left = some c7) (h3 : popScope c7 = some c8) :
    App c c8 rs ps ∧ c8.map.length = c8.buf.length ∧ LkL G c8.scopes ∧ ∃ sc8 pool8, c8.scopes = sc8 :: rs ∧ c8.pools = pool8 :: ps ∧
      sc8.fn = sc.fn ∧ sc8.unused = sc.unused ∧ sc8.closure = sc.closure := by
  obtain ⟨ra8, ns8, more8, seg8, segm8, hc8, pv8, hl8, inv8, _, max8⟩ :=
    branch_shape2 G fuel b x hx opts ht hh target c c6 c7 c8 left sc rs pool ps hs hp hm hL h1 h2 h3
  have hs8 : c8.scopes = upd sc ra8 ns8 :: rs := by rw [hc8]
  refine ⟨⟨sc, _, pool, more8, seg8, segm8, hs, hs8, max8, hp, by rw [hc8], by rw [hc8], by rw [hc8], pv8⟩, ?_, ?_, _, _, hs8, by rw [hc8], rfl, rfl, rfl⟩
  · rw [hc8]; simp [hm, hl8]
  · refine hL.of_lk (fun y => ?_)
    rw [hs8, hs]; exact lk_upd _ _ _ _ inv8 y

theorem StepR.outF {c c1 : CState} {sc : Scope} {rs : List Scope} {pool : List KConst} {ps : List (List KConst)} (h : StepR c c1 sc rs pool ps) :
    ∃ sc1 pool1, c1.scopes = sc1 :: rs ∧ c1.pools = pool1 :: ps ∧ sc1.fn = sc.fn ∧ sc1.unused = sc.unused ∧ sc1.closure = sc.closure := by
  obtain ⟨ra1, more1, seg1, segm1, hc1, _⟩ := h
  exact ⟨{ sc with ra := ra1 }, pool ++ more1, by rw [hc1], by rw [hc1], rfl, rfl, rfl⟩

section
variable (p : Program) (f0 : Frame) (rest : List Frame) (V : Array Value) (P : List KConst)

theorem if_cond_err (G : String → Prop) (b : Bool) (fuel : Nat) (IHe : ErrAt p f0 rest V P G b fuel)
    (cnd tb fb : Expr) (hTc : TF G b cnd) (hTt : TF G b tb) (hTf : TF G b fb)
    (opts : Fopts) (ht : opts.tail = false) (hh : opts.hint = none)
    (c c' : CState) (slot : JSlot) (sc : Scope) (rs : List Scope) (pool : List KConst) (ps : List (List KConst))
    (n2 : Nat) (pos : Pos) (env : Env) (s s' : SS) (ev : Value) (epos : Pos)
    (hs : c.scopes = sc :: rs) (hp : c.pools = pool :: ps) (hl : c.lim ≤ 240) (hm : c.map.length = c.buf.length) (hcur : c.cur = pos)
    (hc : cIfBody (cValue fuel) opts cnd tb fb c = some (slot, c'))
    (hsc : eval n2 pos env cnd s = .err ev epos s')
    (hE : EnvS G c.scopes env s.boxes.size sc.ra) :
    ErrOK p f0 rest V P c c' rs ps env s s' ev epos := by
  obtain ⟨target, c1, cond, c3, hT, hcond, hrest⟩ := cIfBody_inv _ opts cnd tb fb c c' slot hc
  obtain ⟨raT, hc1, hmaxT, monoT⟩ := if_target_eq c c1 opts hh target sc rs hs hT
  have hs1 : c1.scopes = { sc with ra := raT } :: rs := by rw [hc1]
  have hp1 : c1.pools = pool :: ps := by rw [hc1]; exact hp
  have hl1 : c1.lim ≤ 240 := by rw [hc1]; exact hl
  have hm1 : c1.map.length = c1.buf.length := by rw [hc1]; exact hm
  have hcur1 : c1.cur = pos := by rw [hc1]; exact hcur
  rw [pushScope_blk c1 { sc with ra := raT } rs false hs1] at hcond
  have hlk1 : ∀ y, lk (blk c1 { sc with ra := raT } false :: { sc with ra := raT } :: rs) y = lk c.scopes y := by
    intro y; rw [hs]; exact (lk_push _ _ rfl rfl rfl y).trans (lk_ra sc rs raT y)
  have hE1 : EnvS G (blk c1 { sc with ra := raT } false :: { sc with ra := raT } :: rs) env s.boxes.size (blk c1 { sc with ra := raT } false).ra :=
    hE.of_lk hlk1 (Nat.le_refl _) (fun _ _ _ _ r _ _ h => monoT r h)
  have E3 := IHe cnd {} { c1 with scopes := blk c1 { sc with ra := raT } false :: { sc with ra := raT } :: rs } c3 cond
    (blk c1 { sc with ra := raT } false) ({ sc with ra := raT } :: rs) pool ps n2 pos env s s' ev epos rfl rfl rfl hp1 hl1 rfl hm1 hcur1 hTc hcond hsc hE1
  obtain ⟨S1, _⟩ := tf_shapeM_at G fuel b cnd {} { c1 with scopes := blk c1 { sc with ra := raT } false :: { sc with ra := raT } :: rs } c3 cond
    (blk c1 { sc with ra := raT } false) ({ sc with ra := raT } :: rs) pool ps rfl rfl rfl hp1 rfl hm1 hTc hE1.lkl hcond
  have hm3 : c3.map.length = c3.buf.length := S1.mapLen hm1
  obtain ⟨ra3, ns3, more3, seg3, segm3, hc3, _, hL3, _⟩ := S1
  have hs3 : c3.scopes = upd (blk c1 { sc with ra := raT } false) ra3 ns3 :: { sc with ra := raT } :: rs := by rw [hc3]
  have hp3 : c3.pools = (pool ++ more3) :: ps := by rw [hc3]
  have hb3 : c3.buf = c.buf ++ seg3 := by rw [hc3]; show c1.buf ++ seg3 = _; rw [hc1]
  have hmp3 : c3.map = c.map ++ segm3 := by rw [hc3]; show c1.map ++ segm3 = _; rw [hc1]
  -- what follows the condition: append-only up to the state `cE` before the final pop; `c'` = that pop, possibly patched
  have key : ∃ cE cPop, App c3 cE ({ sc with ra := raT } :: rs) ps ∧
      (∀ scE, cE.scopes = scE :: { sc with ra := raT } :: rs → scE.fn = false ∧ scE.unused = false ∧ scE.closure = false) ∧ popScope cE = some cPop ∧
      c'.scopes = cPop.scopes ∧ c'.pools = cPop.pools ∧ c'.map = cPop.map ∧ c'.vals = cPop.vals ∧
      (∀ r, cE.buf = c3.buf ++ r → ∃ r', c'.buf = c3.buf ++ r') := by
    cases hk : isConstSlot cond with
    | some k =>
      rw [hk] at hrest
      simp only at hrest
      obtain ⟨right, c5, c6, c7, c8, e1, e2, e3, e4, e5, _⟩ := cIfConst_inv _ _ _ _ _ _ _ _ _ hrest
      have hTl : TF G b (if constTruthy k then tb else fb) := by split <;> assumption
      have hTd : TF G b (if constTruthy k then fb else tb) := by split <;> assumption
      obtain ⟨dead, hdead⟩ : ∃ d, d = (if constTruthy k then fb else tb) := ⟨_, rfl⟩
      rw [← hdead] at e4 hTd
      obtain ⟨A7, hm7, hL7, sc7, pool7, hs7, hp7, f71, f72, f73⟩ :=
        branch_app G fuel b _ hTl opts ht hh target c3 c5 c6 c7 right _ ({ sc with ra := raT } :: rs) (pool ++ more3) ps hs3 hp3 hm3 hL3 e1 e2 e3
      have h8 : c8.scopes = c7.scopes ∧ App c7 c8 ({ sc with ra := raT } :: rs) ps := by
        split at e4
        · rw [← Option.some.inj e4]; exact ⟨rfl, App.refl c7 sc7 _ pool7 ps hs7 hp7⟩
        · obtain ⟨more8, hc8, pv8⟩ := throwaway_eq G _ opts dead c7 c8 sc7 ({ sc with ra := raT } :: rs) pool7 ps hs7 hm7 (fun c2 sl h => by
            have hLT : LkL G (blk c7 sc7 true :: sc7 :: { sc with ra := raT } :: rs) := by
              rw [hs7] at hL7; exact hL7.push _ rfl rfl
            exact (tf_shapeM_at G fuel b dead opts { c7 with scopes := (blk c7 sc7 true :: sc7 :: { sc with ra := raT } :: rs) } c2 sl _ _ pool7 ps
              ht hh rfl hp7 rfl hm7 hTd hLT h).1) e4
          exact ⟨by rw [hc8], ⟨sc7, sc7, pool7, more8, [], [], hs7, by rw [hc8]; exact hs7, Nat.le_refl _, hp7, by rw [hc8], by rw [hc8]; simp,
            by rw [hc8]; simp, pv8⟩⟩
      obtain ⟨hsc8, A8⟩ := h8
      have hs8 : c8.scopes = sc7 :: { sc with ra := raT } :: rs := by rw [hsc8]; exact hs7
      refine ⟨c8, c', A7.trans A8, ?_, e5, rfl, rfl, rfl, rfl, fun r hr => ?_⟩
      · intro scE hE'
        rw [hs8] at hE'
        rw [← (List.cons.inj hE').1]
        exact ⟨f71, f72, f73⟩
      · unfold popScope at e5
        rw [hs8] at e5
        simp only at e5
        split at e5 <;> (rw [← Option.some.inj e5]; exact ⟨r, hr⟩)
    | none =>
      rw [hk] at hrest
      simp only at hrest
      obtain ⟨c4, left, c6, c7, c8, right, c11, c12, c13, c14, e1, e2, e3, e4, e5, e6, e7, e8, _, _, _, _, ec'⟩ :=
        cIfJump_inv _ _ _ _ _ _ _ _ _ _ hrest
      obtain ⟨R4, hlen4⟩ := emitSI_stepR c3 c4 _ cond 0 false _ ({ sc with ra := raT } :: rs) (pool ++ more3) ps hs3 hp3 e1
      have M4 : MaxR c3 c4 ({ sc with ra := raT } :: rs) :=
        emitW_maxR c3 c4 _ _ _ (pool ++ more3) ps hs3 hp3 (fun e => W_emitSI_max e _ _ _ _) e1
      have A4 := R4.app hs3 hp3 M4
      have S4 := R4.shp hs3 hL3
      have hm4 := R4.mapLen hm3
      obtain ⟨sc4, pool4, hs4, hp4, g41, g42, g43⟩ := R4.outF
      obtain ⟨_, _, _, _, _, _, _, hL4, _⟩ := S4
      obtain ⟨A8, hm8, hL8, sc8, pool8, hs8, hp8, g81, g82, g83⟩ :=
        branch_app G fuel b tb hTt opts ht hh target c4 c6 c7 c8 left sc4 ({ sc with ra := raT } :: rs) pool4 ps hs4 hp4 hm4 hL4 e2 e3 e4
      have R9 : StepR c8 (ifJmp (opts.drop && fbNilOf fb) c8) sc8 ({ sc with ra := raT } :: rs) pool8 ps := by
        unfold ifJmp
        split
        · exact StepR.refl c8 sc8 _ pool8 ps hs8 hp8
        · exact emitRaw_stepR c8 _ sc8 _ pool8 ps hs8 hp8
      have M9 : MaxR c8 (ifJmp (opts.drop && fbNilOf fb) c8) ({ sc with ra := raT } :: rs) := MaxR.of_eq (by rw [ifJmp_eq])
      have A9 := R9.app hs8 hp8 M9
      have S9 := R9.shp hs8 hL8
      have hm9 := R9.mapLen hm8
      obtain ⟨sc9, pool9, hs9, hp9, g91, g92, g93⟩ := R9.outF
      obtain ⟨_, _, _, _, _, _, _, hL9, _⟩ := S9
      obtain ⟨A13, _, _, sc13, pool13, hs13, _, g131, g132, g133⟩ :=
        branch_app G fuel b fb hTf opts ht hh target _ c11 c12 c13 right sc9 ({ sc with ra := raT } :: rs) pool9 ps hs9 hp9 hm9 hL9 e5 e6 e7
      have AE := A4.trans (A8.trans (A9.trans A13))
      refine ⟨c13, c14, AE, ?_, e8, by rw [ec'], by rw [ec'], by rw [ec'], by rw [ec'], fun r hr => ?_⟩
      · intro scE hE'
        rw [hs13] at hE'
        rw [← (List.cons.inj hE').1, g131, g132, g133, g91, g92, g93, g81, g82, g83, g41, g42, g43]
        exact ⟨rfl, rfl, rfl⟩
      have hb14 : c14.buf = c3.buf ++ r := by
        obtain ⟨scE, scE', poolE, moreE, segE, segmE, _, a2, _⟩ := AE
        unfold popScope at e8
        rw [a2] at e8
        simp only at e8
        split at e8 <;> (rw [← Option.some.inj e8]; exact hr)
      obtain ⟨_, _, _, _, _, _, _, _, _, _, _, b6, _⟩ := A8
      have hi : c3.buf.length ≤ lastLabel c4 := by unfold lastLabel; omega
      have hj : c3.buf.length ≤ c8.buf.length := by rw [b6]; simp; omega
      rw [ec']
      show ∃ r', ifPatch _ c14.buf _ _ _ = _
      rw [hb14]
      exact ifPatch_prefix _ _ _ _ _ _ hi hj
  obtain ⟨cE, cPop, AE, hflags, epop, q1, q2, q3, q4, q5⟩ := key
  obtain ⟨sc3', scE, pool3', moreE, segE, segmE, a1, a2, a3, a4, a5, a6, a7, a8⟩ := AE
  rw [hs3] at a1
  rw [hp3] at a4
  have z1 := (List.cons.inj a1).1
  have z2 := (List.cons.inj a4).1
  subst z1 z2
  obtain ⟨rest', hb'⟩ := q5 segE a6
  obtain ⟨f1, f2, f3⟩ := hflags scE a2
  obtain ⟨raX, hpop, hmaxX, _⟩ := popScope_block cE scE { sc with ra := raT } rs a2 f1 f2 f3
  rw [hpop] at epop
  have hcPop := (Option.some.inj epop).symm
  have hmaxX' : raX.max = (if raT.max < scE.ra.max then scE.ra.max else raT.max) := hmaxX
  have a3' : ra3.max ≤ scE.ra.max := a3
  intro sc' pool' seg segm b1 b2 b3 b4 k hkw hka hD hcode hmap hpre hV hsz
  obtain ⟨kept, hkept⟩ : ∃ kept : List SymPair, kept = scE.syms.map (fun q => { q with visible := false }) := ⟨_, rfl⟩
  have x1 : c'.scopes = { ({ sc with ra := raT } : Scope) with ra := raX, syms := ({ sc with ra := raT } : Scope).syms ++ kept } :: rs := by
    rw [q1, hcPop, hkept]
  have x2 : c'.pools = (pool ++ more3 ++ moreE) :: ps := by rw [q2, hcPop]; exact a5
  have x3 : c'.buf = c.buf ++ (seg3 ++ rest') := by rw [hb', hb3]; simp
  have x4 : c'.map = c.map ++ (segm3 ++ segmE) := by rw [q3, hcPop]; show cE.map = _; rw [a7, hmp3]; simp
  have x5 : c'.vals = cE.vals := by rw [q4, hcPop]
  rw [x1] at b1
  rw [x2] at b2
  rw [x3] at b3
  rw [x4] at b4
  have y1 := (List.cons.inj b1).1
  have y2 := (List.cons.inj b2).1
  have y3 := List.append_cancel_left b3
  have y4 := List.append_cancel_left b4
  subst y1 y2 y3 y4
  rw [x5] at hV
  have hsz' : raX.max < k.regs.size := hsz
  exact E3 _ _ seg3 segm3 hs3 hp3 (by rw [hc3]) (by rw [hc3]) k hkw hka (hD.of_lk hlk1) hcode.left hmap.left
    (PrefL.trans ⟨moreE, rfl⟩ hpre) (PrefA.trans a8 hV) (by show ra3.max < _; rw [hmaxX'] at hsz'; split at hsz' <;> omega)

/-- the `if` case of the error induction -/
theorem if_err_core (hP : P.length < 65536)
    (hK : ∀ i, i < P.length → (p.defs.getD f0.defIdx default).consts.getD i .nil = litOf V (P.getD i .nil))
    (G : String → Prop) (b w : Bool) (fuel : Nat) (IH : CorrectAt p f0 rest V P G (TF G b) w fuel) (IHe : ErrAt p f0 rest V P G b fuel) :
    ErrIfCase p f0 rest V P G b fuel := by
  intro cnd tb els pp hok hlen hTc hTt hTe opts c c' slot sc rs pool ps n cur env s s' ev epos ht hh hs hp hl htop hm hcur hc hsem hE
  rw [cValue_if_o fuel opts ht hh cnd tb els pp c, cIf_le1 _ _ _ _ _ _ hlen] at hc
  have hq := posOf_curAt c cur pp hcur
  cases hcc : cIfBody (cValue fuel) opts cnd tb (els.headD (.lit .nil)) (curAt c pp) with
  | none => rw [hcc] at hc; simp [fin] at hc
  | some res =>
    obtain ⟨slot0, cq⟩ := res
    rw [hcc] at hc
    simp only [fin, Option.some.injEq, Prod.mk.injEq] at hc
    rw [← hc.2]
    rw [hq] at hcc
    obtain ⟨n2, hn, hcase⟩ := eval_if_err_inv n cur env cnd tb els pp s s' ev epos hsem
    have hTf : TF G b (els.headD (.lit .nil)) := by
      cases els with
      | nil => exact .lit .nil trivial
      | cons e _ => exact hTe e (by simp)
    refine ErrOK.recur p f0 rest V P (q := posOf cur pp) ?_
    rcases hcase with hce | ⟨cv, cenv, s1, hsc, hsb⟩
    · exact if_cond_err p f0 rest V P G b fuel IHe cnd tb _ hTc hTt hTf opts ht hh { c with cur := posOf cur pp } cq slot0 sc rs pool ps n2 (posOf cur pp)
        env s s' ev epos hs hp hl hm rfl hcc hce hE
    · obtain ⟨target, c1, cond, c3, hT, hcond, hrest⟩ := cIfBody_inv _ opts cnd tb _ _ cq slot0 hcc
      cases hk : isConstSlot cond with
      | none =>
        rw [hk] at hrest
        simp only at hrest
        exact if_jump_err p f0 rest V P hP hK G b w fuel IH IHe cnd tb _ hTc hTt hTf opts ht hh { c with cur := posOf cur pp } cq slot0 sc rs pool ps
          n2 (posOf cur pp) env cenv s s1 s' cv ev epos hs hp hl hm rfl target c1 c3 cond hT hcond hk hrest hsc hsb hE
      | some k =>
        rw [hk] at hrest
        simp only at hrest
        have hR1 : StepR { c with cur := posOf cur pp } c1 sc rs pool ps := by
          split at hT
          · simp only [Option.some.injEq, Prod.mk.injEq] at hT
            rw [← hT.2]; exact StepR.refl _ sc rs pool ps hs hp
          · exact getTarget_stepR _ c1 opts target hh sc rs pool ps hs hp hT
        obtain ⟨ra1, more1, seg1, segm1, hc1, _⟩ := hR1
        have hs1 : c1.scopes = { sc with ra := ra1 } :: rs := by rw [hc1]
        have hlk2 : ∀ y, lk (pushScope c1 false false false false).scopes y = lk c.scopes y := by
          intro y
          rw [pushScope_blk c1 _ rs false hs1, hs]
          exact (lk_push _ _ rfl rfl rfl y).trans (lk_ra sc rs ra1 y)
        have hct : truthy cv = constTruthy k :=
          condT_of_ok G b fuel cnd hok hTc _ c3 cond k n2 (posOf cur pp) env cenv s s1 cv (hE.lkl.of_lk hlk2)
            (fun x hx => by
              rw [hlk2] at hx
              rcases hE.2 x with ⟨_, h2⟩ | ⟨sl, r, a, u, h1, _⟩
              · exact h2
              · rw [hx] at h1; exact absurd h1 (by simp))
            hcond hk hsc
        exact if_const_err p f0 rest V P G b w fuel IH IHe cnd tb _ hTc hTt hTf opts ht hh { c with cur := posOf cur pp } cq slot0 sc rs pool ps
          n2 (posOf cur pp) env cenv s s1 s' cv ev epos hs hp hl hm rfl target c1 c3 cond k hT hcond hrest hsc hct hsb hE

/-- error propagation for the whole fragment `TF G b` (with `if`), given the non-error theorem -/
theorem tf_err_correct_b (hP : P.length < 65536)
    (hK : ∀ i, i < P.length → (p.defs.getD f0.defIdx default).consts.getD i .nil = litOf V (P.getD i .nil))
    (FF : FloatFacts) (G : String → Prop) (b w : Bool) (CN : ∀ fuel, CorrectAt p f0 rest V P G (TF G b) w fuel) :
    ∀ fuel, ErrAt p f0 rest V P G b fuel :=
  tf_err_correct_gen p f0 rest V P hP hK FF G b w CN (fun _ fuel IHe => if_err_core p f0 rest V P hP hK G b w fuel (CN fuel) IHe)

end

end JanetModel.Compile
